import LabtechModel.Proofs.InvRun
/-!
# The master invariant is preserved by handling one yielded outcome (`process_completed_tasks` body)
-/
namespace Lt

/-- the runner stores a successful result right before yielding it -/
def addRes (res : List (Tid × Val)) (t : Tid) : Outcome → List (Tid × Val)
  | .ok v => (t, v) :: res.filter (fun kv => kv.1 ≠ t)
  | _ => res

theorem processYield_shape (cfg : Config) (req : List Tid) (rs : RS) (t : Tid) (o : Outcome)
    (s' : TS) (rem : List Tid) (hc : completeTask rs.ts t = some (s', rem)) (hrun : rs.status = .running) :
    (processYield cfg req rs t o).ts = s' ∧
    (processYield cfg req rs t o).futs = rs.futs ∧
    (processYield cfg req rs t o).queued = rs.queued ∧
    (processYield cfg req rs t o).running = rs.running ∧
    (∃ tail, (processYield cfg req rs t o).trace = rs.trace ++ Ev.yield t o :: tail ∧
       ∀ e ∈ tail, ∃ a b, e = Ev.remove a b) ∧
    ((processYield cfg req rs t o).status = .running ∨
       (processYield cfg req rs t o).status = .raised (.labError t)) ∧
    ((processYield cfg req rs t o).status = .running →
       (processYield cfg req rs t o).results = removeResults (addRes rs.results t o) rem) := by
  have hsingle : ∀ (a : List Tid) (b : List Tid) (e : Ev), e ∈ [Ev.remove a b] → ∃ a b, e = Ev.remove a b := by
    intro a b e he; simp only [List.mem_singleton] at he; exact ⟨_, _, he⟩
  cases o with
  | ok v =>
    simp only [processYield, hc, addRes]
    exact ⟨trivial, trivial, trivial, trivial, ⟨_, List.append_assoc _ _ _, hsingle _ _⟩, Or.inl hrun, fun _ => trivial⟩
  | exc =>
    simp only [processYield, hc, addRes]
    cases hcf : cfg.contOnFail
    · refine ⟨trivial, trivial, trivial, trivial, ⟨[], by simp, by simp⟩, Or.inr (by simp), ?_⟩
      intro h; simp at h
    · exact ⟨trivial, trivial, trivial, trivial, ⟨_, List.append_assoc _ _ _, hsingle _ _⟩, Or.inl (by simpa using hrun),
        fun _ => by simp⟩
  | died =>
    simp only [processYield, hc, addRes]
    cases hcf : cfg.contOnFail
    · refine ⟨trivial, trivial, trivial, trivial, ⟨[], by simp, by simp⟩, Or.inr (by simp), ?_⟩
      intro h; simp at h
    · exact ⟨trivial, trivial, trivial, trivial, ⟨_, List.append_assoc _ _ _, hsingle _ _⟩, Or.inl (by simpa using hrun),
        fun _ => by simp⟩

theorem quiet_removes (tail : List Ev) (h : ∀ e ∈ tail, ∃ a b, e = Ev.remove a b) : Quiet tail := by
  intro e he
  obtain ⟨a, b, rfl⟩ := h e he
  exact ⟨rfl, rfl⟩

theorem mem_addRes (res : List (Tid × Val)) (t : Tid) (o : Outcome) (hno : ∀ w, (t, w) ∉ res)
    (d : Tid) (w : Val) :
    (d, w) ∈ addRes res t o ↔ ((d = t ∧ o = .ok w) ∨ (d ≠ t ∧ (d, w) ∈ res)) := by
  by_cases hdt : d = t
  · subst hdt
    cases o with
    | ok v =>
      simp only [addRes, List.mem_cons, Prod.mk.injEq, true_and, List.mem_filter, ne_eq,
        not_true_eq_false, decide_false, Bool.false_eq_true, and_false, or_false, Outcome.ok.injEq]
      simp only [false_and, or_false]
      exact eq_comm
    | exc => simp [addRes, hno]
    | died => simp [addRes, hno]
  · cases o with
    | ok v => simp [addRes, hdt]
    | exc => simp [addRes, hdt]
    | died => simp [addRes, hdt]

theorem addRes_nodup (res : List (Tid × Val)) (t : Tid) (o : Outcome) (h : (res.map Prod.fst).Nodup) :
    ((addRes res t o).map Prod.fst).Nodup := by
  cases o with
  | ok v =>
    simp only [addRes, List.map_cons, List.nodup_cons]
    refine ⟨?_, keys_filter_nodup _ _ h⟩
    simp only [List.mem_map, List.mem_filter, ne_eq, decide_eq_true_eq, not_exists, not_and]
    intro kv hkv hk
    exact absurd hk hkv.2
  | exc => exact h
  | died => exact h

theorem yieldStep_inv {cfg : Config} {p : Problem} {P : TS} {extra : List Tid} {rs : RS} {t : Tid}
    (req : List Tid) (o : Outcome) (hP : PI P) (hc : Core p P rs) (he : Exec cfg P (t :: extra) rs)
    (hrun : rs.status = .running) :
    Core p P (processYield cfg req { rs with futs := rs.futs.filter (· ≠ t) } t o) ∧
    ((processYield cfg req { rs with futs := rs.futs.filter (· ≠ t) } t o).status = .running →
      Exec cfg P extra (processYield cfg req { rs with futs := rs.futs.filter (· ≠ t) } t o)) ∧
    yielded (processYield cfg req { rs with futs := rs.futs.filter (· ≠ t) } t o) = yielded rs ++ [t] := by
  have htF : t ∈ rs.futs := he.perm.mem_iff.mp (by simp)
  have htA : t ∈ rs.ts.active := (hc.futsAct t).mp htF
  have htY : t ∉ yielded rs := hc.ts.disjAY t htA
  obtain ⟨s', rem, hct, hts', hpend, hact, hrem⟩ := completeTask_TSInv P hP _ rs.ts t hc.ts htA
  obtain ⟨h1, h2, h3, h4, ⟨tail, htr, htail⟩, hst, hres⟩ :=
    processYield_shape cfg req { rs with futs := rs.futs.filter (· ≠ t) } t o s' rem hct hrun
  generalize processYield cfg req { rs with futs := rs.futs.filter (· ≠ t) } t o = rs' at *
  simp only at h2 h3 h4 htr hres
  have hqt := quiet_removes tail htail
  have htr' : rs'.trace = (rs.trace ++ [Ev.yield t o]) ++ tail := by rw [htr]; simp
  have hY : yieldedOf rs'.trace = yielded rs ++ [t] := by
    rw [htr', yieldedOf_append_quiet _ _ hqt]
    simp [yieldedOf, evYield, yielded]
  have hR : ranOf rs'.trace = ranOf rs.trace := by
    rw [htr', ranOf_append_noran _ _ (fun e he' => by obtain ⟨a, b, rfl⟩ := htail e he'; rfl)]
    simp [ranOf, evRan]
  have hS : submittedOf rs'.trace = submittedOf rs.trace := by
    rw [htr', submittedOf_append_quiet _ _ hqt]
    simp [submittedOf, evSubmit]
  have hmemY : ∀ d w, Ev.yield d (.ok w) ∈ rs'.trace ↔
      (Ev.yield d (.ok w) ∈ rs.trace ∨ (d = t ∧ o = .ok w)) := by
    intro d w
    rw [htr', mem_yield_append_quiet _ _ hqt]
    simp only [List.mem_append, List.mem_singleton, Ev.yield.injEq]
    constructor
    · rintro (h | ⟨h, h'⟩)
      · exact Or.inl h
      · exact Or.inr ⟨h, h'.symm⟩
    · rintro (h | ⟨h, h'⟩)
      · exact Or.inl h
      · exact Or.inr ⟨h, h'.symm⟩
  have hcore : Core p P rs' := {
    ts := by rw [yielded, hY, h1]; exact hts'
    futsAct := by
      intro x
      rw [h2, h1, hact]
      simp only [List.mem_filter, hc.futsAct x]
    ndF := by rw [h2]; exact hc.ndF.filter _
    hist := by
      rw [htr]
      apply hc.hist.append_trivial
      intro e hemem pre
      rcases List.mem_cons.mp hemem with h | h
      · subst h; trivial
      · obtain ⟨a, b, rfl⟩ := htail e h; trivial
    subNd := by rw [hS]; exact hc.subNd
    subAct := by
      intro x
      rw [hS, yielded, hY, h1, hact, hc.subAct x]
      simp only [List.mem_filter, ne_eq, decide_eq_true_eq, List.mem_append, List.mem_singleton]
      by_cases hx : x = t
      · subst hx; simp [htA]
      · simp [hx]
    noKey := by
      rcases hst with h | h <;> rw [h] <;> simp
    noRet := by
      intro r
      rcases hst with h | h <;> rw [h] <;> simp
    ranNd := by rw [hR]; exact hc.ranNd }
  refine ⟨hcore, ?_, hY⟩
  intro hrun'
  have hres' := hres hrun'
  have hnoT : ∀ w, Ev.yield t (.ok w) ∉ rs.trace := by
    intro w hw
    exact htY ((mem_yieldedOf _ _).mpr ⟨_, hw⟩)
  have hnoTres : ∀ w, (t, w) ∉ rs.results := by
    intro w hw
    exact hnoT w ((he.res t w).mp hw).1
  have hpdt' : ∀ d, s'.pendDependents d = (rs.ts.pendDependents d).filter (· ≠ t) := by
    intro d
    rw [hts'.pdt, hc.ts.pdt, filter_notin_snoc]
  have hdual : ∀ d, t ∈ rs.ts.pendDependents d ↔ d ∈ P.ddeps t := by
    intro d
    rw [hc.ts.mem_pdt, hP.dual d t]
    exact ⟨fun h => h.1, fun h => ⟨h, htY⟩⟩
  exact {
    perm := by
      rw [h3, h4, h2]
      exact perm_filter_ne _ _ _ _ he.perm hc.ndF
    res := by
      intro d w
      rw [hres', h1]
      simp only [removeResults, List.mem_filter, decide_eq_true_eq]
      rw [mem_addRes _ _ _ hnoTres, hrem d, hmemY d w, he.res d w]
      have hE : d ≠ t → ((rs.ts.pendDependents d ≠ [] ∧ ¬ (d ∈ P.ddeps t ∧ s'.pendDependents d = []))
          ↔ s'.pendDependents d ≠ []) := by
        intro hdt
        by_cases hdd : d ∈ P.ddeps t
        · constructor
          · intro h hE; exact h.2 ⟨hdd, hE⟩
          · intro h
            refine ⟨?_, fun h' => h h'.2⟩
            intro hnil
            apply h
            rw [hpdt', hnil]; rfl
        · have : s'.pendDependents d = rs.ts.pendDependents d := by
            rw [hpdt', filter_ne_self]
            intro hmem
            exact hdd ((hdual d).mp hmem)
          rw [this]
          constructor
          · intro h; exact h.1
          · intro h; exact ⟨h, fun h' => hdd h'.1⟩
      by_cases hdt : d = t
      · subst hdt
        have := hnoT w
        simp only [this, false_and, false_or, or_true, true_and, ne_eq, not_true_eq_false, and_false, or_false]
      · have := hE hdt
        simp only [hdt, false_and, false_or, ne_eq, not_false_eq_true, true_and, or_false] at this ⊢
        rw [← this]
        constructor
        · rintro ⟨⟨a, b⟩, c⟩; exact ⟨a, b, c⟩
        · rintro ⟨a, b, c⟩; exact ⟨⟨a, b⟩, c⟩
    resNd := by
      rw [hres']
      exact keys_filter_nodup _ _ (addRes_nodup _ _ _ he.resNd)
    snapOK := by
      intro j hj snap hs
      rw [h3, h4] at hj
      intro d hd v
      rw [hmemY d v]
      have hold := he.snapOK j hj snap hs d hd v
      constructor
      · intro hl; exact Or.inl (hold.mp hl)
      · rintro (h | ⟨h, _⟩)
        · exact hold.mpr h
        · subst h
          have hjA := he.job_active hc j hj
          exact absurd (hc.ts.actDeps _ hjA d hd) htY
    runSnap := by rw [h4]; exact he.runSnap
    spawnSnap := by rw [h3]; exact he.spawnSnap
    serialRun := by rw [h4]; exact he.serialRun
    ranSub := by
      intro x hx
      rw [hR] at hx
      rw [yielded, hY]
      rcases he.ranSub x hx with h | h
      · exact Or.inl (List.mem_append_left _ h)
      · rcases List.mem_cons.mp h with h' | h'
        · subst h'; exact Or.inl (List.mem_append_right _ (by simp))
        · exact Or.inr h' }

end Lt
