import LabtechModel.Proofs.Inv2Flag
/-!
# C03: the plan is exactly the closure of the requested objects through NOT-cached tasks;
# loaded iff cached beforehand
-/
namespace Lt

/-- the objects planning has to look at: the requested ones, and every object found in the
    parameters of a needed object whose task is not served from cache. The parameters of an object
    whose task was cached beforehand (and not busted) are never looked at. -/
inductive NeededObj (cfg : Config) (p : Problem) (store : Store) : Iid → Prop
  | req {i : Iid} : i ∈ p.requested → NeededObj cfg p store i
  | dep {i c : Iid} : NeededObj cfg p store i → useCache cfg p store (p.tidOf i) = false →
      c ∈ p.children i → NeededObj cfg p store c

theorem processLevel_needed (cfg : Config) (p : Problem) (store : Store) :
    ∀ (l : List Iid) (s : TS) (acc : List Iid),
      (∀ i ∈ s.processed, NeededObj cfg p store i) → (∀ i ∈ l, NeededObj cfg p store i) →
      (∀ i ∈ acc, NeededObj cfg p store i) →
      (∀ i ∈ (processLevel p (useCache cfg p store) l s acc).1.processed, NeededObj cfg p store i) ∧
      (∀ i ∈ (processLevel p (useCache cfg p store) l s acc).2, NeededObj cfg p store i) := by
  intro l s acc h1 h2 h3
  have := processLevel_ind p (useCache cfg p store)
    (fun l s acc => (∀ i ∈ s.processed, NeededObj cfg p store i) ∧ (∀ i ∈ l, NeededObj cfg p store i) ∧
      (∀ i ∈ acc, NeededObj cfg p store i))
    (by
      rintro i is s acc _ ⟨a, b, c⟩
      exact ⟨a, fun j hj => b j (List.mem_cons_of_mem _ hj), c⟩)
    (by
      rintro i is s s1 acc _ hs ⟨a, b, c⟩
      have hi := b i List.mem_cons_self
      refine ⟨?_, fun j hj => b j (List.mem_cons_of_mem _ hj), ?_⟩
      · intro j hj
        rw [hs.proc] at hj
        rcases List.mem_append.mp hj with h | h
        · exact a j h
        · simp only [List.mem_singleton] at h; subst h; exact hi
      · intro j hj
        rcases List.mem_append.mp hj with h | h
        · exact c j h
        · simp only [depInstsOf] at h
          split at h
          · simp at h
          · next hu => exact NeededObj.dep hi (by simpa using hu) h)
    l s acc ⟨h1, h2, h3⟩
  exact ⟨this.1, this.2.2⟩

theorem processTasks_needed (cfg : Config) (p : Problem) (store : Store) :
    ∀ (fuel : Nat) (l : List Iid) (s : TS),
      (∀ i ∈ s.processed, NeededObj cfg p store i) → (∀ i ∈ l, NeededObj cfg p store i) →
      ∀ i ∈ (processTasks p (useCache cfg p store) fuel l s).processed, NeededObj cfg p store i := by
  intro fuel
  induction fuel with
  | zero => intro l s h _; simpa [processTasks] using h
  | succ n ih =>
    intro l s h1 h2
    simp only [processTasks]
    have := processLevel_needed cfg p store l s [] h1 h2 (by simp)
    split
    · exact this.1
    · exact ih _ _ this.1 this.2

/-- every processed object is needed -/
theorem plan_processed_needed (cfg : Config) (p : Problem) (store : Store) (fuel : Nat) :
    ∀ i ∈ (plan cfg p store fuel).processed, NeededObj cfg p store i :=
  processTasks_needed cfg p store fuel p.requested {} (by simp) (fun _ hi => NeededObj.req hi)

/-- soundness of planning (no hypothesis): every planned task is the task of a needed object -/
theorem plan_pending_needed (cfg : Config) (p : Problem) (store : Store) (fuel : Nat) (t : Tid)
    (h : t ∈ (plan cfg p store fuel).pending) : ∃ i, NeededObj cfg p store i ∧ p.tidOf i = t := by
  have hJ := plan_PJ cfg p store fuel
  have hne := hJ.pendInst t h
  cases hl : (plan cfg p store fuel).instances t with
  | nil => exact absurd hl hne
  | cons i rest =>
    have hi : i ∈ (plan cfg p store fuel).instances t := by rw [hl]; simp
    obtain ⟨h1, h2⟩ := hJ.instTid t i hi
    exact ⟨i, plan_processed_needed cfg p store fuel i h2, h1⟩

/-- completeness of planning (`Acyclic`, `InstOK`, enough fuel): the task of every needed object is planned -/
theorem needed_planned (cfg : Config) (p : Problem) (store : Store) (fuel : Nat)
    (hA : Acyclic p) (hI : InstOK p) (hF : FuelOK p fuel) (i : Iid) (h : NeededObj cfg p store i) :
    p.tidOf i ∈ (plan cfg p store fuel).pending := by
  induction h with
  | req hi =>
    exact plan_requested_pending cfg p store fuel (Nat.lt_of_le_of_lt (Nat.zero_le _) (hF _ hi)) _ hi
  | @dep i c _ huc hc ih =>
    -- the first recorded object of `tidOf i` has the same child tids as `i`
    have hJ := plan_PJ cfg p store fuel
    have hne := hJ.pendInst _ ih
    cases hl : (plan cfg p store fuel).instances (p.tidOf i) with
    | nil => exact absurd hl hne
    | cons i' rest =>
      have hi' : i' ∈ (plan cfg p store fuel).instances (p.tidOf i) := by rw [hl]; simp
      have hti' := (hJ.instTid _ i' hi').1
      have hch := hI i' i hti'
      have hcm : p.tidOf c ∈ (p.children i').map p.tidOf := by
        rw [hch]; exact List.mem_map.mpr ⟨c, hc, rfl⟩
      obtain ⟨c', hc', hcc⟩ := List.mem_map.mp hcm
      have hd := plan_ddeps_complete cfg p store fuel (p.tidOf i) i' hi' huc c' hc'
      rw [hcc] at hd
      exact plan_closed cfg p store fuel hA hF (p.tidOf i) ih (p.tidOf c) hd

/-! ## whole-run consequences of `FlagInv` -/
theorem run_flagTr (cfg : Config) (p : Problem) (store : Store) (fuel : Nat) (sched : List Choice) :
    FlagTr cfg p store [] (loopHead cfg p store fuel sched) := (loopHead_flag cfg p store fuel sched).1

/-- every worker record belongs to a planned task -/
theorem loopHead_ran_planned (cfg : Config) (p : Problem) (store : Store) (fuel : Nat) (sched : List Choice)
    (t : Tid) (h : t ∈ ranOf (loopHead cfg p store fuel sched).trace) :
    t ∈ (plan cfg p store fuel).pending := by
  obtain ⟨uc, hs⟩ := (mem_submittedOf _ _).mp ((run_flagTr cfg p store fuel sched).ranSubm t h)
  exact loopHead_submitted_planned cfg p store fuel sched t uc hs

/-- a run that returned has delivered every planned task -/
theorem returned_all_yielded (cfg : Config) (p : Problem) (store : Store) (fuel : Nat) (sched : List Choice)
    (r : List (Tid × Val)) (h : (run cfg p store fuel sched).status = .returned r) :
    ∀ t, t ∈ (plan cfg p store fuel).pending ↔ t ∈ yielded (loopHead cfg p store fuel sched) := by
  have hreach := reach_all cfg p store fuel sched
  have hc := hreach.1
  rcases finish_status_cases (reqTids p) (loopHead cfg p store fuel sched) with h' | ⟨_, hlc, _⟩
  · have : (loopHead cfg p store fuel sched).status = .returned r := by rw [← h']; exact h
    exact absurd this (hc.noRet r)
  · simp only [loopCond, Bool.or_eq_false_iff, Bool.not_eq_eq_eq_not, Bool.not_false,
      List.isEmpty_iff] at hlc
    intro t
    refine ⟨fun htP => ?_, fun h => (hc.ts.cover t).mpr (Or.inr (Or.inr h))⟩
    rcases (hc.ts.cover _).mp htP with h1 | h1 | h1
    · rw [hlc.1] at h1; simp at h1
    · have := (hc.futsAct _).mpr h1
      rw [hlc.2] at this; simp at this
    · exact h1

end Lt
