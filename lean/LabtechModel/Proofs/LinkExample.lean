import LabtechModel.Proofs.LinkExampleKeys
import LabtechModel.Proofs.LinkSched
/-! The example universe `exPU` of `Proofs/LinkExampleKeys.lean` is a DAG named dependencies-first. -/
namespace Lt.Link
open Lt

theorem exPU_uok (req : List Tid) (h : ∀ t ∈ req, t < 3) : UOK exPU req where
  down := by
    intro t d hd
    have hd' : d ∈ (if t = 2 then [0, 1] else []) := hd
    split at hd'
    · next h2 =>
      subst h2
      simp only [List.mem_cons, List.not_mem_nil, or_false] at hd'
      rcases hd' with h | h <;> subst h <;> decide
    · simp at hd'
  reqLt := h

/-- why the specification-level link needs `MapOK` (a map entry only for tasks that persist): with an
    entry for task 1, whose type has `cache=None`, the history model's specification run *loads* it,
    while the scheduler (whose `use_cache` asks the type's cache, `NullCache.is_cached = False`) executes
    it.  For the abstraction `abs U d` of a disk `MapOK` always holds (`abs_mapOK`). -/
example :
    let m : Store.AMap := fun t => if t = 1 then some { val := 7, start := 0, dur := 0 } else none
    let r := run { backend := .serial, maxWorkers := 1, contOnFail := true, bust := false }
      (toProblem exPU (fun _ => none) 1 [] [1]) [(1, 7)] 3 (List.replicate 3 chooseAll)
    StoreRel m [(1, 7)] ∧ ¬ MapOK exPU m ∧
    (Store.specRun exPU false 1 [] [1] m).loaded.map Prod.fst = [1] ∧
    (Store.specRun exPU false 1 [] [1] m).execd = [] ∧
    Ev.exec 1 [] ∈ r.trace ∧ Ev.load 1 ∉ r.trace := by
  refine ⟨?_, ?_, ?_⟩
  · intro t
    by_cases h : t = 1
    · subst h; rfl
    · simp [lookup, h, Ne.symm h]
  · intro h
    have := h 1 (by decide)
    revert this
    decide
  · decide

end Lt.Link
