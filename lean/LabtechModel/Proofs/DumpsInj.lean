import LabtechModel.Proofs.DumpsInjNum
import LabtechModel.Proofs.DumpsInjStr
/-!
# `json.dumps` is injective (`dumps_injective`)

`Json.wfTokens`: every `.float tok` leaf of a document (at any depth, in arrays and in object values)
carries a token of the float grammar `wfFloatTok` (`Proofs/DumpsInjNum.lean`).  Nothing else is
restricted: any strings (every Lean `String` is a sequence of Unicode scalar values), any nesting
depth, any lengths, objects with repeated keys in any order (an `.obj` carries an association list and
injectivity holds for the lists as they are).

The proof is the standard unique-decoding argument for a printer, by mutual recursion on the document:

* `dumps_split`: if `dumps a ++ r = dumps b ++ r'` where `r`, `r'` are each empty or start with one
  of `,` `]` `}`, then `a = b` and `r = r'`;
* `dumpsList_split`: the same for the inside of an array, followed by `]`;
* `dumpsItems_split`: the same for the inside of an object, followed by `}`.

Without `wfTokens` the statement is false (`dumps_collision_illformed_token`): the model's `.float`
carries the token text, and a text such as `1, 2` would print like two array elements.
-/
namespace Lt.Params

/-! ## well-formed float tokens at every depth -/
mutual
/-- every `.float` leaf carries a token of the float grammar -/
def Json.wfTokens : Json → Bool
  | .null => true
  | .bool _ => true
  | .int _ => true
  | .float tok => wfFloatTok tok
  | .str _ => true
  | .arr items => wfTokensList items
  | .obj items => wfTokensItems items
def wfTokensList : List Json → Bool
  | [] => true
  | j :: js => j.wfTokens && wfTokensList js
def wfTokensItems : List (String × Json) → Bool
  | [] => true
  | (_, j) :: rest => j.wfTokens && wfTokensItems rest
end

/-! ## the text of each constructor, as a list of characters -/

theorem dumps_null : (dumps .null).toList = ['n', 'u', 'l', 'l'] := by simp [dumps]
theorem dumps_true : (dumps (.bool true)).toList = ['t', 'r', 'u', 'e'] := by simp [dumps]
theorem dumps_false : (dumps (.bool false)).toList = ['f', 'a', 'l', 's', 'e'] := by simp [dumps]
theorem dumps_int (i : Int) : dumps (.int i) = toString i := by simp [dumps]
theorem dumps_float (tok : String) : dumps (.float tok) = tok := by simp [dumps]
theorem dumps_str (s : String) : (dumps (.str s)).toList = '"' :: (escChars s.toList ++ ['"']) := by
  simp [dumps, dumpsStr]
theorem dumps_arr (items : List Json) :
    (dumps (.arr items)).toList = '[' :: ((dumpsList items).toList ++ [']']) := by
  simp [dumps]
theorem dumps_obj (items : List (String × Json)) :
    (dumps (.obj items)).toList = '{' :: ((dumpsItems items).toList ++ ['}']) := by
  simp [dumps]

/-- what follows the first element of an array body that is closed by `]` and followed by `r` -/
def listRest (js : List Json) (r : List Char) : List Char :=
  match js with
  | [] => ']' :: r
  | _ :: _ => ',' :: ' ' :: ((dumpsList js).toList ++ ']' :: r)

/-- what follows the first item of an object body that is closed by `}` and followed by `r` -/
def itemsRest (js : List (String × Json)) (r : List Char) : List Char :=
  match js with
  | [] => '}' :: r
  | _ :: _ => ',' :: ' ' :: ((dumpsItems js).toList ++ '}' :: r)

theorem dumpsList_nil_close (r : List Char) : (dumpsList []).toList ++ ']' :: r = ']' :: r := by
  simp [dumpsList]

theorem dumpsList_cons_close (j : Json) (js : List Json) (r : List Char) :
    (dumpsList (j :: js)).toList ++ ']' :: r = (dumps j).toList ++ listRest js r := by
  cases js with
  | nil => simp [dumpsList, listRest]
  | cons j' js => simp [dumpsList, listRest]

theorem dumpsItems_nil_close (r : List Char) : (dumpsItems []).toList ++ '}' :: r = '}' :: r := by
  simp [dumpsItems]

theorem dumpsItems_cons_close (k : String) (j : Json) (js : List (String × Json)) (r : List Char) :
    (dumpsItems ((k, j) :: js)).toList ++ '}' :: r =
      (dumpsStr k).toList ++ (':' :: ' ' :: ((dumps j).toList ++ itemsRest js r)) := by
  cases js with
  | nil => simp [dumpsItems, itemsRest]
  | cons j' js => simp [dumpsItems, itemsRest]

theorem okFollow_listRest (js : List Json) (r : List Char) : okFollow (listRest js r) = true := by
  cases js <;> simp [listRest, okFollow, isDelim]

theorem okFollow_itemsRest (js : List (String × Json)) (r : List Char) : okFollow (itemsRest js r) = true := by
  cases js <;> simp [itemsRest, okFollow, isDelim]

/-! ## atoms: `null`, `true`, `false`, integer and float tokens -/

def isAtom : Json → Bool
  | .null => true
  | .bool _ => true
  | .int _ => true
  | .float _ => true
  | _ => false

/-- a character that is neither a delimiter nor the first character of a string, array or object -/
def atomChar (c : Char) : Bool := !isDelim c && c != '"' && c != '[' && c != '{'

theorem atomChar_of_not (c : Char) (h : atomChar c = false) :
    c = ',' ∨ c = ']' ∨ c = '}' ∨ c = '"' ∨ c = '[' ∨ c = '{' := by
  simp only [atomChar, isDelim, Bool.and_eq_false_iff, Bool.not_eq_false', Bool.or_eq_true, beq_iff_eq,
    bne_eq_false_iff_eq] at h
  rcases h with ((((h | h) | h) | h) | h) | h <;> simp [h]

theorem atomChar_of_int (c : Char) (h : intChar c = true) : atomChar c = true := by
  cases hd : atomChar c with
  | true => rfl
  | false =>
    rcases atomChar_of_not c hd with e | e | e | e | e | e <;> subst e <;> revert h <;> decide

theorem atomChar_of_float (c : Char) (h : floatChar c = true) : atomChar c = true := by
  cases hd : atomChar c with
  | true => rfl
  | false =>
    rcases atomChar_of_not c hd with e | e | e | e | e | e <;> subst e <;> revert h <;> decide

theorem atomChar_not_delim (c : Char) (h : atomChar c = true) : isDelim c = false := by
  simp only [atomChar, Bool.and_eq_true, Bool.not_eq_true'] at h
  exact h.1.1.1

/-- the text of an atom is not empty and consists of atom characters -/
theorem atom_chars (a : Json) (ha : isAtom a = true) (wa : a.wfTokens = true) :
    (dumps a).toList ≠ [] ∧ ∀ c ∈ (dumps a).toList, atomChar c = true := by
  cases a with
  | null => rw [dumps_null]; exact ⟨by simp, by decide⟩
  | bool b => cases b <;> simp only [dumps_true, dumps_false] <;> exact ⟨by simp, by decide⟩
  | int i =>
    rw [dumps_int]
    exact ⟨intToken_ne_nil i, fun c hc => atomChar_of_int c (intToken_chars i c hc)⟩
  | float tok =>
    rw [dumps_float]
    simp only [Json.wfTokens] at wa
    exact ⟨wfFloatTok_ne_nil tok wa, fun c hc => atomChar_of_float c (wfFloatTok_chars tok wa c hc)⟩
  | str s => simp [isAtom] at ha
  | arr l => simp [isAtom] at ha
  | obj l => simp [isAtom] at ha

/-- which kind of atom a text is: `3` integer literal, `0` null, `1` true, `2` false, `4` otherwise -/
def textTag (l : List Char) : Nat :=
  if l.all intChar then 3
  else if l = ['n', 'u', 'l', 'l'] then 0
  else if l = ['t', 'r', 'u', 'e'] then 1
  else if l = ['f', 'a', 'l', 's', 'e'] then 2
  else 4

def atomTag : Json → Nat
  | .null => 0
  | .bool true => 1
  | .bool false => 2
  | .int _ => 3
  | _ => 4

theorem textTag_atom (a : Json) (ha : isAtom a = true) (wa : a.wfTokens = true) :
    textTag (dumps a).toList = atomTag a := by
  cases a with
  | null => rw [dumps_null]; decide
  | bool b => cases b <;> simp only [dumps_true, dumps_false] <;> decide
  | int i =>
    rw [dumps_int]
    have : (toString i).toList.all intChar = true := List.all_eq_true.mpr (intToken_chars i)
    unfold textTag
    rw [if_pos this]
    rfl
  | float tok =>
    rw [dumps_float]
    simp only [Json.wfTokens] at wa
    obtain ⟨m, hm, hmark⟩ := wfFloatTok_mark tok wa
    have h1 : tok.toList.all intChar = false := by
      cases hall : tok.toList.all intChar with
      | false => rfl
      | true =>
        have := List.all_eq_true.mp hall m hm
        rw [floatMark_not_int m hmark] at this
        cases this
    have h2 : tok.toList ≠ ['n', 'u', 'l', 'l'] := by
      intro e; rw [e] at hm; revert hmark; revert hm; revert m; decide
    have h3 : tok.toList ≠ ['t', 'r', 'u', 'e'] := by
      intro e
      have := wfFloatTok_chars tok wa 'r' (by rw [e]; simp)
      revert this; decide
    have h4 : tok.toList ≠ ['f', 'a', 'l', 's', 'e'] := by
      intro e
      have := wfFloatTok_chars tok wa 'l' (by rw [e]; simp)
      revert this; decide
    simp [textTag, h1, h2, h3, h4, atomTag]
  | str s => simp [isAtom] at ha
  | arr l => simp [isAtom] at ha
  | obj l => simp [isAtom] at ha

/-- two atoms with the same text are the same atom -/
theorem atom_eq (a b : Json) (ha : isAtom a = true) (hb : isAtom b = true)
    (wa : a.wfTokens = true) (wb : b.wfTokens = true)
    (h : (dumps a).toList = (dumps b).toList) : a = b := by
  have ta := textTag_atom a ha wa
  have tb := textTag_atom b hb wb
  rw [h, tb] at ta
  cases a with
  | null => cases b <;> first | rfl | (rename_i x; cases x <;> simp [atomTag] at ta) | simp [atomTag] at ta | simp [isAtom] at hb
  | bool x =>
    cases b with
    | bool y => cases x <;> cases y <;> first | rfl | simp [atomTag] at ta
    | str s => simp [isAtom] at hb
    | arr l => simp [isAtom] at hb
    | obj l => simp [isAtom] at hb
    | _ => cases x <;> simp [atomTag] at ta
  | int i =>
    cases b with
    | int j =>
      rw [dumps_int, dumps_int] at h
      rw [intToken_inj i j h]
    | bool y => cases y <;> simp [atomTag] at ta
    | str s => simp [isAtom] at hb
    | arr l => simp [isAtom] at hb
    | obj l => simp [isAtom] at hb
    | _ => simp [atomTag] at ta
  | float tok =>
    cases b with
    | float tok' =>
      rw [dumps_float, dumps_float] at h
      rw [String.toList_inj.mp h]
    | bool y => cases y <;> simp [atomTag] at ta
    | str s => simp [isAtom] at hb
    | arr l => simp [isAtom] at hb
    | obj l => simp [isAtom] at hb
    | _ => simp [atomTag] at ta
  | str s => simp [isAtom] at ha
  | arr l => simp [isAtom] at ha
  | obj l => simp [isAtom] at ha

/-- two atoms followed by delimiters that spell the same text are the same atom, same rest -/
theorem atom_split (a b : Json) (ha : isAtom a = true) (hb : isAtom b = true)
    (wa : a.wfTokens = true) (wb : b.wfTokens = true) (r r' : List Char)
    (hr : okFollow r = true) (hr' : okFollow r' = true)
    (h : (dumps a).toList ++ r = (dumps b).toList ++ r') : a = b ∧ r = r' := by
  have ca := atom_chars a ha wa
  have cb := atom_chars b hb wb
  have := delimFree_split _ _ r r' (fun c hc => atomChar_not_delim c (ca.2 c hc))
    (fun c hc => atomChar_not_delim c (cb.2 c hc)) hr hr' h
  exact ⟨atom_eq a b ha hb wa wb this.1, this.2⟩

/-! ## the first character tells atoms, strings, arrays and objects apart -/

def headClass : Json → Nat
  | .str _ => 1
  | .arr _ => 2
  | .obj _ => 3
  | _ => 0

def charClass (c : Char) : Nat :=
  if c = '"' then 1 else if c = '[' then 2 else if c = '{' then 3 else 0

theorem charClass_atomChar (c : Char) (h : atomChar c = true) : charClass c = 0 := by
  simp only [atomChar, Bool.and_eq_true, bne_iff_ne, ne_eq] at h
  simp [charClass, h.1.1.2, h.1.2, h.2]

theorem dumps_head (a : Json) (wa : a.wfTokens = true) :
    ∃ c rest, (dumps a).toList = c :: rest ∧ charClass c = headClass a ∧ isDelim c = false := by
  by_cases ha : isAtom a = true
  · obtain ⟨hne, hall⟩ := atom_chars a ha wa
    cases hl : (dumps a).toList with
    | nil => exact absurd hl hne
    | cons c rest =>
      have hc := hall c (by rw [hl]; simp)
      refine ⟨c, rest, rfl, ?_, atomChar_not_delim c hc⟩
      rw [charClass_atomChar c hc]
      cases a <;> first | rfl | simp [isAtom] at ha
  · cases a with
    | str s => exact ⟨'"', _, dumps_str s, by simp [charClass, headClass], by decide⟩
    | arr l => exact ⟨'[', _, dumps_arr l, by simp [charClass, headClass], by decide⟩
    | obj l => exact ⟨'{', _, dumps_obj l, by simp [charClass, headClass], by decide⟩
    | _ => simp [isAtom] at ha

theorem headClass_eq (a b : Json) (wa : a.wfTokens = true) (wb : b.wfTokens = true) (r r' : List Char)
    (h : (dumps a).toList ++ r = (dumps b).toList ++ r') : headClass a = headClass b := by
  obtain ⟨c, rest, e, hc, _⟩ := dumps_head a wa
  obtain ⟨c', rest', e', hc', _⟩ := dumps_head b wb
  rw [e, e'] at h
  simp only [List.cons_append, List.cons.injEq] at h
  rw [← hc, ← hc', h.1]

theorem isAtom_iff_headClass (a : Json) : isAtom a = true ↔ headClass a = 0 := by
  cases a <;> simp [isAtom, headClass]

/-! ## unique decoding -/

theorem arr_of_headClass (b : Json) (h : headClass b = 2) : ∃ bs, b = .arr bs := by
  cases b <;> simp [headClass] at h
  exact ⟨_, rfl⟩

theorem obj_of_headClass (b : Json) (h : headClass b = 3) : ∃ bs, b = .obj bs := by
  cases b <;> simp [headClass] at h
  exact ⟨_, rfl⟩

/-- the documents that are not arrays or objects: no recursion needed -/
theorem dumps_split_flat (a b : Json) (r r' : List Char) (hf : headClass a < 2)
    (wa : a.wfTokens = true) (wb : b.wfTokens = true) (hr : okFollow r = true) (hr' : okFollow r' = true)
    (h : (dumps a).toList ++ r = (dumps b).toList ++ r') : a = b ∧ r = r' := by
  have hk := headClass_eq a b wa wb r r' h
  by_cases ha : isAtom a = true
  · have hb : isAtom b = true := by
      rw [isAtom_iff_headClass] at ha ⊢
      rw [← hk, ha]
    exact atom_split a b ha hb wa wb r r' hr hr' h
  · cases a with
    | str s =>
      cases b with
      | str s' =>
        have := strLit_inj s s' r r' (by simpa [dumps] using h)
        exact ⟨by rw [this.1], this.2⟩
      | _ => simp [headClass] at hk
    | arr as => simp [headClass] at hf
    | obj as => simp [headClass] at hf
    | _ => simp [isAtom] at ha

theorem listRest_inj (as bs : List Json) (r r' : List Char) (h : listRest as r = listRest bs r') :
    (dumpsList as).toList ++ ']' :: r = (dumpsList bs).toList ++ ']' :: r' := by
  cases as <;> cases bs <;> simp_all [listRest, dumpsList]

theorem itemsRest_inj (as bs : List (String × Json)) (r r' : List Char) (h : itemsRest as r = itemsRest bs r') :
    (dumpsItems as).toList ++ '}' :: r = (dumpsItems bs).toList ++ '}' :: r' := by
  cases as <;> cases bs <;> simp_all [itemsRest, dumpsItems]

mutual
/-- a printed document followed by a delimiter (or by nothing) determines the document and the rest -/
theorem dumps_split : ∀ (a b : Json) (r r' : List Char),
    a.wfTokens = true → b.wfTokens = true → okFollow r = true → okFollow r' = true →
    (dumps a).toList ++ r = (dumps b).toList ++ r' → a = b ∧ r = r'
  | .arr as, b, r, r', wa, wb, _, _, h => by
    obtain ⟨bs, rfl⟩ := arr_of_headClass b (headClass_eq _ _ wa wb r r' h).symm
    rw [dumps_arr, dumps_arr] at h
    simp only [List.cons_append, List.append_assoc, List.nil_append, List.cons.injEq, true_and] at h
    simp only [Json.wfTokens] at wa wb
    have := dumpsList_split as bs r r' wa wb h
    exact ⟨by rw [this.1], this.2⟩
  | .obj as, b, r, r', wa, wb, _, _, h => by
    obtain ⟨bs, rfl⟩ := obj_of_headClass b (headClass_eq _ _ wa wb r r' h).symm
    rw [dumps_obj, dumps_obj] at h
    simp only [List.cons_append, List.append_assoc, List.nil_append, List.cons.injEq, true_and] at h
    simp only [Json.wfTokens] at wa wb
    have := dumpsItems_split as bs r r' wa wb h
    exact ⟨by rw [this.1], this.2⟩
  | .null, b, r, r', wa, wb, hr, hr', h => dumps_split_flat _ b r r' (by simp [headClass]) wa wb hr hr' h
  | .bool _, b, r, r', wa, wb, hr, hr', h => dumps_split_flat _ b r r' (by simp [headClass]) wa wb hr hr' h
  | .int _, b, r, r', wa, wb, hr, hr', h => dumps_split_flat _ b r r' (by simp [headClass]) wa wb hr hr' h
  | .float _, b, r, r', wa, wb, hr, hr', h => dumps_split_flat _ b r r' (by simp [headClass]) wa wb hr hr' h
  | .str _, b, r, r', wa, wb, hr, hr', h => dumps_split_flat _ b r r' (by simp [headClass]) wa wb hr hr' h

/-- the inside of an array up to its closing `]` determines the elements and the rest -/
theorem dumpsList_split : ∀ (as bs : List Json) (r r' : List Char),
    wfTokensList as = true → wfTokensList bs = true →
    (dumpsList as).toList ++ ']' :: r = (dumpsList bs).toList ++ ']' :: r' → as = bs ∧ r = r'
  | [], [], r, r', _, _, h => by simpa [dumpsList] using h
  | [], b :: bs, r, r', _, wb, h => by
    exfalso
    simp only [wfTokensList, Bool.and_eq_true] at wb
    obtain ⟨c, rest, e, _, hd⟩ := dumps_head b wb.1
    rw [dumpsList_nil_close, dumpsList_cons_close, e] at h
    simp only [List.cons_append, List.cons.injEq] at h
    rw [← h.1] at hd
    revert hd; decide
  | a :: as, [], r, r', wa, _, h => by
    exfalso
    simp only [wfTokensList, Bool.and_eq_true] at wa
    obtain ⟨c, rest, e, _, hd⟩ := dumps_head a wa.1
    rw [dumpsList_nil_close, dumpsList_cons_close, e] at h
    simp only [List.cons_append, List.cons.injEq] at h
    rw [h.1] at hd
    revert hd; decide
  | a :: as, b :: bs, r, r', wa, wb, h => by
    simp only [wfTokensList, Bool.and_eq_true] at wa wb
    rw [dumpsList_cons_close, dumpsList_cons_close] at h
    obtain ⟨hab, hrest⟩ :=
      dumps_split a b _ _ wa.1 wb.1 (okFollow_listRest as r) (okFollow_listRest bs r') h
    have := dumpsList_split as bs r r' wa.2 wb.2 (listRest_inj as bs r r' hrest)
    exact ⟨by rw [hab, this.1], this.2⟩

/-- the inside of an object up to its closing `}` determines the items (keys and values, in order)
and the rest -/
theorem dumpsItems_split : ∀ (as bs : List (String × Json)) (r r' : List Char),
    wfTokensItems as = true → wfTokensItems bs = true →
    (dumpsItems as).toList ++ '}' :: r = (dumpsItems bs).toList ++ '}' :: r' → as = bs ∧ r = r'
  | [], [], r, r', _, _, h => by simpa [dumpsItems] using h
  | [], (k', j') :: bs, r, r', _, _, h => by
    exfalso
    rw [dumpsItems_nil_close, dumpsItems_cons_close, dumpsStr_toList] at h
    simp at h
  | (k, j) :: as, [], r, r', _, _, h => by
    exfalso
    rw [dumpsItems_nil_close, dumpsItems_cons_close, dumpsStr_toList] at h
    simp at h
  | (k, j) :: as, (k', j') :: bs, r, r', wa, wb, h => by
    simp only [wfTokensItems, Bool.and_eq_true] at wa wb
    rw [dumpsItems_cons_close, dumpsItems_cons_close] at h
    obtain ⟨hk, h⟩ := strLit_inj k k' _ _ h
    simp only [List.cons.injEq, true_and] at h
    obtain ⟨hab, hrest⟩ :=
      dumps_split j j' _ _ wa.1 wb.1 (okFollow_itemsRest as r) (okFollow_itemsRest bs r') h
    have := dumpsItems_split as bs r r' wa.2 wb.2 (itemsRest_inj as bs r r' hrest)
    exact ⟨by rw [hk, hab, this.1], this.2⟩
end

/-- **`json.dumps` is injective** on documents whose float leaves carry float tokens.  No restriction
on strings (every Lean `String` is a sequence of Unicode scalar values; on Python strs with lone
surrogates injectivity really fails — known finding F07c), nesting depth, lengths or key sets. -/
theorem dumps_injective (a b : Json) (wa : a.wfTokens = true) (wb : b.wfTokens = true)
    (h : dumps a = dumps b) : a = b :=
  (dumps_split a b [] [] wa wb rfl rfl (by rw [h])).1

/-- WITNESS that `wfTokens` is needed: the model's `.float` carries the token *text*; an ill-formed
text containing a delimiter prints like several values.  (No Python float prints such a token.) -/
theorem dumps_collision_illformed_token :
    Json.arr [.float "1, 2"] ≠ Json.arr [.int 1, .int 2] ∧
    dumps (.arr [.float "1, 2"]) = dumps (.arr [.int 1, .int 2]) ∧
    (Json.arr [.float "1, 2"]).wfTokens = false := by
  refine ⟨?_, by decide, by decide⟩
  intro h
  injection h with h
  injection h with h _
  cases h

/-! ## from tasks to documents -/
mutual
/-- every float parameter of the value, at every depth, carries a float token -/
def Value.wfFloats : Value → Bool
  | .scalar (.float tok) => wfFloatTok tok
  | .scalar _ => true
  | .enum _ _ => true
  | .tuple items => wfFloatsList items
  | .dict items => wfFloatsFields items
  | .task t => Task.wfFloats t
def Task.wfFloats : Task → Bool
  | .mk _ fields => wfFloatsFields fields
def wfFloatsList : List Value → Bool
  | [] => true
  | v :: vs => Value.wfFloats v && wfFloatsList vs
def wfFloatsFields : List (String × Value) → Bool
  | [] => true
  | (_, v) :: rest => Value.wfFloats v && wfFloatsFields rest
end

mutual
theorem serValue_wfTokens : ∀ v : Value, v.wfFloats = true → (serValue v).wfTokens = true
  | .scalar s, h => by
    cases s <;> simp_all [serValue, serScalar, Json.wfTokens, Value.wfFloats]
  | .enum c n, _ => by simp [serValue, Json.wfTokens, wfTokensItems]
  | .tuple items, h => by
    simp only [Value.wfFloats] at h
    simp only [serValue, Json.wfTokens]
    exact serList_wfTokens items h
  | .dict items, h => by
    simp only [Value.wfFloats] at h
    simp only [serValue, Json.wfTokens]
    exact serFields_wfTokens items h
  | .task t, h => by
    simp only [Value.wfFloats] at h
    simp only [serValue]
    exact serTask_wfTokens t h
theorem serTask_wfTokens : ∀ t : Task, t.wfFloats = true → (serTask t).wfTokens = true
  | .mk c fields, h => by
    simp only [Task.wfFloats] at h
    simp only [serTask, Json.wfTokens, wfTokensItems, Bool.true_and]
    exact serFields_wfTokens fields h
theorem serList_wfTokens : ∀ l : List Value, wfFloatsList l = true → wfTokensList (serList l) = true
  | [], _ => by simp [serList, wfTokensList]
  | v :: vs, h => by
    simp only [wfFloatsList, Bool.and_eq_true] at h
    simp [serList, wfTokensList, serValue_wfTokens v h.1, serList_wfTokens vs h.2]
theorem serFields_wfTokens : ∀ l : List (String × Value), wfFloatsFields l = true → wfTokensItems (serFields l) = true
  | [], _ => by simp [serFields, wfTokensItems]
  | (k, v) :: rest, h => by
    simp only [wfFloatsFields, Bool.and_eq_true] at h
    simp [serFields, wfTokensItems, serValue_wfTokens v h.1, serFields_wfTokens rest h.2]
end

/-- `json.dumps` separates the serialised documents of tasks whose float parameters carry float tokens -/
theorem serTask_dumps_injective (t u : Task) (ht : t.wfFloats = true) (hu : u.wfFloats = true)
    (h : dumps (serTask t) = dumps (serTask u)) : serTask t = serTask u :=
  dumps_injective _ _ (serTask_wfTokens t ht) (serTask_wfTokens u hu) h

end Lt.Params
