import LabtechModel.Proofs.InvYield
import LabtechModel.Proofs.InvPlan
/-!
# The master invariant holds in every reachable state of the coordinator loop
-/
namespace Lt

/-- the invariant of loop-head (and submit-phase) states -/
def Reach (cfg : Config) (p : Problem) (P : TS) (rs : RS) : Prop :=
  Core p P rs ∧ (rs.status = .running → Exec cfg P [] rs)

theorem Hist.append_of_mem {Q : List Ev → Ev → Prop} {tr l : List Ev} (h : Hist Q tr)
    (hl : ∀ e ∈ l, ∀ pre', (∀ x ∈ pre', x ∈ l) → Q (tr ++ pre') e) : Hist Q (tr ++ l) := by
  apply h.append
  intro pre' e post' heq
  apply hl
  · rw [heq]; simp
  · intro x hx; rw [heq]; simp [hx]

theorem processYields_inv {cfg : Config} {p : Problem} {P : TS} (req : List Tid) (hP : PI P) :
    ∀ (ys : List (Tid × Outcome)) (rs : RS), Core p P rs →
      (rs.status = .running → Exec cfg P (ys.map Prod.fst) rs) →
      Reach cfg p P (processYields cfg req ys rs) := by
  intro ys
  induction ys with
  | nil => intro rs hc he; exact ⟨hc, he⟩
  | cons y rest ih =>
    intro rs hc he
    obtain ⟨t, o⟩ := y
    simp only [processYields]
    split
    · next hrun =>
      obtain ⟨hc', he', _⟩ := yieldStep_inv (extra := rest.map Prod.fst) req o hP hc (he hrun) hrun
      exact ih _ hc' he'
    · next hnr => exact ⟨hc, fun h => absurd h (by intro h'; exact hnr h')⟩

theorem repr0_eq (s P : TS) (h : s.instances = P.instances) (t : Tid) : repr0 s t = repr0 P t := by
  simp only [repr0, h]

theorem runEvents_cases (p : Problem) (ts : TS) (j : Job) (e : Ev) (he : e ∈ runEvents p ts j) :
    e = Ev.load j.tid ∨ e = Ev.exec j.tid (reads p (repr0 ts j.tid) (j.snap.getD [])) := by
  simp only [runEvents] at he
  split at he
  · left; simpa using he
  · right; simpa using he

theorem jobEvents_cases (p : Problem) (ts : TS) (j : Job) (e : Ev) (he : e ∈ jobEvents p ts j) :
    e = Ev.load j.tid ∨ e = Ev.exec j.tid (reads p (repr0 ts j.tid) (j.snap.getD [])) := by
  simp only [jobEvents] at he
  split at he
  · simp at he
  · exact runEvents_cases p ts j e he

/-! ## the serial runner's wait -/
theorem ranOf_append (a b : List Ev) : ranOf (a ++ b) = ranOf a ++ ranOf b := by
  simp [ranOf, List.filterMap_append]

theorem ranOf_runEvents (p : Problem) (ts : TS) (j : Job) : ranOf (runEvents p ts j) = [j.tid] := by
  simp only [runEvents]
  split <;> simp [ranOf, evRan]

theorem ranOf_jobEvents (p : Problem) (ts : TS) (j : Job) :
    ranOf (jobEvents p ts j) = if p.dies j.tid then [] else [j.tid] := by
  simp only [jobEvents]
  split
  · rfl
  · exact ranOf_runEvents p ts j

theorem ranOf_flatten_sublist (p : Problem) (ts : TS) : ∀ (js : List Job),
    (ranOf ((js.map (jobEvents p ts)).flatten)).Sublist (js.map Job.tid) := by
  intro js
  induction js with
  | nil => simp [ranOf]
  | cons j js ih =>
    simp only [List.map_cons, List.flatten_cons, ranOf_append, ranOf_jobEvents]
    split
    · simpa using ih.cons j.tid
    · simpa using ih.cons_cons j.tid

/-- the events a serial wait appends before the outcome is handled -/
def serialEvs (p : Problem) (rs : RS) (j : Job) : List Ev :=
  [Ev.waitEnter (rs.queued.map Job.tid) [], Ev.start j.tid] ++
    runEvents p rs.ts { j with snap := some rs.results }

/-- serial wait: the state after the head job `j` ran, right before its outcome is handled, with
    its future still tracked -/
def serialPre (p : Problem) (rs : RS) (j : Job) (rest : List Job) : RS :=
  { rs with queued := rest,
            store := saveIfRan p rs.store { j with snap := some rs.results }
              (runOutcome p rs.ts rs.store { j with snap := some rs.results }),
            trace := rs.trace ++ [Ev.waitEnter (rs.queued.map Job.tid) []] ++
              [Ev.start j.tid] ++ runEvents p rs.ts { j with snap := some rs.results } }

theorem serialPre_trace (p : Problem) (rs : RS) (j : Job) (rest : List Job) :
    (serialPre p rs j rest).trace = rs.trace ++ serialEvs p rs j := by
  simp [serialPre, serialEvs]

theorem serialEvs_quiet (p : Problem) (rs : RS) (j : Job) : Quiet (serialEvs p rs j) := by
  intro e he'
  simp only [serialEvs, List.mem_append, List.mem_cons, List.not_mem_nil, or_false] at he'
  rcases he' with (h | h) | h
  · subst h; exact ⟨rfl, rfl⟩
  · subst h; exact ⟨rfl, rfl⟩
  · rcases runEvents_cases _ _ _ _ h with h' | h' <;> subst h' <;> exact ⟨rfl, rfl⟩

theorem ranOf_serialEvs (p : Problem) (rs : RS) (j : Job) : ranOf (serialEvs p rs j) = [j.tid] := by
  simp only [serialEvs, ranOf_append, ranOf_runEvents]
  simp [ranOf, evRan]

theorem waitSerial_nil (cfg : Config) (p : Problem) (req : List Tid) (rs : RS) (hq : rs.queued = []) :
    waitSerial cfg p req rs = { rs with trace := rs.trace ++ [Ev.waitEnter (rs.queued.map Job.tid) []] } := by
  simp only [waitSerial]
  split
  · rfl
  · next j' rest' h => rw [hq] at h; cases h

theorem waitSerial_cons (cfg : Config) (p : Problem) (req : List Tid) (rs : RS) (j : Job) (rest : List Job)
    (hq : rs.queued = j :: rest) :
    waitSerial cfg p req rs =
      processYield cfg req { serialPre p rs j rest with futs := (serialPre p rs j rest).futs.filter (· ≠ j.tid) }
        j.tid (runOutcome p rs.ts rs.store { j with snap := some rs.results }) := by
  simp only [waitSerial]
  split
  · next h => rw [hq] at h; cases h
  · next j' rest' h =>
    rw [hq] at h
    cases h
    rfl

theorem serialPre_inv {cfg : Config} {p : Problem} {P : TS} (hP : PI P)
    {rs : RS} (hc : Core p P rs) (he : Exec cfg P [] rs) (j : Job) (rest : List Job)
    (hq : rs.queued = j :: rest) :
    Core p P (serialPre p rs j rest) ∧ Exec cfg P [j.tid] (serialPre p rs j rest) := by
  have hjq : j ∈ rs.queued ++ rs.running := by rw [hq]; simp
  have hjA : j.tid ∈ rs.ts.active := he.job_active hc j hjq
  have hjY : j.tid ∉ yielded rs := hc.ts.disjAY _ hjA
  have hquiet := serialEvs_quiet p rs j
  have htr := serialPre_trace p rs j rest
  have hcA : Core p P (serialPre p rs j rest) := by
    refine Core.quiet hc (serialEvs p rs j) ?_ ?_ ?_ htr hquiet ?_ ?_ <;> try rfl
    rotate_left
    · rw [htr, ranOf_append, ranOf_serialEvs, List.nodup_append]
      refine ⟨hc.ranNd, by simp, ?_⟩
      intro a ha b hb
      simp only [List.mem_singleton] at hb
      subst hb
      intro hab; subst hab
      rcases he.ranSub _ ha with h | h
      · exact hjY h
      · simp at h
    rw [htr]
    apply hc.hist.append_of_mem
    intro e hel pre' hpre
    have hqp : Quiet pre' := hquiet.sub hpre
    simp only [serialEvs, List.mem_append, List.mem_cons, List.not_mem_nil, or_false] at hel
    rcases hel with (h | h) | h
    · subst h; trivial
    · subst h
      intro d hd
      exact yieldedOf_mono _ _ _ (hc.ts.actDeps _ hjA d hd)
    · rcases runEvents_cases _ _ _ _ h with h' | h'
      · subst h'; trivial
      · subst h'
        refine ⟨fun d hd => yieldedOf_mono _ _ _ (hc.ts.actDeps _ hjA d hd), rs.results, ?_, ?_⟩
        · show reads p (repr0 rs.ts j.tid) rs.results = _
          rw [repr0_eq _ _ hc.ts.inst]
        · rw [SnapOK_quiet _ _ _ hqp]
          exact results_snapOK hP hc he j.tid hjY
  refine ⟨hcA, ?_⟩
  exact {
    perm := by
      show ((rest ++ rs.running).map Job.tid ++ [j.tid]).Perm rs.futs
      have h1 := he.perm
      rw [hq] at h1
      simp only [List.cons_append, List.map_cons, List.append_nil] at h1
      exact (List.perm_append_comm (l₂ := [j.tid])).trans h1
    res := by
      intro d v
      show (d, v) ∈ rs.results ↔ (Ev.yield d (.ok v) ∈ (serialPre p rs j rest).trace ∧ _)
      rw [htr, mem_yield_append_quiet _ _ hquiet]
      exact he.res d v
    resNd := he.resNd
    snapOK := by
      intro j' hj' snap hs
      show SnapOK P (serialPre p rs j rest).trace snap j'.tid
      rw [htr, SnapOK_quiet _ _ _ hquiet]
      apply he.snapOK j' _ snap hs
      have : j' ∈ rest ∨ j' ∈ rs.running := by simpa [serialPre, List.mem_append] using hj'
      rw [hq]
      rcases this with h | h
      · simp [h]
      · simp [h]
    runSnap := he.runSnap
    spawnSnap := by
      intro hsp j' hj'
      exact he.spawnSnap hsp j' (by rw [hq]; exact List.mem_cons_of_mem _ hj')
    serialRun := he.serialRun
    ranSub := by
      intro t ht
      rw [htr, ranOf_append, ranOf_serialEvs] at ht
      show t ∈ yieldedOf (serialPre p rs j rest).trace ∨ t ∈ [j.tid]
      rw [htr, yieldedOf_append_quiet _ _ hquiet]
      rcases List.mem_append.mp ht with h | h
      · exact (he.ranSub t h).imp id (fun h' => by simp at h')
      · exact Or.inr h }

theorem waitSerial_inv {cfg : Config} {p : Problem} {P : TS} (req : List Tid) (hP : PI P)
    {rs : RS} (hc : Core p P rs) (he : Exec cfg P [] rs) (hrun : rs.status = .running) :
    Reach cfg p P (waitSerial cfg p req rs) := by
  cases hq : rs.queued with
  | nil =>
    rw [waitSerial_nil cfg p req rs hq]
    have hquiet : Quiet [Ev.waitEnter (rs.queued.map Job.tid) []] := by
      intro e he'; simp only [List.mem_singleton] at he'; subst he'; exact ⟨rfl, rfl⟩
    have hnr : ∀ e ∈ [Ev.waitEnter (rs.queued.map Job.tid) []], evRan e = none := by
      intro e he'; simp only [List.mem_singleton] at he'; subst he'; rfl
    refine ⟨Core.quiet hc _ ?_ ?_ ?_ ?_ hquiet ?_ ?_, fun _ => Exec.quiet he _ ?_ ?_ ?_ ?_ ?_ ?_ hquiet hnr⟩ <;> try rfl
    · exact hc.hist.snoc trivial
    · show (ranOf (rs.trace ++ _)).Nodup
      rw [ranOf_append_noran _ _ hnr]; exact hc.ranNd
  | cons j rest =>
    rw [waitSerial_cons cfg p req rs j rest hq]
    obtain ⟨hcA, heA⟩ := serialPre_inv hP hc he j rest hq
    obtain ⟨h1, h2, _⟩ := yieldStep_inv (extra := []) req
      (runOutcome p rs.ts rs.store { j with snap := some rs.results }) hP hcA heA hrun
    exact ⟨h1, h2⟩

/-! ## a process runner's wait -/
theorem startProcesses_futs (cfg : Config) (rs : RS) : (startProcesses cfg rs).futs = rs.futs := by
  simp [startProcesses]

/-- the yields of one wait are the finished workers' tasks, each once -/
theorem ys_perm (F : List Tid) (O : List (Tid × Outcome)) (hF : F.Nodup) (hO : (O.map Prod.fst).Nodup)
    (hsub : ∀ t ∈ O.map Prod.fst, t ∈ F) :
    ((F.filterMap (fun t => O.find? (·.1 = t))).map Prod.fst).Perm (O.map Prod.fst) := by
  have h1 : (F.filterMap (fun t => O.find? (·.1 = t))).map Prod.fst = F.filter (· ∈ O.map Prod.fst) := by
    clear hF hsub
    induction F with
    | nil => rfl
    | cons t F ih =>
      simp only [List.filterMap_cons, List.filter_cons]
      cases hf : O.find? (·.1 = t) with
      | none =>
        have : t ∉ O.map Prod.fst := by
          rw [List.find?_eq_none] at hf
          intro hmem
          obtain ⟨y, hy, hyt⟩ := List.mem_map.mp hmem
          exact hf y hy (by simpa using hyt)
        simp only [this, decide_false, Bool.false_eq_true, if_false]
        exact ih
      | some y =>
        have h1 := List.find?_some hf
        have h2 : y ∈ O := List.mem_of_find?_eq_some hf
        have h3 : y.1 = t := by simpa using h1
        have : t ∈ O.map Prod.fst := List.mem_map.mpr ⟨y, h2, h3⟩
        simp only [this, decide_true, if_true, List.map_cons, h3, ih]
  rw [h1]
  exact filter_mem_perm F _ hF hO hsub

theorem startProcesses_yielded (cfg : Config) (rs : RS) : yielded (startProcesses cfg rs) = yielded rs := by
  obtain ⟨go, stay, _, hsp⟩ := startProcesses_shape cfg rs
  rw [hsp]
  exact yieldedOf_append_quiet _ _ (quiet_starts _)

/-- the workers whose outcome becomes visible in this wait / the ones that keep running -/
def finJobs (c : Choice) (rs : RS) : List Job :=
  ((enumFrom 0 rs.running).filter (fun ij => c.finish ij.1)).map (·.2)
def stayJobs (c : Choice) (rs : RS) : List Job :=
  ((enumFrom 0 rs.running).filter (fun ij => !c.finish ij.1)).map (·.2)

/-- the events a process wait appends before `_start_processes` and the yields -/
def procEvs (p : Problem) (c : Choice) (rs : RS) : List Ev :=
  [Ev.waitEnter (rs.queued.map Job.tid) (rs.running.map Job.tid)] ++
    ((finJobs c rs).map (jobEvents p rs.ts)).flatten

/-- process wait: the state after the finished workers were reaped and their results saved, with
    their futures still tracked -/
def procPre (p : Problem) (c : Choice) (rs : RS) : RS :=
  { rs with running := stayJobs c rs, store := saveAll p rs.ts (finJobs c rs) rs.store,
            trace := rs.trace ++ [Ev.waitEnter (rs.queued.map Job.tid) (rs.running.map Job.tid)] ++
              ((finJobs c rs).map (jobEvents p rs.ts)).flatten }

def procOutcomes (p : Problem) (c : Choice) (rs : RS) : List (Tid × Outcome) :=
  (finJobs c rs).map (fun j => (j.tid, jobOutcome p rs.ts rs.store j))

/-- the yields of the wait, in `future_to_task` order -/
def procYs (p : Problem) (c : Choice) (rs : RS) : List (Tid × Outcome) :=
  rs.futs.filterMap (fun t => (procOutcomes p c rs).find? (·.1 = t))

theorem procPre_trace (p : Problem) (c : Choice) (rs : RS) :
    (procPre p c rs).trace = rs.trace ++ procEvs p c rs := by
  simp [procPre, procEvs]

theorem procEvs_quiet (p : Problem) (c : Choice) (rs : RS) : Quiet (procEvs p c rs) := by
  intro e he'
  simp only [procEvs, List.mem_append, List.mem_singleton] at he'
  rcases he' with h | h
  · subst h; exact ⟨rfl, rfl⟩
  · obtain ⟨es, hes, hmem⟩ := List.mem_flatten.mp h
    obtain ⟨j, _, rfl⟩ := List.mem_map.mp hes
    rcases jobEvents_cases _ _ _ _ hmem with h' | h' <;> subst h' <;> exact ⟨rfl, rfl⟩

theorem finJobs_mem (c : Choice) (rs : RS) : ∀ j ∈ finJobs c rs, j ∈ rs.running :=
  fun _ hj => (enum_filter_sublist rs.running _).subset hj

theorem stayJobs_mem (c : Choice) (rs : RS) : ∀ j ∈ stayJobs c rs, j ∈ rs.running :=
  fun _ hj => (enum_filter_sublist rs.running _).subset hj

/-- a process runner's wait = deliver the finished workers' outcomes (`procYs`, one per finished
    worker) from `_start_processes` of a state (`procPre`) that satisfies the invariant with those
    futures still tracked -/
theorem waitProcess_explicit {cfg : Config} {p : Problem} {P : TS} (req : List Tid) (c : Choice)
    (hb : cfg.backend ≠ .serial) {rs : RS} (hc : Core p P rs) (he : Exec cfg P [] rs) :
    waitProcess cfg p req c rs
      = processYields cfg req (procYs p c rs) (startProcesses cfg (procPre p c rs)) ∧
    Core p P (procPre p c rs) ∧ Exec cfg P ((finJobs c rs).map Job.tid) (procPre p c rs) ∧
    ((procYs p c rs).map Prod.fst).Perm ((finJobs c rs).map Job.tid) ∧
    ((finJobs c rs).map Job.tid).Nodup := by
  let fin : List Job := ((enumFrom 0 rs.running).filter (fun ij => c.finish ij.1)).map (·.2)
  let stay : List Job := ((enumFrom 0 rs.running).filter (fun ij => !c.finish ij.1)).map (·.2)
  let evs : List Ev := (fin.map (jobEvents p rs.ts)).flatten
  let l : List Ev := [Ev.waitEnter (rs.queued.map Job.tid) (rs.running.map Job.tid)] ++ evs
  let rsA : RS := { rs with running := stay, store := saveAll p rs.ts fin rs.store,
                            trace := rs.trace ++ [Ev.waitEnter (rs.queued.map Job.tid) (rs.running.map Job.tid)] ++ evs }
  let O : List (Tid × Outcome) := fin.map (fun j => (j.tid, jobOutcome p rs.ts rs.store j))
  have hwp : waitProcess cfg p req c rs = processYields cfg req
      ((startProcesses cfg rsA).futs.filterMap (fun t => O.find? (·.1 = t))) (startProcesses cfg rsA) := rfl
  have htr : rsA.trace = rs.trace ++ l := by simp [rsA, l]
  have hfin_mem : ∀ j ∈ fin, j ∈ rs.running := fun j hj => (enum_filter_sublist rs.running _).subset hj
  have hstay_mem : ∀ j ∈ stay, j ∈ rs.running := fun j hj => (enum_filter_sublist rs.running _).subset hj
  have hpart : (fin ++ stay).Perm rs.running := enum_partition_perm rs.running c.finish
  have hallNd : ((rs.queued ++ rs.running).map Job.tid).Nodup := by
    have := he.perm
    simp only [List.append_nil] at this
    exact this.nodup_iff.mpr hc.ndF
  have hrunNd : (rs.running.map Job.tid).Nodup := by
    rw [List.map_append, List.nodup_append] at hallNd
    exact hallNd.2.1
  have hfinNd : (fin.map Job.tid).Nodup :=
    ((enum_filter_sublist rs.running _).map Job.tid).nodup hrunNd
  have hquiet : Quiet l := by
    intro e he'
    simp only [l, List.mem_append, List.mem_singleton] at he'
    rcases he' with h | h
    · subst h; exact ⟨rfl, rfl⟩
    · obtain ⟨es, hes, hmem⟩ := List.mem_flatten.mp h
      obtain ⟨j, _, rfl⟩ := List.mem_map.mp hes
      rcases jobEvents_cases _ _ _ _ hmem with h' | h' <;> subst h' <;> exact ⟨rfl, rfl⟩
  have hranl : ranOf (rs.trace ++ l) = ranOf rs.trace ++ ranOf evs := by
    simp only [l, ranOf_append]
    simp [ranOf, evRan]
  have hransub : (ranOf evs).Sublist (fin.map Job.tid) := ranOf_flatten_sublist p rs.ts fin
  have hcA : Core p P rsA := by
    refine Core.quiet hc l ?_ ?_ ?_ htr hquiet ?_ ?_ <;> try rfl
    rotate_left
    · rw [htr, hranl, List.nodup_append]
      refine ⟨hc.ranNd, hransub.nodup hfinNd, ?_⟩
      intro a ha b hb hab
      subst hab
      have hbfin := hransub.subset hb
      obtain ⟨j, hj, rfl⟩ := List.mem_map.mp hbfin
      have hjA := he.job_active hc j (List.mem_append_right _ (hfin_mem j hj))
      rcases he.ranSub _ ha with h | h
      · exact hc.ts.disjAY _ hjA h
      · simp at h
    rw [htr]
    apply hc.hist.append_of_mem
    intro e hel pre' hpre
    have hqp : Quiet pre' := hquiet.sub hpre
    simp only [l, List.mem_append, List.mem_singleton] at hel
    rcases hel with h | h
    · subst h; trivial
    · obtain ⟨es, hes, hmem⟩ := List.mem_flatten.mp h
      obtain ⟨j, hj, rfl⟩ := List.mem_map.mp hes
      rcases jobEvents_cases _ _ _ _ hmem with h' | h'
      · subst h'; trivial
      · subst h'
        have hjr := hfin_mem j hj
        cases hs : j.snap with
        | none => exact absurd hs (he.runSnap j hjr)
        | some snap =>
          refine ⟨fun d hd => yieldedOf_mono _ _ _
            (hc.ts.actDeps _ (he.job_active hc j (List.mem_append_right _ hjr)) d hd), snap, ?_, ?_⟩
          · simp only [Option.getD_some]
            rw [repr0_eq _ _ hc.ts.inst]
          · rw [SnapOK_quiet _ _ _ hqp]
            exact he.snapOK j (List.mem_append_right _ hjr) snap hs
  have heA : Exec cfg P (fin.map Job.tid) rsA := {
    perm := by
      show ((rs.queued ++ stay).map Job.tid ++ fin.map Job.tid).Perm rs.futs
      have h1 := he.perm
      simp only [List.append_nil] at h1
      refine List.Perm.trans ?_ h1
      rw [← List.map_append]
      apply List.Perm.map
      rw [List.append_assoc]
      exact (List.perm_append_comm.trans hpart).append_left rs.queued
    res := by
      intro d v
      show (d, v) ∈ rs.results ↔ (Ev.yield d (.ok v) ∈ rsA.trace ∧ _)
      rw [htr, mem_yield_append_quiet _ _ hquiet]
      exact he.res d v
    resNd := he.resNd
    snapOK := by
      intro j' hj' snap hs
      show SnapOK P rsA.trace snap j'.tid
      rw [htr, SnapOK_quiet _ _ _ hquiet]
      apply he.snapOK j' _ snap hs
      have : j' ∈ rs.queued ∨ j' ∈ stay := by simpa [List.mem_append] using hj'
      rcases this with h | h
      · exact List.mem_append_left _ h
      · exact List.mem_append_right _ (hstay_mem j' h)
    runSnap := fun j' hj' => he.runSnap j' (hstay_mem j' hj')
    spawnSnap := he.spawnSnap
    serialRun := fun h => absurd h hb
    ranSub := by
      intro t ht
      have ht' : t ∈ ranOf rsA.trace := ht
      rw [htr, hranl] at ht'
      show t ∈ yieldedOf rsA.trace ∨ t ∈ fin.map Job.tid
      rw [htr, yieldedOf_append_quiet _ _ hquiet]
      rcases List.mem_append.mp ht' with h | h
      · exact (he.ranSub t h).imp id (fun h' => by simp at h')
      · exact Or.inr (hransub.subset h) }
  have hOfst : O.map Prod.fst = fin.map Job.tid := by
    simp only [O, List.map_map]
    rfl
  have hperm := ys_perm rs.futs O hc.ndF (by rw [hOfst]; exact hfinNd) (by
    intro t ht
    rw [hOfst] at ht
    obtain ⟨j, hj, rfl⟩ := List.mem_map.mp ht
    rw [hc.futsAct]
    exact he.job_active hc j (List.mem_append_right _ (hfin_mem j hj)))
  rw [hOfst] at hperm
  refine ⟨?_, hcA, heA, hperm, hfinNd⟩
  rw [hwp, startProcesses_futs]
  rfl

theorem waitProcess_decomp {cfg : Config} {p : Problem} {P : TS} (req : List Tid) (c : Choice) (hP : PI P)
    (hb : cfg.backend ≠ .serial) {rs : RS} (hc : Core p P rs) (he : Exec cfg P [] rs) :
    ∃ rsB ys, waitProcess cfg p req c rs = processYields cfg req ys rsB ∧ Core p P rsB ∧
      Exec cfg P (ys.map Prod.fst) rsB ∧ yielded rsB = yielded rs ∧ rsB.status = rs.status ∧
      (ys.map Prod.fst).Perm ((finJobs c rs).map Job.tid) := by
  obtain ⟨hwp, hcA, heA, hperm, _⟩ := waitProcess_explicit req c hb hc he
  obtain ⟨hcB, heB⟩ := startProcesses_inv hP hb hcA heA
  refine ⟨_, _, hwp, hcB, heB.perm_extra hperm.symm, ?_, ?_, hperm⟩
  · rw [startProcesses_yielded]
    show yieldedOf (procPre p c rs).trace = yielded rs
    rw [procPre_trace, yieldedOf_append_quiet _ _ (procEvs_quiet p c rs)]
    rfl
  · rw [startProcesses_status]; rfl

theorem waitProcess_inv {cfg : Config} {p : Problem} {P : TS} (req : List Tid) (c : Choice) (hP : PI P)
    (hb : cfg.backend ≠ .serial) {rs : RS} (hc : Core p P rs) (he : Exec cfg P [] rs) :
    Reach cfg p P (waitProcess cfg p req c rs) := by
  obtain ⟨rsB, ys, hwp, hcB, heB, _, _, _⟩ := waitProcess_decomp req c hP hb hc he
  rw [hwp]
  exact processYields_inv req hP _ _ hcB (fun _ => heB)

/-! ## one iteration, whole runs -/
theorem initRS_reach (cfg : Config) (p : Problem) (store : Store) (fuel : Nat) :
    Reach cfg p (plan cfg p store fuel) (initRS cfg p store fuel) := by
  have hP := plan_PI cfg p store fuel
  have hA := plan_active cfg p store fuel
  constructor
  · exact {
      ts := TSInv_init _ hP hA
      futsAct := by intro t; show t ∈ [] ↔ t ∈ (plan cfg p store fuel).active; rw [hA]
      ndF := List.nodup_nil
      hist := Hist_nil _
      subNd := List.nodup_nil
      subAct := by
        intro t
        show t ∈ [] ↔ (t ∈ (plan cfg p store fuel).active ∨ t ∈ [])
        rw [hA]; simp
      noKey := by simp [initRS]
      noRet := by simp [initRS]
      ranNd := List.nodup_nil }
  · intro _
    exact {
      perm := List.Perm.refl _
      res := by intro d v; simp [initRS]
      resNd := List.nodup_nil
      snapOK := by intro j hj; simp [initRS] at hj
      runSnap := by intro j hj; simp [initRS] at hj
      spawnSnap := by intro _ j hj; simp [initRS] at hj
      serialRun := fun _ => rfl
      ranSub := by intro t ht; simp [initRS, ranOf] at ht }

theorem submitPhase_reach {cfg : Config} {p : Problem} {P : TS} (hP : PI P) {rs : RS}
    (h : Reach cfg p P rs) (hrun : rs.status = .running) :
    Core p P (submitAll cfg p (readyTasks p rs.ts) rs) ∧
    Exec cfg P [] (submitAll cfg p (readyTasks p rs.ts) rs) ∧
    (submitAll cfg p (readyTasks p rs.ts) rs).status = .running := by
  have hnd : (readyTasks p rs.ts).Nodup := (readyAux_sublist p rs.ts rs.ts.pending _).nodup h.1.ts.ndP
  have hmem : ∀ t ∈ readyTasks p rs.ts, t ∈ rs.ts.pending ∧ rs.ts.pendDeps t = [] :=
    fun t ht => (readyTasks_no_pending_deps p rs.ts t ht).symm
  obtain ⟨hc, he⟩ := submitAll_inv hP _ rs hnd hmem h.1 (h.2 hrun)
  refine ⟨hc, he, ?_⟩
  rw [(submitAll_all cfg p _ rs hnd (fun t ht => (hmem t ht).1)).2]
  exact hrun

theorem iteration_reach {cfg : Config} {p : Problem} {P : TS} (req : List Tid) (hP : PI P) (c : Choice)
    {rs : RS} (h : Reach cfg p P rs) (hrun : rs.status = .running) :
    Reach cfg p P (iteration cfg p req c rs) := by
  obtain ⟨hc, he, hst⟩ := submitPhase_reach hP h hrun
  simp only [iteration, hst]
  split
  · exact waitSerial_inv req hP hc he hst
  · next hb => exact waitProcess_inv req c hP hb hc he

theorem runLoop_reach {cfg : Config} {p : Problem} {P : TS} (req : List Tid) (hP : PI P) :
    ∀ (sched : List Choice) (rs : RS), Reach cfg p P rs → Reach cfg p P (runLoop cfg p req sched rs) := by
  intro sched
  induction sched with
  | nil => intro rs h; exact h
  | cons c cs ih =>
    intro rs h
    simp only [runLoop]
    split
    · next hrun =>
      split
      · exact ih _ (iteration_reach req hP c h hrun)
      · exact h
    · exact h

/-- every loop-head state of every run satisfies the master invariant -/
theorem reach_all (cfg : Config) (p : Problem) (store : Store) (fuel : Nat) (sched : List Choice) :
    Reach cfg p (plan cfg p store fuel)
      (runLoop cfg p (reqTids p) sched (initRS cfg p store fuel)) :=
  runLoop_reach _ (plan_PI cfg p store fuel) sched _ (initRS_reach cfg p store fuel)

end Lt
