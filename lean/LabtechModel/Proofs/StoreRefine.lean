import LabtechModel.Proofs.StoreLaws
/-! Refinement of the concrete Lab operations (key directories) to the specification map. -/
namespace Lt.Store

/-- the coupling between a concrete and a specification run in progress -/
structure R (U : Universe) (c : Acc) (a : AAcc) : Prop where
  wf : Wf U c.disk
  map : abs U c.disk = a.map
  vals : c.vals = a.vals
  execd : c.execd = a.execd
  loaded : c.loaded = a.loaded

theorem step_refines (U : Universe) (hinj : KeyInj U) (bust : Bool) (g : Nat) (fl : List Tid) (c : Acc) (a : AAcc) (t : Tid)
    (ht : t < U.n) (h : R U c a) : R U (stepC U bust g fl c t) (stepA U bust g fl a t) := by
  obtain ⟨wf, hm, hv, he, hl⟩ := h
  have hmt : cLoad U c.disk t = a.map t := by rw [← hm]; rfl
  have hic : labIsCached U c.disk t = (a.map t).isSome := by
    unfold labIsCached; rw [isCached_iff_load U c.disk t wf hinj, hmt]
  unfold stepC stepA
  cases bust
  · -- no bust: served from the cache iff the map has the task
    simp only [Bool.not_false, Bool.true_and, hic, Bool.false_eq_true, if_false]
    cases hs : a.map t with
    | some s =>
      simp only [Option.isSome_some, if_true, hmt, hs]
      exact ⟨wf, hm, by simp [hv], he, by simp [hl]⟩
    | none =>
      simp only [Option.isSome_none, Bool.false_eq_true, if_false, hv]
      cases hr : runTask U g fl a.vals t with
      | none => exact ⟨wf, hm, by simp, by simp [he], hl⟩
      | some v =>
        refine ⟨wf_save U _ t _ wf ht, ?_, by simp, by simp [he], hl⟩
        cases hp : persists U t
        · simp [abs_save_not_persist U _ t _ hp, hm]
        · simp [abs_save_persist U _ t _ hinj hp, hm]
  · simp only [Bool.not_true, Bool.false_and, Bool.false_eq_true, if_false, if_true, hv]
    cases hr : runTask U g fl a.vals t with
    | none => exact ⟨wf, hm, by simp, by simp [he], hl⟩
    | some v =>
      refine ⟨wf_save U _ t _ wf ht, ?_, by simp, by simp [he], hl⟩
      cases hp : persists U t
      · simp [abs_save_not_persist U _ t _ hp, hm]
      · simp [abs_save_persist U _ t _ hinj hp, hm]

theorem fold_refines (U : Universe) (hinj : KeyInj U) (bust : Bool) (g : Nat) (fl : List Tid) (l : List Tid)
    (hl : ∀ t ∈ l, t < U.n) (c : Acc) (a : AAcc) (h : R U c a) :
    R U (l.foldl (stepC U bust g fl) c) (l.foldl (stepA U bust g fl) a) := by
  induction l generalizing c a with
  | nil => exact h
  | cons t ts ih =>
    simp only [List.foldl]
    exact ih (fun x hx => hl x (List.mem_cons_of_mem _ hx)) _ _
      (step_refines U hinj bust g fl c a t (hl t (List.mem_cons_self ..)) h)

/-- only tasks of the universe are planned -/
theorem foldl_condcons_mem (f : List Tid → Tid → Bool) (l acc : List Tid) (t : Tid)
    (h : t ∈ l.foldl (fun acc x => if f acc x then x :: acc else acc) acc) : t ∈ l ∨ t ∈ acc := by
  induction l generalizing acc with
  | nil => exact Or.inr h
  | cons x xs ih =>
    simp only [List.foldl] at h
    rcases ih _ h with h | h
    · exact Or.inl (List.mem_cons_of_mem _ h)
    · split at h
      · rcases List.mem_cons.mp h with h | h
        · exact Or.inl (h ▸ List.mem_cons_self ..)
        · exact Or.inr h
      · exact Or.inr h

theorem neededFrom_lt (U : Universe) (uc : Tid → Bool) (req : List Tid) (t : Tid)
    (h : t ∈ neededFrom U uc req) : t < U.n := by
  unfold neededFrom at h
  rcases foldl_condcons_mem (fun acc t => req.contains t || acc.any (fun p => !uc p && (U.deps p).contains t)) _ _ t h with h | h
  · simpa using h
  · simp at h

theorem run_refines (U : Universe) (hinj : KeyInj U) (bust : Bool) (g : Nat) (fl : List Tid) (req : List Tid) (d : Disk)
    (wf : Wf U d) : R U (labRun U bust g fl req d) (specRun U bust g fl req (abs U d)) := by
  unfold labRun specRun
  have huc : (fun t => !bust && labIsCached U d t) = (fun t => !bust && (abs U d t).isSome) := by
    funext t; unfold labIsCached; rw [isCached_iff_load U d t wf hinj]; rfl
  simp only [huc]
  apply fold_refines U hinj bust g fl _ (fun t ht => neededFrom_lt U _ req t ht)
  exact ⟨wf, rfl, rfl, rfl, rfl⟩

theorem uncache_refines (U : Universe) (hinj : KeyInj U) (ts : List Tid) (d : Disk) (wf : Wf U d) :
    Wf U (labUncache U d ts) ∧ abs U (labUncache U d ts) = specUncache (abs U d) ts := by
  induction ts generalizing d with
  | nil => exact ⟨wf, by funext x; simp [labUncache, specUncache]⟩
  | cons t ts ih =>
    simp only [labUncache]
    have hstep : Wf U (if labIsCached U d t then cDelete U d t else d) ∧
        abs U (if labIsCached U d t then cDelete U d t else d) = aRemove (abs U d) t := by
      cases hc : labIsCached U d t
      · refine ⟨by simpa using wf, ?_⟩
        simp only [Bool.false_eq_true, if_false]
        funext x
        simp only [aRemove]
        by_cases hx : x = t
        · subst hx
          unfold labIsCached at hc
          rw [isCached_iff_load U d x wf hinj] at hc
          simp only [if_true, abs]
          cases h : cLoad U d x <;> simp_all
        · simp [hx]
      · simp only [if_true]
        exact ⟨wf_delete U d t wf, abs_delete U d t hinj⟩
    obtain ⟨w1, a1⟩ := ih _ hstep.1
    refine ⟨w1, ?_⟩
    rw [a1, hstep.2]
    funext x
    simp only [specUncache, aRemove, List.contains_cons]
    by_cases hx : x = t
    · simp [hx]
    · have : (x == t) = false := by simp [hx]
      simp [hx, this]

/-! ### cached_tasks -/
theorem mem_insertSorted (k x : Key) (l : List Key) : x ∈ insertSorted k l ↔ x = k ∨ x ∈ l := by
  induction l with
  | nil => simp [insertSorted]
  | cons y ys ih =>
    simp only [insertSorted]
    split
    · simp
    · simp only [List.mem_cons, ih]
      constructor
      · rintro (h | h | h) <;> simp [h]
      · rintro (h | h | h) <;> simp [h]

theorem mem_sortKeys (x : Key) (l : List Key) : x ∈ sortKeys l ↔ x ∈ l := by
  induction l with
  | nil => simp [sortKeys]
  | cons y ys ih => simp [sortKeys, mem_insertSorted, ih]

theorem lookup_some_of_mem_keys (k : Key) (d : Disk) (h : k ∈ d.map (·.1)) : ∃ e, lookup k d = some e := by
  obtain ⟨p, hp, hk⟩ := List.mem_map.mp h
  have := mem_lookup_isSome k p.2 d (by rw [← hk]; exact hp)
  exact Option.isSome_iff_exists.mp this

theorem cLoadTask_some (U : Universe) (d : Disk) (T : Nat) (k : Key) (t : Tid) (h : cLoadTask U d T k = some t) :
    ∃ e, lookup k d = some e ∧ e.task = t ∧ U.ty t = T ∧ e.cls = U.cacheOf T ∧ U.cacheOf T ≠ .null := by
  unfold cLoadTask at h
  split at h
  · simp at h
  · next c hc =>
    split at h
    · simp at h
    · split at h
      · simp at h
      · next e he =>
        split at h
        · simp at h
        · split at h
          · simp at h
          · next h1 h2 =>
            simp at h
            refine ⟨e, he, h, ?_, ?_, ?_⟩
            · rw [← h]; simpa using h2
            · simpa using h1
            · intro hn; exact hc (by rw [hn])

theorem firstType_some (U : Universe) (d : Disk) (k : Key) (types : List Nat) (t : Tid)
    (h : firstType U d k types = some t) : ∃ T ∈ types, cLoadTask U d T k = some t := by
  induction types with
  | nil => simp [firstType] at h
  | cons T Ts ih =>
    simp only [firstType] at h
    cases hc : cLoadTask U d T k with
    | some t' => rw [hc] at h; simp at h; exact ⟨T, List.mem_cons_self .., by rw [hc, h]⟩
    | none =>
      rw [hc] at h
      obtain ⟨T', hT', h'⟩ := ih h
      exact ⟨T', List.mem_cons_of_mem _ hT', h'⟩

theorem firstType_of_some (U : Universe) (d : Disk) (k : Key) (types : List Nat) (T : Nat) (t : Tid)
    (hT : T ∈ types) (h : cLoadTask U d T k = some t) : firstType U d k types = some t := by
  induction types with
  | nil => simp at hT
  | cons T' Ts ih =>
    simp only [firstType]
    cases hc : cLoadTask U d T' k with
    | some t' =>
      -- any type that succeeds on this key yields the task named in the entry at this key
      obtain ⟨e, he, ht, _⟩ := cLoadTask_some U d T k t h
      obtain ⟨e', he', ht', _⟩ := cLoadTask_some U d T' k t' hc
      rw [he] at he'; cases he'
      simp [← ht, ← ht']
    | none =>
      rcases List.mem_cons.mp hT with hT | hT
      · subst hT; rw [hc] at h; simp at h
      · exact ih hT

theorem cachedTasks_refines (U : Universe) (hinj : KeyInj U) (hpre : ∀ T, U.namePrefix T T = true)
    (types : List Nat) (d : Disk) (wf : Wf U d) (t : Tid) :
    t ∈ labCachedTasks U d types ↔ t ∈ specCachedTasks U (abs U d) types := by
  unfold labCachedTasks specCachedTasks
  simp only [List.mem_filterMap, List.mem_filter, List.mem_range, Bool.and_eq_true]
  constructor
  · rintro ⟨k, hk, hf⟩
    have hns : U.nullStorage = false := by
      cases h : U.nullStorage
      · rfl
      · simp [sFindKeys, h] at hk
    obtain ⟨T, hT, hl⟩ := firstType_some U d k types t hf
    obtain ⟨e, he, het, hty, hcls, hnn⟩ := cLoadTask_some U d T k t hl
    have hw := wf k e (lookup_mem k e d he)
    rw [het] at hw
    refine ⟨hw.2.2.2.2, ?_, ?_⟩
    · rw [hty]; simpa using hT
    · simp only [abs, cLoad]
      have hk' : kindOf U t = U.cacheOf T := by unfold kindOf; rw [hty]
      rw [hk', ← hw.1, he]
      cases hc : U.cacheOf T with
      | null => exact absurd hc hnn
      | pickle => simp [hns, hcls, hc]
      | other => simp [hns, hcls, hc]
  · rintro ⟨htn, hty, hs⟩
    simp only [abs] at hs
    have hty' : U.ty t ∈ types := by simpa using hty
    -- unpack the successful load
    unfold cLoad at hs
    cases hk : kindOf U t with
    | null => simp [hk] at hs
    | pickle =>
      rw [hk] at hs
      cases hns : U.nullStorage
      · simp only [hns, Bool.false_eq_true, if_false] at hs
        cases he : lookup (keyOf U t) d with
        | none => simp [he] at hs
        | some e =>
          simp only [he] at hs
          have hcls : e.cls = .pickle := by
            by_cases h : e.cls = .pickle
            · exact h
            · simp [h] at hs
          have hw := wf _ e (lookup_mem _ e d he)
          have het : e.task = t := (hinj _ _ hw.1).symm
          refine ⟨keyOf U t, ?_, ?_⟩
          · simp only [sFindKeys, hns, Bool.false_eq_true, if_false, mem_sortKeys]
            exact List.mem_map.mpr ⟨(keyOf U t, e), lookup_mem _ e d he, rfl⟩
          · apply firstType_of_some U d _ types (U.ty t) t hty'
            have hc : U.cacheOf (U.ty t) = .pickle := hk
            unfold cLoadTask
            simp [hc, keyOf, hk, hpre, he, hcls, het]
            simp [keyOf, hk] at he
            simp [he, hcls, het]
      · simp [hns] at hs
    | other =>
      rw [hk] at hs
      cases hns : U.nullStorage
      · simp only [hns, Bool.false_eq_true, if_false] at hs
        cases he : lookup (keyOf U t) d with
        | none => simp [he] at hs
        | some e =>
          simp only [he] at hs
          have hcls : e.cls = .other := by
            by_cases h : e.cls = .other
            · exact h
            · simp [h] at hs
          have hw := wf _ e (lookup_mem _ e d he)
          have het : e.task = t := (hinj _ _ hw.1).symm
          refine ⟨keyOf U t, ?_, ?_⟩
          · simp only [sFindKeys, hns, Bool.false_eq_true, if_false, mem_sortKeys]
            exact List.mem_map.mpr ⟨(keyOf U t, e), lookup_mem _ e d he, rfl⟩
          · apply firstType_of_some U d _ types (U.ty t) t hty'
            have hc : U.cacheOf (U.ty t) = .other := hk
            unfold cLoadTask
            simp [hc, keyOf, hk, hpre, he, hcls, het]
            simp [keyOf, hk] at he
            simp [he, hcls, het]
      · simp [hns] at hs

end Lt.Store
