import LabtechModel.Proofs.Inv2Main
/-!
# C10, fail-fast clause, whole runs: the value invariant WITHOUT `continue_on_failure`

`ValInv` (`Proofs/Inv2Ref.lean`) contains `status = running`, so `loopHead_val` needs
`contOnFail = true ∨ NoFailure`. Here the same induction is carried out for an arbitrary configuration
and arbitrary failing / dying tasks. The loop-head invariant `FFInv` is a disjunction:

* the coordinator is running, `ValInv` holds and (`AllOk`) every outcome handed over so far was a
  success unless failures are tolerated; or
* (`RaisedAt`) `contOnFail = false`, the status is `raised (labError t)`, the trace ENDS with the
  yield `(t, o)`, `o` is a failure and is the reference outcome of `t`, and every yield before it is
  a success and the reference outcome of its task.

Once `RaisedAt` holds nothing changes any more (`processYields` / `runLoop` are the identity on a
raised state).
-/
namespace Lt

/-- every outcome handed over so far was a success, unless failures are tolerated -/
def AllOk (cfg : Config) (rs : RS) : Prop :=
  cfg.contOnFail = true ∨ ∀ t o, Ev.yield t o ∈ rs.trace → ∃ v, o = .ok v

/-- the state right after the first failure was handed to a fail-fast coordinator -/
def RaisedAt (cfg : Config) (p : Problem) (obj : Tid → Iid) (store0 : Store) (rs : RS) : Prop :=
  cfg.contOnFail = false ∧ ∃ t o pre, rs.status = .raised (.labError t) ∧
    rs.trace = pre ++ [Ev.yield t o] ∧ (o = .exc ∨ o = .died) ∧
    o = refOutcome cfg p store0 obj t ∧
    ∀ t' o', Ev.yield t' o' ∈ pre → o' = refOutcome cfg p store0 obj t' ∧ ∃ v, o' = .ok v

/-- the loop-head invariant for an arbitrary configuration -/
def FFInv (cfg : Config) (p : Problem) (obj : Tid → Iid) (store0 : Store) (req : List Tid)
    (extra : List Tid) (rs : RS) : Prop :=
  (ValInv cfg p obj store0 req extra rs ∧ AllOk cfg rs) ∨ RaisedAt cfg p obj store0 rs

theorem AllOk.transfer {cfg : Config} {rs rs' : RS} (h : AllOk cfg rs) (l : List Ev)
    (htr : rs'.trace = rs.trace ++ l) (hny : ∀ e ∈ l, evYield e = none) : AllOk cfg rs' := by
  rcases h with h | h
  · exact Or.inl h
  · right
    intro t o ho
    rw [htr, mem_yield_append_ny _ _ hny] at ho
    exact h t o ho

/-! ## submit phase -/
theorem startProcesses_allOk {cfg : Config} {rs : RS} (h : AllOk cfg rs) :
    AllOk cfg (startProcesses cfg rs) := by
  obtain ⟨go, stay, _, hsp⟩ := startProcesses_shape cfg rs
  rw [hsp]
  exact h.transfer _ rfl (fun e he => ((quiet_starts _) e he).1)

theorem submitStep_allOk {cfg : Config} {p : Problem} {rs : RS} {t : Tid} (h : AllOk cfg rs) :
    AllOk cfg (submitTask cfg p { rs with ts := startedTS rs.ts t } t) := by
  have hbase : AllOk cfg (submitState rs t (newJob cfg p rs t) (useCache cfg p rs.store t)) := by
    refine h.transfer [Ev.submit t (useCache cfg p rs.store t)] rfl ?_
    intro e he; simp only [List.mem_singleton] at he; subst he; rfl
  simp only [submitTask]
  split
  · exact hbase
  · exact startProcesses_allOk hbase

theorem submitAll_allOk {cfg : Config} {p : Problem} :
    ∀ (l : List Tid) (rs : RS), l.Nodup → (∀ t ∈ l, t ∈ rs.ts.pending) →
      AllOk cfg rs → AllOk cfg (submitAll cfg p l rs) := by
  intro l
  induction l with
  | nil => intro rs _ _ hr; exact hr
  | cons t ts ih =>
    intro rs hnd hmem hr
    have ht := hmem t List.mem_cons_self
    have hnd' := List.nodup_cons.mp hnd
    have hst : startTask rs.ts t = some (startedTS rs.ts t) := by
      simp [startTask, setRemove, ht, startedTS]
    simp only [submitAll, hst]
    apply ih _ hnd'.2 _ (submitStep_allOk hr)
    intro x hx
    rw [submitTask_ts]
    simp only [List.mem_filter, ne_eq, decide_eq_true_eq]
    exact ⟨hmem x (List.mem_cons_of_mem _ hx), fun hxt => hnd'.1 (hxt ▸ hx)⟩

/-! ## handling one outcome -/
theorem processYield_mem_yield (cfg : Config) (req : List Tid) (rs : RS) (t : Tid) (o : Outcome)
    (t' : Tid) (o' : Outcome) :
    Ev.yield t' o' ∈ (processYield cfg req rs t o).trace ↔
      (Ev.yield t' o' ∈ rs.trace ∨ (t' = t ∧ o' = o)) := by
  cases o <;> simp only [processYield] <;> split <;> (try split) <;> simp

/-- a failure handed to a fail-fast coordinator: the yield is the last event and the status is the
    `LabError` of that task -/
theorem processYield_failfast (cfg : Config) (req : List Tid) (rs : RS) (t : Tid) (o : Outcome)
    (ho : o = .exc ∨ o = .died) (hcf : cfg.contOnFail = false) (s' : TS) (rem : List Tid)
    (hct : completeTask rs.ts t = some (s', rem)) :
    (processYield cfg req rs t o).status = .raised (.labError t) ∧
    (processYield cfg req rs t o).trace = rs.trace ++ [Ev.yield t o] := by
  rcases ho with h | h <;> subst h <;> simp [processYield, hct, hcf]

theorem processYields_raised (cfg : Config) (req : List Tid) (ys : List (Tid × Outcome)) (rs : RS)
    (e : Err) (h : rs.status = .raised e) : processYields cfg req ys rs = rs := by
  cases ys with
  | nil => rfl
  | cons y ys => obtain ⟨t, o⟩ := y; simp [processYields, h]

theorem runLoop_raised (cfg : Config) (p : Problem) (req : List Tid) (sched : List Choice) (rs : RS)
    (e : Err) (h : rs.status = .raised e) : runLoop cfg p req sched rs = rs := by
  cases sched with
  | nil => rfl
  | cons c cs => simp [runLoop, h]

theorem outcome_ok_or_failed (o : Outcome) : (∃ v, o = .ok v) ∨ (o = .exc ∨ o = .died) := by
  cases o with
  | ok v => exact Or.inl ⟨v, rfl⟩
  | exc => exact Or.inr (Or.inl rfl)
  | died => exact Or.inr (Or.inr rfl)

/-- handling the reference outcome of a task, whatever it is -/
theorem yieldStep_ff {cfg : Config} {p : Problem} {obj : Tid → Iid} {store0 : Store} {fuel : Nat}
    {req : List Tid} {extra : List Tid} {rs : RS} {t : Tid} (o : Outcome)
    (hc : Core p (plan cfg p store0 fuel) rs) (he : Exec cfg (plan cfg p store0 fuel) (t :: extra) rs)
    (hr : ValInv cfg p obj store0 req (t :: extra) rs) (ha : AllOk cfg rs)
    (ho : o = refOutcome cfg p store0 obj t) :
    FFInv cfg p obj store0 req extra
      (processYield cfg req { rs with futs := rs.futs.filter (· ≠ t) } t o) := by
  have hok_or : (cfg.contOnFail = true ∨ ∃ v, o = .ok v) ∨
      (cfg.contOnFail = false ∧ (o = .exc ∨ o = .died)) := by
    cases hcf : cfg.contOnFail with
    | true => exact Or.inl (Or.inl rfl)
    | false =>
      rcases outcome_ok_or_failed o with h | h
      · exact Or.inl (Or.inr h)
      · exact Or.inr ⟨rfl, h⟩
  rcases hok_or with hok | ⟨hcf, hfail⟩
  · left
    refine ⟨yieldStep_val o hc he hr ho hok, ?_⟩
    rcases ha with ha | ha
    · exact Or.inl ha
    · rcases hok with hok | ⟨v, hv⟩
      · exact Or.inl hok
      · right
        intro t' o' h'
        rcases (processYield_mem_yield cfg req _ t o t' o').mp h' with h1 | ⟨_, h2⟩
        · exact ha t' o' h1
        · exact ⟨v, h2.trans hv⟩
  · right
    have htF : t ∈ rs.futs := he.perm.mem_iff.mp (by simp)
    have htA : t ∈ rs.ts.active := (hc.futsAct t).mp htF
    obtain ⟨s', rem, hct, _⟩ := completeTask_TSInv _ (plan_PI cfg p store0 fuel) _ rs.ts t hc.ts htA
    obtain ⟨hst, htr⟩ := processYield_failfast cfg req { rs with futs := rs.futs.filter (· ≠ t) } t o
      hfail hcf s' rem hct
    refine ⟨hcf, t, o, rs.trace, hst, htr, hfail, ho, ?_⟩
    intro t' o' h'
    refine ⟨hr.yOk t' o' h', ?_⟩
    rcases ha with ha | ha
    · rw [hcf] at ha; cases ha
    · exact ha t' o' h'

theorem processYields_ff {cfg : Config} {p : Problem} {obj : Tid → Iid} {store0 : Store} {fuel : Nat}
    {req : List Tid} :
    ∀ (ys : List (Tid × Outcome)) (rs : RS), Core p (plan cfg p store0 fuel) rs →
      Exec cfg (plan cfg p store0 fuel) (ys.map Prod.fst) rs →
      ValInv cfg p obj store0 req (ys.map Prod.fst) rs → AllOk cfg rs →
      (∀ y ∈ ys, y.2 = refOutcome cfg p store0 obj y.1) →
      FFInv cfg p obj store0 req [] (processYields cfg req ys rs) := by
  intro ys
  induction ys with
  | nil => intro rs _ _ hr ha _; exact Or.inl ⟨hr, ha⟩
  | cons y rest ih =>
    intro rs hc he hr ha hys
    obtain ⟨t, o⟩ := y
    have ho := hys (t, o) List.mem_cons_self
    simp only at ho
    simp only [processYields]
    split
    · rcases yieldStep_ff (t := t) (extra := rest.map Prod.fst) o hc he hr ha ho with ⟨hr', ha'⟩ | hR
      · obtain ⟨hc', he', _⟩ := yieldStep_inv (t := t) (extra := rest.map Prod.fst) req o
          (plan_PI cfg p store0 fuel) hc he hr.run
        exact ih _ hc' (he' hr'.run) hr' ha' (fun y hy => hys y (List.mem_cons_of_mem _ hy))
      · obtain ⟨_, t1, o1, pre, hst, _⟩ := id hR
        rw [processYields_raised cfg req rest _ _ hst]
        exact Or.inr hR
    · next hnr => exact absurd hr.run (by intro h; exact hnr h)

/-! ## the two kinds of wait -/
theorem waitSerial_ff {cfg : Config} {p : Problem} {obj : Tid → Iid} {store0 : Store} {fuel : Nat}
    {req : List Tid} {rs : RS} (H : RefHypF p obj) (hb : cfg.backend = .serial)
    (hc : Core p (plan cfg p store0 fuel) rs) (he : Exec cfg (plan cfg p store0 fuel) [] rs)
    (hf : FlagInv cfg p store0 [] rs)
    (hr : ValInv cfg p obj store0 req [] rs) (ha : AllOk cfg rs) :
    FFInv cfg p obj store0 req [] (waitSerial cfg p req rs) := by
  have hP := plan_PI cfg p store0 fuel
  have hs := hf.2 hr.run
  cases hq : rs.queued with
  | nil =>
    rw [waitSerial_nil cfg p req rs hq]
    have hny : ∀ e ∈ [Ev.waitEnter (rs.queued.map Job.tid) []], evYield e = none := by
      intro e he'; simp only [List.mem_singleton] at he'; subst he'; rfl
    exact Or.inl ⟨hr.transfer [Ev.waitEnter (rs.queued.map Job.tid) []] rfl hny rfl rfl hr.stoDone,
      ha.transfer [Ev.waitEnter (rs.queued.map Job.tid) []] rfl hny⟩
  | cons j rest =>
    rw [waitSerial_cons cfg p req rs j rest hq]
    obtain ⟨hcA, heA⟩ := serialPre_inv hP hc he j rest hq
    have hjq : j ∈ rs.queued ++ rs.running := by rw [hq]; simp
    have hjA : j.tid ∈ rs.ts.active := he.job_active hc j hjq
    have hjY : j.tid ∉ yielded rs := hc.ts.disjAY _ hjA
    have hflag := hs.flag j hjq
    have hframe := hs.frame j.tid hjY (by simp)
    have ho := runOutcome_refF H hc hr { j with snap := some rs.results } hjA hflag
      rs.results rfl (results_snapOK hP hc he j.tid hjY) rs.store hframe (diesIn_serial cfg p _ hb)
    have ho' : runOutcome p rs.ts rs.store { j with snap := some rs.results } =
        refOutcome cfg p store0 obj j.tid := ho
    have hny : ∀ e ∈ serialEvs p rs j, evYield e = none :=
      fun e he' => ((serialEvs_quiet p rs j) e he').1
    have hrA : ValInv cfg p obj store0 req [j.tid] (serialPre p rs j rest) := by
      refine hr.transfer (serialEvs p rs j) (serialPre_trace p rs j rest) hny rfl rfl ?_
      intro t ht
      show lookup t (saveIfRan p rs.store { j with snap := some rs.results }
        (runOutcome p rs.ts rs.store { j with snap := some rs.results })) = _
      by_cases htj : t = j.tid
      · subst htj
        exact saveIfRan_self cfg p store0 obj rs.store { j with snap := some rs.results } _ hflag hframe ho'
      · rw [saveIfRan_lookup_ne p rs.store { j with snap := some rs.results } _ t htj]
        apply hr.stoDone t
        rcases ht with h | h
        · exact Or.inl h
        · simp only [List.mem_singleton] at h; exact absurd h htj
    have haA : AllOk cfg (serialPre p rs j rest) :=
      ha.transfer (serialEvs p rs j) (serialPre_trace p rs j rest) hny
    exact yieldStep_ff _ hcA heA hrA haA ho'

theorem waitProcess_ff {cfg : Config} {p : Problem} {obj : Tid → Iid} {store0 : Store} {fuel : Nat}
    {req : List Tid} {rs : RS} (H : RefHypF p obj) (c : Choice) (hb : cfg.backend ≠ .serial)
    (hc : Core p (plan cfg p store0 fuel) rs) (he : Exec cfg (plan cfg p store0 fuel) [] rs)
    (hf : FlagInv cfg p store0 [] rs)
    (hr : ValInv cfg p obj store0 req [] rs) (ha : AllOk cfg rs) :
    FFInv cfg p obj store0 req [] (waitProcess cfg p req c rs) := by
  have hP := plan_PI cfg p store0 fuel
  have hs := hf.2 hr.run
  obtain ⟨hwp, hcA, heA, hperm, hfinNd⟩ := waitProcess_explicit req c hb hc he
  rw [hwp]
  have hfinq : ∀ j ∈ finJobs c rs, j ∈ rs.queued ++ rs.running :=
    fun j hj => List.mem_append_right _ (finJobs_mem c rs j hj)
  -- the outcome of every finished worker, against any store that kept the task's own entry
  have hout : ∀ j ∈ finJobs c rs, ∀ st', lookup j.tid st' = lookup j.tid store0 →
      jobOutcome p rs.ts st' j = refOutcome cfg p store0 obj j.tid := by
    intro j hj st' hst'
    have hjq := hfinq j hj
    have hjA := he.job_active hc j hjq
    cases hd : p.dies j.tid with
    | true =>
      simp [jobOutcome, hd, refOutcome, diesIn_process cfg p _ hb]
    | false =>
      have hjr := finJobs_mem c rs j hj
      cases hsn : j.snap with
      | none => exact absurd hsn (he.runSnap j hjr)
      | some snap =>
        have := runOutcome_refF H hc hr j hjA (hs.flag j hjq) snap hsn (he.snapOK j hjq snap hsn) st' hst'
          (by rw [diesIn_process cfg p _ hb]; exact hd)
        simp only [jobOutcome, hd, Bool.false_eq_true, if_false]
        exact this
  have hframe : ∀ j ∈ finJobs c rs, lookup j.tid rs.store = lookup j.tid store0 := by
    intro j hj
    exact hs.frame j.tid (hc.ts.disjAY _ (he.job_active hc j (hfinq j hj))) (by simp)
  have hny : ∀ e ∈ procEvs p c rs, evYield e = none :=
    fun e he' => ((procEvs_quiet p c rs) e he').1
  have hrA : ValInv cfg p obj store0 req ((finJobs c rs).map Job.tid) (procPre p c rs) := by
    refine hr.transfer (procEvs p c rs) (procPre_trace p c rs) hny rfl rfl ?_
    intro t ht
    show lookup t (saveAll p rs.ts (finJobs c rs) rs.store) = _
    by_cases htf : t ∈ (finJobs c rs).map Job.tid
    · obtain ⟨j, hj, rfl⟩ := List.mem_map.mp htf
      exact saveAll_self cfg p store0 obj rs.ts _ _ hfinNd hframe (fun j hj => hs.flag j (hfinq j hj)) hout j hj
    · rw [saveAll_lookup_ne p rs.ts t _ _ (by
        intro j hj heq
        exact htf (List.mem_map.mpr ⟨j, hj, heq.symm⟩))]
      apply hr.stoDone t
      rcases ht with h | h
      · exact Or.inl h
      · exact absurd h htf
  have haA : AllOk cfg (procPre p c rs) := ha.transfer (procEvs p c rs) (procPre_trace p c rs) hny
  obtain ⟨hcB, heB⟩ := startProcesses_inv hP hb hcA heA
  have hrB := startProcesses_val hrA
  have haB := startProcesses_allOk haA
  apply processYields_ff _ _ hcB (heB.perm_extra hperm.symm)
    (hrB.perm_extra (fun t => hperm.symm.mem_iff)) haB
  intro y hy
  simp only [procYs, List.mem_filterMap] at hy
  obtain ⟨t, _, hfind⟩ := hy
  have hyO := List.mem_of_find?_eq_some hfind
  simp only [procOutcomes, List.mem_map] at hyO
  obtain ⟨j, hj, rfl⟩ := hyO
  exact hout j hj rs.store (hframe j hj)

/-! ## one iteration, whole runs -/
theorem iteration_ff {cfg : Config} {p : Problem} {obj : Tid → Iid} {store0 : Store} {fuel : Nat}
    {rs : RS} (H : RefHypF p obj) (c : Choice)
    (h : Reach cfg p (plan cfg p store0 fuel) rs) (hf : FlagInv cfg p store0 [] rs)
    (hr : ValInv cfg p obj store0 (reqTids p) [] rs) (ha : AllOk cfg rs) :
    FFInv cfg p obj store0 (reqTids p) [] (iteration cfg p (reqTids p) c rs) := by
  have hP := plan_PI cfg p store0 fuel
  obtain ⟨hc, he, hst⟩ := submitPhase_reach hP h hr.run
  have hnd : (readyTasks p rs.ts).Nodup := (readyAux_sublist p rs.ts rs.ts.pending _).nodup h.1.ts.ndP
  have hmem : ∀ t ∈ readyTasks p rs.ts, t ∈ rs.ts.pending ∧ rs.ts.pendDeps t = [] :=
    fun t ht => (readyTasks_no_pending_deps p rs.ts t ht).symm
  have hfS := submitAll_flag (store0 := store0) hP _ rs hnd hmem h.1 (h.2 hr.run) hr.run hf
  have hrS := submitAll_val (obj := obj) (req := reqTids p) _ rs hnd (fun t ht => (hmem t ht).1) hr
  have haS := submitAll_allOk (cfg := cfg) (p := p) _ rs hnd (fun t ht => (hmem t ht).1) ha
  simp only [iteration, hst]
  split
  · next hb => exact waitSerial_ff H hb hc he hfS hrS haS
  · next hb => exact waitProcess_ff H c hb hc he hfS hrS haS

theorem runLoop_ff {cfg : Config} {p : Problem} {obj : Tid → Iid} {store0 : Store} {fuel : Nat}
    (H : RefHypF p obj) :
    ∀ (sched : List Choice) (rs : RS), Reach cfg p (plan cfg p store0 fuel) rs →
      FlagInv cfg p store0 [] rs → FFInv cfg p obj store0 (reqTids p) [] rs →
      FFInv cfg p obj store0 (reqTids p) [] (runLoop cfg p (reqTids p) sched rs) := by
  intro sched
  induction sched with
  | nil => intro rs _ _ hr; exact hr
  | cons c cs ih =>
    intro rs h hf hr
    rcases hr with ⟨hr, ha⟩ | hR
    · simp only [runLoop, hr.run]
      split
      · exact ih _ (iteration_reach _ (plan_PI cfg p store0 fuel) c h hr.run)
          (iteration_flag (plan_PI cfg p store0 fuel) c h hr.run hf) (iteration_ff H c h hf hr ha)
      · exact Or.inl ⟨hr, ha⟩
    · obtain ⟨_, t1, o1, pre, hst, _⟩ := id hR
      rw [runLoop_raised cfg p _ _ rs _ hst]
      exact Or.inr hR

/-- the fail-fast-aware value invariant at every loop-head state, for every configuration -/
theorem loopHead_ff (cfg : Config) (p : Problem) (store : Store) (fuel : Nat) (sched : List Choice)
    (obj : Tid → Iid) (H : RefHypF p obj) :
    FFInv cfg p obj store (reqTids p) [] (loopHead cfg p store fuel sched) :=
  runLoop_ff H sched _ (initRS_reach cfg p store fuel) (initRS_flag cfg p store fuel)
    (Or.inl ⟨initRS_val cfg p obj store fuel, Or.inr (by intro t o h; simp [initRS] at h)⟩)

/-! ## corollaries in the form used by `Props/C10.lean` -/

/-- every yield at a loop head is the reference outcome of its task (no `contOnFail` hypothesis) -/
theorem loopHead_yOk (cfg : Config) (p : Problem) (store : Store) (fuel : Nat) (sched : List Choice)
    (obj : Tid → Iid) (H : RefHypF p obj) (t : Tid) (o : Outcome)
    (h : Ev.yield t o ∈ (loopHead cfg p store fuel sched).trace) :
    o = refOutcome cfg p store obj t := by
  rcases loopHead_ff cfg p store fuel sched obj H with ⟨hr, _⟩ | ⟨_, t1, o1, pre, _, htr, _, ho1, hpre⟩
  · exact hr.yOk t o h
  · rw [htr] at h
    rcases List.mem_append.mp h with h1 | h1
    · exact (hpre t o h1).1
    · simp only [List.mem_singleton, Ev.yield.injEq] at h1
      obtain ⟨h2, h3⟩ := h1
      subst h2; subst h3
      exact ho1

/-- a loop head that raised `LabError t`: the decomposition of its trace -/
theorem loopHead_raised (cfg : Config) (p : Problem) (store : Store) (fuel : Nat) (sched : List Choice)
    (obj : Tid → Iid) (H : RefHypF p obj) (t : Tid)
    (h : (loopHead cfg p store fuel sched).status = .raised (.labError t)) :
    cfg.contOnFail = false ∧ ∃ o pre,
      (loopHead cfg p store fuel sched).trace = pre ++ [Ev.yield t o] ∧ (o = .exc ∨ o = .died) ∧
      o = refOutcome cfg p store obj t ∧
      (∀ t' o', Ev.yield t' o' ∈ pre → o' = refOutcome cfg p store obj t' ∧ ∃ v, o' = .ok v) ∧
      (∀ o', Ev.yield t o' ∉ pre) := by
  rcases loopHead_ff cfg p store fuel sched obj H with ⟨hr, _⟩ | ⟨hcf, t1, o1, pre, hst, htr, hfail, ho1, hpre⟩
  · rw [hr.run] at h; cases h
  · rw [hst] at h
    simp only [Status.raised.injEq, Err.labError.injEq] at h
    subst h
    refine ⟨hcf, o1, pre, htr, hfail, ho1, hpre, ?_⟩
    intro o' ho'
    have hnd := (reach_all cfg p store fuel sched).1.ts.ndY
    simp only [yielded] at hnd
    rw [htr] at hnd
    simp only [yieldedOf, List.filterMap_append, List.filterMap_cons, List.filterMap_nil, evYield] at hnd
    have hmem : t1 ∈ List.filterMap evYield pre := (mem_yieldedOf pre t1).mpr ⟨o', ho'⟩
    rw [List.nodup_append] at hnd
    exact hnd.2.2 t1 hmem t1 (by simp) rfl

/-- a running loop head: `ValInv` and all yields so far were tolerated -/
theorem loopHead_running_val (cfg : Config) (p : Problem) (store : Store) (fuel : Nat) (sched : List Choice)
    (obj : Tid → Iid) (H : RefHypF p obj)
    (h : (loopHead cfg p store fuel sched).status = .running) :
    ValInv cfg p obj store (reqTids p) [] (loopHead cfg p store fuel sched) ∧
    AllOk cfg (loopHead cfg p store fuel sched) := by
  rcases loopHead_ff cfg p store fuel sched obj H with hv | ⟨_, t1, o1, pre, hst, _⟩
  · exact hv
  · rw [hst] at h; cases h

/-- `run_tasks` raised exactly when the last loop head had raised -/
theorem run_raised_iff_loopHead (cfg : Config) (p : Problem) (store : Store) (fuel : Nat) (sched : List Choice)
    (e : Err) :
    (run cfg p store fuel sched).status = .raised e ↔ (loopHead cfg p store fuel sched).status = .raised e := by
  have hfin : (run cfg p store fuel sched).status =
      (finish (reqTids p) (loopHead cfg p store fuel sched)).status := rfl
  rcases finish_status_cases (reqTids p) (loopHead cfg p store fuel sched) with h | ⟨hrun, _, r, hr⟩
  · rw [hfin, h]
  · rw [hfin, hr, hrun]; simp

/-- a run that returned: every planned task was yielded, the captured results of the requested
    tasks are their reference values (no fairness, no `contOnFail` hypothesis) -/
theorem run_returned_refF (cfg : Config) (p : Problem) (store : Store) (fuel : Nat) (sched : List Choice)
    (obj : Tid → Iid) (H : RefHypF p obj) (hfuel : 0 < fuel ∨ p.requested = [])
    (r : List (Tid × Val)) (h : (run cfg p store fuel sched).status = .returned r) :
    (loopHead cfg p store fuel sched).status = .running ∧
    (∀ t, t ∈ (plan cfg p store fuel).pending ↔ t ∈ yielded (loopHead cfg p store fuel sched)) ∧
    r = (dedup (reqTids p)).filterMap (fun t => (refEvalF cfg p store obj t).map (fun v => (t, v))) := by
  have hreach := reach_all cfg p store fuel sched
  rcases finish_status_cases (reqTids p) (loopHead cfg p store fuel sched) with h' | ⟨hrun, hlc, _⟩
  · have : (loopHead cfg p store fuel sched).status = .returned r := by rw [← h']; exact h
    exact absurd this (hreach.1.noRet r)
  · obtain ⟨hr, _⟩ := loopHead_running_val cfg p store fuel sched obj H hrun
    have hlc' := hlc
    simp only [loopCond, Bool.or_eq_false_iff, Bool.not_eq_eq_eq_not, Bool.not_false,
      List.isEmpty_iff] at hlc'
    have hall : ∀ t, t ∈ (plan cfg p store fuel).pending ↔ t ∈ yielded (loopHead cfg p store fuel sched) := by
      intro t
      refine ⟨fun htP => ?_, fun h => (hreach.1.ts.cover t).mpr (Or.inr (Or.inr h))⟩
      rcases (hreach.1.ts.cover _).mp htP with h1 | h1 | h1
      · rw [hlc'.1] at h1; simp at h1
      · have := (hreach.1.futsAct _).mpr h1
        rw [hlc'.2] at this; simp at this
      · exact h1
    refine ⟨hrun, hall, ?_⟩
    have hreq : ∀ t ∈ reqTids p,
        lookup t (loopHead cfg p store fuel sched).taskResults = refEvalF cfg p store obj t := by
      intro t ht
      obtain ⟨i, hi, rfl⟩ := List.mem_map.mp ht
      have hfuel' : 0 < fuel := by
        rcases hfuel with h0 | h0
        · exact h0
        · rw [h0] at hi; simp at hi
      have htP := plan_requested_pending cfg p store fuel hfuel' i hi
      have htY := (hall _).mp htP
      obtain ⟨o, ho⟩ := (mem_yieldedOf _ _).mp htY
      have ho' := hr.yOk _ _ ho
      apply option_eq_of_some_iff
      intro v
      rw [hr.capture _ ht v, ← refOutcome_ok_iff]
      constructor
      · intro h; exact (hr.yOk _ _ h).symm
      · intro h; rw [← h, ← ho']; exact ho
    have hfin : (run cfg p store fuel sched).status =
        (finish (reqTids p) (loopHead cfg p store fuel sched)).status := rfl
    rw [hfin] at h
    simp only [finish, hrun, hlc] at h
    simp only [Bool.false_eq_true, if_false, Status.returned.injEq] at h
    rw [← h]
    apply filterMap_congr'
    intro t ht
    rw [hreq t ((mem_dedup _ _).mp ht)]

end Lt
