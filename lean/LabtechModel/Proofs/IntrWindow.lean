import LabtechModel.Proofs.IntrLive
/-!
# M10: where `Tr` holds — exactly outside the start-and-track windows

The *window* is a decidable predicate of the executed prefix of the main stream (`inWindow`):
* `_start_processes` has executed `process.start()` for a future and has not yet deleted it from
  `_pending_future_to_thunk` (`procStart j … unregPending j`) — from `submit` AND from `wait`; or
* `submit_task(t)` is in progress (`enqueue t` executed, `regFuture t` not yet) and the worker of
  `t` itself has been started (`procStart t` since the `enqueue t`).
Outside the window `Tr` holds (`tr_outside_window`), in particular at every loop head.

`MI X`: the invariant of the main stream between two bookkeeping blocks; `X` = the task whose
`submit_task` is in progress (its future is not in `future_to_task` yet).
-/
namespace Lt

variable {cfg : Config} {p : Problem}

/-! ## the window, read off the executed prefix -/
structure WS where
  /-- `_start_processes`: a process was started whose future is still tracked as pending -/
  st : Option Tid
  /-- `submit_task(t)` in progress: after `enqueue t`, before `regFuture t` -/
  sub : Option Tid
  /-- the worker of `sub` has been started -/
  started : Bool
  deriving DecidableEq, Repr

def WS.init : WS := ⟨none, none, false⟩

def winStep (w : WS) : Prim → WS
  | .enqueue t => { w with sub := some t, started := false }
  | .procStart j => { w with st := some j, started := w.started || (w.sub == some j) }
  | .unregPending _ => { w with st := none }
  | .regFuture _ => { w with sub := none, started := false }
  | _ => w

def winOf (pre : List Prim) : WS := pre.foldl winStep WS.init

def WS.inside (w : WS) : Bool := w.st.isSome || w.started

/-- the executed prefix `pre` of the main stream ends inside a start-and-track window -/
def inWindow (pre : List Prim) : Bool := (winOf pre).inside

/-- primitives that do not move the window -/
def Prim.winNeutral : Prim → Bool
  | .enqueue _ | .procStart _ | .unregPending _ | .regFuture _ => false
  | _ => true

theorem winStep_neutral (w : WS) (q : Prim) (h : q.winNeutral = true) : winStep w q = w := by
  cases q <;> simp [Prim.winNeutral] at h <;> rfl

theorem foldl_neutral (w : WS) : ∀ (ps : List Prim), (∀ q ∈ ps, q.winNeutral = true) →
    ps.foldl winStep w = w := by
  intro ps
  induction ps with
  | nil => intro _; rfl
  | cons q ps ih =>
    intro h
    rw [List.foldl_cons, winStep_neutral w q (h q List.mem_cons_self)]
    exact ih (fun q' hq' => h q' (List.mem_cons_of_mem _ hq'))

/-- `R w s` holds in `s` and after every prefix, `w` following the executed primitives -/
def AlwaysW (cfg : Config) (p : Problem) (R : WS → IS → Prop) : List Prim → WS → IS → Prop
  | [], w, s => R w s
  | q :: ps, w, s => R w s ∧ AlwaysW cfg p R ps (winStep w q) (applyPrim cfg p q s)

theorem AlwaysW.head {R : WS → IS → Prop} {ps : List Prim} {w : WS} {s : IS}
    (h : AlwaysW cfg p R ps w s) : R w s := by
  cases ps with
  | nil => exact h
  | cons q ps => exact h.1

theorem alwaysW_append {R : WS → IS → Prop} : ∀ (a b : List Prim) (w : WS) (s : IS),
    AlwaysW cfg p R (a ++ b) w s ↔
      AlwaysW cfg p R a w s ∧ AlwaysW cfg p R b (a.foldl winStep w) (runPrims cfg p a s) := by
  intro a
  induction a with
  | nil =>
    intro b w s
    simp only [List.nil_append, List.foldl_nil, runPrims_nil, AlwaysW]
    exact ⟨fun h => ⟨h.head, h⟩, fun h => h.2⟩
  | cons q a ih =>
    intro b w s
    simp only [List.cons_append, AlwaysW, List.foldl_cons, runPrims_cons, ih]
    exact ⟨fun h => ⟨⟨h.1, h.2.1⟩, h.2.2⟩, fun h => ⟨h.1.1, h.1.2, h.2⟩⟩

theorem AlwaysW.prefix {R : WS → IS → Prop} : ∀ {ps : List Prim} {w : WS} {s : IS},
    AlwaysW cfg p R ps w s → ∀ k, R ((ps.take k).foldl winStep w) (runPrims cfg p (ps.take k) s) := by
  intro ps
  induction ps with
  | nil => intro w s h k; simp only [List.take_nil, List.foldl_nil, runPrims_nil]; exact h
  | cons q ps ih =>
    intro w s h k
    cases k with
    | zero => exact h.1
    | succ k => exact ih h.2 k

theorem alwaysW_neutral {R : WS → IS → Prop} (w : WS) : ∀ (ps : List Prim) (s : IS),
    (∀ q ∈ ps, q.winNeutral = true) → Always cfg p (R w) ps s → AlwaysW cfg p R ps w s := by
  intro ps
  induction ps with
  | nil => intro s _ h; exact h
  | cons q ps ih =>
    intro s hq h
    refine ⟨h.1, ?_⟩
    rw [winStep_neutral w q (hq q List.mem_cons_self)]
    exact ih _ (fun q' hq' => hq q' (List.mem_cons_of_mem _ hq')) h.2

/-! ## the invariant of the main stream (process runners) -/
structure MI (X : List Tid) (s : IS) : Prop where
  aliveRun : ∀ t ∈ s.alive, t ∈ s.rs.running.map Job.tid
  runFut : ∀ j ∈ s.rs.running, j.tid ∈ s.rs.futs ∨ j.tid ∈ X
  qFut : ∀ j ∈ s.rs.queued, j.tid ∈ s.rs.futs ∨ j.tid ∈ X
  doneFut : ∀ t ∈ s.done.map (·.1), t ∈ s.rs.futs
  zombFut : ∀ t ∈ s.zombies, t ∈ s.rs.futs
  noCanc : s.cancelled = []
  runNd : (s.rs.running.map Job.tid).Nodup
  qNd : (s.rs.queued.map Job.tid).Nodup
  zNd : s.zombies.Nodup
  runNotDone : ∀ j ∈ s.rs.running, j.tid ∉ s.done.map (·.1)
  runNotZomb : ∀ j ∈ s.rs.running, j.tid ∉ s.zombies
  queuedNotRun : ∀ j ∈ s.rs.queued, j.tid ∉ s.rs.running.map Job.tid
  qNotDone : ∀ j ∈ s.rs.queued, j.tid ∉ s.done.map (·.1)
  qNotZomb : ∀ j ∈ s.rs.queued, j.tid ∉ s.zombies
  zNotDone : ∀ t ∈ s.zombies, t ∉ s.done.map (·.1)

theorem MI.tr {X : List Tid} {s : IS} (h : MI X s) (hb : cfg.backend ≠ .serial)
    (hX : ∀ j ∈ s.rs.running, j.tid ∉ X) : Tr cfg s where
  aliveRun := h.aliveRun
  runFut := fun j hj => (h.runFut j hj).resolve_right (hX j hj)
  runNotCanc := fun j _ => by rw [h.noCanc]; simp
  runNotDone := h.runNotDone
  runNd := h.runNd
  runNotZomb := h.runNotZomb
  queuedNotRun := h.queuedNotRun
  serial := fun hs => absurd hs hb

theorem MI_of_fields {X : List Tid} {s s' : IS} (h : MI X s) (h1 : s'.rs.running = s.rs.running)
    (h2 : s'.alive = s.alive) (h3 : s'.rs.futs = s.rs.futs) (h4 : s'.cancelled = s.cancelled)
    (h5 : s'.done = s.done) (h6 : s'.zombies = s.zombies) (h7 : s'.rs.queued = s.rs.queued) : MI X s' where
  aliveRun := by rw [h1, h2]; exact h.aliveRun
  runFut := by rw [h1, h3]; exact h.runFut
  qFut := by rw [h7, h3]; exact h.qFut
  doneFut := by rw [h5, h3]; exact h.doneFut
  zombFut := by rw [h6, h3]; exact h.zombFut
  noCanc := by rw [h4]; exact h.noCanc
  runNd := by rw [h1]; exact h.runNd
  qNd := by rw [h7]; exact h.qNd
  zNd := by rw [h6]; exact h.zNd
  runNotDone := by rw [h1, h5]; exact h.runNotDone
  runNotZomb := by rw [h1, h6]; exact h.runNotZomb
  queuedNotRun := by rw [h1, h7]; exact h.queuedNotRun
  qNotDone := by rw [h7, h5]; exact h.qNotDone
  qNotZomb := by rw [h7, h6]; exact h.qNotZomb
  zNotDone := by rw [h6, h5]; exact h.zNotDone

theorem MI_untouched (X : List Tid) (q : Prim) (s : IS) (hq : q.touchesExec = false) (h : MI X s) :
    MI X (applyPrim cfg p q s) := by
  obtain ⟨h1, h2, h3, h4, h5, h6, h7, _⟩ := applyPrim_exec (cfg := cfg) (p := p) q s hq
  exact MI_of_fields h h1 h2 h3 h4 h5 h6 h7

theorem always_MI_untouched (X : List Tid) : ∀ (ps : List Prim) (s : IS), (∀ q ∈ ps, q.touchesExec = false) →
    MI X s → Always cfg p (MI X) ps s := by
  intro ps
  induction ps with
  | nil => intro s _ h; exact h
  | cons q ps ih =>
    intro s hq h
    exact ⟨h, ih _ (fun q' hq' => hq q' (List.mem_cons_of_mem _ hq')) (MI_untouched X q s (hq q List.mem_cons_self) h)⟩

/-! ### the primitives of the wait phase -/
theorem MI_consume (c : Choice) (s : IS) (hrun : s.rs.status = .running) (h : MI [] s) :
    MI [] (applyPrim cfg p (Prim.consumeResults c) s) := by
  rw [applyPrim_running _ _ hrun]
  have hsubS : ∀ j ∈ stayOf c s.rs.running, j ∈ s.rs.running :=
    fun j hj => (selN_sublist (fun i => !c.finish i) s.rs.running 0).subset hj
  have hsubF : ∀ j ∈ finOf c s.rs.running, j ∈ s.rs.running :=
    fun j hj => (selN_sublist c.finish s.rs.running 0).subset hj
  have hdis : ∀ j ∈ finOf c s.rs.running, ∀ j' ∈ stayOf c s.rs.running, j.tid ≠ j'.tid :=
    selN_disjoint c.finish s.rs.running 0 h.runNd
  have hfut : ∀ j ∈ s.rs.running, j.tid ∈ s.rs.futs := fun j hj => by simpa using h.runFut j hj
  -- what the new `done` entries / zombies are
  have newD : ∀ t : Tid, t ∈ ((((finOf c s.rs.running).filter (fun j => !p.dies j.tid)).filter
        (fun j => j.tid ∉ s.cancelled)).map (fun j => (j.tid, jobOutcome p s.rs.ts s.rs.store j))).map (·.1) →
      ∃ j ∈ finOf c s.rs.running, j.tid = t ∧ p.dies j.tid = false := by
    intro t ht
    simp only [List.map_map, List.mem_map, List.mem_filter, Function.comp] at ht
    obtain ⟨j, ⟨⟨hj, hd⟩, _⟩, rfl⟩ := ht
    exact ⟨j, hj, rfl, by simpa using hd⟩
  have newZ : ∀ t, t ∈ ((finOf c s.rs.running).filter (fun j => p.dies j.tid)).map Job.tid →
      ∃ j ∈ finOf c s.rs.running, j.tid = t ∧ p.dies j.tid = true := by
    intro t ht
    obtain ⟨j, hj, rfl⟩ := List.mem_map.mp ht
    exact ⟨j, (List.mem_filter.mp hj).1, rfl, (List.mem_filter.mp hj).2⟩
  exact {
    aliveRun := by
      intro t ht
      simp only [stepPrim, List.mem_filter, decide_eq_true_eq] at ht ⊢
      obtain ⟨j, hj, rfl⟩ := List.mem_map.mp (h.aliveRun t ht.1)
      rcases selN_split c.finish s.rs.running 0 j hj with hf | hs
      · exact absurd (List.mem_map.mpr ⟨j, hf, rfl⟩) ht.2
      · exact List.mem_map.mpr ⟨j, hs, rfl⟩
    runFut := fun j hj => h.runFut j (hsubS j hj)
    qFut := h.qFut
    doneFut := by
      intro t ht
      simp only [stepPrim, List.map_append, List.mem_append] at ht
      rcases ht with ht | ht
      · exact h.doneFut t ht
      · obtain ⟨j, hj, rfl, _⟩ := newD t ht
        exact hfut j (hsubF j hj)
    zombFut := by
      intro t ht
      simp only [stepPrim, List.mem_append] at ht
      rcases ht with ht | ht
      · exact h.zombFut t ht
      · obtain ⟨j, hj, rfl, _⟩ := newZ t ht
        exact hfut j (hsubF j hj)
    noCanc := h.noCanc
    runNd := (List.Sublist.map _ (selN_sublist (fun i => !c.finish i) s.rs.running 0)).nodup h.runNd
    qNd := h.qNd
    zNd := by
      simp only [stepPrim]
      rw [List.nodup_append]
      refine ⟨h.zNd, ?_, ?_⟩
      · exact (List.Sublist.map _ (List.filter_sublist.trans (selN_sublist c.finish s.rs.running 0))).nodup h.runNd
      · intro a ha b hb hab
        obtain ⟨j, hj, rfl, _⟩ := newZ b hb
        exact h.runNotZomb j (hsubF j hj) (hab ▸ ha)
    runNotDone := by
      intro j hj hd
      simp only [stepPrim, List.map_append, List.mem_append] at hd
      rcases hd with hd | hd
      · exact h.runNotDone j (hsubS j hj) hd
      · obtain ⟨j', hj', he, _⟩ := newD _ hd
        exact hdis j' hj' j hj he
    runNotZomb := by
      intro j hj hz
      simp only [stepPrim, List.mem_append] at hz
      rcases hz with hz | hz
      · exact h.runNotZomb j (hsubS j hj) hz
      · obtain ⟨j', hj', he, _⟩ := newZ _ hz
        exact hdis j' hj' j hj he
    queuedNotRun := by
      intro j hj hr
      obtain ⟨j', hj', he⟩ := List.mem_map.mp hr
      exact h.queuedNotRun j hj (List.mem_map.mpr ⟨j', hsubS j' hj', he⟩)
    qNotDone := by
      intro j hj hd
      simp only [stepPrim, List.map_append, List.mem_append] at hd
      rcases hd with hd | hd
      · exact h.qNotDone j hj hd
      · obtain ⟨j', hj', he, _⟩ := newD _ hd
        exact h.queuedNotRun j hj (List.mem_map.mpr ⟨j', hsubF j' hj', he⟩)
    qNotZomb := by
      intro j hj hz
      simp only [stepPrim, List.mem_append] at hz
      rcases hz with hz | hz
      · exact h.qNotZomb j hj hz
      · obtain ⟨j', hj', he, _⟩ := newZ _ hz
        exact h.queuedNotRun j hj (List.mem_map.mpr ⟨j', hsubF j' hj', he⟩)
    zNotDone := by
      intro t ht hd
      simp only [stepPrim, List.mem_append, List.map_append] at ht hd
      rcases ht with ht | ht
      · rcases hd with hd | hd
        · exact h.zNotDone t ht hd
        · obtain ⟨j', hj', he, _⟩ := newD _ hd
          exact h.runNotZomb j' (hsubF j' hj') (he ▸ ht)
      · obtain ⟨j, hj, rfl, hdj⟩ := newZ _ ht
        rcases hd with hd | hd
        · exact h.runNotDone j (hsubF j hj) hd
        · obtain ⟨j', _, he, hdj'⟩ := newD _ hd
          rw [he] at hdj'; rw [hdj] at hdj'; exact absurd hdj' (by simp) }

theorem MI_markDead (X : List Tid) (u : Tid) (s : IS) (h : MI X s) :
    MI X (applyPrim cfg p (Prim.markDead u) s) := by
  by_cases hrun : s.rs.status = .running
  · rw [applyPrim_running _ _ hrun]
    simp only [stepPrim]
    split
    · next hz =>
      have hnc : u ∉ s.cancelled := by rw [h.noCanc]; simp
      simp only [hnc, if_false]
      have hdm : ∀ t, t ∈ (s.done ++ [(u, Outcome.died)]).map (·.1) ↔ t ∈ s.done.map (·.1) ∨ t = u := by
        intro t; simp
      exact {
        aliveRun := h.aliveRun
        runFut := h.runFut
        qFut := h.qFut
        doneFut := by
          intro t ht
          rcases (hdm t).mp ht with ht | rfl
          · exact h.doneFut t ht
          · exact h.zombFut t hz
        zombFut := fun t ht => h.zombFut t (List.mem_of_mem_erase ht)
        noCanc := h.noCanc
        runNd := h.runNd
        qNd := h.qNd
        zNd := h.zNd.erase u
        runNotDone := by
          intro j hj hd
          rcases (hdm _).mp hd with hd | hd
          · exact h.runNotDone j hj hd
          · exact h.runNotZomb j hj (hd ▸ hz)
        runNotZomb := fun j hj hz' => h.runNotZomb j hj (List.mem_of_mem_erase hz')
        queuedNotRun := h.queuedNotRun
        qNotDone := by
          intro j hj hd
          rcases (hdm _).mp hd with hd | hd
          · exact h.qNotDone j hj hd
          · exact h.qNotZomb j hj (hd ▸ hz)
        qNotZomb := fun j hj hz' => h.qNotZomb j hj (List.mem_of_mem_erase hz')
        zNotDone := by
          intro t ht hd
          have ht' := (h.zNd.mem_erase_iff).mp ht
          rcases (hdm _).mp hd with hd | hd
          · exact h.zNotDone t ht'.2 hd
          · exact ht'.1 hd }
    · exact h
  · rw [applyPrim_stopped _ _ hrun]; exact h

theorem always_MI_markDead (X : List Tid) : ∀ (Z : List Tid) (s : IS), MI X s →
    Always cfg p (MI X) (Z.map Prim.markDead) s := by
  intro Z
  induction Z with
  | nil => intro s h; exact h
  | cons t Z ih => intro s h; exact ⟨h, ih _ (MI_markDead X t s h)⟩

theorem MI_popFuture (X : List Tid) (t : Tid) (o : Option Outcome) (s : IS) (h : MI X s)
    (hd : t ∈ s.done.map (·.1)) : MI X (applyPrim cfg p (Prim.popFuture t o) s) := by
  by_cases hrun : s.rs.status = .running
  · rw [applyPrim_running _ _ hrun]
    have htf : t ∈ s.rs.futs := h.doneFut t hd
    simp only [stepPrim, htf, if_true]
    have hsub : ∀ x, x ∈ (s.done.filter (fun x => x.1 ≠ t)).map (·.1) → x ∈ s.done.map (·.1) ∧ x ≠ t := by
      intro x hx
      obtain ⟨y, hy, rfl⟩ := List.mem_map.mp hx
      have := List.mem_filter.mp hy
      exact ⟨List.mem_map.mpr ⟨y, this.1, rfl⟩, by simpa using this.2⟩
    have hkeep : ∀ x, x ∈ s.rs.futs → x ≠ t → x ∈ s.rs.futs.filter (· ≠ t) := by
      intro x hx hne; simp [hx, hne]
    exact {
      aliveRun := h.aliveRun
      runFut := by
        intro j hj
        rcases h.runFut j hj with hf | hx
        · exact Or.inl (hkeep _ hf (fun he => h.runNotDone j hj (he ▸ hd)))
        · exact Or.inr hx
      qFut := by
        intro j hj
        rcases h.qFut j hj with hf | hx
        · exact Or.inl (hkeep _ hf (fun he => h.qNotDone j hj (he ▸ hd)))
        · exact Or.inr hx
      doneFut := fun x hx => hkeep x (h.doneFut x (hsub x hx).1) (hsub x hx).2
      zombFut := fun z hz => hkeep z (h.zombFut z hz) (fun he => h.zNotDone z hz (he ▸ hd))
      noCanc := h.noCanc
      runNd := h.runNd
      qNd := h.qNd
      zNd := h.zNd
      runNotDone := fun j hj hx => h.runNotDone j hj (hsub _ hx).1
      runNotZomb := h.runNotZomb
      queuedNotRun := h.queuedNotRun
      qNotDone := fun j hj hx => h.qNotDone j hj (hsub _ hx).1
      qNotZomb := h.qNotZomb
      zNotDone := fun z hz hx => h.zNotDone z hz (hsub _ hx).1 }
  · rw [applyPrim_stopped _ _ hrun]; exact h

/-- one round of `_start_processes`' loop, for the oldest pending future -/
theorem MI_triple (X : List Tid) (j : Job) (l : List Job) (s : IS) (hrun : s.rs.status = .running)
    (hq : s.rs.queued = j :: l) (h : MI X s) :
    MI X (runPrims cfg p [Prim.procStart j.tid, Prim.regRunning j.tid, Prim.unregPending j.tid] s) ∧
    (runPrims cfg p [Prim.procStart j.tid, Prim.regRunning j.tid, Prim.unregPending j.tid] s).rs.queued = l ∧
    (runPrims cfg p [Prim.procStart j.tid, Prim.regRunning j.tid, Prim.unregPending j.tid] s).rs.status = .running ∧
    (runPrims cfg p [Prim.procStart j.tid, Prim.regRunning j.tid, Prim.unregPending j.tid] s).rs.running =
      s.rs.running ++ [forkSnap cfg s.rs.results j] ∧
    (runPrims cfg p [Prim.procStart j.tid, Prim.regRunning j.tid, Prim.unregPending j.tid] s).rs.futs = s.rs.futs := by
  have hsp : [Prim.procStart j.tid, Prim.regRunning j.tid, Prim.unregPending j.tid] = startPrims [j] := by
    simp [startPrims]
  rw [hsp, startPrims_run (cfg := cfg) (p := p) [j] s l hrun (by rw [hq]; rfl)]
  have hjq : j ∈ s.rs.queued := by rw [hq]; exact List.mem_cons_self
  have hlq : ∀ j' ∈ l, j' ∈ s.rs.queued := fun j' hj' => by rw [hq]; exact List.mem_cons_of_mem _ hj'
  have hnd : j.tid ∉ l.map Job.tid ∧ (l.map Job.tid).Nodup := by
    have := h.qNd; rw [hq] at this; exact List.nodup_cons.mp this
  have hrm : ∀ j', j' ∈ s.rs.running ++ [forkSnap cfg s.rs.results j] →
      j' ∈ s.rs.running ∨ j'.tid = j.tid := by
    intro j' hj'
    simp only [List.mem_append, List.mem_singleton] at hj'
    rcases hj' with hj' | rfl
    · exact Or.inl hj'
    · exact Or.inr (forkSnap_tid _ _)
  refine ⟨?_, rfl, hrun, by simp, rfl⟩
  exact {
    aliveRun := by
      intro t ht
      simp only [List.map_cons, List.map_nil, List.mem_append, List.mem_singleton, List.map_append,
        forkSnap_tid] at ht ⊢
      rcases ht with ht | ht
      · exact Or.inl (h.aliveRun t ht)
      · exact Or.inr ht
    runFut := by
      intro j' hj'
      simp only [List.map_cons, List.map_nil] at hj'
      rcases hrm j' hj' with hj' | he
      · exact h.runFut j' hj'
      · rw [he]; exact h.qFut j hjq
    qFut := fun j' hj' => h.qFut j' (hlq j' hj')
    doneFut := h.doneFut
    zombFut := h.zombFut
    noCanc := h.noCanc
    runNd := by
      simp only [List.map_cons, List.map_nil, List.map_append, forkSnap_tid]
      rw [List.nodup_append]
      refine ⟨h.runNd, by simp, ?_⟩
      intro a ha b hb hab
      simp only [List.mem_singleton] at hb
      subst hb
      exact h.queuedNotRun j hjq (hab ▸ ha)
    qNd := hnd.2
    zNd := h.zNd
    runNotDone := by
      intro j' hj'
      simp only [List.map_cons, List.map_nil] at hj'
      rcases hrm j' hj' with hj' | he
      · exact h.runNotDone j' hj'
      · rw [he]; exact h.qNotDone j hjq
    runNotZomb := by
      intro j' hj'
      simp only [List.map_cons, List.map_nil] at hj'
      rcases hrm j' hj' with hj' | he
      · exact h.runNotZomb j' hj'
      · rw [he]; exact h.qNotZomb j hjq
    queuedNotRun := by
      intro j' hj' hr
      simp only [List.map_cons, List.map_nil, List.map_append, List.mem_append, List.mem_singleton,
        forkSnap_tid] at hr
      rcases hr with hr | hr
      · exact h.queuedNotRun j' (hlq j' hj') hr
      · exact hnd.1 (hr ▸ List.mem_map.mpr ⟨j', hj', rfl⟩)
    qNotDone := fun j' hj' => h.qNotDone j' (hlq j' hj')
    qNotZomb := fun j' hj' => h.qNotZomb j' (hlq j' hj')
    zNotDone := h.zNotDone }

/-! ### the primitives of the submit path -/
theorem MI_enqueue (t : Tid) (s : IS) (hrun : s.rs.status = .running) (h : MI [] s) (htf : t ∉ s.rs.futs) :
    MI [t] (applyPrim cfg p (Prim.enqueue t) s) := by
  rw [applyPrim_running _ _ hrun]
  simp only [stepPrim]
  have hmq : ∀ j', j' ∈ s.rs.queued ++ [mkJob cfg p s.rs t] → j' ∈ s.rs.queued ∨ j'.tid = t := by
    intro j' hj'
    simp only [List.mem_append, List.mem_singleton] at hj'
    rcases hj' with hj' | rfl
    · exact Or.inl hj'
    · exact Or.inr rfl
  have hq0 : ∀ j ∈ s.rs.queued, j.tid ∈ s.rs.futs := fun j hj => by simpa using h.qFut j hj
  have hr0 : ∀ j ∈ s.rs.running, j.tid ∈ s.rs.futs := fun j hj => by simpa using h.runFut j hj
  exact {
    aliveRun := h.aliveRun
    runFut := fun j hj => Or.inl (hr0 j hj)
    qFut := by
      intro j' hj'
      rcases hmq j' hj' with hj' | he
      · exact Or.inl (hq0 j' hj')
      · exact Or.inr (by simp [he])
    doneFut := h.doneFut
    zombFut := h.zombFut
    noCanc := h.noCanc
    runNd := h.runNd
    qNd := by
      simp only [List.map_append, List.map_cons, List.map_nil]
      rw [List.nodup_append]
      refine ⟨h.qNd, by simp, ?_⟩
      intro a ha b hb hab
      simp only [List.mem_singleton] at hb
      obtain ⟨j, hj, rfl⟩ := List.mem_map.mp ha
      exact htf (by rw [← show j.tid = t from hab.trans (by rw [hb]; rfl)]; exact hq0 j hj)
    zNd := h.zNd
    runNotDone := h.runNotDone
    runNotZomb := h.runNotZomb
    queuedNotRun := by
      intro j' hj' hr
      rcases hmq j' hj' with hj' | he
      · exact h.queuedNotRun j' hj' hr
      · obtain ⟨j, hj, hjt⟩ := List.mem_map.mp hr
        exact htf (by rw [← he, ← hjt]; exact hr0 j hj)
    qNotDone := by
      intro j' hj' hd
      rcases hmq j' hj' with hj' | he
      · exact h.qNotDone j' hj' hd
      · exact htf (he ▸ h.doneFut _ hd)
    qNotZomb := by
      intro j' hj' hz
      rcases hmq j' hj' with hj' | he
      · exact h.qNotZomb j' hj' hz
      · exact htf (he ▸ h.zombFut _ hz)
    zNotDone := h.zNotDone }

theorem MI_regFuture (t : Tid) (s : IS) (hrun : s.rs.status = .running) (h : MI [t] s) :
    MI [] (applyPrim cfg p (Prim.regFuture t) s) := by
  rw [applyPrim_running _ _ hrun]
  simp only [stepPrim]
  have hx : ∀ x, (x ∈ s.rs.futs ∨ x ∈ [t]) → x ∈ s.rs.futs ++ [t] := by
    intro x hx; simpa using hx
  exact {
    aliveRun := h.aliveRun
    runFut := fun j hj => Or.inl (hx _ (h.runFut j hj))
    qFut := fun j hj => Or.inl (hx _ (h.qFut j hj))
    doneFut := fun x hd => hx x (Or.inl (h.doneFut x hd))
    zombFut := fun x hz => hx x (Or.inl (h.zombFut x hz))
    noCanc := h.noCanc
    runNd := h.runNd
    qNd := h.qNd
    zNd := h.zNd
    runNotDone := h.runNotDone
    runNotZomb := h.runNotZomb
    queuedNotRun := h.queuedNotRun
    qNotDone := h.qNotDone
    qNotZomb := h.qNotZomb
    zNotDone := h.zNotDone }

/-! ## `Tr` outside the window, along the main stream -/
/-- what is proved of every prefix: outside the window `Tr` holds, inside it fails -/
def TrOut (cfg : Config) (w : WS) (s : IS) : Prop :=
  (w.inside = false → Tr cfg s) ∧ (w.inside = true → ¬ Tr cfg s)

theorem TrOut_of_MI (hb : cfg.backend ≠ .serial) {s : IS} (h : MI [] s) (w : WS) (hw : w.inside = false) :
    TrOut cfg w s :=
  ⟨fun _ => h.tr hb (fun _ _ => by simp), fun hi => by rw [hw] at hi; simp at hi⟩

theorem startPrims_cons (j : Job) (go : List Job) : startPrims (j :: go) =
    [Prim.procStart j.tid, Prim.regRunning j.tid, Prim.unregPending j.tid] ++ startPrims go := by
  simp [startPrims]

/-- inside `_start_processes`' loop body `Tr` fails: right after `process.start()` the worker is alive
    but in no map; after the registration the future is pending and running at once -/
theorem not_Tr_in_triple (X : List Tid) (j : Job) (l : List Job) (s : IS) (hrun : s.rs.status = .running)
    (hq : s.rs.queued = j :: l) (h : MI X s) :
    ¬ Tr cfg (applyPrim cfg p (Prim.procStart j.tid) s) ∧
    ¬ Tr cfg (applyPrim cfg p (Prim.regRunning j.tid) (applyPrim cfg p (Prim.procStart j.tid) s)) := by
  have hjq : j ∈ s.rs.queued := by rw [hq]; exact List.mem_cons_self
  have hr1 : (applyPrim cfg p (Prim.procStart j.tid) s).rs.status = .running := by
    rw [applyPrim_status _ _ rfl]; exact hrun
  constructor
  · intro htr
    have := htr.aliveRun j.tid (by rw [applyPrim_running _ _ hrun]; simp [stepPrim])
    rw [applyPrim_running _ _ hrun] at this
    exact h.queuedNotRun j hjq this
  · intro htr
    have hfind : (applyPrim cfg p (Prim.procStart j.tid) s).rs.queued.find? (hasTid j.tid) = some j := by
      rw [applyPrim_queued _ _ rfl, hq]; simp [hasTid]
    have hq2 : (applyPrim cfg p (Prim.regRunning j.tid) (applyPrim cfg p (Prim.procStart j.tid) s)).rs.queued =
        s.rs.queued := by
      rw [applyPrim_queued _ _ rfl, applyPrim_queued _ _ rfl]
    have := htr.queuedNotRun j (by rw [hq2]; exact hjq)
    apply this
    rw [applyPrim_running _ _ hr1]
    simp only [stepPrim, hfind, List.map_append, List.mem_append, List.map_cons, List.map_nil,
      List.mem_singleton, forkSnap_tid]
    exact Or.inr trivial

/-- `_start_processes`: between two rounds of its loop `MI` holds, and `Tr` too unless the worker of
    the task being submitted has been started -/
theorem alwaysW_startPrims (hb : cfg.backend ≠ .serial) (X : List Tid) (sub : Option Tid)
    (hX : ∀ x ∈ X, sub = some x) :
    ∀ (go stay : List Job) (s : IS) (b : Bool), s.rs.status = .running → s.rs.queued = go ++ stay →
    MI X s → (b = false → ∀ j ∈ s.rs.running, j.tid ∉ X) →
    (b = true → ∃ j ∈ s.rs.running, j.tid ∉ s.rs.futs) → (∀ x, sub = some x → x ∉ s.rs.futs) →
    AlwaysW cfg p (TrOut cfg) (startPrims go) ⟨none, sub, b⟩ s ∧
    MI X (runPrims cfg p (startPrims go) s) ∧
    (runPrims cfg p (startPrims go) s).rs.status = .running ∧
    (startPrims go).foldl winStep ⟨none, sub, b⟩ = ⟨none, sub, b || go.any (fun j => sub == some j.tid)⟩ ∧
    ((b || go.any (fun j => sub == some j.tid)) = false →
      ∀ j ∈ (runPrims cfg p (startPrims go) s).rs.running, j.tid ∉ X) ∧
    ((b || go.any (fun j => sub == some j.tid)) = true →
      ∃ j ∈ (runPrims cfg p (startPrims go) s).rs.running, j.tid ∉ (runPrims cfg p (startPrims go) s).rs.futs) := by
  intro go
  induction go with
  | nil =>
    intro stay s b hrun _ h hc hc2 _
    refine ⟨?_, h, hrun, by simp [startPrims], by simpa [startPrims] using hc, by simpa [startPrims] using hc2⟩
    constructor
    · intro hin
      have hbf : b = false := by simpa [WS.inside] using hin
      exact h.tr hb (hc hbf)
    · intro hin htr
      have hbt : b = true := by simpa [WS.inside] using hin
      obtain ⟨j, hj, hjf⟩ := hc2 hbt
      exact hjf (htr.runFut j hj)
  | cons j go ih =>
    intro stay s b hrun hq h hc hc2 hsf
    obtain ⟨t1, t2, t3, t4, t5⟩ := MI_triple (cfg := cfg) (p := p) X j (go ++ stay) s hrun (by rw [hq]; rfl) h
    obtain ⟨n1, n2⟩ := not_Tr_in_triple (cfg := cfg) (p := p) X j (go ++ stay) s hrun (by rw [hq]; rfl) h
    have hc' : (b || (sub == some j.tid)) = false →
        ∀ j' ∈ (runPrims cfg p [Prim.procStart j.tid, Prim.regRunning j.tid, Prim.unregPending j.tid] s).rs.running,
          j'.tid ∉ X := by
      intro hb' j' hj'
      rw [t4] at hj'
      simp only [Bool.or_eq_false_iff] at hb'
      simp only [List.mem_append, List.mem_singleton] at hj'
      rcases hj' with hj' | rfl
      · exact hc hb'.1 j' hj'
      · rw [forkSnap_tid]
        intro hx
        have := hX _ hx
        rw [this] at hb'
        simp at hb'
    have hc2' : (b || (sub == some j.tid)) = true →
        ∃ j' ∈ (runPrims cfg p [Prim.procStart j.tid, Prim.regRunning j.tid, Prim.unregPending j.tid] s).rs.running,
          j'.tid ∉ (runPrims cfg p [Prim.procStart j.tid, Prim.regRunning j.tid, Prim.unregPending j.tid] s).rs.futs := by
      intro hb'
      rw [t4, t5]
      by_cases hbt : b = true
      · obtain ⟨j', hj', hjf⟩ := hc2 hbt
        exact ⟨j', List.mem_append_left _ hj', hjf⟩
      · have hs : sub = some j.tid := by
          have hbf : b = false := by simpa using hbt
          rw [hbf] at hb'
          simpa using hb'
        exact ⟨forkSnap cfg s.rs.results j, by simp, by rw [forkSnap_tid]; exact hsf _ hs⟩
    have hsf' : ∀ x, sub = some x →
        x ∉ (runPrims cfg p [Prim.procStart j.tid, Prim.regRunning j.tid, Prim.unregPending j.tid] s).rs.futs := by
      rw [t5]; exact hsf
    obtain ⟨i1, i2, i3, i4, i5, i6⟩ := ih stay _ (b || (sub == some j.tid)) t3 t2 t1 hc' hc2' hsf'
    rw [startPrims_cons, alwaysW_append, runPrims_append, List.foldl_append]
    have hw : [Prim.procStart j.tid, Prim.regRunning j.tid, Prim.unregPending j.tid].foldl winStep ⟨none, sub, b⟩
        = ⟨none, sub, b || (sub == some j.tid)⟩ := rfl
    rw [hw]
    refine ⟨⟨?_, i1⟩, i2, i3, ?_, ?_, ?_⟩
    · refine ⟨⟨?_, ?_⟩, ⟨?_, fun _ => n1⟩, ⟨?_, fun _ => n2⟩, ?_⟩
      · intro hin
        have hbf : b = false := by simpa [WS.inside] using hin
        exact h.tr hb (hc hbf)
      · intro hin htr
        have hbt : b = true := by simpa [WS.inside] using hin
        obtain ⟨j', hj', hjf⟩ := hc2 hbt
        exact hjf (htr.runFut j' hj')
      · intro hin; simp [winStep, WS.inside] at hin
      · intro hin; simp [winStep, WS.inside] at hin
      · exact i1.head
    · rw [i4, List.any_cons, Bool.or_assoc]
    · rw [List.any_cons, ← Bool.or_assoc]; exact i5
    · rw [List.any_cons, ← Bool.or_assoc]; exact i6

theorem any_none_eq (go : List Job) : go.any (fun j => (none : Option Tid) == some j.tid) = false := by
  induction go with
  | nil => rfl
  | cons j go ih => simp

/-! ### the submit phase -/
theorem alwaysW_submitOne (hb : cfg.backend ≠ .serial) (s : IS) (t : Tid) (hQ : Q cfg s)
    (hrun : s.rs.status = .running) (ht : t ∈ s.rs.ts.pending) (h : MI [] s) :
    AlwaysW cfg p (TrOut cfg) (submitOnePrims cfg p s t) WS.init s ∧
    MI [] (runPrims cfg p (submitOnePrims cfg p s t) s) ∧
    (submitOnePrims cfg p s t).foldl winStep WS.init = WS.init := by
  obtain ⟨s1k, _, s1f, _⟩ := step_startTask (cfg := cfg) (p := p) s t ⟨hQ.1.1, hrun⟩ ht
  have m1 : MI [] (applyPrim cfg p (Prim.startTask t) s) := MI_untouched [] _ s rfl h
  have hr1 := s1k.run
  have m2 := MI_enqueue (cfg := cfg) (p := p) t _ hr1 m1 s1f
  have hr2 : (applyPrim cfg p (Prim.enqueue t) (applyPrim cfg p (Prim.startTask t) s)).rs.status = .running := by
    rw [applyPrim_status _ _ rfl]; exact hr1
  have hrn2 : (applyPrim cfg p (Prim.enqueue t) (applyPrim cfg p (Prim.startTask t) s)).rs.running =
      (applyPrim cfg p (Prim.startTask t) s).rs.running := by
    rw [applyPrim_running _ _ hr1]; rfl
  have hc2 : false = false → ∀ j ∈ (applyPrim cfg p (Prim.enqueue t) (applyPrim cfg p (Prim.startTask t) s)).rs.running,
      j.tid ∉ [t] := by
    intro _ j hj
    rw [hrn2] at hj
    have : j.tid ∈ (applyPrim cfg p (Prim.startTask t) s).rs.futs := by simpa using m1.runFut j hj
    intro he
    simp only [List.mem_singleton] at he
    exact s1f (he ▸ this)
  simp only [submitOnePrims, hb, if_false]
  have e2 : runPrims cfg p [Prim.startTask t, Prim.enqueue t] s =
      applyPrim cfg p (Prim.enqueue t) (applyPrim cfg p (Prim.startTask t) s) := rfl
  rw [e2]
  obtain ⟨s2, hs2⟩ : ∃ s2, s2 = applyPrim cfg p (Prim.enqueue t) (applyPrim cfg p (Prim.startTask t) s) := ⟨_, rfl⟩
  rw [← hs2] at m2 hr2 hc2 ⊢
  simp only [startProcessesPrims]
  obtain ⟨n, hn⟩ : ∃ n, n = cfg.maxWorkers - (s2.rs.running.length + s2.zombies.length) := ⟨_, rfl⟩
  rw [← hn]
  have hf2 : ∀ x, some t = some x → x ∉ s2.rs.futs := by
    intro x hx
    have hxt : x = t := by simpa using hx.symm
    rw [hxt, hs2, applyPrim_futs _ _ rfl]
    exact s1f
  obtain ⟨a1, a2, a3, a4, a5, a6⟩ := alwaysW_startPrims (cfg := cfg) (p := p) hb [t] (some t) (by simp)
    (takeN n s2.rs.queued).1 (takeN n s2.rs.queued).2 s2 false hr2 (takeN_append n s2.rs.queued).symm m2 hc2
    (fun h => by simp at h) hf2
  have m4 := MI_regFuture (cfg := cfg) (p := p) t _ a3 a2
  have hsplit : [Prim.startTask t, Prim.enqueue t] ++ startPrims (takeN n s2.rs.queued).1 ++ [Prim.regFuture t] =
      Prim.startTask t :: Prim.enqueue t :: (startPrims (takeN n s2.rs.queued).1 ++ [Prim.regFuture t]) := by simp
  rw [hsplit]
  refine ⟨?_, ?_, ?_⟩
  · refine ⟨TrOut_of_MI hb h _ rfl, TrOut_of_MI hb m1 _ rfl, ?_⟩
    show AlwaysW cfg p (TrOut cfg) _ ⟨none, some t, false⟩ (applyPrim cfg p (Prim.enqueue t) (applyPrim cfg p (Prim.startTask t) s))
    rw [← hs2, alwaysW_append, a4]
    refine ⟨a1, ⟨?_, ?_⟩, ?_⟩
    · intro hin
      have hbf : (false || (takeN n s2.rs.queued).1.any (fun j => some t == some j.tid)) = false := by
        simpa [WS.inside] using hin
      exact a2.tr hb (a5 hbf)
    · intro hin htr
      have hbt : (false || (takeN n s2.rs.queued).1.any (fun j => some t == some j.tid)) = true := by
        simpa [WS.inside] using hin
      obtain ⟨j, hj, hjf⟩ := a6 hbt
      exact hjf (htr.runFut j hj)
    · exact TrOut_of_MI hb m4 _ rfl
  · show MI [] (runPrims cfg p _ (applyPrim cfg p (Prim.enqueue t) (applyPrim cfg p (Prim.startTask t) s)))
    rw [← hs2, runPrims_append]
    exact m4
  · show (startPrims (takeN n s2.rs.queued).1 ++ [Prim.regFuture t]).foldl winStep ⟨none, some t, false⟩ = WS.init
    rw [List.foldl_append, a4]
    rfl

theorem alwaysW_submit (hb : cfg.backend ≠ .serial) : ∀ (l : List Tid) (s : IS), Q cfg s →
    s.rs.status = .running → l.Nodup → (∀ t ∈ l, t ∈ s.rs.ts.pending) → MI [] s →
    AlwaysW cfg p (TrOut cfg) (submitPrims cfg p l s) WS.init s ∧
    MI [] (runPrims cfg p (submitPrims cfg p l s) s) ∧
    (submitPrims cfg p l s).foldl winStep WS.init = WS.init := by
  intro l
  induction l with
  | nil => intro s _ _ _ _ h; exact ⟨TrOut_of_MI hb h _ rfl, h, rfl⟩
  | cons t ts ih =>
    intro s hQ hrun hnd hmem h
    have hnd' := List.nodup_cons.mp hnd
    obtain ⟨_, a2, a3, a4⟩ := always_submitOne (cfg := cfg) (p := p) s t hQ hrun (hmem t List.mem_cons_self)
    obtain ⟨w1, w2, w3⟩ := alwaysW_submitOne (cfg := cfg) (p := p) hb s t hQ hrun (hmem t List.mem_cons_self) h
    obtain ⟨i1, i2, i3⟩ := ih _ a2 a3 hnd'.2 (fun x hx => a4 x (hmem x (List.mem_cons_of_mem _ hx))
      (fun hxt => hnd'.1 (hxt ▸ hx))) w2
    simp only [submitPrims, alwaysW_append, runPrims_append, List.foldl_append, w3]
    exact ⟨⟨w1, i1⟩, i2, i3⟩

/-! ### the wait phase -/
theorem always_MI_doneOne (req : List Tid) (s : IS) (t : Tid) (h : MI [] s) :
    Always cfg p (MI []) (doneOnePrims cfg req s t) s := by
  simp only [doneOnePrims]
  split
  · next hc => rw [h.noCanc] at hc; simp at hc
  · split
    · next t' o hf =>
      have hg : t ∈ s.done.map (·.1) := by
        have h1 := List.mem_of_find?_eq_some hf
        have h2 : t' = t := by simpa using List.find?_some hf
        exact List.mem_map.mpr ⟨(t', o), h1, h2⟩
      exact ⟨h, always_MI_untouched [] _ _ (yieldPrims_noexec req _ t o) (MI_popFuture [] t (some o) s h hg)⟩
    · exact h

theorem always_MI_done (req : List Tid) : ∀ (cands : List Tid) (s : IS), MI [] s →
    Always cfg p (MI []) (donePrims cfg p req cands s) s := by
  intro cands
  induction cands with
  | nil => intro s h; exact h
  | cons t rest ih =>
    intro s h
    unfold donePrims
    split
    · rw [always_append]
      have a := always_MI_doneOne (cfg := cfg) (p := p) req s t h
      exact ⟨a, ih _ a.last⟩
    · exact h

theorem winNeutral_gen : GenOK cfg (fun q => q.winNeutral = true) where
  basic := fun q h _ => by cases q <;> simp [Prim.launches] at h <;> rfl
  raise := fun _ _ => rfl

theorem alwaysW_wait (hb : cfg.backend ≠ .serial) (req : List Tid) (c : Choice) (s : IS)
    (hrun : s.rs.status = .running) (h : MI [] s) :
    AlwaysW cfg p (TrOut cfg) (waitPrims cfg p req c s) WS.init s ∧
    MI [] (runPrims cfg p (waitPrims cfg p req c s) s) ∧
    (waitPrims cfg p req c s).foldl winStep WS.init = WS.init := by
  simp only [waitPrims, hb, if_false]
  have e0 : runPrims cfg p [Prim.consumeResults c] s = applyPrim cfg p (Prim.consumeResults c) s := rfl
  have m0 := MI_consume (cfg := cfg) (p := p) c s hrun h
  have st0 : (applyPrim cfg p (Prim.consumeResults c) s).rs.status = .running := by
    rw [applyPrim_status _ _ rfl]; exact hrun
  rw [e0]
  obtain ⟨s0, hs0⟩ : ∃ s0, s0 = applyPrim cfg p (Prim.consumeResults c) s := ⟨_, rfl⟩
  rw [← hs0] at m0 st0 ⊢
  have a1 := always_MI_markDead (cfg := cfg) (p := p) [] s0.zombies s0 m0
  have st1 : (runPrims cfg p (deadPrims s0) s0).rs.status = .running := by
    rw [deadPrims, (dead_list (cfg := cfg) (p := p) s0.zombies s0 st0).2.2.2.1]; exact st0
  have hdn : ∀ q ∈ deadPrims s0, q.winNeutral = true := by
    intro q hq
    simp only [deadPrims, List.mem_map] at hq
    obtain ⟨t, _, rfl⟩ := hq; rfl
  obtain ⟨s1, hs1⟩ : ∃ s1, s1 = runPrims cfg p (deadPrims s0) s0 := ⟨_, rfl⟩
  have m1 : MI [] s1 := by rw [hs1]; exact a1.last
  rw [← hs1] at st1 ⊢
  simp only [startProcessesPrims]
  obtain ⟨n, hn⟩ : ∃ n, n = cfg.maxWorkers - (s1.rs.running.length + s1.zombies.length) := ⟨_, rfl⟩
  rw [← hn]
  obtain ⟨b1, b2, b3, b4, _, _⟩ := alwaysW_startPrims (cfg := cfg) (p := p) hb [] none (by simp)
    (takeN n s1.rs.queued).1 (takeN n s1.rs.queued).2 s1 false st1 (takeN_append n s1.rs.queued).symm m1
    (fun _ _ _ => by simp) (fun h => by simp at h) (fun x hx => by simp at hx)
  rw [any_none_eq] at b4
  obtain ⟨s2, hs2⟩ : ∃ s2, s2 = runPrims cfg p (startPrims (takeN n s1.rs.queued).1) s1 := ⟨_, rfl⟩
  rw [← hs2] at b2 ⊢
  have a3 := always_MI_done (cfg := cfg) (p := p) req (runPrims cfg p [] s2).rs.futs (runPrims cfg p [] s2) b2
  have hdone : ∀ q ∈ donePrims cfg p req (runPrims cfg p [] s2).rs.futs (runPrims cfg p [] s2), q.winNeutral = true :=
    members_done winNeutral_gen req _ _
  have f1 : (Prim.consumeResults c :: deadPrims s0).foldl winStep WS.init = WS.init :=
    foldl_neutral _ _ (fun q hq => by
      rcases List.mem_cons.mp hq with rfl | hq
      · rfl
      · exact hdn q hq)
  rw [alwaysW_append, alwaysW_append]
  simp only [runPrims_append, List.foldl_append]
  rw [f1]
  have r1 : runPrims cfg p (Prim.consumeResults c :: deadPrims s0) s = s1 := by
    rw [runPrims_cons, ← hs0, hs1]
  rw [r1, ← hs2]
  have b4' : (startPrims (takeN n s1.rs.queued).1).foldl winStep WS.init = WS.init := b4
  rw [b4']
  refine ⟨⟨⟨?_, b1⟩, ?_⟩, a3.last, foldl_neutral _ _ hdone⟩
  · refine ⟨TrOut_of_MI hb h _ rfl, ?_⟩
    show AlwaysW cfg p (TrOut cfg) (deadPrims s0) WS.init (applyPrim cfg p (Prim.consumeResults c) s)
    rw [← hs0]
    exact alwaysW_neutral WS.init _ s0 hdn (a1.mono (fun s hs => TrOut_of_MI hb hs _ rfl))
  · exact alwaysW_neutral WS.init _ _ hdone (a3.mono (fun s hs => TrOut_of_MI hb hs _ rfl))

theorem alwaysW_iteration (hb : cfg.backend ≠ .serial) (req : List Tid) (c : Choice) (s : IS) (hQ : Q cfg s)
    (hrun : s.rs.status = .running) (h : MI [] s) :
    AlwaysW cfg p (TrOut cfg) (iterationPrims cfg p req c s) WS.init s ∧
    MI [] (runPrims cfg p (iterationPrims cfg p req c s) s) ∧
    (iterationPrims cfg p req c s).foldl winStep WS.init = WS.init := by
  have hsub := readyAux_sublist p s.rs.ts s.rs.ts.pending (typeCount p s.rs.ts.active)
  obtain ⟨a1, a2, a3⟩ := alwaysW_submit (cfg := cfg) (p := p) hb (readyTasks p s.rs.ts) s hQ hrun
    (hsub.nodup hQ.1.1.ndP) (fun t ht => hsub.subset ht) h
  simp only [iterationPrims]
  split
  · next hr1 =>
    obtain ⟨w1, w2, w3⟩ := alwaysW_wait (cfg := cfg) (p := p) hb req c _ hr1 a2
    rw [alwaysW_append, runPrims_append, List.foldl_append, a3]
    exact ⟨⟨a1, w1⟩, w2, w3⟩
  · exact ⟨a1, a2, a3⟩

theorem alwaysW_main (hb : cfg.backend ≠ .serial) (req : List Tid) : ∀ (sched : List Choice) (s : IS),
    Q cfg s → MI [] s →
    AlwaysW cfg p (TrOut cfg) (mainStream cfg p req sched s) WS.init s ∧
    MI [] (runPrims cfg p (mainStream cfg p req sched s) s) ∧
    (mainStream cfg p req sched s).foldl winStep WS.init = WS.init := by
  intro sched
  induction sched with
  | nil => intro s _ h; exact ⟨TrOut_of_MI hb h _ rfl, h, rfl⟩
  | cons c cs ih =>
    intro s hQ h
    unfold mainStream
    split
    · next hrun =>
      split
      · obtain ⟨_, q2⟩ := always_iteration (cfg := cfg) (p := p) req c s hQ hrun
        obtain ⟨a1, a2, a3⟩ := alwaysW_iteration (cfg := cfg) (p := p) hb req c s hQ hrun h
        obtain ⟨i1, i2, i3⟩ := ih _ q2 a2
        rw [alwaysW_append, runPrims_append, List.foldl_append, a3]
        exact ⟨⟨a1, i1⟩, i2, i3⟩
      · exact ⟨TrOut_of_MI hb h _ rfl, h, rfl⟩
    · exact ⟨TrOut_of_MI hb h _ rfl, h, rfl⟩

theorem MI_init (store : Store) (fuel : Nat) : MI [] (initIS cfg p store fuel) := by
  constructor <;> simp [initIS, initRS]

/-! ## the serial runner: there are no worker processes -/
def Idle (s : IS) : Prop := s.rs.running = [] ∧ s.alive = []

theorem Idle.tr {s : IS} (h : Idle s) : Tr cfg s where
  aliveRun := by intro t ht; rw [h.2] at ht; simp at ht
  runFut := by intro j hj; rw [h.1] at hj; simp at hj
  runNotCanc := by intro j hj; rw [h.1] at hj; simp at hj
  runNotDone := by intro j hj; rw [h.1] at hj; simp at hj
  runNd := by rw [h.1]; exact List.nodup_nil
  runNotZomb := by intro j hj; rw [h.1] at hj; simp at hj
  queuedNotRun := by intro j _; rw [h.1]; simp
  serial := fun _ => h.1

def Prim.idleSafe : Prim → Bool
  | .procStart _ | .regRunning _ => false
  | _ => true

theorem idleSafe_of_noexec {q : Prim} (h : q.touchesExec = false) : q.idleSafe = true := by
  cases q <;> simp [Prim.touchesExec] at h <;> rfl

theorem Idle_step (q : Prim) (s : IS) (hq : q.idleSafe = true) (h : Idle s) : Idle (applyPrim cfg p q s) := by
  obtain ⟨h1, h2⟩ := h
  unfold applyPrim
  split
  · cases q <;> simp [Prim.idleSafe] at hq <;> simp only [stepPrim, keyErr, Idle] <;> (repeat' split) <;>
      simp [h1, h2, stayOf, enumFrom]
  · exact ⟨h1, h2⟩

theorem runPrims_Idle : ∀ (ps : List Prim) (s : IS), (∀ q ∈ ps, q.idleSafe = true) → Idle s →
    Idle (runPrims cfg p ps s) := by
  intro ps
  induction ps with
  | nil => intro s _ h; exact h
  | cons q ps ih =>
    intro s hq h
    exact ih _ (fun q' hq' => hq q' (List.mem_cons_of_mem _ hq')) (Idle_step q s (hq q List.mem_cons_self) h)

theorem members_submit_serial (hb : cfg.backend = .serial) : ∀ (l : List Tid) (s : IS),
    ∀ q ∈ submitPrims cfg p l s, q.idleSafe = true := by
  intro l
  induction l with
  | nil => intro s q hq; simp [submitPrims] at hq
  | cons t ts ih =>
    intro s q hq
    simp only [submitPrims, List.mem_append] at hq
    rcases hq with hq | hq
    · simp only [submitOnePrims, hb, if_true, List.mem_cons, List.not_mem_nil, or_false] at hq
      rcases hq with rfl | rfl <;> rfl
    · exact ih _ q hq

theorem members_wait_serial (hb : cfg.backend = .serial) (req : List Tid) (c : Choice) (s : IS) :
    ∀ q ∈ waitPrims cfg p req c s, q.idleSafe = true := by
  intro q hq
  simp only [waitPrims, hb, if_true] at hq
  split at hq
  · simp only [List.mem_singleton] at hq; subst hq; rfl
  · simp only [List.mem_append, List.mem_cons, List.not_mem_nil, or_false] at hq
    rcases hq with ((rfl | rfl | rfl | rfl) | rfl) | hq
    · rfl
    · rfl
    · rfl
    · rfl
    · rfl
    · exact idleSafe_of_noexec (yieldPrims_noexec req _ _ _ q hq)

theorem members_main_serial (hb : cfg.backend = .serial) (req : List Tid) : ∀ (sched : List Choice) (s : IS),
    ∀ q ∈ mainStream cfg p req sched s, q.idleSafe = true := by
  intro sched
  induction sched with
  | nil => intro s q hq; simp [mainStream] at hq
  | cons c cs ih =>
    intro s q hq
    unfold mainStream at hq
    split at hq
    · split at hq
      · simp only [List.mem_append] at hq
        rcases hq with hq | hq
        · simp only [iterationPrims] at hq
          split at hq
          · simp only [List.mem_append] at hq
            rcases hq with hq | hq
            · exact members_submit_serial hb _ _ q hq
            · exact members_wait_serial hb req c _ q hq
          · exact members_submit_serial hb _ _ q hq
        · exact ih _ q hq
      · simp at hq
    · simp at hq

/-! ## the statements -/
/-- `Tr` holds at every interrupt instant that is not inside a start-and-track window -/
theorem stateAt_Tr_outside (store : Store) (fuel : Nat) (sched : List Choice) (k : Nat)
    (hw : inWindow ((mainOf cfg p store fuel sched).take k) = false) :
    Tr cfg (stateAt cfg p store fuel sched k) := by
  by_cases hb : cfg.backend = .serial
  · apply Idle.tr
    apply runPrims_Idle
    · intro q hq
      exact members_main_serial hb (reqTids p) sched _ q (List.mem_of_mem_take hq)
    · exact ⟨rfl, rfl⟩
  · exact ((alwaysW_main (cfg := cfg) (p := p) hb (reqTids p) sched _ (Q_init store fuel)
      (MI_init store fuel)).1.prefix k).1 hw

/-- process runners: `Tr` FAILS at every interrupt instant inside a start-and-track window -/
theorem stateAt_not_Tr_inside (hb : cfg.backend ≠ .serial) (store : Store) (fuel : Nat) (sched : List Choice)
    (k : Nat) (hw : inWindow ((mainOf cfg p store fuel sched).take k) = true) :
    ¬ Tr cfg (stateAt cfg p store fuel sched k) :=
  ((alwaysW_main (cfg := cfg) (p := p) hb (reqTids p) sched _ (Q_init store fuel)
      (MI_init store fuel)).1.prefix k).2 hw

/-- the state in which the main loop's stream of a schedule ends is outside the window and
    satisfies `Tr` -/
theorem mainEnd_Tr (store : Store) (fuel : Nat) (sched : List Choice) :
    Tr cfg (runPrims cfg p (mainOf cfg p store fuel sched) (initIS cfg p store fuel)) := by
  by_cases hb : cfg.backend = .serial
  · apply Idle.tr
    exact runPrims_Idle _ _ (members_main_serial hb (reqTids p) sched _) ⟨rfl, rfl⟩
  · exact (alwaysW_main (cfg := cfg) (p := p) hb (reqTids p) sched _ (Q_init store fuel)
      (MI_init store fuel)).2.1.tr hb (fun _ _ => by simp)

theorem mainEnd_outside (store : Store) (fuel : Nat) (sched : List Choice) (hb : cfg.backend ≠ .serial) :
    inWindow (mainOf cfg p store fuel sched) = false := by
  have := (alwaysW_main (cfg := cfg) (p := p) hb (reqTids p) sched (initIS cfg p store fuel)
      (Q_init store fuel) (MI_init store fuel)).2.2
  simp only [inWindow, winOf]
  rw [this]; rfl

/-- the stream of a truncated schedule is a prefix of the stream of the schedule: the state at the
    head of iteration `i` is the state at an interrupt instant `k` -/
theorem mainStream_take (req : List Tid) : ∀ (sched : List Choice) (s : IS) (i : Nat),
    ∃ k, (mainStream cfg p req sched s).take k = mainStream cfg p req (sched.take i) s := by
  intro sched
  induction sched with
  | nil => intro s i; exact ⟨0, by simp [mainStream]⟩
  | cons c cs ih =>
    intro s i
    cases i with
    | zero => exact ⟨0, by simp [mainStream]⟩
    | succ i =>
      rw [List.take_succ_cons]
      unfold mainStream
      split
      · split
        · obtain ⟨k, hk⟩ := ih (runPrims cfg p (iterationPrims cfg p req c s) s) i
          refine ⟨(iterationPrims cfg p req c s).length + k, ?_⟩
          rw [List.take_append, List.take_of_length_le (Nat.le_add_right _ _), Nat.add_sub_cancel_left, hk]
        · exact ⟨0, rfl⟩
      · exact ⟨0, rfl⟩

end Lt
