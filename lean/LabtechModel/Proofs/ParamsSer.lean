import LabtechModel.Proofs.ParamsNorm
/-! Serialiser: class strings, well-formedness, injectivity (through a registry-free decoder) and the
round trip through the real deserialiser + constructor. -/
namespace Lt.Params

/-! ### class strings -/

/-- a qualified name without a dot: a module-level class -/
def dotFree (s : String) : Bool := s.toList.all (fun c => c != '.')

theorem splitLastDot_none : ∀ (q : List Char), q.all (fun c => c != '.') = true → splitLastDot q = none
  | [], _ => rfl
  | c :: cs, h => by
    simp only [List.all_cons, Bool.and_eq_true, bne_iff_ne, ne_eq] at h
    simp [splitLastDot, splitLastDot_none cs h.2, h.1]

theorem splitLastDot_append (q : List Char) (hq : q.all (fun c => c != '.') = true) :
    ∀ (m : List Char), splitLastDot (m ++ '.' :: q) = some (m, q)
  | [] => by simp [splitLastDot, splitLastDot_none q hq]
  | c :: m => by simp [splitLastDot, splitLastDot_append q hq m]

theorem parseClass_ser (c : ClassRef) (h : dotFree c.qualname = true) : parseClass c.ser = some c := by
  have : c.ser.toList = c.module.toList ++ '.' :: c.qualname.toList := by simp [ClassRef.ser]
  simp only [parseClass, this, splitLastDot_append _ h, String.ofList_toList]

/-- `module ++ "." ++ qualname` determines both parts for module-level classes -/
theorem classRef_ser_injective (c₁ c₂ : ClassRef) (h₁ : dotFree c₁.qualname = true) (h₂ : dotFree c₂.qualname = true)
    (h : c₁.ser = c₂.ser) : c₁ = c₂ := by
  have a := parseClass_ser c₁ h₁
  rw [h, parseClass_ser c₂ h₂] at a
  exact (Option.some.inj a).symm

/-! ### well-formed values -/

def reservedKey (k : String) : Bool := k == "_is_task" || k == "__class__"

/-- `d.get(k, False)` is falsy for the frozendict with these items -/
def notFlagged (k : String) : List (String × Value) → Bool
  | [] => true
  | (k', v) :: rest => if k = k' then !(serValue v).truthy else notFlagged k rest

def noReserved : List (String × Value) → Bool
  | [] => true
  | (k, _) :: rest => !reservedKey k && noReserved rest

mutual
/-- `wfValue`: classes are module-level; no dict parameter has a truthy value under `_is_task` or
`_is_enum`; no task field is called `_is_task` or `__class__`. -/
def wfValue : Value → Bool
  | .scalar _ => true
  | .enum c _ => dotFree c.qualname
  | .tuple items => wfList items
  | .dict items => notFlagged "_is_task" items && notFlagged "_is_enum" items && wfFields items
  | .task t => wfTask t
def wfTask : Task → Bool
  | .mk c fields => dotFree c.qualname && noReserved fields && wfFields fields
def wfList : List Value → Bool
  | [] => true
  | v :: vs => wfValue v && wfList vs
def wfFields : List (String × Value) → Bool
  | [] => true
  | (_, v) :: rest => wfValue v && wfFields rest
end

theorem flagged_serFields (k : String) :
    ∀ items, notFlagged k items = true → flagged k (serFields items) = false := by
  intro items
  induction items with
  | nil => intro _; simp [serFields, flagged, lookup]
  | cons kv rest ih =>
    obtain ⟨k', v⟩ := kv
    intro h
    simp only [notFlagged] at h
    simp only [serFields, flagged, lookup]
    split at h
    · next heq => subst heq; simp_all
    · next hne => simp only [hne, if_false]; exact ih h

/-! ### a registry-free decoder, used only to prove injectivity -/
mutual
def dec : Json → Option Value
  | .null => some (.scalar .none)
  | .bool b => some (.scalar (.bool b))
  | .int i => some (.scalar (.int i))
  | .float r => some (.scalar (.float r))
  | .str s => some (.scalar (.str s))
  | .arr items => (decList items).map .tuple
  | .obj items =>
    if flagged "_is_task" items then
      match lookup "__class__" items with
      | some (.str s) =>
        match parseClass s with
        | some c => (decFields true items).map (fun fs => .task (.mk c fs))
        | none => none
      | _ => none
    else if flagged "_is_enum" items then
      match lookup "__class__" items, lookup "name" items with
      | some (.str s), some (.str n) => (parseClass s).map (fun c => .enum c n)
      | _, _ => none
    else (decFields false items).map .dict
def decList : List Json → Option (List Value)
  | [] => some []
  | j :: js => do let v ← dec j; let vs ← decList js; pure (v :: vs)
def decFields (skip : Bool) : List (String × Json) → Option (List (String × Value))
  | [] => some []
  | (k, j) :: rest =>
    if skip && (k == "_is_task" || k == "__class__") then decFields skip rest
    else do let v ← dec j; let vs ← decFields skip rest; pure ((k, v) :: vs)
end

mutual
theorem dec_serValue : ∀ v, wfValue v = true → dec (serValue v) = some v
  | .scalar s, _ => by cases s <;> simp [serValue, serScalar, dec]
  | .enum c name, h => by
    simp only [wfValue] at h
    simp [serValue, dec, flagged, lookup, Json.truthy, parseClass_ser c h]
  | .tuple items, h => by
    simp only [wfValue] at h
    simp [serValue, dec, dec_serList items h]
  | .dict items, h => by
    simp only [wfValue, Bool.and_eq_true] at h
    obtain ⟨⟨h1, h2⟩, h3⟩ := h
    simp [serValue, dec, flagged_serFields _ _ h1, flagged_serFields _ _ h2, dec_serFields_false items h3]
  | .task t, h => by
    simp only [wfValue] at h
    simp only [serValue]
    exact dec_serTask t h
theorem dec_serTask : ∀ t, wfTask t = true → dec (serTask t) = some (.task t)
  | .mk c fields, h => by
    simp only [wfTask, Bool.and_eq_true] at h
    obtain ⟨⟨hc, hr⟩, hf⟩ := h
    simp [serTask, dec, flagged, lookup, Json.truthy, parseClass_ser c hc, decFields, dec_serFields_true fields hr hf]
theorem dec_serList : ∀ l, wfList l = true → decList (serList l) = some l
  | [], _ => by simp [serList, decList]
  | v :: vs, h => by
    simp only [wfList, Bool.and_eq_true] at h
    simp [serList, decList, dec_serValue v h.1, dec_serList vs h.2]
theorem dec_serFields_false : ∀ l, wfFields l = true → decFields false (serFields l) = some l
  | [], _ => by simp [serFields, decFields]
  | (k, v) :: rest, h => by
    simp only [wfFields, Bool.and_eq_true] at h
    simp [serFields, decFields, dec_serValue v h.1, dec_serFields_false rest h.2]
theorem dec_serFields_true : ∀ l, noReserved l = true → wfFields l = true → decFields true (serFields l) = some l
  | [], _, _ => by simp [serFields, decFields]
  | (k, v) :: rest, hr, h => by
    simp only [wfFields, Bool.and_eq_true] at h
    simp only [noReserved, Bool.and_eq_true, Bool.not_eq_true'] at hr
    have hk : (k == "_is_task" || k == "__class__") = false := by
      simpa [reservedKey] using hr.1
    simp [serFields, decFields, hk, dec_serValue v h.1, dec_serFields_true rest hr.2 h.2]
end

theorem serValue_injective (v w : Value) (hv : wfValue v = true) (hw : wfValue w = true)
    (h : serValue v = serValue w) : v = w := by
  have a := dec_serValue v hv
  have b := dec_serValue w hw
  rw [h] at a
  rw [a] at b
  exact Option.some.inj b

theorem serTask_injective (t u : Task) (ht : wfTask t = true) (hu : wfTask u = true)
    (h : serTask t = serTask u) : t = u := by
  have a := dec_serTask t ht
  have b := dec_serTask u hu
  rw [h] at a
  rw [a] at b
  exact Value.task.inj (Option.some.inj b)

/-! ### the round trip through the real deserialiser and the constructor -/

mutual
/-- what `deserialize_value` builds from the serialisation of `v`: lists and plain dicts, and fully
constructed nested tasks -/
def thaw : Value → Raw
  | .scalar s => .scalar s
  | .enum c n => .enum c n
  | .tuple items => .list (thawList items)
  | .dict items => .dict (thawFields items)
  | .task t => .task t
def thawList : List Value → List Raw
  | [] => []
  | v :: vs => thaw v :: thawList vs
def thawFields : List (String × Value) → List (RawKey × Raw)
  | [] => []
  | (k, v) :: rest => (.str k, thaw v) :: thawFields rest
end

def thawPairs : List (String × Value) → List (String × Raw)
  | [] => []
  | (k, v) :: rest => (k, thaw v) :: thawPairs rest

mutual
theorem normalize_thaw : ∀ v, normalize (thaw v) = .ok v
  | .scalar _ | .enum _ _ | .task _ => by simp [thaw, normalize]
  | .tuple items => by simp [thaw, normalize, normList_thaw items]
  | .dict items => by simp [thaw, normalize, normItems_thaw items]
theorem normList_thaw : ∀ l, normList (thawList l) = .ok l
  | [] => by simp [thawList, normList]
  | v :: vs => by simp [thawList, normList, normalize_thaw v, normList_thaw vs]
theorem normItems_thaw : ∀ l, normItems (thawFields l) = .ok l
  | [] => by simp [thawFields, normItems]
  | (k, v) :: rest => by simp [thawFields, normItems, normalize_thaw v, normItems_thaw rest]
end

def keys (l : List (String × Value)) : List String := l.map Prod.fst

mutual
/-- the value only mentions classes the registry can import, with the right field / member names -/
def TypedV (reg : Reg) : Value → Prop
  | .scalar _ => True
  | .enum c n => ∃ ms, reg.enumMembers c = some ms ∧ n ∈ ms
  | .tuple items => TypedL reg items
  | .dict items => TypedF reg items
  | .task t => TypedT reg t
def TypedT (reg : Reg) : Task → Prop
  | .mk c fields => reg.taskFields c = some (keys fields) ∧ (keys fields).Nodup ∧ TypedF reg fields
def TypedL (reg : Reg) : List Value → Prop
  | [] => True
  | v :: vs => TypedV reg v ∧ TypedL reg vs
def TypedF (reg : Reg) : List (String × Value) → Prop
  | [] => True
  | (_, v) :: rest => TypedV reg v ∧ TypedF reg rest
end

theorem lookupRaw_thawPairs (k : String) (v : Value) (rest : List (String × Value)) :
    ∀ (pre : List (String × Value)), k ∉ keys pre →
      lookupRaw k (thawPairs (pre ++ (k, v) :: rest)) = some (thaw v)
  | [], _ => by simp [thawPairs, lookupRaw]
  | (k', v') :: pre, h => by
    simp only [keys, List.map_cons, List.mem_cons, not_or] at h
    have : lookupRaw k (thawPairs (pre ++ (k, v) :: rest)) = some (thaw v) :=
      lookupRaw_thawPairs k v rest pre (by simpa [keys] using h.2)
    simp [thawPairs, lookupRaw, h.1, this]

theorem buildFields_thawPairs : ∀ (suf pre : List (String × Value)), (keys (pre ++ suf)).Nodup →
    buildFields (thawPairs (pre ++ suf)) (keys suf) = .ok suf
  | [], _, _ => by simp [keys, buildFields]
  | (k, v) :: rest, pre, h => by
    have hk : k ∉ keys pre := by
      simp only [keys, List.map_append, List.map_cons] at h
      rw [List.nodup_append] at h
      intro hm
      exact h.2.2 k (by simpa [keys] using hm) k (by simp) rfl
    have ih := buildFields_thawPairs rest (pre ++ [(k, v)]) (by simpa [List.append_assoc] using h)
    simp only [List.append_assoc, List.singleton_append] at ih
    have ih' : buildFields (thawPairs (pre ++ (k, v) :: rest)) (List.map Prod.fst rest) = Except.ok rest := by
      simpa [keys] using ih
    simp [keys, buildFields, lookupRaw_thawPairs k v rest pre hk, normalize_thaw v, ih']

mutual
theorem deValue_serValue (reg : Reg) : ∀ v, wfValue v = true → TypedV reg v → deValue reg (serValue v) = .ok (thaw v)
  | .scalar s, _, _ => by cases s <;> simp [serValue, serScalar, deValue, thaw]
  | .enum c name, h, ht => by
    simp only [wfValue] at h
    obtain ⟨ms, hms, hn⟩ := ht
    simp [serValue, deValue, flagged, lookup, Json.truthy, deEnum, classOf, parseClass_ser c h, hms, hn, thaw]
  | .tuple items, h, ht => by
    simp only [wfValue] at h
    simp only [TypedV] at ht
    simp [serValue, deValue, deList_serList reg items h ht, thaw]
  | .dict items, h, ht => by
    simp only [wfValue, Bool.and_eq_true] at h
    obtain ⟨⟨h1, h2⟩, h3⟩ := h
    simp only [TypedV] at ht
    simp [serValue, deValue, flagged_serFields _ _ h1, flagged_serFields _ _ h2, deDict_serFields reg items h3 ht, thaw]
  | .task t, h, ht => by
    simp only [wfValue] at h
    simp only [TypedV] at ht
    simp only [serValue, thaw]
    exact deValue_serTask reg t h ht
theorem deValue_serTask (reg : Reg) : ∀ t, wfTask t = true → TypedT reg t → deValue reg (serTask t) = .ok (.task t)
  | .mk c fields, h, ht => by
    simp only [wfTask, Bool.and_eq_true] at h
    obtain ⟨⟨hc, hr⟩, hf⟩ := h
    obtain ⟨hreg, hnd, htf⟩ := ht
    have hb := buildFields_thawPairs fields [] (by simpa using hnd)
    simp only [List.nil_append] at hb
    simp [serTask, deValue, flagged, lookup, Json.truthy, classOf, parseClass_ser c hc, hreg, deTaskFields,
      deTaskFields_ser reg (keys fields) fields (fun k hk => hk) hr hf htf, hb]
theorem deList_serList (reg : Reg) : ∀ l, wfList l = true → TypedL reg l → deList reg (serList l) = .ok (thawList l)
  | [], _, _ => by simp [serList, deList, thawList]
  | v :: vs, h, ht => by
    simp only [wfList, Bool.and_eq_true] at h
    simp only [TypedL] at ht
    simp [serList, deList, thawList, deValue_serValue reg v h.1 ht.1, deList_serList reg vs h.2 ht.2]
theorem deDict_serFields (reg : Reg) : ∀ l, wfFields l = true → TypedF reg l → deDict reg (serFields l) = .ok (thawFields l)
  | [], _, _ => by simp [serFields, deDict, thawFields]
  | (k, v) :: rest, h, ht => by
    simp only [wfFields, Bool.and_eq_true] at h
    simp only [TypedF] at ht
    simp [serFields, deDict, thawFields, deValue_serValue reg v h.1 ht.1, deDict_serFields reg rest h.2 ht.2]
theorem deTaskFields_ser (reg : Reg) (names : List String) : ∀ l, (∀ k ∈ keys l, k ∈ names) → noReserved l = true →
    wfFields l = true → TypedF reg l → deTaskFields reg names (serFields l) = .ok (thawPairs l)
  | [], _, _, _, _ => by simp [serFields, deTaskFields, thawPairs]
  | (k, v) :: rest, hn, hr, h, ht => by
    simp only [wfFields, Bool.and_eq_true] at h
    simp only [TypedF] at ht
    simp only [noReserved, Bool.and_eq_true, Bool.not_eq_true'] at hr
    have hk : (k == "_is_task" || k == "__class__") = false := by
      simpa [reservedKey] using hr.1
    have hkn : k ∈ names := hn k (by simp [keys])
    have hn' : ∀ k' ∈ keys rest, k' ∈ names := fun k' hk' => hn k' (by simp only [keys, List.map_cons, List.mem_cons]; exact Or.inr hk')
    simp [serFields, deTaskFields, thawPairs, hk, hkn, deValue_serValue reg v h.1 ht.1,
      deTaskFields_ser reg names rest hn' hr.2 h.2 ht.2]
end

/-- `deserialize_task(serialize_task(t))` rebuilds `t` -/
theorem deTask_serTask' (reg : Reg) (t : Task) (h : wfTask t = true) (ht : TypedT reg t) :
    deTask reg (serTask t) = .ok t := by
  have := deValue_serTask reg t h ht
  cases t with
  | mk c fields =>
    simp only [serTask] at this ⊢
    simp [deTask, flagged, lookup, Json.truthy, this]

end Lt.Params
