import LabtechModel.Proofs.IntrRun
/-!
# M10: "no task starts before its dependencies have finished" holds after EVERY primitive

`DI P s` (`P` = the plan): every `submit t` / `start t` / `exec t` event of the trace of `s` is
preceded by a `yield d` of every recorded direct dependency `d` of `t` (`hist`), carried by
* `pdY`  : a recorded dependency that has left `task_to_pending_dependencies[x]` has been yielded
           (the set shrinks only in `complete_task(d)`, which runs after the `yield d`);
* `qRdy`, `rRdy`, `cRdy`: every submission that is queued, running, or popped by the serial runner
           belongs to a task all of whose dependencies have been yielded.
The only primitives that need a side condition (`DG`) are the ones that put a task on the way to a
worker (`enqueue`, `serialAppend`, `procStart`) and `unblockOne`; the side conditions are facts about
the trace that stay true when the trace grows, so they can be checked at the head of a block.
The stream lemmas (`always_DI_*`) then walk the main stream, the first handler's stream and the
second handler's stream: `DI` holds after every prefix of each of them, from ANY state with `DI`.
-/
namespace Lt

variable {cfg : Config} {p : Problem}

/-- every recorded direct dependency of `t` has been yielded in `tr` -/
def Rdy (P : TS) (tr : List Ev) (t : Tid) : Prop := ∀ d ∈ P.ddeps t, d ∈ yieldedOf tr

theorem Rdy.mono {P : TS} {tr : List Ev} {t : Tid} (h : Rdy P tr t) (l : List Ev) : Rdy P (tr ++ l) t :=
  fun d hd => yieldedOf_mono _ _ _ (h d hd)

/-- what must hold of an event relative to the trace before it -/
def DepOK (P : TS) (pre : List Ev) : Ev → Prop
  | .submit t _ => Rdy P pre t
  | .start t => Rdy P pre t
  | .exec t _ => Rdy P pre t
  | _ => True

structure DI (P : TS) (s : IS) : Prop where
  hist : Hist (DepOK P) s.rs.trace
  pdY : ∀ x, ∀ d ∈ P.ddeps x, d ∈ s.rs.ts.pendDeps x ∨ d ∈ yieldedOf s.rs.trace
  qRdy : ∀ j ∈ s.rs.queued, Rdy P s.rs.trace j.tid
  rRdy : ∀ j ∈ s.rs.running, Rdy P s.rs.trace j.tid
  cRdy : ∀ j, s.cur = some j → Rdy P s.rs.trace j.tid

theorem DI.transfer {P : TS} {s s' : IS} (h : DI P s) (l : List Ev)
    (htr : s'.rs.trace = s.rs.trace ++ l)
    (hh : Hist (DepOK P) (s.rs.trace ++ l))
    (hpd : ∀ x d, d ∈ s.rs.ts.pendDeps x → d ∈ s'.rs.ts.pendDeps x ∨ d ∈ yieldedOf (s.rs.trace ++ l))
    (hq : ∀ j ∈ s'.rs.queued, Rdy P s.rs.trace j.tid)
    (hr : ∀ j ∈ s'.rs.running, Rdy P s.rs.trace j.tid)
    (hc : ∀ j, s'.cur = some j → Rdy P s.rs.trace j.tid) : DI P s' where
  hist := by rw [htr]; exact hh
  pdY := by
    intro x d hd
    rw [htr]
    rcases h.pdY x d hd with h1 | h1
    · exact hpd x d h1
    · exact Or.inr (yieldedOf_mono _ _ _ h1)
  qRdy := fun j hj => by rw [htr]; exact (hq j hj).mono l
  rRdy := fun j hj => by rw [htr]; exact (hr j hj).mono l
  cRdy := fun j hj => by rw [htr]; exact (hc j hj).mono l

/-- nothing that `DI` reads has changed -/
theorem DI.same {P : TS} {s s' : IS} (h : DI P s) (htr : s'.rs.trace = s.rs.trace)
    (hpd : s'.rs.ts.pendDeps = s.rs.ts.pendDeps) (hq : ∀ j ∈ s'.rs.queued, j ∈ s.rs.queued)
    (hr : ∀ j ∈ s'.rs.running, j ∈ s.rs.running) (hc : s'.cur = s.cur) : DI P s' :=
  h.transfer [] (by simpa using htr) (by simpa using h.hist)
    (fun x d hd => Or.inl (by rw [hpd]; exact hd))
    (fun j hj => h.qRdy j (hq j hj)) (fun j hj => h.rRdy j (hr j hj))
    (fun j hj => h.cRdy j (by rw [← hc]; exact hj))

/-- reading of `DI.hist`: the property as a statement about the trace -/
theorem DI.after_deps {P : TS} {s : IS} (h : DI P s) (pre post : List Ev) (e : Ev) (t : Tid)
    (he : (∃ uc, e = Ev.submit t uc) ∨ e = Ev.start t ∨ (∃ seen, e = Ev.exec t seen))
    (htr : s.rs.trace = pre ++ e :: post) : ∀ d ∈ P.ddeps t, ∃ o, Ev.yield d o ∈ pre := by
  have hq := h.hist pre e post htr
  intro d hd
  rw [← mem_yieldedOf]
  rcases he with ⟨uc, rfl⟩ | rfl | ⟨seen, rfl⟩ <;> exact hq d hd

/-! ## the side conditions -/
def DG (P : TS) (tr : List Ev) : Prim → Prop
  | .enqueue t | .serialAppend t | .procStart t => Rdy P tr t
  | .unblockOne t _ => t ∈ yieldedOf tr
  | _ => True

theorem DG.mono {P : TS} {tr : List Ev} {q : Prim} (h : DG P tr q) (l : List Ev) : DG P (tr ++ l) q := by
  cases q <;> simp only [DG] at h ⊢
  case enqueue t => exact h.mono l
  case serialAppend t => exact h.mono l
  case procStart t => exact h.mono l
  case unblockOne t d => exact yieldedOf_mono _ _ _ h

/-- primitives without a side condition -/
def Prim.dfree : Prim → Bool
  | .enqueue _ | .serialAppend _ | .procStart _ | .unblockOne _ _ => false
  | _ => true

theorem DG_of_free {P : TS} {tr : List Ev} {q : Prim} (h : q.dfree = true) : DG P tr q := by
  cases q <;> simp [Prim.dfree] at h <;> trivial

theorem dfree_of_nolaunch_ts {q : Prim} (h : q.launches = false) (h2 : q.touchesTS = false) : q.dfree = true := by
  cases q <;> simp [Prim.launches, Prim.touchesTS] at h h2 <;> rfl

/-- primitives that change nothing `DI` reads -/
def Prim.touchesD : Prim → Bool
  | .enqueue _ | .procStart _ | .serialAppend _ | .consumeResults _ | .popFuture _ _ | .removeDone _
  | .popDeque | .serialRun | .unblockOne _ _ | .unregPending _ | .cancelOne _ | .clearDeque
  | .regRunning _ | .stopOne _ | .startTask _ => true
  | _ => false

theorem applyPrim_dfields (q : Prim) (s : IS) (h : q.touchesD = false) :
    (applyPrim cfg p q s).rs.trace = s.rs.trace ∧
    (applyPrim cfg p q s).rs.ts.pendDeps = s.rs.ts.pendDeps ∧
    (applyPrim cfg p q s).rs.queued = s.rs.queued ∧
    (applyPrim cfg p q s).rs.running = s.rs.running ∧
    (applyPrim cfg p q s).cur = s.cur := by
  unfold applyPrim
  split
  · cases q <;> simp [Prim.touchesD] at h <;> simp only [stepPrim, keyErr] <;> (repeat' split) <;> simp
  · simp

theorem forkSnap_tid' (r : List (Tid × Val)) (j : Job) : (forkSnap cfg r j).tid = j.tid := by
  simp only [forkSnap]; split <;> rfl

theorem mem_stayOf (c : Choice) (l : List Job) (j : Job) (h : j ∈ stayOf c l) : j ∈ l :=
  (enum_filter_sublist l _).subset h

theorem DepOK_jobEvents {P : TS} (ts : TS) (tr : List Ev) (j : Job) (h : Rdy P tr j.tid) :
    ∀ e ∈ jobEvents p ts j, DepOK P tr e := by
  intro e he
  rcases jobEvents_cases p ts j e he with rfl | rfl
  · trivial
  · exact h

theorem DepOK_runEvents {P : TS} (ts : TS) (tr : List Ev) (j : Job) (h : Rdy P tr j.tid) :
    ∀ e ∈ runEvents p ts j, DepOK P tr e := by
  intro e he
  rcases runEvents_cases p ts j e he with rfl | rfl
  · trivial
  · exact h

/-- one primitive keeps `DI`, given its side condition -/
theorem DI_step {P : TS} (q : Prim) (s : IS) (h : DI P s) (hg : DG P s.rs.trace q) :
    DI P (applyPrim cfg p q s) := by
  by_cases hd : q.touchesD = false
  · obtain ⟨e1, e2, e3, e4, e5⟩ := applyPrim_dfields (cfg := cfg) (p := p) q s hd
    exact h.same e1 e2 (by rw [e3]; exact fun _ hj => hj) (by rw [e4]; exact fun _ hj => hj) e5
  by_cases hrun : ¬ s.rs.status = .running
  · rw [applyPrim_stopped q s hrun]; exact h
  rw [applyPrim_running q s (Decidable.not_not.mp hrun)]
  cases q <;> simp [Prim.touchesD] at hd
  case startTask t =>
    simp only [stepPrim]
    cases hs : startTask s.rs.ts t with
    | none => exact h.same rfl rfl (fun _ hj => hj) (fun _ hj => hj) rfl
    | some ts' =>
      obtain ⟨_, hts⟩ := startTask_some _ _ _ hs
      subst hts
      exact h.same rfl rfl (fun _ hj => hj) (fun _ hj => hj) rfl
  case enqueue t =>
    simp only [stepPrim]
    refine h.transfer [Ev.submit t (mkJob cfg p s.rs t).useCache] rfl (h.hist.snoc hg)
      (fun _ _ hd => Or.inl hd) ?_ h.rRdy h.cRdy
    intro j hj
    simp only [List.mem_append, List.mem_singleton] at hj
    rcases hj with hj | rfl
    · exact h.qRdy j hj
    · exact hg
  case serialAppend t =>
    simp only [stepPrim]
    refine h.transfer [Ev.submit t (mkJob cfg p s.rs t).useCache] rfl (h.hist.snoc hg)
      (fun _ _ hd => Or.inl hd) ?_ h.rRdy h.cRdy
    intro j hj
    simp only [List.mem_append, List.mem_singleton] at hj
    rcases hj with hj | rfl
    · exact h.qRdy j hj
    · exact hg
  case procStart t =>
    simp only [stepPrim]
    exact h.transfer [Ev.start t] rfl (h.hist.snoc hg) (fun _ _ hd => Or.inl hd) h.qRdy h.rRdy h.cRdy
  case regRunning t =>
    simp only [stepPrim]
    cases hf : s.rs.queued.find? (hasTid t) with
    | none => exact h
    | some j =>
      refine h.transfer [] (by simp) (by simpa using h.hist) (fun _ _ hd => Or.inl (by simpa using hd))
        h.qRdy ?_ h.cRdy
      intro j' hj'
      simp only [List.mem_append, List.mem_singleton] at hj'
      rcases hj' with hj' | rfl
      · exact h.rRdy j' hj'
      · rw [forkSnap_tid']; exact h.qRdy j (List.mem_of_find?_eq_some hf)
  case unregPending t =>
    simp only [stepPrim]
    exact h.same rfl rfl (fun _ hj => List.mem_of_mem_eraseP hj) (fun _ hj => hj) rfl
  case cancelOne t =>
    simp only [stepPrim]
    exact h.same rfl rfl (fun _ hj => List.mem_of_mem_eraseP hj) (fun _ hj => hj) rfl
  case clearDeque =>
    simp only [stepPrim]
    exact h.same rfl rfl (fun _ hj => by simp at hj) (fun _ hj => hj) rfl
  case stopOne t =>
    simp only [stepPrim]
    exact h.same rfl rfl (fun _ hj => hj) (fun _ hj => List.mem_of_mem_eraseP hj) rfl
  case consumeResults c =>
    simp only [stepPrim]
    refine h.transfer ([Ev.waitEnter (s.rs.queued.map Job.tid) (s.rs.running.map Job.tid)] ++
        ((finOf c s.rs.running).map (jobEvents p s.rs.ts)).flatten) (by simp) ?_
      (fun _ _ hd => Or.inl hd) h.qRdy (fun j hj => h.rRdy j (mem_stayOf c _ j hj)) h.cRdy
    apply h.hist.append_of_mem
    intro e he pre' _
    simp only [List.mem_append, List.mem_singleton] at he
    rcases he with rfl | he
    · trivial
    · obtain ⟨es, hes, hmem⟩ := List.mem_flatten.mp he
      obtain ⟨j, hj, rfl⟩ := List.mem_map.mp hes
      exact DepOK_jobEvents _ _ j ((h.rRdy j (mem_finOf c _ j hj)).mono pre') e hmem
  case popFuture t o =>
    simp only [stepPrim]
    split
    · cases o with
      | none => exact h.same rfl rfl (fun _ hj => hj) (fun _ hj => hj) rfl
      | some o =>
        exact h.transfer [Ev.yield t o] rfl (h.hist.snoc trivial) (fun _ _ hd => Or.inl hd)
          h.qRdy h.rRdy h.cRdy
    · exact h.same rfl rfl (fun _ hj => hj) (fun _ hj => hj) rfl
  case removeDone rem =>
    simp only [stepPrim]
    exact h.transfer [Ev.remove rem (s.rs.results.map (·.1))] rfl (h.hist.snoc trivial)
      (fun _ _ hd => Or.inl hd) h.qRdy h.rRdy h.cRdy
  case unblockOne t d =>
    simp only [stepPrim]
    cases hr : setRemove (s.rs.ts.pendDeps d) t with
    | none => exact h.same rfl rfl (fun _ hj => hj) (fun _ hj => hj) rfl
    | some l =>
      obtain ⟨_, hl⟩ := setRemove_some _ _ _ hr
      refine h.transfer [] (by simp) (by simpa using h.hist) ?_ h.qRdy h.rRdy h.cRdy
      intro x y hy
      simp only [upd, List.append_nil]
      by_cases hyt : y = t
      · subst hyt; exact Or.inr hg
      · left
        split
        · next hx => subst hx; rw [hl]; simp [hy, hyt]
        · exact hy
  case popDeque =>
    simp only [stepPrim]
    cases hq : s.rs.queued with
    | nil =>
      exact h.transfer [Ev.waitEnter ([].map Job.tid) []] rfl (h.hist.snoc trivial)
        (fun _ _ hd => Or.inl hd) (fun j hj => by simp at hj) h.rRdy h.cRdy
    | cons j rest =>
      refine h.transfer [Ev.waitEnter ((j :: rest).map Job.tid) []] rfl (h.hist.snoc trivial)
        (fun _ _ hd => Or.inl hd) (fun j' hj' => h.qRdy j' (by rw [hq]; exact List.mem_cons_of_mem _ hj'))
        h.rRdy ?_
      intro j' hj'
      simp only [Option.some.injEq] at hj'
      subst hj'
      exact h.qRdy j (by rw [hq]; exact List.mem_cons_self)
  case serialRun =>
    simp only [stepPrim]
    cases hc : s.cur with
    | none => exact h
    | some j =>
      have hj := h.cRdy j hc
      refine h.transfer ([Ev.start j.tid] ++ runEvents p s.rs.ts j) (by simp) ?_
        (fun _ _ hd => Or.inl hd) h.qRdy h.rRdy (fun j' hj' => h.cRdy j' (by rw [hc]; exact hj'))
      apply h.hist.append_of_mem
      intro e he pre' _
      simp only [List.mem_append, List.mem_singleton] at he
      rcases he with rfl | he
      · exact hj.mono pre'
      · exact DepOK_runEvents _ _ j (hj.mono pre') e he

/-! ## blocks of primitives -/
theorem runPrims_trace_ext : ∀ (ps : List Prim) (s : IS),
    ∃ l, (runPrims cfg p ps s).rs.trace = s.rs.trace ++ l := by
  intro ps
  induction ps with
  | nil => intro s; exact ⟨[], by simp⟩
  | cons q ps ih =>
    intro s
    obtain ⟨l1, h1, _⟩ := trace_ext (cfg := cfg) (p := p) q s
    obtain ⟨l2, h2⟩ := ih (applyPrim cfg p q s)
    exact ⟨l1 ++ l2, by rw [runPrims_cons, h2, h1, List.append_assoc]⟩

theorem Rdy.run {P : TS} {s : IS} {t : Tid} (h : Rdy P s.rs.trace t) (ps : List Prim) :
    Rdy P (runPrims cfg p ps s).rs.trace t := by
  obtain ⟨l, hl⟩ := runPrims_trace_ext (cfg := cfg) (p := p) ps s
  rw [hl]; exact h.mono l

/-- side conditions checked at the head of a block -/
theorem always_DI_guard {P : TS} : ∀ (ps : List Prim) (s : IS), DI P s →
    (∀ q ∈ ps, DG P s.rs.trace q) → Always cfg p (DI P) ps s := by
  intro ps
  induction ps with
  | nil => intro s h _; exact h
  | cons q ps ih =>
    intro s h hg
    refine ⟨h, ih _ (DI_step q s h (hg q List.mem_cons_self)) ?_⟩
    intro q' hq'
    obtain ⟨l, hl, _⟩ := trace_ext (cfg := cfg) (p := p) q s
    rw [hl]
    exact (hg q' (List.mem_cons_of_mem _ hq')).mono l

theorem always_DI_free {P : TS} (ps : List Prim) (s : IS) (hf : ∀ q ∈ ps, q.dfree = true) (h : DI P s) :
    Always cfg p (DI P) ps s :=
  always_DI_guard ps s h (fun q hq => DG_of_free (hf q hq))

/-- after `future_to_task.pop(future)` of a future that carries an outcome, that outcome has been
    yielded (or a `KeyError` is propagating) -/
theorem popFuture_yielded (t : Tid) (o : Outcome) (s : IS) :
    (applyPrim cfg p (Prim.popFuture t (some o)) s).rs.status ≠ .running ∨
    t ∈ yieldedOf (applyPrim cfg p (Prim.popFuture t (some o)) s).rs.trace := by
  by_cases hrun : s.rs.status = .running
  · rw [applyPrim_running _ _ hrun]
    simp only [stepPrim]
    split
    · right
      exact (mem_yieldedOf _ _).mpr ⟨o, by simp⟩
    · left; simp [keyErr]
  · left; rw [applyPrim_stopped _ _ hrun]; exact hrun

theorem yield_DG {P : TS} {tr : List Ev} (req : List Tid) (ts : TS) (t : Tid) (o : Outcome)
    (h : t ∈ yieldedOf tr) : ∀ q ∈ yieldPrims cfg req ts t o, DG P tr q := by
  have hc : ∀ q ∈ completePrims ts t, DG P tr q := by
    intro q hq
    simp only [completePrims, List.mem_append, List.mem_singleton, List.mem_map] at hq
    rcases hq with (rfl | ⟨d, _, rfl⟩) | ⟨d, _, rfl⟩
    · trivial
    · exact h
    · trivial
  have hr : ∀ rem, ∀ q ∈ removePrims rem, DG P tr q := by
    intro rem q hq
    simp only [removePrims, List.mem_append, List.mem_singleton, List.mem_map] at hq
    rcases hq with ⟨d, _, rfl⟩ | rfl <;> trivial
  intro q hq
  simp only [yieldPrims] at hq
  split at hq
  · simp only [List.mem_append, List.mem_singleton] at hq
    rcases hq with (((rfl | hq) | rfl) | hq) | hq
    · trivial
    · split at hq
      · simp only [List.mem_singleton] at hq; subst hq; trivial
      · simp at hq
    · trivial
    · exact hc q hq
    · exact hr _ q hq
  · simp only [List.mem_append] at hq
    rcases hq with hq | hq
    · exact hc q hq
    · split at hq
      · exact hr _ q hq
      · simp only [List.mem_singleton] at hq; subst hq; trivial

/-- `pop` + the body of `process_completed_tasks`' loop for one yielded outcome -/
theorem always_DI_popYield {P : TS} (req : List Tid) (ts : TS) (t : Tid) (o : Outcome) (s : IS) (h : DI P s) :
    Always cfg p (DI P) (Prim.popFuture t (some o) :: yieldPrims cfg req ts t o) s := by
  refine ⟨h, ?_⟩
  have h1 : DI P (applyPrim cfg p (Prim.popFuture t (some o)) s) := DI_step _ s h trivial
  rcases popFuture_yielded (cfg := cfg) (p := p) t o s with hs | hy
  · exact always_stopped _ _ hs h1
  · exact always_DI_guard _ _ h1 (yield_DG req ts t o hy)

theorem always_DI_doneOne {P : TS} (req : List Tid) (s : IS) (t : Tid) (h : DI P s) :
    Always cfg p (DI P) (doneOnePrims cfg req s t) s := by
  simp only [doneOnePrims]
  split
  · exact always_DI_free _ s (fun q hq => by simp only [List.mem_singleton] at hq; subst hq; rfl) h
  · split
    · exact always_DI_popYield req _ t _ s h
    · exact h

theorem always_DI_done {P : TS} (req : List Tid) : ∀ (cands : List Tid) (s : IS), DI P s →
    Always cfg p (DI P) (donePrims cfg p req cands s) s := by
  intro cands
  induction cands with
  | nil => intro s h; exact h
  | cons t rest ih =>
    intro s h
    unfold donePrims
    split
    · have a := always_DI_doneOne (cfg := cfg) (p := p) req s t h
      rw [always_append]
      exact ⟨a, ih _ a.last⟩
    · exact h

theorem takeN_fst_mem {α} (n : Nat) (l : List α) (x : α) (h : x ∈ (takeN n l).1) : x ∈ l := by
  rw [← takeN_append n l]; exact List.mem_append_left _ h

theorem always_DI_startPrims {P : TS} (js : List Job) (s : IS) (h : DI P s)
    (hj : ∀ j ∈ js, Rdy P s.rs.trace j.tid) : Always cfg p (DI P) (startPrims js) s := by
  apply always_DI_guard _ _ h
  intro q hq
  simp only [startPrims, List.mem_flatMap, List.mem_cons, List.not_mem_nil, or_false] at hq
  obtain ⟨j, hjm, rfl | rfl | rfl⟩ := hq
  · exact hj j hjm
  · trivial
  · trivial

theorem always_DI_startProcesses {P : TS} (s0 s : IS) (h : DI P s)
    (hq : ∀ j ∈ s0.rs.queued, Rdy P s.rs.trace j.tid) :
    Always cfg p (DI P) (startProcessesPrims cfg s0) s :=
  always_DI_startPrims _ s h (fun j hj => hq j (takeN_fst_mem _ _ j hj))

/-- one `process_completed_tasks()` call, from any state -/
theorem always_DI_wait {P : TS} (req : List Tid) (c : Choice) (s : IS) (h : DI P s) :
    Always cfg p (DI P) (waitPrims cfg p req c s) s := by
  simp only [waitPrims]
  split
  · split
    · exact always_DI_free _ s (fun q hq => by simp only [List.mem_singleton] at hq; subst hq; rfl) h
    · next j rest _ =>
      rw [List.append_assoc, List.singleton_append, always_append]
      have a := always_DI_free (cfg := cfg) (p := p) (P := P)
        [Prim.popDeque, Prim.serialRun, Prim.serialSaveBegin, Prim.serialSaveEnd] s
        (fun q hq => by
          simp only [List.mem_cons, List.not_mem_nil, or_false] at hq
          rcases hq with rfl | rfl | rfl | rfl <;> rfl) h
      exact ⟨a, always_DI_popYield req _ _ _ _ a.last⟩
  · rw [always_append, always_append, runPrims_append]
    have a : Always cfg p (DI P) (Prim.consumeResults c ::
        deadPrims (runPrims cfg p [Prim.consumeResults c] s)) s :=
      always_DI_free _ s (fun q hq => by
        simp only [List.mem_cons, deadPrims, List.mem_map] at hq
        rcases hq with rfl | ⟨t, _, rfl⟩ <;> rfl) h
    have b := always_DI_startProcesses (cfg := cfg) (p := p) _ _ a.last a.last.qRdy
    exact ⟨⟨a, b⟩, always_DI_done req _ _ b.last⟩

/-! ## the submit phase -/
theorem always_DI_submitOne {P : TS} (s : IS) (t : Tid) (h : DI P s) (ht : Rdy P s.rs.trace t) :
    Always cfg p (DI P) (submitOnePrims cfg p s t) s := by
  simp only [submitOnePrims]
  split
  · apply always_DI_guard _ _ h
    intro q hq
    simp only [List.mem_cons, List.not_mem_nil, or_false] at hq
    rcases hq with rfl | rfl
    · trivial
    · exact ht
  · rw [always_append, always_append]
    have a : Always cfg p (DI P) [Prim.startTask t, Prim.enqueue t] s := by
      apply always_DI_guard _ _ h
      intro q hq
      simp only [List.mem_cons, List.not_mem_nil, or_false] at hq
      rcases hq with rfl | rfl
      · trivial
      · exact ht
    have b := always_DI_startProcesses (cfg := cfg) (p := p) _ _ a.last a.last.qRdy
    exact ⟨⟨a, b⟩, always_DI_free _ _ (fun q hq => by
      simp only [List.mem_singleton] at hq; subst hq; rfl) b.last⟩

theorem always_DI_submit {P : TS} : ∀ (l : List Tid) (s : IS), DI P s → (∀ t ∈ l, Rdy P s.rs.trace t) →
    Always cfg p (DI P) (submitPrims cfg p l s) s := by
  intro l
  induction l with
  | nil => intro s h _; exact h
  | cons t ts ih =>
    intro s h hl
    simp only [submitPrims]
    rw [always_append]
    have a := always_DI_submitOne (cfg := cfg) (p := p) s t h (hl t List.mem_cons_self)
    exact ⟨a, ih _ a.last (fun t' ht' => (hl t' (List.mem_cons_of_mem _ ht')).run _)⟩

/-- `get_ready_tasks` lists only tasks whose recorded dependencies have all been yielded -/
theorem ready_Rdy {P : TS} (s : IS) (h : DI P s) : ∀ t ∈ readyTasks p s.rs.ts, Rdy P s.rs.trace t := by
  intro t ht d hd
  have h0 := (readyTasks_no_pending_deps p s.rs.ts t ht).1
  rcases h.pdY t d hd with h1 | h1
  · rw [h0] at h1; simp at h1
  · exact h1

theorem always_DI_iteration {P : TS} (req : List Tid) (c : Choice) (s : IS) (h : DI P s) :
    Always cfg p (DI P) (iterationPrims cfg p req c s) s := by
  have a := always_DI_submit (cfg := cfg) (p := p) (readyTasks p s.rs.ts) s h (ready_Rdy s h)
  simp only [iterationPrims]
  split
  · rw [always_append]
    exact ⟨a, always_DI_wait req c _ a.last⟩
  · exact a

/-! ## the three streams -/
theorem always_DI_main {P : TS} (req : List Tid) : ∀ (sched : List Choice) (s : IS), DI P s →
    Always cfg p (DI P) (mainStream cfg p req sched s) s := by
  intro sched
  induction sched with
  | nil => intro s h; exact h
  | cons c cs ih =>
    intro s h
    unfold mainStream
    split
    · split
      · have a := always_DI_iteration (cfg := cfg) (p := p) req c s h
        rw [always_append]
        exact ⟨a, ih _ a.last⟩
      · exact h
    · exact h

theorem always_DI_cancel {P : TS} (s0 s : IS) (h : DI P s) : Always cfg p (DI P) (cancelPrims cfg s0) s := by
  apply always_DI_free _ _ _ h
  intro q hq
  simp only [cancelPrims] at hq
  split at hq
  · simp only [List.mem_singleton] at hq; subst hq; rfl
  · obtain ⟨j, _, rfl⟩ := List.mem_map.mp hq; rfl

theorem always_DI_stop {P : TS} (s0 s : IS) (h : DI P s) : Always cfg p (DI P) (stopPrims cfg s0) s := by
  apply always_DI_free _ _ _ h
  intro q hq
  simp only [stopPrims] at hq
  split at hq
  · simp at hq
  · simp only [List.mem_append, List.mem_map] at hq
    rcases hq with ⟨j, _, rfl⟩ | ⟨t, _, rfl⟩ <;> rfl

theorem always_DI_drain {P : TS} (req : List Tid) : ∀ (ds : List Choice) (s : IS), DI P s →
    Always cfg p (DI P) (drainPrims cfg p req ds s) s := by
  intro ds
  induction ds with
  | nil => intro s h; exact h
  | cons c cs ih =>
    intro s h
    unfold drainPrims
    split
    · split
      · exact h
      · have a := always_DI_wait (cfg := cfg) (p := p) req c s h
        rw [always_append]
        exact ⟨a, ih _ a.last⟩
    · exact h

/-- the first `KeyboardInterrupt` handler, entered in ANY state with `DI` -/
theorem always_DI_handler {P : TS} (req : List Tid) (ds : List Choice) (s : IS) (h : DI P s) :
    Always cfg p (DI P) (handlerPrims cfg p req ds s) s := by
  simp only [handlerPrims]
  rw [always_append]
  have a := always_DI_cancel (cfg := cfg) (p := p) s s h
  exact ⟨a, always_DI_drain req ds _ a.last⟩

/-- the second handler, entered in ANY state with `DI` -/
theorem always_DI_second {P : TS} (req : List Tid) (s : IS) (h : DI P s) :
    Always cfg p (DI P) (secondPrims cfg p req s) s := by
  simp only [secondPrims]
  rw [always_append, always_append, runPrims_append]
  have a := always_DI_cancel (cfg := cfg) (p := p) s s h
  have b := always_DI_stop (cfg := cfg) (p := p) (runPrims cfg p (cancelPrims cfg s) s) _ a.last
  exact ⟨⟨a, b⟩, always_DI_wait req noWait _ b.last⟩

theorem DI_init (store : Store) (fuel : Nat) : DI (plan cfg p store fuel) (initIS cfg p store fuel) where
  hist := Hist_nil _
  pdY := fun x d hd => Or.inl (by
    show d ∈ (plan cfg p store fuel).pendDeps x
    rw [(plan_PI cfg p store fuel).pdEq]; exact hd)
  qRdy := fun j hj => by simp [initIS, initRS] at hj
  rRdy := fun j hj => by simp [initIS, initRS] at hj
  cRdy := fun j hj => by simp [initIS] at hj

/-! ## the states of an interrupted run -/
/-- state after `m` primitives of the first handler entered at instant `k` of the main stream -/
abbrev handlerStateAt (cfg : Config) (p : Problem) (store : Store) (fuel : Nat) (sched : List Choice) (k : Nat)
    (ds : List Choice) (m : Nat) : IS :=
  runPrims cfg p ((handlerPrims cfg p (reqTids p) ds (stateAt cfg p store fuel sched k)).take m)
    (stateAt cfg p store fuel sched k)

/-- state after `m2` primitives of the second handler entered at instant `m` of the first -/
abbrev secondStateAt (cfg : Config) (p : Problem) (store : Store) (fuel : Nat) (sched : List Choice) (k : Nat)
    (ds : List Choice) (m m2 : Nat) : IS :=
  runPrims cfg p ((secondPrims cfg p (reqTids p) (handlerStateAt cfg p store fuel sched k ds m)).take m2)
    (handlerStateAt cfg p store fuel sched k ds m)

theorem stateAt_DI (store : Store) (fuel : Nat) (sched : List Choice) (k : Nat) :
    DI (plan cfg p store fuel) (stateAt cfg p store fuel sched k) :=
  (always_DI_main (reqTids p) sched _ (DI_init store fuel)).prefix k

theorem handlerStateAt_DI (store : Store) (fuel : Nat) (sched : List Choice) (k : Nat) (ds : List Choice) (m : Nat) :
    DI (plan cfg p store fuel) (handlerStateAt cfg p store fuel sched k ds m) :=
  (always_DI_handler (reqTids p) ds _ (stateAt_DI store fuel sched k)).prefix m

theorem secondStateAt_DI (store : Store) (fuel : Nat) (sched : List Choice) (k : Nat) (ds : List Choice)
    (m m2 : Nat) : DI (plan cfg p store fuel) (secondStateAt cfg p store fuel sched k ds m m2) :=
  (always_DI_second (reqTids p) _ (handlerStateAt_DI store fuel sched k ds m)).prefix m2

/-- the final state and the state at the interrupt of `interruptedRun` are among these -/
theorem interruptedRun_cases (store : Store) (fuel : Nat) (sched ds : List Choice) (k : Nat) (k2 : Option Nat) :
    (∃ k', (interruptedRun cfg p store fuel sched k ds k2).atIntr = stateAt cfg p store fuel sched k') ∧
    ((∃ k', (interruptedRun cfg p store fuel sched k ds k2).final = stateAt cfg p store fuel sched k') ∨
     (∃ m, (interruptedRun cfg p store fuel sched k ds k2).final = handlerStateAt cfg p store fuel sched k ds m) ∨
     (∃ m m2, (interruptedRun cfg p store fuel sched k ds k2).final
        = secondStateAt cfg p store fuel sched k ds m m2)) := by
  by_cases hk : k < (mainOf cfg p store fuel sched).length
  · have hall : ∀ (l : List Prim), l.take l.length = l := fun l => List.take_length
    cases k2 with
    | none =>
      rw [interruptedRun_single store fuel sched ds k hk]
      exact ⟨⟨k, rfl⟩, Or.inr (Or.inl ⟨_, by simp only [handlerStateAt]; rw [hall]⟩)⟩
    | some m =>
      by_cases hm : m < (handlerPrims cfg p (reqTids p) ds (stateAt cfg p store fuel sched k)).length
      · rw [interruptedRun_double store fuel sched ds k m hk hm]
        exact ⟨⟨k, rfl⟩, Or.inr (Or.inr ⟨m, _, by simp only [secondStateAt, handlerStateAt]; rw [hall]⟩)⟩
      · rw [interruptedRun_late store fuel sched ds k m hk hm, interruptedRun_single store fuel sched ds k hk]
        exact ⟨⟨k, rfl⟩, Or.inr (Or.inl ⟨_, by simp only [handlerStateAt]; rw [hall]⟩)⟩
  · have hk' : ¬ k < (mainStream cfg p (reqTids p) sched (initIS cfg p store fuel)).length := hk
    have hfin : runPrims cfg p (mainStream cfg p (reqTids p) sched (initIS cfg p store fuel)) (initIS cfg p store fuel)
        = stateAt cfg p store fuel sched k := by
      simp only [stateAt, mainOf]
      rw [List.take_of_length_le (Nat.le_of_not_lt hk')]
    simp only [interruptedRun, hk', if_false]
    exact ⟨⟨k, hfin⟩, Or.inl ⟨k, hfin⟩⟩

end Lt
