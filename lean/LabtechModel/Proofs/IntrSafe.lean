import LabtechModel.Proofs.IntrRefine
/-!
# M10: an invariant that holds between any two primitives

`Always Q ps s`: `Q` holds in `s` and after every prefix of `ps` executed from `s`.
`KR`: the part of the master invariant that survives in the middle of an iteration and that the
interrupt handler needs: tracked futures are active tasks, and for every task that is pending or
active the two directions of the dependency dictionaries agree, so that `complete_task` finds
everything it removes.
-/
namespace Lt

variable {cfg : Config} {p : Problem}

def Always (cfg : Config) (p : Problem) (Q : IS → Prop) : List Prim → IS → Prop
  | [], s => Q s
  | q :: ps, s => Q s ∧ Always cfg p Q ps (applyPrim cfg p q s)

theorem Always.head {Q : IS → Prop} {ps : List Prim} {s : IS} (h : Always cfg p Q ps s) : Q s := by
  cases ps with
  | nil => exact h
  | cons q ps => exact h.1

theorem always_append {Q : IS → Prop} : ∀ (a b : List Prim) (s : IS),
    Always cfg p Q (a ++ b) s ↔ Always cfg p Q a s ∧ Always cfg p Q b (runPrims cfg p a s) := by
  intro a
  induction a with
  | nil =>
    intro b s
    simp only [List.nil_append, runPrims_nil, Always]
    exact ⟨fun h => ⟨h.head, h⟩, fun h => h.2⟩
  | cons q a ih =>
    intro b s
    simp only [List.cons_append, Always, runPrims_cons, ih]
    exact ⟨fun h => ⟨⟨h.1, h.2.1⟩, h.2.2⟩, fun h => ⟨h.1.1, h.1.2, h.2⟩⟩

theorem Always.last {Q : IS → Prop} : ∀ {ps : List Prim} {s : IS}, Always cfg p Q ps s →
    Q (runPrims cfg p ps s) := by
  intro ps
  induction ps with
  | nil => intro s h; exact h
  | cons q ps ih => intro s h; exact ih h.2

theorem Always.take {Q : IS → Prop} : ∀ {ps : List Prim} {s : IS}, Always cfg p Q ps s →
    ∀ k, Always cfg p Q (ps.take k) s := by
  intro ps
  induction ps with
  | nil => intro s h k; simpa using h
  | cons q ps ih =>
    intro s h k
    cases k with
    | zero => exact h.1
    | succ k => exact ⟨h.1, ih h.2 k⟩

theorem Always.prefix {Q : IS → Prop} {ps : List Prim} {s : IS} (h : Always cfg p Q ps s) (k : Nat) :
    Q (runPrims cfg p (ps.take k) s) := (h.take k).last

theorem Always.mono {Q R : IS → Prop} (hQR : ∀ s, Q s → R s) : ∀ {ps : List Prim} {s : IS},
    Always cfg p Q ps s → Always cfg p R ps s := by
  intro ps
  induction ps with
  | nil => intro s h; exact hQR _ h
  | cons q ps ih => intro s h; exact ⟨hQR _ h.1, ih h.2⟩

theorem always_stopped {Q : IS → Prop} (ps : List Prim) (s : IS) (h : s.rs.status ≠ .running) (hq : Q s) :
    Always cfg p Q ps s := by
  induction ps with
  | nil => exact hq
  | cons q ps ih => exact ⟨hq, by rw [applyPrim_stopped q s h]; exact ih⟩

/-! ## which primitive touches what -/
def Prim.touchesTS : Prim → Bool
  | .startTask _ | .removeActive _ | .unblockOne _ _ | .releaseOne _ _ => true
  | _ => false

def Prim.touchesFuts : Prim → Bool
  | .regFuture _ | .serialAppend _ | .popFuture _ _ | .clearDeque => true
  | _ => false

def Prim.touchesStatus : Prim → Bool
  | .startTask _ | .removeActive _ | .unblockOne _ _ | .releaseOne _ _ | .popFuture _ _
  | .raiseLabError _ => true
  | _ => false

theorem applyPrim_ts (q : Prim) (s : IS) (h : q.touchesTS = false) :
    (applyPrim cfg p q s).rs.ts = s.rs.ts := by
  unfold applyPrim
  split
  · cases q <;> simp [Prim.touchesTS] at h <;> simp only [stepPrim] <;> (repeat' split) <;> rfl
  · rfl

theorem applyPrim_futs (q : Prim) (s : IS) (h : q.touchesFuts = false) :
    (applyPrim cfg p q s).rs.futs = s.rs.futs := by
  unfold applyPrim
  split
  · cases q <;> simp [Prim.touchesFuts] at h <;> simp only [stepPrim] <;> (repeat' split) <;> rfl
  · rfl

theorem applyPrim_status (q : Prim) (s : IS) (h : q.touchesStatus = false) :
    (applyPrim cfg p q s).rs.status = s.rs.status := by
  unfold applyPrim
  split
  · cases q <;> simp [Prim.touchesStatus] at h <;> simp only [stepPrim] <;> (repeat' split) <;> rfl
  · rfl

def Prim.quiet (q : Prim) : Bool := !q.touchesTS && !q.touchesFuts && !q.touchesStatus

theorem quiet_parts {q : Prim} (h : q.quiet = true) :
    q.touchesTS = false ∧ q.touchesFuts = false ∧ q.touchesStatus = false := by
  simp only [Prim.quiet, Bool.and_eq_true, Bool.not_eq_true'] at h
  exact ⟨h.1.1, h.1.2, h.2⟩

/-- a predicate of the scheduler dictionaries, the tracked futures and the status only -/
def coreP (R : TS → List Tid → Status → Prop) (s : IS) : Prop := R s.rs.ts s.rs.futs s.rs.status

theorem coreP_quiet (R : TS → List Tid → Status → Prop) (q : Prim) (s : IS) (hq : q.quiet = true)
    (h : coreP R s) : coreP R (applyPrim cfg p q s) := by
  obtain ⟨h1, h2, h3⟩ := quiet_parts hq
  simp only [coreP, applyPrim_ts q s h1, applyPrim_futs q s h2, applyPrim_status q s h3]
  exact h

theorem always_quiet (R : TS → List Tid → Status → Prop) : ∀ (ps : List Prim) (s : IS),
    (∀ q ∈ ps, q.quiet = true) → coreP R s → Always cfg p (coreP R) ps s := by
  intro ps
  induction ps with
  | nil => intro s _ h; exact h
  | cons q ps ih =>
    intro s hq h
    exact ⟨h, ih _ (fun q' hq' => hq q' (List.mem_cons_of_mem _ hq'))
      (coreP_quiet R q s (hq q List.mem_cons_self) h)⟩

/-! ## the invariant -/
structure KR (ts : TS) (futs : List Tid) : Prop where
  ndF : futs.Nodup
  futAct : ∀ t ∈ futs, t ∈ ts.active
  ndA : ts.active.Nodup
  ndP : ts.pending.Nodup
  disj : ∀ t ∈ ts.pending, t ∉ ts.active
  sym1 : ∀ t, (t ∈ ts.active ∨ t ∈ ts.pending) → ∀ d ∈ ts.pendDependents t, t ∈ ts.pendDeps d
  sym2 : ∀ t, (t ∈ ts.active ∨ t ∈ ts.pending) → ∀ d ∈ ts.ddeps t, t ∈ ts.pendDependents d
  ndDd : ∀ t, (ts.ddeps t).Nodup
  ndPdt : ∀ d, (ts.pendDependents d).Nodup

/-- holds between any two primitives of any run, interrupted or not -/
def K : IS → Prop := coreP (fun ts futs st => KR ts futs ∧ st ≠ .raised .keyError)

/-- `K` and still running -/
def KRun : IS → Prop := coreP (fun ts futs st => KR ts futs ∧ st = .running)

theorem KRun.k {s : IS} (h : KRun s) : K s := ⟨h.1, by rw [h.2]; simp⟩
theorem KRun.run {s : IS} (h : KRun s) : s.rs.status = .running := h.2

theorem mem_filter_ne {l : List Nat} {x t : Nat} : x ∈ l.filter (· ≠ t) ↔ x ∈ l ∧ x ≠ t := by
  simp

/-! ### `start_task`, `future_to_task[...] = task`, `pop` -/
theorem step_startTask (s : IS) (t : Tid) (h : KRun s) (ht : t ∈ s.rs.ts.pending) :
    let s' := applyPrim cfg p (Prim.startTask t) s
    KRun s' ∧ t ∈ s'.rs.ts.active ∧ t ∉ s'.rs.futs ∧
      (∀ x ∈ s.rs.ts.pending, x ≠ t → x ∈ s'.rs.ts.pending) := by
  obtain ⟨hk, hrun⟩ := h
  have hrun' : s.rs.status = .running := hrun
  simp only [applyPrim_running _ _ hrun', stepPrim, startTask, setRemove, ht, if_true]
  have htf : t ∉ s.rs.futs := fun hf => hk.disj t ht (hk.futAct t hf)
  refine ⟨⟨?_, hrun⟩, by simp, htf, fun x hx hxt => by simp [hx, hxt]⟩
  exact {
    ndF := hk.ndF
    futAct := fun x hx => List.mem_append_left _ (hk.futAct x hx)
    ndA := by
      rw [List.nodup_append]
      refine ⟨hk.ndA, by simp, ?_⟩
      intro a ha b hb
      simp only [List.mem_singleton] at hb
      subst hb
      exact fun hab => hk.disj b ht (hab ▸ ha)
    ndP := hk.ndP.filter _
    disj := by
      intro x hx
      simp only [List.mem_filter, decide_eq_true_eq] at hx
      simp only [List.mem_append, List.mem_singleton, not_or]
      exact ⟨hk.disj x hx.1, hx.2⟩
    sym1 := by
      intro x hx
      apply hk.sym1
      simp only [List.mem_append, List.mem_singleton, List.mem_filter] at hx
      rcases hx with (hx | hx) | hx
      · exact Or.inl hx
      · exact Or.inr (hx ▸ ht)
      · exact Or.inr hx.1
    sym2 := by
      intro x hx
      apply hk.sym2
      simp only [List.mem_append, List.mem_singleton, List.mem_filter] at hx
      rcases hx with (hx | hx) | hx
      · exact Or.inl hx
      · exact Or.inr (hx ▸ ht)
      · exact Or.inr hx.1
    ndDd := hk.ndDd
    ndPdt := hk.ndPdt }

theorem step_regFuture (s : IS) (t : Tid) (h : KRun s) (ha : t ∈ s.rs.ts.active) (hf : t ∉ s.rs.futs) :
    KRun (applyPrim cfg p (Prim.regFuture t) s) := by
  obtain ⟨hk, hrun⟩ := h
  have hrun' : s.rs.status = .running := hrun
  simp only [applyPrim_running _ _ hrun', stepPrim]
  refine ⟨?_, hrun⟩
  exact { hk with
    ndF := by
      rw [List.nodup_append]
      exact ⟨hk.ndF, by simp, fun a ha' b hb => by
        simp only [List.mem_singleton] at hb; subst hb; exact fun hab => hf (hab ▸ ha')⟩
    futAct := by
      intro x hx
      simp only [List.mem_append, List.mem_singleton] at hx
      rcases hx with hx | hx
      · exact hk.futAct x hx
      · exact hx ▸ ha }

theorem step_serialAppend (s : IS) (t : Tid) (h : KRun s) (ha : t ∈ s.rs.ts.active) (hf : t ∉ s.rs.futs) :
    KRun (applyPrim cfg p (Prim.serialAppend t) s) := by
  have := step_regFuture (cfg := cfg) (p := p) s t h ha hf
  obtain ⟨hk, hrun⟩ := h
  have hrun' : s.rs.status = .running := hrun
  simp only [applyPrim_running _ _ hrun', stepPrim] at this ⊢
  exact this

theorem step_popFuture (s : IS) (t : Tid) (o : Option Outcome) (h : KRun s) (ht : t ∈ s.rs.futs) :
    let s' := applyPrim cfg p (Prim.popFuture t o) s
    KRun s' ∧ t ∈ s'.rs.ts.active ∧ t ∉ s'.rs.futs ∧ s'.rs.ts = s.rs.ts ∧
      s'.rs.futs = s.rs.futs.filter (· ≠ t) := by
  obtain ⟨hk, hrun⟩ := h
  have hrun' : s.rs.status = .running := hrun
  simp only [applyPrim_running _ _ hrun', stepPrim, ht, if_true]
  refine ⟨⟨?_, hrun⟩, hk.futAct t ht, by simp, trivial, trivial⟩
  exact { hk with
    ndF := hk.ndF.filter _
    futAct := fun x hx => hk.futAct x (List.mem_filter.mp hx).1 }

theorem step_raise (s : IS) (t : Tid) (h : K s) : K (applyPrim cfg p (Prim.raiseLabError t) s) := by
  unfold applyPrim
  split
  · exact ⟨h.1, by simp [stepPrim]⟩
  · exact h

theorem step_clearDeque (s : IS) (h : K s) : K (applyPrim cfg p Prim.clearDeque s) := by
  unfold applyPrim
  split
  · refine ⟨{ h.1 with ndF := List.nodup_nil, futAct := fun t ht => by simp [stepPrim] at ht }, h.2⟩
  · exact h

/-! ### `complete_task` -/
/-- in the middle of `complete_task(t)`: `t` has left the active set; `U` / `R` are the
    dependents / dependencies whose dictionaries still have to drop `t` -/
structure Mid (t : Tid) (U R : List Tid) (s : IS) : Prop where
  kr : KR s.rs.ts s.rs.futs
  run : s.rs.status = .running
  notA : t ∉ s.rs.ts.active
  notP : t ∉ s.rs.ts.pending
  ndU : U.Nodup
  inU : ∀ d ∈ U, t ∈ s.rs.ts.pendDeps d
  ndR : R.Nodup
  inR : ∀ d ∈ R, t ∈ s.rs.ts.pendDependents d

theorem Mid.krun {t : Tid} {U R : List Tid} {s : IS} (h : Mid t U R s) : KRun s := ⟨h.kr, h.run⟩

theorem step_removeActive (s : IS) (t : Tid) (h : KRun s) (ha : t ∈ s.rs.ts.active) (hf : t ∉ s.rs.futs) :
    let s' := applyPrim cfg p (Prim.removeActive t) s
    Mid t (s.rs.ts.pendDependents t) (s.rs.ts.ddeps t) s' ∧ s'.rs.futs = s.rs.futs ∧
      s'.rs.ts.pending = s.rs.ts.pending ∧ s'.rs.ts.pendDependents = s.rs.ts.pendDependents ∧
      s'.rs.ts.ddeps = s.rs.ts.ddeps := by
  obtain ⟨hk, hrun⟩ := h
  have hrun' : s.rs.status = .running := hrun
  simp only [applyPrim_running _ _ hrun', stepPrim, setRemove, ha, if_true]
  refine ⟨?_, trivial, trivial, trivial, trivial⟩
  exact {
    kr := { hk with
      futAct := by
        intro x hx
        simp only [List.mem_filter, decide_eq_true_eq]
        exact ⟨hk.futAct x hx, fun hxt => hf (hxt ▸ hx)⟩
      ndA := hk.ndA.filter _
      disj := fun x hx hxa => hk.disj x hx (List.mem_filter.mp hxa).1
      sym1 := by
        intro x hx
        apply hk.sym1
        rcases hx with hx | hx
        · exact Or.inl (List.mem_filter.mp hx).1
        · exact Or.inr hx
      sym2 := by
        intro x hx
        apply hk.sym2
        rcases hx with hx | hx
        · exact Or.inl (List.mem_filter.mp hx).1
        · exact Or.inr hx }
    run := hrun
    notA := by simp
    notP := fun hp => hk.disj t hp ha
    ndU := hk.ndPdt t
    inU := hk.sym1 t (Or.inl ha)
    ndR := hk.ndDd t
    inR := hk.sym2 t (Or.inl ha) }

theorem step_unblockOne (s : IS) (t d : Tid) (U R : List Tid) (h : Mid t (d :: U) R s) :
    let s' := applyPrim cfg p (Prim.unblockOne t d) s
    Mid t U R s' ∧ s'.rs.futs = s.rs.futs ∧ s'.rs.ts.pending = s.rs.ts.pending := by
  have hd : t ∈ s.rs.ts.pendDeps d := h.inU d List.mem_cons_self
  have hndU := List.nodup_cons.mp h.ndU
  simp only [applyPrim_running _ _ h.run, stepPrim, setRemove, hd, if_true]
  refine ⟨?_, trivial, trivial⟩
  have hk := h.kr
  exact {
    kr := { hk with
      sym1 := by
        intro x hx d' hd'
        have hxt : x ≠ t := by
          rintro rfl
          rcases hx with hx | hx
          · exact h.notA hx
          · exact h.notP hx
        have := hk.sym1 x hx d' hd'
        simp only [upd]
        split
        · next heq => subst heq; simp [this, hxt]
        · exact this }
    run := h.run
    notA := h.notA
    notP := h.notP
    ndU := hndU.2
    inU := by
      intro d' hd'
      have hne : d' ≠ d := fun heq => hndU.1 (heq ▸ hd')
      simp only [upd, hne, if_false]
      exact h.inU d' (List.mem_cons_of_mem _ hd')
    ndR := h.ndR
    inR := h.inR }

theorem step_releaseOne (s : IS) (t d : Tid) (U R : List Tid) (h : Mid t U (d :: R) s) :
    let s' := applyPrim cfg p (Prim.releaseOne t d) s
    Mid t U R s' ∧ s'.rs.futs = s.rs.futs ∧ s'.rs.ts.pending = s.rs.ts.pending := by
  have hd : t ∈ s.rs.ts.pendDependents d := h.inR d List.mem_cons_self
  have hndR := List.nodup_cons.mp h.ndR
  simp only [applyPrim_running _ _ h.run, stepPrim, setRemove, hd, if_true]
  refine ⟨?_, trivial, trivial⟩
  have hk := h.kr
  have hxt : ∀ x, (x ∈ s.rs.ts.active ∨ x ∈ s.rs.ts.pending) → x ≠ t := by
    rintro x hx rfl
    rcases hx with hx | hx
    · exact h.notA hx
    · exact h.notP hx
  exact {
    kr := { hk with
      sym1 := by
        intro x hx d' hd'
        apply hk.sym1 x hx d'
        simp only [upd] at hd'
        split at hd'
        · next heq => subst heq; exact (List.mem_filter.mp hd').1
        · exact hd'
      sym2 := by
        intro x hx d' hd'
        have := hk.sym2 x hx d' hd'
        simp only [upd]
        split
        · next heq => subst heq; simp [this, hxt x hx]
        · exact this
      ndPdt := by
        intro d'
        simp only [upd]
        split
        · exact (hk.ndPdt d).filter _
        · exact hk.ndPdt d' }
    run := h.run
    notA := h.notA
    notP := h.notP
    ndU := h.ndU
    inU := h.inU
    ndR := hndR.2
    inR := by
      intro d' hd'
      have hne : d' ≠ d := fun heq => hndR.1 (heq ▸ hd')
      simp only [upd, hne, if_false]
      exact h.inR d' (List.mem_cons_of_mem _ hd') }

/-- what a block leaves alone, besides keeping `KRun` -/
def Frame (s s' : IS) : Prop := s'.rs.futs = s.rs.futs ∧ s'.rs.ts.pending = s.rs.ts.pending

theorem always_unblock (t : Tid) : ∀ (U : List Tid) (R : List Tid) (s : IS), Mid t U R s →
    Always cfg p K (U.map (Prim.unblockOne t)) s ∧
    Mid t [] R (runPrims cfg p (U.map (Prim.unblockOne t)) s) ∧
    Frame s (runPrims cfg p (U.map (Prim.unblockOne t)) s) := by
  intro U
  induction U with
  | nil => intro R s h; exact ⟨h.krun.k, h, rfl, rfl⟩
  | cons d U ih =>
    intro R s h
    obtain ⟨h1, h2, h3⟩ := step_unblockOne (cfg := cfg) (p := p) s t d U R h
    obtain ⟨i1, i2, i3, i4⟩ := ih R _ h1
    exact ⟨⟨h.krun.k, i1⟩, i2, i3.trans h2, i4.trans h3⟩

theorem always_release (t : Tid) : ∀ (R : List Tid) (s : IS), Mid t [] R s →
    Always cfg p K (R.map (Prim.releaseOne t)) s ∧
    KRun (runPrims cfg p (R.map (Prim.releaseOne t)) s) ∧
    Frame s (runPrims cfg p (R.map (Prim.releaseOne t)) s) := by
  intro R
  induction R with
  | nil => intro s h; exact ⟨h.krun.k, h.krun, rfl, rfl⟩
  | cons d R ih =>
    intro s h
    obtain ⟨h1, h2, h3⟩ := step_releaseOne (cfg := cfg) (p := p) s t d [] R h
    obtain ⟨i1, i2, i3, i4⟩ := ih _ h1
    exact ⟨⟨h.krun.k, i1⟩, i2, i3.trans h2, i4.trans h3⟩

theorem always_complete (s : IS) (t : Tid) (h : KRun s) (ha : t ∈ s.rs.ts.active) (hf : t ∉ s.rs.futs) :
    Always cfg p K (completePrims s.rs.ts t) s ∧ KRun (runPrims cfg p (completePrims s.rs.ts t) s) ∧
    Frame s (runPrims cfg p (completePrims s.rs.ts t) s) := by
  obtain ⟨h1, h2, h3, h4, h5⟩ := step_removeActive (cfg := cfg) (p := p) s t h ha hf
  obtain ⟨u1, u2, u3, u4⟩ := always_unblock (cfg := cfg) (p := p) t _ _ _ h1
  obtain ⟨r1, r2, r3, r4⟩ := always_release (cfg := cfg) (p := p) t _ _ u2
  have e : completePrims s.rs.ts t = Prim.removeActive t ::
      ((s.rs.ts.pendDependents t).map (Prim.unblockOne t) ++ (s.rs.ts.ddeps t).map (Prim.releaseOne t)) := by
    simp [completePrims]
  rw [e, runPrims_cons, runPrims_append]
  exact ⟨⟨h.k, (always_append _ _ _).mpr ⟨u1, r1⟩⟩, r2, r3.trans (u3.trans h2), r4.trans (u4.trans h3)⟩

/-! ### blocks -/
theorem quiet_run : ∀ (ps : List Prim) (s : IS), (∀ q ∈ ps, q.quiet = true) →
    (runPrims cfg p ps s).rs.ts = s.rs.ts ∧ (runPrims cfg p ps s).rs.futs = s.rs.futs ∧
    (runPrims cfg p ps s).rs.status = s.rs.status := by
  intro ps
  induction ps with
  | nil => intro s _; exact ⟨rfl, rfl, rfl⟩
  | cons q ps ih =>
    intro s hq
    obtain ⟨h1, h2, h3⟩ := quiet_parts (hq q List.mem_cons_self)
    obtain ⟨i1, i2, i3⟩ := ih (applyPrim cfg p q s) (fun q' hq' => hq q' (List.mem_cons_of_mem _ hq'))
    rw [runPrims_cons]
    exact ⟨i1.trans (applyPrim_ts q s h1), i2.trans (applyPrim_futs q s h2), i3.trans (applyPrim_status q s h3)⟩

theorem K_of_core {s s' : IS} (h : K s) (h1 : s'.rs.ts = s.rs.ts) (h2 : s'.rs.futs = s.rs.futs)
    (h3 : s'.rs.status = s.rs.status) : K s' := by
  simp only [K, coreP, h1, h2, h3]; exact h

theorem KRun_of_core {s s' : IS} (h : KRun s) (h1 : s'.rs.ts = s.rs.ts) (h2 : s'.rs.futs = s.rs.futs)
    (h3 : s'.rs.status = s.rs.status) : KRun s' := by
  simp only [KRun, coreP, h1, h2, h3]; exact h

theorem always_K_quiet (ps : List Prim) (s : IS) (hq : ∀ q ∈ ps, q.quiet = true) (h : K s) :
    Always cfg p K ps s := always_quiet _ ps s hq h

theorem removePrims_quiet (rem : List Tid) : ∀ q ∈ removePrims rem, q.quiet = true := by
  intro q hq
  simp only [removePrims, List.mem_append, List.mem_map, List.mem_singleton] at hq
  rcases hq with ⟨d, _, rfl⟩ | rfl <;> rfl

theorem always_yield (req : List Tid) (s : IS) (t : Tid) (o : Outcome) (h : KRun s)
    (ha : t ∈ s.rs.ts.active) (hf : t ∉ s.rs.futs) :
    Always cfg p K (yieldPrims cfg req s.rs.ts t o) s ∧
    K (runPrims cfg p (yieldPrims cfg req s.rs.ts t o) s) ∧
    Frame s (runPrims cfg p (yieldPrims cfg req s.rs.ts t o) s) := by
  -- the tail after `complete_task`
  have tail : ∀ (s1 : IS) (tl : List Prim), KRun s1 →
      (tl = removePrims (remOf s.rs.ts t) ∨ tl = [Prim.raiseLabError t]) →
      Always cfg p K tl s1 ∧ K (runPrims cfg p tl s1) ∧ Frame s1 (runPrims cfg p tl s1) := by
    intro s1 tl h1 htl
    rcases htl with rfl | rfl
    · have hq := removePrims_quiet (remOf s.rs.ts t)
      obtain ⟨q1, q2, q3⟩ := quiet_run (cfg := cfg) (p := p) _ s1 hq
      exact ⟨always_K_quiet _ s1 hq h1.k, K_of_core h1.k q1 q2 q3, q2, by rw [q1]⟩
    · refine ⟨⟨h1.k, step_raise s1 t h1.k⟩, step_raise s1 t h1.k, ?_, ?_⟩
      · exact applyPrim_futs _ _ rfl
      · show (applyPrim cfg p _ s1).rs.ts.pending = _
        rw [applyPrim_ts _ _ rfl]
  -- a quiet head, then `complete_task`, then the tail
  have body : ∀ (hd tl : List Prim), (∀ q ∈ hd, q.quiet = true) →
      (tl = removePrims (remOf s.rs.ts t) ∨ tl = [Prim.raiseLabError t]) →
      Always cfg p K (hd ++ completePrims s.rs.ts t ++ tl) s ∧
      K (runPrims cfg p (hd ++ completePrims s.rs.ts t ++ tl) s) ∧
      Frame s (runPrims cfg p (hd ++ completePrims s.rs.ts t ++ tl) s) := by
    intro hd tl hq htl
    obtain ⟨q1, q2, q3⟩ := quiet_run (cfg := cfg) (p := p) hd s hq
    have h1 : KRun (runPrims cfg p hd s) := KRun_of_core h q1 q2 q3
    have hc := always_complete (cfg := cfg) (p := p) (runPrims cfg p hd s) t h1 (by rw [q1]; exact ha)
      (by rw [q2]; exact hf)
    rw [q1] at hc
    obtain ⟨c1, c2, c3, c4⟩ := hc
    obtain ⟨t1, t2, t3, t4⟩ := tail _ tl c2 htl
    rw [List.append_assoc, always_append, always_append, runPrims_append, runPrims_append]
    refine ⟨⟨always_K_quiet hd s hq h.k, c1, t1⟩, t2, ?_, ?_⟩
    · exact t3.trans (c3.trans q2)
    · exact t4.trans (c4.trans (by rw [q1]))
  cases o with
  | ok v =>
    have := body ([Prim.storeResult t v] ++ (if t ∈ req then [Prim.capture t v] else []) ++ [Prim.markInstances t])
      (removePrims (remOf s.rs.ts t))
      (by
        intro q hq
        simp only [List.mem_append, List.mem_singleton] at hq
        rcases hq with (rfl | hq) | rfl
        · rfl
        · split at hq
          · simp only [List.mem_singleton] at hq; subst hq; rfl
          · simp at hq
        · rfl) (Or.inl rfl)
    simpa only [yieldPrims, List.append_assoc] using this
  | exc =>
    have := body [] (if cfg.contOnFail then removePrims (remOf s.rs.ts t) else [Prim.raiseLabError t])
      (by simp) (by split <;> simp)
    simpa only [yieldPrims, List.nil_append] using this
  | died =>
    have := body [] (if cfg.contOnFail then removePrims (remOf s.rs.ts t) else [Prim.raiseLabError t])
      (by simp) (by split <;> simp)
    simpa only [yieldPrims, List.nil_append] using this

theorem always_doneOne (req : List Tid) (s : IS) (t : Tid) (h : KRun s) (ht : t ∈ s.rs.futs) :
    Always cfg p K (doneOnePrims cfg req s t) s ∧ K (runPrims cfg p (doneOnePrims cfg req s t) s) ∧
    (∀ x ∈ s.rs.futs, x ≠ t → x ∈ (runPrims cfg p (doneOnePrims cfg req s t) s).rs.futs) ∧
    (runPrims cfg p (doneOnePrims cfg req s t) s).rs.ts.pending = s.rs.ts.pending := by
  simp only [doneOnePrims]
  split
  · obtain ⟨p1, _, _, p4, p5⟩ := step_popFuture (cfg := cfg) (p := p) s t none h ht
    refine ⟨⟨h.k, p1.k⟩, p1.k, ?_, ?_⟩
    · intro x hx hxt
      show x ∈ (applyPrim cfg p _ s).rs.futs
      rw [p5]; simp [hx, hxt]
    · show (applyPrim cfg p _ s).rs.ts.pending = _
      rw [p4]
  · split
    · next o _ =>
      obtain ⟨p1, p2, p3, p4, p5⟩ := step_popFuture (cfg := cfg) (p := p) s t (some o) h ht
      have hy := always_yield (cfg := cfg) (p := p) req _ t o p1 p2 p3
      rw [p4] at hy
      obtain ⟨y1, y2, y3, y4⟩ := hy
      refine ⟨⟨h.k, y1⟩, y2, ?_, ?_⟩
      · intro x hx hxt
        rw [runPrims_cons, y3, p5]; simp [hx, hxt]
      · rw [runPrims_cons, y4, p4]
    · exact ⟨h.k, h.k, fun x hx _ => hx, rfl⟩

theorem always_done (req : List Tid) : ∀ (cands : List Tid) (s : IS), K s → cands.Nodup →
    (∀ t ∈ cands, t ∈ s.rs.futs) →
    Always cfg p K (donePrims cfg p req cands s) s ∧
    (runPrims cfg p (donePrims cfg p req cands s) s).rs.ts.pending = s.rs.ts.pending := by
  intro cands
  induction cands with
  | nil => intro s h _ _; exact ⟨h, rfl⟩
  | cons t rest ih =>
    intro s h hnd hmem
    have hnd' := List.nodup_cons.mp hnd
    by_cases hrun : s.rs.status = .running
    · rw [donePrims_cons_running req t rest s hrun, always_append, runPrims_append]
      obtain ⟨d1, d2, d3, d4⟩ := always_doneOne (cfg := cfg) (p := p) req s t ⟨h.1, hrun⟩
        (hmem t List.mem_cons_self)
      obtain ⟨i1, i2⟩ := ih _ d2 hnd'.2 (fun x hx => d3 x (hmem x (List.mem_cons_of_mem _ hx))
        (fun hxt => hnd'.1 (hxt ▸ hx)))
      exact ⟨⟨d1, i1⟩, i2.trans d4⟩
    · rw [donePrims_stopped req _ s hrun]
      exact ⟨h, rfl⟩

theorem startPrims_quiet (js : List Job) : ∀ q ∈ startPrims js, q.quiet = true := by
  intro q hq
  simp only [startPrims, List.mem_flatMap, List.mem_cons, List.not_mem_nil, or_false] at hq
  obtain ⟨j, _, rfl | rfl | rfl⟩ := hq <;> rfl

/-- the serial runner's deque mirrors `futs` -/
def KS (s : IS) : Prop := (s.rs.queued.map Job.tid).Nodup ∧ ∀ j ∈ s.rs.queued, j.tid ∈ s.rs.futs

theorem always_wait_process (req : List Tid) (c : Choice) (s : IS) (h : K s) (hb : cfg.backend ≠ .serial) :
    Always cfg p K (waitPrims cfg p req c s) s ∧
    (runPrims cfg p (waitPrims cfg p req c s) s).rs.ts.pending = s.rs.ts.pending := by
  simp only [waitPrims, hb, if_false]
  have hq : ∀ q ∈ Prim.consumeResults c :: (deadPrims (runPrims cfg p [Prim.consumeResults c] s) ++
      startProcessesPrims cfg (runPrims cfg p (deadPrims (runPrims cfg p [Prim.consumeResults c] s))
        (runPrims cfg p [Prim.consumeResults c] s))), q.quiet = true := by
    intro q hq
    simp only [List.mem_cons, List.mem_append, deadPrims, List.mem_map] at hq
    rcases hq with rfl | ⟨t, _, rfl⟩ | hq
    · rfl
    · rfl
    · exact startPrims_quiet _ q hq
  rw [always_append, runPrims_append]
  rw [List.cons_append] at *
  obtain ⟨q1, q2, q3⟩ := quiet_run (cfg := cfg) (p := p) _ s hq
  have hk2 := K_of_core h q1 q2 q3
  obtain ⟨d1, d2⟩ := always_done (cfg := cfg) (p := p) req _ _ hk2 hk2.1.ndF (fun t ht => ht)
  refine ⟨⟨always_K_quiet (cfg := cfg) (p := p) _ s hq h, ?_⟩, ?_⟩
  · simp only [runPrims_append, runPrims_cons, runPrims_nil] at d1 ⊢
    exact d1
  · simp only [runPrims_append, runPrims_cons, runPrims_nil] at d2 q1 ⊢
    exact d2.trans (by rw [q1])

/-! ### the serial runner -/
def Prim.touchesQueued : Prim → Bool
  | .enqueue _ | .unregPending _ | .serialAppend _ | .popDeque | .cancelOne _ | .clearDeque => true
  | _ => false

theorem applyPrim_queued (q : Prim) (s : IS) (h : q.touchesQueued = false) :
    (applyPrim cfg p q s).rs.queued = s.rs.queued := by
  unfold applyPrim
  split
  · cases q <;> simp [Prim.touchesQueued] at h <;> simp only [stepPrim] <;> (repeat' split) <;> rfl
  · rfl

theorem always_and {A B : IS → Prop} : ∀ (ps : List Prim) (s : IS),
    Always cfg p (fun s => A s ∧ B s) ps s ↔ Always cfg p A ps s ∧ Always cfg p B ps s := by
  intro ps
  induction ps with
  | nil => intro s; exact Iff.rfl
  | cons q ps ih =>
    intro s
    simp only [Always, ih]
    exact ⟨fun h => ⟨⟨h.1.1, h.2.1⟩, h.1.2, h.2.2⟩, fun h => ⟨⟨h.1.1, h.2.1⟩, h.1.2, h.2.2⟩⟩

theorem KS_keep : ∀ (ps : List Prim) (s : IS),
    (∀ q ∈ ps, q.touchesQueued = false ∧ q.touchesFuts = false) → KS s →
    Always cfg p KS ps s ∧ KS (runPrims cfg p ps s) := by
  intro ps
  induction ps with
  | nil => intro s _ h; exact ⟨h, h⟩
  | cons q ps ih =>
    intro s hq h
    obtain ⟨h1, h2⟩ := hq q List.mem_cons_self
    have h' : KS (applyPrim cfg p q s) := by
      simp only [KS, applyPrim_queued q s h1, applyPrim_futs q s h2]; exact h
    obtain ⟨i1, i2⟩ := ih _ (fun q' hq' => hq q' (List.mem_cons_of_mem _ hq')) h'
    exact ⟨⟨h, i1⟩, i2⟩

theorem yieldPrims_untouched (req : List Tid) (ts : TS) (t : Tid) (o : Outcome) :
    ∀ q ∈ yieldPrims cfg req ts t o, q.touchesQueued = false ∧ q.touchesFuts = false := by
  intro q hq
  have hc : ∀ q ∈ completePrims ts t, q.touchesQueued = false ∧ q.touchesFuts = false := by
    intro q hq
    simp only [completePrims, List.mem_append, List.mem_singleton, List.mem_map] at hq
    rcases hq with (rfl | ⟨d, _, rfl⟩) | ⟨d, _, rfl⟩ <;> exact ⟨rfl, rfl⟩
  have hr : ∀ rem, ∀ q ∈ removePrims rem, q.touchesQueued = false ∧ q.touchesFuts = false := by
    intro rem q hq
    simp only [removePrims, List.mem_append, List.mem_map, List.mem_singleton] at hq
    rcases hq with ⟨d, _, rfl⟩ | rfl <;> exact ⟨rfl, rfl⟩
  cases o with
  | ok v =>
    simp only [yieldPrims, List.mem_append, List.mem_singleton] at hq
    rcases hq with (((rfl | hq) | rfl) | hq) | hq
    · exact ⟨rfl, rfl⟩
    · split at hq
      · simp only [List.mem_singleton] at hq; subst hq; exact ⟨rfl, rfl⟩
      · simp at hq
    · exact ⟨rfl, rfl⟩
    · exact hc q hq
    · exact hr _ q hq
  | exc =>
    simp only [yieldPrims, List.mem_append] at hq
    rcases hq with hq | hq
    · exact hc q hq
    · split at hq
      · exact hr _ q hq
      · simp only [List.mem_singleton] at hq; subst hq; exact ⟨rfl, rfl⟩
  | died =>
    simp only [yieldPrims, List.mem_append] at hq
    rcases hq with hq | hq
    · exact hc q hq
    · split at hq
      · exact hr _ q hq
      · simp only [List.mem_singleton] at hq; subst hq; exact ⟨rfl, rfl⟩

theorem always_wait_serial (req : List Tid) (c : Choice) (s : IS) (h : K s) (hks : KS s)
    (hb : cfg.backend = .serial) :
    Always cfg p (fun s => K s ∧ KS s) (waitPrims cfg p req c s) s ∧
    (runPrims cfg p (waitPrims cfg p req c s) s).rs.ts.pending = s.rs.ts.pending := by
  by_cases hrun : ¬ s.rs.status = .running
  · exact ⟨always_stopped _ s hrun ⟨h, hks⟩, by rw [runPrims_stopped _ _ hrun]⟩
  have hrun : s.rs.status = .running := Decidable.not_not.mp hrun
  simp only [waitPrims, hb, if_true]
  cases hq : s.rs.queued with
  | nil =>
    have e : applyPrim cfg p Prim.popDeque s =
        { s with rs := { s.rs with trace := s.rs.trace ++ [Ev.waitEnter (s.rs.queued.map Job.tid) []] } } := by
      simp only [applyPrim_running _ _ hrun, stepPrim, hq]
    simp only [Always, runPrims_cons, runPrims_nil, e]
    exact ⟨⟨⟨h, hks⟩, h, hks⟩, trivial⟩
  | cons j rest =>
    simp only
    have hjf : j.tid ∈ s.rs.futs := hks.2 j (by rw [hq]; exact List.mem_cons_self)
    have hnd : j.tid ∉ rest.map Job.tid ∧ (rest.map Job.tid).Nodup := by
      have := hks.1; rw [hq] at this; exact List.nodup_cons.mp this
    -- the first four primitives
    obtain ⟨s3, hs3⟩ : ∃ s3, s3 = runPrims cfg p [Prim.popDeque, Prim.serialRun, Prim.serialSaveBegin, Prim.serialSaveEnd] s := ⟨_, rfl⟩
    have q3 : ∀ q ∈ [Prim.popDeque, Prim.serialRun, Prim.serialSaveBegin, Prim.serialSaveEnd], q.quiet = true := by
      intro q hq'; simp only [List.mem_cons, List.not_mem_nil, or_false] at hq'
      rcases hq' with rfl | rfl | rfl | rfl <;> rfl
    obtain ⟨c1, c2, c3⟩ := quiet_run (cfg := cfg) (p := p) _ s q3
    rw [← hs3] at c1 c2 c3
    have k3 : KRun s3 := KRun_of_core ⟨h.1, hrun⟩ c1 c2 c3
    have hq3 : s3.rs.queued = rest := by
      rw [hs3]
      simp only [runPrims_cons, runPrims_nil]
      rw [applyPrim_queued _ _ rfl, applyPrim_queued _ _ rfl, applyPrim_queued _ _ rfl]
      simp only [applyPrim_running _ _ hrun, stepPrim, hq]
    -- KS along the first four
    have ks_pre : Always cfg p KS [Prim.popDeque, Prim.serialRun, Prim.serialSaveBegin, Prim.serialSaveEnd] s := by
      have e1 : KS (applyPrim cfg p Prim.popDeque s) := by
        have eq1 : (applyPrim cfg p Prim.popDeque s).rs.queued = rest := by
          simp only [applyPrim_running _ _ hrun, stepPrim, hq]
        have ef1 : (applyPrim cfg p Prim.popDeque s).rs.futs = s.rs.futs := applyPrim_futs _ _ rfl
        refine ⟨by rw [eq1]; exact hnd.2, ?_⟩
        rw [eq1, ef1]
        intro j' hj'
        exact hks.2 j' (by rw [hq]; exact List.mem_cons_of_mem _ hj')
      have := KS_keep (cfg := cfg) (p := p) [Prim.serialRun, Prim.serialSaveBegin, Prim.serialSaveEnd] _
        (by intro q hq'; simp only [List.mem_cons, List.not_mem_nil, or_false] at hq'
            rcases hq' with rfl | rfl | rfl <;> exact ⟨rfl, rfl⟩) e1
      exact ⟨hks, this.1⟩
    -- the pop
    generalize ho : runOutcome p s.rs.ts s.rs.store { j with snap := some s.rs.results } = o
    obtain ⟨p1, p2, p3, p4, p5⟩ := step_popFuture (cfg := cfg) (p := p) s3 j.tid (some o) k3
      (by rw [c2]; exact hjf)
    have ks4 : KS (applyPrim cfg p (Prim.popFuture j.tid (some o)) s3) := by
      rw [KS, applyPrim_queued _ _ rfl, p5, hq3]
      refine ⟨hnd.2, ?_⟩
      intro j' hj'
      simp only [List.mem_filter, decide_eq_true_eq]
      rw [c2]
      exact ⟨hks.2 j' (by rw [hq]; exact List.mem_cons_of_mem _ hj'),
        fun he => hnd.1 (he ▸ List.mem_map.mpr ⟨j', hj', rfl⟩)⟩
    have hy := always_yield (cfg := cfg) (p := p) req _ j.tid o p1 p2 p3
    rw [p4, c1] at hy
    obtain ⟨y1, y2, y3, y4⟩ := hy
    have hky := KS_keep (cfg := cfg) (p := p) _ _ (yieldPrims_untouched (cfg := cfg) req s.rs.ts j.tid o) ks4
    have hsplit : [Prim.popDeque, Prim.serialRun, Prim.serialSaveBegin, Prim.serialSaveEnd] ++ [Prim.popFuture j.tid (some o)]
        ++ yieldPrims cfg req s.rs.ts j.tid o =
        [Prim.popDeque, Prim.serialRun, Prim.serialSaveBegin, Prim.serialSaveEnd] ++
          (Prim.popFuture j.tid (some o) :: yieldPrims cfg req s.rs.ts j.tid o) := by simp
    rw [hsplit, always_append, runPrims_append, ← hs3, always_and, always_and]
    refine ⟨⟨⟨always_K_quiet _ s q3 h, ks_pre⟩, ⟨k3.k, y1⟩, ⟨?_, hky.1⟩⟩, ?_⟩
    · have := (ks_pre.last); rw [← hs3] at this; exact this
    · rw [runPrims_cons, y4, p4, c1]

end Lt
