import LabtechModel.Proofs.InvRef
/-!
# The load-or-execute decision is the one taken at plan time (C03), whatever fails (no hypothesis)

`FlagInv`: in every reachable state of every run (any problem, configuration, cache pre-state, fuel and
schedule; failures and deaths allowed; no acyclicity needed)
* every `load t` record belongs to a task cached beforehand (`useCache cfg p store0 t = true`), every
  `exec t …` record to one that was not;
* every worker record belongs to a submitted task; every delivered task whose worker did not die has
  a worker record;
* while the coordinator is running: the store entry of a task that has not been run yet is still the
  one of the cache pre-state (only a task's own execution writes its entry), and the `use_cache`
  flag computed at submit time equals the one computed at plan time.
-/
namespace Lt

/-- does the worker of `t` die without reporting: never for the serial runner (no worker process) -/
def diesIn (cfg : Config) (p : Problem) (t : Tid) : Bool :=
  if cfg.backend = .serial then false else p.dies t

theorem diesIn_serial (cfg : Config) (p : Problem) (t : Tid) (hb : cfg.backend = .serial) :
    diesIn cfg p t = false := by simp [diesIn, hb]

theorem diesIn_process (cfg : Config) (p : Problem) (t : Tid) (hb : cfg.backend ≠ .serial) :
    diesIn cfg p t = p.dies t := by simp [diesIn, hb]

/-- the trace part: holds in every reachable state -/
structure FlagTr (cfg : Config) (p : Problem) (store0 : Store) (extra : List Tid) (rs : RS) : Prop where
  loadOK : ∀ t, Ev.load t ∈ rs.trace → useCache cfg p store0 t = true
  execOK : ∀ t seen, Ev.exec t seen ∈ rs.trace → useCache cfg p store0 t = false
  subOK : ∀ t uc, Ev.submit t uc ∈ rs.trace → uc = useCache cfg p store0 t
  ranSubm : ∀ t ∈ ranOf rs.trace, t ∈ submittedOf rs.trace
  ranAll : ∀ t, (t ∈ yielded rs ∨ t ∈ extra) → diesIn cfg p t = false → t ∈ ranOf rs.trace

/-- the state part: holds while the coordinator is running -/
structure FlagSt (cfg : Config) (p : Problem) (store0 : Store) (extra : List Tid) (rs : RS) : Prop where
  frame : ∀ t, t ∉ yielded rs → t ∉ extra → lookup t rs.store = lookup t store0
  flag : ∀ j ∈ rs.queued ++ rs.running, j.useCache = useCache cfg p store0 j.tid

def FlagInv (cfg : Config) (p : Problem) (store0 : Store) (extra : List Tid) (rs : RS) : Prop :=
  FlagTr cfg p store0 extra rs ∧ (rs.status = .running → FlagSt cfg p store0 extra rs)

theorem submittedOf_mono (tr l : List Ev) (t : Tid) (h : t ∈ submittedOf tr) : t ∈ submittedOf (tr ++ l) := by
  simp only [submittedOf, List.filterMap_append, List.mem_append]
  exact Or.inl h

theorem quiet_no_submit {l : List Ev} (hq : Quiet l) (t : Tid) (uc : Bool) (h : Ev.submit t uc ∈ l) : False := by
  have := (hq _ h).2
  simp [evSubmit] at this

/-- extending the trace by events that are no worker records -/
theorem FlagTr.noran {cfg : Config} {p : Problem} {store0 : Store} {extra extra' : List Tid} {rs rs' : RS}
    (h : FlagTr cfg p store0 extra rs) (l : List Ev) (htr : rs'.trace = rs.trace ++ l)
    (hnr : ∀ e ∈ l, evRan e = none)
    (hsm : ∀ t uc, Ev.submit t uc ∈ l → uc = useCache cfg p store0 t)
    (hsub : ∀ t, (t ∈ yielded rs' ∨ t ∈ extra') → (t ∈ yielded rs ∨ t ∈ extra)) :
    FlagTr cfg p store0 extra' rs' where
  subOK := by
    intro t uc ht
    rw [htr] at ht
    rcases List.mem_append.mp ht with h1 | h1
    · exact h.subOK t uc h1
    · exact hsm t uc h1
  loadOK := by
    intro t ht
    rw [htr] at ht
    rcases List.mem_append.mp ht with h1 | h1
    · exact h.loadOK t h1
    · have := hnr _ h1; simp [evRan] at this
  execOK := by
    intro t seen ht
    rw [htr] at ht
    rcases List.mem_append.mp ht with h1 | h1
    · exact h.execOK t seen h1
    · have := hnr _ h1; simp [evRan] at this
  ranSubm := by
    intro t ht
    rw [htr, ranOf_append_noran _ _ hnr] at ht
    rw [htr]
    exact submittedOf_mono _ _ _ (h.ranSubm t ht)
  ranAll := by
    intro t ht hd
    rw [htr, ranOf_append_noran _ _ hnr]
    exact h.ranAll t (hsub t ht) hd

/-! ## `_start_processes`, submit phase -/
theorem startProcesses_flag {cfg : Config} {p : Problem} {store0 : Store} {extra : List Tid} {rs : RS}
    (h : FlagInv cfg p store0 extra rs) : FlagInv cfg p store0 extra (startProcesses cfg rs) := by
  obtain ⟨go, stay, happ, hsp⟩ := startProcesses_shape cfg rs
  rw [hsp]
  have hq := quiet_starts (go.map (snapF cfg rs))
  refine ⟨h.1.noran _ rfl (noran_starts _) (fun t uc ht => (quiet_no_submit hq t uc ht).elim) ?_, fun hrun => ?_⟩
  · intro t ht
    simp only [yielded] at ht ⊢
    rw [yieldedOf_append_quiet _ _ hq] at ht
    exact ht
  · have hs := h.2 hrun
    refine ⟨?_, ?_⟩
    · intro t ht hte
      simp only [yielded] at ht
      rw [yieldedOf_append_quiet _ _ hq] at ht
      exact hs.frame t ht hte
    · intro j' hj'
      have hj'' : j' ∈ stay ∨ j' ∈ rs.running ∨ j' ∈ go.map (snapF cfg rs) := by
        simpa [List.mem_append] using hj'
      rcases hj'' with h1 | h1 | h1
      · exact hs.flag j' (by rw [← happ]; simp [h1])
      · exact hs.flag j' (by simp [h1])
      · obtain ⟨j, hj, rfl⟩ := List.mem_map.mp h1
        have := hs.flag j (by rw [← happ]; simp [hj])
        simp only [snapF]
        split <;> exact this

theorem submitStep_flag {cfg : Config} {p : Problem} {P : TS} {store0 : Store} {rs : RS} {t : Tid}
    (hc : Core p P rs) (hrun0 : rs.status = .running) (hf : FlagInv cfg p store0 [] rs)
    (ht : t ∈ rs.ts.pending) :
    FlagInv cfg p store0 [] (submitTask cfg p { rs with ts := startedTS rs.ts t } t) := by
  have htY : t ∉ yielded rs := hc.ts.disjPY t ht
  have hY : yieldedOf (rs.trace ++ [Ev.submit t (useCache cfg p rs.store t)]) = yieldedOf rs.trace := by
    simp [yieldedOf, evYield]
  have hbase : FlagInv cfg p store0 []
      (submitState rs t (newJob cfg p rs t) (useCache cfg p rs.store t)) := by
    refine ⟨hf.1.noran [Ev.submit t (useCache cfg p rs.store t)] rfl ?_ ?_ ?_, fun hrun => ?_⟩
    · intro e he; simp only [List.mem_singleton] at he; subst he; rfl
    · intro t' uc' he
      simp only [List.mem_singleton, Ev.submit.injEq] at he
      obtain ⟨h1, h2⟩ := he
      subst h1; subst h2
      exact useCache_congr cfg p _ _ t' ((hf.2 hrun0).frame t' htY (by simp))
    · intro x hx
      simp only [yielded] at hx ⊢
      rw [hY] at hx
      exact hx
    · have hs := hf.2 hrun
      refine ⟨?_, ?_⟩
      · intro x hx hxe
        simp only [yielded] at hx
        rw [hY] at hx
        exact hs.frame x hx hxe
      · intro j' hj'
        have hj'' : j' ∈ rs.queued ∨ j' = newJob cfg p rs t ∨ j' ∈ rs.running := by
          simpa [submitState, List.mem_append] using hj'
        rcases hj'' with h1 | h1 | h1
        · exact hs.flag j' (by simp [h1])
        · subst h1
          exact useCache_congr cfg p _ _ t (hs.frame t htY (by simp))
        · exact hs.flag j' (by simp [h1])
  simp only [submitTask]
  split
  · exact hbase
  · exact startProcesses_flag hbase

theorem submitAll_flag {cfg : Config} {p : Problem} {P : TS} {store0 : Store} (hP : PI P) :
    ∀ (l : List Tid) (rs : RS), l.Nodup → (∀ t ∈ l, t ∈ rs.ts.pending ∧ rs.ts.pendDeps t = []) →
      Core p P rs → Exec cfg P [] rs → rs.status = .running → FlagInv cfg p store0 [] rs →
      FlagInv cfg p store0 [] (submitAll cfg p l rs) := by
  intro l
  induction l with
  | nil => intro rs _ _ _ _ _ hr; exact hr
  | cons t ts ih =>
    intro rs hnd hmem hc he hrun hr
    obtain ⟨ht, hd⟩ := hmem t List.mem_cons_self
    have hnd' := List.nodup_cons.mp hnd
    have hst : startTask rs.ts t = some (startedTS rs.ts t) := by
      simp [startTask, setRemove, ht, startedTS]
    simp only [submitAll, hst]
    obtain ⟨hc', he'⟩ := submitStep_inv hP hc he ht hd
    apply ih _ hnd'.2 _ hc' he' (by rw [submitTask_status]; exact hrun) (submitStep_flag hc hrun hr ht)
    intro x hx
    rw [submitTask_ts]
    obtain ⟨hx1, hx2⟩ := hmem x (List.mem_cons_of_mem _ hx)
    refine ⟨?_, hx2⟩
    simp only [List.mem_filter, ne_eq, decide_eq_true_eq]
    exact ⟨hx1, fun hxt => hnd'.1 (hxt ▸ hx)⟩

/-! ## handling one outcome -/
theorem yieldStep_flag {cfg : Config} {p : Problem} {P : TS} {store0 : Store}
    {req : List Tid} {extra : List Tid} {rs : RS} {t : Tid} (o : Outcome) (hP : PI P)
    (hc : Core p P rs) (he : Exec cfg P (t :: extra) rs) (hrun : rs.status = .running)
    (hf : FlagInv cfg p store0 (t :: extra) rs) :
    FlagInv cfg p store0 extra
      (processYield cfg req { rs with futs := rs.futs.filter (· ≠ t) } t o) := by
  have htF : t ∈ rs.futs := he.perm.mem_iff.mp (by simp)
  have htA : t ∈ rs.ts.active := (hc.futsAct t).mp htF
  obtain ⟨s', rem, hct, _⟩ := completeTask_TSInv _ hP _ rs.ts t hc.ts htA
  obtain ⟨_, _, h3, h4, ⟨tail, htr, htail⟩, _, _⟩ :=
    processYield_shape cfg req { rs with futs := rs.futs.filter (· ≠ t) } t o s' rem hct hrun
  have hstore := processYield_store cfg req { rs with futs := rs.futs.filter (· ≠ t) } t o
  have hyld := processYield_yielded cfg req { rs with futs := rs.futs.filter (· ≠ t) } t o
  generalize processYield cfg req { rs with futs := rs.futs.filter (· ≠ t) } t o = rs' at *
  simp only at h3 h4 htr hstore hyld
  have hyld' : yielded rs' = yielded rs ++ [t] := hyld
  have hs := hf.2 hrun
  refine ⟨hf.1.noran (Ev.yield t o :: tail) htr ?_ ?_ ?_, fun _ => ⟨?_, ?_⟩⟩
  · intro e hemem
    rcases List.mem_cons.mp hemem with h | h
    · subst h; rfl
    · obtain ⟨a, b, rfl⟩ := htail e h; rfl
  · intro t' uc' hemem
    rcases List.mem_cons.mp hemem with h | h
    · cases h
    · obtain ⟨a, b, hab⟩ := htail _ h; cases hab
  · intro x hx
    rw [hyld'] at hx
    rcases hx with h | h
    · rcases List.mem_append.mp h with h1 | h1
      · exact Or.inl h1
      · exact Or.inr (by simp only [List.mem_singleton] at h1; subst h1; exact List.mem_cons_self)
    · exact Or.inr (List.mem_cons_of_mem _ h)
  · intro x hx hxe
    rw [hyld'] at hx
    simp only [List.mem_append, List.mem_singleton, not_or] at hx
    rw [hstore]
    apply hs.frame x hx.1
    simp only [List.mem_cons, not_or]
    exact ⟨hx.2, hxe⟩
  · rw [h3, h4]; exact hs.flag

theorem processYields_flag {cfg : Config} {p : Problem} {P : TS} {store0 : Store} {req : List Tid}
    (hP : PI P) :
    ∀ (ys : List (Tid × Outcome)) (rs : RS), Core p P rs →
      (rs.status = .running → Exec cfg P (ys.map Prod.fst) rs) →
      FlagInv cfg p store0 (ys.map Prod.fst) rs →
      FlagInv cfg p store0 [] (processYields cfg req ys rs) := by
  intro ys
  induction ys with
  | nil => intro rs _ _ hr; exact hr
  | cons y rest ih =>
    intro rs hc he hr
    obtain ⟨t, o⟩ := y
    simp only [processYields]
    split
    · next hrun =>
      have hr' := yieldStep_flag (req := req) (t := t) (extra := rest.map Prod.fst) o hP hc (he hrun) hrun hr
      obtain ⟨hc', he', _⟩ := yieldStep_inv (t := t) (extra := rest.map Prod.fst) req o hP hc (he hrun) hrun
      exact ih _ hc' he' hr'
    · next hnr =>
      refine ⟨hr.1.noran [] (by simp) (by simp) (by simp) ?_, fun h => absurd h (by intro h'; exact hnr h')⟩
      intro x hx
      rcases hx with h | h
      · exact Or.inl h
      · simp at h

/-! ## worker records -/
theorem runEvents_load (p : Problem) (ts : TS) (j : Job) (t : Tid) (h : Ev.load t ∈ runEvents p ts j) :
    t = j.tid ∧ j.useCache = true := by
  simp only [runEvents] at h
  split at h
  · next hu => simp at h; exact ⟨h, hu⟩
  · simp at h

theorem runEvents_exec (p : Problem) (ts : TS) (j : Job) (t : Tid) (seen : List (Option Val))
    (h : Ev.exec t seen ∈ runEvents p ts j) : t = j.tid ∧ j.useCache = false := by
  simp only [runEvents] at h
  split at h
  · simp at h
  · next hu => simp at h; exact ⟨h.1, by simpa using hu⟩

theorem jobEvents_sub (p : Problem) (ts : TS) (j : Job) (e : Ev) (h : e ∈ jobEvents p ts j) :
    e ∈ runEvents p ts j := by
  simp only [jobEvents] at h
  split at h
  · simp at h
  · exact h

theorem ranOf_flatten_mem (p : Problem) (ts : TS) : ∀ (js : List Job) (j : Job), j ∈ js →
    p.dies j.tid = false → j.tid ∈ ranOf ((js.map (jobEvents p ts)).flatten) := by
  intro js
  induction js with
  | nil => intro j h; simp at h
  | cons a js ih =>
    intro j hj hd
    simp only [List.map_cons, List.flatten_cons, ranOf_append, List.mem_append]
    rcases List.mem_cons.mp hj with h | h
    · subst h
      left
      rw [ranOf_jobEvents, hd]
      simp
    · right; exact ih j h hd

/-! ## the serial runner's wait -/
theorem serialPre_flag {cfg : Config} {p : Problem} {P : TS} {store0 : Store} {rs : RS}
    (hc : Core p P rs) (he : Exec cfg P [] rs) (hrun : rs.status = .running)
    (hf : FlagInv cfg p store0 [] rs) (j : Job) (rest : List Job) (hq : rs.queued = j :: rest) :
    FlagInv cfg p store0 [j.tid] (serialPre p rs j rest) := by
  have hs := hf.2 hrun
  have hjq : j ∈ rs.queued ++ rs.running := by rw [hq]; simp
  have hjA : j.tid ∈ rs.ts.active := he.job_active hc j hjq
  have hflag := hs.flag j hjq
  have htr := serialPre_trace p rs j rest
  have hquiet := serialEvs_quiet p rs j
  have hY : yielded (serialPre p rs j rest) = yielded rs := by
    simp only [yielded]; rw [htr, yieldedOf_append_quiet _ _ hquiet]
  have hmem : ∀ e ∈ serialEvs p rs j, e = Ev.waitEnter (rs.queued.map Job.tid) [] ∨ e = Ev.start j.tid ∨
      e ∈ runEvents p rs.ts { j with snap := some rs.results } := by
    intro e he'
    simp only [serialEvs, List.mem_append, List.mem_cons, List.not_mem_nil, or_false] at he'
    rcases he' with (h | h) | h
    · exact Or.inl h
    · exact Or.inr (Or.inl h)
    · exact Or.inr (Or.inr h)
  refine ⟨⟨?_, ?_, ?_, ?_, ?_⟩, fun _ => ⟨?_, ?_⟩⟩
  · intro t ht
    rw [htr] at ht
    rcases List.mem_append.mp ht with h1 | h1
    · exact hf.1.loadOK t h1
    · rcases hmem _ h1 with h | h | h
      · cases h
      · cases h
      · obtain ⟨h2, h3⟩ := runEvents_load _ _ _ _ h
        subst h2
        rw [← hflag]; exact h3
  · intro t seen ht
    rw [htr] at ht
    rcases List.mem_append.mp ht with h1 | h1
    · exact hf.1.execOK t seen h1
    · rcases hmem _ h1 with h | h | h
      · cases h
      · cases h
      · obtain ⟨h2, h3⟩ := runEvents_exec _ _ _ _ _ h
        subst h2
        rw [← hflag]; exact h3
  · intro t uc ht
    rw [htr] at ht
    rcases List.mem_append.mp ht with h1 | h1
    · exact hf.1.subOK t uc h1
    · exact (quiet_no_submit hquiet t uc h1).elim
  · intro t ht
    rw [htr, ranOf_append, ranOf_serialEvs] at ht
    rw [htr]
    apply submittedOf_mono
    rcases List.mem_append.mp ht with h | h
    · exact hf.1.ranSubm t h
    · simp only [List.mem_singleton] at h
      subst h
      exact (hc.subAct _).mpr (Or.inl hjA)
  · intro t ht hd
    rw [htr, ranOf_append, ranOf_serialEvs, List.mem_append]
    rw [hY] at ht
    rcases ht with h | h
    · left; exact hf.1.ranAll t (Or.inl h) hd
    · right; exact h
  · intro t ht hte
    rw [hY] at ht
    show lookup t (saveIfRan p rs.store { j with snap := some rs.results } _) = _
    rw [saveIfRan_lookup_ne p rs.store _ _ t (by simpa using hte)]
    exact hs.frame t ht (by simp)
  · intro j' hj'
    apply hs.flag j'
    have : j' ∈ rest ∨ j' ∈ rs.running := by simpa [serialPre, List.mem_append] using hj'
    rw [hq]
    rcases this with h | h
    · simp [h]
    · simp [h]

theorem waitSerial_flag {cfg : Config} {p : Problem} {P : TS} {store0 : Store} {req : List Tid} {rs : RS}
    (hP : PI P) (hc : Core p P rs) (he : Exec cfg P [] rs) (hrun : rs.status = .running)
    (hf : FlagInv cfg p store0 [] rs) :
    FlagInv cfg p store0 [] (waitSerial cfg p req rs) := by
  cases hq : rs.queued with
  | nil =>
    rw [waitSerial_nil cfg p req rs hq]
    have hquiet : Quiet [Ev.waitEnter (rs.queued.map Job.tid) []] := by
      intro e he'; simp only [List.mem_singleton] at he'; subst he'; exact ⟨rfl, rfl⟩
    have hY : yieldedOf (rs.trace ++ [Ev.waitEnter (rs.queued.map Job.tid) []]) = yieldedOf rs.trace :=
      yieldedOf_append_quiet _ _ hquiet
    refine ⟨hf.1.noran [Ev.waitEnter (rs.queued.map Job.tid) []] rfl ?_
      (fun t uc ht => (quiet_no_submit hquiet t uc ht).elim) ?_, fun h => ⟨?_, (hf.2 h).flag⟩⟩
    · intro e he'; simp only [List.mem_singleton] at he'; subst he'; rfl
    · intro x hx
      simp only [yielded] at hx ⊢
      rw [hY] at hx
      exact hx
    · intro x hx hxe
      simp only [yielded] at hx
      rw [hY] at hx
      exact (hf.2 h).frame x hx hxe
  | cons j rest =>
    rw [waitSerial_cons cfg p req rs j rest hq]
    obtain ⟨hcA, heA⟩ := serialPre_inv hP hc he j rest hq
    exact yieldStep_flag _ hP hcA heA hrun (serialPre_flag hc he hrun hf j rest hq)

/-! ## a process runner's wait -/
theorem procPre_flag {cfg : Config} {p : Problem} {P : TS} {store0 : Store} {rs : RS} (c : Choice)
    (hb : cfg.backend ≠ .serial)
    (hc : Core p P rs) (he : Exec cfg P [] rs) (hrun : rs.status = .running)
    (hf : FlagInv cfg p store0 [] rs) :
    FlagInv cfg p store0 ((finJobs c rs).map Job.tid) (procPre p c rs) := by
  have hs := hf.2 hrun
  have htr := procPre_trace p c rs
  have hquiet := procEvs_quiet p c rs
  have hY : yielded (procPre p c rs) = yielded rs := by
    simp only [yielded]; rw [htr, yieldedOf_append_quiet _ _ hquiet]
  have hfinq : ∀ j ∈ finJobs c rs, j ∈ rs.queued ++ rs.running :=
    fun j hj => List.mem_append_right _ (finJobs_mem c rs j hj)
  have hmem : ∀ e ∈ procEvs p c rs, e = Ev.waitEnter (rs.queued.map Job.tid) (rs.running.map Job.tid) ∨
      ∃ j ∈ finJobs c rs, e ∈ runEvents p rs.ts j := by
    intro e he'
    simp only [procEvs, List.mem_append, List.mem_singleton] at he'
    rcases he' with h | h
    · exact Or.inl h
    · obtain ⟨es, hes, hm⟩ := List.mem_flatten.mp h
      obtain ⟨j, hj, rfl⟩ := List.mem_map.mp hes
      exact Or.inr ⟨j, hj, jobEvents_sub _ _ _ _ hm⟩
  have hran : ranOf (procEvs p c rs) = ranOf (((finJobs c rs).map (jobEvents p rs.ts)).flatten) := by
    simp only [procEvs, ranOf_append]
    simp [ranOf, evRan]
  refine ⟨⟨?_, ?_, ?_, ?_, ?_⟩, fun _ => ⟨?_, ?_⟩⟩
  · intro t ht
    rw [htr] at ht
    rcases List.mem_append.mp ht with h1 | h1
    · exact hf.1.loadOK t h1
    · rcases hmem _ h1 with h | ⟨j, hj, h⟩
      · cases h
      · obtain ⟨h2, h3⟩ := runEvents_load _ _ _ _ h
        subst h2
        rw [← hs.flag j (hfinq j hj)]; exact h3
  · intro t seen ht
    rw [htr] at ht
    rcases List.mem_append.mp ht with h1 | h1
    · exact hf.1.execOK t seen h1
    · rcases hmem _ h1 with h | ⟨j, hj, h⟩
      · cases h
      · obtain ⟨h2, h3⟩ := runEvents_exec _ _ _ _ _ h
        subst h2
        rw [← hs.flag j (hfinq j hj)]; exact h3
  · intro t uc ht
    rw [htr] at ht
    rcases List.mem_append.mp ht with h1 | h1
    · exact hf.1.subOK t uc h1
    · exact (quiet_no_submit hquiet t uc h1).elim
  · intro t ht
    rw [htr, ranOf_append, hran] at ht
    rw [htr]
    apply submittedOf_mono
    rcases List.mem_append.mp ht with h | h
    · exact hf.1.ranSubm t h
    · have := (ranOf_flatten_sublist p rs.ts (finJobs c rs)).subset h
      obtain ⟨j, hj, rfl⟩ := List.mem_map.mp this
      exact (hc.subAct _).mpr (Or.inl (he.job_active hc j (hfinq j hj)))
  · intro t ht hd
    rw [htr, ranOf_append, hran, List.mem_append]
    rw [hY] at ht
    rcases ht with h | h
    · left; exact hf.1.ranAll t (Or.inl h) hd
    · right
      obtain ⟨j, hj, rfl⟩ := List.mem_map.mp h
      rw [diesIn_process cfg p _ hb] at hd
      exact ranOf_flatten_mem p rs.ts _ j hj hd
  · intro t ht hte
    rw [hY] at ht
    show lookup t (saveAll p rs.ts (finJobs c rs) rs.store) = _
    rw [saveAll_lookup_ne p rs.ts t _ _ (by
      intro j hj heq
      exact hte (List.mem_map.mpr ⟨j, hj, heq.symm⟩))]
    exact hs.frame t ht (by simp)
  · intro j' hj'
    apply hs.flag j'
    have : j' ∈ rs.queued ∨ j' ∈ stayJobs c rs := by simpa [procPre, List.mem_append] using hj'
    rcases this with h | h
    · exact List.mem_append_left _ h
    · exact List.mem_append_right _ (stayJobs_mem c rs j' h)

theorem FlagInv.perm_extra {cfg : Config} {p : Problem} {store0 : Store} {extra extra' : List Tid} {rs : RS}
    (h : FlagInv cfg p store0 extra rs) (hp : ∀ t, t ∈ extra ↔ t ∈ extra') :
    FlagInv cfg p store0 extra' rs :=
  ⟨⟨h.1.loadOK, h.1.execOK, h.1.subOK, h.1.ranSubm, fun t ht hd => h.1.ranAll t (ht.imp id (hp t).mpr) hd⟩,
   fun hrun => ⟨fun t ht hte => (h.2 hrun).frame t ht (fun hx => hte ((hp t).mp hx)), (h.2 hrun).flag⟩⟩

theorem waitProcess_flag {cfg : Config} {p : Problem} {P : TS} {store0 : Store} {req : List Tid} {rs : RS}
    (hP : PI P) (c : Choice) (hb : cfg.backend ≠ .serial)
    (hc : Core p P rs) (he : Exec cfg P [] rs) (hrun : rs.status = .running)
    (hf : FlagInv cfg p store0 [] rs) :
    FlagInv cfg p store0 [] (waitProcess cfg p req c rs) := by
  obtain ⟨hwp, hcA, heA, hperm, _⟩ := waitProcess_explicit req c hb hc he
  rw [hwp]
  obtain ⟨hcB, heB⟩ := startProcesses_inv hP hb hcA heA
  have hfB := startProcesses_flag (procPre_flag c hb hc he hrun hf)
  exact processYields_flag hP _ _ hcB (fun _ => heB.perm_extra hperm.symm)
    (hfB.perm_extra (fun t => hperm.symm.mem_iff))

/-! ## one iteration, whole runs -/
theorem iteration_flag {cfg : Config} {p : Problem} {P : TS} {store0 : Store} {req : List Tid} {rs : RS}
    (hP : PI P) (c : Choice) (h : Reach cfg p P rs) (hrun : rs.status = .running)
    (hf : FlagInv cfg p store0 [] rs) :
    FlagInv cfg p store0 [] (iteration cfg p req c rs) := by
  obtain ⟨hc, he, hst⟩ := submitPhase_reach hP h hrun
  have hnd : (readyTasks p rs.ts).Nodup := (readyAux_sublist p rs.ts rs.ts.pending _).nodup h.1.ts.ndP
  have hmem : ∀ t ∈ readyTasks p rs.ts, t ∈ rs.ts.pending ∧ rs.ts.pendDeps t = [] :=
    fun t ht => (readyTasks_no_pending_deps p rs.ts t ht).symm
  have hfS := submitAll_flag (store0 := store0) hP _ rs hnd hmem h.1 (h.2 hrun) hrun hf
  simp only [iteration, hst]
  split
  · exact waitSerial_flag hP hc he hst hfS
  · next hb => exact waitProcess_flag hP c hb hc he hst hfS

theorem runLoop_flag {cfg : Config} {p : Problem} {P : TS} {store0 : Store} {req : List Tid} (hP : PI P) :
    ∀ (sched : List Choice) (rs : RS), Reach cfg p P rs → FlagInv cfg p store0 [] rs →
      FlagInv cfg p store0 [] (runLoop cfg p req sched rs) := by
  intro sched
  induction sched with
  | nil => intro rs _ hr; exact hr
  | cons c cs ih =>
    intro rs h hr
    simp only [runLoop]
    split
    · next hrun =>
      split
      · exact ih _ (iteration_reach req hP c h hrun) (iteration_flag hP c h hrun hr)
      · exact hr
    · exact hr

theorem initRS_flag (cfg : Config) (p : Problem) (store : Store) (fuel : Nat) :
    FlagInv cfg p store [] (initRS cfg p store fuel) := by
  refine ⟨⟨?_, ?_, ?_, ?_, ?_⟩, fun _ => ⟨fun _ _ _ => rfl, ?_⟩⟩
  · intro t h; simp [initRS] at h
  · intro t seen h; simp [initRS] at h
  · intro t uc h; simp [initRS] at h
  · intro t h; simp [initRS, ranOf] at h
  · intro t h; simp [initRS, yielded, yieldedOf] at h
  · intro j hj; simp [initRS] at hj

/-- the load-or-execute invariant at every loop-head state of every run -/
theorem loopHead_flag (cfg : Config) (p : Problem) (store : Store) (fuel : Nat) (sched : List Choice) :
    FlagInv cfg p store [] (loopHead cfg p store fuel sched) :=
  runLoop_flag (plan_PI cfg p store fuel) sched _ (initRS_reach cfg p store fuel) (initRS_flag cfg p store fuel)

end Lt
