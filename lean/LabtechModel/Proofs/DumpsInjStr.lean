import LabtechModel.Model.Params
/-!
# `json.dumps` is injective, part 2: string literals

`escChar` (`py_encode_basestring_ascii` for one character) is a prefix code: `decEsc` reads one
escaped character back from the front of any text (`decEsc_escChar`), and refuses a bare `"`.
Hence a string literal `"…"` followed by anything determines the string and what follows
(`strLit_inj`).  The surrogate-pair escape of a code point ≥ 65536 cannot be confused with a BMP
`\uXXXX` escape because a Lean `Char` is a Unicode scalar value, never in 0xD800–0xDFFF
(`char_valid`).  On Python strs, which may hold lone surrogates, this fails: the two-code-point str
`'\ud83d\ude00'` and the one-character str `'\U0001f600'` both print as `"\ud83d\ude00"` — known
finding F07c.
-/
namespace Lt.Params

theorem char_valid (c : Char) : c.toNat < 55296 ∨ (57343 < c.toNat ∧ c.toNat < 1114112) := by
  have := c.valid
  simp only [UInt32.isValidChar, Nat.isValidChar] at this
  show c.val.toNat < 55296 ∨ (57343 < c.val.toNat ∧ c.val.toNat < 1114112)
  omega

theorem char_eq_of_toNat {c : Char} {n : Nat} (h : c.toNat = n) : c = Char.ofNat n := by
  rw [← h, Char.ofNat_toNat]

/-- value of a lower-case hexadecimal digit -/
def hexVal (c : Char) : Nat := if c.toNat < 58 then c.toNat - 48 else c.toNat - 87

def hex4 (a b c d : Char) : Nat := hexVal a * 4096 + hexVal b * 256 + hexVal c * 16 + hexVal d

theorem hexVal_hexDigit (n : Nat) (h : n < 16) : hexVal (hexDigit n) = n := by
  have key : ∀ k : Fin 16, hexVal (hexDigit k.val) = k.val := by decide
  exact key ⟨n, h⟩

theorem hex4_u4 (n : Nat) (h : n < 65536) :
    hex4 (hexDigit (n / 4096 % 16)) (hexDigit (n / 256 % 16)) (hexDigit (n / 16 % 16)) (hexDigit (n % 16)) = n := by
  simp only [hex4]
  rw [hexVal_hexDigit _ (Nat.mod_lt _ (by decide)), hexVal_hexDigit _ (Nat.mod_lt _ (by decide)),
    hexVal_hexDigit _ (Nat.mod_lt _ (by decide)), hexVal_hexDigit _ (Nat.mod_lt _ (by decide))]
  omega

/-- the part of `decEsc` after `\u`: four hex digits, and a second `\uXXXX` if the first is a high
surrogate -/
def decU : List Char → Option (Char × List Char)
  | a :: b :: c :: d :: r =>
    if 55296 ≤ hex4 a b c d ∧ hex4 a b c d < 56320 then
      match r with
      | _ :: _ :: a' :: b' :: c' :: d' :: r' =>
        some (Char.ofNat (65536 + (hex4 a b c d - 55296) * 1024 + (hex4 a' b' c' d' - 56320)), r')
      | _ => none
    else some (Char.ofNat (hex4 a b c d), r)
  | _ => none

/-- read one escaped character from the front of a text; a bare `"` is refused -/
def decEsc : List Char → Option (Char × List Char)
  | [] => none
  | c :: r =>
    if c = '"' then none
    else if c ≠ '\\' then some (c, r)
    else
      match r with
      | [] => none
      | e :: r =>
        if e = '"' then some ('"', r)
        else if e = '\\' then some ('\\', r)
        else if e = 'n' then some ('\n', r)
        else if e = 'r' then some ('\r', r)
        else if e = 't' then some ('\t', r)
        else if e = 'b' then some (Char.ofNat 8, r)
        else if e = 'f' then some (Char.ofNat 12, r)
        else if e = 'u' then decU r
        else none

theorem decEsc_u4_bmp (n : Nat) (h : n < 65536) (hs : ¬ (55296 ≤ n ∧ n < 56320)) (r : List Char) :
    decEsc (u4 n ++ r) = some (Char.ofNat n, r) := by
  simp only [u4, List.cons_append, List.nil_append, decEsc]
  simp only [show ('\\' : Char) ≠ '"' by decide, show ('u' : Char) ≠ '"' by decide,
    show ('u' : Char) ≠ '\\' by decide, show ('u' : Char) ≠ 'n' by decide, show ('u' : Char) ≠ 'r' by decide,
    show ('u' : Char) ≠ 't' by decide, show ('u' : Char) ≠ 'b' by decide, show ('u' : Char) ≠ 'f' by decide,
    if_false, ne_eq, not_true_eq_false, if_true, decU, hex4_u4 n h, hs]

theorem decEsc_u4_pair (hi lo : Nat) (h1 : 55296 ≤ hi) (h2 : hi < 56320) (h3 : lo < 65536) (r : List Char) :
    decEsc (u4 hi ++ (u4 lo ++ r)) = some (Char.ofNat (65536 + (hi - 55296) * 1024 + (lo - 56320)), r) := by
  have hhi : hi < 65536 := by omega
  have hs : 55296 ≤ hi ∧ hi < 56320 := ⟨h1, h2⟩
  simp only [u4, List.cons_append, List.nil_append, decEsc]
  simp only [show ('\\' : Char) ≠ '"' by decide, show ('u' : Char) ≠ '"' by decide,
    show ('u' : Char) ≠ '\\' by decide, show ('u' : Char) ≠ 'n' by decide, show ('u' : Char) ≠ 'r' by decide,
    show ('u' : Char) ≠ 't' by decide, show ('u' : Char) ≠ 'b' by decide, show ('u' : Char) ≠ 'f' by decide,
    if_false, ne_eq, not_true_eq_false, if_true, decU, hex4_u4 hi hhi, hex4_u4 lo h3, hs, and_self]

/-- `decEsc` undoes `escChar`, whatever follows -/
theorem decEsc_escChar (c : Char) (r : List Char) : decEsc (escChar c ++ r) = some (c, r) := by
  unfold escChar
  split
  · next h => subst h; simp [decEsc]
  split
  · next h => subst h; simp [decEsc]
  split
  · next h => subst h; simp [decEsc]
  split
  · next h => subst h; simp [decEsc]
  split
  · next h => subst h; simp [decEsc]
  split
  · next h => rw [char_eq_of_toNat h]; simp [decEsc]
  split
  · next h => rw [char_eq_of_toNat h]; simp [decEsc]
  split
  · next h1 h2 _ _ _ _ _ _ => simp [decEsc, h1, h2]
  split
  · next h =>
    have hv := char_valid c
    rw [decEsc_u4_bmp c.toNat h (by omega), Char.ofNat_toNat]
  · next h =>
    have hv := char_valid c
    simp only [List.append_assoc]
    rw [decEsc_u4_pair _ _ (by omega) (by omega) (by omega)]
    have : 65536 + (55296 + (c.toNat - 65536) / 1024 % 1024 - 55296) * 1024 +
        (56320 + (c.toNat - 65536) % 1024 - 56320) = c.toNat := by omega
    rw [this, Char.ofNat_toNat]

theorem decEsc_quote (r : List Char) : decEsc ('"' :: r) = none := by simp [decEsc]

/-- the body of a string literal up to its closing quote determines the string and the rest -/
theorem escChars_inj : ∀ (s s' r r' : List Char),
    escChars s ++ '"' :: r = escChars s' ++ '"' :: r' → s = s' ∧ r = r'
  | [], [], r, r', h => by simpa [escChars] using h
  | [], c :: cs, r, r', h => by
    have := congrArg decEsc h
    simp only [escChars, List.nil_append, List.append_assoc, decEsc_quote, decEsc_escChar] at this
    cases this
  | c :: cs, [], r, r', h => by
    have := congrArg decEsc h
    simp only [escChars, List.nil_append, List.append_assoc, decEsc_quote, decEsc_escChar] at this
    cases this
  | c :: cs, c' :: cs', r, r', h => by
    have := congrArg decEsc h
    simp only [escChars, List.append_assoc, decEsc_escChar, Option.some.injEq, Prod.mk.injEq] at this
    obtain ⟨hc, hrest⟩ := this
    have ih := escChars_inj cs cs' r r' hrest
    exact ⟨by rw [hc, ih.1], ih.2⟩

theorem dumpsStr_toList (s : String) : (dumpsStr s).toList = '"' :: (escChars s.toList ++ ['"']) := by
  simp [dumpsStr]

/-- a string literal followed by anything determines the string and what follows -/
theorem strLit_inj (s s' : String) (r r' : List Char)
    (h : (dumpsStr s).toList ++ r = (dumpsStr s').toList ++ r') : s = s' ∧ r = r' := by
  simp only [dumpsStr_toList, List.cons_append, List.append_assoc, List.cons.injEq, true_and,
    List.nil_append] at h
  have := escChars_inj _ _ _ _ h
  exact ⟨String.toList_inj.mp this.1, this.2⟩

/-- `dumpsStr` alone is injective on all Lean strings -/
theorem dumpsStr_injective (s s' : String) (h : dumpsStr s = dumpsStr s') : s = s' :=
  (strLit_inj s s' [] [] (by rw [h])).1

end Lt.Params
