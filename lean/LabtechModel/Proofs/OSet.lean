import LabtechModel.Model.OSet
import LabtechModel.Model.Run
/-! Lemmas about the `OrderedSet` model (`Model/OSet.lean`): everything observable is a function of the KEY list, and
the key list evolves by `kins` (append the object unless its class is present). -/
namespace Lt.OSet
open Lt

/-- `d[k] = …` seen on the key list: a key object of a new class is appended, otherwise nothing changes -/
def kins (ks : List Elem) (k : Elem) : List Elem := if hasCls k.cls ks then ks else ks ++ [k]

/-- first occurrence of every class, in order -/
def firstOcc : List Elem → List Elem
  | [] => []
  | x :: xs => x :: (firstOcc xs).filter (fun y => y.cls ≠ x.cls)

/-- the key list holds at most one object per class -/
def WF (s : OSet) : Prop := (s.toList.map Elem.cls).Nodup

theorem hasCls_iff (c : Nat) (ks : List Elem) : hasCls c ks = true ↔ c ∈ ks.map Elem.cls := by
  simp only [hasCls, List.any_eq_true, List.mem_map, beq_iff_eq]

theorem hasCls_false_iff (c : Nat) (ks : List Elem) : hasCls c ks = false ↔ c ∉ ks.map Elem.cls := by
  rw [← hasCls_iff]; simp

theorem hasCls_append (c : Nat) (a b : List Elem) : hasCls c (a ++ b) = (hasCls c a || hasCls c b) := by
  simp [hasCls]

theorem hasCls_cons (c : Nat) (k : Elem) (ks : List Elem) : hasCls c (k :: ks) = (k.cls == c || hasCls c ks) := by
  simp [hasCls]

theorem hasCls_nil (c : Nat) : hasCls c [] = false := rfl

/-! ## the key list under the dict operations -/

theorem keys_dset (k v : Elem) (d : List (Elem × Elem)) :
    (dset k v d).map Prod.fst = kins (d.map Prod.fst) k := by
  induction d with
  | nil => simp [dset, kins, hasCls]
  | cons kv rest ih =>
    obtain ⟨k', v'⟩ := kv
    simp only [dset]
    split
    · next h => simp [kins, hasCls_cons, h]
    · next h =>
      simp only [List.map_cons, ih, kins, hasCls_cons]
      have : (k'.cls == k.cls) = false := by simpa using h
      simp only [this, Bool.false_or]
      split <;> simp

theorem keys_dupdate (d o : List (Elem × Elem)) :
    (dupdate d o).map Prod.fst = (o.map Prod.fst).foldl kins (d.map Prod.fst) := by
  induction o generalizing d with
  | nil => simp [dupdate]
  | cons kv rest ih =>
    simp only [dupdate, List.foldl_cons, List.map_cons] at ih ⊢
    rw [ih, keys_dset]

theorem toList_empty : empty.toList = [] := rfl

theorem toList_add (s : OSet) (e : Elem) : (s.add e).toList = kins s.toList e := by
  simp [add, toList, keys_dset]

theorem toList_foldl_add (l : List Elem) (s : OSet) : (l.foldl add s).toList = l.foldl kins s.toList := by
  induction l generalizing s with
  | nil => rfl
  | cons x xs ih => simp only [List.foldl_cons, ih, toList_add]

theorem toList_ofList (l : List Elem) : (ofList l).toList = l.foldl kins [] := by
  simp [ofList, toList_foldl_add, toList_empty]

theorem toList_plus (a b : OSet) : (a + b).toList = (a.toList ++ b.toList).foldl kins [] := by
  show (plus a b).toList = _
  simp only [plus, toList, keys_dupdate, List.foldl_append, List.map_nil]

theorem toList_remove (s s' : OSet) (e : Elem) (h : s.remove e = some s') :
    s'.toList = s.toList.filter (fun y => y.cls ≠ e.cls) := by
  simp only [remove] at h
  split at h
  · simp only [Option.some.injEq] at h
    subst h
    simp only [toList, List.filter_map]
    rfl
  · cases h

theorem len_eq (s : OSet) : s.len = s.toList.length := by simp [len, toList]

/-! ## `foldl kins` = first occurrences -/

theorem foldl_kins (l ks : List Elem) :
    l.foldl kins ks = ks ++ (firstOcc l).filter (fun y => !hasCls y.cls ks) := by
  induction l generalizing ks with
  | nil => simp [firstOcc]
  | cons x xs ih =>
    simp only [List.foldl_cons, ih, firstOcc, kins]
    by_cases hx : hasCls x.cls ks = true
    · simp only [hx, if_true, List.filter_cons, Bool.not_true, Bool.false_eq_true, if_false, List.filter_filter]
      congr 1
      apply List.filter_congr
      intro y _
      by_cases hy : y.cls = x.cls
      · simp [hy, hx]
      · simp [hy]
    · have hx' : hasCls x.cls ks = false := by simpa using hx
      simp only [hx', Bool.false_eq_true, if_false, List.filter_cons, Bool.not_false, if_true, List.filter_filter,
        List.append_assoc, List.singleton_append]
      congr 2
      apply List.filter_congr
      intro y _
      simp only [hasCls_append, hasCls_cons, hasCls_nil, Bool.or_false]
      by_cases hy : y.cls = x.cls
      · simp [hy]
      · have : (x.cls == y.cls) = false := by simpa using fun h => hy h.symm
        simp [hy, this]

theorem foldl_kins_nil (l : List Elem) : l.foldl kins [] = firstOcc l := by
  rw [foldl_kins]; simp [hasCls_nil]

theorem firstOcc_cls (l : List Elem) : (firstOcc l).map Elem.cls = dedup (l.map Elem.cls) := by
  induction l with
  | nil => simp [firstOcc, dedup]
  | cons x xs ih =>
    simp only [firstOcc, List.map_cons, dedup, ← ih, List.filter_map]
    rfl

theorem firstOcc_find (l : List Elem) (c : Nat) :
    (firstOcc l).find? (fun y => y.cls == c) = l.find? (fun y => y.cls == c) := by
  induction l with
  | nil => simp [firstOcc]
  | cons x xs ih =>
    simp only [firstOcc, List.find?_cons]
    by_cases hx : x.cls = c
    · simp [hx]
    · have : (x.cls == c) = false := by simpa using hx
      simp only [this, List.find?_filter, ← ih]
      congr 1
      funext y
      by_cases hy : y.cls = c
      · subst hy; simp; exact fun h => hx h.symm
      · simp [hy]

theorem mem_firstOcc_cls (l : List Elem) (c : Nat) : hasCls c (firstOcc l) = hasCls c l := by
  have h3 : c ∈ dedup (l.map Elem.cls) ↔ c ∈ l.map Elem.cls := by
    generalize l.map Elem.cls = m
    induction m with
    | nil => simp [dedup]
    | cons a b ih =>
      simp only [dedup, List.mem_cons, List.mem_filter, ih]
      by_cases hca : c = a <;> simp [hca]
  rw [Bool.eq_iff_iff, hasCls_iff, hasCls_iff, firstOcc_cls]
  exact h3

theorem nodup_dedup (l : List Nat) : (dedup l).Nodup := by
  induction l with
  | nil => simp [dedup]
  | cons a b ih =>
    simp only [dedup, List.nodup_cons, List.mem_filter]
    exact ⟨by simp, ih.filter _⟩

theorem firstOcc_of_nodup (l : List Elem) (h : (l.map Elem.cls).Nodup) : firstOcc l = l := by
  induction l with
  | nil => rfl
  | cons x xs ih =>
    simp only [List.map_cons, List.nodup_cons] at h
    simp only [firstOcc, ih h.2]
    congr 1
    rw [List.filter_eq_self]
    intro y hy
    have : y.cls ≠ x.cls := fun e => h.1 (e ▸ List.mem_map_of_mem hy)
    simpa using this

/-! ## the invariant -/

theorem wf_empty : WF empty := by simp [WF, toList_empty]

theorem wf_ofList (l : List Elem) : WF (ofList l) := by
  simp only [WF, toList_ofList, foldl_kins_nil, firstOcc_cls]
  exact nodup_dedup _

theorem wf_plus (a b : OSet) : WF (a + b) := by
  simp only [WF, toList_plus, foldl_kins_nil, firstOcc_cls]
  exact nodup_dedup _

theorem wf_add (s : OSet) (e : Elem) (h : WF s) : WF (s.add e) := by
  simp only [WF, toList_add, kins] at h ⊢
  split
  · exact h
  · next hc =>
    have hc' : e.cls ∉ s.toList.map Elem.cls := (hasCls_false_iff _ _).mp (by simpa using hc)
    rw [List.map_append, List.nodup_append]
    refine ⟨h, by simp, ?_⟩
    intro a ha b hb
    simp only [List.map_cons, List.map_nil, List.mem_singleton] at hb
    subst hb
    exact fun e' => hc' (e' ▸ ha)

theorem wf_remove (s s' : OSet) (e : Elem) (h : WF s) (hr : s.remove e = some s') : WF s' := by
  simp only [WF, toList_remove s s' e hr] at h ⊢
  exact (List.filter_sublist.map _).nodup h

/-! ## membership -/

theorem mem_add (s : OSet) (e x : Elem) : (s.add e).mem x = (s.mem x || e.cls == x.cls) := by
  simp only [mem, toList_add, kins]
  split
  · next h =>
    by_cases hx : e.cls = x.cls
    · simp [← hx, h]
    · simp [hx]
  · simp [hasCls_append, hasCls_cons, hasCls_nil]

theorem mem_remove (s s' : OSet) (e x : Elem) (hr : s.remove e = some s') :
    s'.mem x = (s.mem x && x.cls != e.cls) := by
  simp only [mem, toList_remove s s' e hr]
  generalize s.toList = ks
  induction ks with
  | nil => simp [hasCls]
  | cons k ks ih =>
    simp only [List.filter_cons]
    by_cases hk : k.cls = e.cls
    · simp only [hk, ne_eq, not_true_eq_false, decide_false, Bool.false_eq_true, if_false, ih, hasCls_cons]
      by_cases hx : x.cls = e.cls
      · simp [hx]
      · have : (e.cls == x.cls) = false := by simpa using fun h => hx h.symm
        simp [this]
    · simp only [ne_eq, hk, not_false_eq_true, decide_true, if_true, hasCls_cons, ih]
      by_cases hx : k.cls = x.cls
      · have : x.cls ≠ e.cls := fun h => hk (hx.trans h)
        simp [hx, this]
      · have : (k.cls == x.cls) = false := by simpa using hx
        simp [this]

theorem remove_none_iff (s : OSet) (e : Elem) : s.remove e = none ↔ s.mem e = false := by
  simp only [remove]
  split <;> simp_all

theorem mem_ofList (l : List Elem) (x : Elem) : (ofList l).mem x = hasCls x.cls l := by
  simp [mem, toList_ofList, foldl_kins_nil, mem_firstOcc_cls]

theorem mem_plus (a b : OSet) (x : Elem) : (a + b).mem x = (a.mem x || b.mem x) := by
  simp only [mem]
  rw [toList_plus, foldl_kins_nil, mem_firstOcc_cls, hasCls_append]

/-! ## operation sequences on one set -/

inductive Op where
  | add (e : Elem)
  | rem (e : Elem)
deriving DecidableEq, Repr

/-- one call; a `remove` that raises `KeyError` leaves the set as it was -/
def applyOp (s : OSet) : Op → OSet
  | .add e => s.add e
  | .rem e => (s.remove e).getD s

def runOps (s : OSet) (ops : List Op) : OSet := ops.foldl applyOp s

/-- is class `c` present after `ops`, given whether it was present before (`b`): the last `add`/`remove` of that
    class decides -/
def live (c : Nat) : List Op → Bool → Bool
  | [], b => b
  | .add e :: r, b => live c r (if e.cls = c then true else b)
  | .rem e :: r, b => live c r (if e.cls = c then false else b)

/-- no `remove` of class `c` in `ops` -/
def NoRem (c : Nat) (ops : List Op) : Prop := ∀ e, Op.rem e ∈ ops → e.cls ≠ c

theorem mem_applyOp (s : OSet) (op : Op) (x : Elem) :
    (applyOp s op).mem x = live x.cls [op] (s.mem x) := by
  cases op with
  | add e =>
    simp only [applyOp, mem_add, live]
    by_cases h : e.cls = x.cls <;> simp [h]
  | rem e =>
    simp only [applyOp, live]
    cases hr : s.remove e with
    | none =>
      have hm := (remove_none_iff s e).mp hr
      simp only [Option.getD_none]
      by_cases h : e.cls = x.cls
      · simp only [h, if_true]
        simpa [mem, h] using hm
      · simp [h]
    | some s' =>
      simp only [Option.getD_some, mem_remove s s' e x hr]
      by_cases h : e.cls = x.cls
      · simp [h]
      · have : x.cls ≠ e.cls := fun e' => h e'.symm
        simp [h, this]

theorem mem_runOps (ops : List Op) (s : OSet) (x : Elem) :
    (runOps s ops).mem x = live x.cls ops (s.mem x) := by
  induction ops generalizing s with
  | nil => rfl
  | cons op r ih =>
    simp only [runOps, List.foldl_cons] at ih ⊢
    rw [ih, mem_applyOp]
    cases op <;> simp [live]

theorem noRem_cons_add (c : Nat) (e : Elem) (r : List Op) : NoRem c (.add e :: r) ↔ NoRem c r := by
  simp [NoRem]

theorem noRem_cons_rem (c : Nat) (e : Elem) (r : List Op) : NoRem c (.rem e :: r) ↔ (e.cls ≠ c ∧ NoRem c r) := by
  simp only [NoRem, List.mem_cons, Op.rem.injEq]
  constructor
  · intro h; exact ⟨h e (Or.inl rfl), fun e' he' => h e' (Or.inr he')⟩
  · rintro ⟨h1, h2⟩ e' (rfl | he')
    · exact h1
    · exact h2 e' he'

/-- `live` spelled out: the class is present after `ops` iff some `add` of the class is followed by no `remove` of the
    class, or it was present before and no `remove` of the class occurs at all -/
theorem live_iff (c : Nat) (ops : List Op) (b : Bool) :
    live c ops b = true ↔
      (∃ pre e post, ops = pre ++ Op.add e :: post ∧ e.cls = c ∧ NoRem c post) ∨ (b = true ∧ NoRem c ops) := by
  induction ops generalizing b with
  | nil => simp [live, NoRem]
  | cons op r ih =>
    cases op with
    | add e =>
      simp only [live, ih, noRem_cons_add]
      constructor
      · rintro (⟨pre, e', post, rfl, hc, hn⟩ | ⟨hb, hn⟩)
        · exact Or.inl ⟨.add e :: pre, e', post, rfl, hc, hn⟩
        · by_cases hec : e.cls = c
          · exact Or.inl ⟨[], e, r, rfl, hec, hn⟩
          · simp only [hec, if_false] at hb
            exact Or.inr ⟨hb, hn⟩
      · rintro (⟨pre, e', post, heq, hc, hn⟩ | ⟨hb, hn⟩)
        · cases pre with
          | nil =>
            simp only [List.nil_append, List.cons.injEq, Op.add.injEq] at heq
            obtain ⟨rfl, rfl⟩ := heq
            exact Or.inr ⟨by simp [hc], hn⟩
          | cons p pre' =>
            simp only [List.cons_append, List.cons.injEq] at heq
            exact Or.inl ⟨pre', e', post, heq.2, hc, hn⟩
        · refine Or.inr ⟨?_, hn⟩
          split <;> simp_all
    | rem e =>
      simp only [live, ih, noRem_cons_rem]
      constructor
      · rintro (⟨pre, e', post, rfl, hc, hn⟩ | ⟨hb, hn⟩)
        · exact Or.inl ⟨.rem e :: pre, e', post, rfl, hc, hn⟩
        · by_cases hec : e.cls = c
          · simp [hec] at hb
          · simp only [hec, if_false] at hb
            exact Or.inr ⟨hb, hec, hn⟩
      · rintro (⟨pre, e', post, heq, hc, hn⟩ | ⟨hb, hec, hn⟩)
        · cases pre with
          | nil => simp at heq
          | cons p pre' =>
            simp only [List.cons_append, List.cons.injEq] at heq
            exact Or.inl ⟨pre', e', post, heq.2, hc, hn⟩
        · refine Or.inr ⟨?_, hn⟩
          simp [hec, hb]

theorem wf_runOps (ops : List Op) (s : OSet) (h : WF s) : WF (runOps s ops) := by
  induction ops generalizing s with
  | nil => exact h
  | cons op r ih =>
    simp only [runOps, List.foldl_cons] at ih ⊢
    apply ih
    cases op with
    | add e => exact wf_add s e h
    | rem e =>
      simp only [applyOp]
      cases hr : s.remove e with
      | none => exact h
      | some s' => exact wf_remove s s' e h hr

/-! ## every value an `OrderedSet` expression can take -/

/-- the sets reachable through the public interface: `OrderedSet()`, `OrderedSet(items)`, `s.add(e)`, a `s.remove(e)`
    that did not raise, `a + b` -/
inductive Built : OSet → Prop where
  | empty : Built empty
  | ofList (l : List Elem) : Built (ofList l)
  | add {s : OSet} (e : Elem) : Built s → Built (s.add e)
  | remove {s s' : OSet} (e : Elem) : Built s → s.remove e = some s' → Built s'
  | plus {a b : OSet} : Built a → Built b → Built (a + b)

theorem built_wf {s : OSet} (h : Built s) : WF s := by
  induction h with
  | empty => exact wf_empty
  | ofList l => exact wf_ofList l
  | add e _ ih => exact wf_add _ e ih
  | remove e _ hr ih => exact wf_remove _ _ e ih hr
  | plus _ _ _ _ => exact wf_plus _ _

theorem toList_plus_wf (a b : OSet) (ha : WF a) (hb : WF b) :
    (a + b).toList = a.toList ++ b.toList.filter (fun y => !a.mem y) := by
  rw [toList_plus, List.foldl_append, foldl_kins_nil, firstOcc_of_nodup _ ha, foldl_kins, firstOcc_of_nodup _ hb]
  rfl

theorem toList_remove_add (s s' : OSet) (e : Elem) (hr : s.remove e = some s') :
    (s'.add e).toList = s.toList.filter (fun y => y.cls ≠ e.cls) ++ [e] := by
  rw [toList_add, toList_remove s s' e hr, kins]
  have : hasCls e.cls (s.toList.filter (fun y => y.cls ≠ e.cls)) = false := by
    rw [hasCls_false_iff]
    simp only [List.mem_map, List.mem_filter]
    rintro ⟨y, ⟨_, hy⟩, hc⟩
    simp [hc] at hy
  rw [this]
  rfl

theorem toList_add_present (s : OSet) (e : Elem) (h : s.mem e = true) : (s.add e).toList = s.toList := by
  rw [toList_add, kins]
  simp only [mem] at h
  simp [h]

theorem toList_add_absent (s : OSet) (e : Elem) (h : s.mem e = false) : (s.add e).toList = s.toList ++ [e] := by
  rw [toList_add, kins]
  simp only [mem] at h
  simp [h]

end Lt.OSet
