import LabtechModel.Model.Path
/-! Helper lemmas for C18 (path model M8). -/
namespace Lt.Path

/-! ## strings and components -/

theorem splitSlash_ne_nil (s : List Char) : splitSlash s ≠ [] := by
  induction s with
  | nil => simp [splitSlash]
  | cons c cs ih =>
    simp only [splitSlash]
    split
    · simp
    · split <;> simp

theorem splitSlash_no_slash (s : List Char) (h : '/' ∉ s) : splitSlash s = [s] := by
  induction s with
  | nil => simp [splitSlash]
  | cons c cs ih =>
    have hc : c ≠ '/' := by intro e; apply h; simp [e]
    have hcs : '/' ∉ cs := by intro e; apply h; simp [e]
    simp only [splitSlash, hc, if_false, ih hcs]

theorem dropLast_eq_append {α} (l r : List α) (hr : r ≠ []) (h : l.dropLast = r) :
    ∃ c, l = r ++ [c] := by
  have hl : l ≠ [] := by
    intro e; subst e; simp at h; exact hr h
  refine ⟨l.getLast hl, ?_⟩
  rw [← h]
  exact (List.dropLast_concat_getLast hl).symm

/-- `kp.parent = r` with `r` not the file-system root: `kp` is a direct child of `r` -/
theorem parent_eq_child (kp r : RPath) (hr : r.comps ≠ []) (h : kp.parent = r) :
    ∃ c, kp = ⟨r.ds, r.comps ++ [c]⟩ := by
  cases kp with
  | mk ds comps =>
    cases r with
    | mk rds rcomps =>
      simp only [RPath.parent, RPath.mk.injEq] at h
      obtain ⟨h1, h2⟩ := h
      obtain ⟨c, hc⟩ := dropLast_eq_append comps rcomps hr h2
      exact ⟨c, by simp [h1, hc]⟩

/-! ## normal components, link-free paths -/

/-- no empty, `.` or `..` component -/
def NormalP (p : P) : Prop := ∀ c ∈ p, c ≠ [] ∧ c ≠ dot ∧ c ≠ dotdot

/-- walking `p` from `/` never meets a symlink: no prefix of `p` (`p` included) is one -/
def LinkFree (fs : FS) (p : P) : Prop := ∀ q, q <+: p → optIsLink (lstat fs q) = false

def Good (fs : FS) (p : P) : Prop := LinkFree fs p ∧ NormalP p

theorem good_nil (fs : FS) : Good fs [] := by
  constructor
  · intro q hq
    have : q = [] := List.prefix_nil.mp hq
    subst this
    simp [lstat, optIsLink]
  · intro c hc; cases hc

theorem good_dropLast (fs : FS) (p : P) (h : Good fs p) : Good fs p.dropLast := by
  constructor
  · intro q hq
    exact h.1 q (List.IsPrefix.trans hq (List.dropLast_prefix p))
  · intro c hc
    exact h.2 c (List.dropLast_subset p hc)

theorem good_snoc (fs : FS) (p : P) (n : Comp) (h : Good fs p)
    (hn : n ≠ [] ∧ n ≠ dot ∧ n ≠ dotdot) (hl : optIsLink (lstat fs (p ++ [n])) = false) :
    Good fs (p ++ [n]) := by
  constructor
  · intro q hq
    rcases List.prefix_concat_iff.mp (by simpa using hq) with h1 | h1
    · subst h1; simpa using hl
    · exact h.1 q h1
  · intro c hc
    rcases List.mem_append.mp hc with h1 | h1
    · exact h.2 c h1
    · simp at h1; subst h1; exact hn

theorem normAux_normal (acc p : P) (h : NormalP p) : normAux acc p = acc ++ p := by
  induction p generalizing acc with
  | nil => simp [normAux]
  | cons c cs ih =>
    have hc := h c (by simp)
    have hcs : NormalP cs := fun d hd => h d (by simp [hd])
    simp only [normAux, hc.1, hc.2.1, hc.2.2, or_self, if_false]
    rw [ih _ hcs]; simp

theorem normpath_normal (p : P) (h : NormalP p) : normpath p = p := by
  simp [normpath, normAux_normal [] p h]

/-! ## `_joinrealpath` never returns a symlink when no loop was hit -/

def SeenOK (fs : FS) (seen : Seen) : Prop := ∀ q p, (q, some p) ∈ seen → Good fs p

theorem lookup_mem {α β} [BEq α] [LawfulBEq α] (k : α) (l : List (α × β)) (v : β)
    (h : List.lookup k l = some v) : (k, v) ∈ l := by
  induction l with
  | nil => simp [List.lookup] at h
  | cons e es ih =>
    obtain ⟨a, b⟩ := e
    simp only [List.lookup] at h
    split at h
    · rename_i heq
      have : k = a := by simpa using heq
      simp at h; subst h; subst this; simp
    · exact List.mem_cons_of_mem _ (ih h)

def RecOK (fs : FS) (rec : Seen → P → P → Except Err JR) : Prop :=
  ∀ seen path rest r, Good fs path → SeenOK fs seen → rec seen path rest = .ok r →
    SeenOK fs r.seen ∧ (r.ok = true → Good fs r.path)

theorem jrAux_good (fs : FS) (rec : Seen → P → P → Except Err JR) (hrec : RecOK fs rec) :
    RecOK fs (jrAux fs rec) := by
  intro seen path rest
  induction rest generalizing seen path with
  | nil =>
    intro r hp hs h
    simp only [jrAux, Except.ok.injEq] at h
    subst h
    exact ⟨hs, fun _ => hp⟩
  | cons name rest ih =>
    intro r hp hs h
    simp only [jrAux] at h
    split at h
    · exact ih _ _ r hp hs h
    · split at h
      · exact ih _ _ r (good_dropLast fs path hp) hs h
      · split at h
        · cases h
        · rename_i h1 h2 h3
          have hn : name ≠ [] ∧ name ≠ dot ∧ name ≠ dotdot := by
            refine ⟨fun e => h1 (Or.inl e), fun e => h1 (Or.inr e), h2⟩
          split at h
          · -- symlink
            split at h
            · rename_i p hl
              have hg : Good fs p := hs _ p (lookup_mem _ _ _ hl)
              exact ih _ _ r hg hs h
            · simp only [Except.ok.injEq] at h
              subst h
              exact ⟨hs, fun hc => by simp at hc⟩
            · split at h
              · cases h
              · rename_i r' hr'
                have hs' : SeenOK fs ((path ++ [name], none) :: seen) := by
                  intro q p hm
                  rcases List.mem_cons.mp hm with e | e
                  · simp at e
                  · exact hs q p e
                have hstart : ∀ t : List Char, Good fs (if isAbs t = true then [] else path) := by
                  intro t
                  split
                  · exact good_nil fs
                  · exact hp
                have hr := hrec _ _ _ r' (hstart _) hs' hr'
                split at h
                · rename_i hok
                  have hs'' : SeenOK fs ((path ++ [name], some r'.path) :: r'.seen) := by
                    intro q p hm
                    rcases List.mem_cons.mp hm with e | e
                    · simp only [Prod.mk.injEq, Option.some.injEq] at e
                      rw [e.2]; exact hr.2 hok
                    · exact hr.1 q p e
                  exact ih _ _ r (hr.2 hok) hs'' h
                · simp only [Except.ok.injEq] at h
                  subst h
                  exact ⟨hr.1, fun hc => by simp at hc⟩
          · rename_i hnl
            have hl : optIsLink (lstat fs (path ++ [name])) = false := by
              cases hx : lstat fs (path ++ [name]) with
              | none => rfl
              | some nd =>
                cases nd with
                | link t => exact absurd hx (hnl t)
                | dir => rfl
                | file => rfl
            exact ih _ _ r (good_snoc fs path name hp hn hl) hs h

theorem jr_good (fs : FS) (fuel : Nat) : RecOK fs (jr fs fuel) := by
  induction fuel with
  | zero => intro seen path rest r _ _ h; simp [jr] at h
  | succ n ih => exact jrAux_good fs _ ih

/-! ## the kernel walk of a link-free path stays on it -/

theorem kwalkAux_linkfree (fs : FS) (ff : Bool) (follow : P → P → Except Errno P) (cur rest loc : P)
    (hn : NormalP rest) (hl : LinkFree fs (cur ++ rest.dropLast))
    (hend : ff = true → LinkFree fs (cur ++ rest))
    (h : kwalkAux fs ff follow cur rest = .ok loc) : loc = cur ++ rest := by
  induction rest generalizing cur with
  | nil => simp [kwalkAux] at h; simp [h]
  | cons n rest ih =>
    have hc := hn n (by simp)
    have hcs : NormalP rest := fun d hd => hn d (by simp [hd])
    simp only [kwalkAux, hc.1, if_false] at h
    split at h
    · cases h
    · cases h
    · cases h
    · simp only [hc.2.1, hc.2.2, if_false] at h
      split at h
      · cases h
      · split at h
        · rename_i tgt hlk
          -- cur ++ [n] is a symlink: only possible as the unfollowed end
          split at h
          · rename_i hfin
            simp only [Bool.and_eq_true, Bool.not_eq_true'] at hfin
            have hr : rest = [] := by
              cases rest with
              | nil => rfl
              | cons d ds =>
                have := (hcs d (by simp)).1
                simp [isLast] at hfin
                exact absurd hfin.1.1 this
            subst hr
            simp at h; simp [h]
          · rename_i hfin
            exfalso
            cases rest with
            | nil =>
              simp only [isLast, List.all_nil, Bool.true_and, Bool.not_eq_true', Bool.not_eq_false] at hfin
              have := hend hfin (cur ++ [n]) (by simp)
              simp [hlk, optIsLink] at this
            | cons d ds =>
              have : cur ++ [n] <+: cur ++ (n :: d :: ds).dropLast := by
                simp only [List.dropLast_cons_cons]
                exact ⟨(d :: ds).dropLast, by simp⟩
              have := hl _ this
              simp [hlk, optIsLink] at this
        · have e : cur ++ n :: rest = (cur ++ [n]) ++ rest := by simp
          rw [e]
          apply ih (cur ++ [n]) hcs
          · cases rest with
            | nil =>
              simp only [List.dropLast_nil, List.append_nil]
              intro q hq
              rcases List.prefix_concat_iff.mp (by simpa using hq) with h1 | h1
              · subst h1
                rename_i hnl
                cases hx : lstat fs (cur ++ [n]) with
                | none => rfl
                | some nd =>
                  cases nd with
                  | link t => exact absurd hx (hnl t)
                  | dir => rfl
                  | file => rfl
              · exact hl q (by simpa using h1)
            | cons d ds =>
              have : cur ++ (n :: d :: ds).dropLast = (cur ++ [n]) ++ (d :: ds).dropLast := by
                simp [List.dropLast_cons_cons]
              rw [← this]; exact hl
          · intro hf
            rw [← e]; exact hend hf
          · exact h

theorem kwalk_linkfree (fs : FS) (ff : Bool) (b : Nat) (p loc : P) (hn : NormalP p)
    (hl : LinkFree fs p.dropLast) (hend : ff = true → LinkFree fs p)
    (h : kwalk fs ff (b + 1) [] p = .ok loc) : loc = p := by
  have := kwalkAux_linkfree fs ff (kwalk fs ff b) [] p loc hn (by simpa using hl) (by simpa using hend) h
  simpa using this

end Lt.Path
