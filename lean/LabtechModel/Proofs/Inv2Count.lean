import LabtechModel.Proofs.InvMain
/-!
# C05: the counting equation at resting points, maximality of the active set
-/
namespace Lt

def evStartTid : Ev → Option Tid
  | .start t => some t
  | _ => none

/-- the tasks whose execution was started (a worker process launched / the serial runner began
    running it), in order -/
def startedOf (tr : List Ev) : List Tid := tr.filterMap evStartTid

theorem startedOf_append (a b : List Ev) : startedOf (a ++ b) = startedOf a ++ startedOf b := by
  simp [startedOf, List.filterMap_append]

theorem processYield_started (cfg : Config) (req : List Tid) (rs : RS) (t : Tid) (o : Outcome) :
    startedOf (processYield cfg req rs t o).trace = startedOf rs.trace := by
  cases o <;> simp only [processYield] <;> split <;> (try split) <;>
    simp [startedOf, evStartTid]

theorem startedOf_runEvents (p : Problem) (ts : TS) (j : Job) : startedOf (runEvents p ts j) = [] := by
  simp only [runEvents]
  split <;> simp [startedOf, evStartTid]

/-- one serial `wait` starts exactly the head of the deque, or nothing when the deque is empty -/
theorem waitSerial_started (cfg : Config) (p : Problem) (req : List Tid) (rs : RS) :
    startedOf (waitSerial cfg p req rs).trace =
      startedOf rs.trace ++ (rs.queued.take 1).map Job.tid := by
  cases hq : rs.queued with
  | nil =>
    rw [waitSerial_nil cfg p req rs hq]
    simp [startedOf]
    rfl
  | cons j rest =>
    rw [waitSerial_cons cfg p req rs j rest hq, processYield_started]
    show startedOf (serialPre p rs j rest).trace = _
    rw [serialPre_trace, startedOf_append]
    congr 1
    simp only [serialEvs]
    rw [startedOf_append, startedOf_runEvents]
    rfl

/-- the resting point of a loop head: the state after its submit phase, right before `runner.wait` -/
abbrev restState (cfg : Config) (p : Problem) (store : Store) (fuel : Nat) (sched : List Choice) : RS :=
  submitAll cfg p (readyTasks p (loopHead cfg p store fuel sched).ts) (loopHead cfg p store fuel sched)

/-- futures, active tasks and executor entries are equinumerous -/
theorem rest_lengths {cfg : Config} {p : Problem} {P : TS} {rs : RS} (hc : Core p P rs) (he : Exec cfg P [] rs) :
    rs.queued.length + rs.running.length = rs.ts.active.length := by
  have h1 := he.perm.length_eq
  have h2 := ((List.perm_ext_iff_of_nodup hc.ndF hc.ts.ndA).mpr hc.futsAct).length_eq
  simp only [List.append_nil, List.length_map, List.length_append] at h1
  omega

theorem count_process {cfg : Config} {p : Problem} {P : TS} {rs : RS} (hc : Core p P rs) (he : Exec cfg P [] rs)
    (hw : WorkersOK cfg rs) (hn : NoIdle cfg rs) :
    rs.running.length = min cfg.maxWorkers rs.ts.active.length ∧
    rs.queued.length = rs.ts.active.length - rs.running.length := by
  have hlen := rest_lengths hc he
  unfold WorkersOK at hw
  rcases hn with hq | hfull
  · have hq' : rs.queued.length = 0 := by rw [hq]; rfl
    omega
  · omega

/-- process backends, at a resting point: executing = min(max_workers, active), the rest is queued -/
theorem rest_count_process (cfg : Config) (p : Problem) (store : Store) (fuel : Nat) (sched : List Choice)
    (hb : cfg.backend ≠ .serial) (hrun : (loopHead cfg p store fuel sched).status = .running) :
    (restState cfg p store fuel sched).running.length
      = min cfg.maxWorkers (restState cfg p store fuel sched).ts.active.length ∧
    (restState cfg p store fuel sched).queued.length
      = (restState cfg p store fuel sched).ts.active.length - (restState cfg p store fuel sched).running.length := by
  have hl := loopHead_live cfg p store fuel sched
  obtain ⟨hc, he, _⟩ := submitPhase_reach (plan_PI cfg p store fuel) hl.reach hrun
  exact count_process hc he (submitAll_workers cfg p _ _ hl.workers)
    (submitAll_noIdle cfg p hb _ _ hl.workers (hl.noIdle hb))

/-- serial backend, at a resting point: nothing runs in a worker, every active task sits in the deque -/
theorem rest_count_serial (cfg : Config) (p : Problem) (store : Store) (fuel : Nat) (sched : List Choice)
    (hb : cfg.backend = .serial) (hrun : (loopHead cfg p store fuel sched).status = .running) :
    (restState cfg p store fuel sched).running = [] ∧
    (restState cfg p store fuel sched).queued.length = (restState cfg p store fuel sched).ts.active.length := by
  have hl := loopHead_live cfg p store fuel sched
  obtain ⟨hc, he, _⟩ := submitPhase_reach (plan_PI cfg p store fuel) hl.reach hrun
  have hlen := rest_lengths hc he
  have hr := he.serialRun hb
  refine ⟨hr, ?_⟩
  rw [hr] at hlen
  simpa using hlen

/-- a set of tasks that may be in flight together: all their dependencies are finished and no type
    exceeds its `max_parallel` -/
def Admissible (p : Problem) (P : TS) (Y : List Tid) (A : List Tid) : Prop :=
  (∀ t ∈ A, ∀ d ∈ P.ddeps t, d ∈ Y) ∧ LimitOK p A

theorem loopHead_limit (cfg : Config) (p : Problem) (store : Store) (fuel : Nat) (sched : List Choice) :
    LimitOK p (loopHead cfg p store fuel sched).ts.active := by
  apply runLoop_limit
  intro T L _
  show typeCount p (plan cfg p store fuel).active T ≤ L
  rw [plan_active]
  simp [typeCount]

end Lt
