import LabtechModel.Model.Log
/-!
Helper lemmas for C19: the conservation invariant of the proxy, of a worker's three channels, and of the
parent's queues ("every record is in exactly one of: not yet put / on the log queue / delivered").
-/
namespace Lt.Log

deriving instance DecidableEq for Rec
deriving instance DecidableEq for Exit

/-! ## proxy -/

def writes : List POp → List String
  | [] => []
  | .write s :: ops => s :: writes ops
  | .flush :: ops => writes ops

theorem writes_append (a b : List POp) : writes (a ++ b) = writes a ++ writes b := by
  induction a with
  | nil => rfl
  | cons op ops ih => cases op <;> simp [writes, ih]

/-- the fragments that `write` keeps -/
def nonBlank (l : List String) : List String := l.filter (fun s => !blank s)

theorem nonBlank_append (a b : List String) : nonBlank (a ++ b) = nonBlank a ++ nonBlank b := by
  simp [nonBlank]

theorem pwrite_eq (b : List String) (s : String) : pwrite b s = b ++ nonBlank [s] := by
  simp only [pwrite, nonBlank, List.filter]
  cases blank s <;> simp

theorem pflush_conserve (b : List String) : (pflush b).2.flatten ++ (pflush b).1 = b := by
  simp only [pflush]
  cases hb : b.isEmpty with
  | true => simp [List.isEmpty_iff.mp hb]
  | false => simp

theorem pflush_bufs (b : List String) : (pflush b).1 = [] := by
  simp only [pflush]
  cases hb : b.isEmpty with
  | true => simp [List.isEmpty_iff.mp hb]
  | false => simp

theorem pflush_nonempty (b : List String) : ∀ m ∈ (pflush b).2, m ≠ [] := by
  intro m hm
  simp only [pflush] at hm
  cases hb : b.isEmpty with
  | true => simp [hb] at hm
  | false =>
    simp only [hb, Bool.false_eq_true, if_false, List.mem_singleton] at hm
    subst hm
    intro h; subst h; simp at hb

/-- nothing is lost, duplicated or reordered at any point of any operation sequence -/
theorem prun_conserve : ∀ (ops : List POp) (b : List String),
    (prun b ops).2.flatten ++ (prun b ops).1 = b ++ nonBlank (writes ops) := by
  intro ops
  induction ops with
  | nil => intro b; simp [prun, writes, nonBlank]
  | cons op ops ih =>
    intro b
    cases op with
    | write s =>
      simp only [prun, writes]
      rw [ih, pwrite_eq, List.append_assoc, ← nonBlank_append]
      rfl
    | flush =>
      simp only [prun, writes, List.flatten_append, List.append_assoc]
      rw [ih, ← List.append_assoc, pflush_conserve]

theorem prun_append : ∀ (o1 o2 : List POp) (b : List String),
    prun b (o1 ++ o2) = ((prun (prun b o1).1 o2).1, (prun b o1).2 ++ (prun (prun b o1).1 o2).2) := by
  intro o1
  induction o1 with
  | nil => intro o2 b; simp [prun]
  | cons op ops ih =>
    intro o2 b
    cases op with
    | write s => simp only [List.cons_append, prun, ih]
    | flush => simp only [List.cons_append, prun, ih, List.append_assoc]

theorem prun_nonempty : ∀ (ops : List POp) (b : List String), ∀ m ∈ (prun b ops).2, m ≠ [] := by
  intro ops
  induction ops with
  | nil => intro b m hm; simp [prun] at hm
  | cons op ops ih =>
    intro b m hm
    cases op with
    | write s => exact ih _ m (by simpa [prun] using hm)
    | flush =>
      simp only [prun, List.mem_append] at hm
      rcases hm with hm | hm
      · exact pflush_nonempty b m hm
      · exact ih _ m hm

/-! ## worker -/

def logsOf : List Rec → List String
  | [] => []
  | .logged m :: rs => m :: logsOf rs
  | _ :: rs => logsOf rs

def outBufs : List Rec → List String
  | [] => []
  | .stdout b :: rs => b ++ outBufs rs
  | _ :: rs => outBufs rs

def errBufs : List Rec → List String
  | [] => []
  | .stderr b :: rs => b ++ errBufs rs
  | _ :: rs => errBufs rs

def emLogs : List Emit → List String
  | [] => []
  | .log m :: es => m :: emLogs es
  | _ :: es => emLogs es

def emOuts : List Emit → List String
  | [] => []
  | .out s :: es => s :: emOuts es
  | _ :: es => emOuts es

def emErrs : List Emit → List String
  | [] => []
  | .err s :: es => s :: emErrs es
  | _ :: es => emErrs es

theorem logsOf_append (a b : List Rec) : logsOf (a ++ b) = logsOf a ++ logsOf b := by
  induction a with
  | nil => rfl
  | cons r rs ih => cases r <;> simp [logsOf, ih]

theorem outBufs_append (a b : List Rec) : outBufs (a ++ b) = outBufs a ++ outBufs b := by
  induction a with
  | nil => rfl
  | cons r rs ih => cases r <;> simp [outBufs, ih]

theorem errBufs_append (a b : List Rec) : errBufs (a ++ b) = errBufs a ++ errBufs b := by
  induction a with
  | nil => rfl
  | cons r rs ih => cases r <;> simp [errBufs, ih]

theorem logsOf_map_stdout (l : List (List String)) : logsOf (l.map Rec.stdout) = [] := by
  induction l with
  | nil => rfl
  | cons x xs ih => simp [logsOf, ih]

theorem logsOf_map_stderr (l : List (List String)) : logsOf (l.map Rec.stderr) = [] := by
  induction l with
  | nil => rfl
  | cons x xs ih => simp [logsOf, ih]

theorem outBufs_map_stdout (l : List (List String)) : outBufs (l.map Rec.stdout) = l.flatten := by
  induction l with
  | nil => rfl
  | cons x xs ih => simp [outBufs, ih]

theorem outBufs_map_stderr (l : List (List String)) : outBufs (l.map Rec.stderr) = [] := by
  induction l with
  | nil => rfl
  | cons x xs ih => simp [outBufs, ih]

theorem errBufs_map_stderr (l : List (List String)) : errBufs (l.map Rec.stderr) = l.flatten := by
  induction l with
  | nil => rfl
  | cons x xs ih => simp [errBufs, ih]

theorem errBufs_map_stdout (l : List (List String)) : errBufs (l.map Rec.stdout) = [] := by
  induction l with
  | nil => rfl
  | cons x xs ih => simp [errBufs, ih]

/-- per channel, at any point of any emission sequence: handed over ++ still buffered = kept writes -/
theorem emitAll_conserve : ∀ (ems : List Emit) (st : WState),
    logsOf (emitAll st ems).2 = emLogs ems ∧
    outBufs (emitAll st ems).2 ++ (emitAll st ems).1.out = st.out ++ nonBlank (emOuts ems) ∧
    errBufs (emitAll st ems).2 ++ (emitAll st ems).1.err = st.err ++ nonBlank (emErrs ems) := by
  intro ems
  induction ems with
  | nil => intro st; simp [emitAll, logsOf, outBufs, errBufs, emLogs, emOuts, emErrs, nonBlank]
  | cons e es ih =>
    intro st
    obtain ⟨h1, h2, h3⟩ := ih (emitStep st e).1
    cases e with
    | log m =>
      simp only [emitAll, emitStep, logsOf_append, outBufs_append, errBufs_append, emLogs, emOuts, emErrs] at *
      exact ⟨by simp [logsOf, h1], by simpa [outBufs] using h2, by simpa [errBufs] using h3⟩
    | out s =>
      simp only [emitAll, emitStep, emLogs, emOuts, emErrs, List.nil_append] at *
      refine ⟨h1, ?_, h3⟩
      rw [h2, pwrite_eq, List.append_assoc, ← nonBlank_append]; rfl
    | err s =>
      simp only [emitAll, emitStep, emLogs, emOuts, emErrs, List.nil_append] at *
      refine ⟨h1, h2, ?_⟩
      rw [h3, pwrite_eq, List.append_assoc, ← nonBlank_append]; rfl
    | flushOut =>
      simp only [emitAll, emitStep, logsOf_append, outBufs_append, errBufs_append, emLogs, emOuts, emErrs,
        logsOf_map_stdout, outBufs_map_stdout, errBufs_map_stdout, List.nil_append] at *
      refine ⟨h1, ?_, h3⟩
      rw [List.append_assoc, h2, ← List.append_assoc, pflush_conserve]
    | flushErr =>
      simp only [emitAll, emitStep, logsOf_append, outBufs_append, errBufs_append, emLogs, emOuts, emErrs,
        logsOf_map_stderr, outBufs_map_stderr, errBufs_map_stderr, List.nil_append] at *
      refine ⟨h1, h2, ?_⟩
      rw [List.append_assoc, h3, ← List.append_assoc, pflush_conserve]

theorem emitAll_append : ∀ (a b : List Emit) (st : WState),
    emitAll st (a ++ b) = ((emitAll (emitAll st a).1 b).1, (emitAll st a).2 ++ (emitAll (emitAll st a).1 b).2) := by
  intro a
  induction a with
  | nil => intro b st; simp [emitAll]
  | cons e es ih => intro b st; simp only [List.cons_append, emitAll, ih, List.append_assoc]

theorem emLogs_append (a b : List Emit) : emLogs (a ++ b) = emLogs a ++ emLogs b := by
  induction a with
  | nil => rfl
  | cons e es ih => cases e <;> simp [emLogs, ih]

theorem emOuts_append (a b : List Emit) : emOuts (a ++ b) = emOuts a ++ emOuts b := by
  induction a with
  | nil => rfl
  | cons e es ih => cases e <;> simp [emOuts, ih]

theorem emErrs_append (a b : List Emit) : emErrs (a ++ b) = emErrs a ++ emErrs b := by
  induction a with
  | nil => rfl
  | cons e es ih => cases e <;> simp [emErrs, ih]

/-- after the `finally` of `_subprocess_func` both proxies are empty -/
theorem final_flush_empties (st : WState) :
    (emitAll st [.flushOut, .flushErr]).1 = { out := [], err := [] } := by
  simp [emitAll, emitStep, pflush_bufs]

/-! ## parent -/

theorem drainLoop_eq : ∀ (q d : List (Nat × Rec)), drainLoop q d = d ++ q := by
  intro q
  induction q with
  | nil => intro d; simp [drainLoop]
  | cons r q ih => intro d; simp [drainLoop, ih]

theorem proj_append (w : Nat) (a b : List (Nat × Rec)) : proj w (a ++ b) = proj w a ++ proj w b := by
  simp [proj]

theorem proj_nil (w : Nat) : proj w [] = [] := rfl

theorem proj_tag (w w' : Nat) (l : List Rec) : proj w (tag w' l) = if w = w' then l else [] := by
  induction l with
  | nil => simp [proj, tag]
  | cons r rs ih =>
    simp only [proj, tag, List.map_cons, List.filter_cons] at ih ⊢
    by_cases h : w = w'
    · subst h; simp only [beq_self_eq_true, if_true, List.map_cons] at ih ⊢; rw [ih]
    · have h' : (w' == w) = false := by simpa using fun e : w' = w => h e.symm
      simp only [h', h, if_false] at ih ⊢
      exact ih

/-- conservation + bookkeeping invariant of the parent's state, relative to the workers' record lists -/
structure Inv (n : Nat) (recs : Nat → List Rec) (s : St) : Prop where
  hn : s.n = n
  split : ∀ w, proj w s.delivered ++ proj w s.logq ++ s.todo w = recs w
  fin : ∀ w, s.finished w = true → s.todo w = []
  res : ∀ w, w ∈ s.resq → s.finished w = true
  con : ∀ w, w ∈ s.consumed → s.finished w = true

theorem inv_init (n : Nat) (recs : Nat → List Rec) : Inv n recs (init n recs) := by
  refine ⟨rfl, ?_, ?_, ?_, ?_⟩ <;> simp [init, proj]

theorem inv_envStep (n : Nat) (recs : Nat → List Rec) (s : St) (e : Env) (h : Inv n recs s) :
    Inv n recs (envStep s e) := by
  cases e with
  | advance w k =>
    simp only [envStep]
    split
    · next hc =>
      refine ⟨h.hn, ?_, ?_, h.res, h.con⟩
      · intro w'
        simp only [proj_append, proj_tag, upd]
        have := h.split w'
        by_cases hw : w' = w
        · subst hw
          simp only [if_true]
          rw [← this]
          simp only [List.append_assoc, List.take_append_drop]
        · simpa [hw] using this
      · intro w' hf
        simp only [upd]
        by_cases hw : w' = w
        · subst hw; simp only at hf; rw [hc.2] at hf; exact Bool.noConfusion hf
        · simp only [hw, if_false]; exact h.fin w' hf
    · exact h
  | finish w =>
    simp only [envStep]
    split
    · next hc =>
      refine ⟨h.hn, ?_, ?_, ?_, ?_⟩
      · intro w'
        simp only [proj_append, proj_tag, upd]
        have := h.split w'
        by_cases hw : w' = w
        · subst hw
          simp only [if_true]
          rw [← this]
          simp only [List.append_assoc, List.append_nil]
        · simpa [hw] using this
      · intro w' hf
        simp only [upd] at hf ⊢
        by_cases hw : w' = w
        · simp [hw]
        · simp only [hw, if_false] at hf ⊢; exact h.fin w' hf
      · intro w' hm
        simp only [upd]
        simp only [List.mem_append, List.mem_singleton] at hm
        by_cases hw : w' = w
        · simp [hw]
        · simp only [hw, if_false]
          rcases hm with hm | hm
          · exact h.res w' hm
          · exact absurd hm hw
      · intro w' hm
        simp only [upd]
        by_cases hw : w' = w
        · simp [hw]
        · simp only [hw, if_false]; exact h.con w' hm
    · exact h

theorem inv_envSteps (n : Nat) (recs : Nat → List Rec) : ∀ (es : List Env) (s : St), Inv n recs s →
    Inv n recs (es.foldl envStep s) := by
  intro es
  induction es with
  | nil => intro s h; exact h
  | cons e es ih => intro s h; exact ih _ (inv_envStep n recs s e h)

theorem inv_consumeLog (n : Nat) (recs : Nat → List Rec) (s : St) (h : Inv n recs s) :
    Inv n recs (consumeLog s) := by
  refine ⟨h.hn, ?_, h.fin, h.res, h.con⟩
  intro w
  simp only [consumeLog, drainLoop_eq, proj_append, proj_nil, List.append_nil]
  exact h.split w

theorem inv_consumeResults (n : Nat) (recs : Nat → List Rec) (s : St) (h : Inv n recs s) :
    Inv n recs (consumeResults s) := by
  refine ⟨h.hn, h.split, h.fin, ?_, ?_⟩
  · intro w hm; simp [consumeResults] at hm
  · intro w hm
    simp only [consumeResults, List.mem_append] at hm
    rcases hm with hm | hm
    · exact h.con w hm
    · exact h.res w hm

theorem inv_waitRound (n : Nat) (recs : Nat → List Rec) (s : St) (r : Round) (h : Inv n recs s) :
    Inv n recs (waitRound s r) := by
  simp only [waitRound]
  exact inv_consumeLog _ _ _ (inv_envSteps _ _ _ _ (inv_consumeResults _ _ _
    (inv_envSteps _ _ _ _ (inv_consumeLog _ _ _ (inv_envSteps _ _ _ _ h)))))

/-- the log queue is empty when `wait` hands its results to the coordinator -/
theorem waitRound_logq (s : St) (r : Round) : (waitRound s r).logq = [] := by
  simp [waitRound, consumeLog]

theorem inv_loop (n : Nat) (recs : Nat → List Rec) : ∀ (sched : List Round) (s : St),
    Inv n recs s → s.logq = [] →
    Inv n recs (loop s sched) ∧ (loop s sched).logq = [] := by
  intro sched
  induction sched with
  | nil => intro s h hq; exact ⟨h, hq⟩
  | cons r rs ih =>
    intro s h hq
    simp only [loop]
    split
    · exact ⟨h, hq⟩
    · exact ih _ (inv_waitRound n recs s r h) (waitRound_logq s r)

theorem inv_runLoop (n : Nat) (recs : Nat → List Rec) (cof : Bool) (fails : Nat → Bool) :
    ∀ (sched : List Round) (s : St), Inv n recs s → s.logq = [] →
    Inv n recs (runLoop cof fails s sched).1 ∧ (runLoop cof fails s sched).1.logq = [] := by
  intro sched
  induction sched with
  | nil => intro s h hq; exact ⟨h, hq⟩
  | cons r rs ih =>
    intro s h hq
    simp only [runLoop]
    split
    · exact ⟨h, hq⟩
    · split
      · exact ⟨inv_waitRound n recs s r h, waitRound_logq s r⟩
      · exact ih _ (inv_waitRound n recs s r h) (waitRound_logq s r)

/-- with `continue_on_failure=True` the loop never raises: it is the plain loop -/
theorem runLoop_cof (fails : Nat → Bool) : ∀ (sched : List Round) (s : St),
    (runLoop true fails s sched).1 = loop s sched := by
  intro sched
  induction sched with
  | nil => intro s; rfl
  | cons r rs ih =>
    intro s
    simp only [runLoop, loop]
    split
    · rfl
    · exact ih _

theorem runLoop_returned (cof : Bool) (fails : Nat → Bool) : ∀ (sched : List Round) (s : St),
    (runLoop cof fails s sched).2 = .returned → allConsumed (runLoop cof fails s sched).1 = true := by
  intro sched
  induction sched with
  | nil =>
    intro s h
    simp only [runLoop] at h ⊢
    split at h
    · assumption
    · exact Exit.noConfusion h
  | cons r rs ih =>
    intro s h
    simp only [runLoop] at h ⊢
    split
    · assumption
    · next hnc =>
      simp only [hnc] at h
      split
      · next heq => simp only [heq] at h; exact Exit.noConfusion h
      · next heq => simp only [heq] at h; exact ih _ h

/-- a raise is for a worker that failed and whose outcome this `wait` had taken -/
theorem runLoop_raised (cof : Bool) (fails : Nat → Bool) (f : Nat) : ∀ (sched : List Round) (s : St),
    (runLoop cof fails s sched).2 = .raised f →
      cof = false ∧ fails f = true ∧ f ∈ (runLoop cof fails s sched).1.consumed := by
  intro sched
  induction sched with
  | nil =>
    intro s h
    simp only [runLoop] at h
    split at h <;> exact Exit.noConfusion h
  | cons r rs ih =>
    intro s h
    simp only [runLoop] at h ⊢
    split
    · next hc => simp only [hc, if_true] at h; exact Exit.noConfusion h
    · next hnc =>
      simp only [hnc] at h
      split
      · next w heq =>
        simp only [heq] at h
        have hw : w = f := by injection h
        subst hw
        cases cof with
        | true => simp at heq
        | false =>
          simp only [Bool.false_eq_true, if_false] at heq
          have h1 := List.find?_some heq
          have h2 := List.mem_of_find?_eq_some heq
          simp only [yieldOrder, List.mem_filter, Bool.and_eq_true, List.contains_iff_mem] at h2
          exact ⟨rfl, h1, h2.2.1⟩
      · next heq => simp only [heq] at h; exact ih _ h

theorem mem_consumed_of_all (s : St) (h : allConsumed s = true) (w : Nat) (hw : w < s.n) : w ∈ s.consumed := by
  simp only [allConsumed, List.all_eq_true, List.mem_range, List.contains_iff_mem] at h
  exact h w hw

theorem count_proj (w : Nat) (r : Rec) : ∀ l : List (Nat × Rec), (proj w l).count r = l.count (w, r) := by
  intro l
  induction l with
  | nil => rfl
  | cons x xs ih =>
    obtain ⟨w', r'⟩ := x
    simp only [proj, List.filter_cons] at ih ⊢
    by_cases hw : w' = w
    · subst hw
      simp only [beq_self_eq_true, if_true, List.map_cons, List.count_cons, ih]
      by_cases hr : r' = r
      · simp [hr]
      · have : ¬ (w', r') = (w', r) := fun e => hr (Prod.mk.inj e).2
        simp [hr, this]
    · have h1 : (w' == w) = false := by simpa using hw
      have h2 : ¬ (w', r') = (w, r) := fun e => hw (Prod.mk.inj e).1
      simp only [h1, Bool.false_eq_true, if_false, ih, List.count_cons]
      simp [h2]

end Lt.Log
