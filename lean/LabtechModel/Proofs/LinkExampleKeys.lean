import LabtechModel.Proofs.LinkKeys
/-!
# A small universe on which every hypothesis of the two links holds

Three tasks with real parameter trees: `0 = m.Leaf(x=1)` (PickleCache), `1 = m.Raw(y="a")`
(`cache=None`), `2 = m.Box(a=Leaf(x=1), b=Raw(y="a"))` (a second cache class) with dependencies
`[0, 1]`.  The universe `exPU` takes its type and hash numbers from the parameter trees
(`paramsUniverse`); `exSha` is a stand-in digest function with 40-character values that does not
collide on the three pre-images.
-/
namespace Lt.Link
open Lt.Params (Task cacheKeyPre serTask dumps wfTask)

def exLeaf : Task := .mk ⟨"m", "Leaf"⟩ [("x", .scalar (.int 1))]
def exRaw : Task := .mk ⟨"m", "Raw"⟩ [("y", .scalar (.str "a"))]
def exBox : Task := .mk ⟨"m", "Box"⟩ [("a", .task exLeaf), ("b", .task exRaw)]

def exTask (t : Nat) : Task := if t = 0 then exLeaf else if t = 1 then exRaw else exBox

/-- 40 characters, determined by the length of the input modulo 41 -/
def exSha (s : String) : String :=
  String.ofList (List.replicate (s.length % 41) 'a' ++ List.replicate (40 - s.length % 41) 'b')

theorem exSha_len (x : String) : (exSha x).toList.length = 40 := by
  simp only [exSha, String.toList_ofList, List.length_append, List.length_replicate]
  have : x.length % 41 < 41 := Nat.mod_lt _ (by decide)
  omega

def exBase : Store.Universe :=
  { n := 3, ty := fun _ => 0,
    cacheOf := fun c => if c = strCode "m.Raw" then .null else if c = strCode "m.Box" then .other else .pickle,
    deps := fun t => if t = 2 then [0, 1] else [], fails := fun _ => false, hash := fun _ => 0,
    value := fun t g vs => 1000 * t + g + vs.foldl (· + ·) 0, namePrefix := fun a b => a == b,
    nullStorage := false }

def exPU : Store.Universe := paramsUniverse exBase exSha exTask

theorem exPU_n : exPU.n = 3 := rfl

/-- the three serialised documents print differently -/
theorem exTask_dumps_ne : ∀ t t' : Fin 3, t ≠ t' →
    dumps (serTask (exTask t.val)) ≠ dumps (serTask (exTask t'.val)) := by decide

theorem exTask_wf : WfTasks exPU.n exTask := by
  have key : ∀ t : Fin 3, wfTask (exTask t.val) = true := by decide
  intro t ht
  exact key ⟨t, ht⟩

theorem exTask_distinct : Distinct exPU.n exTask := by
  intro t t' ht ht' h
  by_cases e : t = t'
  · exact e
  · have := exTask_dumps_ne ⟨t, ht⟩ ⟨t', ht'⟩ (fun he => e (Fin.mk.inj he))
    exact absurd (by rw [h]) this

theorem exTask_dumpsInj : DumpsInjOn exPU.n exTask := by
  intro t t' ht ht' h
  by_cases e : t = t'
  · rw [e]
  · exact absurd h (exTask_dumps_ne ⟨t, ht⟩ ⟨t', ht'⟩ (fun he => e (Fin.mk.inj he)))

set_option maxRecDepth 20000 in
theorem exSha_injOn : ShaInjOn exSha exPU.n exTask := by
  have key : ∀ t t' : Fin 3, t ≠ t' →
      exSha (cacheKeyPre (exTask t.val)) ≠ exSha (cacheKeyPre (exTask t'.val)) := by decide
  intro t t' ht ht' h
  by_cases e : t = t'
  · rw [e]
  · exact absurd h (key ⟨t, ht⟩ ⟨t', ht'⟩ (fun he => e (Fin.mk.inj he)))

theorem exPU_represents : Represents exPU exSha exTask := paramsUniverse_represents exBase exSha exTask

/-- `KeyInj` of the example universe, obtained from the params model -/
theorem exPU_keyInj : Store.KeyInj exPU :=
  keyInj_of_params exPU exSha exTask exPU_represents exTask_wf exTask_distinct exSha_injOn exTask_dumpsInj

end Lt.Link
