import LabtechModel.Proofs.IntrStore
/-!
# M10: which worker processes are waited for

`Tr`: every live worker is an entry of the executor's running map, every entry of the running map
belongs to a tracked, uncancelled, unfinished future. It holds at every loop head; it does NOT hold
in the windows of the submit path between `process.start()` and `future_to_task[future] = task`
(finding F14a). From a state with `Tr` the handlers keep `Tr` after every primitive, so when the
drain loop exits (`futs = []`) no worker is alive.
-/
namespace Lt

variable {cfg : Config} {p : Problem}

/-! ## the choice partitions the running list -/
def selN {α} (f : Nat → Bool) (n : Nat) (l : List α) : List α := ((enumFrom n l).filter (fun ij => f ij.1)).map (·.2)

theorem selN_cons {α} (f : Nat → Bool) (n : Nat) (x : α) (xs : List α) :
    selN f n (x :: xs) = if f n then x :: selN f (n + 1) xs else selN f (n + 1) xs := by
  simp only [selN, enumFrom, List.filter_cons]
  split <;> simp

theorem finOf_eq (c : Choice) (l : List Job) : finOf c l = selN c.finish 0 l := rfl
theorem stayOf_eq (c : Choice) (l : List Job) : stayOf c l = selN (fun i => !c.finish i) 0 l := rfl

theorem selN_sublist {α} (f : Nat → Bool) : ∀ (l : List α) (n : Nat), (selN f n l).Sublist l := by
  intro l
  induction l with
  | nil => intro n; simp [selN, enumFrom]
  | cons x xs ih =>
    intro n
    rw [selN_cons]
    split
    · exact (ih (n + 1)).cons_cons x
    · exact (ih (n + 1)).cons x

theorem selN_split {α} (f : Nat → Bool) : ∀ (l : List α) (n : Nat) (x : α), x ∈ l →
    x ∈ selN f n l ∨ x ∈ selN (fun i => !f i) n l := by
  intro l
  induction l with
  | nil => intro n x hx; simp at hx
  | cons y ys ih =>
    intro n x hx
    rw [selN_cons, selN_cons]
    rcases List.mem_cons.mp hx with rfl | hx
    · cases f n <;> simp
    · rcases ih (n + 1) x hx with h | h
      · left; split <;> simp [h]
      · right; split <;> simp [h]

theorem selN_disjoint (f : Nat → Bool) : ∀ (l : List Job) (n : Nat), (l.map Job.tid).Nodup →
    ∀ j ∈ selN f n l, ∀ j' ∈ selN (fun i => !f i) n l, j.tid ≠ j'.tid := by
  intro l
  induction l with
  | nil => intro n _ j hj; simp [selN, enumFrom] at hj
  | cons y ys ih =>
    intro n hnd j hj j' hj'
    rw [List.map_cons, List.nodup_cons] at hnd
    rw [selN_cons] at hj hj'
    have sub1 := (selN_sublist f ys (n + 1)).subset
    have sub2 := (selN_sublist (fun i => !f i) ys (n + 1)).subset
    cases hf : f n with
    | true =>
      simp only [hf, if_true, Bool.not_true, Bool.false_eq_true, if_false, List.mem_cons] at hj hj'
      rcases hj with rfl | hj
      · exact fun he => hnd.1 (he ▸ List.mem_map.mpr ⟨j', sub2 hj', rfl⟩)
      · exact ih (n + 1) hnd.2 j hj j' hj'
    | false =>
      simp only [hf, Bool.false_eq_true, if_false, Bool.not_false, if_true, List.mem_cons] at hj hj'
      rcases hj' with rfl | hj'
      · exact fun he => hnd.1 (he ▸ List.mem_map.mpr ⟨j, sub1 hj, rfl⟩)
      · exact ih (n + 1) hnd.2 j hj j' hj'

/-! ## the invariant -/
structure Tr (cfg : Config) (s : IS) : Prop where
  aliveRun : ∀ t ∈ s.alive, t ∈ s.rs.running.map Job.tid
  runFut : ∀ j ∈ s.rs.running, j.tid ∈ s.rs.futs
  runNotCanc : ∀ j ∈ s.rs.running, j.tid ∉ s.cancelled
  runNotDone : ∀ j ∈ s.rs.running, j.tid ∉ s.done.map (·.1)
  runNd : (s.rs.running.map Job.tid).Nodup
  runNotZomb : ∀ j ∈ s.rs.running, j.tid ∉ s.zombies
  queuedNotRun : ∀ j ∈ s.rs.queued, j.tid ∉ s.rs.running.map Job.tid
  serial : cfg.backend = .serial → s.rs.running = []

/-- primitives that touch the executor's / runner's tracking fields -/
def Prim.touchesExec : Prim → Bool
  | .consumeResults _ | .markDead _ | .popFuture _ _ | .cancelOne _ | .clearDeque | .stopOne _ | .popDeque
  | .enqueue _ | .procStart _ | .regRunning _ | .unregPending _ | .regFuture _ | .serialAppend _ => true
  | _ => false

theorem applyPrim_exec (q : Prim) (s : IS) (h : q.touchesExec = false) :
    (applyPrim cfg p q s).rs.running = s.rs.running ∧ (applyPrim cfg p q s).alive = s.alive ∧
    (applyPrim cfg p q s).rs.futs = s.rs.futs ∧ (applyPrim cfg p q s).cancelled = s.cancelled ∧
    (applyPrim cfg p q s).done = s.done ∧ (applyPrim cfg p q s).zombies = s.zombies ∧
    (applyPrim cfg p q s).rs.queued = s.rs.queued ∧ (applyPrim cfg p q s).terminated = s.terminated := by
  unfold applyPrim
  split
  · cases q <;> simp [Prim.touchesExec] at h <;> simp only [stepPrim, keyErr] <;> (repeat' split) <;> simp
  · simp

theorem Tr_of_fields {s s' : IS} (h : Tr cfg s) (h1 : s'.rs.running = s.rs.running) (h2 : s'.alive = s.alive)
    (h3 : s'.rs.futs = s.rs.futs) (h4 : s'.cancelled = s.cancelled) (h5 : s'.done = s.done)
    (h6 : s'.zombies = s.zombies) (h7 : s'.rs.queued = s.rs.queued) : Tr cfg s' where
  aliveRun := by rw [h1, h2]; exact h.aliveRun
  runFut := by rw [h1, h3]; exact h.runFut
  runNotCanc := by rw [h1, h4]; exact h.runNotCanc
  runNotDone := by rw [h1, h5]; exact h.runNotDone
  runNd := by rw [h1]; exact h.runNd
  runNotZomb := by rw [h1, h6]; exact h.runNotZomb
  queuedNotRun := by rw [h1, h7]; exact h.queuedNotRun
  serial := by rw [h1]; exact h.serial

theorem Tr_untouched (q : Prim) (s : IS) (hq : q.touchesExec = false) (h : Tr cfg s) :
    Tr cfg (applyPrim cfg p q s) := by
  obtain ⟨h1, h2, h3, h4, h5, h6, h7, _⟩ := applyPrim_exec (cfg := cfg) (p := p) q s hq
  exact Tr_of_fields h h1 h2 h3 h4 h5 h6 h7

theorem always_Tr_untouched : ∀ (ps : List Prim) (s : IS), (∀ q ∈ ps, q.touchesExec = false) → Tr cfg s →
    Always cfg p (Tr cfg) ps s := by
  intro ps
  induction ps with
  | nil => intro s _ h; exact h
  | cons q ps ih =>
    intro s hq h
    exact ⟨h, ih _ (fun q' hq' => hq q' (List.mem_cons_of_mem _ hq')) (Tr_untouched q s (hq q List.mem_cons_self) h)⟩

/-! ### the primitives of the handlers -/
theorem Tr_consume (c : Choice) (s : IS) (h : Tr cfg s) : Tr cfg (applyPrim cfg p (Prim.consumeResults c) s) := by
  by_cases hrun : ¬ s.rs.status = .running
  · rw [applyPrim_stopped _ _ hrun]; exact h
  rw [applyPrim_running _ _ (Decidable.not_not.mp hrun)]
  have hsub : ∀ j ∈ stayOf c s.rs.running, j ∈ s.rs.running :=
    fun j hj => (selN_sublist (fun i => !c.finish i) s.rs.running 0).subset hj
  have hdis : ∀ j ∈ finOf c s.rs.running, ∀ j' ∈ stayOf c s.rs.running, j.tid ≠ j'.tid :=
    selN_disjoint c.finish s.rs.running 0 h.runNd
  exact {
    aliveRun := by
      intro t ht
      simp only [stepPrim, List.mem_filter, decide_eq_true_eq] at ht ⊢
      obtain ⟨j, hj, rfl⟩ := List.mem_map.mp (h.aliveRun t ht.1)
      rcases selN_split c.finish s.rs.running 0 j hj with hf | hs
      · exact absurd (List.mem_map.mpr ⟨j, hf, rfl⟩) ht.2
      · exact List.mem_map.mpr ⟨j, hs, rfl⟩
    runFut := fun j hj => h.runFut j (hsub j hj)
    runNotCanc := fun j hj => h.runNotCanc j (hsub j hj)
    runNotDone := by
      intro j hj hd
      simp only [stepPrim, List.map_append, List.mem_append, List.map_map] at hd
      rcases hd with hd | hd
      · exact h.runNotDone j (hsub j hj) hd
      · obtain ⟨j', hj', he⟩ := List.mem_map.mp hd
        have hj'' := (List.mem_filter.mp (List.mem_filter.mp hj').1).1
        exact hdis j' hj'' j hj (by simpa using he)
    runNd := (List.Sublist.map _ (selN_sublist (fun i => !c.finish i) s.rs.running 0)).nodup h.runNd
    runNotZomb := by
      intro j hj hz
      simp only [stepPrim, List.mem_append] at hz
      rcases hz with hz | hz
      · exact h.runNotZomb j (hsub j hj) hz
      · obtain ⟨j', hj', he⟩ := List.mem_map.mp hz
        exact hdis j' (List.mem_filter.mp hj').1 j hj he
    queuedNotRun := by
      intro j hj hr
      obtain ⟨j', hj', he⟩ := List.mem_map.mp hr
      exact h.queuedNotRun j hj (List.mem_map.mpr ⟨j', hsub j' hj', he⟩)
    serial := by
      intro hb
      simp only [stepPrim, h.serial hb, stayOf, enumFrom]
      rfl }

theorem Tr_markDead (t : Tid) (s : IS) (h : Tr cfg s) : Tr cfg (applyPrim cfg p (Prim.markDead t) s) := by
  by_cases hrun : ¬ s.rs.status = .running
  · rw [applyPrim_stopped _ _ hrun]; exact h
  rw [applyPrim_running _ _ (Decidable.not_not.mp hrun)]
  simp only [stepPrim]
  split
  · next hz =>
    exact { h with
      runNotDone := by
        intro j hj hd
        split at hd
        · exact h.runNotDone j hj hd
        · simp only [List.map_append, List.mem_append, List.map_cons, List.map_nil, List.mem_singleton] at hd
          rcases hd with hd | hd
          · exact h.runNotDone j hj hd
          · exact h.runNotZomb j hj (hd ▸ hz)
      runNotZomb := fun j hj hz' => h.runNotZomb j hj (List.mem_of_mem_erase hz') }
  · exact h

/-- `future_to_task.pop(future)` for a future that is cancelled or holds an outcome -/
theorem Tr_popFuture (t : Tid) (o : Option Outcome) (s : IS) (h : Tr cfg s)
    (hg : t ∈ s.cancelled ∨ t ∈ s.done.map (·.1)) : Tr cfg (applyPrim cfg p (Prim.popFuture t o) s) := by
  by_cases hrun : ¬ s.rs.status = .running
  · rw [applyPrim_stopped _ _ hrun]; exact h
  rw [applyPrim_running _ _ (Decidable.not_not.mp hrun)]
  simp only [stepPrim]
  have hnr : ∀ j ∈ s.rs.running, j.tid ≠ t := by
    intro j hj he
    rcases hg with hg | hg
    · exact h.runNotCanc j hj (he ▸ hg)
    · exact h.runNotDone j hj (he ▸ hg)
  split
  · exact { h with
      runFut := by
        intro j hj
        simp only [List.mem_filter, decide_eq_true_eq]
        exact ⟨h.runFut j hj, hnr j hj⟩
      runNotDone := by
        intro j hj hd
        obtain ⟨x, hx, he⟩ := List.mem_map.mp hd
        exact h.runNotDone j hj (List.mem_map.mpr ⟨x, (List.mem_filter.mp hx).1, he⟩) }
  · exact Tr_of_fields h rfl rfl rfl rfl rfl rfl rfl

theorem Tr_cancelOne (t : Tid) (s : IS) (h : Tr cfg s) (hg : t ∉ s.rs.running.map Job.tid) :
    Tr cfg (applyPrim cfg p (Prim.cancelOne t) s) := by
  by_cases hrun : ¬ s.rs.status = .running
  · rw [applyPrim_stopped _ _ hrun]; exact h
  rw [applyPrim_running _ _ (Decidable.not_not.mp hrun)]
  simp only [stepPrim]
  exact { h with
    runNotCanc := by
      intro j hj hc
      simp only [List.mem_append, List.mem_singleton] at hc
      rcases hc with hc | hc
      · exact h.runNotCanc j hj hc
      · exact hg (List.mem_map.mpr ⟨j, hj, hc⟩)
    queuedNotRun := fun j hj => h.queuedNotRun j (List.mem_of_mem_eraseP hj) }

theorem Tr_clearDeque (s : IS) (h : Tr cfg s) (hb : cfg.backend = .serial) :
    Tr cfg (applyPrim cfg p Prim.clearDeque s) := by
  by_cases hrun : ¬ s.rs.status = .running
  · rw [applyPrim_stopped _ _ hrun]; exact h
  rw [applyPrim_running _ _ (Decidable.not_not.mp hrun)]
  simp only [stepPrim]
  have hr := h.serial hb
  exact { h with
    runFut := by intro j hj; rw [hr] at hj; simp at hj
    queuedNotRun := by intro j hj; simp at hj }

theorem Tr_popDeque (s : IS) (h : Tr cfg s) : Tr cfg (applyPrim cfg p Prim.popDeque s) := by
  by_cases hrun : ¬ s.rs.status = .running
  · rw [applyPrim_stopped _ _ hrun]; exact h
  rw [applyPrim_running _ _ (Decidable.not_not.mp hrun)]
  simp only [stepPrim]
  split
  · exact Tr_of_fields h rfl rfl rfl rfl rfl rfl rfl
  · next j rest hq =>
    exact { h with
      queuedNotRun := fun j' hj' => h.queuedNotRun j' (by rw [hq]; exact List.mem_cons_of_mem _ hj') }

theorem Tr_stopOne (t : Tid) (s : IS) (h : Tr cfg s) : Tr cfg (applyPrim cfg p (Prim.stopOne t) s) := by
  by_cases hrun : ¬ s.rs.status = .running
  · rw [applyPrim_stopped _ _ hrun]; exact h
  rw [applyPrim_running _ _ (Decidable.not_not.mp hrun)]
  simp only [stepPrim]
  have hsub : ∀ j ∈ s.rs.running.eraseP (hasTid t), j ∈ s.rs.running := fun j hj => List.mem_of_mem_eraseP hj
  -- what is left has another tid
  have hne : ∀ j ∈ s.rs.running.eraseP (hasTid t), j.tid ≠ t := by
    intro j hj he
    have hnd := h.runNd
    generalize s.rs.running = l at hj hnd
    induction l with
    | nil => simp at hj
    | cons x xs ih =>
      rw [List.map_cons, List.nodup_cons] at hnd
      by_cases hx : hasTid t x = true
      · rw [List.eraseP_cons_of_pos hx] at hj
        have hxt : x.tid = t := by simpa [hasTid] using hx
        exact hnd.1 (hxt ▸ he ▸ List.mem_map.mpr ⟨j, hj, rfl⟩)
      · rw [List.eraseP_cons_of_neg hx] at hj
        rcases List.mem_cons.mp hj with rfl | hj
        · exact hx (by simp [hasTid, he])
        · exact ih hj hnd.2
  exact {
    aliveRun := by
      intro t' ht'
      by_cases hany : s.rs.running.any (hasTid t) = true
      · rw [if_pos hany] at ht'
        simp only [List.mem_filter, decide_eq_true_eq] at ht'
        obtain ⟨j, hj, rfl⟩ := List.mem_map.mp (h.aliveRun t' ht'.1)
        exact List.mem_map.mpr ⟨j, (List.mem_eraseP_of_neg (by simp [hasTid, ht'.2])).mpr hj, rfl⟩
      · rw [if_neg hany] at ht'
        obtain ⟨j, hj, rfl⟩ := List.mem_map.mp (h.aliveRun t' ht')
        have hjt : j.tid ≠ t := fun he => hany (List.any_eq_true.mpr ⟨j, hj, by simp [hasTid, he]⟩)
        exact List.mem_map.mpr ⟨j, (List.mem_eraseP_of_neg (by simp [hasTid, hjt])).mpr hj, rfl⟩
    runFut := fun j hj => h.runFut j (hsub j hj)
    runNotCanc := by
      intro j hj hc
      simp only [List.mem_append, List.mem_singleton] at hc
      rcases hc with hc | hc
      · exact h.runNotCanc j (hsub j hj) hc
      · exact hne j hj hc
    runNotDone := fun j hj => h.runNotDone j (hsub j hj)
    runNd := (List.Sublist.map _ (List.eraseP_sublist)).nodup h.runNd
    runNotZomb := fun j hj hz => h.runNotZomb j (hsub j hj) (List.mem_filter.mp hz).1
    queuedNotRun := by
      intro j hj hr
      obtain ⟨j', hj', he⟩ := List.mem_map.mp hr
      exact h.queuedNotRun j hj (List.mem_map.mpr ⟨j', hsub j' hj', he⟩)
    serial := by intro hb; rw [h.serial hb]; rfl }

end Lt
