import LabtechModel.Model.Run
namespace Lt

/-- structural invariant of the planning dictionaries -/
structure PI (s : TS) : Prop where
  pdEq : ∀ t, s.pendDeps t = s.ddeps t
  dual : ∀ d t, t ∈ s.pendDependents d ↔ d ∈ s.ddeps t
  depPend : ∀ t d, d ∈ s.ddeps t → t ∈ s.pending
  nodupP : s.pending.Nodup
  nodupD : ∀ t, (s.ddeps t).Nodup
  nodupDt : ∀ d, (s.pendDependents d).Nodup

theorem sadd_mem (l : List Nat) (x y : Nat) : y ∈ sadd l x ↔ y ∈ l ∨ y = x := by
  simp only [sadd]; split <;> simp <;> grind

theorem sadd_nodup (l : List Nat) (x : Nat) (h : l.Nodup) : (sadd l x).Nodup := by
  simp only [sadd]; split
  · exact h
  · rw [List.nodup_append]; simp_all; intro a ha hax; subst hax; contradiction

theorem PI_empty : PI {} := by
  constructor <;> simp

theorem insertDeps_PI (t : Tid) : ∀ (ds : List Tid) (s : TS), PI s → t ∈ s.pending →
    PI (insertDeps t ds s) ∧ (insertDeps t ds s).pending = s.pending ∧
    (insertDeps t ds s).instances = s.instances ∧ (insertDeps t ds s).processed = s.processed ∧
    (insertDeps t ds s).active = s.active := by
  intro ds
  induction ds with
  | nil => intro s h ht; exact ⟨h, rfl, rfl, rfl, rfl⟩
  | cons d ds ih =>
    intro s h ht
    simp only [insertDeps]
    have hstep : PI { s with
        ddeps := upd s.ddeps t (sadd (s.ddeps t) d)
        pendDeps := upd s.pendDeps t (sadd (s.pendDeps t) d)
        pendDependents := upd s.pendDependents d (sadd (s.pendDependents d) t) } := by
      constructor
      · intro x; simp only [upd]; split
        · next hx => subst hx; rw [h.pdEq]
        · exact h.pdEq x
      · intro d' t'
        simp only [upd]
        have := h.dual d' t'
        by_cases h1 : d' = d <;> by_cases h2 : t' = t <;> simp [h1, h2, sadd_mem] <;> grind
      · intro t' d'; simp only [upd]; split
        · next hx => subst hx; intro _; exact ht
        · exact h.depPend t' d'
      · exact h.nodupP
      · intro x; simp only [upd]; split
        · next hx => subst hx; exact sadd_nodup _ _ (h.nodupD _)
        · exact h.nodupD x
      · intro x; simp only [upd]; split
        · next hx => subst hx; exact sadd_nodup _ _ (h.nodupDt _)
        · exact h.nodupDt x
    obtain ⟨a, b, c, e, f⟩ := ih _ hstep ht
    exact ⟨a, b, c, e, f⟩

theorem insertTask_PI (i : Iid) (t : Tid) (deps : List Tid) (s : TS) (h : PI s) :
    PI (insertTask i t deps s) := by
  simp only [insertTask]
  have hbase : PI { s with pending := sadd s.pending t, instances := upd s.instances t (s.instances t ++ [i]) } := by
    constructor
    · exact h.pdEq
    · exact h.dual
    · intro t' d' hd; simp only [sadd_mem]; left; exact h.depPend t' d' hd
    · exact sadd_nodup _ _ h.nodupP
    · exact h.nodupD
    · exact h.nodupDt
  exact (insertDeps_PI t deps _ hbase (by simp [sadd_mem])).1

theorem processLevel_PI (p : Problem) (uc : Tid → Bool) :
    ∀ (l : List Iid) (s : TS) (acc : List Iid), PI s → PI (processLevel p uc l s acc).1 := by
  intro l
  induction l with
  | nil => intro s acc h; simpa [processLevel] using h
  | cons i is ih =>
    intro s acc h
    simp only [processLevel]
    split
    · exact ih s acc h
    · apply ih
      apply insertTask_PI
      constructor
      · exact h.pdEq
      · exact h.dual
      · exact h.depPend
      · exact h.nodupP
      · exact h.nodupD
      · exact h.nodupDt

theorem processTasks_PI (p : Problem) (uc : Tid → Bool) :
    ∀ (fuel : Nat) (l : List Iid) (s : TS), PI s → PI (processTasks p uc fuel l s) := by
  intro fuel
  induction fuel with
  | zero => intro l s h; simpa [processTasks] using h
  | succ n ih =>
    intro l s h
    simp only [processTasks]
    have := processLevel_PI p uc l s [] h
    split
    · exact this
    · exact ih _ _ this


/-! planning never touches the active sets -/
theorem insertTask_active (i : Iid) (t : Tid) (deps : List Tid) (s : TS) (h : PI s) :
    (insertTask i t deps s).active = s.active := by
  simp only [insertTask]
  have hbase : PI { s with pending := sadd s.pending t, instances := upd s.instances t (s.instances t ++ [i]) } := by
    constructor
    · exact h.pdEq
    · exact h.dual
    · intro t' d' hd; simp only [sadd_mem]; left; exact h.depPend t' d' hd
    · exact sadd_nodup _ _ h.nodupP
    · exact h.nodupD
    · exact h.nodupDt
  exact (insertDeps_PI t deps _ hbase (by simp [sadd_mem])).2.2.2.2

theorem processLevel_active (p : Problem) (uc : Tid → Bool) :
    ∀ (l : List Iid) (s : TS) (acc : List Iid), PI s → (processLevel p uc l s acc).1.active = s.active := by
  intro l
  induction l with
  | nil => intro s acc _; simp [processLevel]
  | cons i is ih =>
    intro s acc h
    simp only [processLevel]
    split
    · exact ih s acc h
    · have hs : PI { s with processed := s.processed ++ [i] } :=
        ⟨h.pdEq, h.dual, h.depPend, h.nodupP, h.nodupD, h.nodupDt⟩
      rw [ih _ _ (insertTask_PI _ _ _ _ hs), insertTask_active _ _ _ _ hs]

theorem processTasks_active (p : Problem) (uc : Tid → Bool) :
    ∀ (fuel : Nat) (l : List Iid) (s : TS), PI s → (processTasks p uc fuel l s).active = s.active := by
  intro fuel
  induction fuel with
  | zero => intro l s _; simp [processTasks]
  | succ n ih =>
    intro l s h
    simp only [processTasks]
    have h1 := processLevel_PI p uc l s [] h
    have h2 := processLevel_active p uc l s [] h
    split
    · exact h2
    · rw [ih _ _ h1, h2]

theorem plan_active (cfg : Config) (p : Problem) (store : Store) (fuel : Nat) :
    (plan cfg p store fuel).active = [] := by
  simp only [plan]
  rw [processTasks_active _ _ _ _ _ PI_empty]

theorem plan_PI (cfg : Config) (p : Problem) (store : Store) (fuel : Nat) :
    PI (plan cfg p store fuel) := processTasks_PI _ _ _ _ _ PI_empty

end Lt
