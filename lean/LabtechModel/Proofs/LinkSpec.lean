import LabtechModel.Proofs.LinkNeeded
/-!
# Link scheduler model ↔ history model, part 2: the history model's run in closed form

`specRun_closed`: the dependency-first fold `Store.specRun` over `Store.neededFrom` equals, field by
field, the closed form `CF` written with the scheduler side's failure-aware reference evaluation
`refEvalF` of the translated problem:
* `vals`   — every needed task `t` with `refEvalF t` (`none` = failed), last processed first;
* `execd`  — the needed tasks that are not served from the cache;
* `loaded` — the needed tasks that are, with their stored entry;
* `map`    — the pre-state overridden by this run's entry `(refEvalF t, metaStart g t, metaDur g t)`
             for exactly the needed, not cached, persisting tasks that have a reference value.
-/
namespace Lt.Link
open Lt

/-- the scheduler's store holds, for every task, the value of the entry the map holds -/
def StoreRel (m : Store.AMap) (st : Store) : Prop := ∀ t, lookup t st = (m t).map (fun s => s.val)

/-- the map only has entries of tasks that persist (their type has a cache, the Lab a storage) -/
def MapOK (U : Store.Universe) (m : Store.AMap) : Prop := ∀ t, (m t).isSome = true → Store.persists U t = true

theorem useCache_eq (U : Store.Universe) (mp : Nat → Option Nat) (g : Nat) (fl req : List Tid)
    (cfg : Config) (m : Store.AMap) (st : Store) (hrel : StoreRel m st) (hmap : MapOK U m) (t : Tid) :
    useCache cfg (toProblem U mp g fl req) st t = (!cfg.bust && (m t).isSome) := by
  unfold useCache
  rw [toProblem_cacheable, hrel t]
  have := hmap t
  cases hm : m t with
  | none => simp
  | some s => rw [hm] at this; simp [this]

section closed
variable (U : Store.Universe) (mp : Nat → Option Nat) (g : Nat) (fl req : List Tid)
  (cfg : Config) (m : Store.AMap) (st : Store)

/-- the scheduler side's reference value of a task of the translated problem -/
def ref (t : Tid) : Option Val := refEvalF cfg (toProblem U mp g fl req) st id t

def ucOf (t : Tid) : Bool := !cfg.bust && (m t).isSome

/-- the entry run `g` writes for `t` when `run()` returned `v` -/
def entryOf (g : Nat) (t : Tid) (v : Val) : Store.Stored :=
  { val := v, start := Store.metaStart g t, dur := Store.metaDur g t }

def cfMap (l : List Tid) : Store.AMap := fun x =>
  if x ∈ l ∧ ucOf cfg m x = false ∧ Store.persists U x = true then
    match ref U mp g fl req cfg st x with
    | some v => some (entryOf g x v)
    | none => m x
  else m x

theorem cfMap_apply (l : List Tid) (x : Tid) :
    cfMap U mp g fl req cfg m st l x =
      if x ∈ l ∧ ucOf cfg m x = false ∧ Store.persists U x = true then
        match ref U mp g fl req cfg st x with
        | some v => some (entryOf g x v)
        | none => m x
      else m x := rfl

def cfVals (l : List Tid) : List (Tid × Option Val) := (l.map (fun t => (t, ref U mp g fl req cfg st t))).reverse
def cfExecd (l : List Tid) : List Tid := (l.filter (fun t => !ucOf cfg m t)).reverse
def cfLoaded (l : List Tid) : List (Tid × Store.Stored) :=
  (l.filterMap (fun t => if ucOf cfg m t then (m t).map (fun s => (t, s)) else none)).reverse

/-- the closed form of the history model's run over the processed list `l` -/
def CF (l : List Tid) : Store.AAcc :=
  { map := cfMap U mp g fl req cfg m st l, vals := cfVals U mp g fl req cfg st l,
    execd := cfExecd cfg m l, loaded := cfLoaded cfg m l }

theorem lookupV_map (f : Tid → Option Val) (d : Tid) : ∀ (l : List Tid),
    Store.lookupV d ((l.map (fun t => (t, f t))).reverse) = if d ∈ l then some (f d) else none := by
  have key : ∀ (l : List Tid), Store.lookupV d (l.map (fun t => (t, f t))) = if d ∈ l then some (f d) else none := by
    intro l
    induction l with
    | nil => simp [Store.lookupV]
    | cons a l ih =>
      simp only [List.map_cons, Store.lookupV, ih, List.mem_cons]
      by_cases h : a = d
      · subst h; simp
      · have h' : ¬ d = a := fun e => h e.symm
        simp [h, h']
  intro l
  rw [← List.map_reverse, key]
  simp

theorem lookupV_cfVals (l : List Tid) (d : Tid) :
    Store.lookupV d (cfVals U mp g fl req cfg st l) = if d ∈ l then some (ref U mp g fl req cfg st d) else none :=
  lookupV_map _ d l

theorem CF_nil : CF U mp g fl req cfg m st [] = { map := m } := by
  simp only [CF, cfVals, cfExecd, cfLoaded]
  congr 1

theorem ucOf_eq (hrel : StoreRel m st) (hmap : MapOK U m) (t : Tid) :
    useCache cfg (toProblem U mp g fl req) st t = ucOf cfg m t :=
  useCache_eq U mp g fl req cfg m st hrel hmap t

variable (hU : UOK U req) (hrel : StoreRel m st) (hmap : MapOK U m)
include hU hrel hmap

/-- the reference value of a task of the translated problem, unfolded once -/
theorem ref_unfold (t : Tid) :
    ref U mp g fl req cfg st t =
      if ucOf cfg m t then (m t).map (fun s => s.val)
      else if (toProblem U mp g fl req).fails t then none
      else (toProblem U mp g fl req).behave t ((U.deps t).map (ref U mp g fl req cfg st)) := by
  have H := toProblem_refHypF U mp g fl req hU
  have h := refEvalF_unfold cfg (toProblem U mp g fl req) st id H.acyc H.objOK t
  have hd : diesIn cfg (toProblem U mp g fl req) ((toProblem U mp g fl req).tidOf t) = false :=
    toProblem_diesIn U mp g fl req cfg _
  rw [hd] at h
  have ht : (toProblem U mp g fl req).tidOf t = t := rfl
  rw [ht] at h
  rw [ucOf_eq U mp g fl req cfg m st hrel hmap t, hrel t] at h
  simp only [Bool.false_eq_true, if_false] at h
  have hc : ((toProblem U mp g fl req).children (id t)).map (toProblem U mp g fl req).tidOf = U.deps t := by
    show (U.deps t).map id = U.deps t
    simp
  rw [hc] at h
  exact h

/-- one planned task, processed after the list `l` that holds its dependencies -/
theorem stepA_CF (l : List Tid) (t : Tid) (hnt : t ∉ l)
    (hdeps : ucOf cfg m t = false → ∀ d ∈ U.deps t, d ∈ l) :
    Store.stepA U cfg.bust g fl (CF U mp g fl req cfg m st l) t = CF U mp g fl req cfg m st (l ++ [t]) := by
  have hmt : (CF U mp g fl req cfg m st l).map t = m t := by
    simp [CF, cfMap_apply, hnt]
  have hun := ref_unfold U mp g fl req cfg m st hU hrel hmap t
  cases huc : ucOf cfg m t with
  | true =>
    -- served from the cache
    have hb : cfg.bust = false := by
      simp only [ucOf, Bool.and_eq_true, Bool.not_eq_true'] at huc; exact huc.1
    obtain ⟨s, hs⟩ : ∃ s, m t = some s := by
      simp only [ucOf, Bool.and_eq_true] at huc
      exact Option.isSome_iff_exists.mp huc.2
    rw [huc, hs] at hun
    simp only [if_true, Option.map_some] at hun
    unfold Store.stepA
    rw [hb, hmt, hs]
    simp only [Bool.false_eq_true, if_false, CF]
    congr 1
    · funext x
      simp only [cfMap_apply, List.mem_append, List.mem_singleton]
      by_cases hx : x = t
      · subst hx; simp [huc, hnt]
      · simp [hx]
    · simp [cfVals, hun]
    · simp [cfExecd, List.filter_append, huc]
    · simp [cfLoaded, List.filterMap_append, huc, hs]
  | false =>
    -- executed
    have hnone : (if cfg.bust = true then none else (CF U mp g fl req cfg m st l).map t) = none := by
      rw [hmt]
      simp only [ucOf] at huc
      cases hb : cfg.bust with
      | true => simp
      | false =>
        rw [hb] at huc
        simp only [Bool.not_false, Bool.true_and] at huc
        cases hm : m t with
        | none => simp
        | some s => rw [hm] at huc; simp at huc
    rw [huc] at hun
    simp only [Bool.false_eq_true, if_false] at hun
    have hrun : Store.runTask U g fl (CF U mp g fl req cfg m st l).vals t = ref U mp g fl req cfg st t := by
      rw [runTask_eq U mp g fl req, hun]
      have : (U.deps t).map (fun d => (Store.lookupV d (CF U mp g fl req cfg m st l).vals).getD none)
          = (U.deps t).map (ref U mp g fl req cfg st) := by
        apply List.map_congr_left
        intro d hd
        show (Store.lookupV d (cfVals U mp g fl req cfg st l)).getD none = _
        rw [lookupV_cfVals, if_pos (hdeps huc d hd)]
        rfl
      rw [this]
    unfold Store.stepA
    rw [hnone]
    simp only [hrun]
    cases hr : ref U mp g fl req cfg st t with
    | some v =>
      simp only [CF]
      congr 1
      · funext x
        simp only [cfMap_apply, List.mem_append, List.mem_singleton]
        by_cases hx : x = t
        · subst hx
          cases hp : Store.persists U x <;> simp [huc, hr, hnt, hp, Store.aUpdate, entryOf, cfMap_apply]
        · by_cases hp : Store.persists U t = true
          · simp [hx, hp, Store.aUpdate, cfMap_apply]
          · simp [hx, hp, cfMap_apply]
      · simp [cfVals, hr]
      · simp [cfExecd, List.filter_append, huc]
      · simp [cfLoaded, List.filterMap_append, huc]
    | none =>
      simp only [CF]
      congr 1
      · funext x
        simp only [cfMap_apply, List.mem_append, List.mem_singleton]
        by_cases hx : x = t
        · subst hx; simp [hr, hnt]
        · simp [hx]
      · simp [cfVals, hr]
      · simp [cfExecd, List.filter_append, huc]
      · simp [cfLoaded, List.filterMap_append, huc]

/-- the fold over the rest of an ascending, dependency-closed list -/
theorem fold_CF : ∀ (l₂ l₁ : List Tid), (l₁ ++ l₂).Pairwise (· < ·) →
    (∀ t ∈ l₁ ++ l₂, ucOf cfg m t = false → ∀ d ∈ U.deps t, d ∈ l₁ ++ l₂) →
    l₂.foldl (Store.stepA U cfg.bust g fl) (CF U mp g fl req cfg m st l₁) = CF U mp g fl req cfg m st (l₁ ++ l₂) := by
  intro l₂
  induction l₂ with
  | nil => intro l₁ _ _; simp
  | cons t l₂ ih =>
    intro l₁ hp hcl
    have hp' := List.pairwise_append.mp hp
    have hlt : ∀ a ∈ l₁, a < t := fun a ha => hp'.2.2 a ha t List.mem_cons_self
    have hgt : ∀ b ∈ l₂, t < b := fun b hb => (List.pairwise_cons.mp hp'.2.1).1 b hb
    have hnt : t ∉ l₁ := fun h => Nat.lt_irrefl _ (hlt t h)
    have hdeps : ucOf cfg m t = false → ∀ d ∈ U.deps t, d ∈ l₁ := by
      intro huc d hd
      have hdt : d < t := hU.down t d hd
      have := hcl t (by simp) huc d hd
      rcases List.mem_append.mp this with h | h
      · exact h
      · rcases List.mem_cons.mp h with h | h
        · subst h; exact absurd hdt (Nat.lt_irrefl _)
        · exact absurd (Nat.lt_trans (hgt d h) hdt) (Nat.lt_irrefl _)
    simp only [List.foldl_cons]
    rw [stepA_CF U mp g fl req cfg m st hU hrel hmap l₁ t hnt hdeps]
    have hassoc : l₁ ++ t :: l₂ = (l₁ ++ [t]) ++ l₂ := by simp
    rw [hassoc] at hp hcl ⊢
    exact ih (l₁ ++ [t]) hp hcl

/-- **the history model's run in closed form** -/
theorem specRun_closed :
    Store.specRun U cfg.bust g fl req m =
      CF U mp g fl req cfg m st (Store.neededFrom U (ucOf cfg m) req) := by
  obtain ⟨hpw, hmem⟩ := neededFrom_spec U (ucOf cfg m) req hU
  have h := fold_CF U mp g fl req cfg m st hU hrel hmap (Store.neededFrom U (ucOf cfg m) req) []
    (by simpa using hpw)
    (by
      intro t ht huc d hd
      simp only [List.nil_append] at ht ⊢
      exact (hmem d).mpr (Needed.dep ((hmem t).mp ht) huc hd))
  rw [CF_nil U mp g fl req cfg m st] at h
  simp only [List.nil_append] at h
  exact h

end closed

end Lt.Link
