import LabtechModel.Model.Run
namespace Lt

/-- per-type limit holds for a list of active tasks -/
def LimitOK (p : Problem) (active : List Tid) : Prop :=
  ∀ T L, p.maxPar T = some L → typeCount p active T ≤ L

theorem typeCount_append (p : Problem) (a b : List Tid) (T : Nat) :
    typeCount p (a ++ b) T = typeCount p a T + typeCount p b T := by
  simp [typeCount, List.filter_append]

theorem typeCount_filter_le (p : Problem) (a : List Tid) (q : Tid → Bool) (T : Nat) :
    typeCount p (a.filter q) T ≤ typeCount p a T := by
  induction a with
  | nil => simp [typeCount]
  | cons x xs ih =>
    simp only [typeCount, List.filter_cons] at *
    grind

theorem readyAux_limit (p : Problem) (s : TS) (T L : Nat) (hL : p.maxPar T = some L) :
    ∀ (l : List Tid) (c : Nat → Nat), c T ≤ L →
      c T + typeCount p (readyAux p s l c) T ≤ L := by
  intro l
  induction l with
  | nil => intro c h; simp [readyAux, typeCount]; exact h
  | cons t rest ih =>
    intro c h
    have h1 := ih c h
    have h2 := ih (bump c (p.ty t))
    simp only [readyAux, typeCount, bump] at *
    grind

/-- submitTask / startProcesses never touch the scheduler dictionaries -/
theorem startProcesses_ts (cfg : Config) (rs : RS) : (startProcesses cfg rs).ts = rs.ts := by
  simp [startProcesses]

theorem submitTask_ts (cfg : Config) (p : Problem) (rs : RS) (t : Tid) :
    (submitTask cfg p rs t).ts = rs.ts := by
  simp only [submitTask]
  split <;> simp [startProcesses_ts]

/-- after submitting a list of tasks the active list is extended by a sublist-prefix of it -/
theorem submitAll_active (cfg : Config) (p : Problem) :
    ∀ (l : List Tid) (rs : RS), ∃ k, (submitAll cfg p l rs).ts.active = rs.ts.active ++ l.take k := by
  intro l
  induction l with
  | nil => intro rs; exact ⟨0, by simp [submitAll]⟩
  | cons t ts ih =>
    intro rs
    simp only [submitAll]
    cases h : startTask rs.ts t with
    | none => exact ⟨0, by simp⟩
    | some s' =>
      simp only
      obtain ⟨k, hk⟩ := ih (submitTask cfg p { rs with ts := s' } t)
      refine ⟨k + 1, ?_⟩
      rw [hk, submitTask_ts]
      simp only [startTask] at h
      cases hr : setRemove rs.ts.pending t with
      | none => simp [hr] at h
      | some pend =>
        simp only [hr, Option.some.injEq] at h
        subst h
        simp [List.take_succ_cons]

theorem typeCount_take_le (p : Problem) (l : List Tid) (k T : Nat) :
    typeCount p (l.take k) T ≤ typeCount p l T := by
  induction l generalizing k with
  | nil => simp [typeCount]
  | cons x xs ih =>
    cases k with
    | zero => simp [typeCount]
    | succ k =>
      have := ih k
      simp only [typeCount, List.take_succ_cons, List.filter_cons] at *
      grind

theorem submitAll_limit (cfg : Config) (p : Problem) (rs : RS) (h : LimitOK p rs.ts.active) :
    LimitOK p (submitAll cfg p (readyTasks p rs.ts) rs).ts.active := by
  intro T L hL
  obtain ⟨k, hk⟩ := submitAll_active cfg p (readyTasks p rs.ts) rs
  rw [hk, typeCount_append]
  have h1 := readyAux_limit p rs.ts T L hL rs.ts.pending (typeCount p rs.ts.active) (h T L hL)
  have h2 := typeCount_take_le p (readyTasks p rs.ts) k T
  simp only [readyTasks] at h2 ⊢
  omega

/-- unfolding of a successful `completeTask` -/
theorem completeTask_some (s s' : TS) (t : Tid) (rem : List Tid)
    (h : completeTask s t = some (s', rem)) :
    ∃ act pd pdt rem0, setRemove s.active t = some act ∧
      unblock t (s.pendDependents t) s.pendDeps = some pd ∧
      release t (s.ddeps t) s.pendDependents = some (pdt, rem0) ∧
      s' = { s with active := act, pendDeps := pd, pendDependents := pdt } ∧
      rem = (if (pdt t).isEmpty then rem0 ++ [t] else rem0) := by
  unfold completeTask at h
  split at h
  · cases h
  · next act hact =>
    split at h
    · cases h
    · next pd hpd =>
      split at h
      · cases h
      · next pdt rem0 hrel =>
        simp only [Option.some.injEq, Prod.mk.injEq] at h
        exact ⟨act, pd, pdt, rem0, hact, hpd, hrel, h.1.symm, h.2.symm⟩

theorem setRemove_some (l l' : List Nat) (x : Nat) (h : setRemove l x = some l') :
    x ∈ l ∧ l' = l.filter (· ≠ x) := by
  simp only [setRemove] at h
  split at h
  · next hx => exact ⟨hx, (Option.some.inj h).symm⟩
  · cases h

theorem completeTask_active (s s' : TS) (t : Tid) (rem : List Tid)
    (h : completeTask s t = some (s', rem)) : s'.active = s.active.filter (· ≠ t) := by
  obtain ⟨act, pd, pdt, rem0, hact, _, _, hs, _⟩ := completeTask_some s s' t rem h
  subst hs
  exact (setRemove_some _ _ _ hact).2

end Lt
