import LabtechModel.Proofs.LinkExampleKeys
import LabtechModel.Proofs.DumpsInj
/-!
# `DumpsInjOn` discharged: `json.dumps` separates the documents that occur — proved

`Lt.Link.DumpsInjOn n task` was one of the two named assumptions of `keyInj_of_params` (C06 / C08).
`Lt.Params.dumps_injective` (`Proofs/DumpsInj.lean`) proves it for every family of tasks whose float
parameters carry float tokens (`WfFloatsOn`, the decidable `Task.wfFloats` for every task of the
family): `dumpsInjOn_of_wf`, `dumpsInjOn_of_wfFloats`.  `keyInj_of_params_dumps_proved` is
`keyInj_of_params` with that assumption replaced; SHA-1 collision-freeness (`ShaInjOn`) is the one
named assumption that remains.
-/
namespace Lt.Link
open Lt.Params (Task cacheKeyPre serTask dumps wfTask)

/-- every task of the family has well-formed float tokens at every depth (decidable per task) -/
def WfFloatsOn (n : Nat) (task : Nat → Task) : Prop := ∀ t, t < n → (task t).wfFloats = true

/-- `DumpsInjOn` is a theorem for documents with well-formed float tokens -/
theorem dumpsInjOn_of_wf (n : Nat) (task : Nat → Task)
    (h : ∀ t, t < n → (serTask (task t)).wfTokens = true) : DumpsInjOn n task :=
  fun t t' ht ht' he => Lt.Params.dumps_injective _ _ (h t ht) (h t' ht') he

theorem dumpsInjOn_of_wfFloats (n : Nat) (task : Nat → Task) (h : WfFloatsOn n task) : DumpsInjOn n task :=
  dumpsInjOn_of_wf n task (fun t ht => Lt.Params.serTask_wfTokens _ (h t ht))

/-- **C07 ⇒ `KeyInj`**, with `json.dumps` injectivity proved instead of assumed -/
theorem keyInj_of_params_dumps_proved (U : Store.Universe) (sha1 : String → String) (task : Nat → Task)
    (hrep : Represents U sha1 task) (hwf : WfTasks U.n task) (hdist : Distinct U.n task)
    (hsha : ShaInjOn sha1 U.n task) (hfl : WfFloatsOn U.n task) : Store.KeyInj U :=
  keyInj_of_params U sha1 task hrep hwf hdist hsha (dumpsInjOn_of_wfFloats U.n task hfl)

/-- the example universe satisfies the new hypothesis -/
theorem exTask_wfFloats : WfFloatsOn exPU.n exTask := by
  have key : ∀ t : Fin 3, (exTask t.val).wfFloats = true := by decide
  intro t ht
  exact key ⟨t, ht⟩

/-- `KeyInj` of the example universe without any `json.dumps` assumption -/
theorem exPU_keyInj_dumps_proved : Store.KeyInj exPU :=
  keyInj_of_params_dumps_proved exPU exSha exTask exPU_represents exTask_wf exTask_distinct exSha_injOn
    exTask_wfFloats

end Lt.Link
