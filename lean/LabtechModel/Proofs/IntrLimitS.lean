import LabtechModel.Proofs.IntrLimitW
/-!
# M10, serial runner: at most one task is started and not yet yielded, after EVERY primitive

Counted on the observable trace: `nStart` = number of `Ev.start` records (`run()` / the cache load
was entered), `nYield` = number of `Ev.yield` records (the coordinator got the task back from
`runner.wait`). For the serial runner `nStart ≤ nYield + 1` after every primitive of the main stream
and of both interrupt handlers; between two `wait` calls of an uninterrupted run `nStart ≤ nYield`.
-/
namespace Lt

variable {cfg : Config} {p : Problem}

def isStartEv : Ev → Bool
  | .start _ => true
  | _ => false

def isYieldEv : Ev → Bool
  | .yield _ _ => true
  | _ => false

def nStart (s : IS) : Nat := s.rs.trace.countP isStartEv
def nYield (s : IS) : Nat := s.rs.trace.countP isYieldEv

theorem nYield_mono (q : Prim) (s : IS) : nYield s ≤ nYield (applyPrim cfg p q s) := by
  obtain ⟨l, hl, _⟩ := trace_ext (cfg := cfg) (p := p) q s
  simp only [nYield, hl, List.countP_append]
  omega

theorem nStart_nolaunch (q : Prim) (s : IS) (h : q.launches = false) :
    nStart (applyPrim cfg p q s) = nStart s := by
  obtain ⟨l, hl, hn⟩ := trace_ext (cfg := cfg) (p := p) q s
  have : l.countP isStartEv = 0 := by
    rw [List.countP_eq_zero]
    intro e he
    have := hn h e he
    cases e <;> simp [evLaunch, isStartEv] at this ⊢
  simp only [nStart, hl, List.countP_append, this, Nat.add_zero]

/-- primitives that add no `start` record -/
def Prim.noRun : Prim → Bool
  | .procStart _ | .serialRun => false
  | _ => true

theorem noRun_of_nolaunch {q : Prim} (h : q.launches = false) : q.noRun = true := by
  cases q <;> simp [Prim.launches] at h <;> rfl

theorem nStart_same (q : Prim) (s : IS) (h : q.noRun = true) : nStart (applyPrim cfg p q s) = nStart s := by
  by_cases hl : q.launches = false
  · exact nStart_nolaunch q s hl
  · by_cases hrun : s.rs.status = .running
    · rw [applyPrim_running _ _ hrun]
      cases q <;> simp [Prim.launches] at hl <;> simp [Prim.noRun] at h <;>
        simp only [stepPrim, nStart, keyErr] <;> (repeat' split) <;>
        simp [List.countP_append, isStartEv]
    · rw [applyPrim_stopped _ _ hrun]

theorem nStart_serialRun (s : IS) : nStart (applyPrim cfg p Prim.serialRun s) ≤ nStart s + 1 := by
  by_cases hrun : s.rs.status = .running
  · rw [applyPrim_running _ _ hrun]
    simp only [stepPrim, nStart]
    split
    · simp only [runEvents]
      split <;> simp [List.countP_append, List.countP_cons, isStartEv]
    · omega
  · rw [applyPrim_stopped _ _ hrun]; omega

theorem status_back (q : Prim) (s : IS) (h : (applyPrim cfg p q s).rs.status = .running) :
    s.rs.status = .running := by
  by_cases hrun : s.rs.status = .running
  · exact hrun
  · rw [applyPrim_stopped _ _ hrun] at h; exact h

theorem popFuture_yield (t : Tid) (o : Outcome) (s : IS)
    (h : (applyPrim cfg p (Prim.popFuture t (some o)) s).rs.status = .running) :
    nYield (applyPrim cfg p (Prim.popFuture t (some o)) s) = nYield s + 1 := by
  have hrun := status_back _ s h
  rw [applyPrim_running _ _ hrun] at h ⊢
  simp only [stepPrim] at h ⊢
  split at h
  · rename_i ht
    simp [nYield, ht, List.countP_append, isYieldEv]
  · simp [keyErr] at h

/-- after every primitive -/
def J1 (s : IS) : Prop := nStart s ≤ nYield s + 1
/-- between two `wait` calls -/
def J0 (s : IS) : Prop := J1 s ∧ (s.rs.status = .running → nStart s ≤ nYield s)

theorem J1_step (q : Prim) (s : IS) (hq : q.noRun = true) (h : J1 s) : J1 (applyPrim cfg p q s) := by
  have h1 := nStart_same (cfg := cfg) (p := p) q s hq
  have h2 := nYield_mono (cfg := cfg) (p := p) q s
  unfold J1 at *
  omega

theorem J0_step (q : Prim) (s : IS) (hq : q.noRun = true) (h : J0 s) : J0 (applyPrim cfg p q s) := by
  refine ⟨J1_step q s hq h.1, fun hr => ?_⟩
  have h1 := nStart_same (cfg := cfg) (p := p) q s hq
  have h2 := nYield_mono (cfg := cfg) (p := p) q s
  have := h.2 (status_back q s hr)
  omega

theorem always_J0 : ∀ (ps : List Prim) (s : IS), (∀ q ∈ ps, q.noRun = true) → J0 s → Always cfg p J0 ps s := by
  intro ps
  induction ps with
  | nil => intro s _ h; exact h
  | cons q ps ih =>
    intro s hq h
    exact ⟨h, ih _ (fun q' hq' => hq q' (List.mem_cons_of_mem _ hq')) (J0_step q s (hq q List.mem_cons_self) h)⟩

theorem always_J1 : ∀ (ps : List Prim) (s : IS), (∀ q ∈ ps, q.noRun = true) → J1 s → Always cfg p J1 ps s := by
  intro ps
  induction ps with
  | nil => intro s _ h; exact h
  | cons q ps ih =>
    intro s hq h
    exact ⟨h, ih _ (fun q' hq' => hq q' (List.mem_cons_of_mem _ hq')) (J1_step q s (hq q List.mem_cons_self) h)⟩

theorem yield_noRun (req : List Tid) (ts : TS) (t : Tid) (o : Outcome) :
    ∀ q ∈ yieldPrims cfg req ts t o, q.noRun = true :=
  members_yield (P := fun q => q.noRun = true)
    ⟨fun _ h _ => noRun_of_nolaunch h, fun _ _ => rfl⟩ req ts t o

/-! ## the serial streams -/
theorem always_J_wait_serial (hb : cfg.backend = .serial) (req : List Tid) (c : Choice) (s : IS) (h : J0 s) :
    Always cfg p J1 (waitPrims cfg p req c s) s ∧ J0 (runPrims cfg p (waitPrims cfg p req c s) s) := by
  simp only [waitPrims, hb, if_true]
  split
  · have a := always_J0 (cfg := cfg) (p := p) [Prim.popDeque] s
      (fun q hq => by simp only [List.mem_singleton] at hq; subst hq; rfl) h
    exact ⟨a.mono (fun _ hs => hs.1), a.last⟩
  · rename_i j rest hq
    obtain ⟨o, ho⟩ : ∃ o, o = runOutcome p s.rs.ts s.rs.store { j with snap := some s.rs.results } := ⟨_, rfl⟩
    rw [← ho]
    have b1 := J0_step (cfg := cfg) (p := p) Prim.popDeque s rfl h
    obtain ⟨s1, hs1⟩ : ∃ s1, s1 = applyPrim cfg p Prim.popDeque s := ⟨_, rfl⟩
    rw [← hs1] at b1
    have b2 : J1 (applyPrim cfg p Prim.serialRun s1) := by
      have h1 := nStart_serialRun (cfg := cfg) (p := p) s1
      have h2 := nYield_mono (cfg := cfg) (p := p) Prim.serialRun s1
      unfold J1
      by_cases hr : s1.rs.status = .running
      · have := b1.2 hr; omega
      · rw [applyPrim_stopped _ _ hr]; exact b1.1
    obtain ⟨s2, hs2⟩ : ∃ s2, s2 = applyPrim cfg p Prim.serialRun s1 := ⟨_, rfl⟩
    rw [← hs2] at b2
    have b3 := J1_step (cfg := cfg) (p := p) Prim.serialSaveBegin s2 rfl b2
    obtain ⟨s3, hs3⟩ : ∃ s3, s3 = applyPrim cfg p Prim.serialSaveBegin s2 := ⟨_, rfl⟩
    rw [← hs3] at b3
    have b4 := J1_step (cfg := cfg) (p := p) Prim.serialSaveEnd s3 rfl b3
    obtain ⟨s4, hs4⟩ : ∃ s4, s4 = applyPrim cfg p Prim.serialSaveEnd s3 := ⟨_, rfl⟩
    rw [← hs4] at b4
    have b5 : J0 (applyPrim cfg p (Prim.popFuture j.tid (some o)) s4) := by
      refine ⟨J1_step _ s4 rfl b4, fun hr => ?_⟩
      have h1 := popFuture_yield (cfg := cfg) (p := p) j.tid o s4 hr
      have h2 := nStart_same (cfg := cfg) (p := p) (Prim.popFuture j.tid (some o)) s4 rfl
      unfold J1 at b4
      omega
    obtain ⟨s5, hs5⟩ : ∃ s5, s5 = applyPrim cfg p (Prim.popFuture j.tid (some o)) s4 := ⟨_, rfl⟩
    rw [← hs5] at b5
    have a := always_J0 (cfg := cfg) (p := p) (yieldPrims cfg req s.rs.ts j.tid o) s5 (yield_noRun req _ _ _) b5
    have e5 : runPrims cfg p ([Prim.popDeque, Prim.serialRun, Prim.serialSaveBegin, Prim.serialSaveEnd] ++
        [Prim.popFuture j.tid (some o)]) s = s5 := by
      rw [hs5, hs4, hs3, hs2, hs1]; rfl
    have key : ∀ (pre : List Prim), runPrims cfg p pre s = s5 → Always cfg p J1 pre s →
        (Always cfg p J1 (pre ++ yieldPrims cfg req s.rs.ts j.tid o) s ∧
          J0 (runPrims cfg p (pre ++ yieldPrims cfg req s.rs.ts j.tid o) s)) := by
      intro pre e hA
      rw [always_append, runPrims_append, e]
      exact ⟨⟨hA, a.mono (fun _ hs => hs.1)⟩, a.last⟩
    apply key _ e5
    show Always cfg p J1 [Prim.popDeque, Prim.serialRun, Prim.serialSaveBegin, Prim.serialSaveEnd,
      Prim.popFuture j.tid (some o)] s
    refine ⟨h.1, ?_, ?_, ?_, ?_, ?_⟩
    · rw [← hs1]; exact b1.1
    · rw [← hs1, ← hs2]; exact b2
    · rw [← hs1, ← hs2, ← hs3]; exact b3
    · rw [← hs1, ← hs2, ← hs3, ← hs4]; exact b4
    · rw [← hs1, ← hs2, ← hs3, ← hs4, ← hs5]; exact b5.1

theorem submit_noRun_serial (hb : cfg.backend = .serial) : ∀ (l : List Tid) (s : IS),
    ∀ q ∈ submitPrims cfg p l s, q.noRun = true := by
  intro l
  induction l with
  | nil => intro s q hq; simp [submitPrims] at hq
  | cons t ts ih =>
    intro s q hq
    simp only [submitPrims, List.mem_append] at hq
    rcases hq with hq | hq
    · simp only [submitOnePrims, hb, if_true, List.mem_cons, List.not_mem_nil, or_false] at hq
      rcases hq with rfl | rfl <;> rfl
    · exact ih _ q hq

theorem always_J_iteration_serial (hb : cfg.backend = .serial) (req : List Tid) (c : Choice) (s : IS)
    (h : J0 s) : Always cfg p J1 (iterationPrims cfg p req c s) s ∧
      J0 (runPrims cfg p (iterationPrims cfg p req c s) s) := by
  have a := always_J0 (cfg := cfg) (p := p) (submitPrims cfg p (readyTasks p s.rs.ts) s) s
    (submit_noRun_serial hb (readyTasks p s.rs.ts) s) h
  simp only [iterationPrims]
  split
  · obtain ⟨w1, w2⟩ := always_J_wait_serial (cfg := cfg) (p := p) hb req c _ a.last
    rw [always_append, runPrims_append]
    exact ⟨⟨a.mono (fun _ hs => hs.1), w1⟩, w2⟩
  · exact ⟨a.mono (fun _ hs => hs.1), a.last⟩

theorem always_J_main_serial (hb : cfg.backend = .serial) (req : List Tid) : ∀ (sched : List Choice) (s : IS),
    J0 s → Always cfg p J1 (mainStream cfg p req sched s) s := by
  intro sched
  induction sched with
  | nil => intro s h; exact h.1
  | cons c cs ih =>
    intro s h
    unfold mainStream
    split
    · split
      · obtain ⟨a1, a2⟩ := always_J_iteration_serial (cfg := cfg) (p := p) hb req c s h
        rw [always_append]
        exact ⟨a1, ih _ a2⟩
      · exact h.1
    · exact h.1

theorem always_J_handler (req : List Tid) (ds : List Choice) (s : IS) (h : J1 s) :
    Always cfg p J1 (handlerPrims cfg p req ds s) s :=
  always_J1 _ s (fun q hq => noRun_of_nolaunch (members_handler req ds s q hq).1) h

theorem always_J_second (req : List Tid) (s : IS) (h : J1 s) :
    Always cfg p J1 (secondPrims cfg p req s) s := by
  by_cases hrun : s.rs.status = .running
  · exact always_J1 _ s (fun q hq => noRun_of_nolaunch (members_second req s hrun q hq).1) h
  · exact always_stopped _ s hrun h

theorem J0_init (store : Store) (fuel : Nat) : J0 (initIS cfg p store fuel) := by
  simp [J0, J1, nStart, nYield, initIS, initRS]

end Lt
