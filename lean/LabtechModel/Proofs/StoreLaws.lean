import LabtechModel.Model.Store
/-! Map laws of the storage/cache model and the step-wise refinement to the specification map. -/
namespace Lt.Store

/-! ### association-list facts -/
theorem lookup_filter_same (k : Key) (d : Disk) : lookup k (dropKey k d) = none := by
  induction d with
  | nil => rfl
  | cons p ps ih =>
    by_cases h : p.1 = k
    · simp [dropKey, h, ih]
    · simp [dropKey, h, lookup, ih]

theorem lookup_filter_other (k k' : Key) (d : Disk) (h : k' ≠ k) :
    lookup k' (dropKey k d) = lookup k' d := by
  induction d with
  | nil => rfl
  | cons p ps ih =>
    by_cases hp : p.1 = k
    · have hk : ¬ p.1 = k' := fun e => h (e ▸ hp ▸ rfl)
      simp [dropKey, hp, lookup, ih]
      intro hkk; exact absurd hkk.symm h
    · simp [dropKey, hp, lookup, ih]

theorem lookup_cons_filter_other (k k' : Key) (e : Entry) (d : Disk) (h : k' ≠ k) :
    lookup k' ((k, e) :: dropKey k d) = lookup k' d := by
  have : ¬ k = k' := fun x => h x.symm
  simp only [lookup, this, if_false]
  exact lookup_filter_other k k' d h

theorem mem_dropKey (k : Key) (d : Disk) (q : Key × Entry) (h : q ∈ dropKey k d) : q ∈ d := by
  induction d with
  | nil => simp [dropKey] at h
  | cons p ps ih =>
    simp only [dropKey] at h
    split at h
    · exact List.mem_cons_of_mem _ (ih h)
    · rcases List.mem_cons.mp h with h | h
      · rw [h]; simp
      · exact List.mem_cons_of_mem _ (ih h)

theorem lookup_mem (k : Key) (e : Entry) (d : Disk) (h : lookup k d = some e) : (k, e) ∈ d := by
  induction d with
  | nil => simp [lookup] at h
  | cons p ps ih =>
    simp only [lookup] at h
    by_cases hp : p.1 = k
    · simp [hp] at h; subst h; subst hp; simp
    · simp [hp] at h; exact List.mem_cons_of_mem _ (ih h)

theorem mem_lookup_isSome (k : Key) (e : Entry) (d : Disk) (h : (k, e) ∈ d) : (lookup k d).isSome = true := by
  induction d with
  | nil => simp at h
  | cons p ps ih =>
    simp only [lookup]
    by_cases hp : p.1 = k
    · simp [hp]
    · simp only [hp, if_false]
      rcases List.mem_cons.mp h with h | h
      · exact absurd (by rw [← h]) hp
      · exact ih h

/-! ### well-formed disks: every entry sits under the key of the task it names, with that task's
    cache class (all entries were written by `BaseCache.save`) -/
def Wf (U : Universe) (d : Disk) : Prop :=
  ∀ k e, (k, e) ∈ d → k = keyOf U e.task ∧ e.key = k ∧ e.cls = kindOf U e.task ∧ e.cls ≠ .null ∧ e.task < U.n

/-- C07's conclusion, used as a hypothesis here: distinct tasks have distinct cache keys -/
def KeyInj (U : Universe) : Prop := ∀ t t', keyOf U t = keyOf U t' → t = t'

theorem wf_nil (U : Universe) : Wf U [] := by intro k e h; simp at h

theorem wf_filter (U : Universe) (d : Disk) (k : Key) (h : Wf U d) : Wf U (dropKey k d) := by
  intro k' e hm
  exact h k' e (mem_dropKey k d _ hm)

theorem wf_save (U : Universe) (d : Disk) (t : Tid) (r : Stored) (h : Wf U d) (ht : t < U.n) :
    Wf U (cSave U d t r) := by
  unfold cSave
  split
  · exact h
  · next c hc =>
    unfold sPut
    split
    · exact h
    · intro k e hm
      rcases List.mem_cons.mp hm with hm | hm
      · cases hm
        refine ⟨rfl, rfl, ?_, ?_, ht⟩
        · rfl
        · simpa using hc
      · exact wf_filter U d _ h k e hm

theorem wf_delete (U : Universe) (d : Disk) (t : Tid) (h : Wf U d) : Wf U (cDelete U d t) := by
  unfold cDelete
  split
  · exact h
  · unfold sDelete; split
    · exact h
    · exact wf_filter U d _ h

/-! ### cache laws -/
theorem cLoad_save_same (U : Universe) (d : Disk) (t : Tid) (r : Stored)
    (hc : cacheable U t = true) (hs : U.nullStorage = false) : cLoad U (cSave U d t r) t = some r := by
  unfold cacheable at hc
  unfold cLoad cSave sPut
  cases hk : kindOf U t <;> simp_all [lookup]

theorem cIsCached_save_same (U : Universe) (d : Disk) (t : Tid) (r : Stored)
    (hc : cacheable U t = true) (hs : U.nullStorage = false) : cIsCached U (cSave U d t r) t = true := by
  unfold cacheable at hc
  unfold cIsCached cSave sPut sExists
  cases hk : kindOf U t <;> simp_all [lookup]

theorem lookup_save_other (U : Universe) (d : Disk) (t : Tid) (r : Stored) (k : Key) (h : k ≠ keyOf U t) :
    lookup k (cSave U d t r) = lookup k d := by
  unfold cSave sPut
  split
  · rfl
  · split
    · rfl
    · exact lookup_cons_filter_other _ _ _ _ h

theorem lookup_delete_other (U : Universe) (d : Disk) (t : Tid) (k : Key) (h : k ≠ keyOf U t) :
    lookup k (cDelete U d t) = lookup k d := by
  unfold cDelete sDelete
  split
  · rfl
  · split
    · rfl
    · exact lookup_filter_other _ _ _ h

theorem cLoad_congr (U : Universe) (d d' : Disk) (t : Tid) (h : lookup (keyOf U t) d' = lookup (keyOf U t) d) :
    cLoad U d' t = cLoad U d t := by
  unfold cLoad; rw [h]

theorem cIsCached_congr (U : Universe) (d d' : Disk) (t : Tid) (h : lookup (keyOf U t) d' = lookup (keyOf U t) d) :
    cIsCached U d' t = cIsCached U d t := by
  unfold cIsCached sExists; rw [h]

theorem cLoad_delete_same (U : Universe) (d : Disk) (t : Tid) : cLoad U (cDelete U d t) t = none := by
  unfold cLoad cDelete sDelete
  cases hk : kindOf U t <;> simp
  all_goals (intro hs; simp [hs, lookup_filter_same])

/-- on a well-formed disk "the key directory exists" and "a load succeeds" are the same thing -/
theorem isCached_iff_load (U : Universe) (d : Disk) (t : Tid) (h : Wf U d) (hinj : KeyInj U) :
    cIsCached U d t = (cLoad U d t).isSome := by
  unfold cIsCached cLoad sExists
  cases hk : kindOf U t <;> simp
  all_goals
    cases hs : U.nullStorage <;> simp
    cases hl : lookup (keyOf U t) d with
    | none => simp
    | some e =>
      have := h _ _ (lookup_mem _ _ _ hl)
      have ht : t = e.task := hinj _ _ this.1
      simp [this.2.2.1, ← ht, hk]

/-! ### abstraction laws -/
theorem abs_save_persist (U : Universe) (d : Disk) (t : Tid) (r : Stored) (hinj : KeyInj U)
    (hp : persists U t = true) : abs U (cSave U d t r) = aUpdate (abs U d) t r := by
  simp only [persists, Bool.and_eq_true, Bool.not_eq_true'] at hp
  funext x
  simp only [abs, aUpdate]
  by_cases hx : x = t
  · subst hx; simp [cLoad_save_same U d x r hp.1 hp.2]
  · simp only [hx, if_false]
    apply cLoad_congr
    apply lookup_save_other
    intro hk; exact hx (hinj _ _ hk)

theorem abs_save_not_persist (U : Universe) (d : Disk) (t : Tid) (r : Stored)
    (hp : persists U t = false) : abs U (cSave U d t r) = abs U d := by
  have : cSave U d t r = d := by
    unfold cSave sPut
    simp only [persists, cacheable] at hp
    cases hk : kindOf U t <;> simp_all
  rw [this]

theorem abs_delete (U : Universe) (d : Disk) (t : Tid) (hinj : KeyInj U) :
    abs U (cDelete U d t) = aRemove (abs U d) t := by
  funext x
  simp only [abs, aRemove]
  by_cases hx : x = t
  · subst hx; simp [cLoad_delete_same]
  · simp only [hx, if_false]
    apply cLoad_congr
    apply lookup_delete_other
    intro hk; exact hx (hinj _ _ hk)

end Lt.Store
