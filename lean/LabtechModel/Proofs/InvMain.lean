import LabtechModel.Proofs.InvLive
/-!
# Whole-run corollaries of the master invariant, in the form used by `Props/`
-/
namespace Lt

/-- the loop-head state after the iterations driven by `sched` -/
abbrev loopHead (cfg : Config) (p : Problem) (store : Store) (fuel : Nat) (sched : List Choice) : RS :=
  runLoop cfg p (reqTids p) sched (initRS cfg p store fuel)

theorem finish_trace (req : List Tid) (rs : RS) : (finish req rs).trace = rs.trace := by
  simp only [finish]; split <;> (try split) <;> rfl

theorem finish_results (req : List Tid) (rs : RS) : (finish req rs).results = rs.results := by
  simp only [finish]; split <;> (try split) <;> rfl

theorem finish_status_cases (req : List Tid) (rs : RS) :
    ((finish req rs).status = rs.status) ∨
    (rs.status = .running ∧ loopCond rs = false ∧ ∃ r, (finish req rs).status = .returned r) := by
  simp only [finish]
  split
  · next h =>
    split
    · left; rfl
    · next hl => right; exact ⟨h, by simpa using hl, _, rfl⟩
  · left; rfl

theorem run_trace (cfg : Config) (p : Problem) (store : Store) (fuel : Nat) (sched : List Choice) :
    (run cfg p store fuel sched).trace = (loopHead cfg p store fuel sched).trace := finish_trace _ _

theorem run_results (cfg : Config) (p : Problem) (store : Store) (fuel : Nat) (sched : List Choice) :
    (run cfg p store fuel sched).results = (loopHead cfg p store fuel sched).results := finish_results _ _

/-! ## hypotheses bundle: what `Acyclic` and `FuelOK` give about the plan -/
theorem plan_good (cfg : Config) (p : Problem) (store : Store) (fuel : Nat) (hA : Acyclic p) (hF : FuelOK p fuel) :
    PlanClosed (plan cfg p store fuel) ∧ ∀ t d, d ∈ (plan cfg p store fuel).ddeps t → d < t :=
  ⟨plan_closed cfg p store fuel hA hF, plan_ddeps_lt cfg p store fuel hA⟩

/-! ## status facts -/
theorem processYield_status_cof (cfg : Config) (req : List Tid) (rs : RS) (t : Tid) (o : Outcome)
    (hcf : cfg.contOnFail = true) :
    (processYield cfg req rs t o).status = rs.status ∨
    (processYield cfg req rs t o).status = .raised .keyError := by
  cases o <;> simp only [processYield, hcf] <;> split <;> simp

theorem processYields_status_cof (cfg : Config) (req : List Tid) (hcf : cfg.contOnFail = true) :
    ∀ (ys : List (Tid × Outcome)) (rs : RS),
      (processYields cfg req ys rs).status = rs.status ∨
      (processYields cfg req ys rs).status = .raised .keyError := by
  intro ys
  induction ys with
  | nil => intro rs; left; rfl
  | cons y rest ih =>
    intro rs
    obtain ⟨t, o⟩ := y
    simp only [processYields]
    split
    · rcases ih (processYield cfg req { rs with futs := rs.futs.filter (· ≠ t) } t o) with h | h
      · rcases processYield_status_cof cfg req { rs with futs := rs.futs.filter (· ≠ t) } t o hcf with h' | h'
        · left; rw [h, h']
        · right; rw [h, h']
      · right; exact h
    · left; rfl

theorem submitAll_status_or (cfg : Config) (p : Problem) :
    ∀ (l : List Tid) (rs : RS), (submitAll cfg p l rs).status = rs.status ∨
      (submitAll cfg p l rs).status = .raised .keyError := by
  intro l
  induction l with
  | nil => intro rs; left; rfl
  | cons t ts ih =>
    intro rs
    simp only [submitAll]
    split
    · right; rfl
    · rcases ih (submitTask cfg p { rs with ts := _ } t) with h | h
      · left; rw [h, submitTask_status]
      · right; exact h

theorem iteration_status_cof (cfg : Config) (p : Problem) (req : List Tid) (c : Choice) (rs : RS)
    (hcf : cfg.contOnFail = true) (h : rs.status = .running ∨ rs.status = .raised .keyError) :
    (iteration cfg p req c rs).status = .running ∨ (iteration cfg p req c rs).status = .raised .keyError := by
  have hs := submitAll_status_or cfg p (readyTasks p rs.ts) rs
  have hs' : (submitAll cfg p (readyTasks p rs.ts) rs).status = .running ∨
      (submitAll cfg p (readyTasks p rs.ts) rs).status = .raised .keyError := by
    rcases hs with h1 | h1
    · rw [h1]; exact h
    · right; exact h1
  simp only [iteration]
  split
  · next hrun =>
    split
    · simp only [waitSerial]
      split
      · left; exact hrun
      · rcases processYield_status_cof cfg req _ _ _ hcf with h1 | h1
        · left; rw [h1]; exact hrun
        · right; exact h1
    · simp only [waitProcess]
      rcases processYields_status_cof cfg req hcf _ _ with h1 | h1
      · left; rw [h1, startProcesses_status]; exact hrun
      · right; exact h1
  · exact hs'

/-- C10: with `continue_on_failure` the coordinator never raises -/
theorem loopHead_status_cof (cfg : Config) (p : Problem) (store : Store) (fuel : Nat) (sched : List Choice)
    (hcf : cfg.contOnFail = true) : (loopHead cfg p store fuel sched).status = .running := by
  have h1 := runLoop_inv cfg p (reqTids p)
    (fun rs => rs.status = .running ∨ rs.status = .raised .keyError)
    (fun c rs h => iteration_status_cof cfg p _ c rs hcf h) sched (initRS cfg p store fuel) (Or.inl rfl)
  rcases h1 with h | h
  · exact h
  · exact absurd h (reach_all cfg p store fuel sched).1.noKey

/-! ## trace corollaries (C02, C03) -/
theorem loopHead_hist (cfg : Config) (p : Problem) (store : Store) (fuel : Nat) (sched : List Choice) :
    Hist (EvOK p (plan cfg p store fuel)) (loopHead cfg p store fuel sched).trace :=
  (reach_all cfg p store fuel sched).1.hist

/-- every `submit t`, `start t` and `exec t` in a loop-head trace is preceded by a yield of every
    direct dependency of `t` -/
theorem loopHead_after_deps (cfg : Config) (p : Problem) (store : Store) (fuel : Nat) (sched : List Choice)
    (pre post : List Ev) (e : Ev) (t : Tid)
    (he : (∃ uc, e = Ev.submit t uc) ∨ e = Ev.start t ∨ (∃ seen, e = Ev.exec t seen))
    (h : (loopHead cfg p store fuel sched).trace = pre ++ e :: post) :
    ∀ d ∈ (plan cfg p store fuel).ddeps t, ∃ o, Ev.yield d o ∈ pre := by
  have hq := loopHead_hist cfg p store fuel sched pre e post h
  intro d hd
  rw [← mem_yieldedOf]
  rcases he with ⟨uc, rfl⟩ | rfl | ⟨seen, rfl⟩
  · exact hq d hd
  · exact hq d hd
  · exact hq.1 d hd

theorem loopHead_exec_snapshot (cfg : Config) (p : Problem) (store : Store) (fuel : Nat) (sched : List Choice)
    (pre post : List Ev) (t : Tid) (seen : List (Option Val))
    (h : (loopHead cfg p store fuel sched).trace = pre ++ Ev.exec t seen :: post) :
    ∃ snap, seen = reads p (repr0 (plan cfg p store fuel) t) snap ∧
      ∀ d ∈ (plan cfg p store fuel).ddeps t, ∀ v,
        (lookup d snap = some v ↔ Ev.yield d (.ok v) ∈ pre) :=
  (loopHead_hist cfg p store fuel sched pre _ post h).2

theorem loopHead_submitted_nodup (cfg : Config) (p : Problem) (store : Store) (fuel : Nat) (sched : List Choice) :
    (submittedOf (loopHead cfg p store fuel sched).trace).Nodup :=
  (reach_all cfg p store fuel sched).1.subNd

theorem loopHead_yielded_nodup (cfg : Config) (p : Problem) (store : Store) (fuel : Nat) (sched : List Choice) :
    (yieldedOf (loopHead cfg p store fuel sched).trace).Nodup :=
  (reach_all cfg p store fuel sched).1.ts.ndY

/-- worker records (`exec` / `load`) carry pairwise distinct tasks -/
theorem loopHead_ran_nodup (cfg : Config) (p : Problem) (store : Store) (fuel : Nat) (sched : List Choice) :
    (ranOf (loopHead cfg p store fuel sched).trace).Nodup :=
  (reach_all cfg p store fuel sched).1.ranNd

/-- at a running loop head every task with a worker record has been yielded -/
theorem loopHead_ran_yielded (cfg : Config) (p : Problem) (store : Store) (fuel : Nat) (sched : List Choice)
    (hrun : (loopHead cfg p store fuel sched).status = .running) :
    ∀ t ∈ ranOf (loopHead cfg p store fuel sched).trace, t ∈ yielded (loopHead cfg p store fuel sched) := by
  intro t ht
  rcases ((reach_all cfg p store fuel sched).2 hrun).ranSub t ht with h | h
  · exact h
  · simp at h

theorem loopHead_submitted_planned (cfg : Config) (p : Problem) (store : Store) (fuel : Nat) (sched : List Choice)
    (t : Tid) (uc : Bool) (h : Ev.submit t uc ∈ (loopHead cfg p store fuel sched).trace) :
    t ∈ (plan cfg p store fuel).pending := by
  have hc := (reach_all cfg p store fuel sched).1
  rw [hc.ts.cover]
  rcases (hc.subAct t).mp ((mem_submittedOf _ _).mpr ⟨uc, h⟩) with h1 | h1
  · exact Or.inr (Or.inl h1)
  · exact Or.inr (Or.inr h1)

theorem loopHead_yielded_submitted (cfg : Config) (p : Problem) (store : Store) (fuel : Nat) (sched : List Choice)
    (t : Tid) (o : Outcome) (h : Ev.yield t o ∈ (loopHead cfg p store fuel sched).trace) :
    ∃ uc, Ev.submit t uc ∈ (loopHead cfg p store fuel sched).trace := by
  have hc := (reach_all cfg p store fuel sched).1
  rw [← mem_submittedOf, hc.subAct]
  exact Or.inr ((mem_yieldedOf _ _).mpr ⟨o, h⟩)

/-! ## liveness corollaries (C05, C11) -/
theorem loopHead_live (cfg : Config) (p : Problem) (store : Store) (fuel : Nat) (sched : List Choice) :
    Live cfg p (plan cfg p store fuel) (loopHead cfg p store fuel sched) :=
  runLoop_live _ (plan_PI cfg p store fuel) sched _ (initRS_live cfg p store fuel)

theorem loopHead_exhausts (cfg : Config) (p : Problem) (store : Store) (fuel : Nat) (sched : List Choice) :
    readyTasks p (submitAll cfg p (readyTasks p (loopHead cfg p store fuel sched).ts)
      (loopHead cfg p store fuel sched)).ts = [] :=
  submit_exhausts cfg p _ (reach_all cfg p store fuel sched).1.ts.ndP

theorem loopHead_no_deadlock (cfg : Config) (p : Problem) (store : Store) (fuel : Nat) (sched : List Choice)
    (hA : Acyclic p) (hF : FuelOK p fuel) (hL : LimitsPos cfg p)
    (hrun : (loopHead cfg p store fuel sched).status = .running) :
    ((submitAll cfg p (readyTasks p (loopHead cfg p store fuel sched).ts)
        (loopHead cfg p store fuel sched)).ts.pending ≠ [] →
      (submitAll cfg p (readyTasks p (loopHead cfg p store fuel sched).ts)
        (loopHead cfg p store fuel sched)).futs ≠ []) ∧
    (cfg.backend ≠ .serial →
      (submitAll cfg p (readyTasks p (loopHead cfg p store fuel sched).ts)
        (loopHead cfg p store fuel sched)).futs ≠ [] →
      (submitAll cfg p (readyTasks p (loopHead cfg p store fuel sched).ts)
        (loopHead cfg p store fuel sched)).running ≠ []) := by
  have hlive := loopHead_live cfg p store fuel sched
  have hP := plan_PI cfg p store fuel
  obtain ⟨hCl, hLt⟩ := plan_good cfg p store fuel hA hF
  obtain ⟨hc, he, _⟩ := submitPhase_reach hP hlive.reach hrun
  constructor
  · exact pending_has_future hCl hLt hL hc (loopHead_exhausts cfg p store fuel sched)
  · intro hb hf
    exact futs_running hL he (submitAll_noIdle cfg p hb _ _ hlive.workers (hlive.noIdle hb)) hf

theorem run_terminates (cfg : Config) (p : Problem) (store : Store) (fuel : Nat) (sched : List Choice)
    (hA : Acyclic p) (hF : FuelOK p fuel) (hL : LimitsPos cfg p) (hfair : Fair sched)
    (hlen : (plan cfg p store fuel).pending.length + 1 ≤ sched.length) :
    (run cfg p store fuel sched).status ≠ .running := by
  have hP := plan_PI cfg p store fuel
  obtain ⟨hCl, hLt⟩ := plan_good cfg p store fuel hA hF
  have hterm := runLoop_terminates (reqTids p) hP hCl hLt hL sched _ hfair (initRS_live cfg p store fuel)
    (by
      have : (yielded (initRS cfg p store fuel)).length = 0 := rfl
      rw [this]; omega)
  show (finish (reqTids p) (loopHead cfg p store fuel sched)).status ≠ .running
  rcases finish_status_cases (reqTids p) (loopHead cfg p store fuel sched) with h | ⟨_, _, r, hr⟩
  · rcases hterm with h1 | h1
    · rw [h]; exact h1
    · intro hfin
      rw [h] at hfin
      simp only [finish, hfin, h1] at h
      simp at h
  · rw [hr]; simp

theorem run_status_cases (cfg : Config) (p : Problem) (store : Store) (fuel : Nat) (sched : List Choice) :
    (run cfg p store fuel sched).status = .running ∨
    (∃ r, (run cfg p store fuel sched).status = .returned r) ∨
    (∃ t, (run cfg p store fuel sched).status = .raised (.labError t)) := by
  have hc := (reach_all cfg p store fuel sched).1
  rcases finish_status_cases (reqTids p) (loopHead cfg p store fuel sched) with h | ⟨_, _, r, hr⟩
  · have h' : (run cfg p store fuel sched).status = (loopHead cfg p store fuel sched).status := h
    rw [h']
    cases hs : (loopHead cfg p store fuel sched).status with
    | running => left; rfl
    | returned r => exact absurd hs (hc.noRet r)
    | raised e =>
      cases e with
      | keyError => exact absurd hs hc.noKey
      | labError t => right; right; exact ⟨t, rfl⟩
  · right; left; exact ⟨r, hr⟩

/-! ## retained results (C17) -/
theorem loopHead_results (cfg : Config) (p : Problem) (store : Store) (fuel : Nat) (sched : List Choice)
    (hrun : (loopHead cfg p store fuel sched).status = .running) (d : Tid) (v : Val) :
    (d, v) ∈ (loopHead cfg p store fuel sched).results ↔
      (Ev.yield d (.ok v) ∈ (loopHead cfg p store fuel sched).trace ∧
       (loopHead cfg p store fuel sched).ts.pendDependents d ≠ []) :=
  ((reach_all cfg p store fuel sched).2 hrun).res d v

theorem loopHead_pendDependents (cfg : Config) (p : Problem) (store : Store) (fuel : Nat) (sched : List Choice)
    (d t : Tid) :
    t ∈ (loopHead cfg p store fuel sched).ts.pendDependents d ↔
      (d ∈ (plan cfg p store fuel).ddeps t ∧ t ∉ yielded (loopHead cfg p store fuel sched)) := by
  rw [(reach_all cfg p store fuel sched).1.ts.mem_pdt, (plan_PI cfg p store fuel).dual]

theorem run_empty_at_return (cfg : Config) (p : Problem) (store : Store) (fuel : Nat) (sched : List Choice)
    (r : List (Tid × Val)) (h : (run cfg p store fuel sched).status = .returned r) :
    (run cfg p store fuel sched).results = [] := by
  have hreach := reach_all cfg p store fuel sched
  have hc := hreach.1
  have hP := plan_PI cfg p store fuel
  rw [run_results]
  rcases finish_status_cases (reqTids p) (loopHead cfg p store fuel sched) with h' | ⟨hrun, hlc, _⟩
  · have : (loopHead cfg p store fuel sched).status = .returned r := by rw [← h']; exact h
    exact absurd this (hc.noRet r)
  · have he := hreach.2 hrun
    simp only [loopCond, Bool.or_eq_false_iff, Bool.not_eq_eq_eq_not, Bool.not_false,
      List.isEmpty_iff] at hlc
    apply List.eq_nil_iff_forall_not_mem.mpr
    rintro ⟨d, v⟩ hdv
    have hne := ((he.res d v).mp hdv).2
    obtain ⟨t, ht⟩ := List.exists_mem_of_ne_nil _ hne
    rw [hc.ts.mem_pdt, hP.dual] at ht
    have htP : t ∈ (plan cfg p store fuel).pending := hP.depPend t d ht.1
    rcases (hc.ts.cover t).mp htP with h1 | h1 | h1
    · rw [hlc.1] at h1; simp at h1
    · have := (hc.futsAct t).mpr h1
      rw [hlc.2] at this; simp at this
    · exact ht.2 h1

/-! ## (f) for the serial runner: the deque is `future_to_task`, nothing ever "runs" in the executor -/
theorem submitAll_serialQ (cfg : Config) (p : Problem) (hb : cfg.backend = .serial) :
    ∀ (l : List Tid) (rs : RS), rs.futs = rs.queued.map Job.tid →
      (submitAll cfg p l rs).futs = (submitAll cfg p l rs).queued.map Job.tid := by
  intro l
  induction l with
  | nil => intro rs h; exact h
  | cons t ts ih =>
    intro rs h
    simp only [submitAll]
    split
    · exact h
    · apply ih
      simp only [submitTask, hb, if_true, List.map_append, List.map_cons, List.map_nil, h]

theorem waitSerial_serialQ (cfg : Config) (p : Problem) (req : List Tid) (rs : RS) (hnd : rs.futs.Nodup)
    (h : rs.futs = rs.queued.map Job.tid) :
    (waitSerial cfg p req rs).futs = (waitSerial cfg p req rs).queued.map Job.tid := by
  simp only [waitSerial]
  split
  · exact h
  · next j rest hq =>
    rw [processYield_futs, processYield_queued]
    simp only at hq ⊢
    rw [hq] at h
    rw [h] at hnd ⊢
    simp only [List.map_cons, List.nodup_cons] at hnd
    simp only [List.map_cons, List.filter_cons, ne_eq, not_true_eq_false, decide_false,
      Bool.false_eq_true, if_false]
    exact filter_ne_self _ _ hnd.1
where
  processYield_futs (cfg : Config) (req : List Tid) (rs : RS) (t : Tid) (o : Outcome) :
      (processYield cfg req rs t o).futs = rs.futs := by
    simp only [processYield]
    cases o <;> (simp only; split <;> rfl)

theorem loopHead_serial (cfg : Config) (p : Problem) (store : Store) (fuel : Nat) (sched : List Choice)
    (hb : cfg.backend = .serial) :
    (loopHead cfg p store fuel sched).futs = (loopHead cfg p store fuel sched).queued.map Job.tid ∧
    (loopHead cfg p store fuel sched).running = [] := by
  constructor
  · have key : ∀ (s : List Choice) (rs : RS), Reach cfg p (plan cfg p store fuel) rs →
        rs.futs = rs.queued.map Job.tid →
        (runLoop cfg p (reqTids p) s rs).futs = (runLoop cfg p (reqTids p) s rs).queued.map Job.tid := by
      intro s
      induction s with
      | nil => intro rs _ h; exact h
      | cons c cs ih =>
        intro rs hr h
        simp only [runLoop]
        split
        · next hrun =>
          split
          · apply ih _ (iteration_reach _ (plan_PI cfg p store fuel) c hr hrun)
            obtain ⟨hc, _, hst⟩ := submitPhase_reach (plan_PI cfg p store fuel) hr hrun
            simp only [iteration, hst, hb, if_true]
            exact waitSerial_serialQ cfg p _ _ hc.ndF (submitAll_serialQ cfg p hb _ rs h)
          · exact h
        · exact h
    exact key sched _ (initRS_reach cfg p store fuel) rfl
  · exact runLoop_inv cfg p (reqTids p) (fun rs => rs.running = [])
      (fun c rs h => iteration_serial_running cfg p _ c rs hb h) sched _ rfl

/-- the master invariant (a)–(h), spelled out, at every loop-head state of every run -/
theorem master_invariant (cfg : Config) (p : Problem) (store : Store) (fuel : Nat) (sched : List Choice) :
    let P := plan cfg p store fuel
    let rs := loopHead cfg p store fuel sched
    -- (a) frame
    (rs.ts.ddeps = P.ddeps ∧ rs.ts.instances = P.instances) ∧
    -- (b) pending / active / yielded partition the plan
    (rs.ts.pending.Nodup ∧ rs.ts.active.Nodup ∧ (yielded rs).Nodup ∧
      (∀ t ∈ rs.ts.pending, t ∉ rs.ts.active ∧ t ∉ yielded rs) ∧ (∀ t ∈ rs.ts.active, t ∉ yielded rs) ∧
      (∀ t, t ∈ P.pending ↔ (t ∈ rs.ts.pending ∨ t ∈ rs.ts.active ∨ t ∈ yielded rs))) ∧
    -- (c), (d) the pending dictionaries are the plan minus the yielded tasks
    (∀ t, rs.ts.pendDeps t = (P.ddeps t).filter (· ∉ yielded rs)) ∧
    (∀ d, rs.ts.pendDependents d = (P.pendDependents d).filter (· ∉ yielded rs)) ∧
    -- (e)
    (∀ t ∈ rs.ts.active, rs.ts.pendDeps t = []) ∧
    -- (f) futures vs active tasks vs executor queues
    ((∀ t, t ∈ rs.futs ↔ t ∈ rs.ts.active) ∧ rs.futs.Nodup ∧
      (rs.status = .running → ((rs.queued ++ rs.running).map Job.tid).Perm rs.futs) ∧
      (cfg.backend = .serial → rs.futs = rs.queued.map Job.tid ∧ rs.running = [])) ∧
    -- (g) never KeyError: `complete_task` succeeds on every tracked future
    (rs.status ≠ .raised .keyError ∧ ∀ t ∈ rs.futs, ∃ r, completeTask rs.ts t = some r) ∧
    -- (h) retained results
    (rs.status = .running →
      (∀ d, (∃ v, (d, v) ∈ rs.results) ↔ (d ∈ okYielded rs ∧ rs.ts.pendDependents d ≠ [])) ∧
      (rs.results.map Prod.fst).Nodup) := by
  intro P rs
  have hr := reach_all cfg p store fuel sched
  have hc := hr.1
  refine ⟨⟨hc.ts.ddeps, hc.ts.inst⟩,
    ⟨hc.ts.ndP, hc.ts.ndA, hc.ts.ndY, fun t ht => ⟨hc.ts.disjPA t ht, hc.ts.disjPY t ht⟩, hc.ts.disjAY, hc.ts.cover⟩,
    hc.ts.pd, hc.ts.pdt, hc.ts.active_pd_nil,
    ⟨hc.futsAct, hc.ndF, ?_, loopHead_serial cfg p store fuel sched⟩, ⟨hc.noKey, ?_⟩, ?_⟩
  · intro hrun
    have := (hr.2 hrun).perm
    simpa using this
  · intro t ht
    obtain ⟨s', rem, h, _⟩ := completeTask_TSInv _ (plan_PI cfg p store fuel) _ rs.ts t hc.ts
      ((hc.futsAct t).mp ht)
    exact ⟨_, h⟩
  · intro hrun
    refine ⟨?_, (hr.2 hrun).resNd⟩
    intro d
    simp only [okYielded, mem_okYieldedOf]
    constructor
    · rintro ⟨v, hv⟩
      have := ((hr.2 hrun).res d v).mp hv
      exact ⟨⟨v, this.1⟩, this.2⟩
    · rintro ⟨⟨v, hv⟩, hne⟩
      exact ⟨v, ((hr.2 hrun).res d v).mpr ⟨hv, hne⟩⟩

/-! ## the example problem satisfies the hypotheses (used by the non-vacuity examples in `Props/`) -/
theorem invEx_limits (be : Backend) (mw : Nat) (hmw : 0 < mw) :
    LimitsPos { invExCfg with backend := be, maxWorkers := mw } invExP := by
  refine ⟨hmw, ?_⟩
  intro T L h
  simp only [invExP] at h
  split at h <;> simp at h
  omega

def chooseAll : Choice := ⟨fun _ => true⟩
def chooseFirst : Choice := ⟨fun i => i == 0⟩

theorem fair_replicate (n : Nat) (c : Choice) (h : c.finish 0 = true) : Fair (List.replicate n c) := by
  intro c' hc'
  rw [(List.mem_replicate.mp hc').2]; exact h

end Lt
