import LabtechModel.Proofs.IntrDeps
/-!
# M10: "each task is submitted / executed at most once, and only planned tasks" after EVERY primitive

`OI P s` (`P` = the plan) holds in every state of every interrupted run:
* the `submit` events of the trace carry pairwise distinct tasks, all of them planned and none of
  them still in the work list (`subNd`, `subPlan`, `subP`);
* the worker records (`exec` / `load`) carry pairwise distinct tasks (`ranNd`), every one of a
  submitted task (`ranSub`), as is every `start` event (`startSub`);
* every queued / running / popped submission belongs to a submitted task; the running map holds
  every task once and none that already has a worker record (`runNd`, `runNotRan`).
`OS s` is the extra part that holds between two bookkeeping blocks of the MAIN stream only (it is
false between `regRunning` and `unregPending`, where a future is both pending and running): queued
submissions are pairwise distinct, not running, without worker record.  The handlers launch nothing
(`members_handler`, `members_second`), so there `OI` needs no side condition at all, whatever the
state they are entered in.
-/
namespace Lt

variable {cfg : Config} {p : Problem}

theorem submittedOf_append (a b : List Ev) : submittedOf (a ++ b) = submittedOf a ++ submittedOf b := by
  simp [submittedOf, List.filterMap_append]

/-- events that are neither a `submit` nor a worker record -/
def Plain (l : List Ev) : Prop := ∀ e ∈ l, evSubmit e = none ∧ evRan e = none

theorem submittedOf_plain (tr l : List Ev) (h : Plain l) : submittedOf (tr ++ l) = submittedOf tr := by
  have : submittedOf l = [] := filterMap_none _ l (fun e he => (h e he).1)
  rw [submittedOf_append, this]; simp

theorem ranOf_plain (tr l : List Ev) (h : Plain l) : ranOf (tr ++ l) = ranOf tr := by
  have : ranOf l = [] := filterMap_none _ l (fun e he => (h e he).2)
  rw [ranOf_append, this]; simp

theorem plain_nil : Plain [] := fun e he => by simp at he

theorem plain_single (e : Ev) (h1 : evSubmit e = none) (h2 : evRan e = none) : Plain [e] := by
  intro e' he'; simp only [List.mem_singleton] at he'; subst he'; exact ⟨h1, h2⟩

structure OI (P : TS) (s : IS) : Prop where
  subNd : (submittedOf s.rs.trace).Nodup
  subP : ∀ t ∈ submittedOf s.rs.trace, t ∉ s.rs.ts.pending
  pendP : ∀ t ∈ s.rs.ts.pending, t ∈ P.pending
  subPlan : ∀ t ∈ submittedOf s.rs.trace, t ∈ P.pending
  qSub : ∀ j ∈ s.rs.queued, j.tid ∈ submittedOf s.rs.trace
  rSub : ∀ t ∈ s.rs.running.map Job.tid, t ∈ submittedOf s.rs.trace
  cSub : ∀ j, s.cur = some j → j.tid ∈ submittedOf s.rs.trace
  ranSub : ∀ t ∈ ranOf s.rs.trace, t ∈ submittedOf s.rs.trace
  startSub : ∀ t, Ev.start t ∈ s.rs.trace → t ∈ submittedOf s.rs.trace
  ranNd : (ranOf s.rs.trace).Nodup
  runNd : (s.rs.running.map Job.tid).Nodup
  runNotRan : ∀ t ∈ s.rs.running.map Job.tid, t ∉ ranOf s.rs.trace

/-- the trace grows by events that are no `submit` and no worker record -/
theorem OI.ext {P : TS} {s s' : IS} (h : OI P s) (l : List Ev)
    (htr : s'.rs.trace = s.rs.trace ++ l) (hl : Plain l)
    (hstart : ∀ t, Ev.start t ∈ l → t ∈ submittedOf s.rs.trace)
    (hpend : ∀ t ∈ s'.rs.ts.pending, t ∈ s.rs.ts.pending)
    (hq : ∀ j ∈ s'.rs.queued, j.tid ∈ submittedOf s.rs.trace)
    (hrNd : (s'.rs.running.map Job.tid).Nodup)
    (hrSub : ∀ t ∈ s'.rs.running.map Job.tid, t ∈ submittedOf s.rs.trace)
    (hrRan : ∀ t ∈ s'.rs.running.map Job.tid, t ∉ ranOf s.rs.trace)
    (hc : ∀ j, s'.cur = some j → j.tid ∈ submittedOf s.rs.trace) : OI P s' := by
  have e1 : submittedOf s'.rs.trace = submittedOf s.rs.trace := by rw [htr, submittedOf_plain _ _ hl]
  have e2 : ranOf s'.rs.trace = ranOf s.rs.trace := by rw [htr, ranOf_plain _ _ hl]
  exact {
    subNd := by rw [e1]; exact h.subNd
    subP := by rw [e1]; exact fun t ht hp => h.subP t ht (hpend t hp)
    pendP := fun t ht => h.pendP t (hpend t ht)
    subPlan := by rw [e1]; exact h.subPlan
    qSub := by rw [e1]; exact hq
    rSub := by rw [e1]; exact hrSub
    cSub := by rw [e1]; exact hc
    ranSub := by rw [e1, e2]; exact h.ranSub
    startSub := by
      intro t ht
      rw [e1]
      rw [htr, List.mem_append] at ht
      rcases ht with ht | ht
      · exact h.startSub t ht
      · exact hstart t ht
    ranNd := by rw [e2]; exact h.ranNd
    runNd := hrNd
    runNotRan := by rw [e2]; exact hrRan }

/-- … and the running map only shrinks -/
theorem OI.ext_sub {P : TS} {s s' : IS} (h : OI P s) (l : List Ev)
    (htr : s'.rs.trace = s.rs.trace ++ l) (hl : Plain l)
    (hstart : ∀ t, Ev.start t ∈ l → t ∈ submittedOf s.rs.trace)
    (hpend : ∀ t ∈ s'.rs.ts.pending, t ∈ s.rs.ts.pending)
    (hq : ∀ j ∈ s'.rs.queued, j ∈ s.rs.queued)
    (hr : (s'.rs.running.map Job.tid).Sublist (s.rs.running.map Job.tid))
    (hc : ∀ j, s'.cur = some j → j.tid ∈ submittedOf s.rs.trace) : OI P s' :=
  h.ext l htr hl hstart hpend (fun j hj => h.qSub j (hq j hj)) (hr.nodup h.runNd)
    (fun t ht => h.rSub t (hr.subset ht)) (fun t ht => h.runNotRan t (hr.subset ht)) hc

/-- nothing that `OI` reads has changed -/
theorem OI.same {P : TS} {s s' : IS} (h : OI P s) (htr : s'.rs.trace = s.rs.trace)
    (hpend : ∀ t ∈ s'.rs.ts.pending, t ∈ s.rs.ts.pending) (hq : ∀ j ∈ s'.rs.queued, j ∈ s.rs.queued)
    (hr : (s'.rs.running.map Job.tid).Sublist (s.rs.running.map Job.tid)) (hc : s'.cur = s.cur) : OI P s' :=
  h.ext_sub [] (by simpa using htr) plain_nil (fun t ht => by simp at ht) hpend hq hr
    (fun j hj => h.cSub j (by rw [← hc]; exact hj))

/-! ## the side conditions -/
def OG (P : TS) (s : IS) : Prim → Prop
  | .enqueue t | .serialAppend t =>
    t ∉ submittedOf s.rs.trace ∧ t ∉ s.rs.ts.pending ∧ t ∈ P.pending
  | .procStart t => t ∈ submittedOf s.rs.trace
  | .regRunning t => t ∉ s.rs.running.map Job.tid ∧ t ∉ ranOf s.rs.trace
  | .serialRun => ∀ j, s.cur = some j → j.tid ∉ ranOf s.rs.trace ∧ j.tid ∉ s.rs.running.map Job.tid
  | _ => True

/-- primitives without a side condition -/
def Prim.ofree : Prim → Bool
  | .enqueue _ | .serialAppend _ | .procStart _ | .regRunning _ | .serialRun => false
  | _ => true

theorem OG_of_free {P : TS} {s : IS} {q : Prim} (h : q.ofree = true) : OG P s q := by
  cases q <;> simp [Prim.ofree] at h <;> trivial

theorem ofree_of_nolaunch {q : Prim} (h : q.launches = false) : q.ofree = true := by
  cases q <;> simp [Prim.launches] at h <;> rfl

/-- primitives that change something `OI` / `OS` read -/
def Prim.touchesO : Prim → Bool
  | .enqueue _ | .procStart _ | .serialAppend _ | .consumeResults _ | .popFuture _ _ | .removeDone _
  | .popDeque | .serialRun | .unregPending _ | .cancelOne _ | .clearDeque
  | .regRunning _ | .stopOne _ | .startTask _ => true
  | _ => false

theorem applyPrim_ofields (q : Prim) (s : IS) (h : q.touchesO = false) :
    (applyPrim cfg p q s).rs.trace = s.rs.trace ∧
    (applyPrim cfg p q s).rs.ts.pending = s.rs.ts.pending ∧
    (applyPrim cfg p q s).rs.queued = s.rs.queued ∧
    (applyPrim cfg p q s).rs.running = s.rs.running ∧
    (applyPrim cfg p q s).cur = s.cur := by
  unfold applyPrim
  split
  · cases q <;> simp [Prim.touchesO] at h <;> simp only [stepPrim, keyErr] <;> (repeat' split) <;> simp
  · simp

theorem finOf_stayOf_perm (c : Choice) (l : List Job) : (finOf c l ++ stayOf c l).Perm l :=
  enum_partition_perm l c.finish

theorem finOf_sublist (c : Choice) (l : List Job) : (finOf c l).Sublist l := enum_filter_sublist l _
theorem stayOf_sublist (c : Choice) (l : List Job) : (stayOf c l).Sublist l := enum_filter_sublist l _

theorem plain_runEvents_start (ts : TS) (j : Job) : submittedOf ([Ev.start j.tid] ++ runEvents p ts j) = [] := by
  simp only [runEvents]
  split <;> simp [submittedOf, evSubmit]

theorem submittedOf_jobEvents (ts : TS) (js : List Job) :
    submittedOf ((js.map (jobEvents p ts)).flatten) = [] := by
  apply filterMap_none
  intro e he
  obtain ⟨es, hes, hmem⟩ := List.mem_flatten.mp he
  obtain ⟨j, _, rfl⟩ := List.mem_map.mp hes
  rcases jobEvents_cases p ts j e hmem with rfl | rfl <;> rfl

theorem start_not_in_jobEvents (ts : TS) (js : List Job) (t : Tid) :
    Ev.start t ∉ (js.map (jobEvents p ts)).flatten := by
  intro he
  obtain ⟨es, hes, hmem⟩ := List.mem_flatten.mp he
  obtain ⟨j, _, rfl⟩ := List.mem_map.mp hes
  rcases jobEvents_cases p ts j _ hmem with h | h <;> cases h

/-- one primitive keeps `OI`, given its side condition -/
theorem OI_step {P : TS} (q : Prim) (s : IS) (h : OI P s) (hg : OG P s q) :
    OI P (applyPrim cfg p q s) := by
  by_cases hd : q.touchesO = false
  · obtain ⟨e1, e2, e3, e4, e5⟩ := applyPrim_ofields (cfg := cfg) (p := p) q s hd
    exact h.same e1 (by rw [e2]; exact fun _ ht => ht) (by rw [e3]; exact fun _ hj => hj)
      (by rw [e4]; exact List.Sublist.refl _) e5
  by_cases hrun : ¬ s.rs.status = .running
  · rw [applyPrim_stopped q s hrun]; exact h
  rw [applyPrim_running q s (Decidable.not_not.mp hrun)]
  cases q <;> simp [Prim.touchesO] at hd
  case startTask t =>
    simp only [stepPrim]
    cases hs : startTask s.rs.ts t with
    | none => exact h.same rfl (fun _ ht => ht) (fun _ hj => hj) (List.Sublist.refl _) rfl
    | some ts' =>
      obtain ⟨_, hts⟩ := startTask_some _ _ _ hs
      subst hts
      exact h.same rfl (fun _ ht => (List.mem_filter.mp ht).1) (fun _ hj => hj) (List.Sublist.refl _) rfl
  case enqueue t =>
    obtain ⟨g1, g2, g3⟩ := hg
    simp only [stepPrim]
    have e1 : ∀ uc, submittedOf (s.rs.trace ++ [Ev.submit t uc]) = submittedOf s.rs.trace ++ [t] := by
      intro uc; rw [submittedOf_append]; rfl
    have e2 : ∀ uc, ranOf (s.rs.trace ++ [Ev.submit t uc]) = ranOf s.rs.trace := by
      intro uc; rw [ranOf_append]; simp [ranOf, evRan]
    exact {
      subNd := by
        rw [e1, List.nodup_append]
        exact ⟨h.subNd, by simp, fun a ha b hb => by
          simp only [List.mem_singleton] at hb; subst hb; exact fun hab => g1 (hab ▸ ha)⟩
      subP := by
        intro x hx
        rw [e1, List.mem_append, List.mem_singleton] at hx
        rcases hx with hx | rfl
        · exact h.subP x hx
        · exact g2
      pendP := h.pendP
      subPlan := by
        intro x hx
        rw [e1, List.mem_append, List.mem_singleton] at hx
        rcases hx with hx | rfl
        · exact h.subPlan x hx
        · exact g3
      qSub := by
        intro j hj
        rw [e1]
        simp only [List.mem_append, List.mem_singleton] at hj ⊢
        rcases hj with hj | rfl
        · exact Or.inl (h.qSub j hj)
        · exact Or.inr rfl
      rSub := fun x hx => by rw [e1]; exact List.mem_append_left _ (h.rSub x hx)
      cSub := fun j hj => by rw [e1]; exact List.mem_append_left _ (h.cSub j hj)
      ranSub := fun x hx => by rw [e1]; rw [e2] at hx; exact List.mem_append_left _ (h.ranSub x hx)
      startSub := by
        intro x hx
        rw [e1]
        simp only [List.mem_append, List.mem_singleton] at hx
        rcases hx with hx | hx
        · exact List.mem_append_left _ (h.startSub x hx)
        · cases hx
      ranNd := by rw [e2]; exact h.ranNd
      runNd := h.runNd
      runNotRan := by rw [e2]; exact h.runNotRan }
  case serialAppend t =>
    obtain ⟨g1, g2, g3⟩ := hg
    simp only [stepPrim]
    have e1 : ∀ uc, submittedOf (s.rs.trace ++ [Ev.submit t uc]) = submittedOf s.rs.trace ++ [t] := by
      intro uc; rw [submittedOf_append]; rfl
    have e2 : ∀ uc, ranOf (s.rs.trace ++ [Ev.submit t uc]) = ranOf s.rs.trace := by
      intro uc; rw [ranOf_append]; simp [ranOf, evRan]
    exact {
      subNd := by
        rw [e1, List.nodup_append]
        exact ⟨h.subNd, by simp, fun a ha b hb => by
          simp only [List.mem_singleton] at hb; subst hb; exact fun hab => g1 (hab ▸ ha)⟩
      subP := by
        intro x hx
        rw [e1, List.mem_append, List.mem_singleton] at hx
        rcases hx with hx | rfl
        · exact h.subP x hx
        · exact g2
      pendP := h.pendP
      subPlan := by
        intro x hx
        rw [e1, List.mem_append, List.mem_singleton] at hx
        rcases hx with hx | rfl
        · exact h.subPlan x hx
        · exact g3
      qSub := by
        intro j hj
        rw [e1]
        simp only [List.mem_append, List.mem_singleton] at hj ⊢
        rcases hj with hj | rfl
        · exact Or.inl (h.qSub j hj)
        · exact Or.inr rfl
      rSub := fun x hx => by rw [e1]; exact List.mem_append_left _ (h.rSub x hx)
      cSub := fun j hj => by rw [e1]; exact List.mem_append_left _ (h.cSub j hj)
      ranSub := fun x hx => by rw [e1]; rw [e2] at hx; exact List.mem_append_left _ (h.ranSub x hx)
      startSub := by
        intro x hx
        rw [e1]
        simp only [List.mem_append, List.mem_singleton] at hx
        rcases hx with hx | hx
        · exact List.mem_append_left _ (h.startSub x hx)
        · cases hx
      ranNd := by rw [e2]; exact h.ranNd
      runNd := h.runNd
      runNotRan := by rw [e2]; exact h.runNotRan }
  case procStart t =>
    simp only [stepPrim]
    refine h.ext_sub [Ev.start t] rfl (plain_single _ rfl rfl) ?_ (fun _ ht => ht) (fun _ hj => hj)
      (List.Sublist.refl _) h.cSub
    intro x hx
    simp only [List.mem_singleton, Ev.start.injEq] at hx
    subst hx; exact hg
  case regRunning t =>
    simp only [stepPrim]
    cases hf : s.rs.queued.find? (hasTid t) with
    | none => exact h
    | some j =>
      have hjt : j.tid = t := by
        have := List.find?_some hf
        simpa [hasTid] using this
      have hjq := List.mem_of_find?_eq_some hf
      refine h.ext [] (by simp) plain_nil (fun x hx => by simp at hx) (fun _ ht => ht) h.qSub ?_ ?_ ?_ h.cSub
      · show ((s.rs.running ++ [forkSnap cfg s.rs.results j]).map Job.tid).Nodup
        rw [List.map_append, List.nodup_append]
        refine ⟨h.runNd, by simp, ?_⟩
        intro a ha b hb
        simp only [List.map_cons, List.map_nil, List.mem_singleton, forkSnap_tid'] at hb
        subst hb
        exact fun hab => hg.1 (hjt ▸ hab ▸ ha)
      · intro x hx
        simp only [List.map_append, List.map_cons, List.map_nil, List.mem_append, List.mem_singleton,
          forkSnap_tid'] at hx
        rcases hx with hx | rfl
        · exact h.rSub x hx
        · exact h.qSub j hjq
      · intro x hx
        simp only [List.map_append, List.map_cons, List.map_nil, List.mem_append, List.mem_singleton,
          forkSnap_tid'] at hx
        rcases hx with hx | rfl
        · exact h.runNotRan x hx
        · rw [hjt]; exact hg.2
  case unregPending t =>
    simp only [stepPrim]
    exact h.same rfl (fun _ ht => ht) (fun _ hj => List.mem_of_mem_eraseP hj) (List.Sublist.refl _) rfl
  case cancelOne t =>
    simp only [stepPrim]
    exact h.same rfl (fun _ ht => ht) (fun _ hj => List.mem_of_mem_eraseP hj) (List.Sublist.refl _) rfl
  case clearDeque =>
    simp only [stepPrim]
    exact h.same rfl (fun _ ht => ht) (fun _ hj => by simp at hj) (List.Sublist.refl _) rfl
  case stopOne t =>
    simp only [stepPrim]
    exact h.same rfl (fun _ ht => ht) (fun _ hj => hj) ((List.eraseP_sublist).map _) rfl
  case popFuture t o =>
    simp only [stepPrim]
    split
    · cases o with
      | none => exact h.same rfl (fun _ ht => ht) (fun _ hj => hj) (List.Sublist.refl _) rfl
      | some o =>
        exact h.ext_sub [Ev.yield t o] rfl (plain_single _ rfl rfl)
          (fun x hx => by simp at hx) (fun _ ht => ht) (fun _ hj => hj) (List.Sublist.refl _) h.cSub
    · exact h.same rfl (fun _ ht => ht) (fun _ hj => hj) (List.Sublist.refl _) rfl
  case removeDone rem =>
    simp only [stepPrim]
    exact h.ext_sub [Ev.remove rem (s.rs.results.map (·.1))] rfl (plain_single _ rfl rfl)
      (fun x hx => by simp at hx) (fun _ ht => ht) (fun _ hj => hj) (List.Sublist.refl _) h.cSub
  case popDeque =>
    simp only [stepPrim]
    cases hq : s.rs.queued with
    | nil =>
      exact h.ext_sub [Ev.waitEnter ([].map Job.tid) []] rfl (plain_single _ rfl rfl)
        (fun x hx => by simp at hx) (fun _ ht => ht) (fun j hj => by simp at hj) (List.Sublist.refl _) h.cSub
    | cons j rest =>
      refine h.ext_sub [Ev.waitEnter ((j :: rest).map Job.tid) []] rfl (plain_single _ rfl rfl)
        (fun x hx => by simp at hx) (fun _ ht => ht)
        (fun j' hj' => by rw [hq]; exact List.mem_cons_of_mem _ hj') (List.Sublist.refl _) ?_
      intro j' hj'
      simp only [Option.some.injEq] at hj'
      subst hj'
      exact h.qSub j (by rw [hq]; exact List.mem_cons_self)
  case consumeResults c =>
    simp only [stepPrim]
    have hfs := finOf_sublist c s.rs.running
    have hss := stayOf_sublist c s.rs.running
    have hperm := finOf_stayOf_perm c s.rs.running
    have hndAll : ((finOf c s.rs.running ++ stayOf c s.rs.running).map Job.tid).Nodup :=
      (hperm.map Job.tid).nodup_iff.mpr h.runNd
    rw [List.map_append, List.nodup_append] at hndAll
    have e1 : submittedOf (s.rs.trace ++ [Ev.waitEnter (s.rs.queued.map Job.tid) (s.rs.running.map Job.tid)] ++
        ((finOf c s.rs.running).map (jobEvents p s.rs.ts)).flatten) = submittedOf s.rs.trace := by
      rw [submittedOf_append, submittedOf_append, submittedOf_jobEvents]; simp [submittedOf, evSubmit]
    have e2 : ranOf (s.rs.trace ++ [Ev.waitEnter (s.rs.queued.map Job.tid) (s.rs.running.map Job.tid)] ++
        ((finOf c s.rs.running).map (jobEvents p s.rs.ts)).flatten) = ranOf s.rs.trace ++
          ranOf (((finOf c s.rs.running).map (jobEvents p s.rs.ts)).flatten) := by
      rw [ranOf_append, ranOf_append]; simp [ranOf, evRan]
    have hsl := ranOf_flatten_sublist p s.rs.ts (finOf c s.rs.running)
    have hfinrun : ∀ x ∈ (finOf c s.rs.running).map Job.tid, x ∈ s.rs.running.map Job.tid :=
      fun x hx => (hfs.map Job.tid).subset hx
    exact {
      subNd := by rw [e1]; exact h.subNd
      subP := by rw [e1]; exact h.subP
      pendP := h.pendP
      subPlan := by rw [e1]; exact h.subPlan
      qSub := by rw [e1]; exact h.qSub
      rSub := by rw [e1]; exact fun x hx => h.rSub x ((hss.map Job.tid).subset hx)
      cSub := by rw [e1]; exact h.cSub
      ranSub := by
        rw [e1, e2]
        intro x hx
        rcases List.mem_append.mp hx with hx | hx
        · exact h.ranSub x hx
        · exact h.rSub x (hfinrun x (hsl.subset hx))
      startSub := by
        rw [e1]
        intro x hx
        simp only [List.mem_append, List.mem_singleton] at hx
        rcases hx with (hx | hx) | hx
        · exact h.startSub x hx
        · cases hx
        · exact absurd hx (start_not_in_jobEvents _ _ _)
      ranNd := by
        rw [e2, List.nodup_append]
        refine ⟨h.ranNd, hsl.nodup hndAll.1, ?_⟩
        intro a ha b hb hab
        subst hab
        exact h.runNotRan a (hfinrun a (hsl.subset hb)) ha
      runNd := (hss.map Job.tid).nodup h.runNd
      runNotRan := by
        rw [e2]
        intro x hx hr
        rcases List.mem_append.mp hr with hr | hr
        · exact h.runNotRan x ((hss.map Job.tid).subset hx) hr
        · exact hndAll.2.2 x (hsl.subset hr) x hx rfl }
  case serialRun =>
    simp only [stepPrim]
    cases hc : s.cur with
    | none => exact h
    | some j =>
      obtain ⟨g1, g2⟩ := hg j hc
      have hjs := h.cSub j hc
      have e1 : submittedOf (s.rs.trace ++ [Ev.start j.tid] ++ runEvents p s.rs.ts j) = submittedOf s.rs.trace := by
        rw [List.append_assoc, submittedOf_append, plain_runEvents_start]; simp
      have e2 : ranOf (s.rs.trace ++ [Ev.start j.tid] ++ runEvents p s.rs.ts j) = ranOf s.rs.trace ++ [j.tid] := by
        rw [ranOf_append, ranOf_append, ranOf_runEvents]; simp [ranOf, evRan]
      exact {
        subNd := by rw [e1]; exact h.subNd
        subP := by rw [e1]; exact h.subP
        pendP := h.pendP
        subPlan := by rw [e1]; exact h.subPlan
        qSub := by rw [e1]; exact h.qSub
        rSub := by rw [e1]; exact h.rSub
        cSub := by rw [e1]; exact fun j' hj' => h.cSub j' (by rw [hc]; exact hj')
        ranSub := by
          rw [e1, e2]
          intro x hx
          simp only [List.mem_append, List.mem_singleton] at hx
          rcases hx with hx | rfl
          · exact h.ranSub x hx
          · exact hjs
        startSub := by
          rw [e1]
          intro x hx
          simp only [List.mem_append, List.mem_singleton] at hx
          rcases hx with (hx | hx) | hx
          · exact h.startSub x hx
          · cases hx; exact hjs
          · rcases runEvents_cases p _ _ _ hx with h' | h' <;> cases h'
        ranNd := by
          rw [e2, List.nodup_append]
          exact ⟨h.ranNd, by simp, fun a ha b hb => by
            simp only [List.mem_singleton] at hb; subst hb; exact fun hab => g1 (hab ▸ ha)⟩
        runNd := h.runNd
        runNotRan := by
          rw [e2]
          intro x hx hr
          simp only [List.mem_append, List.mem_singleton] at hr
          rcases hr with hr | rfl
          · exact h.runNotRan x hx hr
          · exact g2 hx }

/-! ## the part that holds between two bookkeeping blocks of the main stream -/
structure OS (s : IS) : Prop where
  qNd : (s.rs.queued.map Job.tid).Nodup
  qNotRun : ∀ t ∈ s.rs.queued.map Job.tid, t ∉ s.rs.running.map Job.tid
  qNotRan : ∀ t ∈ s.rs.queued.map Job.tid, t ∉ ranOf s.rs.trace

theorem OS.shrink {s s' : IS} (h : OS s)
    (hq : (s'.rs.queued.map Job.tid).Sublist (s.rs.queued.map Job.tid))
    (hr : ∀ t ∈ s'.rs.running.map Job.tid, t ∈ s.rs.running.map Job.tid)
    (hran : ∀ t ∈ ranOf s'.rs.trace, t ∈ ranOf s.rs.trace ∨ t ∈ s.rs.running.map Job.tid) : OS s' where
  qNd := hq.nodup h.qNd
  qNotRun := fun t ht hr' => h.qNotRun t (hq.subset ht) (hr t hr')
  qNotRan := by
    intro t ht hr'
    rcases hran t hr' with h1 | h1
    · exact h.qNotRan t (hq.subset ht) h1
    · exact h.qNotRun t (hq.subset ht) h1

/-- primitives that keep `OS` -/
def Prim.ssafe : Prim → Bool
  | .enqueue _ | .serialAppend _ | .regRunning _ | .serialRun => false
  | _ => true

theorem ssafe_of_ofree {q : Prim} (h : q.ofree = true) : q.ssafe = true := by
  cases q <;> simp [Prim.ofree] at h <;> rfl

theorem OS_step (q : Prim) (s : IS) (hq : q.ssafe = true) (h : OS s) : OS (applyPrim cfg p q s) := by
  by_cases hd : q.touchesO = false
  · obtain ⟨e1, _, e3, e4, _⟩ := applyPrim_ofields (cfg := cfg) (p := p) q s hd
    exact h.shrink (by rw [e3]; exact List.Sublist.refl _) (by rw [e4]; exact fun _ ht => ht)
      (by rw [e1]; exact fun _ ht => Or.inl ht)
  by_cases hrun : ¬ s.rs.status = .running
  · rw [applyPrim_stopped q s hrun]; exact h
  rw [applyPrim_running q s (Decidable.not_not.mp hrun)]
  have hplain : ∀ (e : Ev), evRan e = none → ∀ t ∈ ranOf (s.rs.trace ++ [e]),
      t ∈ ranOf s.rs.trace ∨ t ∈ s.rs.running.map Job.tid := by
    intro e he t ht
    rw [ranOf_append] at ht
    simp only [ranOf, List.filterMap_cons, he, List.filterMap_nil, List.append_nil] at ht
    exact Or.inl ht
  cases q <;> simp [Prim.touchesO] at hd <;> simp [Prim.ssafe] at hq
  case startTask t =>
    simp only [stepPrim]
    cases hs : startTask s.rs.ts t with
    | none => exact h.shrink (List.Sublist.refl _) (fun _ ht => ht) (fun _ ht => Or.inl ht)
    | some ts' => exact h.shrink (List.Sublist.refl _) (fun _ ht => ht) (fun _ ht => Or.inl ht)
  case procStart t =>
    simp only [stepPrim]
    exact h.shrink (List.Sublist.refl _) (fun _ ht => ht) (hplain _ rfl)
  case unregPending t =>
    simp only [stepPrim]
    exact h.shrink ((List.eraseP_sublist).map _) (fun _ ht => ht) (fun _ ht => Or.inl ht)
  case cancelOne t =>
    simp only [stepPrim]
    exact h.shrink ((List.eraseP_sublist).map _) (fun _ ht => ht) (fun _ ht => Or.inl ht)
  case clearDeque =>
    simp only [stepPrim]
    exact h.shrink (by simp) (fun _ ht => ht) (fun _ ht => Or.inl ht)
  case stopOne t =>
    simp only [stepPrim]
    exact h.shrink (List.Sublist.refl _) (fun _ ht => ((List.eraseP_sublist).map _).subset ht)
      (fun _ ht => Or.inl ht)
  case popFuture t o =>
    simp only [stepPrim]
    split
    · cases o with
      | none => exact h.shrink (List.Sublist.refl _) (fun _ ht => ht) (fun _ ht => Or.inl ht)
      | some o => exact h.shrink (List.Sublist.refl _) (fun _ ht => ht) (hplain _ rfl)
    · exact h.shrink (List.Sublist.refl _) (fun _ ht => ht) (fun _ ht => Or.inl ht)
  case removeDone rem =>
    simp only [stepPrim]
    exact h.shrink (List.Sublist.refl _) (fun _ ht => ht) (hplain _ rfl)
  case popDeque =>
    simp only [stepPrim]
    cases hqq : s.rs.queued with
    | nil => exact h.shrink (by simp) (fun _ ht => ht) (hplain _ rfl)
    | cons j rest =>
      exact h.shrink (by rw [hqq]; simp) (fun _ ht => ht) (hplain _ rfl)
  case consumeResults c =>
    simp only [stepPrim]
    refine h.shrink (List.Sublist.refl _) (fun _ ht => ((stayOf_sublist c _).map _).subset ht) ?_
    intro t ht
    rw [ranOf_append, ranOf_append] at ht
    simp only [List.mem_append] at ht
    rcases ht with (ht | ht) | ht
    · exact Or.inl ht
    · simp [ranOf, evRan] at ht
    · exact Or.inr (((finOf_sublist c _).map _).subset
        ((ranOf_flatten_sublist p s.rs.ts (finOf c s.rs.running)).subset ht))

/-- the invariant of the main stream between two blocks -/
def MI2 (P : TS) (s : IS) : Prop := OI P s ∧ OS s

theorem MI2_step {P : TS} (q : Prim) (s : IS) (hq : q.ofree = true) (h : MI2 P s) :
    MI2 P (applyPrim cfg p q s) :=
  ⟨OI_step q s h.1 (OG_of_free hq), OS_step q s (ssafe_of_ofree hq) h.2⟩

theorem always_MI2_free {P : TS} : ∀ (ps : List Prim) (s : IS), (∀ q ∈ ps, q.ofree = true) → MI2 P s →
    Always cfg p (MI2 P) ps s := by
  intro ps
  induction ps with
  | nil => intro s _ h; exact h
  | cons q ps ih =>
    intro s hq h
    exact ⟨h, ih _ (fun q' hq' => hq q' (List.mem_cons_of_mem _ hq')) (MI2_step q s (hq q List.mem_cons_self) h)⟩

/-- `OI` after every prefix, and `MI2` again at the end -/
def Blk (cfg : Config) (p : Problem) (P : TS) (ps : List Prim) (s : IS) : Prop :=
  Always cfg p (OI P) ps s ∧ MI2 P (runPrims cfg p ps s)

theorem Blk.append {P : TS} {a b : List Prim} {s : IS} (ha : Blk cfg p P a s)
    (hb : Blk cfg p P b (runPrims cfg p a s)) : Blk cfg p P (a ++ b) s :=
  ⟨(always_append a b s).mpr ⟨ha.1, hb.1⟩, by rw [runPrims_append]; exact hb.2⟩

theorem Blk.free {P : TS} (ps : List Prim) (s : IS) (hf : ∀ q ∈ ps, q.ofree = true) (h : MI2 P s) :
    Blk cfg p P ps s :=
  have a := always_MI2_free (cfg := cfg) (p := p) ps s hf h
  ⟨a.mono (fun _ hs => hs.1), a.last⟩

theorem Blk.stopped {P : TS} (ps : List Prim) (s : IS) (hs : s.rs.status ≠ .running) (h : MI2 P s) :
    Blk cfg p P ps s :=
  ⟨always_stopped ps s hs h.1, by rw [runPrims_stopped ps s hs]; exact h⟩

/-! ## `_start_processes` -/
theorem eraseP_tid_ne (t : Tid) : ∀ (l : List Job), (l.map Job.tid).Nodup →
    ∀ j ∈ l.eraseP (hasTid t), j.tid ≠ t := by
  intro l
  induction l with
  | nil => intro _ j hj; simp at hj
  | cons a l ih =>
    intro hnd j hj
    rw [List.map_cons, List.nodup_cons] at hnd
    rw [List.eraseP_cons] at hj
    cases ha : hasTid t a with
    | true =>
      simp only [ha, cond_true] at hj
      have hat : a.tid = t := by simpa [hasTid] using ha
      intro hjt
      exact hnd.1 (List.mem_map.mpr ⟨j, hj, by rw [hjt, hat]⟩)
    | false =>
      simp only [ha, cond_false] at hj
      rcases List.mem_cons.mp hj with rfl | hj
      · simpa [hasTid] using ha
      · exact ih hnd.2 j hj

/-- inside the window: `t` is both pending and running -/
structure OSW (t : Tid) (s : IS) : Prop where
  qNd : (s.rs.queued.map Job.tid).Nodup
  qNotRun : ∀ x ∈ s.rs.queued.map Job.tid, x ≠ t → x ∉ s.rs.running.map Job.tid
  qNotRan : ∀ x ∈ s.rs.queued.map Job.tid, x ∉ ranOf s.rs.trace

theorem OSW_regRunning (t : Tid) (s : IS) (h : OS s) : OSW t (applyPrim cfg p (Prim.regRunning t) s) := by
  by_cases hrun : s.rs.status = .running
  · rw [applyPrim_running _ _ hrun]
    simp only [stepPrim]
    cases hf : s.rs.queued.find? (hasTid t) with
    | none => exact ⟨h.qNd, fun x hx _ => h.qNotRun x hx, h.qNotRan⟩
    | some j =>
      have hjt : j.tid = t := by
        have := List.find?_some hf
        simpa [hasTid] using this
      refine ⟨h.qNd, ?_, h.qNotRan⟩
      intro x hx hxt hr
      simp only [List.map_append, List.map_cons, List.map_nil, List.mem_append, List.mem_singleton,
        forkSnap_tid'] at hr
      rcases hr with hr | hr
      · exact h.qNotRun x hx hr
      · exact hxt (hr.trans hjt)
  · rw [applyPrim_stopped _ _ hrun]
    exact ⟨h.qNd, fun x hx _ => h.qNotRun x hx, h.qNotRan⟩

theorem OS_unregPending (t : Tid) (s : IS) (hrun : s.rs.status = .running) (h : OSW t s) :
    OS (applyPrim cfg p (Prim.unregPending t) s) := by
  rw [applyPrim_running _ _ hrun]
  simp only [stepPrim]
  have hsl : ((s.rs.queued.eraseP (hasTid t)).map Job.tid).Sublist (s.rs.queued.map Job.tid) :=
    (List.eraseP_sublist).map _
  refine ⟨hsl.nodup h.qNd, ?_, fun x hx => h.qNotRan x (hsl.subset hx)⟩
  intro x hx
  obtain ⟨j, hj, rfl⟩ := List.mem_map.mp hx
  exact h.qNotRun j.tid (hsl.subset hx) (eraseP_tid_ne t _ h.qNd j hj)

theorem Blk_triple {P : TS} (j : Job) (s : IS) (h : MI2 P s) (hj : j ∈ s.rs.queued) :
    Blk cfg p P [Prim.procStart j.tid, Prim.regRunning j.tid, Prim.unregPending j.tid] s ∧
    (∀ j' ∈ s.rs.queued, j'.tid ≠ j.tid →
      j' ∈ (runPrims cfg p [Prim.procStart j.tid, Prim.regRunning j.tid, Prim.unregPending j.tid] s).rs.queued) := by
  by_cases hrun' : ¬ s.rs.status = .running
  · exact ⟨Blk.stopped _ s hrun' h, fun j' hj' _ => by rw [runPrims_stopped _ s hrun']; exact hj'⟩
  have hrun : s.rs.status = .running := Decidable.not_not.mp hrun'
  have hjm : j.tid ∈ s.rs.queued.map Job.tid := List.mem_map.mpr ⟨j, hj, rfl⟩
  -- `process.start()`
  have q1 : (applyPrim cfg p (Prim.procStart j.tid) s).rs.queued = s.rs.queued := applyPrim_queued _ _ rfl
  have r1 : (applyPrim cfg p (Prim.procStart j.tid) s).rs.status = .running := by
    rw [applyPrim_status _ _ rfl]; exact hrun
  have i1 : OI P (applyPrim cfg p (Prim.procStart j.tid) s) := OI_step _ s h.1 (h.1.qSub j hj)
  have o1 : OS (applyPrim cfg p (Prim.procStart j.tid) s) := OS_step _ s rfl h.2
  -- the running map is written
  have hjm1 : j.tid ∈ (applyPrim cfg p (Prim.procStart j.tid) s).rs.queued.map Job.tid := by rw [q1]; exact hjm
  have i2 := OI_step (cfg := cfg) (p := p) (Prim.regRunning j.tid) _ i1 ⟨o1.qNotRun _ hjm1, o1.qNotRan _ hjm1⟩
  have o2 := OSW_regRunning (cfg := cfg) (p := p) j.tid _ o1
  have q2 : (applyPrim cfg p (Prim.regRunning j.tid) (applyPrim cfg p (Prim.procStart j.tid) s)).rs.queued
      = s.rs.queued := by rw [applyPrim_queued _ _ rfl, q1]
  have r2 : (applyPrim cfg p (Prim.regRunning j.tid) (applyPrim cfg p (Prim.procStart j.tid) s)).rs.status
      = .running := by rw [applyPrim_status _ _ rfl]; exact r1
  -- the pending entry is deleted
  have i3 := OI_step (cfg := cfg) (p := p) (Prim.unregPending j.tid) _ i2 trivial
  have o3 := OS_unregPending (cfg := cfg) (p := p) j.tid _ r2 o2
  refine ⟨⟨⟨h.1, i1, i2, i3⟩, ⟨i3, o3⟩⟩, ?_⟩
  intro j' hj' hne
  simp only [runPrims_cons, runPrims_nil]
  rw [applyPrim_running _ _ r2]
  simp only [stepPrim]
  rw [q2]
  exact (List.mem_eraseP_of_neg (by simpa [hasTid] using hne)).mpr hj'

theorem startPrims_cons' (j : Job) (go : List Job) : startPrims (j :: go) =
    [Prim.procStart j.tid, Prim.regRunning j.tid, Prim.unregPending j.tid] ++ startPrims go := by
  simp [startPrims]

theorem Blk_startPrims {P : TS} : ∀ (go : List Job) (s : IS), MI2 P s → (∀ j ∈ go, j ∈ s.rs.queued) →
    (go.map Job.tid).Nodup → Blk cfg p P (startPrims go) s := by
  intro go
  induction go with
  | nil => intro s h _ _; exact ⟨h.1, h⟩
  | cons j go ih =>
    intro s h hmem hnd
    rw [startPrims_cons']
    rw [List.map_cons, List.nodup_cons] at hnd
    obtain ⟨b, hkeep⟩ := Blk_triple (cfg := cfg) (p := p) j s h (hmem j List.mem_cons_self)
    refine b.append (ih _ b.2 ?_ hnd.2)
    intro j' hj'
    apply hkeep j' (hmem j' (List.mem_cons_of_mem _ hj'))
    intro hjt
    exact hnd.1 (List.mem_map.mpr ⟨j', hj', hjt⟩)

theorem takeN_fst_sublist {α} (n : Nat) (l : List α) : (takeN n l).1.Sublist l := by
  have h := List.sublist_append_left (takeN n l).1 (takeN n l).2
  rwa [takeN_append] at h

theorem Blk_startProcesses {P : TS} (s : IS) (h : MI2 P s) : Blk cfg p P (startProcessesPrims cfg s) s :=
  Blk_startPrims _ s h (fun j hj => takeN_fst_mem _ _ j hj)
    (((takeN_fst_sublist _ _).map Job.tid).nodup h.2.qNd)

theorem Blk.cons {P : TS} {q : Prim} {ps : List Prim} {s : IS} (h : OI P s)
    (hb : Blk cfg p P ps (applyPrim cfg p q s)) : Blk cfg p P (q :: ps) s :=
  ⟨⟨h, hb.1⟩, hb.2⟩

theorem Blk.nil {P : TS} {s : IS} (h : MI2 P s) : Blk cfg p P [] s := ⟨h.1, h⟩

/-! ## the submit phase -/
theorem OS_enqueue {P : TS} (t : Tid) (s : IS) (h : MI2 P s) (ht : t ∉ submittedOf s.rs.trace) :
    OS (applyPrim cfg p (Prim.enqueue t) s) ∧ OS (applyPrim cfg p (Prim.serialAppend t) s) := by
  by_cases hrun : s.rs.status = .running
  · rw [applyPrim_running _ _ hrun, applyPrim_running _ _ hrun]
    simp only [stepPrim]
    have e2 : ∀ uc, ranOf (s.rs.trace ++ [Ev.submit t uc]) = ranOf s.rs.trace := by
      intro uc; rw [ranOf_append]; simp [ranOf, evRan]
    have key : ∀ uc (j : Job), j.tid = t →
        ((s.rs.queued ++ [j]).map Job.tid).Nodup ∧
        (∀ x ∈ (s.rs.queued ++ [j]).map Job.tid, x ∉ s.rs.running.map Job.tid) ∧
        (∀ x ∈ (s.rs.queued ++ [j]).map Job.tid, x ∉ ranOf (s.rs.trace ++ [Ev.submit t uc])) := by
      intro uc j hjt
      have hmem : ∀ x ∈ (s.rs.queued ++ [j]).map Job.tid, x ∈ s.rs.queued.map Job.tid ∨ x = t := by
        intro x hx
        simp only [List.map_append, List.map_cons, List.map_nil, List.mem_append, List.mem_singleton] at hx
        rcases hx with hx | hx
        · exact Or.inl hx
        · exact Or.inr (hx.trans hjt)
      refine ⟨?_, ?_, ?_⟩
      · rw [List.map_append, List.nodup_append]
        refine ⟨h.2.qNd, by simp, ?_⟩
        intro a ha b hb
        simp only [List.map_cons, List.map_nil, List.mem_singleton] at hb
        subst hb
        intro hab
        obtain ⟨j', hj', rfl⟩ := List.mem_map.mp ha
        exact ht (hjt ▸ hab ▸ h.1.qSub j' hj')
      · intro x hx
        rcases hmem x hx with hx | rfl
        · exact h.2.qNotRun x hx
        · exact fun hr => ht (h.1.rSub _ hr)
      · intro x hx
        rw [e2]
        rcases hmem x hx with hx | rfl
        · exact h.2.qNotRan x hx
        · exact fun hr => ht (h.1.ranSub _ hr)
    have k := key (mkJob cfg p s.rs t).useCache (mkJob cfg p s.rs t) rfl
    exact ⟨⟨k.1, k.2.1, k.2.2⟩, ⟨k.1, k.2.1, k.2.2⟩⟩
  · rw [applyPrim_stopped _ _ hrun, applyPrim_stopped _ _ hrun]; exact ⟨h.2, h.2⟩

theorem startTask_facts (s : IS) (t : Tid) (hrun : s.rs.status = .running)
    (hr1 : (applyPrim cfg p (Prim.startTask t) s).rs.status = .running) :
    t ∈ s.rs.ts.pending ∧
    (applyPrim cfg p (Prim.startTask t) s).rs.ts.pending = s.rs.ts.pending.filter (· ≠ t) ∧
    (applyPrim cfg p (Prim.startTask t) s).rs.trace = s.rs.trace := by
  rw [applyPrim_running _ _ hrun] at hr1 ⊢
  simp only [stepPrim] at hr1 ⊢
  cases hs : startTask s.rs.ts t with
  | none => rw [hs] at hr1; simp [keyErr] at hr1
  | some ts' =>
    obtain ⟨h1, h2⟩ := startTask_some _ _ _ hs
    subst h2
    exact ⟨h1, rfl, rfl⟩

theorem Blk_submitOne {P : TS} (s : IS) (t : Tid) (h : MI2 P s) :
    Blk cfg p P (submitOnePrims cfg p s t) s := by
  by_cases hrun' : ¬ s.rs.status = .running
  · exact Blk.stopped _ s hrun' h
  have hrun : s.rs.status = .running := Decidable.not_not.mp hrun'
  have m1 : MI2 P (applyPrim cfg p (Prim.startTask t) s) := MI2_step _ s rfl h
  by_cases hr1 : ¬ (applyPrim cfg p (Prim.startTask t) s).rs.status = .running
  · simp only [submitOnePrims]
    split
    · exact Blk.cons h.1 (Blk.stopped _ _ hr1 m1)
    · exact Blk.cons (ps := Prim.enqueue t :: (startProcessesPrims cfg
        (runPrims cfg p [Prim.startTask t, Prim.enqueue t] s) ++ [Prim.regFuture t])) h.1
        (Blk.stopped _ _ hr1 m1)
  obtain ⟨htp, hpend, htr⟩ := startTask_facts (cfg := cfg) (p := p) s t hrun (Decidable.not_not.mp hr1)
  have g1 : t ∉ submittedOf (applyPrim cfg p (Prim.startTask t) s).rs.trace := by
    rw [htr]; exact fun hsub => h.1.subP t hsub htp
  have g2 : t ∉ (applyPrim cfg p (Prim.startTask t) s).rs.ts.pending := by rw [hpend]; simp
  have g3 : t ∈ P.pending := h.1.pendP t htp
  have os := OS_enqueue (cfg := cfg) (p := p) t _ m1 g1
  simp only [submitOnePrims]
  split
  · have m2 : MI2 P (applyPrim cfg p (Prim.serialAppend t) (applyPrim cfg p (Prim.startTask t) s)) :=
      ⟨OI_step _ _ m1.1 ⟨g1, g2, g3⟩, os.2⟩
    exact Blk.cons h.1 (Blk.cons m1.1 (Blk.nil m2))
  · have m2 : MI2 P (applyPrim cfg p (Prim.enqueue t) (applyPrim cfg p (Prim.startTask t) s)) :=
      ⟨OI_step _ _ m1.1 ⟨g1, g2, g3⟩, os.1⟩
    have b := Blk_startProcesses (cfg := cfg) (p := p) _ m2
    have c := Blk.free (cfg := cfg) (p := p) [Prim.regFuture t] _
      (fun q hq => by simp only [List.mem_singleton] at hq; subst hq; rfl) b.2
    exact Blk.cons (ps := Prim.enqueue t :: (startProcessesPrims cfg
        (runPrims cfg p [Prim.startTask t, Prim.enqueue t] s) ++ [Prim.regFuture t])) h.1
      (Blk.cons m1.1 (b.append c))

theorem Blk_submit {P : TS} : ∀ (l : List Tid) (s : IS), MI2 P s → Blk cfg p P (submitPrims cfg p l s) s := by
  intro l
  induction l with
  | nil => intro s h; exact Blk.nil h
  | cons t ts ih =>
    intro s h
    simp only [submitPrims]
    have a := Blk_submitOne (cfg := cfg) (p := p) s t h
    exact a.append (ih _ a.2)

/-! ## one `process_completed_tasks()` call -/
theorem ofree_gen : GenOK cfg (fun q => q.ofree = true) where
  basic := fun _ h _ => ofree_of_nolaunch h
  raise := fun _ _ => rfl

theorem OS_serialRun (s : IS) (h : OS s)
    (hc : ∀ j, s.cur = some j → j.tid ∉ s.rs.queued.map Job.tid) :
    OS (applyPrim cfg p Prim.serialRun s) := by
  by_cases hrun : s.rs.status = .running
  · rw [applyPrim_running _ _ hrun]
    simp only [stepPrim]
    cases hcur : s.cur with
    | none => exact h
    | some j =>
      refine ⟨h.qNd, h.qNotRun, ?_⟩
      intro x hx hr
      have e2 : ranOf (s.rs.trace ++ [Ev.start j.tid] ++ runEvents p s.rs.ts j) = ranOf s.rs.trace ++ [j.tid] := by
        rw [ranOf_append, ranOf_append, ranOf_runEvents]; simp [ranOf, evRan]
      rw [e2] at hr
      simp only [List.mem_append, List.mem_singleton] at hr
      rcases hr with hr | rfl
      · exact h.qNotRan x hx hr
      · exact hc j hcur hx
  · rw [applyPrim_stopped _ _ hrun]; exact h

theorem popDeque_facts (s : IS) (j : Job) (rest : List Job) (hrun : s.rs.status = .running)
    (hq : s.rs.queued = j :: rest) :
    (applyPrim cfg p Prim.popDeque s).cur = some { j with snap := some s.rs.results } ∧
    (applyPrim cfg p Prim.popDeque s).rs.queued = rest ∧
    ranOf (applyPrim cfg p Prim.popDeque s).rs.trace = ranOf s.rs.trace ∧
    (applyPrim cfg p Prim.popDeque s).rs.running = s.rs.running := by
  rw [applyPrim_running _ _ hrun]
  simp only [stepPrim, hq, true_and, and_true]
  rw [ranOf_append]; simp [ranOf, evRan]

theorem Blk_wait {P : TS} (req : List Tid) (c : Choice) (s : IS) (h : MI2 P s) :
    Blk cfg p P (waitPrims cfg p req c s) s := by
  by_cases hrun' : ¬ s.rs.status = .running
  · exact Blk.stopped _ s hrun' h
  have hrun : s.rs.status = .running := Decidable.not_not.mp hrun'
  simp only [waitPrims]
  split
  · split
    · exact Blk.free _ s (fun q hq => by simp only [List.mem_singleton] at hq; subst hq; rfl) h
    · next j rest hq =>
      obtain ⟨f1, f2, f3, f4⟩ := popDeque_facts (cfg := cfg) (p := p) s j rest hrun hq
      have m1 : MI2 P (applyPrim cfg p Prim.popDeque s) := MI2_step _ s rfl h
      have hjm : j.tid ∈ s.rs.queued.map Job.tid := by rw [hq]; simp
      have hnd := h.2.qNd
      rw [hq, List.map_cons, List.nodup_cons] at hnd
      have i2 : OI P (applyPrim cfg p Prim.serialRun (applyPrim cfg p Prim.popDeque s)) := by
        apply OI_step _ _ m1.1
        intro j' hj'
        rw [f1] at hj'
        simp only [Option.some.injEq] at hj'
        subst hj'
        rw [f3, f4]
        exact ⟨h.2.qNotRan _ hjm, h.2.qNotRun _ hjm⟩
      have o2 : OS (applyPrim cfg p Prim.serialRun (applyPrim cfg p Prim.popDeque s)) := by
        apply OS_serialRun _ m1.2
        intro j' hj'
        rw [f1] at hj'
        simp only [Option.some.injEq] at hj'
        subst hj'
        rw [f2]
        exact hnd.1
      refine Blk.cons (ps := Prim.serialRun :: ([Prim.serialSaveBegin, Prim.serialSaveEnd,
        Prim.popFuture j.tid (some (runOutcome p s.rs.ts s.rs.store { j with snap := some s.rs.results }))] ++
        yieldPrims cfg req s.rs.ts j.tid (runOutcome p s.rs.ts s.rs.store { j with snap := some s.rs.results })))
        h.1 (Blk.cons m1.1 (Blk.free _ _ ?_ ⟨i2, o2⟩))
      intro q hq'
      simp only [List.mem_append, List.mem_cons, List.not_mem_nil, or_false] at hq'
      rcases hq' with (rfl | rfl | rfl) | hq'
      · rfl
      · rfl
      · rfl
      · exact members_yield ofree_gen req _ _ _ q hq'
  · have a : Blk cfg p P (Prim.consumeResults c ::
        deadPrims (runPrims cfg p [Prim.consumeResults c] s)) s :=
      Blk.free _ s (fun q hq => by
        simp only [List.mem_cons, deadPrims, List.mem_map] at hq
        rcases hq with rfl | ⟨t, _, rfl⟩ <;> rfl) h
    have b := Blk_startProcesses (cfg := cfg) (p := p) _ a.2
    refine (a.append b).append ?_
    rw [runPrims_append]
    exact Blk.free _ _ (members_done ofree_gen req _ _) b.2

/-! ## the three streams -/
theorem Blk_iteration {P : TS} (req : List Tid) (c : Choice) (s : IS) (h : MI2 P s) :
    Blk cfg p P (iterationPrims cfg p req c s) s := by
  have a := Blk_submit (cfg := cfg) (p := p) (readyTasks p s.rs.ts) s h
  simp only [iterationPrims]
  split
  · exact a.append (Blk_wait req c _ a.2)
  · exact a

theorem Blk_main {P : TS} (req : List Tid) : ∀ (sched : List Choice) (s : IS), MI2 P s →
    Blk cfg p P (mainStream cfg p req sched s) s := by
  intro sched
  induction sched with
  | nil => intro s h; exact Blk.nil h
  | cons c cs ih =>
    intro s h
    unfold mainStream
    split
    · split
      · have a := Blk_iteration (cfg := cfg) (p := p) req c s h
        exact a.append (ih _ a.2)
      · exact Blk.nil h
    · exact Blk.nil h

/-- nothing is launched: no side condition -/
theorem always_OI_nolaunch {P : TS} : ∀ (ps : List Prim) (s : IS), (∀ q ∈ ps, q.launches = false) → OI P s →
    Always cfg p (OI P) ps s := by
  intro ps
  induction ps with
  | nil => intro s _ h; exact h
  | cons q ps ih =>
    intro s hq h
    exact ⟨h, ih _ (fun q' hq' => hq q' (List.mem_cons_of_mem _ hq'))
      (OI_step q s h (OG_of_free (ofree_of_nolaunch (hq q List.mem_cons_self))))⟩

/-- the first `KeyboardInterrupt` handler, entered in ANY state with `OI` -/
theorem always_OI_handler {P : TS} (req : List Tid) (ds : List Choice) (s : IS) (h : OI P s) :
    Always cfg p (OI P) (handlerPrims cfg p req ds s) s :=
  always_OI_nolaunch _ s (fun q hq => (members_handler req ds s q hq).1) h

/-- the second handler, entered in ANY state with `OI` -/
theorem always_OI_second {P : TS} (req : List Tid) (s : IS) (h : OI P s) :
    Always cfg p (OI P) (secondPrims cfg p req s) s := by
  by_cases hrun : s.rs.status = .running
  · exact always_OI_nolaunch _ s (fun q hq => (members_second req s hrun q hq).1) h
  · exact always_stopped _ s hrun h

theorem MI2_init (store : Store) (fuel : Nat) : MI2 (plan cfg p store fuel) (initIS cfg p store fuel) := by
  refine ⟨?_, ⟨List.nodup_nil, fun t ht => by simp [initIS, initRS] at ht,
    fun t ht => by simp [initIS, initRS] at ht⟩⟩
  exact {
    subNd := List.nodup_nil
    subP := fun t ht => by simp [initIS, initRS, submittedOf] at ht
    pendP := fun t ht => ht
    subPlan := fun t ht => by simp [initIS, initRS, submittedOf] at ht
    qSub := fun j hj => by simp [initIS, initRS] at hj
    rSub := fun t ht => by simp [initIS, initRS] at ht
    cSub := fun j hj => by simp [initIS] at hj
    ranSub := fun t ht => by simp [initIS, initRS, ranOf] at ht
    startSub := fun t ht => by simp [initIS, initRS] at ht
    ranNd := List.nodup_nil
    runNd := List.nodup_nil
    runNotRan := fun t ht => by simp [initIS, initRS] at ht }

theorem stateAt_OI (store : Store) (fuel : Nat) (sched : List Choice) (k : Nat) :
    OI (plan cfg p store fuel) (stateAt cfg p store fuel sched k) :=
  (Blk_main (reqTids p) sched _ (MI2_init store fuel)).1.prefix k

theorem handlerStateAt_OI (store : Store) (fuel : Nat) (sched : List Choice) (k : Nat) (ds : List Choice) (m : Nat) :
    OI (plan cfg p store fuel) (handlerStateAt cfg p store fuel sched k ds m) :=
  (always_OI_handler (reqTids p) ds _ (stateAt_OI store fuel sched k)).prefix m

theorem secondStateAt_OI (store : Store) (fuel : Nat) (sched : List Choice) (k : Nat) (ds : List Choice)
    (m m2 : Nat) : OI (plan cfg p store fuel) (secondStateAt cfg p store fuel sched k ds m m2) :=
  (always_OI_second (reqTids p) _ (handlerStateAt_OI store fuel sched k ds m)).prefix m2

end Lt
