import LabtechModel.Model.Diagram
/-!
Helper definitions and lemmas for C20: the specification-side notions (all task sub-terms, the
visiting order, look-ups in the structure) and how each operation of `build` acts on them.
-/
namespace Lt.Diag

/-- element-wise relation between two lists of the same length -/
inductive Forall2 {α β : Type} (R : α → β → Prop) : List α → List β → Prop
  | nil : Forall2 R [] []
  | cons {a b l₁ l₂} : R a b → Forall2 R l₁ l₂ → Forall2 R (a :: l₁) (b :: l₂)

/-! ## every task sub-term of a value / task (at any depth, also through tasks) -/
mutual
def subValue : Value → List Task
  | .scalar => []
  | .tuple items => subList items
  | .dict items => subFields items
  | .task t => subTask t
def subTask : Task → List Task
  | .mk ty fields => .mk ty fields :: subFields fields
def subList : List Value → List Task
  | [] => []
  | v :: vs => subValue v ++ subList vs
def subFields : List (String × Value) → List Task
  | [] => []
  | (_, v) :: rest => subValue v ++ subFields rest
end

/-- every task sub-term of a list of tasks: the tasks "reachable through parameters at any depth" -/
def subQueue : List Task → List Task
  | [] => []
  | t :: q => subTask t ++ subQueue q

theorem subQueue_append (a b : List Task) : subQueue (a ++ b) = subQueue a ++ subQueue b := by
  induction a with
  | nil => rfl
  | cons t q ih => simp [subQueue, ih]

theorem sizeQueue_append (a b : List Task) : sizeQueue (a ++ b) = sizeQueue a + sizeQueue b := by
  induction a with
  | nil => simp [sizeQueue]
  | cons t q ih => simp [sizeQueue, ih]; omega

mutual
theorem subValue_find : ∀ v : Value, subValue v = subQueue (findTasks v)
  | .scalar => by simp [subValue, findTasks, subQueue]
  | .tuple items => by simp [subValue, findTasks, subList_find items]
  | .dict items => by simp [subValue, findTasks, subFields_find items]
  | .task t => by simp [subValue, findTasks, subQueue]
theorem subList_find : ∀ l : List Value, subList l = subQueue (findList l)
  | [] => by simp [subList, findList, subQueue]
  | v :: vs => by simp [subList, findList, subQueue_append, subValue_find v, subList_find vs]
theorem subFields_find : ∀ l : List (String × Value), subFields l = subQueue (findFields l)
  | [] => by simp [subFields, findFields, subQueue]
  | (_, v) :: rest => by simp [subFields, findFields, subQueue_append, subValue_find v, subFields_find rest]
end

mutual
theorem sizeValue_find : ∀ v : Value, sizeValue v = sizeQueue (findTasks v)
  | .scalar => by simp [sizeValue, findTasks, sizeQueue]
  | .tuple items => by simp [sizeValue, findTasks, sizeList_find items]
  | .dict items => by simp [sizeValue, findTasks, sizeFields_find items]
  | .task t => by simp [sizeValue, findTasks, sizeQueue]
theorem sizeList_find : ∀ l : List Value, sizeList l = sizeQueue (findList l)
  | [] => by simp [sizeList, findList, sizeQueue]
  | v :: vs => by simp [sizeList, findList, sizeQueue_append, sizeValue_find v, sizeList_find vs]
theorem sizeFields_find : ∀ l : List (String × Value), sizeFields l = sizeQueue (findFields l)
  | [] => by simp [sizeFields, findFields, sizeQueue]
  | (_, v) :: rest => by simp [sizeFields, findFields, sizeQueue_append, sizeValue_find v, sizeFields_find rest]
end

theorem subTask_eq (t : Task) : subTask t = t :: subQueue (children t) := by
  cases t with
  | mk ty fields => simp [subTask, children, Task.fields, subFields_find]

theorem sizeTask_eq (t : Task) : sizeTask t = 1 + sizeQueue (children t) := by
  cases t with
  | mk ty fields => simp [sizeTask, children, Task.fields, sizeFields_find]

theorem sizeQueue_step (t : Task) (q : List Task) :
    sizeQueue (t :: q) = sizeQueue (q ++ children t) + 1 := by
  simp [sizeQueue, sizeQueue_append, sizeTask_eq]; omega

theorem sizeQueue_zero (q : List Task) (h : sizeQueue q = 0) : q = [] := by
  cases q with
  | nil => rfl
  | cons t q => rw [sizeQueue_step] at h; omega

/-! ## the visiting order of the `found_tasks` loop -/

/-- the tasks popped by the loop, in order (breadth-first over the parameter structure) -/
def visit : Nat → List Task → List Task
  | 0, _ => []
  | _ + 1, [] => []
  | n + 1, t :: q => t :: visit n (q ++ children t)

theorem buildLoop_eq_fold : ∀ (n : Nat) (q : List Task) (s : Struct),
    buildLoop n q s = (visit n q).foldl processTask s := by
  intro n
  induction n with
  | zero => intro q s; simp [buildLoop, visit]
  | succ n ih =>
    intro q s
    cases q with
    | nil => simp [buildLoop, visit]
    | cons t q => simp [buildLoop, visit, ih]

theorem visit_fuel : ∀ (n : Nat) (q : List Task), sizeQueue q ≤ n → visit n q = visit (sizeQueue q) q := by
  intro n
  induction n with
  | zero => intro q h; have : sizeQueue q = 0 := by omega
            rw [this]
  | succ n ih =>
    intro q h
    cases q with
    | nil => simp [visit, sizeQueue]
    | cons t q =>
      rw [sizeQueue_step] at h ⊢
      simp only [visit]
      rw [ih _ (by omega)]

theorem visit_perm : ∀ (n : Nat) (q : List Task), sizeQueue q ≤ n → (visit n q).Perm (subQueue q) := by
  intro n
  induction n with
  | zero =>
    intro q h
    have : q = [] := sizeQueue_zero q (by omega)
    subst this
    simp [visit, subQueue]
  | succ n ih =>
    intro q h
    cases q with
    | nil => simp [visit, subQueue]
    | cons t q =>
      rw [sizeQueue_step] at h
      simp only [visit, subQueue, subTask_eq, List.cons_append]
      refine List.Perm.cons t ?_
      refine (ih _ (by omega)).trans ?_
      rw [subQueue_append]
      exact List.perm_append_comm

/-! ## look-ups in the structure -/

def types (s : Struct) : List Nat := s.map Prod.fst

/-- `task_type_to_rels[T]` (`[]` for an unrecorded type) -/
def getRels : Struct → Nat → Rels
  | [], _ => []
  | (ty, r) :: rest, T => if ty = T then r else getRels rest T

def keys (r : Rels) : List RelKey := r.map Prod.fst

/-- `rels[k].multi_cardinality` (`false` for an absent key) -/
def flag : Rels → RelKey → Bool
  | [], _ => false
  | (k', m) :: rest, k => if k' = k then m else flag rest k

/-- first-occurrence order: append each element that has not been seen yet -/
def firstSeen : List Nat → List Nat → List Nat
  | acc, [] => acc
  | acc, x :: xs => firstSeen (if x ∈ acc then acc else acc ++ [x]) xs

/-! ### relsAdd -/

theorem keys_relsAdd (r : Rels) (k : RelKey) (m : Bool) :
    keys (relsAdd r k m) = if k ∈ keys r then keys r else keys r ++ [k] := by
  induction r with
  | nil => simp [relsAdd, keys]
  | cons e rest ih =>
    obtain ⟨k', m'⟩ := e
    simp only [relsAdd, keys] at *
    by_cases h : k' = k
    · simp [h]
    · have h' : ¬ k = k' := fun e => h e.symm
      simp only [h, if_false, List.map_cons, ih, List.mem_cons, h', false_or]
      by_cases hm : k ∈ List.map Prod.fst rest <;> simp only [hm, if_true, if_false, List.cons_append]

theorem mem_keys_relsAdd (r : Rels) (k : RelKey) (m : Bool) (k' : RelKey) :
    k' ∈ keys (relsAdd r k m) ↔ k' ∈ keys r ∨ k' = k := by
  rw [keys_relsAdd]
  split
  · next h => constructor
              · intro h'; exact Or.inl h'
              · intro h'; rcases h' with h' | h'
                · exact h'
                · subst h'; exact h
  · simp

theorem nodup_keys_relsAdd (r : Rels) (k : RelKey) (m : Bool) (h : (keys r).Nodup) :
    (keys (relsAdd r k m)).Nodup := by
  rw [keys_relsAdd]
  split
  · exact h
  · next hk =>
    rw [List.nodup_append]
    refine ⟨h, by simp, ?_⟩
    intro a ha b hb
    simp only [List.mem_singleton] at hb
    subst hb
    intro e; subst e; exact hk ha

theorem flag_relsAdd (r : Rels) (k : RelKey) (m : Bool) (k' : RelKey) :
    flag (relsAdd r k m) k' = if k' = k then (flag r k || m) else flag r k' := by
  induction r with
  | nil =>
    simp only [relsAdd, flag]
    by_cases h : k' = k
    · simp [h]
    · have h' : ¬ k = k' := fun e => h e.symm
      simp [h, h']
  | cons e rest ih =>
    obtain ⟨k0, m0⟩ := e
    simp only [relsAdd]
    by_cases h0 : k0 = k
    · subst h0
      simp only [if_true, flag]
      by_cases h : k' = k0
      · subst h; simp
      · have h' : ¬ k0 = k' := fun e => h e.symm
        simp [h, h']
    · simp only [h0, if_false, flag, ih]
      by_cases h : k' = k
      · subst h; simp [h0]
      · simp [h]

/-- all `add_relationship` calls of a list, applied to one type's relationships -/
def relsAddAll (r : Rels) (l : List (RelKey × Bool)) : Rels :=
  l.foldl (fun r x => relsAdd r x.1 x.2) r

theorem mem_keys_relsAddAll : ∀ (l : List (RelKey × Bool)) (r : Rels) (k : RelKey),
    k ∈ keys (relsAddAll r l) ↔ k ∈ keys r ∨ k ∈ l.map Prod.fst := by
  intro l
  induction l with
  | nil => intro r k; simp [relsAddAll]
  | cons x xs ih =>
    intro r k
    simp only [relsAddAll, List.foldl_cons] at ih ⊢
    rw [ih, mem_keys_relsAdd]
    simp only [List.map_cons, List.mem_cons]
    constructor
    · rintro ((h | h) | h)
      · exact Or.inl h
      · exact Or.inr (Or.inl h)
      · exact Or.inr (Or.inr h)
    · rintro (h | h | h)
      · exact Or.inl (Or.inl h)
      · exact Or.inl (Or.inr h)
      · exact Or.inr h

theorem nodup_keys_relsAddAll : ∀ (l : List (RelKey × Bool)) (r : Rels),
    (keys r).Nodup → (keys (relsAddAll r l)).Nodup := by
  intro l
  induction l with
  | nil => intro r h; simpa [relsAddAll] using h
  | cons x xs ih =>
    intro r h
    simp only [relsAddAll, List.foldl_cons] at ih ⊢
    exact ih _ (nodup_keys_relsAdd r x.1 x.2 h)

theorem flag_relsAddAll : ∀ (l : List (RelKey × Bool)) (r : Rels) (k : RelKey),
    flag (relsAddAll r l) k = true ↔ flag r k = true ∨ (k, true) ∈ l := by
  intro l
  induction l with
  | nil => intro r k; simp [relsAddAll]
  | cons x xs ih =>
    intro r k
    obtain ⟨xk, xm⟩ := x
    simp only [relsAddAll, List.foldl_cons] at ih ⊢
    rw [ih, flag_relsAdd]
    simp only [List.mem_cons, Prod.mk.injEq]
    by_cases h : k = xk
    · subst h
      simp only [if_true, Bool.or_eq_true, true_and]
      constructor
      · rintro ((h | h) | h)
        · exact Or.inl h
        · exact Or.inr (Or.inl h.symm)
        · exact Or.inr (Or.inr h)
      · rintro (h | h | h)
        · exact Or.inl (Or.inl h)
        · exact Or.inl (Or.inr h.symm)
        · exact Or.inr h
    · simp [h]

/-! ### addType / addRel -/

theorem types_addType (s : Struct) (ty : Nat) :
    types (addType s ty) = if ty ∈ types s then types s else types s ++ [ty] := by
  induction s with
  | nil => simp [addType, types]
  | cons e rest ih =>
    obtain ⟨ty', r⟩ := e
    simp only [addType, types] at *
    by_cases h : ty' = ty
    · simp [h]
    · have h' : ¬ ty = ty' := fun e => h e.symm
      simp only [h, if_false, List.map_cons, ih, List.mem_cons, h', false_or]
      by_cases hm : ty ∈ List.map Prod.fst rest <;> simp only [hm, if_true, if_false, List.cons_append]

theorem getRels_addType (s : Struct) (ty T : Nat) : getRels (addType s ty) T = getRels s T := by
  induction s with
  | nil =>
    simp only [addType, getRels]
    split <;> rfl
  | cons e rest ih =>
    obtain ⟨ty', r⟩ := e
    simp only [addType]
    by_cases h : ty' = ty
    · simp [h]
    · simp only [h, if_false, getRels, ih]

theorem mem_types_addType (s : Struct) (ty : Nat) : ty ∈ types (addType s ty) := by
  rw [types_addType]
  split
  · assumption
  · simp

theorem types_addRel (s : Struct) (f : Nat) (k : RelKey) (m : Bool) : types (addRel s f k m) = types s := by
  induction s with
  | nil => simp [addRel]
  | cons e rest ih =>
    obtain ⟨ty', r⟩ := e
    simp only [addRel, types] at *
    by_cases h : ty' = f
    · simp [h]
    · simp [h, ih]

theorem getRels_addRel (s : Struct) (f : Nat) (k : RelKey) (m : Bool) (T : Nat) (hf : f ∈ types s) :
    getRels (addRel s f k m) T = if T = f then relsAdd (getRels s f) k m else getRels s T := by
  induction s with
  | nil => simp [types] at hf
  | cons e rest ih =>
    obtain ⟨ty', r⟩ := e
    simp only [addRel]
    by_cases h : ty' = f
    · subst h
      simp only [if_true, getRels]
      by_cases hT : T = ty'
      · subst hT; simp
      · have hT' : ¬ ty' = T := fun e => hT e.symm
        simp [hT, hT']
    · have hf' : f ∈ types rest := by
        simp only [types, List.map_cons, List.mem_cons] at hf
        rcases hf with hf | hf
        · exact absurd hf.symm h
        · exact hf
      simp only [h, if_false, getRels, ih hf']
      by_cases hT : T = f
      · subst hT; simp [h]
      · simp [hT]

theorem addRelAll_spec (f : Nat) : ∀ (l : List (RelKey × Bool)) (s : Struct), f ∈ types s →
    types (l.foldl (fun s r => addRel s f r.1 r.2) s) = types s ∧
    ∀ T, getRels (l.foldl (fun s r => addRel s f r.1 r.2) s) T
          = if T = f then relsAddAll (getRels s f) l else getRels s T := by
  intro l
  induction l with
  | nil => intro s _; refine ⟨rfl, ?_⟩; intro T; by_cases h : T = f <;> simp [relsAddAll, h]
  | cons x xs ih =>
    intro s hf
    simp only [List.foldl_cons]
    have hf' : f ∈ types (addRel s f x.1 x.2) := by rw [types_addRel]; exact hf
    obtain ⟨h1, h2⟩ := ih _ hf'
    refine ⟨by rw [h1, types_addRel], ?_⟩
    intro T
    rw [h2 T]
    by_cases h : T = f
    · subst h
      simp only [if_true, relsAddAll, List.foldl_cons]
      rw [getRels_addRel _ _ _ _ _ hf]
      simp
    · simp only [h, if_false]
      rw [getRels_addRel _ _ _ _ _ hf]
      simp [h]

/-! ### processTask and the fold over the visited tasks -/

theorem types_processTask (s : Struct) (t : Task) :
    types (processTask s t) = if t.ty ∈ types s then types s else types s ++ [t.ty] := by
  unfold processTask
  rw [(addRelAll_spec t.ty _ _ (mem_types_addType s t.ty)).1, types_addType]

theorem getRels_processTask (s : Struct) (t : Task) (T : Nat) :
    getRels (processTask s t) T
      = if T = t.ty then relsAddAll (getRels s T) (taskRels t.fields) else getRels s T := by
  unfold processTask
  rw [(addRelAll_spec t.ty _ _ (mem_types_addType s t.ty)).2 T]
  by_cases h : T = t.ty
  · subst h; simp [getRels_addType]
  · simp [h, getRels_addType]

theorem types_fold : ∀ (l : List Task) (s : Struct),
    types (l.foldl processTask s) = firstSeen (types s) (l.map Task.ty) := by
  intro l
  induction l with
  | nil => intro s; simp [firstSeen]
  | cons t ts ih => intro s; simp only [List.foldl_cons, List.map_cons, firstSeen, ih, types_processTask]

theorem mem_firstSeen : ∀ (l acc : List Nat) (x : Nat), x ∈ firstSeen acc l ↔ x ∈ acc ∨ x ∈ l := by
  intro l
  induction l with
  | nil => intro acc x; simp [firstSeen]
  | cons y ys ih =>
    intro acc x
    simp only [firstSeen, ih, List.mem_cons]
    split
    · next h =>
      constructor
      · rintro (h' | h')
        · exact Or.inl h'
        · exact Or.inr (Or.inr h')
      · rintro (h' | h' | h')
        · exact Or.inl h'
        · subst h'; exact Or.inl h
        · exact Or.inr h'
    · simp only [List.mem_append, List.mem_singleton]
      constructor
      · rintro ((h' | h') | h')
        · exact Or.inl h'
        · exact Or.inr (Or.inl h')
        · exact Or.inr (Or.inr h')
      · rintro (h' | h' | h')
        · exact Or.inl (Or.inl h')
        · exact Or.inl (Or.inr h')
        · exact Or.inr h'

theorem nodup_firstSeen : ∀ (l acc : List Nat), acc.Nodup → (firstSeen acc l).Nodup := by
  intro l
  induction l with
  | nil => intro acc h; simpa [firstSeen] using h
  | cons y ys ih =>
    intro acc h
    simp only [firstSeen]
    apply ih
    split
    · exact h
    · next hy =>
      rw [List.nodup_append]
      refine ⟨h, by simp, ?_⟩
      intro a ha b hb
      simp only [List.mem_singleton] at hb
      subst hb
      intro e; subst e; exact hy ha

theorem keys_fold : ∀ (l : List Task) (s : Struct) (T : Nat) (k : RelKey),
    k ∈ keys (getRels (l.foldl processTask s) T) ↔
      k ∈ keys (getRels s T) ∨ ∃ t ∈ l, t.ty = T ∧ k ∈ (taskRels t.fields).map Prod.fst := by
  intro l
  induction l with
  | nil => intro s T k; simp
  | cons t ts ih =>
    intro s T k
    simp only [List.foldl_cons]
    rw [ih, getRels_processTask]
    by_cases h : T = t.ty
    · subst h
      simp only [if_true, mem_keys_relsAddAll, List.mem_cons, exists_eq_or_imp, true_and]
      constructor
      · rintro ((h' | h') | h')
        · exact Or.inl h'
        · exact Or.inr (Or.inl h')
        · exact Or.inr (Or.inr h')
      · rintro (h' | h' | h')
        · exact Or.inl (Or.inl h')
        · exact Or.inl (Or.inr h')
        · exact Or.inr h'
    · have h' : ¬ t.ty = T := fun e => h e.symm
      simp [h, h']

theorem nodup_fold : ∀ (l : List Task) (s : Struct) (T : Nat),
    (keys (getRels s T)).Nodup → (keys (getRels (l.foldl processTask s) T)).Nodup := by
  intro l
  induction l with
  | nil => intro s T h; simpa using h
  | cons t ts ih =>
    intro s T h
    simp only [List.foldl_cons]
    apply ih
    rw [getRels_processTask]
    split
    · exact nodup_keys_relsAddAll _ _ h
    · exact h

theorem flag_fold : ∀ (l : List Task) (s : Struct) (T : Nat) (k : RelKey),
    flag (getRels (l.foldl processTask s) T) k = true ↔
      flag (getRels s T) k = true ∨ ∃ t ∈ l, t.ty = T ∧ (k, true) ∈ taskRels t.fields := by
  intro l
  induction l with
  | nil => intro s T k; simp
  | cons t ts ih =>
    intro s T k
    simp only [List.foldl_cons]
    rw [ih, getRels_processTask]
    by_cases h : T = t.ty
    · subst h
      simp only [if_true, flag_relsAddAll, List.mem_cons, exists_eq_or_imp, true_and]
      constructor
      · rintro ((h' | h') | h')
        · exact Or.inl h'
        · exact Or.inr (Or.inl h')
        · exact Or.inr (Or.inr h')
      · rintro (h' | h' | h')
        · exact Or.inl (Or.inl h')
        · exact Or.inl (Or.inr h')
        · exact Or.inr h'
    · have h' : ¬ t.ty = T := fun e => h e.symm
      simp [h, h']

/-- the `add_relationship` calls of one task, characterised -/
theorem mem_taskRels : ∀ (fields : List (String × Value)) (k : RelKey) (m : Bool),
    (k, m) ∈ taskRels fields ↔
      ∃ v, (k.1, v) ∈ fields ∧ (∃ d ∈ findTasks v, d.ty = k.2) ∧ m = !v.isTask := by
  intro fields
  induction fields with
  | nil => intro k m; simp [taskRels]
  | cons e rest ih =>
    intro k m
    obtain ⟨name, v⟩ := e
    obtain ⟨p, D⟩ := k
    simp only [taskRels, List.mem_append, ih, fieldRels, List.mem_map, Prod.mk.injEq, List.mem_cons]
    constructor
    · rintro (⟨d, hd, ⟨h1, h2⟩, h3⟩ | ⟨v', hv', hd, hm⟩)
      · exact ⟨v, Or.inl ⟨h1.symm, rfl⟩, ⟨d, hd, h2⟩, h3.symm⟩
      · exact ⟨v', Or.inr hv', hd, hm⟩
    · rintro ⟨v', (⟨h1, h2⟩ | hv'), ⟨d, hd, hD⟩, hm⟩
      · subst h2
        exact Or.inl ⟨d, hd, ⟨h1.symm, hD⟩, hm.symm⟩
      · exact Or.inr ⟨v', hv', ⟨d, hd, hD⟩, hm⟩

theorem getRels_of_mem : ∀ (s : Struct) (T : Nat) (r : Rels), (types s).Nodup → (T, r) ∈ s → getRels s T = r := by
  intro s
  induction s with
  | nil => intro T r _ h; simp at h
  | cons e rest ih =>
    intro T r hnd h
    obtain ⟨ty', r'⟩ := e
    simp only [types, List.map_cons, List.nodup_cons] at hnd
    simp only [List.mem_cons, Prod.mk.injEq] at h
    rcases h with ⟨h1, h2⟩ | h
    · subst h1; subst h2; simp [getRels]
    · have hne : ¬ ty' = T := by
        intro e; subst e
        exact hnd.1 (List.mem_map.mpr ⟨(ty', r), h, rfl⟩)
      simp only [getRels, hne, if_false]
      exact ih T r hnd.2 h

theorem mem_of_getRels : ∀ (s : Struct) (T : Nat), T ∈ types s → (T, getRels s T) ∈ s := by
  intro s
  induction s with
  | nil => intro T h; simp [types] at h
  | cons e rest ih =>
    intro T h
    obtain ⟨ty', r'⟩ := e
    simp only [types, List.map_cons, List.mem_cons] at h
    by_cases hT : ty' = T
    · subst hT; simp [getRels]
    · simp only [getRels, hT, if_false, List.mem_cons, Prod.mk.injEq]
      rcases h with h | h
      · exact absurd h.symm hT
      · exact Or.inr (ih T h)

theorem flag_iff_mem : ∀ (r : Rels) (k : RelKey), (keys r).Nodup → (flag r k = true ↔ (k, true) ∈ r) := by
  intro r
  induction r with
  | nil => intro k _; simp [flag]
  | cons e rest ih =>
    intro k hnd
    obtain ⟨k', m'⟩ := e
    simp only [keys, List.map_cons, List.nodup_cons] at hnd
    simp only [flag, List.mem_cons, Prod.mk.injEq]
    by_cases h : k' = k
    · subst h
      simp only [if_true]
      constructor
      · intro hm; exact Or.inl ⟨trivial, hm.symm⟩
      · rintro (⟨_, hm⟩ | hm)
        · exact hm.symm
        · exact absurd (List.mem_map.mpr ⟨(k', true), hm, rfl⟩) hnd.1
    · have h' : ¬ k = k' := fun e => h e.symm
      simp only [h, if_false, h', false_and, false_or]
      exact ih k hnd.2

end Lt.Diag
