import LabtechModel.Props.C03
import LabtechModel.Props.C10
import LabtechModel.Proofs.StoreRefine
/-!
# Link scheduler model ↔ history model, part 1: the translation and the planned set

`toProblem`: a `Store.Universe` (task universe with dependencies, cache kinds, failing set `fl` of
this run, the run stamp `g`, the request) read as a scheduler `Lt.Problem`: one task object per task
(`tidOf = id`), `children t = U.deps t`, a type persists iff its cache class is not `NullCache` and
the Lab has a storage, `run()` raises iff `U.fails t` or `t ∈ fl`, and `behave` is literally the body
of `Store.runTask`: it fails when a dependency result is unavailable and otherwise returns
`U.value t g (dependency values)`.  No worker dies (the history model has no such event).

`mem_neededFrom`: the list `Store.neededFrom` (descending scan over `0 … n-1`) is exactly the closure
`Needed` of the request through NOT-cached tasks, strictly ascending; `planned_iff_neededFrom`: that
closure is the scheduler's plan (`TaskState.process_tasks`) of the translated problem.
-/
namespace Lt.Link
open Lt

/-- the body of `Store.runTask` after the `raises` test, as the scheduler's `behave` -/
def behaveOf (U : Store.Universe) (g : Nat) (t : Tid) (ds : List (Option Val)) : Option Val :=
  if ds.any Option.isNone then none else some (U.value t g (ds.map (fun o => o.getD 0)))

/-- the scheduler problem of one `run_tasks` call of the history model -/
def toProblem (U : Store.Universe) (mp : Nat → Option Nat) (g : Nat) (fl req : List Tid) : Problem where
  tidOf := id
  children := U.deps
  requested := req
  ty := U.ty
  maxPar := mp
  cacheable := fun T => U.cacheOf T != .null && !U.nullStorage
  fails := fun t => U.fails t || fl.contains t
  dies := fun _ => false
  behave := behaveOf U g

/-- the universe is a DAG named dependencies-first, and the request names tasks of the universe -/
structure UOK (U : Store.Universe) (req : List Tid) : Prop where
  down : ∀ t d, d ∈ U.deps t → d < t
  reqLt : ∀ t ∈ req, t < U.n

theorem toProblem_cacheable (U : Store.Universe) (mp : Nat → Option Nat) (g : Nat) (fl req : List Tid) (t : Tid) :
    (toProblem U mp g fl req).cacheable ((toProblem U mp g fl req).ty t) = Store.persists U t := rfl

theorem toProblem_refHypF (U : Store.Universe) (mp : Nat → Option Nat) (g : Nat) (fl req : List Tid)
    (hU : UOK U req) : RefHypF (toProblem U mp g fl req) id where
  acyc := fun i c hc => hU.down i c hc
  inst := by intro i j h; simp only [toProblem, id] at h; subst h; rfl
  objOK := fun _ => rfl

theorem toProblem_diesIn (U : Store.Universe) (mp : Nat → Option Nat) (g : Nat) (fl req : List Tid)
    (cfg : Config) (t : Tid) : diesIn cfg (toProblem U mp g fl req) t = false := by
  simp [diesIn, toProblem]

/-- `Store.runTask` is `fails`/`behave` of the translated problem -/
theorem runTask_eq (U : Store.Universe) (mp : Nat → Option Nat) (g : Nat) (fl req : List Tid)
    (vals : List (Tid × Option Val)) (t : Tid) :
    Store.runTask U g fl vals t =
      if (toProblem U mp g fl req).fails t then none
      else (toProblem U mp g fl req).behave t ((U.deps t).map (fun d => (Store.lookupV d vals).getD none)) := by
  show Store.runTask U g fl vals t =
    if (U.fails t || fl.contains t) = true then none
    else behaveOf U g t ((U.deps t).map (fun d => (Store.lookupV d vals).getD none))
  unfold Store.runTask behaveOf
  cases h : (U.fails t || fl.contains t) <;> simp

/-! ## the closure of the request through not-cached tasks -/

/-- a task is needed if it is requested, or a dependency of a needed task that is not served from the
    cache -/
inductive Needed (U : Store.Universe) (uc : Tid → Bool) (req : List Tid) : Tid → Prop
  | req {t : Tid} : t ∈ req → Needed U uc req t
  | dep {q t : Tid} : Needed U uc req q → uc q = false → t ∈ U.deps q → Needed U uc req t

theorem Needed.lt {U : Store.Universe} {uc : Tid → Bool} {req : List Tid} (hU : UOK U req) {t : Tid}
    (h : Needed U uc req t) : t < U.n := by
  induction h with
  | req h => exact hU.reqLt _ h
  | dep _ _ hd ih => exact Nat.lt_trans (hU.down _ _ hd) ih

/-- one step of the scan of `Store.neededFrom` -/
def nfStep (U : Store.Universe) (uc : Tid → Bool) (req : List Tid) (acc : List Tid) (t : Tid) : List Tid :=
  if req.contains t || acc.any (fun q => !uc q && (U.deps q).contains t) then t :: acc else acc

theorem neededFrom_eq (U : Store.Universe) (uc : Tid → Bool) (req : List Tid) :
    Store.neededFrom U uc req = (List.range U.n).reverse.foldl (nfStep U uc req) [] := rfl

/-- the scan invariant: after the tids `≥ k` have been scanned the accumulator holds exactly the needed
    ones among them, ascending -/
def ScanInv (U : Store.Universe) (uc : Tid → Bool) (req : List Tid) (k : Nat) (acc : List Tid) : Prop :=
  acc.Pairwise (· < ·) ∧ ∀ t, t ∈ acc ↔ (k ≤ t ∧ Needed U uc req t)

theorem scan_step (U : Store.Universe) (uc : Tid → Bool) (req : List Tid) (hU : UOK U req) (k : Nat)
    (acc : List Tid) (h : ScanInv U uc req (k + 1) acc) : ScanInv U uc req k (nfStep U uc req acc k) := by
  obtain ⟨hp, hm⟩ := h
  have hiff : (req.contains k || acc.any (fun q => !uc q && (U.deps q).contains k)) = true ↔ Needed U uc req k := by
    simp only [Bool.or_eq_true, List.contains_iff_mem, List.any_eq_true, Bool.and_eq_true,
      Bool.not_eq_true']
    constructor
    · rintro (h | ⟨q, hq, huc, hd⟩)
      · exact Needed.req h
      · exact Needed.dep ((hm q).mp hq).2 huc hd
    · intro h
      cases h with
      | req h => exact Or.inl h
      | @dep q _ hq huc hd =>
        exact Or.inr ⟨q, (hm q).mpr ⟨hU.down _ _ hd, hq⟩, huc, hd⟩
  unfold nfStep
  by_cases hn : Needed U uc req k
  · rw [if_pos (hiff.mpr hn)]
    refine ⟨List.pairwise_cons.mpr ⟨fun a ha => ((hm a).mp ha).1, hp⟩, fun t => ?_⟩
    simp only [List.mem_cons, hm]
    constructor
    · rintro (h | h)
      · subst h; exact ⟨Nat.le_refl _, hn⟩
      · exact ⟨Nat.le_of_succ_le h.1, h.2⟩
    · rintro ⟨h1, h2⟩
      by_cases hk : t = k
      · exact Or.inl hk
      · exact Or.inr ⟨Nat.lt_of_le_of_ne h1 (Ne.symm hk), h2⟩
  · rw [if_neg (fun h => hn (hiff.mp h))]
    refine ⟨hp, fun t => ?_⟩
    rw [hm]
    constructor
    · rintro ⟨h1, h2⟩; exact ⟨Nat.le_of_succ_le h1, h2⟩
    · rintro ⟨h1, h2⟩
      refine ⟨?_, h2⟩
      by_cases hk : t = k
      · subst hk; exact absurd h2 hn
      · exact Nat.lt_of_le_of_ne h1 (Ne.symm hk)

theorem scan_fold (U : Store.Universe) (uc : Tid → Bool) (req : List Tid) (hU : UOK U req) :
    ∀ (m : Nat) (acc : List Tid), ScanInv U uc req m acc →
      ScanInv U uc req 0 ((List.range m).reverse.foldl (nfStep U uc req) acc) := by
  intro m
  induction m with
  | zero => intro acc h; simpa using h
  | succ m ih =>
    intro acc h
    rw [List.range_succ, List.reverse_append]
    simp only [List.reverse_cons, List.reverse_nil, List.nil_append, List.singleton_append, List.foldl_cons]
    exact ih _ (scan_step U uc req hU m acc h)

/-- `Store.neededFrom` is exactly the needed closure, strictly ascending (hence duplicate-free, and
    every dependency comes before its dependents) -/
theorem neededFrom_spec (U : Store.Universe) (uc : Tid → Bool) (req : List Tid) (hU : UOK U req) :
    (Store.neededFrom U uc req).Pairwise (· < ·) ∧
    ∀ t, t ∈ Store.neededFrom U uc req ↔ Needed U uc req t := by
  have h := scan_fold U uc req hU U.n [] ⟨List.Pairwise.nil, fun t => by
    simp only [List.not_mem_nil, false_iff, not_and]
    intro h1 h2
    exact absurd (h2.lt hU) (Nat.not_lt.mpr h1)⟩
  rw [← neededFrom_eq] at h
  exact ⟨h.1, fun t => by rw [h.2]; simp⟩

theorem mem_neededFrom (U : Store.Universe) (uc : Tid → Bool) (req : List Tid) (hU : UOK U req) (t : Tid) :
    t ∈ Store.neededFrom U uc req ↔ Needed U uc req t := (neededFrom_spec U uc req hU).2 t

/-! ## the scheduler's plan of the translated problem -/

theorem neededObj_iff (U : Store.Universe) (mp : Nat → Option Nat) (g : Nat) (fl req : List Tid)
    (cfg : Config) (st : Store) (t : Tid) :
    NeededObj cfg (toProblem U mp g fl req) st t ↔
      Needed U (useCache cfg (toProblem U mp g fl req) st) req t := by
  constructor
  · intro h
    induction h with
    | req h => exact Needed.req h
    | dep _ huc hc ih => exact Needed.dep ih huc hc
  · intro h
    induction h with
    | req h => exact NeededObj.req h
    | dep _ huc hd ih => exact NeededObj.dep ih huc hd

/-- the scheduler plans exactly the tasks `Store.neededFrom` lists -/
theorem planned_iff_neededFrom (U : Store.Universe) (mp : Nat → Option Nat) (g : Nat) (fl req : List Tid)
    (hU : UOK U req) (cfg : Config) (st : Store) (fuel : Nat)
    (hF : FuelOK (toProblem U mp g fl req) fuel) (t : Tid) :
    t ∈ (plan cfg (toProblem U mp g fl req) st fuel).pending ↔
      t ∈ Store.neededFrom U (useCache cfg (toProblem U mp g fl req) st) req := by
  rw [mem_neededFrom U _ req hU, ← neededObj_iff]
  have H := toProblem_refHypF U mp g fl req hU
  constructor
  · intro h
    obtain ⟨i, hi, hti⟩ := plan_pending_needed cfg _ st fuel t h
    have : i = t := hti
    subst this; exact hi
  · intro h
    exact needed_planned cfg _ st fuel H.acyc H.inst hF t h

end Lt.Link
