import LabtechModel.Proofs.IntrSafe
/-!
# M10: the invariant `Q` holds after EVERY prefix of the main stream, of the first handler's
stream and of the second handler's stream
-/
namespace Lt

variable {cfg : Config} {p : Problem}

/-- the between-any-two-primitives invariant -/
def Q (cfg : Config) (s : IS) : Prop := K s ∧ (cfg.backend = .serial → KS s)

theorem Q_init (store : Store) (fuel : Nat) : Q cfg (initIS cfg p store fuel) := by
  have hP := plan_PI cfg p store fuel
  have hA := plan_active cfg p store fuel
  refine ⟨⟨?_, by simp [initIS, initRS]⟩, fun _ => ⟨List.nodup_nil, fun j hj => by simp [initIS, initRS] at hj⟩⟩
  show KR (plan cfg p store fuel) []
  exact {
    ndF := List.nodup_nil
    futAct := fun t ht => by simp at ht
    ndA := by rw [hA]; exact List.nodup_nil
    ndP := hP.nodupP
    disj := fun t _ => by rw [hA]; simp
    sym1 := by
      intro t _ d hd
      rw [hP.pdEq]
      exact (hP.dual t d).mp hd
    sym2 := fun t _ d hd => (hP.dual d t).mpr hd
    ndDd := hP.nodupD
    ndPdt := hP.nodupDt }

theorem always_wait (req : List Tid) (c : Choice) (s : IS) (h : Q cfg s) :
    Always cfg p (Q cfg) (waitPrims cfg p req c s) s ∧
    (runPrims cfg p (waitPrims cfg p req c s) s).rs.ts.pending = s.rs.ts.pending := by
  by_cases hb : cfg.backend = .serial
  · obtain ⟨a, b⟩ := always_wait_serial (cfg := cfg) (p := p) req c s h.1 (h.2 hb) hb
    exact ⟨a.mono (fun s hs => ⟨hs.1, fun _ => hs.2⟩), b⟩
  · obtain ⟨a, b⟩ := always_wait_process (cfg := cfg) (p := p) req c s h.1 hb
    exact ⟨a.mono (fun s hs => ⟨hs, fun hb' => absurd hb' hb⟩), b⟩

/-! ## the submit phase -/
theorem always_submitOne (s : IS) (t : Tid) (h : Q cfg s) (hrun : s.rs.status = .running)
    (ht : t ∈ s.rs.ts.pending) :
    Always cfg p (Q cfg) (submitOnePrims cfg p s t) s ∧
    Q cfg (runPrims cfg p (submitOnePrims cfg p s t) s) ∧
    (runPrims cfg p (submitOnePrims cfg p s t) s).rs.status = .running ∧
    (∀ x ∈ s.rs.ts.pending, x ≠ t → x ∈ (runPrims cfg p (submitOnePrims cfg p s t) s).rs.ts.pending) := by
  obtain ⟨s1k, s1a, s1f, s1p⟩ := step_startTask (cfg := cfg) (p := p) s t ⟨h.1.1, hrun⟩ ht
  by_cases hb : cfg.backend = .serial
  · simp only [submitOnePrims, hb, if_true, Always, runPrims_cons, runPrims_nil]
    have ks1 : KS (applyPrim cfg p (Prim.startTask t) s) := by
      rw [KS, applyPrim_queued _ _ rfl, applyPrim_futs _ _ rfl]; exact h.2 hb
    have s2k := step_serialAppend (cfg := cfg) (p := p) _ t s1k s1a s1f
    have ks2 : KS (applyPrim cfg p (Prim.serialAppend t) (applyPrim cfg p (Prim.startTask t) s)) := by
      have hr1 := s1k.run
      have htq : t ∉ (applyPrim cfg p (Prim.startTask t) s).rs.queued.map Job.tid := by
        intro hm
        obtain ⟨j, hj, rfl⟩ := List.mem_map.mp hm
        exact s1f (ks1.2 j hj)
      simp only [KS, applyPrim_running _ _ hr1, stepPrim, List.map_append, List.map_cons, List.map_nil, mkJob]
      refine ⟨?_, ?_⟩
      · rw [List.nodup_append]
        exact ⟨ks1.1, by simp, fun a ha b hb' => by
          simp only [List.mem_singleton] at hb'; subst hb'; exact fun hab => htq (hab ▸ ha)⟩
      · intro j hj
        simp only [List.mem_append, List.mem_singleton] at hj ⊢
        rcases hj with hj | rfl
        · exact Or.inl (ks1.2 j hj)
        · exact Or.inr rfl
    refine ⟨⟨h, ⟨s1k.k, fun _ => ks1⟩, s2k.k, fun _ => ks2⟩, ⟨s2k.k, fun _ => ks2⟩, s2k.run, ?_⟩
    intro x hx hxt
    rw [applyPrim_ts _ _ rfl]
    exact s1p x hx hxt
  · have hQK : ∀ s, K s → Q cfg s := fun s hs => ⟨hs, fun hb' => absurd hb' hb⟩
    simp only [submitOnePrims, hb, if_false]
    -- the predicate carried from `start_task` to `future_to_task[future] = task`
    let R : TS → List Tid → Status → Prop :=
      fun ts futs st => KR ts futs ∧ st = .running ∧ t ∈ ts.active ∧ t ∉ futs
    have r1 : coreP R (applyPrim cfg p (Prim.startTask t) s) := ⟨s1k.1, s1k.2, s1a, s1f⟩
    obtain ⟨mid, hmid⟩ : ∃ mid, mid = Prim.enqueue t ::
        startProcessesPrims cfg (runPrims cfg p [Prim.startTask t, Prim.enqueue t] s) := ⟨_, rfl⟩
    have hmq : ∀ q ∈ mid, q.quiet = true := by
      intro q hq
      rw [hmid] at hq
      simp only [List.mem_cons] at hq
      rcases hq with rfl | hq
      · rfl
      · exact startPrims_quiet _ q hq
    have hsplit : [Prim.startTask t, Prim.enqueue t] ++
        startProcessesPrims cfg (runPrims cfg p [Prim.startTask t, Prim.enqueue t] s) ++ [Prim.regFuture t]
        = Prim.startTask t :: (mid ++ [Prim.regFuture t]) := by rw [hmid]; simp
    rw [hsplit]
    have am := always_quiet (cfg := cfg) (p := p) R mid _ hmq r1
    have rm : coreP R (runPrims cfg p mid (applyPrim cfg p (Prim.startTask t) s)) := am.last
    obtain ⟨m1, m2, m3, m4⟩ := rm
    have e := step_regFuture (cfg := cfg) (p := p) _ t ⟨m1, m2⟩ m3 m4
    have pend : (runPrims cfg p mid (applyPrim cfg p (Prim.startTask t) s)).rs.ts =
        (applyPrim cfg p (Prim.startTask t) s).rs.ts := (quiet_run mid _ hmq).1
    refine ⟨⟨h, ?_⟩, ?_, ?_, ?_⟩
    · rw [always_append]
      refine ⟨am.mono (fun s hs => hQK s ⟨hs.1, by rw [hs.2.1]; simp⟩), ?_⟩
      exact ⟨hQK _ ⟨m1, by rw [m2]; simp⟩, hQK _ e.k⟩
    · rw [runPrims_cons, runPrims_append]; exact hQK _ e.k
    · rw [runPrims_cons, runPrims_append]; exact e.run
    · intro x hx hxt
      rw [runPrims_cons, runPrims_append, runPrims_cons, runPrims_nil, applyPrim_ts _ _ rfl, pend]
      exact s1p x hx hxt

theorem always_submit : ∀ (l : List Tid) (s : IS), Q cfg s → s.rs.status = .running → l.Nodup →
    (∀ t ∈ l, t ∈ s.rs.ts.pending) →
    Always cfg p (Q cfg) (submitPrims cfg p l s) s ∧ Q cfg (runPrims cfg p (submitPrims cfg p l s) s) := by
  intro l
  induction l with
  | nil => intro s h _ _ _; exact ⟨h, h⟩
  | cons t ts ih =>
    intro s h hrun hnd hmem
    have hnd' := List.nodup_cons.mp hnd
    obtain ⟨a1, a2, a3, a4⟩ := always_submitOne (cfg := cfg) (p := p) s t h hrun (hmem t List.mem_cons_self)
    obtain ⟨i1, i2⟩ := ih _ a2 a3 hnd'.2 (fun x hx => a4 x (hmem x (List.mem_cons_of_mem _ hx))
      (fun hxt => hnd'.1 (hxt ▸ hx)))
    simp only [submitPrims, always_append, runPrims_append]
    exact ⟨⟨a1, i1⟩, i2⟩

theorem always_iteration (req : List Tid) (c : Choice) (s : IS) (h : Q cfg s) (hrun : s.rs.status = .running) :
    Always cfg p (Q cfg) (iterationPrims cfg p req c s) s ∧
    Q cfg (runPrims cfg p (iterationPrims cfg p req c s) s) := by
  have hsub := readyAux_sublist p s.rs.ts s.rs.ts.pending (typeCount p s.rs.ts.active)
  obtain ⟨a1, a2⟩ := always_submit (cfg := cfg) (p := p) (readyTasks p s.rs.ts) s h hrun
    (hsub.nodup h.1.1.ndP) (fun t ht => hsub.subset ht)
  simp only [iterationPrims]
  split
  · obtain ⟨w1, _⟩ := always_wait (cfg := cfg) (p := p) req c _ a2
    rw [always_append, runPrims_append]
    exact ⟨⟨a1, w1⟩, w1.last⟩
  · exact ⟨a1, a2⟩

theorem always_main (req : List Tid) : ∀ (sched : List Choice) (s : IS), Q cfg s →
    Always cfg p (Q cfg) (mainStream cfg p req sched s) s := by
  intro sched
  induction sched with
  | nil => intro s h; exact h
  | cons c cs ih =>
    intro s h
    unfold mainStream
    split
    · next hrun =>
      split
      · obtain ⟨a1, a2⟩ := always_iteration (cfg := cfg) (p := p) req c s h hrun
        rw [always_append]
        exact ⟨a1, ih _ a2⟩
      · exact h
    · exact h

/-! ## the handlers -/
theorem always_cancel (s : IS) (h : Q cfg s) :
    Always cfg p (Q cfg) (cancelPrims cfg s) s := by
  simp only [cancelPrims]
  split
  · next hb =>
    refine ⟨h, step_clearDeque s h.1, fun _ => ?_⟩
    unfold applyPrim
    split
    · exact ⟨List.nodup_nil, fun j hj => by simp [stepPrim] at hj⟩
    · exact h.2 hb
  · next hb =>
    have : ∀ q ∈ s.rs.queued.map (fun j => Prim.cancelOne j.tid), q.quiet = true := by
      intro q hq; obtain ⟨j, _, rfl⟩ := List.mem_map.mp hq; rfl
    exact (always_K_quiet _ s this h.1).mono (fun s hs => ⟨hs, fun hb' => absurd hb' hb⟩)

theorem always_drain (req : List Tid) : ∀ (ds : List Choice) (s : IS), Q cfg s →
    Always cfg p (Q cfg) (drainPrims cfg p req ds s) s := by
  intro ds
  induction ds with
  | nil => intro s h; exact h
  | cons c cs ih =>
    intro s h
    unfold drainPrims
    split
    · split
      · exact h
      · obtain ⟨w1, _⟩ := always_wait (cfg := cfg) (p := p) req c s h
        rw [always_append]
        exact ⟨w1, ih _ w1.last⟩
    · exact h

theorem always_handler (req : List Tid) (ds : List Choice) (s : IS) (h : Q cfg s) :
    Always cfg p (Q cfg) (handlerPrims cfg p req ds s) s := by
  simp only [handlerPrims, always_append]
  have a := always_cancel (cfg := cfg) (p := p) s h
  exact ⟨a, always_drain req ds _ a.last⟩

theorem always_stop (s : IS) (h : Q cfg s) : Always cfg p (Q cfg) (stopPrims cfg s) s := by
  simp only [stopPrims]
  split
  · exact h
  · next hb =>
    have : ∀ q ∈ s.rs.running.map (fun j => Prim.stopOne j.tid) ++ s.zombies.map Prim.stopOne,
        q.quiet = true := by
      intro q hq
      simp only [List.mem_append, List.mem_map] at hq
      rcases hq with ⟨j, _, rfl⟩ | ⟨t, _, rfl⟩ <;> rfl
    exact (always_K_quiet _ s this h.1).mono (fun s hs => ⟨hs, fun hb' => absurd hb' hb⟩)

theorem always_second (req : List Tid) (s : IS) (h : Q cfg s) :
    Always cfg p (Q cfg) (secondPrims cfg p req s) s := by
  simp only [secondPrims, always_append, runPrims_append]
  have a := always_cancel (cfg := cfg) (p := p) s h
  have b := always_stop (cfg := cfg) (p := p) _ a.last
  exact ⟨⟨a, b⟩, (always_wait req noWait _ b.last).1⟩

end Lt
