import LabtechModel.Proofs.IntrStream
/-!
# M10: what the handlers' streams contain; nothing is launched after the interrupt;
`LabError` only without `continue_on_failure`
-/
namespace Lt

variable {cfg : Config} {p : Problem}

/-- primitives of the submit path / of `_start_processes` / the serial `run()` -/
def Prim.launches : Prim → Bool
  | .startTask _ | .enqueue _ | .procStart _ | .regRunning _ | .unregPending _ | .regFuture _
  | .serialAppend _ | .serialRun | .serialSaveBegin | .serialSaveEnd => true
  | _ => false

def Prim.isRaise : Prim → Bool
  | .raiseLabError _ => true
  | _ => false

/-- a property of primitives that holds for everything that is neither a launch nor the raise,
    and for the raise when failures are not continued over -/
structure GenOK (cfg : Config) (P : Prim → Prop) : Prop where
  basic : ∀ q, q.launches = false → q.isRaise = false → P q
  raise : cfg.contOnFail = false → ∀ t, P (.raiseLabError t)

theorem members_yield {P : Prim → Prop} (hP : GenOK cfg P) (req : List Tid) (ts : TS) (t : Tid) (o : Outcome) :
    ∀ q ∈ yieldPrims cfg req ts t o, P q := by
  intro q hq
  have hc : ∀ q ∈ completePrims ts t, P q := by
    intro q hq
    simp only [completePrims, List.mem_append, List.mem_singleton, List.mem_map] at hq
    rcases hq with (rfl | ⟨d, _, rfl⟩) | ⟨d, _, rfl⟩ <;> exact hP.basic _ rfl rfl
  have hr : ∀ rem, ∀ q ∈ removePrims rem, P q := by
    intro rem q hq
    simp only [removePrims, List.mem_append, List.mem_map, List.mem_singleton] at hq
    rcases hq with ⟨d, _, rfl⟩ | rfl <;> exact hP.basic _ rfl rfl
  have hfail : ∀ q ∈ completePrims ts t ++
      (if cfg.contOnFail then removePrims (remOf ts t) else [Prim.raiseLabError t]), P q := by
    intro q hq
    simp only [List.mem_append] at hq
    rcases hq with hq | hq
    · exact hc q hq
    · split at hq
      · exact hr _ q hq
      · next hcf =>
        simp only [List.mem_singleton] at hq; subst hq
        exact hP.raise (by simpa using hcf) t
  cases o with
  | ok v =>
    simp only [yieldPrims, List.mem_append, List.mem_singleton] at hq
    rcases hq with (((rfl | hq) | rfl) | hq) | hq
    · exact hP.basic _ rfl rfl
    · split at hq
      · simp only [List.mem_singleton] at hq; subst hq; exact hP.basic _ rfl rfl
      · simp at hq
    · exact hP.basic _ rfl rfl
    · exact hc q hq
    · exact hr _ q hq
  | exc => exact hfail q hq
  | died => exact hfail q hq

theorem members_doneOne {P : Prim → Prop} (hP : GenOK cfg P) (req : List Tid) (s : IS) (t : Tid) :
    ∀ q ∈ doneOnePrims cfg req s t, P q := by
  intro q hq
  simp only [doneOnePrims] at hq
  split at hq
  · simp only [List.mem_singleton] at hq; subst hq; exact hP.basic _ rfl rfl
  · split at hq
    · simp only [List.mem_cons] at hq
      rcases hq with rfl | hq
      · exact hP.basic _ rfl rfl
      · exact members_yield hP req _ t _ q hq
    · simp at hq

theorem members_done {P : Prim → Prop} (hP : GenOK cfg P) (req : List Tid) :
    ∀ (cands : List Tid) (s : IS), ∀ q ∈ donePrims cfg p req cands s, P q := by
  intro cands
  induction cands with
  | nil => intro s q hq; simp [donePrims] at hq
  | cons t rest ih =>
    intro s q hq
    unfold donePrims at hq
    split at hq
    · simp only [List.mem_append] at hq
      rcases hq with hq | hq
      · exact members_doneOne hP req s t q hq
      · exact ih _ q hq
    · simp at hq

theorem startPrims_nil_of (n : Nat) : startPrims (takeN n ([] : List Job)).1 = [] := by
  cases n <;> rfl

theorem members_wait {P : Prim → Prop} (hP : GenOK cfg P) (req : List Tid) (c : Choice) (s : IS)
    (hl : s.rs.queued ≠ [] → ∀ q, q.launches = true → P q) :
    ∀ q ∈ waitPrims cfg p req c s, P q := by
  intro q hq
  simp only [waitPrims] at hq
  split at hq
  · split at hq
    · simp only [List.mem_singleton] at hq; subst hq; exact hP.basic _ rfl rfl
    · next j rest hqe =>
      have hne : s.rs.queued ≠ [] := by rw [hqe]; simp
      simp only [List.mem_append, List.mem_cons, List.not_mem_nil, or_false] at hq
      rcases hq with ((rfl | rfl | rfl | rfl) | rfl) | hq
      · exact hP.basic _ rfl rfl
      · exact hl hne _ rfl
      · exact hl hne _ rfl
      · exact hl hne _ rfl
      · exact hP.basic _ rfl rfl
      · exact members_yield hP req _ _ _ q hq
  · simp only [List.mem_cons, List.mem_append] at hq
    rcases hq with ((rfl | hq) | hq) | hq
    · exact hP.basic _ rfl rfl
    · simp only [deadPrims, List.mem_map] at hq
      obtain ⟨t, _, rfl⟩ := hq
      exact hP.basic _ rfl rfl
    · -- `_start_processes`: the queue is the one of `s`
      have hqe : (runPrims cfg p (deadPrims (runPrims cfg p [Prim.consumeResults c] s))
          (runPrims cfg p [Prim.consumeResults c] s)).rs.queued = s.rs.queued := by
        have h1 : ∀ (Z : List Tid) (s' : IS),
            (runPrims cfg p (Z.map Prim.markDead) s').rs.queued = s'.rs.queued := by
          intro Z
          induction Z with
          | nil => intro s'; rfl
          | cons t Z ih => intro s'; rw [List.map_cons, runPrims_cons, ih, applyPrim_queued _ _ rfl]
        rw [deadPrims, h1, runPrims_cons, runPrims_nil, applyPrim_queued _ _ rfl]
      by_cases hne : s.rs.queued = []
      · simp only [startProcessesPrims, hqe, hne, startPrims_nil_of] at hq
        simp at hq
      · simp only [startProcessesPrims, startPrims, List.mem_flatMap, List.mem_cons, List.not_mem_nil,
          or_false] at hq
        obtain ⟨j, _, rfl | rfl | rfl⟩ := hq <;> exact hl hne _ rfl
    · exact members_done hP req _ _ q hq

/-! ## the queue stays empty once `cancel()` emptied it -/
theorem applyPrim_queued_nil (q : Prim) (s : IS) (hq : q.launches = false) (h : s.rs.queued = []) :
    (applyPrim cfg p q s).rs.queued = [] := by
  by_cases ht : q.touchesQueued = false
  · rw [applyPrim_queued q s ht]; exact h
  · unfold applyPrim
    split
    · cases q <;> simp [Prim.touchesQueued, Prim.launches] at ht hq <;> simp [stepPrim, h]
    · exact h

theorem runPrims_queued_nil : ∀ (ps : List Prim) (s : IS), (∀ q ∈ ps, q.launches = false) →
    s.rs.queued = [] → (runPrims cfg p ps s).rs.queued = [] := by
  intro ps
  induction ps with
  | nil => intro s _ h; exact h
  | cons q ps ih =>
    intro s hq h
    exact ih _ (fun q' hq' => hq q' (List.mem_cons_of_mem _ hq'))
      (applyPrim_queued_nil q s (hq q List.mem_cons_self) h)

theorem cancel_empties : ∀ (l : List Job) (s : IS), s.rs.status = .running → s.rs.queued = l →
    (runPrims cfg p (l.map (fun j => Prim.cancelOne j.tid)) s).rs.queued = [] := by
  intro l
  induction l with
  | nil => intro s _ h; exact h
  | cons j l ih =>
    intro s hrun h
    rw [List.map_cons, runPrims_cons]
    apply ih
    · rw [applyPrim_status _ _ rfl]; exact hrun
    · simp [applyPrim_running _ _ hrun, stepPrim, h, hasTid]

/-- after `runner.cancel()` nothing is queued (or an exception is already propagating) -/
theorem cancelPrims_empties (s : IS) (hrun : s.rs.status = .running) :
    (runPrims cfg p (cancelPrims cfg s) s).rs.queued = [] := by
  simp only [cancelPrims]
  split
  · simp [applyPrim_running _ _ hrun, stepPrim]
  · exact cancel_empties _ s hrun rfl

theorem cancelPrims_nolaunch (s : IS) : ∀ q ∈ cancelPrims cfg s, q.launches = false ∧ q.isRaise = false := by
  intro q hq
  simp only [cancelPrims] at hq
  split at hq
  · simp only [List.mem_singleton] at hq; subst hq; exact ⟨rfl, rfl⟩
  · obtain ⟨j, _, rfl⟩ := List.mem_map.mp hq; exact ⟨rfl, rfl⟩

theorem stopPrims_nolaunch (s : IS) : ∀ q ∈ stopPrims cfg s, q.launches = false ∧ q.isRaise = false := by
  intro q hq
  simp only [stopPrims] at hq
  split at hq
  · simp at hq
  · simp only [List.mem_append, List.mem_map] at hq
    rcases hq with ⟨j, _, rfl⟩ | ⟨t, _, rfl⟩ <;> exact ⟨rfl, rfl⟩

/-- what holds of every primitive of the handlers -/
def HOK (cfg : Config) (q : Prim) : Prop :=
  q.launches = false ∧ (q.isRaise = true → cfg.contOnFail = false)

theorem HOK_gen : GenOK cfg (HOK cfg) where
  basic := fun q h1 h2 => ⟨h1, fun h => by rw [h2] at h; exact absurd h (by simp)⟩
  raise := fun h t => ⟨rfl, fun _ => h⟩

theorem members_drain (req : List Tid) : ∀ (ds : List Choice) (s : IS), s.rs.queued = [] →
    ∀ q ∈ drainPrims cfg p req ds s, HOK cfg q := by
  intro ds
  induction ds with
  | nil => intro s _ q hq; simp [drainPrims] at hq
  | cons c cs ih =>
    intro s hqe q hq
    unfold drainPrims at hq
    split at hq
    · split at hq
      · simp at hq
      · have hw := members_wait (p := p) (HOK_gen (cfg := cfg)) req c s (fun hne => absurd hqe hne)
        simp only [List.mem_append] at hq
        rcases hq with hq | hq
        · exact hw q hq
        · exact ih _ (runPrims_queued_nil _ s (fun q' hq' => (hw q' hq').1) hqe) q hq
    · simp at hq

theorem members_handler (req : List Tid) (ds : List Choice) (s : IS) :
    ∀ q ∈ handlerPrims cfg p req ds s, HOK cfg q := by
  intro q hq
  simp only [handlerPrims, List.mem_append] at hq
  rcases hq with hq | hq
  · obtain ⟨h1, h2⟩ := cancelPrims_nolaunch s q hq
    exact ⟨h1, fun h => by rw [h2] at h; exact absurd h (by simp)⟩
  · by_cases hrun : s.rs.status = .running
    · exact members_drain req ds _ (cancelPrims_empties s hrun) q hq
    · rw [runPrims_stopped _ _ hrun] at hq
      have : drainPrims cfg p req ds s = [] := by
        cases ds with
        | nil => rfl
        | cons c cs => unfold drainPrims; cases hs : s.rs.status <;> simp_all
      rw [this] at hq; simp at hq

theorem members_second (req : List Tid) (s : IS) (hrun : s.rs.status = .running) :
    ∀ q ∈ secondPrims cfg p req s, HOK cfg q := by
  intro q hq
  simp only [secondPrims, List.mem_append] at hq
  have hn : ∀ q, q.launches = false ∧ q.isRaise = false → HOK cfg q :=
    fun q h => ⟨h.1, fun h' => by rw [h.2] at h'; exact absurd h' (by simp)⟩
  rcases hq with (hq | hq) | hq
  · exact hn q (cancelPrims_nolaunch s q hq)
  · exact hn q (stopPrims_nolaunch _ q hq)
  · have h1 := cancelPrims_empties (cfg := cfg) (p := p) s hrun
    have h2 := runPrims_queued_nil (cfg := cfg) (p := p) (stopPrims cfg (runPrims cfg p (cancelPrims cfg s) s)) _
      (fun q' hq' => (stopPrims_nolaunch _ q' hq').1) h1
    exact members_wait HOK_gen req noWait _ (fun hne => absurd h2 hne) q hq

/-! ## `LabError` is raised only without `continue_on_failure` -/
def ROK (cfg : Config) (q : Prim) : Prop := q.isRaise = true → cfg.contOnFail = false

theorem ROK_gen : GenOK cfg (ROK cfg) where
  basic := fun q _ h2 h => by rw [h2] at h; exact absurd h (by simp)
  raise := fun h _ _ => h

theorem ROK_of_launch (q : Prim) (h : q.launches = true) : ROK cfg q := by
  intro hr
  cases q <;> simp [Prim.launches, Prim.isRaise] at h hr

theorem members_submit : ∀ (l : List Tid) (s : IS), ∀ q ∈ submitPrims cfg p l s, q.launches = true := by
  intro l
  induction l with
  | nil => intro s q hq; simp [submitPrims] at hq
  | cons t ts ih =>
    intro s q hq
    simp only [submitPrims, List.mem_append] at hq
    rcases hq with hq | hq
    · simp only [submitOnePrims] at hq
      split at hq
      · simp only [List.mem_cons, List.not_mem_nil, or_false] at hq
        rcases hq with rfl | rfl <;> rfl
      · simp only [List.mem_append, List.mem_cons, List.not_mem_nil, or_false, startProcessesPrims,
          startPrims, List.mem_flatMap] at hq
        rcases hq with ((rfl | rfl) | ⟨j, _, rfl | rfl | rfl⟩) | rfl <;> rfl
    · exact ih _ q hq

theorem members_main (req : List Tid) : ∀ (sched : List Choice) (s : IS),
    ∀ q ∈ mainStream cfg p req sched s, ROK cfg q := by
  intro sched
  induction sched with
  | nil => intro s q hq; simp [mainStream] at hq
  | cons c cs ih =>
    intro s q hq
    unfold mainStream at hq
    split at hq
    · split at hq
      · simp only [List.mem_append] at hq
        rcases hq with hq | hq
        · simp only [iterationPrims] at hq
          split at hq
          · simp only [List.mem_append] at hq
            rcases hq with hq | hq
            · exact ROK_of_launch q (members_submit _ _ q hq)
            · exact members_wait ROK_gen req c _ (fun _ q' h' => ROK_of_launch q' h') q hq
          · exact ROK_of_launch q (members_submit _ _ q hq)
        · exact ih _ q hq
      · simp at hq
    · simp at hq

def LabOK (cfg : Config) (s : IS) : Prop :=
  ∀ t, s.rs.status = .raised (.labError t) → cfg.contOnFail = false

theorem step_status_cases (q : Prim) (s : IS) (hrun : s.rs.status = .running) :
    (applyPrim cfg p q s).rs.status = .running ∨ (applyPrim cfg p q s).rs.status = .raised .keyError ∨
      q.isRaise = true := by
  rw [applyPrim_running _ _ hrun]
  cases q <;> simp only [stepPrim, Prim.isRaise, keyErr] <;> (repeat' split) <;> simp [hrun]

theorem applyPrim_LabOK (q : Prim) (s : IS) (hq : ROK cfg q) (h : LabOK cfg s) :
    LabOK cfg (applyPrim cfg p q s) := by
  by_cases hrun : s.rs.status = .running
  · intro t ht
    rcases step_status_cases (cfg := cfg) (p := p) q s hrun with h1 | h1 | h1
    · rw [h1] at ht; simp at ht
    · rw [h1] at ht; simp at ht
    · exact hq h1
  · rw [applyPrim_stopped q s hrun]; exact h

theorem runPrims_LabOK : ∀ (ps : List Prim) (s : IS), (∀ q ∈ ps, ROK cfg q) → LabOK cfg s →
    LabOK cfg (runPrims cfg p ps s) := by
  intro ps
  induction ps with
  | nil => intro s _ h; exact h
  | cons q ps ih =>
    intro s hq h
    exact ih _ (fun q' hq' => hq q' (List.mem_cons_of_mem _ hq'))
      (applyPrim_LabOK q s (hq q List.mem_cons_self) h)

/-! ## the trace only grows, and without a launch gets no `start` / `submit` record -/
def evLaunch : Ev → Bool
  | .start _ | .submit _ _ => true
  | _ => false

theorem jobEvents_nolaunch (ts : TS) (js : List Job) :
    ∀ e ∈ (js.map (jobEvents p ts)).flatten, evLaunch e = false := by
  intro e he
  simp only [List.mem_flatten, List.mem_map] at he
  obtain ⟨l, ⟨j, _, rfl⟩, hel⟩ := he
  rcases jobEvents_cases p ts j e hel with rfl | rfl <;> rfl

theorem trace_ext (q : Prim) (s : IS) :
    ∃ l, (applyPrim cfg p q s).rs.trace = s.rs.trace ++ l ∧
      (q.launches = false → ∀ e ∈ l, evLaunch e = false) := by
  by_cases hrun : ¬ s.rs.status = .running
  · rw [applyPrim_stopped q s hrun]
    exact ⟨[], by simp, fun _ e he => by simp at he⟩
  rw [applyPrim_running q s (Decidable.not_not.mp hrun)]
  cases q
  case consumeResults c =>
    refine ⟨[Ev.waitEnter (s.rs.queued.map Job.tid) (s.rs.running.map Job.tid)] ++
      ((finOf c s.rs.running).map (jobEvents p s.rs.ts)).flatten, by simp [stepPrim], fun _ e he => ?_⟩
    simp only [List.mem_append, List.mem_singleton] at he
    rcases he with rfl | he
    · rfl
    · exact jobEvents_nolaunch _ _ e he
  case popFuture t o =>
    cases o with
    | none =>
      refine ⟨[], ?_, fun _ e he => by simp at he⟩
      simp only [stepPrim]; split <;> simp [keyErr]
    | some o =>
      by_cases ht : t ∈ s.rs.futs
      · exact ⟨[Ev.yield t o], by simp [stepPrim, ht], fun _ e he => by
          simp only [List.mem_singleton] at he; subst he; rfl⟩
      · exact ⟨[], by simp [stepPrim, ht, keyErr], fun _ e he => by simp at he⟩
  case removeDone rem =>
    exact ⟨[Ev.remove rem (s.rs.results.map (·.1))], by simp [stepPrim], fun _ e he => by
      simp only [List.mem_singleton] at he; subst he; rfl⟩
  case popDeque =>
    refine ⟨[Ev.waitEnter (s.rs.queued.map Job.tid) []], ?_, fun _ e he => by
      simp only [List.mem_singleton] at he; subst he; rfl⟩
    simp only [stepPrim]; split <;> rfl
  case enqueue t => exact ⟨_, by simp only [stepPrim]; rfl, fun h => by simp [Prim.launches] at h⟩
  case procStart t => exact ⟨_, by simp only [stepPrim]; rfl, fun h => by simp [Prim.launches] at h⟩
  case serialAppend t => exact ⟨_, by simp only [stepPrim]; rfl, fun h => by simp [Prim.launches] at h⟩
  case serialRun =>
    cases hc : s.cur with
    | none => exact ⟨[], by simp [stepPrim, hc], fun h => by simp [Prim.launches] at h⟩
    | some j =>
      exact ⟨[Ev.start j.tid] ++ runEvents p s.rs.ts j, by simp [stepPrim, hc],
        fun h => by simp [Prim.launches] at h⟩
  all_goals
    refine ⟨[], ?_, fun _ e he => by simp at he⟩
    simp only [stepPrim, keyErr, List.append_nil]
    repeat' split
    all_goals rfl

theorem trace_ext_list : ∀ (ps : List Prim) (s : IS), (∀ q ∈ ps, q.launches = false) →
    ∃ l, (runPrims cfg p ps s).rs.trace = s.rs.trace ++ l ∧ ∀ e ∈ l, evLaunch e = false := by
  intro ps
  induction ps with
  | nil => intro s _; exact ⟨[], by simp, fun e he => by simp at he⟩
  | cons q ps ih =>
    intro s hq
    obtain ⟨l1, h1, h1'⟩ := trace_ext (cfg := cfg) (p := p) q s
    obtain ⟨l2, h2, h2'⟩ := ih (applyPrim cfg p q s) (fun q' hq' => hq q' (List.mem_cons_of_mem _ hq'))
    refine ⟨l1 ++ l2, by rw [runPrims_cons, h2, h1, List.append_assoc], ?_⟩
    intro e he
    rcases List.mem_append.mp he with he | he
    · exact h1' (hq q List.mem_cons_self) e he
    · exact h2' e he

end Lt
