import LabtechModel.Proofs.IntrBasic
/-!
# M10 refines M4: executing all primitives of an iteration is `Lt.iteration`
-/
namespace Lt

variable {cfg : Config} {p : Problem}

def IS.setResults (s : IS) (r : List (Tid × Val)) : IS := { s with rs := { s.rs with results := r } }

theorem removeResult_fold : ∀ (rem : List Tid) (s : IS), s.rs.status = .running →
    runPrims cfg p (rem.map Prim.removeResult) s = s.setResults (removeResults s.rs.results rem) := by
  intro rem
  induction rem with
  | nil =>
    intro s _
    have : s.rs.results.filter (fun _ => true) = s.rs.results := List.filter_eq_self.mpr (by simp)
    simp [removeResults, IS.setResults, this]
  | cons d ds ih =>
    intro s hrun
    simp only [List.map_cons, runPrims_cons, applyPrim_running _ _ hrun, stepPrim]
    refine Eq.trans (ih _ hrun) ?_
    simp only [IS.setResults, removeResults, List.filter_filter]
    congr 2
    apply List.filter_congr
    intro x _
    simp only [List.mem_cons, not_or, decide_not, ne_eq, Bool.decide_and]
    exact Bool.and_comm _ _

theorem removePrims_refine (rem : List Tid) (s : IS) (hrun : s.rs.status = .running) :
    runPrims cfg p (removePrims rem) s =
      { s with rs := { s.rs with results := removeResults s.rs.results rem,
                                 trace := s.rs.trace ++ [Ev.remove rem ((removeResults s.rs.results rem).map (·.1))] } } := by
  simp only [removePrims, runPrims_append, removeResult_fold rem s hrun, runPrims_cons, runPrims_nil]
  rw [applyPrim_running _ _ (by exact hrun)]
  rfl

/-- pop + the consumer's loop body for one yielded outcome is `processYield` -/
theorem doneOne_refine (req : List Tid) (s : IS) (t : Tid) (o : Outcome)
    (hrun : s.rs.status = .running) (hmem : t ∈ s.rs.futs) (hc : completeTask s.rs.ts t ≠ none) :
    runPrims cfg p (Prim.popFuture t (some o) :: yieldPrims cfg req s.rs.ts t o) s =
      { s with done := s.done.filter (fun x => x.1 ≠ t),
               rs := processYield cfg req { s.rs with futs := s.rs.futs.filter (· ≠ t) } t o } := by
  cases hct : completeTask s.rs.ts t with
  | none => exact absurd hct hc
  | some r =>
    obtain ⟨ts', rem⟩ := r
    simp only [runPrims_cons, applyPrim_running _ _ hrun, stepPrim, hmem, if_true]
    cases o with
    | ok v =>
      by_cases hreq : t ∈ req
      all_goals
        simp only [yieldPrims, remOf, hct, processYield, runPrims_append, runPrims_cons, runPrims_nil,
          hreq, if_true, if_false]
        simp only [applyPrim_running, hrun, stepPrim]
        refine Eq.trans (congrArg (runPrims cfg p (removePrims rem))
          (complete_refine _ s.rs.ts t ts' rem rfl rfl hct)) ?_
        rw [removePrims_refine]
        · rfl
        · rfl
    | exc =>
      by_cases hcf : cfg.contOnFail = true
      · simp only [yieldPrims, remOf, hct, processYield, runPrims_append, hcf, if_true]
        refine Eq.trans (congrArg (runPrims cfg p (removePrims rem))
          (complete_refine _ s.rs.ts t ts' rem hrun rfl hct)) ?_
        rw [removePrims_refine]
        · simp [IS.setTS, hrun]
        · exact hrun
      · simp only [yieldPrims, remOf, hct, processYield, runPrims_append, hcf]
        refine Eq.trans (congrArg (runPrims cfg p [Prim.raiseLabError t])
          (complete_refine _ s.rs.ts t ts' rem hrun rfl hct)) ?_
        simp only [runPrims_cons, runPrims_nil]
        rw [applyPrim_running]
        · simp [IS.setTS, stepPrim]
        · exact hrun
    | died =>
      by_cases hcf : cfg.contOnFail = true
      · simp only [yieldPrims, remOf, hct, processYield, runPrims_append, hcf, if_true]
        refine Eq.trans (congrArg (runPrims cfg p (removePrims rem))
          (complete_refine _ s.rs.ts t ts' rem hrun rfl hct)) ?_
        rw [removePrims_refine]
        · simp [IS.setTS, hrun]
        · exact hrun
      · simp only [yieldPrims, remOf, hct, processYield, runPrims_append, hcf]
        refine Eq.trans (congrArg (runPrims cfg p [Prim.raiseLabError t])
          (complete_refine _ s.rs.ts t ts' rem hrun rfl hct)) ?_
        simp only [runPrims_cons, runPrims_nil]
        rw [applyPrim_running]
        · simp [IS.setTS, stepPrim]
        · exact hrun

theorem processYields_stopped (req : List Tid) (ys : List (Tid × Outcome)) (rs : RS)
    (h : rs.status ≠ .running) : processYields cfg req ys rs = rs := by
  cases ys with
  | nil => rfl
  | cons y ys =>
    obtain ⟨t, o⟩ := y
    unfold processYields
    cases hs : rs.status <;> simp_all

theorem filterMap_congr' {α β} (f g : α → Option β) : ∀ (l : List α), (∀ x ∈ l, f x = g x) →
    l.filterMap f = l.filterMap g := by
  intro l
  induction l with
  | nil => intro _; rfl
  | cons x xs ih =>
    intro h
    simp only [List.filterMap_cons, h x List.mem_cons_self,
      ih (fun y hy => h y (List.mem_cons_of_mem _ hy))]

theorem processYield_futs (req : List Tid) (rs : RS) (t : Tid) (o : Outcome) :
    (processYield cfg req rs t o).futs = rs.futs := by
  simp only [processYield]
  cases o <;> (simp only; split <;> rfl)

theorem find_filter_ne {α} (l : List (Tid × α)) (t t' : Tid) (h : t' ≠ t) :
    (l.filter (fun x => x.1 ≠ t)).find? (fun x => x.1 = t') = l.find? (fun x => x.1 = t') := by
  induction l with
  | nil => rfl
  | cons x xs ih =>
    simp only [List.filter_cons]
    split
    · simp only [List.find?_cons, ih]
    · next hx =>
      have hx : x.1 = t := by simpa using hx
      have : decide (x.1 = t') = false := by simp [hx, Ne.symm h]
      simp only [List.find?_cons, this, ih]

theorem filter_ne_of_find_none {α} (l : List (Tid × α)) (t : Tid)
    (h : l.find? (fun x => x.1 = t) = none) : l.filter (fun x => x.1 ≠ t) = l := by
  rw [List.filter_eq_self]
  intro x hx
  have := List.find?_eq_none.mp h x hx
  simpa using this

theorem processYields_cons_running (req : List Tid) (t : Tid) (o : Outcome) (ys : List (Tid × Outcome))
    (rs : RS) (h : rs.status = .running) :
    processYields cfg req ((t, o) :: ys) rs =
      processYields cfg req ys (processYield cfg req { rs with futs := rs.futs.filter (· ≠ t) } t o) := by
  conv => lhs; unfold processYields
  split
  · rfl
  · next h' => exact absurd h (by intro hh; exact h' hh)

theorem donePrims_cons_running (req : List Tid) (t : Tid) (rest : List Tid) (s : IS)
    (h : s.rs.status = .running) :
    donePrims cfg p req (t :: rest) s =
      doneOnePrims cfg req s t ++ donePrims cfg p req rest (runPrims cfg p (doneOnePrims cfg req s t) s) := by
  conv => lhs; unfold donePrims
  split
  · rfl
  · next h' => exact absurd h (by intro hh; exact h' hh)

theorem donePrims_stopped (req : List Tid) (cands : List Tid) (s : IS)
    (h : s.rs.status ≠ .running) : donePrims cfg p req cands s = [] := by
  cases cands with
  | nil => rfl
  | cons t rest =>
    unfold donePrims
    cases hs : s.rs.status <;> simp_all

theorem filter_notin_cons {α} (l : List (Tid × α)) (t : Tid) (rest : List Tid) :
    (l.filter (fun x => x.1 ≠ t)).filter (fun x => x.1 ∉ rest) = l.filter (fun x => x.1 ∉ t :: rest) := by
  rw [List.filter_filter]
  apply List.filter_congr
  intro x _
  by_cases h1 : x.1 = t <;> by_cases h2 : x.1 ∈ rest <;> simp [h1, h2]

/-- `for future in done:` + consumer loop = `processYields` over the done futures -/
theorem donePrims_refine (req : List Tid) : ∀ (cands : List Tid) (s : IS),
    s.cancelled = [] → cands.Nodup → (∀ t ∈ cands, t ∈ s.rs.futs) →
    (processYields cfg req (cands.filterMap (fun t => s.done.find? (fun x => x.1 = t))) s.rs).status
      ≠ .raised .keyError →
    ∃ d, runPrims cfg p (donePrims cfg p req cands s) s =
        { s with done := d,
                 rs := processYields cfg req (cands.filterMap (fun t => s.done.find? (fun x => x.1 = t))) s.rs } ∧
      ((processYields cfg req (cands.filterMap (fun t => s.done.find? (fun x => x.1 = t))) s.rs).status = .running →
        d = s.done.filter (fun x => x.1 ∉ cands)) := by
  intro cands
  induction cands with
  | nil =>
    intro s _ _ _ _
    refine ⟨s.done, rfl, fun _ => ?_⟩
    exact (List.filter_eq_self.mpr (by simp)).symm
  | cons t rest ih =>
    intro s hcan hnd hmem hnk
    have hnd' := List.nodup_cons.mp hnd
    by_cases hrun : s.rs.status = .running
    · have hnc : t ∉ s.cancelled := by simp [hcan]
      rw [donePrims_cons_running req t rest s hrun]
      cases hf : s.done.find? (fun x => x.1 = t) with
      | none =>
        have hone : doneOnePrims cfg req s t = [] := by simp only [doneOnePrims, hnc, if_false, hf]
        simp only [List.filterMap_cons, hf] at hnk ⊢
        obtain ⟨d, h1, h2⟩ := ih s hcan hnd'.2 (fun t' ht' => hmem t' (List.mem_cons_of_mem _ ht')) hnk
        rw [hone]
        refine ⟨d, h1, fun hr => ?_⟩
        rw [h2 hr, ← filter_notin_cons, filter_ne_of_find_none s.done t hf]
      | some y =>
        obtain ⟨t', o⟩ := y
        have ht' : t' = t := by simpa using List.find?_some hf
        subst ht'
        have hone : doneOnePrims cfg req s t' = Prim.popFuture t' (some o) :: yieldPrims cfg req s.rs.ts t' o := by
          simp only [doneOnePrims, hnc, if_false, hf]
        simp only [List.filterMap_cons, hf] at hnk ⊢
        rw [processYields_cons_running req t' o _ s.rs hrun] at hnk ⊢
        have htf : t' ∈ s.rs.futs := hmem t' List.mem_cons_self
        have hc : completeTask s.rs.ts t' ≠ none := by
          intro hcn
          apply hnk
          rw [processYields_stopped]
          all_goals (cases o <;> simp [processYield, hcn])
        rw [hone, runPrims_append, doneOne_refine req s t' o hrun htf hc]
        obtain ⟨s1, hs1⟩ : ∃ s1 : IS, { s with
            done := s.done.filter (fun x => x.1 ≠ t'),
            rs := processYield cfg req { s.rs with futs := s.rs.futs.filter (· ≠ t') } t' o } = s1 := ⟨_, rfl⟩
        rw [hs1]
        have hs1rs : s1.rs = processYield cfg req { s.rs with futs := s.rs.futs.filter (· ≠ t') } t' o := by
          rw [← hs1]
        have hs1d : s1.done = s.done.filter (fun x => x.1 ≠ t') := by rw [← hs1]
        have hs1c : s1.cancelled = [] := by rw [← hs1]; exact hcan
        rw [← hs1rs] at hnk ⊢
        have hfm : rest.filterMap (fun t => s1.done.find? (fun x => x.1 = t)) =
            rest.filterMap (fun t => s.done.find? (fun x => x.1 = t)) := by
          apply filterMap_congr'
          intro x hx
          rw [hs1d]
          exact find_filter_ne s.done t' x (fun h => hnd'.1 (h ▸ hx))
        have hmem1 : ∀ x ∈ rest, x ∈ s1.rs.futs := by
          intro x hx
          rw [hs1rs, processYield_futs]
          simp only [List.mem_filter, decide_eq_true_eq]
          exact ⟨hmem x (List.mem_cons_of_mem _ hx), fun h => hnd'.1 (h ▸ hx)⟩
        obtain ⟨d, h1, h2⟩ := ih s1 hs1c hnd'.2 hmem1 (by rw [hfm]; exact hnk)
        rw [hfm] at h1 h2
        refine ⟨d, ?_, fun hr => ?_⟩
        · rw [h1, ← hs1]
        · rw [h2 hr, hs1d, filter_notin_cons]
    · refine ⟨s.done, ?_, fun hr => ?_⟩
      · rw [donePrims_stopped req _ s hrun, processYields_stopped _ _ _ hrun]
        rfl
      · rw [processYields_stopped _ _ _ hrun] at hr
        exact absurd hr hrun

/-! ## `_start_processes` -/
theorem startPrims_run : ∀ (go : List Job) (s : IS) (stay : List Job), s.rs.status = .running →
    s.rs.queued = go ++ stay →
    runPrims cfg p (startPrims go) s =
      { s with alive := s.alive ++ go.map Job.tid,
               rs := { s.rs with queued := stay,
                                 running := s.rs.running ++ go.map (forkSnap cfg s.rs.results),
                                 trace := s.rs.trace ++ go.map (fun j => Ev.start j.tid) } } := by
  intro go
  induction go with
  | nil =>
    intro s stay _ hq
    simp only [List.nil_append] at hq
    simp [startPrims, ← hq]
  | cons j go ih =>
    intro s stay hrun hq
    have hfind : s.rs.queued.find? (hasTid j.tid) = some j := by
      rw [hq]; simp [hasTid]
    have herase : s.rs.queued.eraseP (hasTid j.tid) = go ++ stay := by
      rw [hq]; simp [hasTid]
    have hsp : startPrims (j :: go) =
        [Prim.procStart j.tid, Prim.regRunning j.tid, Prim.unregPending j.tid] ++ startPrims go := by
      simp [startPrims]
    rw [hsp, runPrims_append]
    simp only [runPrims_cons, runPrims_nil]
    simp only [applyPrim_running, hrun, stepPrim, hfind, herase]
    rw [ih _ stay rfl rfl]
    simp [List.append_assoc]

theorem startProcessesPrims_refine (s : IS) (hrun : s.rs.status = .running) (hz : s.zombies = []) :
    runPrims cfg p (startProcessesPrims cfg s) s =
      { s with alive := s.alive ++ (takeN (cfg.maxWorkers - s.rs.running.length) s.rs.queued).1.map Job.tid,
               rs := startProcesses cfg s.rs } := by
  have hq := (takeN_append (cfg.maxWorkers - s.rs.running.length) s.rs.queued).symm
  have hsp : startProcessesPrims cfg s =
      startPrims (takeN (cfg.maxWorkers - s.rs.running.length) s.rs.queued).1 := by
    simp only [startProcessesPrims, hz, List.length_nil, Nat.add_zero]
  rw [hsp, startPrims_run _ s _ hrun hq]
  have htid : ∀ (l : List Job), (l.map (forkSnap cfg s.rs.results)).map (fun j => Ev.start j.tid)
      = l.map (fun j => Ev.start j.tid) := by
    intro l
    rw [List.map_map]
    apply List.map_congr_left
    intro j _
    simp only [Function.comp, forkSnap]
    split <;> rfl
  simp only [startProcesses]
  rw [← htid]
  rfl

/-! ## the submit phase -/
theorem submitOne_refine (s : IS) (t : Tid) (ts' : TS) (hrun : s.rs.status = .running)
    (hz : s.zombies = []) (hst : startTask s.rs.ts t = some ts') :
    ∃ A, runPrims cfg p (submitOnePrims cfg p s t) s =
      { s with alive := A, rs := submitTask cfg p { s.rs with ts := ts' } t } := by
  by_cases hb : cfg.backend = .serial
  · refine ⟨s.alive, ?_⟩
    simp only [submitOnePrims, hb, if_true, runPrims_cons, runPrims_nil]
    simp only [applyPrim_running, hrun, stepPrim, hst, submitTask, hb, if_true, mkJob]
  · simp only [submitOnePrims, hb, if_false, runPrims_append, runPrims_cons, runPrims_nil]
    simp only [applyPrim_running, hrun, stepPrim, hst]
    rw [startProcessesPrims_refine]
    rotate_left
    · rfl
    · exact hz
    apply Exists.intro
    rw [applyPrim_running _ _ (by simp [startProcesses_status])]
    simp only [stepPrim, submitTask, hb, if_false, mkJob, startProcesses]
    rfl

theorem submitPrims_refine : ∀ (l : List Tid) (s : IS), s.rs.status = .running → s.zombies = [] →
    ∃ A, runPrims cfg p (submitPrims cfg p l s) s = { s with alive := A, rs := submitAll cfg p l s.rs } := by
  intro l
  induction l with
  | nil => intro s _ _; exact ⟨s.alive, rfl⟩
  | cons t ts ih =>
    intro s hrun hz
    simp only [submitPrims, runPrims_append, submitAll]
    cases hst : startTask s.rs.ts t with
    | none =>
      refine ⟨s.alive, ?_⟩
      have h1 : runPrims cfg p (submitOnePrims cfg p s t) s = keyErr s := by
        have : ∃ rest, submitOnePrims cfg p s t = Prim.startTask t :: rest := by
          simp only [submitOnePrims]; split <;> exact ⟨_, rfl⟩
        obtain ⟨rest, hr⟩ := this
        rw [hr, runPrims_cons, applyPrim_running _ _ hrun]
        simp only [stepPrim, hst]
        exact runPrims_stopped _ _ (by simp [keyErr])
      rw [h1, runPrims_stopped _ _ (by simp [keyErr])]
      rfl
    | some ts' =>
      obtain ⟨A, hA⟩ := submitOne_refine s t ts' hrun hz hst
      rw [hA]
      obtain ⟨B, hB⟩ := ih { s with alive := A, rs := submitTask cfg p { s.rs with ts := ts' } t }
        (by simp [submitTask_status, hrun]) hz
      exact ⟨B, hB⟩

/-! ## a process runner's wait -/
theorem markDead_fold : ∀ (Z : List Tid) (s : IS), s.rs.status = .running → s.cancelled = [] →
    s.zombies = Z →
    runPrims cfg p (Z.map Prim.markDead) s =
      { s with zombies := [], done := s.done ++ Z.map (fun t => (t, Outcome.died)) } := by
  intro Z
  induction Z with
  | nil =>
    intro s _ _ hz
    cases s
    simp_all
  | cons t Z ih =>
    intro s hrun hc hz
    have ht : t ∈ s.zombies := by rw [hz]; exact List.mem_cons_self
    have hnc : t ∉ s.cancelled := by simp [hc]
    simp only [List.map_cons, runPrims_cons, applyPrim_running _ _ hrun, stepPrim, ht, if_true, hnc,
      if_false]
    refine Eq.trans (ih _ hrun hc ?_) ?_
    · simp [hz]
    · simp [List.append_assoc]

theorem find_died (f : Job → Outcome) (dies : Tid → Bool)
    (hf : ∀ j, dies j.tid = true → f j = .died) (t : Tid) (hd : dies t = true) : ∀ (fin : List Job),
    (((fin.filter (fun j => dies j.tid)).map Job.tid).map (fun t => (t, Outcome.died))).find?
        (fun x => x.1 = t) =
    (fin.map (fun j => (j.tid, f j))).find? (fun x => x.1 = t)
  | [] => rfl
  | j :: fin => by
    have ih := find_died f dies hf t hd fin
    by_cases hdj : dies j.tid = true
    · simp only [List.filter_cons, hdj, if_true, List.map_cons, List.find?_cons]
      by_cases hj : j.tid = t
      · simp only [hj, decide_true]
        rw [hf j hdj]
      · simp only [hj, decide_false]; exact ih
    · have hdj' : dies j.tid = false := by simpa using hdj
      have hj : j.tid ≠ t := fun h => by rw [h, hd] at hdj'; simp at hdj'
      simp only [List.filter_cons, hdj', Bool.false_eq_true, if_false, List.map_cons, List.find?_cons, hj,
        decide_false]
      exact ih

theorem find_reported (f : Job → Outcome) (dies : Tid → Bool) (t : Tid) (hd : dies t = false) :
    ∀ (fin : List Job),
    ((fin.filter (fun j => !dies j.tid)).map (fun j => (j.tid, f j))).find? (fun x => x.1 = t) =
    (fin.map (fun j => (j.tid, f j))).find? (fun x => x.1 = t)
  | [] => rfl
  | j :: fin => by
    have ih := find_reported f dies t hd fin
    by_cases hdj : dies j.tid = true
    · have hj : j.tid ≠ t := fun h => by rw [h, hd] at hdj; simp at hdj
      simp only [List.filter_cons, hdj, Bool.not_true, Bool.false_eq_true, if_false, List.map_cons,
        List.find?_cons, hj, decide_false]
      exact ih
    · have hdj' : dies j.tid = false := by simpa using hdj
      simp only [List.filter_cons, hdj', Bool.not_false, if_true, List.map_cons, List.find?_cons]
      by_cases hj : j.tid = t
      · simp only [hj, decide_true]
      · simp only [hj, decide_false]; exact ih

theorem find_outcomes_split (f : Job → Outcome) (dies : Tid → Bool)
    (hf : ∀ j, dies j.tid = true → f j = .died) (fin : List Job) (t : Tid) :
    (((fin.filter (fun j => !dies j.tid)).map (fun j => (j.tid, f j))) ++
      ((fin.filter (fun j => dies j.tid)).map Job.tid).map (fun t => (t, Outcome.died))).find?
        (fun x => x.1 = t) =
    (fin.map (fun j => (j.tid, f j))).find? (fun x => x.1 = t) := by
  rw [List.find?_append]
  cases hd : dies t with
  | true =>
    have h1 : ((fin.filter (fun j => !dies j.tid)).map (fun j => (j.tid, f j))).find? (fun x => x.1 = t) = none := by
      rw [List.find?_eq_none]
      intro x hx
      obtain ⟨j, hj, rfl⟩ := List.mem_map.mp hx
      have := (List.mem_filter.mp hj).2
      intro h
      simp only [decide_eq_true_eq] at h
      rw [h, hd] at this
      simp at this
    rw [h1, Option.none_or]
    exact find_died f dies hf t hd fin
  | false =>
    have h2 : (((fin.filter (fun j => dies j.tid)).map Job.tid).map (fun t => (t, Outcome.died))).find?
        (fun x => x.1 = t) = none := by
      rw [List.find?_eq_none]
      intro x hx
      obtain ⟨t', ht', rfl⟩ := List.mem_map.mp hx
      obtain ⟨j, hj, rfl⟩ := List.mem_map.mp ht'
      have := (List.mem_filter.mp hj).2
      intro h
      simp only [decide_eq_true_eq] at h
      rw [h, hd] at this
      simp at this
    rw [h2, Option.or_none]
    exact find_reported f dies t hd fin

/-- the state in which `ProcessRunner.wait` starts yielding (coarse model) -/
def waitPre (cfg : Config) (p : Problem) (c : Choice) (rs : RS) : RS :=
  startProcesses cfg { rs with
    running := stayOf c rs.running, store := saveAll p rs.ts (finOf c rs.running) rs.store,
    trace := rs.trace ++ [Ev.waitEnter (rs.queued.map Job.tid) (rs.running.map Job.tid)]
               ++ ((finOf c rs.running).map (jobEvents p rs.ts)).flatten }

def waitOutcomes (p : Problem) (c : Choice) (rs : RS) : List (Tid × Outcome) :=
  (finOf c rs.running).map (fun j => (j.tid, jobOutcome p rs.ts rs.store j))

theorem waitProcess_eq (req : List Tid) (c : Choice) (rs : RS) :
    waitProcess cfg p req c rs =
      processYields cfg req ((waitPre cfg p c rs).futs.filterMap
        (fun t => (waitOutcomes p c rs).find? (fun x => x.1 = t))) (waitPre cfg p c rs) := rfl

theorem waitPre_futs (c : Choice) (rs : RS) : (waitPre cfg p c rs).futs = rs.futs := by
  simp [waitPre, startProcesses]

theorem mem_finOf (c : Choice) (l : List Job) (j : Job) (h : j ∈ finOf c l) : j ∈ l :=
  finJobs_mem c { ts := {}, running := l } j h

theorem waitProcess_refine (req : List Tid) (c : Choice) (s : IS) (hrun : s.rs.status = .running)
    (hb : cfg.backend ≠ .serial) (hd : s.done = []) (hc : s.cancelled = []) (hz : s.zombies = [])
    (hnd : s.rs.futs.Nodup) (hsub : ∀ j ∈ s.rs.running, j.tid ∈ s.rs.futs)
    (hnk : (waitProcess cfg p req c s.rs).status ≠ .raised .keyError) :
    ∃ A d, runPrims cfg p (waitPrims cfg p req c s) s =
        { s with alive := A, done := d, rs := waitProcess cfg p req c s.rs } ∧
      ((waitProcess cfg p req c s.rs).status = .running → d = []) := by
  -- after the result queue was consumed
  obtain ⟨s0, hs0⟩ : ∃ s0, s0 = runPrims cfg p [Prim.consumeResults c] s := ⟨_, rfl⟩
  have e0 : s0 = stepPrim cfg p (Prim.consumeResults c) s := by
    rw [hs0]; simp only [runPrims_cons, runPrims_nil, applyPrim_running _ _ hrun]
  have r0 : s0.rs.status = .running := by rw [e0]; exact hrun
  have c0 : s0.cancelled = [] := by rw [e0]; exact hc
  have z0 : s0.zombies = ((finOf c s.rs.running).filter (fun j => p.dies j.tid)).map Job.tid := by
    rw [e0]; simp [stepPrim, hz]
  have d0 : s0.done = ((finOf c s.rs.running).filter (fun j => !p.dies j.tid)).map
      (fun j => (j.tid, jobOutcome p s.rs.ts s.rs.store j)) := by
    rw [e0]; simp [stepPrim, hd, hc]
  -- after the dead-process loop
  obtain ⟨s1, hs1⟩ : ∃ s1, s1 = runPrims cfg p (deadPrims s0) s0 := ⟨_, rfl⟩
  have e1 : s1 = { s0 with zombies := [], done := s0.done ++ s0.zombies.map (fun t => (t, Outcome.died)) } := by
    rw [hs1, deadPrims, markDead_fold _ s0 r0 c0 rfl]
  have r1 : s1.rs.status = .running := by rw [e1]; exact r0
  have z1 : s1.zombies = [] := by rw [e1]
  -- after `_start_processes`
  obtain ⟨s2, hs2⟩ : ∃ s2, s2 = runPrims cfg p (startProcessesPrims cfg s1) s1 := ⟨_, rfl⟩
  have e2 := startProcessesPrims_refine (cfg := cfg) (p := p) s1 r1 z1
  rw [← hs2] at e2
  have rs2 : s2.rs = waitPre cfg p c s.rs := by
    rw [e2]
    show startProcesses cfg s1.rs = _
    rw [e1]
    show startProcesses cfg s0.rs = _
    rw [e0]
    rfl
  have c2 : s2.cancelled = [] := by rw [e2]; show s1.cancelled = []; rw [e1]; exact c0
  have d2 : s2.done = s0.done ++ s0.zombies.map (fun t => (t, Outcome.died)) := by
    rw [e2]; show s1.done = _; rw [e1]
  have hys : s2.rs.futs.filterMap (fun t => s2.done.find? (fun x => x.1 = t)) =
      (waitPre cfg p c s.rs).futs.filterMap (fun t => (waitOutcomes p c s.rs).find? (fun x => x.1 = t)) := by
    rw [rs2]
    apply filterMap_congr'
    intro t _
    rw [d2, d0, z0]
    exact find_outcomes_split (fun j => jobOutcome p s.rs.ts s.rs.store j) p.dies
      (fun j hj => by simp [jobOutcome, hj]) (finOf c s.rs.running) t
  have hwp := waitProcess_eq (cfg := cfg) (p := p) req c s.rs
  have f2 : s2.rs.futs = s.rs.futs := by rw [rs2, waitPre_futs]
  obtain ⟨d, hdone, hdd⟩ := donePrims_refine (cfg := cfg) (p := p) req s2.rs.futs s2 c2
    (by rw [f2]; exact hnd) (fun t ht => ht) (by rw [hys, rs2, ← hwp]; exact hnk)
  rw [hys, rs2, ← hwp] at hdone hdd
  refine ⟨s2.alive, d, ?_, ?_⟩
  · have hsplit : waitPrims cfg p req c s =
        [Prim.consumeResults c] ++ (deadPrims s0 ++ (startProcessesPrims cfg s1 ++ donePrims cfg p req s2.rs.futs s2)) := by
      simp only [waitPrims, hb, if_false, hs0, hs1, hs2]
      simp
    rw [hsplit, runPrims_append, ← hs0, runPrims_append, ← hs1, runPrims_append, ← hs2, rs2, hdone]
    have a1 : s2.cancelled = s.cancelled := by rw [c2, hc]
    have a2 : s2.terminated = s.terminated := by rw [e2]; show s1.terminated = _; rw [e1]; show s0.terminated = _; rw [e0]; rfl
    have a3 : s2.zombies = s.zombies := by rw [e2]; show s1.zombies = _; rw [z1, hz]
    have a4 : s2.cur = s.cur := by rw [e2]; show s1.cur = _; rw [e1]; show s0.cur = _; rw [e0]; rfl
    have a5 : s2.curOut = s.curOut := by rw [e2]; show s1.curOut = _; rw [e1]; show s0.curOut = _; rw [e0]; rfl
    rw [a1, a2, a3, a4, a5]
  · intro hr
    rw [hdd hr, List.filter_eq_nil_iff]
    intro x hx
    simp only [decide_not, Bool.not_eq_true', decide_eq_false_iff_not, Decidable.not_not]
    rw [waitPre_futs]
    rw [d2, d0, z0] at hx
    simp only [List.mem_append, List.mem_map, List.mem_filter] at hx
    rcases hx with ⟨j, ⟨hj, _⟩, rfl⟩ | ⟨t, ⟨j, ⟨hj, _⟩, rfl⟩, rfl⟩
    · exact hsub j (mem_finOf c _ j hj)
    · exact hsub j (mem_finOf c _ j hj)

/-! ## the serial runner's wait -/
/-- `save` begun and completed = the coarse model's save -/
theorem saveIfRan_begin (st : Store) (j : Job) (o : Outcome) :
    saveIfRan p (saveBegin p st j o) j o = saveIfRan p st j o := by
  cases o with
  | ok v =>
    simp only [saveIfRan, saveBegin]
    split
    · simp [List.filter_filter]
    · rfl
  | exc => rfl
  | died => rfl

theorem waitSerial_refine (req : List Tid) (c : Choice) (s : IS) (hrun : s.rs.status = .running)
    (hb : cfg.backend = .serial) (hmem : ∀ j ∈ s.rs.queued.head?, j.tid ∈ s.rs.futs)
    (hnk : (waitSerial cfg p req s.rs).status ≠ .raised .keyError) :
    ∃ cu co d, runPrims cfg p (waitPrims cfg p req c s) s =
        { s with cur := cu, curOut := co, done := d, rs := waitSerial cfg p req s.rs } ∧
      (s.done = [] → d = []) := by
  cases hq : s.rs.queued with
  | nil =>
    refine ⟨s.cur, s.curOut, s.done, ?_, id⟩
    simp only [waitPrims, hb, if_true, hq, runPrims_cons, runPrims_nil, applyPrim_running _ _ hrun,
      stepPrim, waitSerial]
  | cons j rest =>
    have htf : j.tid ∈ s.rs.futs := hmem j (by simp [hq])
    simp only [waitPrims, hb, if_true, hq, runPrims_append, runPrims_cons, runPrims_nil]
    simp only [applyPrim_running, hrun, stepPrim, hq, saveIfRan_begin]
    simp only [waitSerial, hq] at hnk
    have hc : completeTask s.rs.ts j.tid ≠ none := by
      intro hcn
      apply hnk
      generalize runOutcome p s.rs.ts s.rs.store { j with snap := some s.rs.results } = o
      cases o <;> simp [processYield, hcn]
    have := doneOne_refine (cfg := cfg) (p := p) req
      { s with cur := some { j with snap := some s.rs.results },
               curOut := some (runOutcome p s.rs.ts s.rs.store { j with snap := some s.rs.results }),
               rs := { s.rs with queued := rest,
                                 store := saveIfRan p s.rs.store { j with snap := some s.rs.results }
                                   (runOutcome p s.rs.ts s.rs.store { j with snap := some s.rs.results }),
                                 trace := s.rs.trace ++ [Ev.waitEnter (s.rs.queued.map Job.tid) []]
                                   ++ [Ev.start j.tid] ++ runEvents p s.rs.ts { j with snap := some s.rs.results } } }
      j.tid (runOutcome p s.rs.ts s.rs.store { j with snap := some s.rs.results }) hrun htf hc
    simp only [runPrims_cons] at this
    simp only [applyPrim_running, hrun, stepPrim, hq, htf, if_true] at this
    refine ⟨some { j with snap := some s.rs.results },
      some (runOutcome p s.rs.ts s.rs.store { j with snap := some s.rs.results }),
      s.done.filter (fun x => x.1 ≠ j.tid), ?_, fun h => by simp [h]⟩
    simp only [waitSerial, hq, htf, if_true, hrun]
    exact this

/-! ## one iteration, whole runs -/

/-- well-formedness of a loop-head state of the fine model: the master invariant of the coarse
    model on `s.rs`, and no left-overs in the executor's ghost fields -/
structure LHead (cfg : Config) (p : Problem) (P : TS) (s : IS) : Prop where
  reach : Reach cfg p P s.rs
  done : s.rs.status = .running → s.done = []
  canc : s.cancelled = []
  zomb : s.zombies = []

theorem initIS_lhead (store : Store) (fuel : Nat) :
    LHead cfg p (plan cfg p store fuel) (initIS cfg p store fuel) :=
  ⟨initRS_reach cfg p store fuel, fun _ => rfl, rfl, rfl⟩

theorem iteration_refine_lhead {P : TS} (hP : PI P) (req : List Tid) (c : Choice) (s : IS)
    (h : LHead cfg p P s) (hrun : s.rs.status = .running) :
    (runPrims cfg p (iterationPrims cfg p req c s) s).rs = iteration cfg p req c s.rs ∧
    LHead cfg p P (runPrims cfg p (iterationPrims cfg p req c s) s) := by
  obtain ⟨A, hA⟩ := submitPrims_refine (cfg := cfg) (p := p) (readyTasks p s.rs.ts) s hrun h.zomb
  obtain ⟨hc, he, hst⟩ := submitPhase_reach hP h.reach hrun
  obtain ⟨s1, hs1⟩ : ∃ s1, s1 = runPrims cfg p (submitPrims cfg p (readyTasks p s.rs.ts) s) s := ⟨_, rfl⟩
  rw [← hs1] at hA
  have rs1 : s1.rs = submitAll cfg p (readyTasks p s.rs.ts) s.rs := by rw [hA]
  have r1 : s1.rs.status = .running := by rw [rs1]; exact hst
  have hip : iterationPrims cfg p req c s =
      submitPrims cfg p (readyTasks p s.rs.ts) s ++ waitPrims cfg p req c s1 := by
    simp only [iterationPrims, ← hs1, r1]
  have hit : iteration cfg p req c s.rs =
      if cfg.backend = .serial then waitSerial cfg p req s1.rs else waitProcess cfg p req c s1.rs := by
    simp only [iteration, ← rs1, r1]
  rw [hip, runPrims_append, ← hs1, hit]
  have hmemq : ∀ j ∈ s1.rs.queued ++ s1.rs.running, j.tid ∈ s1.rs.futs := by
    intro j hj
    rw [rs1]
    rw [rs1] at hj
    have := he.perm
    simp only [List.append_nil] at this
    exact this.mem_iff.mp (List.mem_map.mpr ⟨j, hj, rfl⟩)
  by_cases hb : cfg.backend = .serial
  · simp only [hb, if_true]
    have hreach : Reach cfg p P (waitSerial cfg p req s1.rs) := by
      rw [rs1]; exact waitSerial_inv req hP hc he hst
    obtain ⟨cu, co, d, hw, hd⟩ := waitSerial_refine (cfg := cfg) (p := p) req c s1 r1 hb
      (by
        intro j hj
        apply hmemq j
        apply List.mem_append_left
        cases hq : s1.rs.queued with
        | nil => simp [hq] at hj
        | cons a l => simp [hq] at hj; subst hj; exact List.mem_cons_self)
      hreach.1.noKey
    rw [hw]
    refine ⟨rfl, hreach, ?_, ?_, ?_⟩
    · intro _
      show d = []
      apply hd
      rw [hA]; exact h.done hrun
    · show s1.cancelled = []
      rw [hA]; exact h.canc
    · show s1.zombies = []
      rw [hA]; exact h.zomb
  · simp only [hb, if_false]
    have hreach : Reach cfg p P (waitProcess cfg p req c s1.rs) := by
      rw [rs1]; exact waitProcess_inv req c hP hb hc he
    have hd1 : s1.done = [] := by rw [hA]; exact h.done hrun
    have hc1 : s1.cancelled = [] := by rw [hA]; exact h.canc
    have hz1 : s1.zombies = [] := by rw [hA]; exact h.zomb
    obtain ⟨A2, d, hw, hd⟩ := waitProcess_refine (cfg := cfg) (p := p) req c s1 r1 hb hd1 hc1 hz1
      (by rw [rs1]; exact hc.ndF)
      (fun j hj => hmemq j (List.mem_append_right _ hj)) hreach.1.noKey
    rw [hw]
    exact ⟨rfl, hreach, fun hr => hd hr, hc1, hz1⟩

/-- THE REFINEMENT THEOREM: executing, in program order, all primitives of one main-loop iteration
    is the iteration of the validated coarse model (`Lt.iteration`), from every state that
    satisfies the master invariant (`Reach`, proved for every loop head by `reach_all`) and whose
    executor ghost fields are clean (`LHead`, itself preserved) -/
theorem prims_refine_iteration {P : TS} (hP : PI P) (req : List Tid) (c : Choice) (s : IS)
    (h : LHead cfg p P s) (hrun : s.rs.status = .running) :
    ((iterationPrims cfg p req c s).foldl (fun s q => applyPrim cfg p q s) s).rs
      = iteration cfg p req c s.rs :=
  (iteration_refine_lhead hP req c s h hrun).1

/-- whole runs: the main stream, executed completely, is `runLoop`; and its end state is again
    a well-formed loop head -/
theorem mainStream_refine {P : TS} (hP : PI P) (req : List Tid) : ∀ (sched : List Choice) (s : IS),
    LHead cfg p P s →
    (runPrims cfg p (mainStream cfg p req sched s) s).rs = runLoop cfg p req sched s.rs ∧
    LHead cfg p P (runPrims cfg p (mainStream cfg p req sched s) s) := by
  intro sched
  induction sched with
  | nil => intro s h; exact ⟨rfl, h⟩
  | cons c cs ih =>
    intro s h
    by_cases hrun : s.rs.status = .running
    · by_cases hl : loopCond s.rs = true
      · obtain ⟨h1, h2⟩ := iteration_refine_lhead hP req c s h hrun
        have := ih _ h2
        simp only [mainStream, hrun, hl, if_true, runPrims_append, runLoop]
        rw [← h1]
        exact this
      · simp only [mainStream, hrun, hl, runLoop]
        exact ⟨rfl, h⟩
    · have h1 : mainStream cfg p req (c :: cs) s = [] := by
        unfold mainStream
        cases hs : s.rs.status <;> simp_all
      have h2 : runLoop cfg p req (c :: cs) s.rs = s.rs := by
        unfold runLoop
        cases hs : s.rs.status <;> simp_all
      rw [h1, h2]
      exact ⟨rfl, h⟩

/-- every loop-head state of the fine model (after any number of complete iterations) is well-formed -/
theorem run_refine (store : Store) (fuel : Nat) (sched : List Choice) :
    (runPrims cfg p (mainStream cfg p (reqTids p) sched (initIS cfg p store fuel))
      (initIS cfg p store fuel)).rs = runLoop cfg p (reqTids p) sched (initRS cfg p store fuel) :=
  (mainStream_refine (plan_PI cfg p store fuel) (reqTids p) sched _ (initIS_lhead store fuel)).1
