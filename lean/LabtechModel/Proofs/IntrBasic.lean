import LabtechModel.Model.Intr
import LabtechModel.Proofs.InvMain
/-!
# M10 basics: folding primitives, blocks that refine the coarse steps
-/
namespace Lt

variable {cfg : Config} {p : Problem}

@[simp] theorem runPrims_nil (s : IS) : runPrims cfg p [] s = s := rfl

@[simp] theorem runPrims_cons (q : Prim) (ps : List Prim) (s : IS) :
    runPrims cfg p (q :: ps) s = runPrims cfg p ps (applyPrim cfg p q s) := rfl

theorem runPrims_append (a b : List Prim) (s : IS) :
    runPrims cfg p (a ++ b) s = runPrims cfg p b (runPrims cfg p a s) := by
  simp [runPrims, List.foldl_append]

theorem applyPrim_running (q : Prim) (s : IS) (h : s.rs.status = .running) :
    applyPrim cfg p q s = stepPrim cfg p q s := by
  simp [applyPrim, h]

theorem applyPrim_stopped (q : Prim) (s : IS) (h : s.rs.status ≠ .running) :
    applyPrim cfg p q s = s := by
  unfold applyPrim
  cases hs : s.rs.status <;> simp_all

theorem runPrims_stopped (ps : List Prim) (s : IS) (h : s.rs.status ≠ .running) :
    runPrims cfg p ps s = s := by
  induction ps with
  | nil => rfl
  | cons q ps ih => rw [runPrims_cons, applyPrim_stopped q s h, ih]

/-- replace the scheduler dictionaries -/
def IS.setTS (s : IS) (ts : TS) : IS := { s with rs := { s.rs with ts := ts } }

@[simp] theorem IS.setTS_self (s : IS) : s.setTS s.rs.ts = s := rfl
@[simp] theorem IS.setTS_status (s : IS) (ts : TS) : (s.setTS ts).rs.status = s.rs.status := rfl
@[simp] theorem IS.setTS_ts (s : IS) (ts : TS) : (s.setTS ts).rs.ts = ts := rfl
@[simp] theorem IS.setTS_setTS (s : IS) (a b : TS) : (s.setTS a).setTS b = s.setTS b := rfl

/-! ## `complete_task` -/
theorem unblock_refine (t : Tid) : ∀ (ds : List Tid) (s : IS) (pd' : Tid → List Tid),
    s.rs.status = .running → unblock t ds s.rs.ts.pendDeps = some pd' →
    runPrims cfg p (ds.map (Prim.unblockOne t)) s = s.setTS { s.rs.ts with pendDeps := pd' } := by
  intro ds
  induction ds with
  | nil =>
    intro s pd' _ h
    simp only [unblock, Option.some.injEq] at h
    subst h; rfl
  | cons d ds ih =>
    intro s pd' hrun h
    simp only [unblock] at h
    cases hr : setRemove (s.rs.ts.pendDeps d) t with
    | none => simp [hr] at h
    | some l =>
      simp only [hr] at h
      simp only [List.map_cons, runPrims_cons, applyPrim_running _ _ hrun, stepPrim, hr]
      have := ih (s.setTS { s.rs.ts with pendDeps := upd s.rs.ts.pendDeps d l }) pd' hrun h
      simpa [IS.setTS] using this

theorem release_refine (t : Tid) : ∀ (ds : List Tid) (s : IS) (pdt' : Tid → List Tid) (rem : List Tid),
    s.rs.status = .running → release t ds s.rs.ts.pendDependents = some (pdt', rem) →
    runPrims cfg p (ds.map (Prim.releaseOne t)) s = s.setTS { s.rs.ts with pendDependents := pdt' } := by
  intro ds
  induction ds with
  | nil =>
    intro s pdt' rem _ h
    simp only [release, Option.some.injEq, Prod.mk.injEq] at h
    obtain ⟨h, _⟩ := h
    subst h; rfl
  | cons d ds ih =>
    intro s pdt' rem hrun h
    simp only [release] at h
    cases hr : setRemove (s.rs.ts.pendDependents d) t with
    | none => simp [hr] at h
    | some l =>
      simp only [hr] at h
      cases hrel : release t ds (upd s.rs.ts.pendDependents d l) with
      | none => simp [hrel] at h
      | some r =>
        obtain ⟨pdt2, rem2⟩ := r
        simp only [hrel, Option.some.injEq, Prod.mk.injEq] at h
        obtain ⟨h1, _⟩ := h
        subst h1
        simp only [List.map_cons, runPrims_cons, applyPrim_running _ _ hrun, stepPrim, hr]
        have := ih (s.setTS { s.rs.ts with pendDependents := upd s.rs.ts.pendDependents d l }) pdt2 rem2 hrun hrel
        simpa [IS.setTS] using this

theorem complete_refine (s : IS) (ts0 : TS) (t : Tid) (ts' : TS) (rem : List Tid)
    (hrun : s.rs.status = .running) (hts : s.rs.ts = ts0) (h : completeTask ts0 t = some (ts', rem)) :
    runPrims cfg p (completePrims ts0 t) s = s.setTS ts' := by
  subst hts
  simp only [completeTask] at h
  cases ha : setRemove s.rs.ts.active t with
  | none => simp [ha] at h
  | some act =>
    simp only [ha] at h
    cases hu : unblock t (s.rs.ts.pendDependents t) s.rs.ts.pendDeps with
    | none => simp [hu] at h
    | some pd =>
      simp only [hu] at h
      cases hr : release t (s.rs.ts.ddeps t) s.rs.ts.pendDependents with
      | none => simp [hr] at h
      | some r =>
        obtain ⟨pdt, rem'⟩ := r
        simp only [hr, Option.some.injEq, Prod.mk.injEq] at h
        obtain ⟨h1, _⟩ := h
        subst h1
        simp only [completePrims, List.singleton_append, runPrims_cons,
          applyPrim_running _ _ hrun, stepPrim, ha, runPrims_append]
        have e1 := unblock_refine (cfg := cfg) (p := p) t (s.rs.ts.pendDependents t)
          (s.setTS { s.rs.ts with active := act }) pd hrun hu
        simp only [IS.setTS] at e1 ⊢
        rw [e1]
        have e2 := release_refine (cfg := cfg) (p := p) t (s.rs.ts.ddeps t)
          ((s.setTS { s.rs.ts with active := act }).setTS { s.rs.ts with active := act, pendDeps := pd })
          pdt rem' hrun hr
        simp only [IS.setTS] at e2 ⊢
        rw [e2]

end Lt
