import LabtechModel.Props.C07
import LabtechModel.Proofs.StoreLaws
/-!
# Link params model ↔ history model: `KeyInj` from C07

The history model (`Model/Store.lean`) keys its disk by a *structured* key
`{cls : CacheKind, ty : Nat, h : Nat}`: cache class, a number standing for the task type, a number
standing for the sha1 digest of the serialised task; `KeyInj U` (distinct tasks, distinct keys) is a
hypothesis of C06 / C08.  The params model (`Model/Params.lean`) has the real thing: the parameter
tree `Params.Task` of a task and `cacheKey = prefix ++ qualname ++ "__" ++ sha1 (dumps (serTask t))`.

* `Represents U sha1 task`: the universe's type numbers and hash numbers *stand for* the class
  strings and the sha1 digests of the parameter trees `task t` (`t < U.n`): equal numbers, equal
  strings.  Tids outside `0 … n-1` are not tasks of the universe; they carry private dummy hash
  numbers.  `paramsUniverse` builds such a universe from any family of parameter trees with a proved
  injective numbering of strings (`strCode`), `paramsUniverse_represents`.
* `storeKey_eq_realKey_eq`: equal structured keys ⇒ equal real key strings (for every non-null cache
  format): the structured key is a sound abstraction of `BaseCache.cache_key`.
* `keyInj_of_params`: for well-formed (`wfTask`, i.e. `wfValue` at every depth: module-level classes,
  no dict spelling out a task/enum — F07's input class stays excluded), pairwise distinct parameter
  trees, under the two named assumptions `ShaInjOn` (sha1 collision-free on the pre-images that
  occur) and `DumpsInjOn` (`json.dumps` separates the serialised documents that occur), `KeyInj U`.
  `keyInj_of_params_via_cacheKey` is the same conclusion obtained literally through the real key
  string and `C07.cacheKey_injective_partial` (it needs in addition that a digest has 40 characters).
-/
namespace Lt.Link
open Lt.Params (Task cacheKeyPre serTask dumps wfTask cacheKey CacheFmt ClassRef)

/-! ## an injective numbering of strings -/

def charsCode : List Char → Nat
  | [] => 0
  | c :: cs => (c.toNat + 1) + 1114113 * charsCode cs

/-- base-1114113 numeral of the code points (+1): an injective map `String → Nat` -/
def strCode (s : String) : Nat := charsCode s.toList

theorem char_toNat_lt (c : Char) : c.toNat < 1114112 := by
  have := c.valid
  simp only [UInt32.isValidChar, Nat.isValidChar] at this
  show c.val.toNat < 1114112
  omega

theorem charsCode_inj : ∀ (a b : List Char), charsCode a = charsCode b → a = b
  | [], [], _ => rfl
  | [], c :: cs, h => by simp only [charsCode] at h; omega
  | c :: cs, [], h => by simp only [charsCode] at h; omega
  | c :: cs, c' :: cs', h => by
    simp only [charsCode] at h
    have h1 := char_toNat_lt c
    have h2 := char_toNat_lt c'
    have hc : c.toNat = c'.toNat := by omega
    have hr : charsCode cs = charsCode cs' := by omega
    have hcc : c = c' := by rw [← Char.ofNat_toNat c, ← Char.ofNat_toNat c', hc]
    rw [hcc, charsCode_inj cs cs' hr]

theorem strCode_inj (a b : String) (h : strCode a = strCode b) : a = b :=
  String.toList_inj.mp (charsCode_inj _ _ h)

/-! ## the named assumptions (C07's `hsha` / `hdumps`, over a family of tasks) -/

/-- SHA-1 does not collide on the pre-images `dumps (serTask (task t))`, `t < n`, that occur -/
def ShaInjOn (sha1 : String → String) (n : Nat) (task : Nat → Task) : Prop :=
  ∀ t t', t < n → t' < n → sha1 (cacheKeyPre (task t)) = sha1 (cacheKeyPre (task t')) →
    cacheKeyPre (task t) = cacheKeyPre (task t')

/-- `json.dumps` separates the serialised documents of the tasks that occur (trusted in C07; the
    harness of C07 checks `json.loads(pre-image)` type-exactly against the real document) -/
def DumpsInjOn (n : Nat) (task : Nat → Task) : Prop :=
  ∀ t t', t < n → t' < n → dumps (serTask (task t)) = dumps (serTask (task t')) → serTask (task t) = serTask (task t')

/-- every task of the family is well-formed (`wfValue` at every depth) -/
def WfTasks (n : Nat) (task : Nat → Task) : Prop := ∀ t, t < n → wfTask (task t) = true

/-- tids name distinct tasks (a tid is an equality class of task objects) -/
def Distinct (n : Nat) (task : Nat → Task) : Prop := ∀ t t', t < n → t' < n → task t = task t' → t = t'

/-- the universe's type and hash numbers stand for class strings and sha1 digests of `task t` -/
structure Represents (U : Store.Universe) (sha1 : String → String) (task : Nat → Task) : Prop where
  ty_cls : ∀ t t', t < U.n → t' < U.n → U.ty t = U.ty t' → (task t).cls.ser = (task t').cls.ser
  hash_sha : ∀ t t', t < U.n → t' < U.n → U.hash t = U.hash t' →
    sha1 (cacheKeyPre (task t)) = sha1 (cacheKeyPre (task t'))
  outside : ∀ t t', ¬ t < U.n → U.hash t = U.hash t' → t = t'

theorem wfTask_dotFree (t : Task) (h : wfTask t = true) : Lt.Params.dotFree t.cls.qualname = true := by
  cases t with
  | mk c fs =>
    simp only [wfTask, Bool.and_eq_true] at h
    exact h.1.1

/-- equal structured keys of two tasks of the universe ⇒ equal real `cache_key` strings -/
theorem storeKey_eq_realKey_eq (U : Store.Universe) (sha1 : String → String) (task : Nat → Task)
    (hrep : Represents U sha1 task) (hwf : WfTasks U.n task) (fmt : CacheFmt)
    (t t' : Nat) (ht : t < U.n) (ht' : t' < U.n) (h : Store.keyOf U t = Store.keyOf U t') :
    cacheKey sha1 fmt (task t) = cacheKey sha1 fmt (task t') := by
  simp only [Store.keyOf, Store.Key.mk.injEq] at h
  have hcls : (task t).cls = (task t').cls :=
    Lt.Params.C07.classRef_injective _ _ (wfTask_dotFree _ (hwf t ht)) (wfTask_dotFree _ (hwf t' ht'))
      (hrep.ty_cls t t' ht ht' h.2.1)
  have hs := hrep.hash_sha t t' ht ht' h.2.2
  simp [cacheKey, hcls, hs]

/-- **C07 ⇒ `KeyInj`** -/
theorem keyInj_of_params (U : Store.Universe) (sha1 : String → String) (task : Nat → Task)
    (hrep : Represents U sha1 task) (hwf : WfTasks U.n task) (hdist : Distinct U.n task)
    (hsha : ShaInjOn sha1 U.n task) (hdumps : DumpsInjOn U.n task) : Store.KeyInj U := by
  intro t t' h
  have hh : U.hash t = U.hash t' := by
    simp only [Store.keyOf, Store.Key.mk.injEq] at h; exact h.2.2
  by_cases ht : t < U.n
  · by_cases ht' : t' < U.n
    · have h1 := hsha t t' ht ht' (hrep.hash_sha t t' ht ht' hh)
      have h2 := hdumps t t' ht ht' h1
      exact hdist t t' ht ht'
        (Lt.Params.C07.serTask_injective_partial _ _ (hwf t ht) (hwf t' ht') h2)
    · exact (hrep.outside t' t ht' hh.symm).symm
  · exact hrep.outside t t' ht hh

/-- the same, literally through the real key string and `cacheKey_injective_partial` -/
theorem keyInj_of_params_via_cacheKey (U : Store.Universe) (sha1 : String → String)
    (hlen : ∀ x, (sha1 x).toList.length = 40) (task : Nat → Task)
    (hrep : Represents U sha1 task) (hwf : WfTasks U.n task) (hdist : Distinct U.n task)
    (hsha : ShaInjOn sha1 U.n task) (hdumps : DumpsInjOn U.n task) : Store.KeyInj U := by
  intro t t' h
  have hh : U.hash t = U.hash t' := by
    simp only [Store.keyOf, Store.Key.mk.injEq] at h; exact h.2.2
  by_cases ht : t < U.n
  · by_cases ht' : t' < U.n
    · have hk := storeKey_eq_realKey_eq U sha1 task hrep hwf ⟨"PickleCache", "pickle__", false⟩ t t' ht ht' h
      exact hdist t t' ht ht'
        (Lt.Params.C07.cacheKey_injective_partial sha1 hlen _ rfl _ _ (hwf t ht) (hwf t' ht')
          (hsha t t' ht ht') (hdumps t t' ht ht') hk)
    · exact (hrep.outside t' t ht' hh.symm).symm
  · exact hrep.outside t t' ht hh

/-! ## a universe built from parameter trees -/

/-- `base` with its type and hash numbers replaced by the numbers of the class strings / sha1
    digests of the parameter trees `task t`; tids that are not tasks get odd private numbers -/
def paramsUniverse (base : Store.Universe) (sha1 : String → String) (task : Nat → Task) : Store.Universe :=
  { base with
    ty := fun t => strCode (task t).cls.ser
    hash := fun t => if t < base.n then 2 * strCode (sha1 (cacheKeyPre (task t))) else 2 * t + 1 }

theorem paramsUniverse_represents (base : Store.Universe) (sha1 : String → String) (task : Nat → Task) :
    Represents (paramsUniverse base sha1 task) sha1 task where
  ty_cls := fun t t' _ _ h => strCode_inj _ _ h
  hash_sha := by
    intro t t' ht ht' h
    have ht0 : t < base.n := ht
    have ht0' : t' < base.n := ht'
    simp only [paramsUniverse, ht0, ht0', if_true] at h
    exact strCode_inj _ _ (by omega)
  outside := by
    intro t t' ht h
    have ht0 : ¬ t < base.n := ht
    simp only [paramsUniverse, ht0, if_false] at h
    split at h <;> omega

end Lt.Link
