import LabtechModel.Proofs.InvLoop
/-!
# Liveness: the submit phase exhausts the ready tasks, no deadlock, termination under fair schedules
-/
namespace Lt

/-- a task of the walked list that `get_ready_tasks` does not return is blocked by a pending
    dependency or by its type's limit (same statement as `Props.C05.not_ready_means_blocked`) -/
theorem readyAux_blocked (p : Problem) (s : TS) :
    ∀ (l : List Tid) (c : Nat → Nat) (t : Tid), t ∈ l → t ∉ readyAux p s l c →
      s.pendDeps t ≠ [] ∨ ∃ L, p.maxPar (p.ty t) = some L ∧
        L ≤ c (p.ty t) + typeCount p (readyAux p s l c) (p.ty t) := by
  intro l
  induction l with
  | nil => intro c t h; simp at h
  | cons x rest ih =>
    intro c t hmem hnot
    simp only [readyAux] at hnot ⊢
    by_cases hpd : (s.pendDeps x).length > 0
    · simp only [hpd, if_true] at hnot ⊢
      rcases List.mem_cons.mp hmem with h1 | h1
      · subst h1; left; intro h0; simp [h0] at hpd
      · exact ih c t h1 hnot
    · simp only [hpd, if_false] at hnot ⊢
      cases hm : p.maxPar (p.ty x) with
      | none =>
        simp only [hm] at hnot ⊢
        rcases List.mem_cons.mp hmem with h1 | h1
        · subst h1; simp at hnot
        · have hnot' : t ∉ readyAux p s rest (bump c (p.ty x)) := fun h => hnot (List.mem_cons_of_mem _ h)
          rcases ih _ t h1 hnot' with h2 | ⟨L, hL, hle⟩
          · left; exact h2
          · right; refine ⟨L, hL, ?_⟩
            simp only [typeCount, List.filter_cons, bump] at hle ⊢
            split at hle <;> split <;> simp_all <;> omega
      | some Lx =>
        simp only [hm] at hnot ⊢
        by_cases hc : c (p.ty x) ≥ Lx
        · simp only [hc, if_true] at hnot ⊢
          rcases List.mem_cons.mp hmem with h1 | h1
          · subst h1; right; exact ⟨Lx, hm, by omega⟩
          · exact ih c t h1 hnot
        · simp only [hc, if_false] at hnot ⊢
          rcases List.mem_cons.mp hmem with h1 | h1
          · subst h1; simp at hnot
          · have hnot' : t ∉ readyAux p s rest (bump c (p.ty x)) := fun h => hnot (List.mem_cons_of_mem _ h)
            rcases ih _ t h1 hnot' with h2 | ⟨L, hL, hle⟩
            · left; exact h2
            · right; refine ⟨L, hL, ?_⟩
              simp only [typeCount, List.filter_cons, bump] at hle ⊢
              split at hle <;> split <;> simp_all <;> omega

/-- `get_ready_tasks` reads the scheduler state only through the pending-dependency sets -/
theorem readyAux_congr (p : Problem) (s s' : TS) (h : s.pendDeps = s'.pendDeps) :
    ∀ (l : List Tid) (c : Nat → Nat), readyAux p s l c = readyAux p s' l c := by
  intro l
  induction l with
  | nil => intro c; rfl
  | cons x rest ih =>
    intro c
    simp only [readyAux, h, ih]

theorem readyAux_nil (p : Problem) (s : TS) :
    ∀ (l : List Tid) (cnt : Nat → Nat),
      (∀ t ∈ l, s.pendDeps t ≠ [] ∨ ∃ L, p.maxPar (p.ty t) = some L ∧ L ≤ cnt (p.ty t)) →
      readyAux p s l cnt = [] := by
  intro l
  induction l with
  | nil => intro cnt _; rfl
  | cons x rest ih =>
    intro cnt h
    have hrest := ih cnt (fun t ht => h t (List.mem_cons_of_mem _ ht))
    simp only [readyAux]
    rcases h x List.mem_cons_self with h1 | ⟨L, hL, hle⟩
    · have : (s.pendDeps x).length > 0 := by
        cases hp : s.pendDeps x with
        | nil => exact absurd hp h1
        | cons a b => simp
      simp only [this, if_true]
      exact hrest
    · split
      · exact hrest
      · simp only [hL]
        have : cnt (p.ty x) ≥ L := hle
        simp only [this, if_true]
        exact hrest

theorem exhaust_aux (p : Problem) (s : TS) (R : List Tid)
    (hR : R = readyAux p s s.pending (typeCount p s.active)) :
    readyTasks p { s with pending := s.pending.filter (· ∉ R), active := s.active ++ R } = [] := by
  simp only [readyTasks]
  rw [readyAux_congr p { s with pending := s.pending.filter (· ∉ R), active := s.active ++ R } s rfl]
  apply readyAux_nil
  intro t ht
  simp only [List.mem_filter, decide_eq_true_eq] at ht
  have hnot : t ∉ readyAux p s s.pending (typeCount p s.active) := hR ▸ ht.2
  rcases readyAux_blocked p s s.pending (typeCount p s.active) t ht.1 hnot with h1 | ⟨L, hL, hle⟩
  · exact Or.inl h1
  · exact Or.inr ⟨L, hL, by rw [typeCount_append, hR]; exact hle⟩

/-- C05: after the submit phase `get_ready_tasks` has nothing left to offer -/
theorem submit_exhausts (cfg : Config) (p : Problem) (rs : RS) (h : rs.ts.pending.Nodup) :
    readyTasks p (submitAll cfg p (readyTasks p rs.ts) rs).ts = [] := by
  have hnd : (readyTasks p rs.ts).Nodup := (readyAux_sublist p rs.ts rs.ts.pending _).nodup h
  have hts := (submitAll_all cfg p (readyTasks p rs.ts) rs hnd
    (fun t ht => (readyTasks_no_pending_deps p rs.ts t ht).2)).1
  rw [hts]
  exact exhaust_aux p rs.ts _ rfl

/-- C11 core: when nothing is ready although work is pending, something is in flight -/
theorem pending_has_future {cfg : Config} {p : Problem} {P : TS} (hCl : PlanClosed P)
    (hLt : ∀ t d, d ∈ P.ddeps t → d < t) (hLim : LimitsPos cfg p) {rs : RS} (hc : Core p P rs)
    (hex : readyTasks p rs.ts = []) (hpend : rs.ts.pending ≠ []) : rs.futs ≠ [] := by
  intro hf
  have hact : rs.ts.active = [] := by
    apply List.eq_nil_iff_forall_not_mem.mpr
    intro x hx
    have := (hc.futsAct x).mpr hx
    rw [hf] at this
    simp at this
  have claim : ∀ n t, t < n → t ∉ rs.ts.pending := by
    intro n
    induction n with
    | zero => intro t h; exact absurd h (Nat.not_lt_zero t)
    | succ n ih =>
      intro t hlt hmem
      have hnot : t ∉ readyAux p rs.ts rs.ts.pending (typeCount p rs.ts.active) := by
        have := hex; simp only [readyTasks] at this; rw [this]; simp
      rcases readyAux_blocked p rs.ts rs.ts.pending (typeCount p rs.ts.active) t hmem hnot with h1 | ⟨L, hL, hle⟩
      · obtain ⟨d, hd⟩ := List.exists_mem_of_ne_nil _ h1
        rw [hc.ts.mem_pd] at hd
        have htP : t ∈ P.pending := (hc.ts.cover t).mpr (Or.inl hmem)
        have hdP : d ∈ P.pending := hCl t htP d hd.1
        have hdlt : d < t := hLt t d hd.1
        rcases (hc.ts.cover d).mp hdP with h | h | h
        · exact ih d (Nat.lt_of_lt_of_le hdlt (Nat.le_of_lt_succ hlt)) h
        · rw [hact] at h; simp at h
        · exact hd.2 h
      · have h0 := hLim.2 _ _ hL
        have hex' := hex
        simp only [readyTasks] at hex'
        rw [hex', hact] at hle
        simp [typeCount] at hle
        omega
  obtain ⟨t, ht⟩ := List.exists_mem_of_ne_nil _ hpend
  exact claim (t + 1) t (Nat.lt_succ_self t) ht

/-! ## no idle worker slot while a future is queued (process runners) -/
def NoIdle (cfg : Config) (rs : RS) : Prop := rs.queued = [] ∨ rs.running.length = cfg.maxWorkers

theorem submitAll_noIdle (cfg : Config) (p : Problem) (hb : cfg.backend ≠ .serial) :
    ∀ (l : List Tid) (rs : RS), WorkersOK cfg rs → NoIdle cfg rs → NoIdle cfg (submitAll cfg p l rs) := by
  intro l
  induction l with
  | nil => intro rs _ h; exact h
  | cons t ts ih =>
    intro rs hw hn
    simp only [submitAll]
    split
    · exact hn
    · next s' _ =>
      apply ih
      · exact submitTask_workers cfg p _ t hw
      · simp only [submitTask, hb, if_false]
        exact startProcesses_no_idle cfg _ hw

theorem waitProcess_noIdle (cfg : Config) (p : Problem) (req : List Tid) (c : Choice) (rs : RS)
    (h : WorkersOK cfg rs) : NoIdle cfg (waitProcess cfg p req c rs) := by
  simp only [waitProcess, NoIdle]
  rw [processYields_queued, processYields_running]
  apply startProcesses_no_idle
  simp only [List.length_map]
  have := filter_enum_length_le rs.running (fun ij => !c.finish ij.1) 0
  unfold WorkersOK at h
  omega

theorem iteration_noIdle (cfg : Config) (p : Problem) (req : List Tid) (c : Choice) (rs : RS)
    (hb : cfg.backend ≠ .serial) (hw : WorkersOK cfg rs) (hn : NoIdle cfg rs) :
    NoIdle cfg (iteration cfg p req c rs) := by
  simp only [iteration]
  have hw' := submitAll_workers cfg p (readyTasks p rs.ts) rs hw
  split
  · simp only [hb, if_false]
    exact waitProcess_noIdle cfg p req c _ hw'
  · exact submitAll_noIdle cfg p hb _ rs hw hn

/-- process runners: a tracked future means a running worker -/
theorem futs_running {cfg : Config} {p : Problem} {P : TS} (hLim : LimitsPos cfg p) {rs : RS}
    (he : Exec cfg P [] rs) (hn : NoIdle cfg rs) (hf : rs.futs ≠ []) : rs.running ≠ [] := by
  intro hr
  have hperm := he.perm
  simp only [List.append_nil, hr] at hperm
  rcases hn with hq | hl
  · rw [hq] at hperm
    simp only [List.map_nil] at hperm
    exact hf hperm.symm.eq_nil
  · rw [hr] at hl
    have := hLim.1
    simp only [List.length_nil] at hl
    omega

/-! ## every handled outcome is recorded as a yield -/
theorem processYield_yielded (cfg : Config) (req : List Tid) (rs : RS) (t : Tid) (o : Outcome) :
    yielded (processYield cfg req rs t o) = yielded rs ++ [t] := by
  cases o <;> simp only [processYield] <;> split <;> (try split) <;>
    simp [yielded, yieldedOf, evYield]

theorem processYields_yielded_le (cfg : Config) (req : List Tid) :
    ∀ (ys : List (Tid × Outcome)) (rs : RS),
      (yielded rs).length ≤ (yielded (processYields cfg req ys rs)).length := by
  intro ys
  induction ys with
  | nil => intro rs; exact Nat.le_refl _
  | cons y rest ih =>
    intro rs
    obtain ⟨t, o⟩ := y
    simp only [processYields]
    split
    · refine Nat.le_trans ?_ (ih _)
      rw [processYield_yielded]
      show (yielded rs).length ≤ (yielded rs ++ [t]).length
      simp
    · exact Nat.le_refl _

theorem processYields_yielded_lt (cfg : Config) (req : List Tid) (ys : List (Tid × Outcome)) (rs : RS)
    (hys : ys ≠ []) (hrun : rs.status = .running) :
    (yielded rs).length < (yielded (processYields cfg req ys rs)).length := by
  cases ys with
  | nil => exact absurd rfl hys
  | cons y rest =>
    obtain ⟨t, o⟩ := y
    simp only [processYields, hrun]
    refine Nat.lt_of_lt_of_le ?_ (processYields_yielded_le cfg req rest _)
    rw [processYield_yielded]
    show (yielded rs).length < (yielded rs ++ [t]).length
    simp

theorem submitTask_yielded (cfg : Config) (p : Problem) (rs : RS) (t : Tid) :
    yielded (submitTask cfg p rs t) = yielded rs := by
  simp only [submitTask]
  split
  · simp [yielded, yieldedOf, evYield]
  · rw [startProcesses_yielded]
    simp [yielded, yieldedOf, evYield]

theorem submitAll_yielded (cfg : Config) (p : Problem) :
    ∀ (l : List Tid) (rs : RS), yielded (submitAll cfg p l rs) = yielded rs := by
  intro l
  induction l with
  | nil => intro rs; rfl
  | cons t ts ih =>
    intro rs
    simp only [submitAll]
    split
    · rfl
    · rw [ih, submitTask_yielded]; rfl

theorem waitSerial_yielded (cfg : Config) (p : Problem) (req : List Tid) (rs : RS) (h : rs.queued ≠ []) :
    (yielded (waitSerial cfg p req rs)).length = (yielded rs).length + 1 := by
  simp only [waitSerial]
  split
  · next hq => exact absurd hq h
  · next j rest hq =>
    rw [processYield_yielded]
    simp only [List.length_append, List.length_singleton, Nat.add_right_cancel_iff]
    congr 1
    have hq : Quiet ([Ev.waitEnter (rs.queued.map Job.tid) [], Ev.start j.tid] ++
        runEvents p rs.ts { j with snap := some rs.results }) := by
      intro e he'
      simp only [List.mem_append, List.mem_cons, List.not_mem_nil, or_false] at he'
      rcases he' with (h | h) | h
      · subst h; exact ⟨rfl, rfl⟩
      · subst h; exact ⟨rfl, rfl⟩
      · rcases runEvents_cases _ _ _ _ h with h' | h' <;> subst h' <;> exact ⟨rfl, rfl⟩
    have := yieldedOf_append_quiet rs.trace _ hq
    simp only [yielded]
    rw [← this]
    simp

/-! ## progress and termination -/
/-- what the termination argument carries along a run -/
structure Live (cfg : Config) (p : Problem) (P : TS) (rs : RS) : Prop where
  reach : Reach cfg p P rs
  workers : WorkersOK cfg rs
  noIdle : cfg.backend ≠ .serial → NoIdle cfg rs

theorem iteration_live {cfg : Config} {p : Problem} {P : TS} (req : List Tid) (hP : PI P) (c : Choice)
    {rs : RS} (h : Live cfg p P rs) (hrun : rs.status = .running) :
    Live cfg p P (iteration cfg p req c rs) where
  reach := iteration_reach req hP c h.reach hrun
  workers := iteration_workers cfg p req c rs h.workers
  noIdle := fun hb => iteration_noIdle cfg p req c rs hb h.workers (h.noIdle hb)

theorem initRS_live (cfg : Config) (p : Problem) (store : Store) (fuel : Nat) :
    Live cfg p (plan cfg p store fuel) (initRS cfg p store fuel) where
  reach := initRS_reach cfg p store fuel
  workers := by simp [WorkersOK, initRS]
  noIdle := fun _ => Or.inl rfl

theorem runLoop_live {cfg : Config} {p : Problem} {P : TS} (req : List Tid) (hP : PI P) :
    ∀ (sched : List Choice) (rs : RS), Live cfg p P rs → Live cfg p P (runLoop cfg p req sched rs) := by
  intro sched
  induction sched with
  | nil => intro rs h; exact h
  | cons c cs ih =>
    intro rs h
    simp only [runLoop]
    split
    · next hrun =>
      split
      · exact ih _ (iteration_live req hP c h hrun)
      · exact h
    · exact h

/-- after the submit phase of a running state with work left, something is in flight, and for
    process runners a worker is running -/
theorem submit_then_inflight {cfg : Config} {p : Problem} {P : TS} (hP : PI P) (hCl : PlanClosed P)
    (hLt : ∀ t d, d ∈ P.ddeps t → d < t) (hLim : LimitsPos cfg p) {rs : RS} (h : Live cfg p P rs)
    (hrun : rs.status = .running) (hlc : loopCond rs = true) :
    (submitAll cfg p (readyTasks p rs.ts) rs).futs ≠ [] ∧
    (cfg.backend ≠ .serial → (submitAll cfg p (readyTasks p rs.ts) rs).running ≠ []) := by
  obtain ⟨hc, he, hst⟩ := submitPhase_reach hP h.reach hrun
  have hcr := h.reach.1
  have hnd : (readyTasks p rs.ts).Nodup := (readyAux_sublist p rs.ts rs.ts.pending _).nodup hcr.ts.ndP
  have hts := (submitAll_all cfg p (readyTasks p rs.ts) rs hnd
    (fun t ht => (readyTasks_no_pending_deps p rs.ts t ht).2)).1
  have hfuts : (submitAll cfg p (readyTasks p rs.ts) rs).futs ≠ [] := by
    by_cases hpe : (submitAll cfg p (readyTasks p rs.ts) rs).ts.pending = []
    · -- everything pending was started, or something was already in flight
      have hx : ∃ x, x ∈ (submitAll cfg p (readyTasks p rs.ts) rs).ts.active := by
        simp only [loopCond, Bool.or_eq_true, Bool.not_eq_eq_eq_not, Bool.not_true,
          List.isEmpty_eq_false_iff] at hlc
        rw [hts] at hpe ⊢
        simp only at hpe ⊢
        rcases hlc with h1 | h1
        · obtain ⟨x, hx⟩ := List.exists_mem_of_ne_nil _ h1
          have : x ∈ readyTasks p rs.ts := by
            apply Classical.byContradiction
            intro hnot
            have : x ∈ rs.ts.pending.filter (· ∉ readyTasks p rs.ts) := by
              simp only [List.mem_filter, decide_eq_true_eq]; exact ⟨hx, hnot⟩
            rw [hpe] at this
            simp at this
          exact ⟨x, List.mem_append_right _ this⟩
        · obtain ⟨x, hx⟩ := List.exists_mem_of_ne_nil _ h1
          exact ⟨x, List.mem_append_left _ ((hcr.futsAct x).mp hx)⟩
      obtain ⟨x, hx⟩ := hx
      intro hnil
      have := (hc.futsAct x).mpr hx
      rw [hnil] at this
      simp at this
    · exact pending_has_future hCl hLt hLim hc (submit_exhausts cfg p rs hcr.ts.ndP) hpe
  refine ⟨hfuts, fun hb => ?_⟩
  exact futs_running hLim he
    (submitAll_noIdle cfg p hb _ rs h.workers (h.noIdle hb)) hfuts

theorem enum_fin_ne_nil {α} (l : List α) (f : Nat → Bool) (hl : l ≠ []) (hf : f 0 = true) :
    ((enumFrom 0 l).filter (fun ij => f ij.1)).map (·.2) ≠ [] := by
  cases l with
  | nil => exact absurd rfl hl
  | cons a b => simp [enumFrom, hf]

/-- every fair iteration from a running state with work left delivers at least one outcome -/
theorem iteration_progress {cfg : Config} {p : Problem} {P : TS} (req : List Tid) (hP : PI P)
    (hCl : PlanClosed P) (hLt : ∀ t d, d ∈ P.ddeps t → d < t) (hLim : LimitsPos cfg p) (c : Choice)
    (hfair : c.finish 0 = true) {rs : RS} (h : Live cfg p P rs)
    (hrun : rs.status = .running) (hlc : loopCond rs = true) :
    (yielded rs).length < (yielded (iteration cfg p req c rs)).length := by
  obtain ⟨hc, he, hst⟩ := submitPhase_reach hP h.reach hrun
  obtain ⟨hfuts, hrunning⟩ := submit_then_inflight hP hCl hLt hLim h hrun hlc
  have hy := submitAll_yielded cfg p (readyTasks p rs.ts) rs
  simp only [iteration, hst]
  split
  · next hb =>
    have hq : (submitAll cfg p (readyTasks p rs.ts) rs).queued ≠ [] := by
      intro hq
      have hperm := he.perm
      rw [hq, he.serialRun hb] at hperm
      exact hfuts hperm.symm.eq_nil
    rw [waitSerial_yielded cfg p req _ hq, hy]
    exact Nat.lt_succ_self _
  · next hb =>
    obtain ⟨rsB, ys, hwp, _, _, hyB, hstB, hperm⟩ := waitProcess_decomp req c hP hb hc he
    rw [hwp, ← hy, ← hyB]
    apply processYields_yielded_lt
    · intro hys
      rw [hys] at hperm
      have := hperm.symm.eq_nil
      simp only [List.map_eq_nil_iff] at this
      exact enum_fin_ne_nil _ c.finish (hrunning hb) hfair this
    · rw [hstB]; exact hst

/-- C11: with enough fair choices the loop ends -/
theorem runLoop_terminates {cfg : Config} {p : Problem} {P : TS} (req : List Tid) (hP : PI P)
    (hCl : PlanClosed P) (hLt : ∀ t d, d ∈ P.ddeps t → d < t) (hLim : LimitsPos cfg p) :
    ∀ (sched : List Choice) (rs : RS), Fair sched → Live cfg p P rs →
      P.pending.length < sched.length + (yielded rs).length →
      (runLoop cfg p req sched rs).status ≠ .running ∨ loopCond (runLoop cfg p req sched rs) = false := by
  intro sched
  induction sched with
  | nil =>
    intro rs _ h hlen
    exfalso
    have hsub : ∀ a ∈ yielded rs, a ∈ P.pending :=
      fun a ha => (h.reach.1.ts.cover a).mpr (Or.inr (Or.inr ha))
    have := nodup_subset_length_le _ _ h.reach.1.ts.ndY hsub
    simp only [List.length_nil, Nat.zero_add] at hlen
    omega
  | cons c cs ih =>
    intro rs hfair h hlen
    simp only [runLoop]
    split
    · next hrun =>
      split
      · next hlc =>
        apply ih _ (fun c' hc' => hfair c' (List.mem_cons_of_mem _ hc')) (iteration_live req hP c h hrun)
        have := iteration_progress req hP hCl hLt hLim c (hfair c List.mem_cons_self) h hrun hlc
        simp only [List.length_cons] at hlen
        omega
      · next hlc => right; simpa using hlc
    · next hnr => left; intro h'; exact hnr h'

end Lt
