import LabtechModel.Proofs.Limit2
namespace Lt

theorem takeN_length_le {α} : ∀ (n : Nat) (l : List α), (takeN n l).1.length ≤ n := by
  intro n
  induction n with
  | zero => intro l; simp [takeN]
  | succ n ih =>
    intro l
    cases l with
    | nil => simp [takeN]
    | cons x xs =>
      have := ih xs
      simp only [takeN, List.length_cons]
      omega

theorem takeN_length_add {α} : ∀ (n : Nat) (l : List α),
    (takeN n l).1.length + (takeN n l).2.length = l.length := by
  intro n
  induction n with
  | zero => intro l; simp [takeN]
  | succ n ih =>
    intro l
    cases l with
    | nil => simp [takeN]
    | cons x xs =>
      have := ih xs
      simp only [takeN, List.length_cons]
      omega

theorem takeN_length_min {α} : ∀ (n : Nat) (l : List α), (takeN n l).1.length = min n l.length := by
  intro n
  induction n with
  | zero => intro l; simp [takeN]
  | succ n ih =>
    intro l
    cases l with
    | nil => simp [takeN]
    | cons x xs =>
      have := ih xs
      simp only [takeN, List.length_cons]
      omega

def WorkersOK (cfg : Config) (rs : RS) : Prop := rs.running.length ≤ cfg.maxWorkers

theorem startProcesses_running_length (cfg : Config) (rs : RS) :
    (startProcesses cfg rs).running.length
      = rs.running.length + min (cfg.maxWorkers - rs.running.length) rs.queued.length := by
  simp [startProcesses, takeN_length_min]

theorem startProcesses_workers (cfg : Config) (rs : RS) (h : WorkersOK cfg rs) :
    WorkersOK cfg (startProcesses cfg rs) := by
  unfold WorkersOK at *
  rw [startProcesses_running_length]
  omega

theorem submitTask_workers (cfg : Config) (p : Problem) (rs : RS) (t : Tid) (h : WorkersOK cfg rs) :
    WorkersOK cfg (submitTask cfg p rs t) := by
  simp only [submitTask]
  split
  · exact h
  · apply startProcesses_workers; exact h

theorem submitAll_workers (cfg : Config) (p : Problem) :
    ∀ (l : List Tid) (rs : RS), WorkersOK cfg rs → WorkersOK cfg (submitAll cfg p l rs) := by
  intro l
  induction l with
  | nil => intro rs h; simpa [submitAll] using h
  | cons t ts ih =>
    intro rs h
    simp only [submitAll]
    split
    · exact h
    · apply ih; apply submitTask_workers; exact h

theorem processYield_running (cfg : Config) (req : List Tid) (rs : RS) (t : Tid) (o : Outcome) :
    (processYield cfg req rs t o).running = rs.running := by
  simp only [processYield]
  cases o <;> (simp only; split <;> rfl)

theorem processYield_queued (cfg : Config) (req : List Tid) (rs : RS) (t : Tid) (o : Outcome) :
    (processYield cfg req rs t o).queued = rs.queued := by
  simp only [processYield]
  cases o <;> (simp only; split <;> rfl)

theorem processYields_running (cfg : Config) (req : List Tid) :
    ∀ (ys : List (Tid × Outcome)) (rs : RS), (processYields cfg req ys rs).running = rs.running := by
  intro ys
  induction ys with
  | nil => intro rs; rfl
  | cons y ys ih =>
    intro rs
    obtain ⟨t, o⟩ := y
    simp only [processYields]
    split
    · rw [ih, processYield_running]
    · rfl

theorem processYields_queued (cfg : Config) (req : List Tid) :
    ∀ (ys : List (Tid × Outcome)) (rs : RS), (processYields cfg req ys rs).queued = rs.queued := by
  intro ys
  induction ys with
  | nil => intro rs; rfl
  | cons y ys ih =>
    intro rs
    obtain ⟨t, o⟩ := y
    simp only [processYields]
    split
    · rw [ih, processYield_queued]
    · rfl

theorem filter_enum_length_le {α} (l : List α) (q : Nat × α → Bool) (n : Nat) :
    ((enumFrom n l).filter q).length ≤ l.length := by
  induction l generalizing n with
  | nil => simp [enumFrom]
  | cons x xs ih =>
    have := ih (n + 1)
    simp only [enumFrom, List.filter_cons, List.length_cons]
    split <;> simp <;> omega

theorem waitProcess_workers (cfg : Config) (p : Problem) (req : List Tid) (c : Choice) (rs : RS)
    (h : WorkersOK cfg rs) : WorkersOK cfg (waitProcess cfg p req c rs) := by
  unfold WorkersOK at *
  simp only [waitProcess]
  rw [processYields_running]
  apply startProcesses_workers
  unfold WorkersOK
  simp only [List.length_map]
  have := filter_enum_length_le rs.running (fun ij => !c.finish ij.1) 0
  omega

theorem waitSerial_running (cfg : Config) (p : Problem) (req : List Tid) (rs : RS) :
    (waitSerial cfg p req rs).running = rs.running := by
  simp only [waitSerial]
  split
  · rfl
  · rw [processYield_running]

theorem iteration_workers (cfg : Config) (p : Problem) (req : List Tid) (c : Choice) (rs : RS)
    (h : WorkersOK cfg rs) : WorkersOK cfg (iteration cfg p req c rs) := by
  simp only [iteration]
  have h' := submitAll_workers cfg p (readyTasks p rs.ts) rs h
  split
  · split
    · unfold WorkersOK at *; rw [waitSerial_running]; exact h'
    · exact waitProcess_workers cfg p req c _ h'
  · exact h'

theorem runLoop_workers (cfg : Config) (p : Problem) (req : List Tid) (sched : List Choice) (rs : RS)
    (h : WorkersOK cfg rs) : WorkersOK cfg (runLoop cfg p req sched rs) :=
  runLoop_inv cfg p req (WorkersOK cfg) (fun c rs h => iteration_workers cfg p req c rs h) sched rs h

/-! the serial runner never has a worker process: it executes in the caller -/
theorem submitAll_serial_running (cfg : Config) (p : Problem) (hs : cfg.backend = .serial) :
    ∀ (l : List Tid) (rs : RS), (submitAll cfg p l rs).running = rs.running := by
  intro l
  induction l with
  | nil => intro rs; rfl
  | cons t ts ih =>
    intro rs
    simp only [submitAll]
    split
    · rfl
    · rw [ih]; simp [submitTask, hs]

theorem iteration_serial_running (cfg : Config) (p : Problem) (req : List Tid) (c : Choice) (rs : RS)
    (hs : cfg.backend = .serial) (h : rs.running = []) : (iteration cfg p req c rs).running = [] := by
  simp only [iteration]
  split
  · simp only [hs, if_true]
    rw [waitSerial_running, submitAll_serial_running cfg p hs]; exact h
  · rw [submitAll_serial_running cfg p hs]; exact h

end Lt
