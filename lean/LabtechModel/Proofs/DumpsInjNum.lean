import LabtechModel.Model.Params
/-!
# `json.dumps` is injective, part 1: number tokens and the other atoms

* `isDelim` / `okFollow`: the characters that may follow a complete value inside a document
  (`,` `]` `}`), and `delimFree_split`: two delimiter-free tokens followed by delimiters (or by
  nothing) that spell the same text are the same token.
* `toString (i : Int)`: non-empty, only `-` and decimal digits, injective
  (`intToken_chars`, `intToken_ne_nil`, `intToken_inj`; from core's `Nat.toDigits` lemmas).
* `wfFloatTok`: a decidable grammar for the token `json.dumps` prints for a Python float
  (`float.__repr__`, `NaN`, `Infinity`, `-Infinity`):

      token ::= '-'? body
      body  ::= "NaN" | "Infinity" | digit+ '.' digit+ exp? | digit+ exp
      exp   ::= 'e' ('+' | '-') digit+

  so a token is never an integer literal (at least one of `.`, `e`, `N`, `I` occurs), it is not
  empty, and it uses only the characters `0-9 + - . e I N a n f i t y`
  (`wfFloatTok_chars`, `wfFloatTok_ne_nil`, `wfFloatTok_not_int`).
-/
namespace Lt.Params

/-! ## delimiters -/

/-- the characters that can follow a complete value inside a `json.dumps` document -/
def isDelim (c : Char) : Bool := c == ',' || c == ']' || c == '}'

/-- a rest-of-document that may follow a complete value: nothing, or a delimiter first -/
def okFollow : List Char → Bool
  | [] => true
  | c :: _ => isDelim c

theorem delimFree_split : ∀ (x y r r' : List Char),
    (∀ c ∈ x, isDelim c = false) → (∀ c ∈ y, isDelim c = false) →
    okFollow r = true → okFollow r' = true → x ++ r = y ++ r' → x = y ∧ r = r'
  | [], [], _, _, _, _, _, _, h => ⟨rfl, by simpa using h⟩
  | [], d :: y, r, r', _, hy, hr, _, h => by
    simp only [List.nil_append, List.cons_append] at h
    subst h
    simp only [okFollow] at hr
    have := hy d (by simp)
    simp [hr] at this
  | c :: x, [], r, r', hx, _, _, hr', h => by
    simp only [List.nil_append, List.cons_append] at h
    subst h
    simp only [okFollow] at hr'
    have := hx c (by simp)
    simp [hr'] at this
  | c :: x, d :: y, r, r', hx, hy, hr, hr', h => by
    simp only [List.cons_append, List.cons.injEq] at h
    obtain ⟨hcd, h⟩ := h
    have ih := delimFree_split x y r r' (fun c hc => hx c (by simp [hc])) (fun c hc => hy c (by simp [hc])) hr hr' h
    exact ⟨by rw [hcd, ih.1], ih.2⟩

/-! ## integer tokens -/

/-- the characters of an integer literal -/
def intChar (c : Char) : Bool := c.isDigit || c == '-'

theorem intToken_toList (i : Int) :
    (toString i).toList = if 0 ≤ i then Nat.toDigits 10 i.toNat else '-' :: Nat.toDigits 10 (-i).toNat := by
  rw [Int.toString_eq_repr, Int.repr_eq_if]
  split <;> simp

theorem intToken_ne_nil (i : Int) : (toString i).toList ≠ [] := by
  rw [intToken_toList]
  split <;> simp

theorem intToken_chars (i : Int) : ∀ c ∈ (toString i).toList, intChar c = true := by
  intro c hc
  rw [intToken_toList] at hc
  split at hc
  · simp [intChar, Nat.isDigit_of_mem_toDigits (by decide) (by decide) hc]
  · rcases List.mem_cons.mp hc with h | h
    · subst h; decide
    · simp [intChar, Nat.isDigit_of_mem_toDigits (by decide) (by decide) h]

theorem toDigits_ten_inj {m n : Nat} (h : Nat.toDigits 10 m = Nat.toDigits 10 n) : m = n := by
  rw [← Nat.ofDigitChars_ten_toDigits (n := m), ← Nat.ofDigitChars_ten_toDigits (n := n), h]

theorem dash_not_digit : ∀ n, '-' ∉ Nat.toDigits 10 n := by
  intro n h
  have := Nat.isDigit_of_mem_toDigits (by decide) (by decide) h
  simp at this

theorem intToken_inj (i j : Int) (h : (toString i).toList = (toString j).toList) : i = j := by
  rw [intToken_toList, intToken_toList] at h
  split at h <;> split at h
  · have := toDigits_ten_inj h; omega
  · exfalso
    apply dash_not_digit i.toNat
    rw [h]; simp
  · exfalso
    apply dash_not_digit j.toNat
    rw [← h]; simp
  · have := toDigits_ten_inj (List.cons.inj h).2; omega

/-! ## float tokens -/

/-- one or more digits, then the end -/
def wfExpDigits : List Char → Bool
  | [] => false
  | c :: r => c.isDigit && (r.isEmpty || wfExpDigits r)

/-- after the `e`: a sign, then digits to the end -/
def wfExp : List Char → Bool
  | [] => false
  | c :: r => (c == '+' || c == '-') && wfExpDigits r

/-- inside the fraction, after at least one fraction digit -/
def wfFrac1 : List Char → Bool
  | [] => true
  | c :: r => if c = 'e' then wfExp r else c.isDigit && wfFrac1 r

/-- right after the `.` -/
def wfFrac : List Char → Bool
  | [] => false
  | c :: r => c.isDigit && wfFrac1 r

/-- inside the integer part, after at least one digit; ending here would be an integer literal -/
def wfInt1 : List Char → Bool
  | [] => false
  | c :: r => if c = '.' then wfFrac r else if c = 'e' then wfExp r else c.isDigit && wfInt1 r

/-- a float token without its sign -/
def wfFloatBody (l : List Char) : Bool :=
  l == ['N', 'a', 'N'] || l == ['I', 'n', 'f', 'i', 'n', 'i', 't', 'y'] ||
  match l with
  | [] => false
  | c :: r => c.isDigit && wfInt1 r

def wfFloatChars : List Char → Bool
  | '-' :: r => wfFloatBody r
  | l => wfFloatBody l

/-- the grammar of the tokens `json.dumps` prints for Python floats -/
def wfFloatTok (s : String) : Bool := wfFloatChars s.toList

/-- the alphabet of float tokens -/
def floatChar (c : Char) : Bool :=
  c.isDigit || c == '+' || c == '-' || c == '.' || c == 'e' || c == 'I' || c == 'N' || c == 'a' ||
  c == 'n' || c == 'f' || c == 'i' || c == 't' || c == 'y'

/-- a character that cannot occur in an integer literal -/
def floatMark (c : Char) : Bool := c == '.' || c == 'e' || c == 'N' || c == 'I'

theorem floatChar_of_digit {c : Char} (h : c.isDigit = true) : floatChar c = true := by
  simp [floatChar, h]

theorem wfExpDigits_chars : ∀ l, wfExpDigits l = true → ∀ c ∈ l, floatChar c = true
  | [], h => by simp [wfExpDigits] at h
  | d :: r, h => by
    simp only [wfExpDigits, Bool.and_eq_true, Bool.or_eq_true, List.isEmpty_iff] at h
    intro c hc
    rcases List.mem_cons.mp hc with e | e
    · subst e; exact floatChar_of_digit h.1
    · rcases h.2 with h2 | h2
      · subst h2; simp at e
      · exact wfExpDigits_chars r h2 c e

theorem wfExp_chars : ∀ l, wfExp l = true → ∀ c ∈ l, floatChar c = true
  | [], h => by simp [wfExp] at h
  | d :: r, h => by
    simp only [wfExp, Bool.and_eq_true, Bool.or_eq_true, beq_iff_eq] at h
    intro c hc
    rcases List.mem_cons.mp hc with e | e
    · subst e; rcases h.1 with e | e <;> subst e <;> decide
    · exact wfExpDigits_chars r h.2 c e

theorem wfFrac1_chars : ∀ l, wfFrac1 l = true → ∀ c ∈ l, floatChar c = true
  | [], _ => by simp
  | d :: r, h => by
    simp only [wfFrac1] at h
    intro c hc
    split at h
    · next he =>
      rcases List.mem_cons.mp hc with e | e
      · subst e; subst he; decide
      · exact wfExp_chars r h c e
    · simp only [Bool.and_eq_true] at h
      rcases List.mem_cons.mp hc with e | e
      · subst e; exact floatChar_of_digit h.1
      · exact wfFrac1_chars r h.2 c e

theorem wfFrac_chars : ∀ l, wfFrac l = true → ∀ c ∈ l, floatChar c = true
  | [], h => by simp [wfFrac] at h
  | d :: r, h => by
    simp only [wfFrac, Bool.and_eq_true] at h
    intro c hc
    rcases List.mem_cons.mp hc with e | e
    · subst e; exact floatChar_of_digit h.1
    · exact wfFrac1_chars r h.2 c e

/-- the rest of the integer part uses the alphabet and contains a `.` or an `e` -/
theorem wfInt1_chars : ∀ l, wfInt1 l = true →
    (∀ c ∈ l, floatChar c = true) ∧ ∃ c ∈ l, floatMark c = true
  | [], h => by simp [wfInt1] at h
  | d :: r, h => by
    simp only [wfInt1] at h
    split at h
    · next he =>
      subst he
      refine ⟨?_, '.', by simp, by decide⟩
      intro c hc
      rcases List.mem_cons.mp hc with e | e
      · subst e; decide
      · exact wfFrac_chars r h c e
    · split at h
      · next he =>
        subst he
        refine ⟨?_, 'e', by simp, by decide⟩
        intro c hc
        rcases List.mem_cons.mp hc with e | e
        · subst e; decide
        · exact wfExp_chars r h c e
      · simp only [Bool.and_eq_true] at h
        obtain ⟨ih1, m, hm, hm'⟩ := wfInt1_chars r h.2
        refine ⟨?_, m, by simp [hm], hm'⟩
        intro c hc
        rcases List.mem_cons.mp hc with e | e
        · subst e; exact floatChar_of_digit h.1
        · exact ih1 c e

theorem wfFloatBody_chars (l : List Char) (h : wfFloatBody l = true) :
    l ≠ [] ∧ (∀ c ∈ l, floatChar c = true) ∧ ∃ c ∈ l, floatMark c = true := by
  simp only [wfFloatBody, Bool.or_eq_true, beq_iff_eq] at h
  rcases h with (h | h) | h
  · subst h; exact ⟨by simp, by decide, 'N', by simp, by decide⟩
  · subst h; exact ⟨by simp, by decide, 'I', by simp, by decide⟩
  · cases l with
    | nil => simp at h
    | cons d r =>
      simp only [Bool.and_eq_true] at h
      obtain ⟨ih1, m, hm, hm'⟩ := wfInt1_chars r h.2
      refine ⟨by simp, ?_, m, by simp [hm], hm'⟩
      intro c hc
      rcases List.mem_cons.mp hc with e | e
      · subst e; exact floatChar_of_digit h.1
      · exact ih1 c e

theorem wfFloatChars_chars (l : List Char) (h : wfFloatChars l = true) :
    l ≠ [] ∧ (∀ c ∈ l, floatChar c = true) ∧ ∃ c ∈ l, floatMark c = true := by
  unfold wfFloatChars at h
  split at h
  · next r =>
    obtain ⟨_, h2, m, hm, hm'⟩ := wfFloatBody_chars r h
    refine ⟨by simp, ?_, m, by simp [hm], hm'⟩
    intro c hc
    rcases List.mem_cons.mp hc with e | e
    · subst e; decide
    · exact h2 c e
  · exact wfFloatBody_chars l h

theorem wfFloatTok_ne_nil (s : String) (h : wfFloatTok s = true) : s.toList ≠ [] :=
  (wfFloatChars_chars _ h).1

theorem wfFloatTok_chars (s : String) (h : wfFloatTok s = true) : ∀ c ∈ s.toList, floatChar c = true :=
  (wfFloatChars_chars _ h).2.1

theorem wfFloatTok_mark (s : String) (h : wfFloatTok s = true) : ∃ c ∈ s.toList, floatMark c = true :=
  (wfFloatChars_chars _ h).2.2

theorem floatMark_not_int (c : Char) (h : floatMark c = true) : intChar c = false := by
  simp only [floatMark, Bool.or_eq_true, beq_iff_eq] at h
  rcases h with ((h | h) | h) | h <;> subst h <;> decide

/-- a float token is never an integer literal -/
theorem wfFloatTok_not_int (s : String) (h : wfFloatTok s = true) (i : Int) : s.toList ≠ (toString i).toList := by
  intro e
  obtain ⟨c, hc, hm⟩ := wfFloatTok_mark s h
  have := intToken_chars i c (e ▸ hc)
  rw [floatMark_not_int c hm] at this
  cases this

theorem floatChar_not_delim (c : Char) (h : floatChar c = true) : isDelim c = false := by
  cases hd : isDelim c with
  | false => rfl
  | true =>
    simp only [isDelim, Bool.or_eq_true, beq_iff_eq] at hd
    rcases hd with (e | e) | e <;> subst e <;> revert h <;> decide

theorem intChar_not_delim (c : Char) (h : intChar c = true) : isDelim c = false := by
  cases hd : isDelim c with
  | false => rfl
  | true =>
    simp only [isDelim, Bool.or_eq_true, beq_iff_eq] at hd
    rcases hd with (e | e) | e <;> subst e <;> revert h <;> decide

/-! non-vacuity of the grammar: tokens `float.__repr__` produces are accepted, integer literals,
the empty token and tokens with a delimiter are not -/
example : wfFloatTok "1.5" = true := by decide
example : wfFloatTok "-0.0" = true := by decide
example : wfFloatTok "1e+16" = true := by decide
example : wfFloatTok "1.7976931348623157e+308" = true := by decide
example : wfFloatTok "NaN" = true := by decide
example : wfFloatTok "Infinity" = true := by decide
example : wfFloatTok "-Infinity" = true := by decide
example : wfFloatTok "5e-324" = true := by decide
example : wfFloatTok "2.5e-07" = true := by decide
/-- the harness's edge tokens (`EDGE_FLOATS` in `harness/paramgen.py`) -/
example : ["0.0", "-0.0", "1.0", "1e-320", "Infinity", "-Infinity", "0.1", "1e+22", "-2.5",
    "1.7976931348623157e+308", "5e-324"].all wfFloatTok = true := by decide
example : wfFloatTok "15" = false := by decide
example : wfFloatTok "-15" = false := by decide
example : wfFloatTok "" = false := by decide
example : wfFloatTok "-" = false := by decide
example : wfFloatTok "1,2" = false := by decide
example : wfFloatTok "1, 2" = false := by decide
example : wfFloatTok "1." = false := by decide
example : wfFloatTok "1.5e" = false := by decide
example : wfFloatTok "1.5]" = false := by decide
example : wfFloatTok "null" = false := by decide

end Lt.Params
