import LabtechModel.Proofs.PathLemmas
/-! Node-level lemmas for C18: which node a system call on a symlink-free path touches. -/
namespace Lt.Path

theorem normalP_append (a b : P) (ha : NormalP a) (hb : NormalP b) : NormalP (a ++ b) := by
  intro c hc
  rcases List.mem_append.mp hc with h | h
  · exact ha c h
  · exact hb c h

theorem normAux_out_normal (acc p : P) (h : NormalP acc) : NormalP (normAux acc p) := by
  induction p generalizing acc with
  | nil => simpa [normAux] using h
  | cons c cs ih =>
    simp only [normAux]
    split
    · exact ih acc h
    · rename_i h1
      split
      · exact ih _ (fun d hd => h d (List.dropLast_subset acc hd))
      · rename_i h2
        apply ih
        apply normalP_append _ _ h
        intro d hd
        simp at hd; subst hd
        exact ⟨fun e => h1 (Or.inl e), fun e => h1 (Or.inr e), h2⟩

theorem normpath_out_normal (p : P) : NormalP (normpath p) :=
  normAux_out_normal [] p (by intro c hc; cases hc)

theorem resolve_normal (fs : FS) (fuel : Nat) (p q : RPath) (h : resolve fs fuel p = .ok q) :
    NormalP q.comps := by
  simp only [resolve] at h
  split at h
  · cases h
  · split at h
    · cases h
    · split at h
      · cases h
      · cases h; exact normpath_out_normal _

theorem lstat_cons_dir (fs : FS) (loc q : P) (h : optIsLink (lstat fs q) = false) :
    optIsLink (lstat ((loc, Node.dir) :: fs) q) = false := by
  cases q with
  | nil => simp [lstat, optIsLink]
  | cons a as =>
    simp only [lstat] at h ⊢
    split
    · rfl
    · rename_i hl
      simp only [hl] at h
      simp only [List.lookup]
      split
      · rfl
      · exact h

theorem linkFree_after_mkdir (fs : FS) (m : MkdirRes) (p : P) (h : LinkFree fs p) :
    LinkFree (fsAfterMkdir fs m) p := by
  cases m with
  | created loc => intro q hq; exact lstat_cons_dir fs loc q (h q hq)
  | existed => exact h
  | failed e => exact h

theorem linkFree_prefix (fs : FS) (p q : P) (h : LinkFree fs p) (hq : q <+: p) : LinkFree fs q :=
  fun s hs => h s (List.IsPrefix.trans hs hq)

theorem linkFree_snoc (fs : FS) (p : P) (n : Comp) (h : LinkFree fs p)
    (hl : optIsLink (lstat fs (p ++ [n])) = false) : LinkFree fs (p ++ [n]) := by
  intro q hq
  rcases List.prefix_concat_iff.mp (by simpa using hq) with h1 | h1
  · subst h1; simpa using hl
  · exact h q h1

/-- following or not following the final symlink makes no difference to an error -/
theorem kwalkAux_error_agree (fs : FS) (follow follow' : P → P → Except Errno P) (cur rest : P) (e : Errno)
    (hn : NormalP rest) (hl : LinkFree fs (cur ++ rest.dropLast))
    (h : kwalkAux fs false follow cur rest = .error e) : kwalkAux fs true follow' cur rest = .error e := by
  induction rest generalizing cur with
  | nil => simp [kwalkAux] at h
  | cons n rest ih =>
    have hc := hn n (by simp)
    have hcs : NormalP rest := fun d hd => hn d (by simp [hd])
    simp only [kwalkAux, hc.1, if_false] at h ⊢
    cases hcur : lstat fs cur with
    | none => simpa [hcur] using h
    | some nd0 =>
      cases nd0 with
      | file => simpa [hcur] using h
      | link t0 => simpa [hcur] using h
      | dir =>
        simp only [hcur, hc.2.1, hc.2.2, if_false] at h ⊢
        by_cases htl : tooLong n = true
        · simpa [htl] using h
        · simp only [htl] at h ⊢
          have hrec : ∀ (hnl' : optIsLink (lstat fs (cur ++ [n])) = false)
              (h' : kwalkAux fs false follow (cur ++ [n]) rest = .error e),
              kwalkAux fs true follow' (cur ++ [n]) rest = .error e := by
            intro hnl' h'
            apply ih (cur ++ [n]) hcs _ h'
            cases rest with
            | nil =>
              simp only [List.dropLast_nil, List.append_nil]
              exact linkFree_snoc fs cur n (by simpa using hl) hnl'
            | cons d ds =>
              have : cur ++ (n :: d :: ds).dropLast = (cur ++ [n]) ++ (d :: ds).dropLast := by
                simp [List.dropLast_cons_cons]
              rw [← this]; exact hl
          cases hx : lstat fs (cur ++ [n]) with
          | none => simp only [hx] at h ⊢; exact hrec (by simp [hx, optIsLink]) h
          | some nd =>
            cases nd with
            | dir => simp only [hx] at h ⊢; exact hrec (by simp [hx, optIsLink]) h
            | file => simp only [hx] at h ⊢; exact hrec (by simp [hx, optIsLink]) h
            | link tgt =>
              simp only [hx] at h
              exfalso
              cases rest with
              | nil => simp [isLast] at h
              | cons d ds =>
                have : cur ++ [n] <+: cur ++ (n :: d :: ds).dropLast := by
                  simp only [List.dropLast_cons_cons]
                  exact ⟨(d :: ds).dropLast, by simp⟩
                have := hl _ this
                simp [hx, optIsLink] at this

theorem kwalk_error_agree (fs : FS) (b : Nat) (p : P) (e : Errno) (hn : NormalP p)
    (hl : LinkFree fs p.dropLast) (h : kwalk fs false (b + 1) [] p = .error e) :
    kwalk fs true (b + 1) [] p = .error e := by
  exact kwalkAux_error_agree fs (kwalk fs false b) (kwalk fs true b) [] p e hn (by simpa using hl) h


theorem linkFree_of_dropLast (fs : FS) (p : P) (h : LinkFree fs p.dropLast)
    (he : optIsLink (lstat fs p) = false) : LinkFree fs p := by
  by_cases hp : p = []
  · subst hp; intro q hq
    have : q = [] := List.prefix_nil.mp hq
    subst this; exact he
  · have e := List.dropLast_concat_getLast hp
    rw [← e]
    apply linkFree_snoc fs _ _ h
    rw [e]; exact he

/-- `mkdir` of a path whose directory part is symlink-free creates that very node, or nothing -/
theorem doMkdir_touch (fs : FS) (kp : RPath) (hl : LinkFree fs kp.comps.dropLast) (hn : NormalP kp.comps) :
    touchOfMkdir (doMkdir fs kp) = [] ∨ touchOfMkdir (doMkdir fs kp) = [.createDir kp.comps] := by
  simp only [doMkdir]
  cases hw : kwalk fs false linkBudget [] kp.comps with
  | error e => left; simp [touchOfMkdir]
  | ok loc =>
    have hloc : loc = kp.comps :=
      kwalk_linkfree fs false 40 kp.comps loc hn hl
        (by intro h; cases h) hw
    simp only [hloc]
    split
    · left; rfl
    · right; rfl

/-- `rmtree` of a path whose directory part is symlink-free removes that very node, or nothing -/
theorem doRmtree_touch (fs : FS) (kp : RPath) (hl : LinkFree fs kp.comps.dropLast) (hn : NormalP kp.comps) :
    (doRmtree fs kp).1 = [] ∨ (doRmtree fs kp).1 = [.remove kp.comps] := by
  simp only [doRmtree]
  cases hw : kwalk fs false linkBudget [] kp.comps with
  | error e => left; rfl
  | ok loc =>
    have hloc : loc = kp.comps :=
      kwalk_linkfree fs false 40 kp.comps loc hn hl
        (by intro h; cases h) hw
    simp only [hloc]
    split
    · right; rfl
    · left; rfl
    · left; rfl
    · left; rfl

/-- `open` of a path whose directory part is symlink-free and whose end is not a symlink
    (`is_symlink()` said so) writes that very node, or nothing -/
theorem doOpen_touch (fs : FS) (fp : RPath) (mode : List Char) (hl : LinkFree fs fp.comps.dropLast)
    (hn : NormalP fp.comps) (hsym : pathIsSymlink fs fp = .ok false) :
    ∀ t ∈ (doOpen fs fp mode).1, t = .write fp.comps := by
  simp only [pathIsSymlink] at hsym
  cases hw : kwalk fs false linkBudget [] fp.comps with
  | error e =>
    have hw' := kwalk_error_agree fs 40 fp.comps e hn hl hw
    have hw'' : kwalk fs true linkBudget [] fp.comps = .error e := hw'
    simp only [doOpen, hw, hw'']
    split <;> simp
  | ok loc =>
    have hloc : loc = fp.comps :=
      kwalk_linkfree fs false 40 fp.comps loc hn hl (by intro h; cases h) hw
    subst hloc
    simp only [hw] at hsym
    have hend : optIsLink (lstat fs fp.comps) = false := by simpa using hsym
    have hlf : LinkFree fs fp.comps := linkFree_of_dropLast fs _ hl hend
    simp only [doOpen, hw]
    split
    · split <;> simp
    · cases hw2 : kwalk fs true linkBudget [] fp.comps with
      | error e => simp
      | ok loc2 =>
        have hloc2 : loc2 = fp.comps :=
          kwalk_linkfree fs true 40 fp.comps loc2 hn hl (fun _ => hlf) hw2
        subst hloc2
        simp only []
        split
        · simp
        · split <;> simp
        · split <;> simp


/-- a path whose directory part is symlink-free and that `is_symlink()` answered `False` for is
    symlink-free itself — or no system call can reach it (then `mkdir` fails) -/
theorem linkFree_or_mkdir_fails (fs : FS) (kp : RPath) (hl : LinkFree fs kp.comps.dropLast)
    (hn : NormalP kp.comps) (hsym : pathIsSymlink fs kp = .ok false) :
    LinkFree fs kp.comps ∨ ∃ e, doMkdir fs kp = .failed e := by
  simp only [pathIsSymlink] at hsym
  cases hw : kwalk fs false linkBudget [] kp.comps with
  | error e => right; exact ⟨errOfErrno e, by simp [doMkdir, hw]⟩
  | ok loc =>
    left
    have hloc : loc = kp.comps :=
      kwalk_linkfree fs false 40 kp.comps loc hn hl (by intro h; cases h) hw
    subst hloc
    simp only [hw] at hsym
    exact linkFree_of_dropLast fs _ hl (by simpa using hsym)

end Lt.Path
