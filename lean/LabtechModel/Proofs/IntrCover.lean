import LabtechModel.Proofs.IntrDrain
/-!
# M10: every tracked future is accounted for, at every prefix

`covered s t`: the future of `t` is cancelled, or holds an outcome, or its process was found dead
(and the dead-process loop will mark it), or its worker is in the running map, or it is still
queued in the executor. `CovX cfg X s`: every future in `future_to_task` (and every tid of `X`, the
task whose `submit_task` is in progress) is covered. It holds after EVERY prefix of the main
stream and of the first handler's stream, without any hypothesis: there is no instant at which a
tracked future is nowhere (the situation in which the drain loop would spin for ever; this was
defect D14 before its repair).
-/
namespace Lt

variable {cfg : Config} {p : Problem}

def covered (s : IS) (t : Tid) : Prop :=
  t ∈ s.cancelled ∨ t ∈ s.done.map (·.1) ∨ t ∈ s.zombies ∨ t ∈ s.rs.running.map Job.tid ∨
    t ∈ s.rs.queued.map Job.tid

/-- (process runners, while no exception propagates) every tracked future, and every tid of `X`,
    is covered -/
def CovX (cfg : Config) (X : List Tid) (s : IS) : Prop :=
  cfg.backend ≠ .serial → s.rs.status = .running → ∀ t, (t ∈ s.rs.futs ∨ t ∈ X) → covered s t

theorem CovX.weaken {X : List Tid} {s : IS} (h : CovX cfg X s) : CovX cfg [] s :=
  fun hb hr t ht => h hb hr t (ht.elim Or.inl (fun h => by simp at h))

theorem always_trivial {Q : IS → Prop} (hQ : ∀ s, Q s) : ∀ (ps : List Prim) (s : IS), Always cfg p Q ps s := by
  intro ps
  induction ps with
  | nil => intro s; exact hQ s
  | cons q ps ih => intro s; exact ⟨hQ s, ih _⟩

theorem forkSnap_tid (r : List (Tid × Val)) (j : Job) : (forkSnap cfg r j).tid = j.tid := by
  unfold forkSnap; split <;> rfl

/-- primitives under which `covered` only grows and `future_to_task` does not change -/
def Prim.covMono : Prim → Bool
  | .unregPending _ | .regFuture _ | .serialAppend _ | .popFuture _ _ | .clearDeque | .popDeque => false
  | _ => true

theorem covMono_of_noexec {q : Prim} (h : q.touchesExec = false) : q.covMono = true := by
  cases q <;> simp [Prim.touchesExec] at h <;> rfl

theorem mem_tids_eraseP {l : List Job} {t x : Tid} (h : x ∈ l.map Job.tid) :
    x ∈ (l.eraseP (hasTid t)).map Job.tid ∨ x = t := by
  obtain ⟨j, hj, rfl⟩ := List.mem_map.mp h
  by_cases he : j.tid = t
  · exact Or.inr he
  · exact Or.inl (List.mem_map.mpr ⟨j, (List.mem_eraseP_of_neg (by simp [hasTid, he])).mpr hj, rfl⟩)

theorem covered_mono (q : Prim) (s : IS) (hq : q.covMono = true) (hrun : s.rs.status = .running) :
    (applyPrim cfg p q s).rs.futs = s.rs.futs ∧ ∀ t, covered s t → covered (applyPrim cfg p q s) t := by
  by_cases hx : q.touchesExec = false
  · obtain ⟨h1, _, h3, h4, h5, h6, h7, _⟩ := applyPrim_exec (cfg := cfg) (p := p) q s hx
    refine ⟨h3, fun t ht => ?_⟩
    simp only [covered, h1, h4, h5, h6, h7]; exact ht
  rw [applyPrim_running _ _ hrun]
  cases q <;> simp [Prim.touchesExec] at hx <;> simp [Prim.covMono] at hq
  case consumeResults c =>
    refine ⟨rfl, fun t ht => ?_⟩
    rcases ht with h | h | h | h | h
    · exact Or.inl h
    · exact Or.inr (Or.inl (by simp only [stepPrim, List.map_append, List.mem_append]; exact Or.inl h))
    · exact Or.inr (Or.inr (Or.inl (by simp only [stepPrim, List.mem_append]; exact Or.inl h)))
    · obtain ⟨j, hj, rfl⟩ := List.mem_map.mp h
      rcases selN_split c.finish s.rs.running 0 j hj with hf | hs
      · by_cases hd : p.dies j.tid = true
        · refine Or.inr (Or.inr (Or.inl ?_))
          simp only [stepPrim, List.mem_append]
          exact Or.inr (List.mem_map.mpr ⟨j, List.mem_filter.mpr ⟨hf, hd⟩, rfl⟩)
        · by_cases hc : j.tid ∈ s.cancelled
          · exact Or.inl hc
          · refine Or.inr (Or.inl ?_)
            simp only [stepPrim, List.map_append, List.mem_append, List.map_map]
            refine Or.inr (List.mem_map.mpr ⟨j, ?_, rfl⟩)
            simp only [List.mem_filter, decide_eq_true_eq, Bool.not_eq_eq_eq_not, Bool.not_true]
            exact ⟨⟨hf, by simpa using hd⟩, hc⟩
      · exact Or.inr (Or.inr (Or.inr (Or.inl (List.mem_map.mpr ⟨j, hs, rfl⟩))))
    · exact Or.inr (Or.inr (Or.inr (Or.inr h)))
  case markDead u =>
    simp only [stepPrim]
    split
    · next hz =>
      refine ⟨rfl, fun t ht => ?_⟩
      rcases ht with h | h | h | h | h
      · exact Or.inl h
      · refine Or.inr (Or.inl ?_)
        show t ∈ (if u ∈ s.cancelled then s.done else s.done ++ [(u, Outcome.died)]).map (·.1)
        split
        · exact h
        · simp only [List.map_append, List.mem_append]; exact Or.inl h
      · by_cases he : t = u
        · subst he
          by_cases hc : t ∈ s.cancelled
          · exact Or.inl hc
          · refine Or.inr (Or.inl ?_)
            show t ∈ (if t ∈ s.cancelled then s.done else s.done ++ [(t, Outcome.died)]).map (·.1)
            simp [hc]
        · exact Or.inr (Or.inr (Or.inl ((List.mem_erase_of_ne he).mpr h)))
      · exact Or.inr (Or.inr (Or.inr (Or.inl h)))
      · exact Or.inr (Or.inr (Or.inr (Or.inr h)))
    · exact ⟨rfl, fun t ht => ht⟩
  case cancelOne u =>
    refine ⟨rfl, fun t ht => ?_⟩
    rcases ht with h | h | h | h | h
    · exact Or.inl (by simp only [stepPrim, List.mem_append]; exact Or.inl h)
    · exact Or.inr (Or.inl h)
    · exact Or.inr (Or.inr (Or.inl h))
    · exact Or.inr (Or.inr (Or.inr (Or.inl h)))
    · rcases mem_tids_eraseP (t := u) h with h | h
      · exact Or.inr (Or.inr (Or.inr (Or.inr h)))
      · exact Or.inl (by simp [stepPrim, h])
  case stopOne u =>
    refine ⟨rfl, fun t ht => ?_⟩
    by_cases he : t = u
    · exact Or.inl (by simp [stepPrim, he])
    rcases ht with h | h | h | h | h
    · exact Or.inl (by simp only [stepPrim, List.mem_append]; exact Or.inl h)
    · exact Or.inr (Or.inl h)
    · exact Or.inr (Or.inr (Or.inl (by simp [stepPrim, h, he])))
    · rcases mem_tids_eraseP (t := u) h with h | h
      · exact Or.inr (Or.inr (Or.inr (Or.inl h)))
      · exact absurd h he
    · exact Or.inr (Or.inr (Or.inr (Or.inr h)))
  case enqueue u =>
    refine ⟨rfl, fun t ht => ?_⟩
    rcases ht with h | h | h | h | h
    · exact Or.inl h
    · exact Or.inr (Or.inl h)
    · exact Or.inr (Or.inr (Or.inl h))
    · exact Or.inr (Or.inr (Or.inr (Or.inl h)))
    · exact Or.inr (Or.inr (Or.inr (Or.inr (by simp only [stepPrim, List.map_append, List.mem_append]; exact Or.inl h))))
  case procStart u => exact ⟨rfl, fun t ht => ht⟩
  case regRunning u =>
    simp only [stepPrim]
    split
    · refine ⟨rfl, fun t ht => ?_⟩
      rcases ht with h | h | h | h | h
      · exact Or.inl h
      · exact Or.inr (Or.inl h)
      · exact Or.inr (Or.inr (Or.inl h))
      · exact Or.inr (Or.inr (Or.inr (Or.inl (by simp only [List.map_append, List.mem_append]; exact Or.inl h))))
      · exact Or.inr (Or.inr (Or.inr (Or.inr h)))
    · exact ⟨rfl, fun t ht => ht⟩

theorem Cov_mono (X : List Tid) (q : Prim) (s : IS) (hq : q.covMono = true) (h : CovX cfg X s) :
    CovX cfg X (applyPrim cfg p q s) := by
  by_cases hrun : s.rs.status = .running
  · obtain ⟨h1, h2⟩ := covered_mono (cfg := cfg) (p := p) q s hq hrun
    intro hb _ t ht
    rw [h1] at ht
    exact h2 t (h hb hrun t ht)
  · rw [applyPrim_stopped _ _ hrun]; exact h

theorem always_Cov_mono (X : List Tid) : ∀ (ps : List Prim) (s : IS), (∀ q ∈ ps, q.covMono = true) →
    CovX cfg X s → Always cfg p (CovX cfg X) ps s := by
  intro ps
  induction ps with
  | nil => intro s _ h; exact h
  | cons q ps ih =>
    intro s hq h
    exact ⟨h, ih _ (fun q' hq' => hq q' (List.mem_cons_of_mem _ hq')) (Cov_mono X q s (hq q List.mem_cons_self) h)⟩

/-! ### the conditional steps -/
/-- `_running…[id] = (future, process)` followed by `del _pending…[future]` -/
theorem Cov_reg_unreg (X : List Tid) (u : Tid) (s : IS) (h : CovX cfg X s) :
    CovX cfg X (applyPrim cfg p (Prim.unregPending u) (applyPrim cfg p (Prim.regRunning u) s)) := by
  by_cases hrun : s.rs.status = .running
  · have hrun1 : (applyPrim cfg p (Prim.regRunning u) s).rs.status = .running := by
      rw [applyPrim_status _ _ rfl]; exact hrun
    intro hb _ t ht
    rw [applyPrim_running _ _ hrun1] at ht ⊢
    have ht' : t ∈ s.rs.futs ∨ t ∈ X := by
      rw [applyPrim_running _ _ hrun] at ht
      revert ht
      simp only [stepPrim]
      split <;> exact id
    have hc := h hb hrun t ht'
    rw [applyPrim_running _ _ hrun]
    cases hf : s.rs.queued.find? (hasTid u) with
    | none =>
      simp only [stepPrim, hf]
      rcases hc with h | h | h | h | h
      · exact Or.inl h
      · exact Or.inr (Or.inl h)
      · exact Or.inr (Or.inr (Or.inl h))
      · exact Or.inr (Or.inr (Or.inr (Or.inl h)))
      · rcases mem_tids_eraseP (t := u) h with h' | h'
        · exact Or.inr (Or.inr (Or.inr (Or.inr h')))
        · exfalso
          obtain ⟨j, hj, hjt⟩ := List.mem_map.mp h
          have := List.find?_eq_none.mp hf j hj
          simp [hasTid, hjt, h'] at this
    | some j =>
      have hju : j.tid = u := by simpa [hasTid] using List.find?_some hf
      simp only [stepPrim, hf]
      rcases hc with h | h | h | h | h
      · exact Or.inl h
      · exact Or.inr (Or.inl h)
      · exact Or.inr (Or.inr (Or.inl h))
      · exact Or.inr (Or.inr (Or.inr (Or.inl (by simp only [List.map_append, List.mem_append]; exact Or.inl h))))
      · rcases mem_tids_eraseP (t := u) h with h' | h'
        · exact Or.inr (Or.inr (Or.inr (Or.inr h')))
        · refine Or.inr (Or.inr (Or.inr (Or.inl ?_)))
          simp [forkSnap_tid, hju, h']
  · rw [applyPrim_stopped _ _ hrun, applyPrim_stopped _ _ hrun]; exact h

theorem always_Cov_startPrims (X : List Tid) : ∀ (js : List Job) (s : IS), CovX cfg X s →
    Always cfg p (CovX cfg X) (startPrims js) s := by
  intro js
  induction js with
  | nil => intro s h; exact h
  | cons j js ih =>
    intro s h
    have hsp : startPrims (j :: js) =
        Prim.procStart j.tid :: Prim.regRunning j.tid :: Prim.unregPending j.tid :: startPrims js := by
      simp [startPrims]
    rw [hsp]
    have h1 := Cov_mono (cfg := cfg) (p := p) X (Prim.procStart j.tid) s rfl h
    have h2 := Cov_mono (cfg := cfg) (p := p) X (Prim.regRunning j.tid) _ rfl h1
    exact ⟨h, h1, h2, ih _ (Cov_reg_unreg X j.tid _ h1)⟩

theorem Cov_regFuture (t : Tid) (s : IS) (h : CovX cfg [t] s) :
    CovX cfg [] (applyPrim cfg p (Prim.regFuture t) s) := by
  by_cases hrun : s.rs.status = .running
  · intro hb _ x hx
    rw [applyPrim_running _ _ hrun] at hx ⊢
    simp only [stepPrim, List.mem_append, List.mem_singleton, List.not_mem_nil, or_false] at hx
    have : covered s x := h hb hrun x (by simpa using hx)
    exact this
  · rw [applyPrim_stopped _ _ hrun]; exact h.weaken

theorem Cov_enqueue (t : Tid) (s : IS) (h : CovX cfg [] s) :
    CovX cfg [t] (applyPrim cfg p (Prim.enqueue t) s) := by
  by_cases hrun : s.rs.status = .running
  · obtain ⟨h1, h2⟩ := covered_mono (cfg := cfg) (p := p) (Prim.enqueue t) s rfl hrun
    intro hb _ x hx
    rw [h1] at hx
    rcases hx with hx | hx
    · exact h2 x (h hb hrun x (Or.inl hx))
    · simp only [List.mem_singleton] at hx
      subst hx
      rw [applyPrim_running _ _ hrun]
      exact Or.inr (Or.inr (Or.inr (Or.inr (by simp [stepPrim, mkJob]))))
  · rw [applyPrim_stopped _ _ hrun]
    intro _ hr; exact absurd hr hrun

theorem Cov_popFuture (t : Tid) (o : Option Outcome) (s : IS) (h : CovX cfg [] s) :
    CovX cfg [] (applyPrim cfg p (Prim.popFuture t o) s) := by
  by_cases hrun : s.rs.status = .running
  · by_cases htf : t ∈ s.rs.futs
    · intro hb _ x hx
      rw [applyPrim_running _ _ hrun] at hx ⊢
      simp only [stepPrim, htf, if_true, List.mem_filter, decide_eq_true_eq, List.not_mem_nil, or_false] at hx
      simp only [stepPrim, htf, if_true, covered]
      rcases h hb hrun x (Or.inl hx.1) with h' | h' | h' | h' | h'
      · exact Or.inl h'
      · refine Or.inr (Or.inl ?_)
        obtain ⟨y, hy, rfl⟩ := List.mem_map.mp h'
        exact List.mem_map.mpr ⟨y, List.mem_filter.mpr ⟨hy, by simpa using hx.2⟩, rfl⟩
      · exact Or.inr (Or.inr (Or.inl h'))
      · exact Or.inr (Or.inr (Or.inr (Or.inl h')))
      · exact Or.inr (Or.inr (Or.inr (Or.inr h')))
    · intro _ hr
      rw [applyPrim_running _ _ hrun] at hr
      simp [stepPrim, htf, keyErr] at hr
  · rw [applyPrim_stopped _ _ hrun]; exact h

/-! ## along the streams -/
theorem always_Cov_serial (hb : cfg.backend = .serial) (X : List Tid) (ps : List Prim) (s : IS) :
    Always cfg p (CovX cfg X) ps s :=
  always_trivial (fun _ hb' => absurd hb hb') ps s

theorem always_Cov_submitOne (s : IS) (t : Tid) (h : CovX cfg [] s) :
    Always cfg p (CovX cfg []) (submitOnePrims cfg p s t) s := by
  by_cases hb : cfg.backend = .serial
  · exact always_Cov_serial hb _ _ _
  simp only [submitOnePrims, hb, if_false]
  have h1 := Cov_mono (cfg := cfg) (p := p) [] (Prim.startTask t) s rfl h
  have h2 := Cov_enqueue (cfg := cfg) (p := p) t _ h1
  have a := always_Cov_startPrims (cfg := cfg) (p := p) [t]
    (takeN (cfg.maxWorkers - ((runPrims cfg p [Prim.startTask t, Prim.enqueue t] s).rs.running.length +
      (runPrims cfg p [Prim.startTask t, Prim.enqueue t] s).zombies.length))
      (runPrims cfg p [Prim.startTask t, Prim.enqueue t] s).rs.queued).1 _ h2
  rw [List.append_assoc, always_append, always_append]
  refine ⟨⟨h, h1, h2.weaken⟩, ?_, ?_⟩
  · exact a.mono (fun s hs => hs.weaken)
  · exact ⟨a.last.weaken, Cov_regFuture t _ a.last⟩

theorem always_Cov_submit : ∀ (l : List Tid) (s : IS), CovX cfg [] s →
    Always cfg p (CovX cfg []) (submitPrims cfg p l s) s := by
  intro l
  induction l with
  | nil => intro s h; exact h
  | cons t ts ih =>
    intro s h
    simp only [submitPrims, always_append]
    have a := always_Cov_submitOne (cfg := cfg) (p := p) s t h
    exact ⟨a, ih _ a.last⟩

theorem always_Cov_doneOne (req : List Tid) (s : IS) (t : Tid) (h : CovX cfg [] s) :
    Always cfg p (CovX cfg []) (doneOnePrims cfg req s t) s := by
  simp only [doneOnePrims]
  split
  · exact ⟨h, Cov_popFuture t none s h⟩
  · split
    · next o _ =>
      exact ⟨h, always_Cov_mono [] _ _ (fun q hq => covMono_of_noexec (yieldPrims_noexec req _ t o q hq))
        (Cov_popFuture t (some o) s h)⟩
    · exact h

theorem always_Cov_done (req : List Tid) : ∀ (cands : List Tid) (s : IS), CovX cfg [] s →
    Always cfg p (CovX cfg []) (donePrims cfg p req cands s) s := by
  intro cands
  induction cands with
  | nil => intro s h; exact h
  | cons t rest ih =>
    intro s h
    unfold donePrims
    split
    · rw [always_append]
      have a := always_Cov_doneOne (cfg := cfg) (p := p) req s t h
      exact ⟨a, ih _ a.last⟩
    · exact h

theorem always_Cov_wait (req : List Tid) (c : Choice) (s : IS) (h : CovX cfg [] s) :
    Always cfg p (CovX cfg []) (waitPrims cfg p req c s) s := by
  by_cases hb : cfg.backend = .serial
  · exact always_Cov_serial hb _ _ _
  simp only [waitPrims, hb, if_false]
  rw [← List.singleton_append, List.append_assoc, List.append_assoc, always_append, always_append, always_append]
  have h0 : CovX cfg [] (runPrims cfg p [Prim.consumeResults c] s) := Cov_mono [] _ s rfl h
  have a1 : Always cfg p (CovX cfg []) (deadPrims (runPrims cfg p [Prim.consumeResults c] s))
      (runPrims cfg p [Prim.consumeResults c] s) :=
    always_Cov_mono [] _ _ (fun q hq => by
      simp only [deadPrims, List.mem_map] at hq
      obtain ⟨t, _, rfl⟩ := hq; rfl) h0
  have a2 := always_Cov_startPrims (cfg := cfg) (p := p) [] (takeN (cfg.maxWorkers -
      ((runPrims cfg p (deadPrims (runPrims cfg p [Prim.consumeResults c] s))
        (runPrims cfg p [Prim.consumeResults c] s)).rs.running.length +
       (runPrims cfg p (deadPrims (runPrims cfg p [Prim.consumeResults c] s))
        (runPrims cfg p [Prim.consumeResults c] s)).zombies.length))
      (runPrims cfg p (deadPrims (runPrims cfg p [Prim.consumeResults c] s))
        (runPrims cfg p [Prim.consumeResults c] s)).rs.queued).1 _ a1.last
  exact ⟨⟨h, h0⟩, a1, a2, always_Cov_done req _ _ a2.last⟩

theorem always_Cov_iteration (req : List Tid) (c : Choice) (s : IS) (h : CovX cfg [] s) :
    Always cfg p (CovX cfg []) (iterationPrims cfg p req c s) s := by
  have a := always_Cov_submit (cfg := cfg) (p := p) (readyTasks p s.rs.ts) s h
  simp only [iterationPrims]
  split
  · rw [always_append]
    exact ⟨a, always_Cov_wait req c _ a.last⟩
  · exact a

theorem always_Cov_main (req : List Tid) : ∀ (sched : List Choice) (s : IS), CovX cfg [] s →
    Always cfg p (CovX cfg []) (mainStream cfg p req sched s) s := by
  intro sched
  induction sched with
  | nil => intro s h; exact h
  | cons c cs ih =>
    intro s h
    unfold mainStream
    split
    · split
      · have a := always_Cov_iteration (cfg := cfg) (p := p) req c s h
        rw [always_append]
        exact ⟨a, ih _ a.last⟩
      · exact h
    · exact h

theorem always_Cov_cancel (s : IS) (h : CovX cfg [] s) :
    Always cfg p (CovX cfg []) (cancelPrims cfg s) s := by
  simp only [cancelPrims]
  split
  · next hb => exact always_Cov_serial hb _ _ _
  · exact always_Cov_mono [] _ _ (fun q hq => by obtain ⟨j, _, rfl⟩ := List.mem_map.mp hq; rfl) h

theorem always_Cov_drain (req : List Tid) : ∀ (ds : List Choice) (s : IS), CovX cfg [] s →
    Always cfg p (CovX cfg []) (drainPrims cfg p req ds s) s := by
  intro ds
  induction ds with
  | nil => intro s h; exact h
  | cons c cs ih =>
    intro s h
    unfold drainPrims
    split
    · split
      · exact h
      · have a := always_Cov_wait (cfg := cfg) (p := p) req c s h
        rw [always_append]
        exact ⟨a, ih _ a.last⟩
    · exact h

theorem always_Cov_handler (req : List Tid) (ds : List Choice) (s : IS) (h : CovX cfg [] s) :
    Always cfg p (CovX cfg []) (handlerPrims cfg p req ds s) s := by
  simp only [handlerPrims, always_append]
  have a := always_Cov_cancel (cfg := cfg) (p := p) s h
  exact ⟨a, always_Cov_drain req ds _ a.last⟩

theorem Cov_init (store : Store) (fuel : Nat) : CovX cfg [] (initIS cfg p store fuel) := by
  intro _ _ t ht
  simp [initIS, initRS] at ht

/-- at every interrupt instant, every tracked future is cancelled, done, a zombie, running or queued -/
theorem stateAt_Cov (store : Store) (fuel : Nat) (sched : List Choice) (k : Nat) :
    CovX cfg [] (stateAt cfg p store fuel sched k) :=
  (always_Cov_main (reqTids p) sched _ (Cov_init store fuel)).prefix k

end Lt
