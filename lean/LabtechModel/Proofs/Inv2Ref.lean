import LabtechModel.Proofs.Inv2Flag
/-!
# C10 / C01 / C08: failure-aware reference evaluation

`refEvalF cfg p store obj t`: the value of `t` in a plain sequential dependency-first evaluation in
which tasks may fail: a task whose worker dies has no value; a task cached beforehand (and not
busted) has the stored value, *whatever it is*; a task whose `run()` raises has no value; otherwise
`run()` applied to the reference values of the task objects in its parameters, a failed one being
read as `none` (reading `.result` raises `TaskError`, which `run()` may handle or let propagate).

`ValInv`: every yielded outcome is `refOutcome t`, the store entry of every task that was run is
`storeAfter t` (its own saved value if it was executed, succeeded and is cacheable; the pre-state
entry otherwise), the captured results are exactly the successful yields of requested tasks.
-/
namespace Lt

def refAuxF (cfg : Config) (p : Problem) (store : Store) (obj : Tid → Iid) : Nat → Tid → Option Val
  | 0, _ => none
  | n + 1, t =>
    if diesIn cfg p t then none
    else if useCache cfg p store t then lookup t store
    else if p.fails t then none
    else p.behave t ((p.children (obj t)).map (fun c => refAuxF cfg p store obj n (p.tidOf c)))

/-- the failure-aware reference evaluation -/
def refEvalF (cfg : Config) (p : Problem) (store : Store) (obj : Tid → Iid) (t : Tid) : Option Val :=
  refAuxF cfg p store obj (t + 1) t

/-- the outcome the coordinator is handed for `t`, according to the reference evaluation -/
def refOutcome (cfg : Config) (p : Problem) (store : Store) (obj : Tid → Iid) (t : Tid) : Outcome :=
  if diesIn cfg p t then .died
  else match refEvalF cfg p store obj t with
    | some v => .ok v
    | none => .exc

/-- the store entry of `t` after `t` was run: an executed (not loaded), successful task of a
    cacheable type saved its value; everything else leaves the pre-state entry -/
def storeAfter (cfg : Config) (p : Problem) (store : Store) (obj : Tid → Iid) (t : Tid) : Option Val :=
  if useCache cfg p store t = false ∧ p.cacheable (p.ty t) = true then
    match refEvalF cfg p store obj t with
    | some v => some v
    | none => lookup t store
  else lookup t store

structure RefHypF (p : Problem) (obj : Tid → Iid) : Prop where
  acyc : Acyclic p
  inst : InstOK p
  objOK : ObjOK p obj

theorem refAuxF_stable (cfg : Config) (p : Problem) (store : Store) (obj : Tid → Iid)
    (hA : Acyclic p) (hO : ObjOK p obj) :
    ∀ n i m, p.tidOf i < n → p.tidOf i < m →
      refAuxF cfg p store obj m (p.tidOf i) = refAuxF cfg p store obj n (p.tidOf i) := by
  intro n
  induction n with
  | zero => intro i m h; exact absurd h (Nat.not_lt_zero _)
  | succ n ih =>
    intro i m hn hm
    cases m with
    | zero => exact absurd hm (Nat.not_lt_zero _)
    | succ m =>
      have hmap : (p.children (obj (p.tidOf i))).map (fun c => refAuxF cfg p store obj m (p.tidOf c))
          = (p.children (obj (p.tidOf i))).map (fun c => refAuxF cfg p store obj n (p.tidOf c)) := by
        apply List.map_congr_left
        intro c hc
        have hlt : p.tidOf c < p.tidOf i := by
          have := hA (obj (p.tidOf i)) c hc
          rw [hO i] at this
          exact this
        exact ih c m (Nat.lt_of_lt_of_le hlt (Nat.le_of_lt_succ hn)) (Nat.lt_of_lt_of_le hlt (Nat.le_of_lt_succ hm))
      simp only [refAuxF, hmap]

/-- unfolding of the failure-aware reference value of a task that has an object -/
theorem refEvalF_unfold (cfg : Config) (p : Problem) (store : Store) (obj : Tid → Iid)
    (hA : Acyclic p) (hO : ObjOK p obj) (i : Iid) :
    refEvalF cfg p store obj (p.tidOf i) =
      if diesIn cfg p (p.tidOf i) then none
      else if useCache cfg p store (p.tidOf i) then lookup (p.tidOf i) store
      else if p.fails (p.tidOf i) then none
      else p.behave (p.tidOf i)
        (((p.children (obj (p.tidOf i))).map p.tidOf).map (refEvalF cfg p store obj)) := by
  have hmap : (p.children (obj (p.tidOf i))).map (fun c => refAuxF cfg p store obj (p.tidOf i) (p.tidOf c))
      = ((p.children (obj (p.tidOf i))).map p.tidOf).map (refEvalF cfg p store obj) := by
    rw [List.map_map]
    apply List.map_congr_left
    intro c hc
    have hlt : p.tidOf c < p.tidOf i := by
      have := hA (obj (p.tidOf i)) c hc
      rw [hO i] at this
      exact this
    simp only [Function.comp, refEvalF]
    exact (refAuxF_stable cfg p store obj hA hO (p.tidOf c + 1) c (p.tidOf i) (Nat.lt_succ_self _) hlt)
  simp only [refEvalF, refAuxF, hmap]

theorem refEvalF_dies (cfg : Config) (p : Problem) (store : Store) (obj : Tid → Iid) (t : Tid)
    (h : diesIn cfg p t = true) : refEvalF cfg p store obj t = none := by
  simp [refEvalF, refAuxF, h]

theorem refOutcome_ok_iff (cfg : Config) (p : Problem) (store : Store) (obj : Tid → Iid) (t : Tid) (v : Val) :
    refOutcome cfg p store obj t = .ok v ↔ refEvalF cfg p store obj t = some v := by
  simp only [refOutcome]
  cases hd : diesIn cfg p t with
  | true => simp [refEvalF_dies cfg p store obj t hd]
  | false =>
    cases refEvalF cfg p store obj t with
    | none => simp
    | some w => simp

/-! ## the value invariant -/
structure ValInv (cfg : Config) (p : Problem) (obj : Tid → Iid) (store0 : Store) (req : List Tid)
    (extra : List Tid) (rs : RS) : Prop where
  yOk : ∀ t o, Ev.yield t o ∈ rs.trace → o = refOutcome cfg p store0 obj t
  stoDone : ∀ t, (t ∈ yielded rs ∨ t ∈ extra) → lookup t rs.store = storeAfter cfg p store0 obj t
  capture : ∀ t ∈ req, ∀ v, lookup t rs.taskResults = some v ↔ Ev.yield t (.ok v) ∈ rs.trace
  run : rs.status = .running

/-- moving to a state whose trace is extended by non-yield events -/
theorem ValInv.transfer {cfg : Config} {p : Problem} {obj : Tid → Iid} {store0 : Store} {req : List Tid}
    {extra extra' : List Tid} {rs rs' : RS} (h : ValInv cfg p obj store0 req extra rs) (l : List Ev)
    (htr : rs'.trace = rs.trace ++ l) (hny : ∀ e ∈ l, evYield e = none)
    (htres : rs'.taskResults = rs.taskResults) (hst : rs'.status = rs.status)
    (hdone : ∀ t, (t ∈ yielded rs ∨ t ∈ extra') → lookup t rs'.store = storeAfter cfg p store0 obj t) :
    ValInv cfg p obj store0 req extra' rs' where
  yOk := by
    intro t o ho
    rw [htr, mem_yield_append_ny _ _ hny] at ho
    exact h.yOk t o ho
  stoDone := by
    intro t ht
    simp only [yielded, htr, yieldedOf_append_ny _ _ hny] at ht
    exact hdone t ht
  capture := by
    intro t ht v
    rw [htr, mem_yield_append_ny _ _ hny, htres]
    exact h.capture t ht v
  run := by rw [hst]; exact h.run

theorem ValInv.perm_extra {cfg : Config} {p : Problem} {obj : Tid → Iid} {store0 : Store} {req : List Tid}
    {extra extra' : List Tid} {rs : RS} (h : ValInv cfg p obj store0 req extra rs)
    (hp : ∀ t, t ∈ extra ↔ t ∈ extra') : ValInv cfg p obj store0 req extra' rs where
  yOk := h.yOk
  stoDone := fun t ht => h.stoDone t (ht.imp id (hp t).mpr)
  capture := h.capture
  run := h.run

/-- a planned task has an object, and its first recorded object is one -/
theorem planned_repr (cfg : Config) (p : Problem) (store : Store) (fuel : Nat) (t : Tid)
    (h : t ∈ (plan cfg p store fuel).pending) :
    repr0 (plan cfg p store fuel) t ∈ (plan cfg p store fuel).instances t ∧
    p.tidOf (repr0 (plan cfg p store fuel) t) = t := by
  have hinst : repr0 (plan cfg p store fuel) t ∈ (plan cfg p store fuel).instances t := by
    have hne := plan_pending_instances cfg p store fuel t h
    simp only [repr0]
    cases hl : (plan cfg p store fuel).instances t with
    | nil => exact absurd hl hne
    | cons a b => simp
  exact ⟨hinst, plan_instances_tid cfg p store fuel t _ hinst⟩

/-- what `run()` of an active, not-cached task reads from any good snapshot: the reference values
    of its dependencies, a failed one as `none` -/
theorem reads_refF {cfg : Config} {p : Problem} {obj : Tid → Iid} {store0 : Store} {fuel : Nat}
    {req extra : List Tid} {rs : RS} (H : RefHypF p obj)
    (hc : Core p (plan cfg p store0 fuel) rs) (hr : ValInv cfg p obj store0 req extra rs)
    (t : Tid) (ht : t ∈ rs.ts.active) (snap : List (Tid × Val))
    (hsn : SnapOK (plan cfg p store0 fuel) rs.trace snap t) (huc : useCache cfg p store0 t = false) :
    reads p (repr0 (plan cfg p store0 fuel) t) snap =
      ((p.children (obj t)).map p.tidOf).map (refEvalF cfg p store0 obj) := by
  have htP : t ∈ (plan cfg p store0 fuel).pending := (hc.ts.cover t).mpr (Or.inr (Or.inl ht))
  obtain ⟨hinst, hti⟩ := planned_repr cfg p store0 fuel t htP
  generalize repr0 (plan cfg p store0 fuel) t = i at hinst hti ⊢
  have hreads : reads p i snap = ((p.children i).map p.tidOf).map (refEvalF cfg p store0 obj) := by
    simp only [reads, List.map_map]
    apply List.map_congr_left
    intro c hcm
    have hd := plan_ddeps_complete cfg p store0 fuel t i hinst huc c hcm
    obtain ⟨o, ho⟩ := (mem_yieldedOf _ _).mp (hc.ts.actDeps t ht _ hd)
    have ho' := hr.yOk _ _ ho
    simp only [Function.comp]
    cases hv : refEvalF cfg p store0 obj (p.tidOf c) with
    | some v =>
      have := (refOutcome_ok_iff cfg p store0 obj (p.tidOf c) v).mpr hv
      rw [this] at ho'
      subst ho'
      exact (hsn _ hd v).mpr ho
    | none =>
      cases hl : lookup (p.tidOf c) snap with
      | none => rfl
      | some v =>
        have h1 := (hsn _ hd v).mp hl
        have h2 := hr.yOk _ _ h1
        have h3 := (refOutcome_ok_iff cfg p store0 obj (p.tidOf c) v).mp h2.symm
        rw [hv] at h3
        cases h3
  rw [hreads, H.inst i (obj (p.tidOf i)) (H.objOK i).symm, hti]

/-- the outcome of a job of an active task whose worker does not die is the reference outcome,
    whatever store it runs against as long as the task's own entry is the pre-state one -/
theorem runOutcome_refF {cfg : Config} {p : Problem} {obj : Tid → Iid} {store0 : Store} {fuel : Nat}
    {req extra : List Tid} {rs : RS} (H : RefHypF p obj)
    (hc : Core p (plan cfg p store0 fuel) rs) (hr : ValInv cfg p obj store0 req extra rs)
    (j : Job) (hact : j.tid ∈ rs.ts.active) (hflag : j.useCache = useCache cfg p store0 j.tid)
    (snap : List (Tid × Val)) (hs : j.snap = some snap)
    (hsn : SnapOK (plan cfg p store0 fuel) rs.trace snap j.tid)
    (st : Store) (hst : lookup j.tid st = lookup j.tid store0) (hnd : diesIn cfg p j.tid = false) :
    runOutcome p rs.ts st j = refOutcome cfg p store0 obj j.tid := by
  have htP : j.tid ∈ (plan cfg p store0 fuel).pending := (hc.ts.cover _).mpr (Or.inr (Or.inl hact))
  obtain ⟨_, hti⟩ := planned_repr cfg p store0 fuel j.tid htP
  have hunf := refEvalF_unfold cfg p store0 obj H.acyc H.objOK (repr0 (plan cfg p store0 fuel) j.tid)
  rw [hti] at hunf
  simp only [hnd, Bool.false_eq_true, if_false] at hunf
  cases huc : j.useCache with
  | true =>
    have huc0 : useCache cfg p store0 j.tid = true := by rw [← hflag]; exact huc
    have hsome := useCache_isSome cfg p store0 j.tid huc0
    cases hl : lookup j.tid store0 with
    | none => rw [hl] at hsome; simp at hsome
    | some v =>
      simp only [huc0, if_true, hl] at hunf
      simp [runOutcome, huc, hst, hl, refOutcome, hnd, hunf]
  | false =>
    have huc0 : useCache cfg p store0 j.tid = false := by rw [← hflag]; exact huc
    have hreads := reads_refF H hc hr j.tid hact snap hsn huc0
    simp only [huc0, Bool.false_eq_true, if_false] at hunf
    simp only [runOutcome, huc, hs, Option.getD_some, repr0_eq _ _ hc.ts.inst, hreads, refOutcome, hnd, hunf,
      Bool.false_eq_true, if_false]
    cases hf : p.fails j.tid with
    | true => simp
    | false =>
      simp only [Bool.false_eq_true, if_false]
      generalize p.behave j.tid _ = b
      cases b <;> rfl

/-! ## the store entry of a task that was run -/
theorem saveIfRan_self (cfg : Config) (p : Problem) (store0 : Store) (obj : Tid → Iid) (st : Store) (j : Job)
    (o : Outcome) (hflag : j.useCache = useCache cfg p store0 j.tid)
    (hst : lookup j.tid st = lookup j.tid store0) (ho : o = refOutcome cfg p store0 obj j.tid) :
    lookup j.tid (saveIfRan p st j o) = storeAfter cfg p store0 obj j.tid := by
  subst ho
  simp only [refOutcome, storeAfter]
  cases hd : diesIn cfg p j.tid with
  | true =>
    simp only [if_true, saveIfRan, refEvalF_dies cfg p store0 obj j.tid hd, hst]
    split <;> rfl
  | false =>
    simp only [Bool.false_eq_true, if_false]
    cases hv : refEvalF cfg p store0 obj j.tid with
    | none =>
      simp only [saveIfRan, hst]
      split <;> rfl
    | some v =>
      simp only [saveIfRan, hflag]
      cases hu : useCache cfg p store0 j.tid <;> cases hcb : p.cacheable (p.ty j.tid) <;>
        simp [hst, lookup]

theorem saveAll_self (cfg : Config) (p : Problem) (store0 : Store) (obj : Tid → Iid) (ts : TS) :
    ∀ (js : List Job) (st : Store), (js.map Job.tid).Nodup →
      (∀ j ∈ js, lookup j.tid st = lookup j.tid store0) →
      (∀ j ∈ js, j.useCache = useCache cfg p store0 j.tid) →
      (∀ j ∈ js, ∀ st', lookup j.tid st' = lookup j.tid store0 →
        jobOutcome p ts st' j = refOutcome cfg p store0 obj j.tid) →
      ∀ j ∈ js, lookup j.tid (saveAll p ts js st) = storeAfter cfg p store0 obj j.tid := by
  intro js
  induction js with
  | nil => intro st _ _ _ _ j hj; simp at hj
  | cons a js ih =>
    intro st hnd hst hflag hout j hj
    simp only [List.map_cons, List.nodup_cons] at hnd
    simp only [saveAll]
    by_cases hja : j.tid = a.tid
    · rw [hja, saveAll_lookup_ne p ts a.tid js _ (by
        intro j' hj' heq
        exact hnd.1 (List.mem_map.mpr ⟨j', hj', heq.symm⟩))]
      exact saveIfRan_self cfg p store0 obj st a _ (hflag a List.mem_cons_self) (hst a List.mem_cons_self)
        (hout a List.mem_cons_self st (hst a List.mem_cons_self))
    · have hjs : j ∈ js := by
        rcases List.mem_cons.mp hj with h | h
        · subst h; exact absurd rfl hja
        · exact h
      apply ih _ hnd.2 _ (fun j' hj' => hflag j' (List.mem_cons_of_mem _ hj'))
        (fun j' hj' => hout j' (List.mem_cons_of_mem _ hj')) j hjs
      intro j' hj'
      have hne : j'.tid ≠ a.tid := by
        intro heq
        exact hnd.1 (List.mem_map.mpr ⟨j', hj', heq⟩)
      rw [saveIfRan_lookup_ne p st a _ j'.tid hne]
      exact hst j' (List.mem_cons_of_mem _ hj')

/-! ## preservation -/
theorem startProcesses_val {cfg : Config} {p : Problem} {obj : Tid → Iid} {store0 : Store} {req : List Tid}
    {extra : List Tid} {rs : RS} (h : ValInv cfg p obj store0 req extra rs) :
    ValInv cfg p obj store0 req extra (startProcesses cfg rs) := by
  obtain ⟨go, stay, _, hsp⟩ := startProcesses_shape cfg rs
  rw [hsp]
  exact h.transfer _ rfl (fun e he => ((quiet_starts _) e he).1) rfl rfl h.stoDone

theorem submitStep_val {cfg : Config} {p : Problem} {obj : Tid → Iid} {store0 : Store}
    {req : List Tid} {rs : RS} {t : Tid} (hr : ValInv cfg p obj store0 req [] rs) :
    ValInv cfg p obj store0 req [] (submitTask cfg p { rs with ts := startedTS rs.ts t } t) := by
  have hbase : ValInv cfg p obj store0 req []
      (submitState rs t (newJob cfg p rs t) (useCache cfg p rs.store t)) := by
    refine hr.transfer [Ev.submit t (useCache cfg p rs.store t)] rfl ?_ rfl rfl hr.stoDone
    intro e he; simp only [List.mem_singleton] at he; subst he; rfl
  simp only [submitTask]
  split
  · exact hbase
  · exact startProcesses_val hbase

theorem submitAll_val {cfg : Config} {p : Problem} {obj : Tid → Iid} {store0 : Store} {req : List Tid} :
    ∀ (l : List Tid) (rs : RS), l.Nodup → (∀ t ∈ l, t ∈ rs.ts.pending) →
      ValInv cfg p obj store0 req [] rs →
      ValInv cfg p obj store0 req [] (submitAll cfg p l rs) := by
  intro l
  induction l with
  | nil => intro rs _ _ hr; exact hr
  | cons t ts ih =>
    intro rs hnd hmem hr
    have ht := hmem t List.mem_cons_self
    have hnd' := List.nodup_cons.mp hnd
    have hst : startTask rs.ts t = some (startedTS rs.ts t) := by
      simp [startTask, setRemove, ht, startedTS]
    simp only [submitAll, hst]
    apply ih _ hnd'.2 _ (submitStep_val hr)
    intro x hx
    rw [submitTask_ts]
    simp only [List.mem_filter, ne_eq, decide_eq_true_eq]
    exact ⟨hmem x (List.mem_cons_of_mem _ hx), fun hxt => hnd'.1 (hxt ▸ hx)⟩

theorem processYield_status_keep (cfg : Config) (req : List Tid) (rs : RS) (t : Tid) (o : Outcome)
    (s' : TS) (rem : List Tid) (hct : completeTask rs.ts t = some (s', rem))
    (hok : cfg.contOnFail = true ∨ ∃ v, o = .ok v) :
    (processYield cfg req rs t o).status = rs.status := by
  cases o with
  | ok v => simp [processYield, hct]
  | exc =>
    rcases hok with h | ⟨v, hv⟩
    · simp [processYield, hct, h]
    · cases hv
  | died =>
    rcases hok with h | ⟨v, hv⟩
    · simp [processYield, hct, h]
    · cases hv

theorem processYield_taskResults (cfg : Config) (req : List Tid) (rs : RS) (t : Tid) (o : Outcome) :
    (processYield cfg req rs t o).taskResults =
      match o with
      | .ok v => if t ∈ req then (t, v) :: rs.taskResults.filter (fun kv => kv.1 ≠ t) else rs.taskResults
      | _ => rs.taskResults := by
  cases o <;> simp only [processYield] <;> split <;> rfl

/-- handling the reference outcome of a task -/
theorem yieldStep_val {cfg : Config} {p : Problem} {obj : Tid → Iid} {store0 : Store} {fuel : Nat}
    {req : List Tid} {extra : List Tid} {rs : RS} {t : Tid} (o : Outcome)
    (hc : Core p (plan cfg p store0 fuel) rs) (he : Exec cfg (plan cfg p store0 fuel) (t :: extra) rs)
    (hr : ValInv cfg p obj store0 req (t :: extra) rs) (ho : o = refOutcome cfg p store0 obj t)
    (hok : cfg.contOnFail = true ∨ ∃ v, o = .ok v) :
    ValInv cfg p obj store0 req extra
      (processYield cfg req { rs with futs := rs.futs.filter (· ≠ t) } t o) := by
  have htF : t ∈ rs.futs := he.perm.mem_iff.mp (by simp)
  have htA : t ∈ rs.ts.active := (hc.futsAct t).mp htF
  have htY : t ∉ yielded rs := hc.ts.disjAY t htA
  obtain ⟨s', rem, hct, _⟩ := completeTask_TSInv _ (plan_PI cfg p store0 fuel) _ rs.ts t hc.ts htA
  obtain ⟨_, _, _, _, ⟨tail, htr, htail⟩, _, _⟩ :=
    processYield_shape cfg req { rs with futs := rs.futs.filter (· ≠ t) } t o s' rem hct hr.run
  have hstore := processYield_store cfg req { rs with futs := rs.futs.filter (· ≠ t) } t o
  have hyld := processYield_yielded cfg req { rs with futs := rs.futs.filter (· ≠ t) } t o
  have htres := processYield_taskResults cfg req { rs with futs := rs.futs.filter (· ≠ t) } t o
  have hstat := processYield_status_keep cfg req { rs with futs := rs.futs.filter (· ≠ t) } t o s' rem hct hok
  generalize processYield cfg req { rs with futs := rs.futs.filter (· ≠ t) } t o = rs' at *
  simp only at htr hstore hyld htres hstat
  have hyld' : yielded rs' = yielded rs ++ [t] := hyld
  have hmemY : ∀ t' o', Ev.yield t' o' ∈ rs'.trace ↔
      (Ev.yield t' o' ∈ rs.trace ∨ (t' = t ∧ o' = o)) := by
    intro t' o'
    rw [htr]
    constructor
    · intro h
      rcases List.mem_append.mp h with h1 | h1
      · exact Or.inl h1
      · rcases List.mem_cons.mp h1 with h2 | h2
        · simp only [Ev.yield.injEq] at h2; exact Or.inr h2
        · obtain ⟨a, b, hab⟩ := htail _ h2; cases hab
    · rintro (h | ⟨h1, h2⟩)
      · exact List.mem_append_left _ h
      · subst h1; subst h2; exact List.mem_append_right _ List.mem_cons_self
  have hnoT : ∀ o', Ev.yield t o' ∉ rs.trace := fun o' ho' => htY ((mem_yieldedOf _ _).mpr ⟨o', ho'⟩)
  exact {
    yOk := by
      intro t' o' ho'
      rcases (hmemY t' o').mp ho' with h | ⟨h1, h2⟩
      · exact hr.yOk t' o' h
      · subst h1; subst h2; exact ho
    stoDone := by
      intro t' ht'
      rw [hstore]
      apply hr.stoDone t'
      rw [hyld'] at ht'
      rcases ht' with h | h
      · rcases List.mem_append.mp h with h1 | h1
        · exact Or.inl h1
        · exact Or.inr (by simp only [List.mem_singleton] at h1; subst h1; exact List.mem_cons_self)
      · exact Or.inr (List.mem_cons_of_mem _ h)
    capture := by
      intro t' ht' v
      rw [hmemY, htres]
      by_cases hne : t' = t
      · subst hne
        have hold : ∀ w, lookup t' rs.taskResults ≠ some w := fun w hw =>
          hnoT _ ((hr.capture t' ht' w).mp hw)
        cases o with
        | ok w =>
          simp only [ht', if_true, lookup_cons_filter_self, Option.some.injEq, Outcome.ok.injEq, true_and]
          constructor
          · intro h; exact Or.inr h.symm
          · rintro (h | h)
            · exact absurd h (hnoT _)
            · exact h.symm
        | exc =>
          simp only [reduceCtorEq, and_false, or_false]
          exact ⟨fun h => absurd h (hold v), fun h => absurd h (hnoT _)⟩
        | died =>
          simp only [reduceCtorEq, and_false, or_false]
          exact ⟨fun h => absurd h (hold v), fun h => absurd h (hnoT _)⟩
      · have hsimp : (Ev.yield t' (.ok v) ∈ rs.trace ∨ t' = t ∧ Outcome.ok v = o) ↔
            Ev.yield t' (.ok v) ∈ rs.trace := by simp [hne]
        rw [hsimp, ← hr.capture t' ht' v]
        cases o with
        | ok w =>
          simp only
          split
          · rw [lookup_cons_filter_ne _ _ _ hne _]
          · rfl
        | exc => rfl
        | died => rfl
    run := by rw [hstat]; exact hr.run }

theorem processYields_val {cfg : Config} {p : Problem} {obj : Tid → Iid} {store0 : Store} {fuel : Nat}
    {req : List Tid} :
    ∀ (ys : List (Tid × Outcome)) (rs : RS), Core p (plan cfg p store0 fuel) rs →
      Exec cfg (plan cfg p store0 fuel) (ys.map Prod.fst) rs →
      ValInv cfg p obj store0 req (ys.map Prod.fst) rs →
      (∀ y ∈ ys, y.2 = refOutcome cfg p store0 obj y.1 ∧ (cfg.contOnFail = true ∨ ∃ v, y.2 = .ok v)) →
      ValInv cfg p obj store0 req [] (processYields cfg req ys rs) := by
  intro ys
  induction ys with
  | nil => intro rs _ _ hr _; exact hr
  | cons y rest ih =>
    intro rs hc he hr hys
    obtain ⟨t, o⟩ := y
    obtain ⟨ho, hok⟩ := hys (t, o) List.mem_cons_self
    simp only at ho hok
    simp only [processYields]
    split
    · have hr' := yieldStep_val (t := t) (extra := rest.map Prod.fst) o hc he hr ho hok
      obtain ⟨hc', he', _⟩ := yieldStep_inv (t := t) (extra := rest.map Prod.fst) req o
        (plan_PI cfg p store0 fuel) hc he hr.run
      exact ih _ hc' (he' hr'.run) hr' (fun y hy => hys y (List.mem_cons_of_mem _ hy))
    · next hnr => exact absurd hr.run (by intro h; exact hnr h)

/-- "nothing fails": every planned task has a reference value -/
def NoFailure (cfg : Config) (p : Problem) (store : Store) (obj : Tid → Iid) (fuel : Nat) : Prop :=
  ∀ t ∈ (plan cfg p store fuel).pending, (refEvalF cfg p store obj t).isSome

theorem hok_of {cfg : Config} {p : Problem} {obj : Tid → Iid} {store0 : Store} {fuel : Nat}
    (hcf : cfg.contOnFail = true ∨ NoFailure cfg p store0 obj fuel) (t : Tid)
    (ht : t ∈ (plan cfg p store0 fuel).pending) :
    cfg.contOnFail = true ∨ ∃ v, refOutcome cfg p store0 obj t = .ok v := by
  rcases hcf with h | h
  · exact Or.inl h
  · right
    have := h t ht
    cases hv : refEvalF cfg p store0 obj t with
    | none => rw [hv] at this; simp at this
    | some v => exact ⟨v, (refOutcome_ok_iff cfg p store0 obj t v).mpr hv⟩

theorem waitSerial_val {cfg : Config} {p : Problem} {obj : Tid → Iid} {store0 : Store} {fuel : Nat}
    {req : List Tid} {rs : RS} (H : RefHypF p obj) (hb : cfg.backend = .serial)
    (hcf : cfg.contOnFail = true ∨ NoFailure cfg p store0 obj fuel)
    (hc : Core p (plan cfg p store0 fuel) rs) (he : Exec cfg (plan cfg p store0 fuel) [] rs)
    (hf : FlagInv cfg p store0 [] rs)
    (hr : ValInv cfg p obj store0 req [] rs) :
    ValInv cfg p obj store0 req [] (waitSerial cfg p req rs) := by
  have hP := plan_PI cfg p store0 fuel
  have hs := hf.2 hr.run
  cases hq : rs.queued with
  | nil =>
    rw [waitSerial_nil cfg p req rs hq]
    refine hr.transfer [Ev.waitEnter (rs.queued.map Job.tid) []] rfl ?_ rfl rfl hr.stoDone
    intro e he'; simp only [List.mem_singleton] at he'; subst he'; rfl
  | cons j rest =>
    rw [waitSerial_cons cfg p req rs j rest hq]
    obtain ⟨hcA, heA⟩ := serialPre_inv hP hc he j rest hq
    have hjq : j ∈ rs.queued ++ rs.running := by rw [hq]; simp
    have hjA : j.tid ∈ rs.ts.active := he.job_active hc j hjq
    have hjY : j.tid ∉ yielded rs := hc.ts.disjAY _ hjA
    have hjP : j.tid ∈ (plan cfg p store0 fuel).pending := (hc.ts.cover _).mpr (Or.inr (Or.inl hjA))
    have hflag := hs.flag j hjq
    have hframe := hs.frame j.tid hjY (by simp)
    have ho := runOutcome_refF H hc hr { j with snap := some rs.results } hjA hflag
      rs.results rfl (results_snapOK hP hc he j.tid hjY) rs.store hframe (diesIn_serial cfg p _ hb)
    have ho' : runOutcome p rs.ts rs.store { j with snap := some rs.results } =
        refOutcome cfg p store0 obj j.tid := ho
    have hrA : ValInv cfg p obj store0 req [j.tid] (serialPre p rs j rest) := by
      refine hr.transfer (serialEvs p rs j) (serialPre_trace p rs j rest)
        (fun e he' => ((serialEvs_quiet p rs j) e he').1) rfl rfl ?_
      intro t ht
      show lookup t (saveIfRan p rs.store { j with snap := some rs.results }
        (runOutcome p rs.ts rs.store { j with snap := some rs.results })) = _
      by_cases htj : t = j.tid
      · subst htj
        exact saveIfRan_self cfg p store0 obj rs.store { j with snap := some rs.results } _ hflag hframe ho'
      · rw [saveIfRan_lookup_ne p rs.store { j with snap := some rs.results } _ t htj]
        apply hr.stoDone t
        rcases ht with h | h
        · exact Or.inl h
        · simp only [List.mem_singleton] at h; exact absurd h htj
    refine yieldStep_val _ hcA heA hrA ho' ?_
    rw [ho']
    exact hok_of hcf _ hjP

theorem waitProcess_val {cfg : Config} {p : Problem} {obj : Tid → Iid} {store0 : Store} {fuel : Nat}
    {req : List Tid} {rs : RS} (H : RefHypF p obj) (c : Choice) (hb : cfg.backend ≠ .serial)
    (hcf : cfg.contOnFail = true ∨ NoFailure cfg p store0 obj fuel)
    (hc : Core p (plan cfg p store0 fuel) rs) (he : Exec cfg (plan cfg p store0 fuel) [] rs)
    (hf : FlagInv cfg p store0 [] rs)
    (hr : ValInv cfg p obj store0 req [] rs) :
    ValInv cfg p obj store0 req [] (waitProcess cfg p req c rs) := by
  have hP := plan_PI cfg p store0 fuel
  have hs := hf.2 hr.run
  obtain ⟨hwp, hcA, heA, hperm, hfinNd⟩ := waitProcess_explicit req c hb hc he
  rw [hwp]
  have hfinq : ∀ j ∈ finJobs c rs, j ∈ rs.queued ++ rs.running :=
    fun j hj => List.mem_append_right _ (finJobs_mem c rs j hj)
  -- the outcome of every finished worker, against any store that kept the task's own entry
  have hout : ∀ j ∈ finJobs c rs, ∀ st', lookup j.tid st' = lookup j.tid store0 →
      jobOutcome p rs.ts st' j = refOutcome cfg p store0 obj j.tid := by
    intro j hj st' hst'
    have hjq := hfinq j hj
    have hjA := he.job_active hc j hjq
    cases hd : p.dies j.tid with
    | true =>
      simp [jobOutcome, hd, refOutcome, diesIn_process cfg p _ hb]
    | false =>
      have hjr := finJobs_mem c rs j hj
      cases hsn : j.snap with
      | none => exact absurd hsn (he.runSnap j hjr)
      | some snap =>
        have := runOutcome_refF H hc hr j hjA (hs.flag j hjq) snap hsn (he.snapOK j hjq snap hsn) st' hst'
          (by rw [diesIn_process cfg p _ hb]; exact hd)
        simp only [jobOutcome, hd, Bool.false_eq_true, if_false]
        exact this
  have hframe : ∀ j ∈ finJobs c rs, lookup j.tid rs.store = lookup j.tid store0 := by
    intro j hj
    exact hs.frame j.tid (hc.ts.disjAY _ (he.job_active hc j (hfinq j hj))) (by simp)
  have hrA : ValInv cfg p obj store0 req ((finJobs c rs).map Job.tid) (procPre p c rs) := by
    refine hr.transfer (procEvs p c rs) (procPre_trace p c rs)
      (fun e he' => ((procEvs_quiet p c rs) e he').1) rfl rfl ?_
    intro t ht
    show lookup t (saveAll p rs.ts (finJobs c rs) rs.store) = _
    by_cases htf : t ∈ (finJobs c rs).map Job.tid
    · obtain ⟨j, hj, rfl⟩ := List.mem_map.mp htf
      exact saveAll_self cfg p store0 obj rs.ts _ _ hfinNd hframe (fun j hj => hs.flag j (hfinq j hj)) hout j hj
    · rw [saveAll_lookup_ne p rs.ts t _ _ (by
        intro j hj heq
        exact htf (List.mem_map.mpr ⟨j, hj, heq.symm⟩))]
      apply hr.stoDone t
      rcases ht with h | h
      · exact Or.inl h
      · exact absurd h htf
  obtain ⟨hcB, heB⟩ := startProcesses_inv hP hb hcA heA
  have hrB := startProcesses_val hrA
  apply processYields_val _ _ hcB (heB.perm_extra hperm.symm)
    (hrB.perm_extra (fun t => hperm.symm.mem_iff))
  intro y hy
  simp only [procYs, List.mem_filterMap] at hy
  obtain ⟨t, _, hfind⟩ := hy
  have hyO := List.mem_of_find?_eq_some hfind
  simp only [procOutcomes, List.mem_map] at hyO
  obtain ⟨j, hj, rfl⟩ := hyO
  have ho := hout j hj rs.store (hframe j hj)
  refine ⟨ho, ?_⟩
  simp only
  rw [ho]
  exact hok_of hcf _ ((hc.ts.cover _).mpr (Or.inr (Or.inl (he.job_active hc j (hfinq j hj)))))

theorem iteration_val {cfg : Config} {p : Problem} {obj : Tid → Iid} {store0 : Store} {fuel : Nat}
    {rs : RS} (H : RefHypF p obj) (hcf : cfg.contOnFail = true ∨ NoFailure cfg p store0 obj fuel) (c : Choice)
    (h : Reach cfg p (plan cfg p store0 fuel) rs) (hf : FlagInv cfg p store0 [] rs)
    (hr : ValInv cfg p obj store0 (reqTids p) [] rs) :
    ValInv cfg p obj store0 (reqTids p) [] (iteration cfg p (reqTids p) c rs) := by
  have hP := plan_PI cfg p store0 fuel
  obtain ⟨hc, he, hst⟩ := submitPhase_reach hP h hr.run
  have hnd : (readyTasks p rs.ts).Nodup := (readyAux_sublist p rs.ts rs.ts.pending _).nodup h.1.ts.ndP
  have hmem : ∀ t ∈ readyTasks p rs.ts, t ∈ rs.ts.pending ∧ rs.ts.pendDeps t = [] :=
    fun t ht => (readyTasks_no_pending_deps p rs.ts t ht).symm
  have hfS := submitAll_flag (store0 := store0) hP _ rs hnd hmem h.1 (h.2 hr.run) hr.run hf
  have hrS := submitAll_val (obj := obj) (req := reqTids p) _ rs hnd (fun t ht => (hmem t ht).1) hr
  simp only [iteration, hst]
  split
  · next hb => exact waitSerial_val H hb hcf hc he hfS hrS
  · next hb => exact waitProcess_val H c hb hcf hc he hfS hrS

theorem runLoop_val {cfg : Config} {p : Problem} {obj : Tid → Iid} {store0 : Store} {fuel : Nat}
    (H : RefHypF p obj) (hcf : cfg.contOnFail = true ∨ NoFailure cfg p store0 obj fuel) :
    ∀ (sched : List Choice) (rs : RS), Reach cfg p (plan cfg p store0 fuel) rs →
      FlagInv cfg p store0 [] rs → ValInv cfg p obj store0 (reqTids p) [] rs →
      ValInv cfg p obj store0 (reqTids p) [] (runLoop cfg p (reqTids p) sched rs) := by
  intro sched
  induction sched with
  | nil => intro rs _ _ hr; exact hr
  | cons c cs ih =>
    intro rs h hf hr
    simp only [runLoop]
    split
    · next hrun =>
      split
      · exact ih _ (iteration_reach _ (plan_PI cfg p store0 fuel) c h hrun)
          (iteration_flag (plan_PI cfg p store0 fuel) c h hrun hf) (iteration_val H hcf c h hf hr)
      · exact hr
    · exact hr

theorem initRS_val (cfg : Config) (p : Problem) (obj : Tid → Iid) (store : Store) (fuel : Nat) :
    ValInv cfg p obj store (reqTids p) [] (initRS cfg p store fuel) where
  yOk := by intro t o h; simp [initRS] at h
  stoDone := by intro t h; simp [initRS, yielded, yieldedOf] at h
  capture := by intro t _ v; simp [initRS, lookup]
  run := rfl

/-- the value invariant at every loop-head state -/
theorem loopHead_val (cfg : Config) (p : Problem) (store : Store) (fuel : Nat) (sched : List Choice)
    (obj : Tid → Iid) (H : RefHypF p obj) (hcf : cfg.contOnFail = true ∨ NoFailure cfg p store obj fuel) :
    ValInv cfg p obj store (reqTids p) [] (loopHead cfg p store fuel sched) :=
  runLoop_val H hcf sched _ (initRS_reach cfg p store fuel) (initRS_flag cfg p store fuel)
    (initRS_val cfg p obj store fuel)

end Lt
