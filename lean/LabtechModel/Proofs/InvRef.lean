import LabtechModel.Proofs.InvMain
/-!
# C01: the values a run returns are those of the plain sequential dependency-first evaluation

`refEval p obj t`: evaluate `t` by recursion on tids, each task's `run()` applied to the reference
values of the task objects in the parameters of the object `obj t` chosen for `t`.
`RefInv`: every yielded outcome is `ok (refEval t)`, the store stays sound, captured results are the
yielded values.
-/
namespace Lt

def refAux (p : Problem) (obj : Tid → Iid) : Nat → Tid → Option Val
  | 0, _ => none
  | n + 1, t => p.behave t ((p.children (obj t)).map (fun c => refAux p obj n (p.tidOf c)))

/-- the reference evaluation: dependencies first, by recursion on tids -/
def refEval (p : Problem) (obj : Tid → Iid) (t : Tid) : Option Val := refAux p obj (t + 1) t

/-- `obj` picks, for every tid that has a task object, one of its objects -/
def ObjOK (p : Problem) (obj : Tid → Iid) : Prop := ∀ i, p.tidOf (obj (p.tidOf i)) = p.tidOf i

/-- no task raises by itself or dies -/
def NoFail (p : Problem) : Prop := ∀ t, p.fails t = false ∧ p.dies t = false

/-- `run()` returns a value whenever every dependency read succeeds -/
def BehaveTotal (p : Problem) : Prop := ∀ t vs, (∀ o ∈ vs, o ≠ none) → p.behave t vs ≠ none

/-- results cached beforehand were produced by the same tasks -/
def StoreSound (p : Problem) (obj : Tid → Iid) (store : Store) : Prop :=
  ∀ t v, lookup t store = some v → refEval p obj t = some v

theorem refAux_stable (p : Problem) (obj : Tid → Iid) (hA : Acyclic p) (hO : ObjOK p obj) :
    ∀ n i m, p.tidOf i < n → p.tidOf i < m →
      refAux p obj m (p.tidOf i) = refAux p obj n (p.tidOf i) := by
  intro n
  induction n with
  | zero => intro i m h; exact absurd h (Nat.not_lt_zero _)
  | succ n ih =>
    intro i m hn hm
    cases m with
    | zero => exact absurd hm (Nat.not_lt_zero _)
    | succ m =>
      simp only [refAux]
      congr 1
      apply List.map_congr_left
      intro c hc
      have hlt : p.tidOf c < p.tidOf i := by
        have := hA (obj (p.tidOf i)) c hc
        rw [hO i] at this
        exact this
      exact ih c m (Nat.lt_of_lt_of_le hlt (Nat.le_of_lt_succ hn)) (Nat.lt_of_lt_of_le hlt (Nat.le_of_lt_succ hm))

/-- unfolding of the reference value of a task that has an object -/
theorem refEval_unfold (p : Problem) (obj : Tid → Iid) (hA : Acyclic p) (hO : ObjOK p obj) (i : Iid) :
    refEval p obj (p.tidOf i) =
      p.behave (p.tidOf i) (((p.children (obj (p.tidOf i))).map p.tidOf).map (refEval p obj)) := by
  simp only [refEval, refAux, List.map_map]
  congr 1
  apply List.map_congr_left
  intro c hc
  have hlt : p.tidOf c < p.tidOf i := by
    have := hA (obj (p.tidOf i)) c hc
    rw [hO i] at this
    exact this
  simp only [Function.comp]
  exact refAux_stable p obj hA hO (p.tidOf c + 1) c (p.tidOf i) (Nat.lt_succ_self _) hlt

/-! ## lookups in the store and in the captured results -/
theorem lookup_cons_filter_self (t : Tid) (v : Val) (l : List (Tid × Val)) :
    lookup t ((t, v) :: l.filter (fun kv => kv.1 ≠ t)) = some v := by
  simp [lookup]

theorem lookup_filter_ne (t x : Tid) (hx : x ≠ t) : ∀ (l : List (Tid × Val)),
    lookup x (l.filter (fun kv => kv.1 ≠ t)) = lookup x l := by
  intro l
  induction l with
  | nil => rfl
  | cons kv rest ih =>
    obtain ⟨k, w⟩ := kv
    simp only [List.filter_cons]
    by_cases hk : k = t
    · subst hk
      have : ¬ (k = x) := fun h => hx h.symm
      simp only [ne_eq, not_true_eq_false, decide_false, Bool.false_eq_true, if_false, lookup, this]
      exact ih
    · simp only [ne_eq, hk, not_false_eq_true, decide_true, if_true, lookup]
      split
      · rfl
      · exact ih

theorem lookup_cons_filter_ne (t x : Tid) (v : Val) (hx : x ≠ t) (l : List (Tid × Val)) :
    lookup x ((t, v) :: l.filter (fun kv => kv.1 ≠ t)) = lookup x l := by
  have : ¬ (t = x) := fun h => hx h.symm
  simp only [lookup, this, if_false]
  exact lookup_filter_ne t x hx l

theorem useCache_congr (cfg : Config) (p : Problem) (st st' : Store) (t : Tid)
    (h : lookup t st = lookup t st') : useCache cfg p st t = useCache cfg p st' t := by
  simp only [useCache, h]

/-! ## the value invariant -/
structure RefHyp (p : Problem) (obj : Tid → Iid) : Prop where
  acyc : Acyclic p
  inst : InstOK p
  objOK : ObjOK p obj
  noFail : NoFail p
  total : BehaveTotal p

structure RefInv (cfg : Config) (p : Problem) (obj : Tid → Iid) (store0 : Store) (req : List Tid)
    (extra : List Tid) (rs : RS) : Prop where
  yOk : ∀ t o, Ev.yield t o ∈ rs.trace → ∃ v, o = .ok v ∧ refEval p obj t = some v
  storeSound : StoreSound p obj rs.store
  storeFrame : ∀ t, t ∉ yielded rs → t ∉ extra → lookup t rs.store = lookup t store0
  flag : ∀ j ∈ rs.queued ++ rs.running, j.useCache = useCache cfg p store0 j.tid
  capture : ∀ t ∈ req, ∀ v, Ev.yield t (.ok v) ∈ rs.trace → lookup t rs.taskResults = some v
  run : rs.status = .running

/-- `run()` of an active, not-cached task computes its reference value from any good snapshot -/
theorem behave_ref {cfg : Config} {p : Problem} {obj : Tid → Iid} {store0 : Store} {fuel : Nat}
    {req extra : List Tid} {rs : RS} (H : RefHyp p obj)
    (hc : Core p (plan cfg p store0 fuel) rs) (hr : RefInv cfg p obj store0 req extra rs)
    (t : Tid) (ht : t ∈ rs.ts.active) (snap : List (Tid × Val))
    (hsn : SnapOK (plan cfg p store0 fuel) rs.trace snap t) (huc : useCache cfg p store0 t = false) :
    ∃ v, p.behave t (reads p (repr0 (plan cfg p store0 fuel) t) snap) = some v ∧
      refEval p obj t = some v := by
  have htP : t ∈ (plan cfg p store0 fuel).pending := (hc.ts.cover t).mpr (Or.inr (Or.inl ht))
  have hinst : repr0 (plan cfg p store0 fuel) t ∈ (plan cfg p store0 fuel).instances t := by
    have hne := plan_pending_instances cfg p store0 fuel t htP
    simp only [repr0]
    cases hl : (plan cfg p store0 fuel).instances t with
    | nil => exact absurd hl hne
    | cons a b => simp
  have hti := plan_instances_tid cfg p store0 fuel t _ hinst
  generalize repr0 (plan cfg p store0 fuel) t = i at hinst hti ⊢
  have hreads : reads p i snap = ((p.children i).map p.tidOf).map (refEval p obj) := by
    simp only [reads, List.map_map]
    apply List.map_congr_left
    intro c hcm
    have hd := plan_ddeps_complete cfg p store0 fuel t i hinst huc c hcm
    obtain ⟨o, ho⟩ := (mem_yieldedOf _ _).mp (hc.ts.actDeps t ht _ hd)
    obtain ⟨v, rfl, hv⟩ := hr.yOk _ _ ho
    simp only [Function.comp]
    rw [hv]
    exact (hsn _ hd v).mpr ho
  have hall : ∀ o ∈ reads p i snap, o ≠ none := by
    intro o ho
    simp only [reads, List.mem_map] at ho
    obtain ⟨c, hcm, rfl⟩ := ho
    have hd := plan_ddeps_complete cfg p store0 fuel t i hinst huc c hcm
    obtain ⟨o', ho'⟩ := (mem_yieldedOf _ _).mp (hc.ts.actDeps t ht _ hd)
    obtain ⟨v, rfl, _⟩ := hr.yOk _ _ ho'
    rw [(hsn _ hd v).mpr ho']
    simp
  have hunf := refEval_unfold p obj H.acyc H.objOK i
  rw [← H.inst i (obj (p.tidOf i)) (H.objOK i).symm, ← hreads, hti] at hunf
  have hne := H.total t _ hall
  cases hb : p.behave t (reads p i snap) with
  | none => exact absurd hb hne
  | some v => exact ⟨v, rfl, by rw [hunf, hb]⟩

/-- the outcome of a job of an active task is `ok` of its reference value, whatever sound store it
    runs against -/
theorem runOutcome_ref {cfg : Config} {p : Problem} {obj : Tid → Iid} {store0 : Store} {fuel : Nat}
    {req extra : List Tid} {rs : RS} (H : RefHyp p obj)
    (hc : Core p (plan cfg p store0 fuel) rs) (hr : RefInv cfg p obj store0 req extra rs)
    (j : Job) (hact : j.tid ∈ rs.ts.active) (hflag : j.useCache = useCache cfg p store0 j.tid)
    (snap : List (Tid × Val)) (hs : j.snap = some snap)
    (hsn : SnapOK (plan cfg p store0 fuel) rs.trace snap j.tid)
    (st : Store) (hst : StoreSound p obj st) (hsome : j.useCache = true → (lookup j.tid st).isSome) :
    ∃ v, runOutcome p rs.ts st j = .ok v ∧ jobOutcome p rs.ts st j = .ok v ∧
      refEval p obj j.tid = some v := by
  have hj : jobOutcome p rs.ts st j = runOutcome p rs.ts st j := by
    simp [jobOutcome, (H.noFail j.tid).2]
  rw [hj]
  cases huc : j.useCache with
  | true =>
    have := hsome huc
    cases hl : lookup j.tid st with
    | none => rw [hl] at this; simp at this
    | some v => exact ⟨v, by simp [runOutcome, huc, hl], by simp [runOutcome, huc, hl], hst _ _ hl⟩
  | false =>
    obtain ⟨v, hb, hv⟩ := behave_ref H hc hr j.tid hact snap hsn (by rw [← hflag]; exact huc)
    have : runOutcome p rs.ts st j = .ok v := by
      simp only [runOutcome, huc, (H.noFail j.tid).1, hs, Option.getD_some,
        repr0_eq _ _ hc.ts.inst, hb]
      simp
    exact ⟨v, this, this, hv⟩

/-! ## saving results keeps the store sound -/
theorem saveIfRan_sound (p : Problem) (obj : Tid → Iid) (st : Store) (j : Job) (v : Val)
    (hst : StoreSound p obj st) (hv : refEval p obj j.tid = some v) :
    StoreSound p obj (saveIfRan p st j (.ok v)) := by
  simp only [saveIfRan]
  split
  · intro t w hl
    by_cases ht : t = j.tid
    · subst ht
      rw [lookup_cons_filter_self] at hl
      simp only [Option.some.injEq] at hl
      subst hl; exact hv
    · rw [lookup_cons_filter_ne _ _ _ ht] at hl
      exact hst t w hl
  · exact hst

theorem saveIfRan_lookup_ne (p : Problem) (st : Store) (j : Job) (o : Outcome) (t : Tid) (ht : t ≠ j.tid) :
    lookup t (saveIfRan p st j o) = lookup t st := by
  cases o with
  | ok v =>
    simp only [saveIfRan]
    split
    · exact lookup_cons_filter_ne _ _ _ ht _
    · rfl
  | exc => rfl
  | died => rfl

theorem saveIfRan_isSome (p : Problem) (st : Store) (j : Job) (o : Outcome) (t : Tid)
    (h : (lookup t st).isSome) : (lookup t (saveIfRan p st j o)).isSome := by
  by_cases ht : t = j.tid
  · cases o with
    | ok v =>
      simp only [saveIfRan]
      split
      · subst ht; rw [lookup_cons_filter_self]; rfl
      · exact h
    | exc => exact h
    | died => exact h
  · rw [saveIfRan_lookup_ne p st j o t ht]; exact h

/-! ## preservation of the value invariant -/
theorem yieldedOf_append_ny (tr l : List Ev) (h : ∀ e ∈ l, evYield e = none) :
    yieldedOf (tr ++ l) = yieldedOf tr := by
  simp only [yieldedOf, List.filterMap_append]
  rw [filterMap_none _ l h, List.append_nil]

/-- moving to a state whose trace is extended by non-yield events -/
theorem RefInv.transfer {cfg : Config} {p : Problem} {obj : Tid → Iid} {store0 : Store} {req : List Tid}
    {extra extra' : List Tid} {rs rs' : RS} (h : RefInv cfg p obj store0 req extra rs) (l : List Ev)
    (htr : rs'.trace = rs.trace ++ l) (hny : ∀ e ∈ l, evYield e = none)
    (htres : rs'.taskResults = rs.taskResults) (hst : rs'.status = rs.status)
    (hsound : StoreSound p obj rs'.store)
    (hframe : ∀ t, t ∉ yielded rs → t ∉ extra' → lookup t rs'.store = lookup t store0)
    (hflag : ∀ j ∈ rs'.queued ++ rs'.running, j.useCache = useCache cfg p store0 j.tid) :
    RefInv cfg p obj store0 req extra' rs' where
  yOk := by
    intro t o ho
    rw [htr, mem_yield_append_ny _ _ hny] at ho
    exact h.yOk t o ho
  storeSound := hsound
  storeFrame := by
    intro t ht
    simp only [yielded, htr, yieldedOf_append_ny _ _ hny] at ht
    exact hframe t ht
  flag := hflag
  capture := by
    intro t ht v hv
    rw [htr, mem_yield_append_ny _ _ hny] at hv
    rw [htres]
    exact h.capture t ht v hv
  run := by rw [hst]; exact h.run

theorem startProcesses_ref {cfg : Config} {p : Problem} {obj : Tid → Iid} {store0 : Store} {req : List Tid}
    {extra : List Tid} {rs : RS} (h : RefInv cfg p obj store0 req extra rs) :
    RefInv cfg p obj store0 req extra (startProcesses cfg rs) := by
  obtain ⟨go, stay, happ, hsp⟩ := startProcesses_shape cfg rs
  rw [hsp]
  refine h.transfer _ rfl (fun e he => ((quiet_starts _) e he).1) rfl rfl h.storeSound h.storeFrame ?_
  intro j' hj'
  have hj'' : j' ∈ stay ∨ j' ∈ rs.running ∨ j' ∈ go.map (snapF cfg rs) := by
    simpa [List.mem_append] using hj'
  rcases hj'' with h1 | h1 | h1
  · exact h.flag j' (by rw [← happ]; simp [h1])
  · exact h.flag j' (by simp [h1])
  · obtain ⟨j, hj, rfl⟩ := List.mem_map.mp h1
    have := h.flag j (by rw [← happ]; simp [hj])
    simp only [snapF]
    split <;> exact this

/-- the job `submit_task` creates -/
abbrev newJob (cfg : Config) (p : Problem) (rs : RS) (t : Tid) : Job :=
  { tid := t, useCache := useCache cfg p rs.store t,
    snap := if cfg.backend = .spawn
            then some (rs.results.filter (fun kv => kv.1 ∈ rs.ts.ddeps t)) else none }

theorem submitStep_ref {cfg : Config} {p : Problem} {obj : Tid → Iid} {store0 : Store} {fuel : Nat}
    {req : List Tid} {rs : RS} {t : Tid}
    (hc : Core p (plan cfg p store0 fuel) rs) (hr : RefInv cfg p obj store0 req [] rs)
    (ht : t ∈ rs.ts.pending) :
    RefInv cfg p obj store0 req [] (submitTask cfg p { rs with ts := startedTS rs.ts t } t) := by
  have htY : t ∉ yielded rs := hc.ts.disjPY t ht
  have hbase : RefInv cfg p obj store0 req []
      (submitState rs t (newJob cfg p rs t) (useCache cfg p rs.store t)) := by
    refine hr.transfer [Ev.submit t (useCache cfg p rs.store t)] rfl ?_ rfl rfl hr.storeSound hr.storeFrame ?_
    · intro e he; simp only [List.mem_singleton] at he; subst he; rfl
    · intro j' hj'
      have hj'' : j' ∈ rs.queued ∨ j' = newJob cfg p rs t ∨ j' ∈ rs.running := by
        simpa [submitState, List.mem_append] using hj'
      rcases hj'' with h1 | h1 | h1
      · exact hr.flag j' (by simp [h1])
      · subst h1
        exact useCache_congr cfg p _ _ t (hr.storeFrame t htY (by simp))
      · exact hr.flag j' (by simp [h1])
  simp only [submitTask]
  split
  · exact hbase
  · exact startProcesses_ref hbase

theorem submitAll_ref {cfg : Config} {p : Problem} {obj : Tid → Iid} {store0 : Store} {fuel : Nat}
    {req : List Tid} :
    ∀ (l : List Tid) (rs : RS), l.Nodup → (∀ t ∈ l, t ∈ rs.ts.pending ∧ rs.ts.pendDeps t = []) →
      Core p (plan cfg p store0 fuel) rs → Exec cfg (plan cfg p store0 fuel) [] rs →
      RefInv cfg p obj store0 req [] rs →
      RefInv cfg p obj store0 req [] (submitAll cfg p l rs) := by
  intro l
  induction l with
  | nil => intro rs _ _ _ _ hr; exact hr
  | cons t ts ih =>
    intro rs hnd hmem hc he hr
    obtain ⟨ht, hd⟩ := hmem t List.mem_cons_self
    have hnd' := List.nodup_cons.mp hnd
    have hst : startTask rs.ts t = some (startedTS rs.ts t) := by
      simp [startTask, setRemove, ht, startedTS]
    simp only [submitAll, hst]
    obtain ⟨hc', he'⟩ := submitStep_inv (plan_PI cfg p store0 fuel) hc he ht hd
    apply ih _ hnd'.2 _ hc' he' (submitStep_ref hc hr ht)
    intro x hx
    rw [submitTask_ts]
    obtain ⟨hx1, hx2⟩ := hmem x (List.mem_cons_of_mem _ hx)
    refine ⟨?_, hx2⟩
    simp only [List.mem_filter, ne_eq, decide_eq_true_eq]
    exact ⟨hx1, fun hxt => hnd'.1 (hxt ▸ hx)⟩

theorem processYield_store (cfg : Config) (req : List Tid) (rs : RS) (t : Tid) (o : Outcome) :
    (processYield cfg req rs t o).store = rs.store := by
  cases o <;> simp only [processYield] <;> split <;> rfl

/-- handling a successful outcome carrying the reference value -/
theorem yieldStep_ref {cfg : Config} {p : Problem} {obj : Tid → Iid} {store0 : Store} {fuel : Nat}
    {req : List Tid} {extra : List Tid} {rs : RS} {t : Tid} (v : Val)
    (hc : Core p (plan cfg p store0 fuel) rs) (he : Exec cfg (plan cfg p store0 fuel) (t :: extra) rs)
    (hr : RefInv cfg p obj store0 req (t :: extra) rs) (hv : refEval p obj t = some v) :
    RefInv cfg p obj store0 req extra
      (processYield cfg req { rs with futs := rs.futs.filter (· ≠ t) } t (.ok v)) := by
  have htF : t ∈ rs.futs := he.perm.mem_iff.mp (by simp)
  have htA : t ∈ rs.ts.active := (hc.futsAct t).mp htF
  have htY : t ∉ yielded rs := hc.ts.disjAY t htA
  obtain ⟨s', rem, hct, _⟩ := completeTask_TSInv _ (plan_PI cfg p store0 fuel) _ rs.ts t hc.ts htA
  obtain ⟨_, _, h3, h4, ⟨tail, htr, htail⟩, _, _⟩ :=
    processYield_shape cfg req { rs with futs := rs.futs.filter (· ≠ t) } t (.ok v) s' rem hct hr.run
  have hstore := processYield_store cfg req { rs with futs := rs.futs.filter (· ≠ t) } t (.ok v)
  have hyld := processYield_yielded cfg req { rs with futs := rs.futs.filter (· ≠ t) } t (.ok v)
  have htres : (processYield cfg req { rs with futs := rs.futs.filter (· ≠ t) } t (.ok v)).taskResults
      = if t ∈ req then (t, v) :: rs.taskResults.filter (fun kv => kv.1 ≠ t) else rs.taskResults := by
    simp [processYield, hct]
  have hstat : (processYield cfg req { rs with futs := rs.futs.filter (· ≠ t) } t (.ok v)).status
      = rs.status := by
    simp [processYield, hct]
  generalize processYield cfg req { rs with futs := rs.futs.filter (· ≠ t) } t (.ok v) = rs' at *
  simp only at h3 h4 htr hstore hyld
  have hmemY : ∀ t' o', Ev.yield t' o' ∈ rs'.trace →
      (Ev.yield t' o' ∈ rs.trace ∨ (t' = t ∧ o' = .ok v)) := by
    intro t' o' h
    rw [htr] at h
    rcases List.mem_append.mp h with h1 | h1
    · exact Or.inl h1
    · rcases List.mem_cons.mp h1 with h2 | h2
      · simp only [Ev.yield.injEq] at h2; exact Or.inr h2
      · obtain ⟨a, b, hab⟩ := htail _ h2; cases hab
  have hnoT : ∀ o', Ev.yield t o' ∉ rs.trace := fun o' ho' => htY ((mem_yieldedOf _ _).mpr ⟨o', ho'⟩)
  exact {
    yOk := by
      intro t' o' ho'
      rcases hmemY t' o' ho' with h | ⟨h1, h2⟩
      · exact hr.yOk t' o' h
      · subst h1; subst h2; exact ⟨v, rfl, hv⟩
    storeSound := by rw [hstore]; exact hr.storeSound
    storeFrame := by
      intro t' ht' hte
      rw [hyld] at ht'
      simp only [yielded, List.mem_append, List.mem_singleton, not_or] at ht'
      rw [hstore]
      apply hr.storeFrame t' ht'.1
      simp only [List.mem_cons, not_or]
      exact ⟨ht'.2, hte⟩
    flag := by rw [h3, h4]; exact hr.flag
    capture := by
      intro t' ht' v' hv'
      rw [htres]
      rcases hmemY t' _ hv' with h | ⟨h1, h2⟩
      · have hne : t' ≠ t := by intro h'; subst h'; exact hnoT _ h
        have hold := hr.capture t' ht' v' h
        split
        · rw [lookup_cons_filter_ne _ _ _ hne]; exact hold
        · exact hold
      · subst h1
        simp only [Outcome.ok.injEq] at h2
        subst h2
        simp only [ht', if_true]
        exact lookup_cons_filter_self _ _ _
    run := by rw [hstat]; exact hr.run }

theorem processYields_ref {cfg : Config} {p : Problem} {obj : Tid → Iid} {store0 : Store} {fuel : Nat}
    {req : List Tid} :
    ∀ (ys : List (Tid × Outcome)) (rs : RS), Core p (plan cfg p store0 fuel) rs →
      Exec cfg (plan cfg p store0 fuel) (ys.map Prod.fst) rs →
      RefInv cfg p obj store0 req (ys.map Prod.fst) rs →
      (∀ y ∈ ys, ∃ v, y.2 = .ok v ∧ refEval p obj y.1 = some v) →
      RefInv cfg p obj store0 req [] (processYields cfg req ys rs) := by
  intro ys
  induction ys with
  | nil => intro rs _ _ hr _; exact hr
  | cons y rest ih =>
    intro rs hc he hr hys
    obtain ⟨t, o⟩ := y
    obtain ⟨v, ho, hv⟩ := hys (t, o) List.mem_cons_self
    simp only at ho hv
    subst ho
    simp only [processYields]
    split
    · have hr' := yieldStep_ref (t := t) (extra := rest.map Prod.fst) v hc he hr hv
      obtain ⟨hc', he', _⟩ := yieldStep_inv (t := t) (extra := rest.map Prod.fst) req (.ok v)
        (plan_PI cfg p store0 fuel) hc he hr.run
      exact ih _ hc' (he' hr'.run) hr' (fun y hy => hys y (List.mem_cons_of_mem _ hy))
    · next hnr => exact absurd hr.run (by intro h; exact hnr h)

theorem filterMap_congr' {α β} (f g : α → Option β) : ∀ (l : List α), (∀ a ∈ l, f a = g a) →
    l.filterMap f = l.filterMap g := by
  intro l
  induction l with
  | nil => intro _; rfl
  | cons a b ih =>
    intro h
    rw [List.filterMap_cons, List.filterMap_cons, h a List.mem_cons_self,
      ih (fun x hx => h x (List.mem_cons_of_mem _ hx))]

theorem RefInv.perm_extra {cfg : Config} {p : Problem} {obj : Tid → Iid} {store0 : Store} {req : List Tid}
    {extra extra' : List Tid} {rs : RS} (h : RefInv cfg p obj store0 req extra rs)
    (hp : ∀ t, t ∈ extra ↔ t ∈ extra') : RefInv cfg p obj store0 req extra' rs where
  yOk := h.yOk
  storeSound := h.storeSound
  storeFrame := fun t ht hte => h.storeFrame t ht (fun hx => hte ((hp t).mp hx))
  flag := h.flag
  capture := h.capture
  run := h.run

theorem useCache_isSome (cfg : Config) (p : Problem) (st : Store) (t : Tid) (h : useCache cfg p st t = true) :
    (lookup t st).isSome := by
  simp only [useCache, Bool.and_eq_true] at h
  exact h.2

theorem saveAll_sound (p : Problem) (obj : Tid → Iid) (ts : TS) (st0 : Store) :
    ∀ (js : List Job) (st : Store), StoreSound p obj st →
      (∀ t, (lookup t st0).isSome → (lookup t st).isSome) →
      (∀ j ∈ js, ∀ st', StoreSound p obj st' → (∀ t, (lookup t st0).isSome → (lookup t st').isSome) →
        ∃ v, jobOutcome p ts st' j = .ok v ∧ refEval p obj j.tid = some v) →
      StoreSound p obj (saveAll p ts js st) := by
  intro js
  induction js with
  | nil => intro st h _ _; exact h
  | cons j js ih =>
    intro st hs hmono hjs
    simp only [saveAll]
    obtain ⟨v, ho, hv⟩ := hjs j List.mem_cons_self st hs hmono
    rw [ho]
    apply ih _ (saveIfRan_sound p obj st j v hs hv)
    · intro t ht; exact saveIfRan_isSome p st j _ t (hmono t ht)
    · intro j' hj'; exact hjs j' (List.mem_cons_of_mem _ hj')

theorem saveAll_lookup_ne (p : Problem) (ts : TS) (t : Tid) :
    ∀ (js : List Job) (st : Store), (∀ j ∈ js, t ≠ j.tid) → lookup t (saveAll p ts js st) = lookup t st := by
  intro js
  induction js with
  | nil => intro st _; rfl
  | cons j js ih =>
    intro st h
    simp only [saveAll]
    rw [ih _ (fun j' hj' => h j' (List.mem_cons_of_mem _ hj')),
      saveIfRan_lookup_ne p st j _ t (h j List.mem_cons_self)]

theorem waitSerial_ref {cfg : Config} {p : Problem} {obj : Tid → Iid} {store0 : Store} {fuel : Nat}
    {req : List Tid} {rs : RS} (H : RefHyp p obj)
    (hc : Core p (plan cfg p store0 fuel) rs) (he : Exec cfg (plan cfg p store0 fuel) [] rs)
    (hr : RefInv cfg p obj store0 req [] rs) :
    RefInv cfg p obj store0 req [] (waitSerial cfg p req rs) := by
  have hP := plan_PI cfg p store0 fuel
  cases hq : rs.queued with
  | nil =>
    rw [waitSerial_nil cfg p req rs hq]
    refine hr.transfer [Ev.waitEnter (rs.queued.map Job.tid) []] rfl ?_ rfl rfl hr.storeSound hr.storeFrame hr.flag
    intro e he'; simp only [List.mem_singleton] at he'; subst he'; rfl
  | cons j rest =>
    rw [waitSerial_cons cfg p req rs j rest hq]
    obtain ⟨hcA, heA⟩ := serialPre_inv hP hc he j rest hq
    have hjq : j ∈ rs.queued ++ rs.running := by rw [hq]; simp
    have hjA : j.tid ∈ rs.ts.active := he.job_active hc j hjq
    have hjY : j.tid ∉ yielded rs := hc.ts.disjAY _ hjA
    have hflag := hr.flag j hjq
    obtain ⟨v, ho, _, hv⟩ := runOutcome_ref H hc hr { j with snap := some rs.results } hjA hflag
      rs.results rfl (results_snapOK hP hc he j.tid hjY) rs.store hr.storeSound (by
        intro huc
        have huc' : j.useCache = true := huc
        rw [hflag] at huc'
        have := useCache_isSome cfg p store0 j.tid huc'
        rw [← hr.storeFrame j.tid hjY (by simp)] at this
        exact this)
    rw [ho]
    have hrA : RefInv cfg p obj store0 req [j.tid] (serialPre p rs j rest) := by
      refine hr.transfer (serialEvs p rs j) (serialPre_trace p rs j rest)
        (fun e he' => ((serialEvs_quiet p rs j) e he').1) rfl rfl ?_ ?_ ?_
      · show StoreSound p obj (saveIfRan p rs.store { j with snap := some rs.results }
          (runOutcome p rs.ts rs.store { j with snap := some rs.results }))
        rw [ho]
        exact saveIfRan_sound p obj rs.store { j with snap := some rs.results } v hr.storeSound hv
      · intro t ht hte
        show lookup t (saveIfRan p rs.store { j with snap := some rs.results } _) = _
        rw [saveIfRan_lookup_ne p rs.store _ _ t (by simpa using hte)]
        exact hr.storeFrame t ht (by simp)
      · intro j' hj'
        apply hr.flag j'
        have : j' ∈ rest ∨ j' ∈ rs.running := by simpa [serialPre, List.mem_append] using hj'
        rw [hq]
        rcases this with h | h
        · simp [h]
        · simp [h]
    exact yieldStep_ref v hcA heA hrA hv

theorem waitProcess_ref {cfg : Config} {p : Problem} {obj : Tid → Iid} {store0 : Store} {fuel : Nat}
    {req : List Tid} {rs : RS} (H : RefHyp p obj) (c : Choice) (hb : cfg.backend ≠ .serial)
    (hc : Core p (plan cfg p store0 fuel) rs) (he : Exec cfg (plan cfg p store0 fuel) [] rs)
    (hr : RefInv cfg p obj store0 req [] rs) :
    RefInv cfg p obj store0 req [] (waitProcess cfg p req c rs) := by
  have hP := plan_PI cfg p store0 fuel
  obtain ⟨hwp, hcA, heA, hperm, _⟩ := waitProcess_explicit req c hb hc he
  rw [hwp]
  -- the outcome of every finished worker, against any sound store extending the current one
  have hout : ∀ j ∈ finJobs c rs, ∀ st', StoreSound p obj st' →
      (∀ t, (lookup t rs.store).isSome → (lookup t st').isSome) →
      ∃ v, jobOutcome p rs.ts st' j = .ok v ∧ refEval p obj j.tid = some v := by
    intro j hj st' hs' hmono
    have hjr := finJobs_mem c rs j hj
    have hjq : j ∈ rs.queued ++ rs.running := List.mem_append_right _ hjr
    have hjA := he.job_active hc j hjq
    have hjY : j.tid ∉ yielded rs := hc.ts.disjAY _ hjA
    have hflag := hr.flag j hjq
    cases hs : j.snap with
    | none => exact absurd hs (he.runSnap j hjr)
    | some snap =>
      obtain ⟨v, _, ho, hv⟩ := runOutcome_ref H hc hr j hjA hflag snap hs (he.snapOK j hjq snap hs) st' hs' (by
        intro huc
        rw [hflag] at huc
        have := useCache_isSome cfg p store0 j.tid huc
        rw [← hr.storeFrame j.tid hjY (by simp)] at this
        exact hmono _ this)
      exact ⟨v, ho, hv⟩
  have hrA : RefInv cfg p obj store0 req ((finJobs c rs).map Job.tid) (procPre p c rs) := by
    refine hr.transfer (procEvs p c rs) (procPre_trace p c rs)
      (fun e he' => ((procEvs_quiet p c rs) e he').1) rfl rfl ?_ ?_ ?_
    · exact saveAll_sound p obj rs.ts rs.store _ _ hr.storeSound (fun _ h => h) hout
    · intro t ht hte
      show lookup t (saveAll p rs.ts (finJobs c rs) rs.store) = _
      rw [saveAll_lookup_ne p rs.ts t _ _ (by
        intro j hj heq
        exact hte (List.mem_map.mpr ⟨j, hj, heq.symm⟩))]
      exact hr.storeFrame t ht (by simp)
    · intro j' hj'
      apply hr.flag j'
      have : j' ∈ rs.queued ∨ j' ∈ stayJobs c rs := by simpa [procPre, List.mem_append] using hj'
      rcases this with h | h
      · exact List.mem_append_left _ h
      · exact List.mem_append_right _ (stayJobs_mem c rs j' h)
  obtain ⟨hcB, heB⟩ := startProcesses_inv hP hb hcA heA
  have hrB := startProcesses_ref hrA
  apply processYields_ref _ _ hcB (heB.perm_extra hperm.symm)
    (hrB.perm_extra (fun t => hperm.symm.mem_iff))
  intro y hy
  simp only [procYs, List.mem_filterMap] at hy
  obtain ⟨t, _, hfind⟩ := hy
  have hyO := List.mem_of_find?_eq_some hfind
  simp only [procOutcomes, List.mem_map] at hyO
  obtain ⟨j, hj, rfl⟩ := hyO
  obtain ⟨v, ho, hv⟩ := hout j hj rs.store hr.storeSound (fun _ h => h)
  exact ⟨v, ho, hv⟩

theorem iteration_ref {cfg : Config} {p : Problem} {obj : Tid → Iid} {store0 : Store} {fuel : Nat}
    {rs : RS} (H : RefHyp p obj) (c : Choice)
    (h : Reach cfg p (plan cfg p store0 fuel) rs) (hr : RefInv cfg p obj store0 (reqTids p) [] rs) :
    RefInv cfg p obj store0 (reqTids p) [] (iteration cfg p (reqTids p) c rs) := by
  have hP := plan_PI cfg p store0 fuel
  obtain ⟨hc, he, hst⟩ := submitPhase_reach hP h hr.run
  have hnd : (readyTasks p rs.ts).Nodup := (readyAux_sublist p rs.ts rs.ts.pending _).nodup h.1.ts.ndP
  have hmem : ∀ t ∈ readyTasks p rs.ts, t ∈ rs.ts.pending ∧ rs.ts.pendDeps t = [] :=
    fun t ht => (readyTasks_no_pending_deps p rs.ts t ht).symm
  have hrS := submitAll_ref (obj := obj) (req := reqTids p) _ rs hnd hmem h.1 (h.2 hr.run) hr
  simp only [iteration, hst]
  split
  · exact waitSerial_ref H hc he hrS
  · next hb => exact waitProcess_ref H c hb hc he hrS

theorem runLoop_ref {cfg : Config} {p : Problem} {obj : Tid → Iid} {store0 : Store} {fuel : Nat}
    (H : RefHyp p obj) :
    ∀ (sched : List Choice) (rs : RS), Reach cfg p (plan cfg p store0 fuel) rs →
      RefInv cfg p obj store0 (reqTids p) [] rs →
      RefInv cfg p obj store0 (reqTids p) [] (runLoop cfg p (reqTids p) sched rs) := by
  intro sched
  induction sched with
  | nil => intro rs _ hr; exact hr
  | cons c cs ih =>
    intro rs h hr
    simp only [runLoop]
    split
    · next hrun =>
      split
      · exact ih _ (iteration_reach _ (plan_PI cfg p store0 fuel) c h hrun) (iteration_ref H c h hr)
      · exact hr
    · exact hr

theorem initRS_ref (cfg : Config) (p : Problem) (obj : Tid → Iid) (store : Store) (fuel : Nat)
    (hS : StoreSound p obj store) :
    RefInv cfg p obj store (reqTids p) [] (initRS cfg p store fuel) where
  yOk := by intro t o h; simp [initRS] at h
  storeSound := hS
  storeFrame := fun _ _ _ => rfl
  flag := by intro j hj; simp [initRS] at hj
  capture := by intro t _ v h; simp [initRS] at h
  run := rfl

/-- C01: a run of tasks that all succeed returns, for exactly the requested tasks in request order,
    the values of the plain sequential dependency-first evaluation — whatever the backend, worker
    count, per-type limits, completion order and (sound) cache pre-state -/
theorem run_returns_ref (cfg : Config) (p : Problem) (store : Store) (fuel : Nat) (sched : List Choice)
    (obj : Tid → Iid) (H : RefHyp p obj) (hS : StoreSound p obj store) (hF : FuelOK p fuel)
    (hL : LimitsPos cfg p) (hfair : Fair sched)
    (hlen : (plan cfg p store fuel).pending.length + 1 ≤ sched.length) :
    (run cfg p store fuel sched).status =
      .returned ((dedup (reqTids p)).filterMap (fun t => (refEval p obj t).map (fun v => (t, v)))) ∧
    ∀ t ∈ reqTids p, (refEval p obj t).isSome := by
  have hP := plan_PI cfg p store fuel
  obtain ⟨hCl, hLt⟩ := plan_good cfg p store fuel H.acyc hF
  have hreach := reach_all cfg p store fuel sched
  have hr := runLoop_ref H sched _ (initRS_reach cfg p store fuel) (initRS_ref cfg p obj store fuel hS)
  have hterm := runLoop_terminates (reqTids p) hP hCl hLt hL sched _ hfair (initRS_live cfg p store fuel)
    (by
      have : (yielded (initRS cfg p store fuel)).length = 0 := rfl
      rw [this]; omega)
  have hlc : loopCond (loopHead cfg p store fuel sched) = false := by
    rcases hterm with h | h
    · exact absurd hr.run h
    · exact h
  have hlc' := hlc
  simp only [loopCond, Bool.or_eq_false_iff, Bool.not_eq_eq_eq_not, Bool.not_false,
    List.isEmpty_iff] at hlc'
  -- every requested task was yielded with its reference value and captured
  have hreq : ∀ t ∈ reqTids p, ∃ v, refEval p obj t = some v ∧
      lookup t (loopHead cfg p store fuel sched).taskResults = some v := by
    intro t ht
    obtain ⟨i, hi, rfl⟩ := List.mem_map.mp ht
    have hfuel : 0 < fuel := Nat.lt_of_le_of_lt (Nat.zero_le _) (hF i hi)
    have htP := plan_requested_pending cfg p store fuel hfuel i hi
    have htY : p.tidOf i ∈ yielded (loopHead cfg p store fuel sched) := by
      rcases (hreach.1.ts.cover _).mp htP with h | h | h
      · rw [hlc'.1] at h; simp at h
      · have := (hreach.1.futsAct _).mpr h
        rw [hlc'.2] at this; simp at this
      · exact h
    obtain ⟨o, ho⟩ := (mem_yieldedOf _ _).mp htY
    obtain ⟨v, rfl, hv⟩ := hr.yOk _ _ ho
    exact ⟨v, hv, hr.capture _ ht v ho⟩
  constructor
  · show (finish (reqTids p) (loopHead cfg p store fuel sched)).status = _
    simp only [finish, hr.run, hlc]
    simp only [Bool.false_eq_true, if_false, Status.returned.injEq]
    apply filterMap_congr'
    intro t ht
    obtain ⟨v, hv, hl⟩ := hreq t ((mem_dedup _ _).mp ht)
    rw [hv, hl]
  · intro t ht
    obtain ⟨v, hv, _⟩ := hreq t ht
    rw [hv]; rfl

end Lt
