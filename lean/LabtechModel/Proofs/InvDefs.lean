import LabtechModel.Proofs.Plan
/-!
# Hypotheses and ghost sets of the whole-run scheduler invariant

* `Acyclic`, `InstOK`, `LimitsPos`, `FuelOK`, `PlanClosed`, `Fair`: the explicit hypotheses of the
  whole-run theorems (DESIGN.md section 6), each with a concrete satisfying example.
* `yieldedOf`, `okYieldedOf`, `submittedOf`: ghost sets read off the trace.
-/
namespace Lt

/-- dependencies have smaller tids (a naming convention; every finite DAG has one) -/
def Acyclic (p : Problem) : Prop := ∀ i c, c ∈ p.children i → p.tidOf c < p.tidOf i

/-- equal task objects have equal parameters (tid-level) -/
def InstOK (p : Problem) : Prop :=
  ∀ i j, p.tidOf i = p.tidOf j → (p.children i).map p.tidOf = (p.children j).map p.tidOf

def LimitsPos (cfg : Config) (p : Problem) : Prop :=
  0 < cfg.maxWorkers ∧ ∀ T L, p.maxPar T = some L → 0 < L

/-- enough recursion fuel for planning: more than every requested tid (under `Acyclic` each
    recursion level of `process_tasks` has a strictly smaller maximal tid) -/
def FuelOK (p : Problem) (fuel : Nat) : Prop := ∀ i ∈ p.requested, p.tidOf i < fuel

/-- every dependency of a planned task is planned -/
def PlanClosed (s : TS) : Prop := ∀ t ∈ s.pending, ∀ d ∈ s.ddeps t, d ∈ s.pending

/-- every wait delivers at least the outcome of the first running worker -/
def Fair (sched : List Choice) : Prop := ∀ c ∈ sched, c.finish 0 = true

/-! ## ghost sets -/
def evYield : Ev → Option Tid
  | .yield t _ => some t
  | _ => none

def evOkYield : Ev → Option Tid
  | .yield t (.ok _) => some t
  | _ => none

def evSubmit : Ev → Option Tid
  | .submit t _ => some t
  | _ => none

/-- the task a worker record (`exec`: ran `run()`, `load`: loaded from cache) belongs to -/
def evRan : Ev → Option Tid
  | .exec t _ => some t
  | .load t => some t
  | _ => none

def ranOf (tr : List Ev) : List Tid := tr.filterMap evRan

def yieldedOf (tr : List Ev) : List Tid := tr.filterMap evYield
def okYieldedOf (tr : List Ev) : List Tid := tr.filterMap evOkYield
def submittedOf (tr : List Ev) : List Tid := tr.filterMap evSubmit

def yielded (rs : RS) : List Tid := yieldedOf rs.trace
def okYielded (rs : RS) : List Tid := okYieldedOf rs.trace

theorem mem_yieldedOf (tr : List Ev) (t : Tid) : t ∈ yieldedOf tr ↔ ∃ o, Ev.yield t o ∈ tr := by
  simp only [yieldedOf, List.mem_filterMap]
  constructor
  · rintro ⟨e, he, h⟩
    cases e <;> simp [evYield] at h
    subst h; exact ⟨_, he⟩
  · rintro ⟨o, ho⟩; exact ⟨_, ho, rfl⟩

theorem mem_okYieldedOf (tr : List Ev) (t : Tid) : t ∈ okYieldedOf tr ↔ ∃ v, Ev.yield t (.ok v) ∈ tr := by
  simp only [okYieldedOf, List.mem_filterMap]
  constructor
  · rintro ⟨e, he, h⟩
    cases e with
    | yield t' o =>
      cases o <;> simp [evOkYield] at h
      subst h; exact ⟨_, he⟩
    | _ => simp [evOkYield] at h
  · rintro ⟨v, hv⟩; exact ⟨_, hv, rfl⟩

theorem mem_submittedOf (tr : List Ev) (t : Tid) : t ∈ submittedOf tr ↔ ∃ uc, Ev.submit t uc ∈ tr := by
  simp only [submittedOf, List.mem_filterMap]
  constructor
  · rintro ⟨e, he, h⟩
    cases e <;> simp [evSubmit] at h
    subst h; exact ⟨_, he⟩
  · rintro ⟨o, ho⟩; exact ⟨_, ho, rfl⟩

theorem mem_ranOf (tr : List Ev) (t : Tid) :
    t ∈ ranOf tr ↔ (Ev.load t ∈ tr ∨ ∃ seen, Ev.exec t seen ∈ tr) := by
  simp only [ranOf, List.mem_filterMap]
  constructor
  · rintro ⟨e, he, h⟩
    cases e <;> simp [evRan] at h
    · subst h; exact Or.inr ⟨_, he⟩
    · subst h; exact Or.inl he
  · rintro (h | ⟨seen, h⟩)
    · exact ⟨_, h, rfl⟩
    · exact ⟨_, h, rfl⟩

/-! ## the hypotheses are satisfiable: a diamond with a duplicated object -/
def invExP : Problem where
  tidOf := fun i => if i = 4 then 0 else i
  children := fun i => if i = 3 then [1, 2] else if i = 1 then [0] else if i = 2 then [4] else []
  requested := [3, 1]
  ty := fun t => t % 2
  maxPar := fun T => if T = 0 then some 1 else none
  cacheable := fun _ => true
  fails := fun _ => false
  dies := fun _ => false
  behave := fun t vs => some (1000 * t + (vs.map (fun o => o.getD 7)).foldl (· + ·) 0)

def invExCfg : Config := { backend := .fork, maxWorkers := 2, contOnFail := true, bust := false }

example : Acyclic invExP := by
  intro i c h
  simp only [invExP] at h ⊢
  split at h
  · simp at h; rcases h with h | h <;> subst h <;> simp_all
  · split at h
    · simp at h; subst h; simp_all
    · split at h
      · simp at h; subst h; simp_all
      · simp at h

example : InstOK invExP := by
  intro i j h
  simp only [invExP] at h ⊢
  by_cases h4 : i = 4 <;> by_cases h4' : j = 4 <;> simp_all <;> grind

example : LimitsPos invExCfg invExP := by
  refine ⟨by decide, ?_⟩
  intro T L h
  simp only [invExP] at h
  split at h <;> simp at h
  omega

example : FuelOK invExP 4 := by
  intro i hi
  simp [invExP] at hi ⊢
  rcases hi with h | h <;> subst h <;> simp

example : PlanClosed (plan invExCfg invExP [] 4) := by
  intro t ht d hd
  have h1 : (plan invExCfg invExP [] 4).pending = [3, 1, 2, 0] := by decide
  rw [h1] at ht ⊢
  simp at ht
  rcases ht with h | h | h | h <;> subst h
  · have : (plan invExCfg invExP [] 4).ddeps 3 = [1, 2] := by decide
    rw [this] at hd; simp at hd; rcases hd with h | h <;> subst h <;> simp
  · have : (plan invExCfg invExP [] 4).ddeps 1 = [0] := by decide
    rw [this] at hd; simp at hd; subst hd; simp
  · have : (plan invExCfg invExP [] 4).ddeps 2 = [0] := by decide
    rw [this] at hd; simp at hd; subst hd; simp
  · have : (plan invExCfg invExP [] 4).ddeps 0 = [] := by decide
    rw [this] at hd; simp at hd

example : Fair [⟨fun _ => true⟩, ⟨fun i => i == 0⟩] := by
  intro c hc
  simp at hc
  rcases hc with h | h <;> subst h <;> rfl

end Lt
