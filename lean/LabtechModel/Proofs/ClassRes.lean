import LabtechModel.Model.ClassRes
import LabtechModel.Model.Params
/-!
# Class resolution (`deserialize_class`, D26) and enum-member resolution (`deserialize_enum`, D27): lemmas

* `splitStr_joinStr`: splitting a joined component list gives the components back.
* `resolveComps_roundtrip`: the round trip under `NoShadow`; `resolveComps_old_ok`, `resolveComps_error`:
  the rule is a conservative extension of the split-at-the-last-dot rule; error behaviour.
* `enumMember_memberName`: a Flag value comes back from the name `serialize_enum` writes for it.
-/
namespace Lt.ClassRes

/-! ### split / join -/

theorem splitOnC_ne_nil (c : Char) : ∀ l, splitOnC c l ≠ []
  | [] => by simp [splitOnC]
  | x :: xs => by
    simp only [splitOnC]
    split
    · simp
    · split <;> simp

theorem splitOnC_free (c : Char) : ∀ (p : List Char), (∀ x ∈ p, x ≠ c) → splitOnC c p = [p]
  | [], _ => rfl
  | x :: xs, h => by
    have hx : x ≠ c := h x (by simp)
    have := splitOnC_free c xs (fun y hy => h y (by simp [hy]))
    simp [splitOnC, this, hx]

theorem splitOnC_append (c : Char) (rest : List Char) :
    ∀ (p : List Char), (∀ x ∈ p, x ≠ c) → splitOnC c (p ++ c :: rest) = p :: splitOnC c rest
  | [], _ => by
    simp only [List.nil_append, splitOnC]
    cases h : splitOnC c rest with
    | nil => exact absurd h (splitOnC_ne_nil c rest)
    | cons a b => simp
  | x :: xs, h => by
    have hx : x ≠ c := h x (by simp)
    have := splitOnC_append c rest xs (fun y hy => h y (by simp [hy]))
    simp [splitOnC, this, hx]

theorem splitOnC_joinC (c : Char) : ∀ (ps : List (List Char)), ps ≠ [] → (∀ p ∈ ps, ∀ x ∈ p, x ≠ c) →
    splitOnC c (joinC c ps) = ps
  | [], h, _ => absurd rfl h
  | [p], _, h => by simpa [joinC] using splitOnC_free c p (h p (by simp))
  | p :: q :: rest, _, h => by
    simp only [joinC]
    rw [splitOnC_append c _ p (h p (by simp)), splitOnC_joinC c (q :: rest) (by simp) (fun r hr => h r (by simp [hr]))]

theorem freeOf_iff (c : Char) (s : String) : freeOf c s = true ↔ ∀ x ∈ s.toList, x ≠ c := by
  simp [freeOf]

theorem splitStr_joinStr (c : Char) (ps : List String) (hne : ps ≠ []) (h : ∀ p ∈ ps, freeOf c p = true) :
    splitStr c (joinStr c ps) = ps := by
  simp only [splitStr, joinStr, String.toList_ofList]
  rw [splitOnC_joinC c _ (by simpa using hne)]
  · simp [Function.comp_def, String.ofList_toList]
  · intro p hp
    obtain ⟨s, hs, rfl⟩ := List.mem_map.mp hp
    exact (freeOf_iff c s).mp (h s hs)

theorem joinC_append (c : Char) : ∀ (a b : List (List Char)), a ≠ [] → b ≠ [] →
    joinC c (a ++ b) = joinC c a ++ c :: joinC c b
  | [], _, h, _ => absurd rfl h
  | [p], b, _, hb => by
    cases b with
    | nil => exact absurd rfl hb
    | cons q rest => simp [joinC]
  | p :: q :: rest, b, _, hb => by
    have := joinC_append c (q :: rest) b (by simp) hb
    simp only [List.cons_append] at this ⊢
    simp [joinC, this]

/-- the class string is the one the serialisation model (`Params.ClassRef.ser`) writes for the dotted module and
qualified name -/
theorem ser_eq_classRef_ser (m q : List String) (hm : m ≠ []) (hq : q ≠ []) :
    ser m q = (Lt.Params.ClassRef.mk (joinStr '.' m) (joinStr '.' q)).ser := by
  simp only [ser, Lt.Params.ClassRef.ser, joinStr, List.map_append]
  rw [joinC_append '.' _ _ (by simpa using hm) (by simpa using hq)]
  apply String.toList_injective
  simp [String.toList_append]

/-! ### imports -/

theorem importFrom_append (w : World) : ∀ (a done b : List String),
    importFrom w done (a ++ b) = match importFrom w done a with
      | .ok => importFrom w (done ++ a) b
      | e => e
  | [], done, b => by simp [importFrom]
  | x :: a, done, b => by
    simp only [List.cons_append, importFrom]
    split
    · split
      · rfl
      · rw [importFrom_append w a (done ++ [x]) b]
        simp
    · rfl

/-- every parent of `m` (and `m`) is a module, and none of them fails while it executes -/
def Importable (w : World) (m : List String) : Prop :=
  ∀ i, 0 < i → i ≤ m.length → w.modules.contains (m.take i) = true ∧ w.broken.contains (m.take i) = false

theorem importFrom_ok (w : World) : ∀ (rest done : List String),
    (∀ i, 0 < i → i ≤ rest.length →
      w.modules.contains (done ++ rest.take i) = true ∧ w.broken.contains (done ++ rest.take i) = false) →
    importFrom w done rest = .ok
  | [], _, _ => rfl
  | x :: rest, done, h => by
    have h1 := h 1 (by omega) (by simp)
    simp only [List.take_succ_cons, List.take_zero] at h1
    simp only [importFrom, h1.1, h1.2, if_true]
    apply importFrom_ok w rest (done ++ [x])
    intro i hi hle
    have := h (i + 1) (by omega) (by simp; omega)
    simpa using this

theorem importMod_ok (w : World) (m : List String) (h : Importable w m) : importMod w m = .ok :=
  importFrom_ok w m [] (by simpa [Importable] using h)

/-! ### the attribute walk -/

/-- every non-empty prefix of `q` is an attribute chain of module `m`: `getattr` succeeds at every step -/
def HasAttrPath (w : World) (m q : List String) : Prop :=
  ∀ i, 0 < i → i ≤ q.length → (w.attrsOf m).contains (q.take i) = true

/-- no proper extension of the module path by a prefix of the qualified name is itself a module -/
def NoShadow (w : World) (m q : List String) : Prop :=
  ∀ i, 0 < i → i < q.length → w.modules.contains (m ++ q.take i) = false

theorem walkFrom_ok (w : World) (m : List String) : ∀ (rest ap : List String),
    (∀ i, 0 < i → i ≤ rest.length → (w.attrsOf m).contains (ap ++ rest.take i) = true) →
    walkFrom w m ap rest = some (m, ap ++ rest)
  | [], ap, _ => by simp [walkFrom]
  | x :: rest, ap, h => by
    have h1 := h 1 (by omega) (by simp)
    simp only [List.take_succ_cons, List.take_zero] at h1
    simp only [walkFrom, h1, if_true]
    rw [walkFrom_ok w m rest (ap ++ [x])]
    · simp
    · intro i hi hle
      have := h (i + 1) (by omega) (by simp; omega)
      simpa using this

theorem walk_ok (w : World) (m q : List String) (hq : q ≠ []) (h : HasAttrPath w m q) : walk w m q = .ok (m, q) := by
  cases q with
  | nil => exact absurd rfl hq
  | cons a rest =>
    have h1 := h 1 (by omega) (by simp)
    simp only [List.take_succ_cons, List.take_zero] at h1
    have := walkFrom_ok w m rest [a] (by
      intro i hi hle
      have := h (i + 1) (by omega) (by simp; omega)
      simpa using this)
    have h1' : [a] ∈ w.attrsOf m := by simpa using h1
    simp [walk, h1', this]

/-! ### the round trip -/

theorem take_length_add {α : Type} (m q : List α) (j : Nat) : (m ++ q).take (m.length + j) = m ++ q.take j := by
  induction m with
  | nil => simp
  | cons x m ih => simp [Nat.succ_add, ih]

theorem drop_length_add {α : Type} (m q : List α) (j : Nat) : (m ++ q).drop (m.length + j) = q.drop j := by
  induction m with
  | nil => simp
  | cons x m ih => simp [Nat.succ_add, ih]

theorem resolveAt_roundtrip (w : World) (m q : List String) (hm : m ≠ []) (himp : importMod w m = .ok)
    (hq : q ≠ []) (hattr : HasAttrPath w m q) (hns : NoShadow w m q) :
    ∀ j, j < q.length → resolveAt w (m ++ q) (m.length + j) = .ok (m, q) := by
  have hmlen : 0 < m.length := List.length_pos_iff.mpr hm
  intro j
  induction j with
  | zero =>
    intro _
    obtain ⟨k, hk⟩ : ∃ k, m.length + 0 = k + 1 := ⟨m.length - 1, by omega⟩
    rw [hk]
    simp only [resolveAt]
    rw [← hk, take_length_add, drop_length_add]
    simp only [List.take_zero, List.append_nil, List.drop_zero]
    cases q with
    | nil => exact absurd rfl hq
    | cons a rest =>
      have h1 := hattr 1 (by omega) (by simp)
      simp only [List.take_succ_cons, List.take_zero] at h1
      simp only [List.headD_cons, importWith, himp, h1, if_true]
      exact walk_ok w m (a :: rest) hq hattr
  | succ j ih =>
    intro hj
    obtain ⟨k, hk⟩ : ∃ k, m.length + (j + 1) = k + 1 := ⟨m.length + j, by omega⟩
    rw [hk]
    simp only [resolveAt]
    rw [← hk, take_length_add, drop_length_add]
    have hnf : importMod w (m ++ q.take (j + 1)) = .notFound := by
      cases q with
      | nil => exact absurd rfl hq
      | cons a rest =>
        have h1 := hns 1 (by omega) (by simp at hj ⊢; omega)
        simp only [List.take_succ_cons, List.take_zero] at h1
        have h1' : m ++ [a] ∉ w.modules := by simpa using h1
        simp only [importMod] at himp ⊢
        rw [importFrom_append, himp]
        simp [importFrom, h1']
    have hk0 : k ≠ 0 := by omega
    simp only [importWith, hnf, hk0, if_false]
    have : k = m.length + j := by omega
    rw [this]
    exact ih (by omega)

/-- **round trip, on components**: a class with module path `m` and qualified name `q` is found again, provided no
`m ++ q.take i` (0 < i < |q|) is itself a module -/
theorem resolveComps_roundtrip (w : World) (m q : List String) (hm : m ≠ []) (himp : Importable w m)
    (hq : q ≠ []) (hattr : HasAttrPath w m q) (hns : NoShadow w m q) :
    resolveComps w (m ++ q) = .ok (m, q) := by
  have hmlen : 0 < m.length := List.length_pos_iff.mpr hm
  have hqlen : 0 < q.length := List.length_pos_iff.mpr hq
  simp only [resolveComps, List.length_append]
  rw [if_neg (by omega)]
  have : m.length + q.length - 1 = m.length + (q.length - 1) := by omega
  rw [this]
  exact resolveAt_roundtrip w m q hm (importMod_ok w m himp) hq hattr hns _ (by omega)

/-! ### conservative extension, errors -/

theorem walk_error_of_shifted (w : World) (M names : List String) (h : 2 ≤ names.length) (e : ResErr)
    (he : walk w M names = .error e) : e = .moduleNotFound := by
  have h1 : ¬ names.length = 1 := by omega
  simp only [walk] at he
  split at he
  · cases he
  · simp only [h1, if_false] at he
    cases he
    rfl

theorem resolveAt_error (w : World) (comps : List String) : ∀ k, k + 2 ≤ comps.length → ∀ e,
    resolveAt w comps k = .error e → e = .moduleNotFound
  | 0, _, e, he => by
    simp only [resolveAt] at he
    cases he; rfl
  | k + 1, hk, e, he => by
    simp only [resolveAt] at he
    split at he
    · exact walk_error_of_shifted w _ _ (by simp; omega) e he
    · cases he; rfl
    · split at he
      · cases he; rfl
      · exact resolveAt_error w comps k (by omega) e he

/-- whenever the old rule finds an object, the new rule finds the same one -/
theorem resolveComps_old_ok (w : World) (comps : List String) (o : Obj)
    (h : resolveOldComps w comps = .ok o) : resolveComps w comps = .ok o := by
  simp only [resolveOldComps] at h
  simp only [resolveComps]
  split at h
  · cases h
  · rename_i hlen
    rw [if_neg hlen]
    obtain ⟨k, hk⟩ : ∃ k, comps.length - 1 = k + 1 := ⟨comps.length - 2, by omega⟩
    rw [hk] at h ⊢
    simp only [resolveAt]
    split at h
    · rename_i himp
      simp only [himp]
      exact h
    · cases h

/-- whenever the new rule fails, the old rule fails with the same error -/
theorem resolveComps_error (w : World) (comps : List String) (e : ResErr)
    (h : resolveComps w comps = .error e) : resolveOldComps w comps = .error e := by
  simp only [resolveComps] at h
  simp only [resolveOldComps]
  split at h
  · rename_i hlen
    rw [if_pos hlen]
    exact h
  · rename_i hlen
    rw [if_neg hlen]
    obtain ⟨k, hk⟩ : ∃ k, comps.length - 1 = k + 1 := ⟨comps.length - 2, by omega⟩
    rw [hk] at h ⊢
    simp only [resolveAt] at h
    split at h
    · rename_i himp
      simp only [himp]
      exact h
    · rename_i himp
      simp only [himp]
      exact h
    · rename_i himp
      simp only [himp]
      split at h
      · exact h
      · rw [resolveAt_error w comps k (by omega) e h]

/-- a string whose first component is no importable module: `ModuleNotFoundError` under both rules -/
theorem resolveAt_unknown_top (w : World) (c0 : String) (rest : List String)
    (h : w.modules.contains [c0] = false) : ∀ k, resolveAt w (c0 :: rest) k = .error .moduleNotFound
  | 0 => rfl
  | k + 1 => by
    have : importWith w ((c0 :: rest).take (k + 1)) (((c0 :: rest).drop (k + 1)).headD "") = .notFound := by
      have h' : [c0] ∉ w.modules := by simpa using h
      simp [importWith, importMod, importFrom, h']
    simp only [resolveAt, this]
    split
    · rfl
    · exact resolveAt_unknown_top w c0 rest h k

theorem resolveComps_unknown_top (w : World) (c0 : String) (rest : List String) (hrest : rest ≠ [])
    (h : w.modules.contains [c0] = false) :
    resolveComps w (c0 :: rest) = .error .moduleNotFound ∧ resolveOldComps w (c0 :: rest) = .error .moduleNotFound := by
  have hlen : 0 < rest.length := List.length_pos_iff.mpr hrest
  have hnew : resolveComps w (c0 :: rest) = .error .moduleNotFound := by
    simp only [resolveComps, List.length_cons]
    rw [if_neg (by omega)]
    exact resolveAt_unknown_top w c0 rest h _
  exact ⟨hnew, resolveComps_error w _ _ hnew⟩

/-- an importable module path followed by one name that is neither an attribute of the module nor a submodule:
`AttributeError` under both rules -/
theorem resolveComps_unknown_attr (w : World) (M : List String) (a : String) (hM : M ≠ [])
    (himp : Importable w M) (hattr : (w.attrsOf M).contains [a] = false) (hmod : w.modules.contains (M ++ [a]) = false) :
    resolveComps w (M ++ [a]) = .error .attributeError ∧ resolveOldComps w (M ++ [a]) = .error .attributeError := by
  have hmlen : 0 < M.length := List.length_pos_iff.mpr hM
  have hok := importMod_ok w M himp
  have hsub : importMod w (M ++ [a]) = .notFound := by
    simp only [importMod] at hok ⊢
    have hmod' : M ++ [a] ∉ w.modules := by simpa using hmod
    rw [importFrom_append, hok]
    simp [importFrom, hmod']
  have hnew : resolveComps w (M ++ [a]) = .error .attributeError := by
    simp only [resolveComps, List.length_append, List.length_singleton]
    rw [if_neg (by omega)]
    obtain ⟨k, hk⟩ : ∃ k, M.length + 1 - 1 = k + 1 := ⟨M.length - 1, by omega⟩
    rw [hk]
    simp only [resolveAt]
    have hk' : k + 1 = M.length + 0 := by omega
    rw [hk', take_length_add, drop_length_add]
    have hattr' : [a] ∉ w.attrsOf M := by simpa using hattr
    have hmod' : M ++ [a] ∉ w.modules := by simpa using hmod
    simp [importWith, hok, hattr', hsub, walk, hmod']
  exact ⟨hnew, resolveComps_error w _ _ hnew⟩

/-! ### enum members (D27) -/

/-- a member name as Python allows it: not empty, does not start with a digit, no `|` -/
def identLike (s : String) : Bool :=
  match s.toList with
  | [] => false
  | c :: cs => !c.isDigit && (c :: cs).all (fun x => x != '|')

/-- member names are distinct identifiers -/
structure EnumCls.WF (e : EnumCls) : Prop where
  names_nodup : (e.members.map Prod.fst).Nodup
  ident : ∀ p ∈ e.members, identLike p.1 = true

theorem find_by_name : ∀ (l : List (String × Nat)), (l.map Prod.fst).Nodup → ∀ p ∈ l,
    l.find? (fun x => x.1 == p.1) = some p
  | [], _, p, hp => by cases hp
  | x :: l, hn, p, hp => by
    simp only [List.map_cons, List.nodup_cons] at hn
    simp only [List.find?_cons]
    by_cases hx : x.1 = p.1
    · have : p = x := by
        rcases List.mem_cons.mp hp with h | h
        · exact h
        · exact absurd (List.mem_map.mpr ⟨p, h, hx.symm⟩) hn.1
      simp [this]
    · have hpl : p ∈ l := by
        rcases List.mem_cons.mp hp with h | h
        · exact absurd (by rw [h]) hx
        · exact h
      have hb : (x.1 == p.1) = false := by simp [hx]
      simp [hb, find_by_name l hn.2 p hpl]

theorem byName_mem (e : EnumCls) (hwf : e.WF) (p : String × Nat) (hp : p ∈ e.members) : e.byName p.1 = some p.2 := by
  simp [EnumCls.byName, find_by_name e.members hwf.names_nodup p hp]

theorem byName_some (e : EnumCls) (n : String) (v : Nat) (h : e.byName n = some v) : (n, v) ∈ e.members := by
  simp only [EnumCls.byName] at h
  split at h
  · rename_i p hp
    have h1 := List.mem_of_find?_eq_some hp
    have h2 := List.find?_some hp
    simp only [beq_iff_eq] at h2
    cases h
    rw [← h2]
    exact h1
  · cases h

theorem nameOf_some (e : EnumCls) (v : Nat) (n : String) (h : e.nameOf v = some n) : (n, v) ∈ e.members := by
  simp only [EnumCls.nameOf] at h
  split at h
  · rename_i p hp
    have h1 := List.mem_of_find?_eq_some hp
    have h2 := List.find?_some hp
    simp only [beq_iff_eq] at h2
    cases h
    rw [← h2]
    exact h1
  · cases h

theorem nameOf_none (e : EnumCls) (v : Nat) (h : e.nameOf v = none) : ∀ p ∈ e.members, p.2 ≠ v := by
  simp only [EnumCls.nameOf] at h
  split at h
  · cases h
  · rename_i hp
    intro p hpm hv
    have := List.find?_eq_none.mp hp p hpm
    simp [hv] at this

/-! digits -/

theorem digitsOf_toList (n : Nat) : (digitsOf n).toList = Nat.toDigits 10 n := by simp [digitsOf]

theorem parseNat_digitsOf (n : Nat) : parseNat (digitsOf n) = some n := by
  simp only [parseNat, digitsOf_toList]
  have h1 : (Nat.toDigits 10 n).isEmpty = false := by
    cases h : Nat.toDigits 10 n with
    | nil => exact absurd h Nat.toDigits_ne_nil
    | cons a b => rfl
  have h2 : (Nat.toDigits 10 n).all Char.isDigit = true := by
    simp only [List.all_eq_true]
    intro c hc
    exact Nat.isDigit_of_mem_toDigits (b := 10) (by decide) (by decide) hc
  simp [h1, h2, Nat.ofDigitChars_ten_toDigits]

theorem digitsOf_not_ident (n : Nat) : identLike (digitsOf n) = false := by
  simp only [identLike, digitsOf_toList]
  cases h : Nat.toDigits 10 n with
  | nil => rfl
  | cons c cs =>
    have : c.isDigit = true := Nat.isDigit_of_mem_toDigits (b := 10) (by decide) (by decide) (by rw [h]; simp)
    simp [this]

theorem digitsOf_free (n : Nat) : freeOf '|' (digitsOf n) = true := by
  rw [freeOf_iff, digitsOf_toList]
  intro x hx hxe
  have := Nat.isDigit_of_mem_toDigits (b := 10) (by decide) (by decide) hx
  rw [hxe] at this
  exact absurd this (by decide)

theorem identLike_free (s : String) (h : identLike s = true) : freeOf '|' s = true := by
  simp only [identLike] at h
  split at h
  · cases h
  · rename_i c cs hs
    simp only [Bool.and_eq_true] at h
    simp only [freeOf, hs]
    exact h.2

theorem byName_not_ident (e : EnumCls) (hwf : e.WF) (s : String) (h : identLike s = false) : e.byName s = none := by
  cases hb : e.byName s with
  | none => rfl
  | some v =>
    have := hwf.ident _ (byName_some e s v hb)
    simp [h] at this

theorem joinStr_not_ident (a b : String) (rest : List String) : identLike (joinStr '|' (a :: b :: rest)) = false := by
  simp only [identLike, joinStr, String.toList_ofList, List.map_cons, joinC]
  split
  · rfl
  · rename_i c cs hs
    have hmem : '|' ∈ c :: cs := by rw [← hs]; simp
    have : (c :: cs).all (fun x => x != '|') = false := by
      rw [List.all_eq_false]
      exact ⟨'|', hmem, by simp⟩
    simp [this]

/-! bit sets: `x &&& v = x` is "x is a subset of v" -/

theorem sub_iff (x v : Nat) : x &&& v = x ↔ ∀ i, x.testBit i = true → v.testBit i = true := by
  constructor
  · intro h i hi
    have := congrArg (fun n => n.testBit i) h
    simp only [Nat.testBit_and, hi, Bool.true_and] at this
    exact this
  · intro h
    apply Nat.eq_of_testBit_eq
    intro i
    simp only [Nat.testBit_and]
    cases hx : x.testBit i
    · simp
    · simp [h i hx]

theorem sub_trans {x v s : Nat} (h1 : x &&& v = x) (h2 : v &&& s = v) : x &&& s = x := by
  rw [sub_iff] at *
  intro i hi
  exact h2 i (h1 i hi)

theorem sub_or {a b v : Nat} (h1 : a &&& v = a) (h2 : b &&& v = b) : (a ||| b) &&& v = a ||| b := by
  rw [sub_iff] at *
  intro i hi
  simp only [Nat.testBit_or, Bool.or_eq_true] at hi
  rcases hi with hi | hi
  · exact h1 i hi
  · exact h2 i hi

theorem orAll_sub (v : Nat) : ∀ (l : List Nat), (∀ x ∈ l, x &&& v = x) → orAll l &&& v = orAll l
  | [], _ => by simp [orAll]
  | x :: l, h => by
    have := orAll_sub v l (fun y hy => h y (by simp [hy]))
    simp only [orAll, List.foldr_cons] at this ⊢
    exact sub_or (h x (by simp)) this

theorem xor_sub {c v : Nat} (_h : c &&& v = c) : (v ^^^ c) &&& v = v ^^^ c := by
  rw [sub_iff] at *
  intro i hi
  simp only [Nat.testBit_xor] at hi
  cases hv : v.testBit i
  · have hc : c.testBit i = true := by simpa [hv] using hi
    have := _h i hc
    simp [hv] at this
  · rfl

theorem or_xor {c v : Nat} (h : c &&& v = c) : c ||| (v ^^^ c) = v := by
  rw [sub_iff] at h
  apply Nat.eq_of_testBit_eq
  intro i
  simp only [Nat.testBit_or, Nat.testBit_xor]
  cases hc : c.testBit i
  · simp
  · simp [h i hc]

theorem eq_of_xor_zero {c v : Nat} (h : v ^^^ c = 0) : v = c := by
  apply Nat.eq_of_testBit_eq
  intro i
  have := congrArg (fun n => n.testBit i) h
  simp only [Nat.testBit_xor, Nat.zero_testBit] at this
  cases hv : v.testBit i <;> cases hc : c.testBit i <;> simp [hv, hc] at this ⊢

theorem orAll_append (a b : List Nat) : orAll (a ++ b) = orAll a ||| orAll b := by
  induction a with
  | nil => simp [orAll]
  | cons x a ih =>
    simp only [orAll, List.cons_append, List.foldr_cons] at ih ⊢
    rw [ih, Nat.or_assoc]

/-! validity -/

theorem flag_of_valid (e : EnumCls) (v : Nat) (hnone : e.nameOf v = none) (hv : e.valid v = true) :
    e.isFlag = true ∧ (e.keep = true ∨ v &&& e.singles = v) := by
  simp only [EnumCls.valid, hnone, Option.isSome_none, Bool.false_or, Bool.and_eq_true, Bool.or_eq_true, beq_iff_eq] at hv
  exact hv

theorem valid_of_sub (e : EnumCls) (v y : Nat) (hnone : e.nameOf v = none) (hv : e.valid v = true)
    (hy : y &&& v = y) : e.valid y = true := by
  obtain ⟨hf, hk⟩ := flag_of_valid e v hnone hv
  simp only [EnumCls.valid, hf, Bool.true_and, Bool.or_eq_true, beq_iff_eq]
  right
  rcases hk with hk | hk
  · left; exact hk
  · right; exact sub_trans hy hk

/-! the fold over the parts -/

theorem combine_eq (e : EnumCls) (v : Nat) (hvalid : ∀ y, y &&& v = y → e.valid y = true) :
    ∀ (l : List (String × Nat)) (acc : Nat), acc &&& v = acc →
      (∀ p ∈ l, e.part p.1 = some p.2 ∧ p.2 &&& v = p.2) →
      combine e acc (l.map Prod.fst) = some (acc ||| orAll (l.map Prod.snd))
  | [], acc, _, _ => by simp [combine, orAll]
  | p :: l, acc, hacc, h => by
    have hp := h p (by simp)
    have hsub := sub_or hacc hp.2
    simp only [List.map_cons, combine, hp.1, EnumCls.construct, hvalid _ hsub, if_true]
    rw [combine_eq e v hvalid l (acc ||| p.2) hsub (fun q hq => h q (by simp [hq]))]
    simp only [orAll, List.foldr_cons, Nat.or_assoc]

theorem parts_mem (e : EnumCls) (v : Nat) : ∀ p ∈ e.parts v, p ∈ e.members ∧ p.2 &&& v = p.2 := by
  intro p hp
  simp only [EnumCls.parts, List.mem_append] at hp
  rcases hp with hp | hp
  · simp only [List.mem_filter, Bool.and_eq_true, beq_iff_eq] at hp
    exact ⟨hp.1, hp.2.2⟩
  · split at hp
    · cases hp
    · simp only [List.mem_filter, Bool.and_eq_true, beq_iff_eq] at hp
      exact ⟨hp.1, hp.2.2⟩

theorem part_digits (e : EnumCls) (hwf : e.WF) (n : Nat) (hv : e.valid n = true) : e.part (digitsOf n) = some n := by
  simp [EnumCls.part, byName_not_ident e hwf _ (digitsOf_not_ident n), parseNat_digitsOf, EnumCls.construct, hv]

/-- **D27, C09 half**: the name `serialize_enum` writes for a value leads `deserialize_enum` back to that value -/
theorem enumMember_memberName (e : EnumCls) (hwf : e.WF) (v : Nat) (s : String)
    (h : memberName e v = some s) : enumMember e s = .ok v := by
  simp only [memberName] at h
  split at h
  · cases h
  · rename_i hvalid
    have hvalid : e.valid v = true := by simpa using hvalid
    split at h
    · -- a member of its own
      rename_i n hn
      cases h
      have := byName_mem e hwf _ (nameOf_some e v _ hn)
      simp only at this
      simp [enumMember, this]
    · rename_i hnone
      obtain ⟨hflag, _⟩ := flag_of_valid e v hnone hvalid
      have hsubvalid : ∀ y, y &&& v = y → e.valid y = true := fun y hy => valid_of_sub e v y hnone hvalid hy
      have hps := parts_mem e v
      have hcsub : orAll ((e.parts v).map Prod.snd) &&& v = orAll ((e.parts v).map Prod.snd) :=
        orAll_sub v _ (by
          intro x hx
          obtain ⟨p, hp, rfl⟩ := List.mem_map.mp hx
          exact (hps p hp).2)
      have hpart : ∀ p ∈ e.parts v, e.part p.1 = some p.2 ∧ p.2 &&& v = p.2 := by
        intro p hp
        refine ⟨?_, (hps p hp).2⟩
        simp [EnumCls.part, byName_mem e hwf p (hps p hp).1]
      split at h
      · -- no named part: the number
        cases h
        have hb := byName_not_ident e hwf _ (digitsOf_not_ident v)
        have hsplit : splitStr '|' (digitsOf v) = [digitsOf v] := by
          have := splitStr_joinStr '|' [digitsOf v] (by simp) (by simp [digitsOf_free])
          simpa [joinStr, joinC, String.ofList_toList] using this
        have := combine_eq e v hsubvalid [(digitsOf v, v)] 0 (by simp)
          (by simp [part_digits e hwf v hvalid])
        simp only [List.map_cons, List.map_nil, orAll, List.foldr_cons, List.foldr_nil, Nat.or_zero, Nat.zero_or] at this
        simp [enumMember, hb, hflag, hsplit, this]
      · rename_i hcomb
        simp only [beq_iff_eq] at hcomb
        cases h
        -- the list of parts with their values
        generalize hl : (e.parts v).map Prod.fst ++
          (if (v ^^^ orAll ((e.parts v).map Prod.snd) == 0) = true then [] else [digitsOf (v ^^^ orAll ((e.parts v).map Prod.snd))]) = names
        let u := v ^^^ orAll ((e.parts v).map Prod.snd)
        let l : List (String × Nat) := e.parts v ++ (if u = 0 then [] else [(digitsOf u, u)])
        have hnames : names = l.map Prod.fst := by
          rw [← hl]
          simp only [l, u, beq_iff_eq, List.map_append]
          split <;> simp
        have hpne : e.parts v ≠ [] := by
          intro h0
          apply hcomb
          simp [h0, orAll]
        have hlpart : ∀ p ∈ l, e.part p.1 = some p.2 ∧ p.2 &&& v = p.2 := by
          intro p hp
          simp only [l, List.mem_append] at hp
          rcases hp with hp | hp
          · exact hpart p hp
          · split at hp
            · cases hp
            · simp only [List.mem_singleton] at hp
              subst hp
              have hus : u &&& v = u := xor_sub hcsub
              exact ⟨part_digits e hwf u (hsubvalid u hus), hus⟩
        have hval : orAll (l.map Prod.snd) = v := by
          simp only [l, List.map_append, orAll_append]
          split
          · rename_i hu0
            simp only [List.map_nil, orAll, List.foldr_nil, Nat.or_zero]
            exact (eq_of_xor_zero hu0).symm
          · simp only [List.map_cons, List.map_nil, orAll, List.foldr_cons, List.foldr_nil, Nat.or_zero]
            exact or_xor hcsub
        have hfree : ∀ p ∈ l.map Prod.fst, freeOf '|' p = true := by
          intro n hn
          obtain ⟨p, hp, rfl⟩ := List.mem_map.mp hn
          simp only [l, List.mem_append] at hp
          rcases hp with hp | hp
          · exact identLike_free _ (hwf.ident p (hps p hp).1)
          · split at hp
            · cases hp
            · simp only [List.mem_singleton] at hp
              subst hp
              exact digitsOf_free u
        have hlen : 2 ≤ l.length := by
          by_cases hu0 : u = 0
          · -- all of `v` is named: two parts at least, or `v` would be a member
            have hv : v = orAll ((e.parts v).map Prod.snd) := eq_of_xor_zero hu0
            cases hps' : e.parts v with
            | nil => exact absurd hps' hpne
            | cons p rest =>
              cases rest with
              | nil =>
                exfalso
                rw [hps'] at hv
                simp only [List.map_cons, List.map_nil, orAll, List.foldr_cons, List.foldr_nil, Nat.or_zero] at hv
                exact nameOf_none e v hnone p (hps p (by rw [hps']; simp)).1 hv.symm
              | cons q rest => simp [l, hps']
          · have : 0 < (e.parts v).length := List.length_pos_iff.mpr hpne
            simp only [l, hu0, if_false, List.length_append, List.length_singleton]
            omega
        have hb : e.byName (joinStr '|' names) = none := by
          apply byName_not_ident e hwf
          rw [hnames]
          cases hm : l.map Prod.fst with
          | nil =>
            have := congrArg List.length hm
            simp only [List.length_map, List.length_nil] at this; omega
          | cons a rest =>
            cases rest with
            | nil =>
              have := congrArg List.length hm
              simp only [List.length_map, List.length_nil, List.length_cons] at this; omega
            | cons b rest => exact joinStr_not_ident a b rest
        have hsplit : splitStr '|' (joinStr '|' names) = names := by
          rw [hnames]
          apply splitStr_joinStr '|' _ _ hfree
          intro h0
          have := congrArg List.length h0
          simp only [List.length_map, List.length_nil] at this; omega
        have hcombine := combine_eq e v hsubvalid l 0 (by simp) hlpart
        rw [hval, ← hnames] at hcombine
        simp [enumMember, hb, hflag, hsplit, hcombine]

/-- **D27, C07 half**: two values of one class never share a serialised name -/
theorem memberName_injective (e : EnumCls) (hwf : e.WF) (v₁ v₂ : Nat) (s : String)
    (h₁ : memberName e v₁ = some s) (h₂ : memberName e v₂ = some s) : v₁ = v₂ := by
  have a := enumMember_memberName e hwf v₁ s h₁
  rw [enumMember_memberName e hwf v₂ s h₂] at a
  exact (Except.ok.inj a).symm

/-- a name is written exactly for the values the class can build -/
theorem memberName_isSome (e : EnumCls) (v : Nat) : (memberName e v).isSome = e.valid v := by
  simp only [memberName]
  cases e.valid v
  · simp
  · simp only [Bool.not_true, Bool.false_eq_true, if_false]
    split
    · rfl
    · split <;> rfl

end Lt.ClassRes
