import LabtechModel.Proofs.IntrWindow
/-!
# M10: the per-type limit `max_parallel` holds after EVERY primitive

The active set (`type_to_active_tasks`) grows only by `startTask t`. Inside the submit phase the
ready list was computed by `get_ready_tasks` from the loop-head state, so the invariant carried
through one iteration is "the active tasks never outnumber (per type) the loop head's active tasks
plus the ready tasks", and `readyAux_limit` bounds that by `max_parallel`. Everything else in an
iteration, and everything in the interrupt handlers, only removes from the active set.
-/
namespace Lt

variable {cfg : Config} {p : Problem}

/-- the task a `start_task` primitive starts -/
def startOf : Prim → Option Tid
  | .startTask t => some t
  | _ => none

/-- the tasks started by a stream, in order -/
def starts (ps : List Prim) : List Tid := ps.filterMap startOf

theorem starts_append (a b : List Prim) : starts (a ++ b) = starts a ++ starts b := by
  simp [starts, List.filterMap_append]

theorem starts_cons (q : Prim) (ps : List Prim) : starts (q :: ps) = (startOf q).toList ++ starts ps := by
  simp only [starts, List.filterMap_cons]
  cases startOf q <;> simp

theorem starts_nil_of (ps : List Prim) (h : ∀ q ∈ ps, startOf q = none) : starts ps = [] := by
  induction ps with
  | nil => rfl
  | cons q ps ih =>
    rw [starts_cons, h q List.mem_cons_self, ih (fun q' hq' => h q' (List.mem_cons_of_mem _ hq'))]
    rfl

theorem startOf_of_noTS {q : Prim} (h : q.touchesTS = false) : startOf q = none := by
  cases q <;> simp [Prim.touchesTS] at h <;> rfl

theorem startOf_of_nolaunch {q : Prim} (h : q.launches = false) : startOf q = none := by
  cases q <;> simp [Prim.launches] at h <;> rfl

/-- what one primitive does to the active set -/
theorem active_step (q : Prim) (s : IS) :
    (applyPrim cfg p q s).rs.ts.active = s.rs.ts.active ++ (startOf q).toList ∨
    (applyPrim cfg p q s).rs.ts.active = s.rs.ts.active ∨
    ∃ t, (applyPrim cfg p q s).rs.ts.active = s.rs.ts.active.filter (· ≠ t) := by
  by_cases hts : q.touchesTS = false
  · right; left; rw [applyPrim_ts q s hts]
  · by_cases hrun : s.rs.status = .running
    · rw [applyPrim_running _ _ hrun]
      cases q <;> simp [Prim.touchesTS] at hts
      · next t =>
        simp only [stepPrim, startTask]
        cases hr : setRemove s.rs.ts.pending t with
        | none => right; left; rfl
        | some pend => left; rfl
      · next t =>
        simp only [stepPrim]
        cases hr : setRemove s.rs.ts.active t with
        | none => right; left; rfl
        | some a => right; right; exact ⟨t, (setRemove_some _ _ _ hr).2⟩
      · next t d =>
        simp only [stepPrim]
        cases hr : setRemove (s.rs.ts.pendDeps d) t with
        | none => right; left; rfl
        | some a => right; left; rfl
      · next t d =>
        simp only [stepPrim]
        cases hr : setRemove (s.rs.ts.pendDependents d) t with
        | none => right; left; rfl
        | some a => right; left; rfl
    · right; left; rw [applyPrim_stopped _ _ hrun]

/-- per type, a stream never makes more tasks active than were active plus those it starts -/
theorem always_bound (B : Nat → Nat) : ∀ (ps : List Prim) (s : IS),
    (∀ T, typeCount p (s.rs.ts.active ++ starts ps) T ≤ B T) →
    Always cfg p (fun s' => ∀ T, typeCount p s'.rs.ts.active T ≤ B T) ps s := by
  intro ps
  induction ps with
  | nil =>
    intro s h T
    have := h T
    simpa [starts] using this
  | cons q ps ih =>
    intro s h
    refine ⟨fun T => ?_, ih _ (fun T => ?_)⟩
    · have := h T
      rw [typeCount_append] at this
      omega
    · have h0 := h T
      rw [starts_cons, ← List.append_assoc, typeCount_append] at h0
      rw [typeCount_append]
      rcases active_step (cfg := cfg) (p := p) q s with e | e | ⟨t, e⟩
      · rw [e]; exact h0
      · rw [e]
        rw [typeCount_append] at h0
        omega
      · rw [e]
        have := typeCount_filter_le p s.rs.ts.active (· ≠ t) T
        rw [typeCount_append] at h0
        omega

/-- a stream that starts nothing keeps the limit -/
theorem always_limit_nostart (ps : List Prim) (s : IS) (hn : ∀ q ∈ ps, startOf q = none)
    (h : LimitOK p s.rs.ts.active) : Always cfg p (fun s' => LimitOK p s'.rs.ts.active) ps s := by
  have hb := always_bound (cfg := cfg) (p := p) (fun T => typeCount p s.rs.ts.active T) ps s
    (fun T => by rw [starts_nil_of ps hn]; simp)
  exact hb.mono (fun s' hs' T L hL => Nat.le_trans (hs' T) (h T L hL))

/-! ## what the streams start -/
theorem nostart_gen : GenOK cfg (fun q => startOf q = none) where
  basic := fun _ h _ => startOf_of_nolaunch h
  raise := fun _ _ => rfl

theorem startPrims_nostart (js : List Job) : ∀ q ∈ startPrims js, startOf q = none := by
  intro q hq
  simp only [startPrims, List.mem_flatMap, List.mem_cons, List.not_mem_nil, or_false] at hq
  obtain ⟨j, _, rfl | rfl | rfl⟩ := hq <;> rfl

theorem wait_nostart (req : List Tid) (c : Choice) (s : IS) :
    ∀ q ∈ waitPrims cfg p req c s, startOf q = none := by
  intro q hq
  simp only [waitPrims] at hq
  split at hq
  · split at hq
    · simp only [List.mem_singleton] at hq; subst hq; rfl
    · simp only [List.mem_append, List.mem_cons, List.not_mem_nil, or_false] at hq
      rcases hq with ((rfl | rfl | rfl | rfl) | rfl) | hq
      · rfl
      · rfl
      · rfl
      · rfl
      · rfl
      · exact members_yield nostart_gen req _ _ _ q hq
  · simp only [List.mem_cons, List.mem_append] at hq
    rcases hq with ((rfl | hq) | hq) | hq
    · rfl
    · simp only [deadPrims, List.mem_map] at hq
      obtain ⟨t, _, rfl⟩ := hq
      rfl
    · exact startPrims_nostart _ q hq
    · exact members_done nostart_gen req _ _ q hq

theorem starts_submitOne (s : IS) (t : Tid) : starts (submitOnePrims cfg p s t) = [t] := by
  simp only [submitOnePrims]
  split
  · rfl
  · rw [starts_append, starts_append, startProcessesPrims, starts_nil_of _ (startPrims_nostart _)]
    rfl

theorem starts_submit : ∀ (l : List Tid) (s : IS), starts (submitPrims cfg p l s) = l := by
  intro l
  induction l with
  | nil => intro s; rfl
  | cons t ts ih =>
    intro s
    simp only [submitPrims]
    rw [starts_append, starts_submitOne, ih]
    rfl

theorem starts_iteration (req : List Tid) (c : Choice) (s : IS) :
    starts (iterationPrims cfg p req c s) = readyTasks p s.rs.ts := by
  simp only [iterationPrims]
  split
  · rw [starts_append, starts_submit, starts_nil_of _ (wait_nostart req c _)]
    simp
  · exact starts_submit _ _

/-! ## the main stream -/
theorem always_limit_iteration (req : List Tid) (c : Choice) (s : IS) (h : LimitOK p s.rs.ts.active) :
    Always cfg p (fun s' => LimitOK p s'.rs.ts.active) (iterationPrims cfg p req c s) s := by
  have hb := always_bound (cfg := cfg) (p := p)
    (fun T => typeCount p (s.rs.ts.active ++ readyTasks p s.rs.ts) T) (iterationPrims cfg p req c s) s
    (fun T => by rw [starts_iteration]; exact Nat.le_refl _)
  refine hb.mono (fun s' hs' T L hL => Nat.le_trans (hs' T) ?_)
  have h1 := readyAux_limit p s.rs.ts T L hL s.rs.ts.pending (typeCount p s.rs.ts.active) (h T L hL)
  rw [typeCount_append]
  exact h1

theorem always_limit_main (req : List Tid) : ∀ (sched : List Choice) (s : IS), LimitOK p s.rs.ts.active →
    Always cfg p (fun s' => LimitOK p s'.rs.ts.active) (mainStream cfg p req sched s) s := by
  intro sched
  induction sched with
  | nil => intro s h; exact h
  | cons c cs ih =>
    intro s h
    unfold mainStream
    split
    · split
      · have a := always_limit_iteration (cfg := cfg) (p := p) req c s h
        rw [always_append]
        exact ⟨a, ih _ a.last⟩
      · exact h
    · exact h

/-! ## the handlers -/
theorem always_limit_handler (req : List Tid) (ds : List Choice) (s : IS) (h : LimitOK p s.rs.ts.active) :
    Always cfg p (fun s' => LimitOK p s'.rs.ts.active) (handlerPrims cfg p req ds s) s :=
  always_limit_nostart _ s (fun q hq => startOf_of_nolaunch (members_handler req ds s q hq).1) h

theorem always_limit_second (req : List Tid) (s : IS) (h : LimitOK p s.rs.ts.active) :
    Always cfg p (fun s' => LimitOK p s'.rs.ts.active) (secondPrims cfg p req s) s := by
  by_cases hrun : s.rs.status = .running
  · exact always_limit_nostart _ s (fun q hq => startOf_of_nolaunch (members_second req s hrun q hq).1) h
  · exact always_stopped _ s hrun h

end Lt
