import LabtechModel.Proofs.InvDefs
/-!
# Planning facts needed by the whole-run scheduler invariant

`plan_closed`, `plan_ddeps_sound`, `plan_ddeps_lt`, `plan_instances_tid`, `plan_ddeps_complete`,
`plan_cached_no_deps`, `plan_pending_instances`, `plan_requested_pending`, `plan_ddeps_eq`.
-/
namespace Lt

/-! ## list-as-set helpers -/

theorem mem_dedup (l : List Nat) (x : Nat) : x ∈ dedup l ↔ x ∈ l := by
  induction l with
  | nil => simp [dedup]
  | cons y ys ih =>
    simp only [dedup, List.mem_cons, List.mem_filter, ih]
    by_cases h : x = y <;> simp [h]

theorem dedup_nodup (l : List Nat) : (dedup l).Nodup := by
  induction l with
  | nil => simp [dedup]
  | cons y ys ih =>
    simp only [dedup, List.nodup_cons]
    refine ⟨by simp, ?_⟩
    exact List.Nodup.sublist List.filter_sublist ih

theorem mem_foldl_sadd (x : Nat) : ∀ (ds l : List Nat), x ∈ ds.foldl sadd l ↔ x ∈ l ∨ x ∈ ds := by
  intro ds
  induction ds with
  | nil => intro l; simp
  | cons d ds ih =>
    intro l
    simp only [List.foldl, ih, sadd_mem, List.mem_cons]
    grind

theorem foldl_sadd_subset : ∀ (ds l : List Nat), (∀ d ∈ ds, d ∈ l) → ds.foldl sadd l = l := by
  intro ds
  induction ds with
  | nil => intro l _; rfl
  | cons d ds ih =>
    intro l h
    have hd : d ∈ l := h d (by simp)
    simp only [List.foldl]
    have : sadd l d = l := by simp [sadd, hd]
    rw [this]
    exact ih l (fun x hx => h x (by simp [hx]))

theorem foldl_sadd_nodup : ∀ (ds l : List Nat), (l ++ ds).Nodup → ds.foldl sadd l = l ++ ds := by
  intro ds
  induction ds with
  | nil => intro l _; simp
  | cons d ds ih =>
    intro l h
    have hd : d ∉ l := by
      intro hd
      rw [List.nodup_append] at h
      exact h.2.2 d hd d (by simp) rfl
    simp only [List.foldl]
    have : sadd l d = l ++ [d] := by simp [sadd, hd]
    rw [this, ih (l ++ [d]) (by simpa using h)]
    simp

/-! ## effect of `insertDeps` / `insertTask` on the fields planning facts talk about -/

theorem insertDeps_eff (t : Tid) : ∀ (ds : List Tid) (s : TS),
    (insertDeps t ds s).pending = s.pending ∧ (insertDeps t ds s).instances = s.instances ∧
    (insertDeps t ds s).processed = s.processed ∧
    ∀ t', (insertDeps t ds s).ddeps t' = if t' = t then ds.foldl sadd (s.ddeps t) else s.ddeps t' := by
  intro ds
  induction ds with
  | nil => intro s; refine ⟨rfl, rfl, rfl, ?_⟩; intro t'; simp [insertDeps]; intro h; rw [h]
  | cons d ds ih =>
    intro s
    simp only [insertDeps]
    obtain ⟨a, b, c, e⟩ := ih { s with
        ddeps := upd s.ddeps t (sadd (s.ddeps t) d)
        pendDeps := upd s.pendDeps t (sadd (s.pendDeps t) d)
        pendDependents := upd s.pendDependents d (sadd (s.pendDependents d) t) }
    refine ⟨a, b, c, ?_⟩
    intro t'
    rw [e]
    by_cases h : t' = t <;> simp [h, upd]

theorem insertTask_eff (i : Iid) (t : Tid) (deps : List Tid) (s : TS) :
    (insertTask i t deps s).pending = sadd s.pending t ∧
    (∀ t', (insertTask i t deps s).instances t' =
      if t' = t then s.instances t ++ [i] else s.instances t') ∧
    (insertTask i t deps s).processed = s.processed ∧
    ∀ t', (insertTask i t deps s).ddeps t' =
      if t' = t then deps.foldl sadd (s.ddeps t) else s.ddeps t' := by
  simp only [insertTask]
  obtain ⟨a, b, c, e⟩ := insertDeps_eff t deps { s with
    pending := sadd s.pending t
    instances := upd s.instances t (s.instances t ++ [i]) }
  refine ⟨a, ?_, c, e⟩
  intro t'
  rw [b]
  simp only [upd]

/-- the dependency tids recorded when object `i` is inserted -/
def depInstsOf (p : Problem) (uc : Tid → Bool) (i : Iid) : List Iid :=
  if uc (p.tidOf i) then [] else p.children i

/-- `s1` is `s` after processing the not yet processed object `i` -/
structure Step (p : Problem) (uc : Tid → Bool) (i : Iid) (s s1 : TS) : Prop where
  pend : s1.pending = sadd s.pending (p.tidOf i)
  inst : ∀ t', s1.instances t' =
    if t' = p.tidOf i then s.instances (p.tidOf i) ++ [i] else s.instances t'
  proc : s1.processed = s.processed ++ [i]
  dd : ∀ t', s1.ddeps t' =
    if t' = p.tidOf i then
      (dedup ((depInstsOf p uc i).map p.tidOf)).foldl sadd (s.ddeps (p.tidOf i))
    else s.ddeps t'

theorem step_mk (p : Problem) (uc : Tid → Bool) (i : Iid) (s : TS) :
    Step p uc i s (insertTask i (p.tidOf i) (dedup ((depInstsOf p uc i).map p.tidOf))
      { s with processed := s.processed ++ [i] }) := by
  obtain ⟨a, b, c, e⟩ := insertTask_eff i (p.tidOf i) (dedup ((depInstsOf p uc i).map p.tidOf))
      { s with processed := s.processed ++ [i] }
  exact ⟨a, b, c, e⟩

theorem processLevel_cons_new (p : Problem) (uc : Tid → Bool) (i : Iid) (is : List Iid) (s : TS)
    (acc : List Iid) (h : i ∉ s.processed) :
    processLevel p uc (i :: is) s acc =
      processLevel p uc is (insertTask i (p.tidOf i) (dedup ((depInstsOf p uc i).map p.tidOf))
        { s with processed := s.processed ++ [i] }) (acc ++ depInstsOf p uc i) := by
  simp only [processLevel, depInstsOf, h, if_false]

theorem processLevel_cons_old (p : Problem) (uc : Tid → Bool) (i : Iid) (is : List Iid) (s : TS)
    (acc : List Iid) (h : i ∈ s.processed) :
    processLevel p uc (i :: is) s acc = processLevel p uc is s acc := by
  simp only [processLevel, h, if_true]

/-- generic induction principle for `processLevel`: an invariant `Q s acc` with worklist -/
theorem processLevel_ind (p : Problem) (uc : Tid → Bool) (Q : List Iid → TS → List Iid → Prop)
    (hold : ∀ i is s acc, i ∈ s.processed → Q (i :: is) s acc → Q is s acc)
    (hnew : ∀ i is s s1 acc, i ∉ s.processed → Step p uc i s s1 → Q (i :: is) s acc →
      Q is s1 (acc ++ depInstsOf p uc i)) :
    ∀ (l : List Iid) (s : TS) (acc : List Iid), Q l s acc →
      Q [] (processLevel p uc l s acc).1 (processLevel p uc l s acc).2 := by
  intro l
  induction l with
  | nil => intro s acc h; simpa [processLevel] using h
  | cons i is ih =>
    intro s acc h
    by_cases hi : i ∈ s.processed
    · rw [processLevel_cons_old p uc i is s acc hi]
      exact ih s acc (hold i is s acc hi h)
    · rw [processLevel_cons_new p uc i is s acc hi]
      exact ih _ _ (hnew i is s _ acc hi (step_mk p uc i s) h)

/-- generic induction principle for `processTasks` for worklist-independent invariants -/
theorem processTasks_ind (p : Problem) (uc : Tid → Bool) (Q : TS → Prop)
    (hnew : ∀ i s s1, i ∉ s.processed → Step p uc i s s1 → Q s → Q s1) :
    ∀ (fuel : Nat) (l : List Iid) (s : TS), Q s → Q (processTasks p uc fuel l s) := by
  have hl : ∀ (l : List Iid) (s : TS) (acc : List Iid), Q s → Q (processLevel p uc l s acc).1 :=
    processLevel_ind p uc (fun _ s _ => Q s) (fun _ _ _ _ _ h => h)
      (fun i _ s s1 _ hi hs h => hnew i s s1 hi hs h)
  intro fuel
  induction fuel with
  | zero => intro l s h; simpa [processTasks] using h
  | succ n ih =>
    intro l s h
    simp only [processTasks]
    have := hl l s [] h
    split
    · exact this
    · exact ih _ _ this

/-! ## the set-level planning invariant -/

structure PJ (p : Problem) (uc : Tid → Bool) (s : TS) : Prop where
  instTid : ∀ t i, i ∈ s.instances t → p.tidOf i = t ∧ i ∈ s.processed
  depSound : ∀ t d, d ∈ s.ddeps t →
    uc t = false ∧ ∃ i, i ∈ s.instances t ∧ ∃ c ∈ p.children i, p.tidOf c = d
  procInst : ∀ i ∈ s.processed, i ∈ s.instances (p.tidOf i) ∧ p.tidOf i ∈ s.pending ∧
    (uc (p.tidOf i) = false → ∀ c ∈ p.children i, p.tidOf c ∈ s.ddeps (p.tidOf i))
  pendInst : ∀ t ∈ s.pending, s.instances t ≠ []

theorem PJ_empty (p : Problem) (uc : Tid → Bool) : PJ p uc {} := by
  constructor <;> simp

theorem PJ_step (p : Problem) (uc : Tid → Bool) (i : Iid) (s s1 : TS)
    (hs : Step p uc i s s1) (h : PJ p uc s) : PJ p uc s1 := by
  obtain ⟨hp, hi, hpr, hd⟩ := hs
  obtain ⟨h1, h2, h3, h4⟩ := h
  constructor
  · intro t j hj
    rw [hi] at hj
    rw [hpr]
    split at hj
    · next ht =>
      subst ht
      simp only [List.mem_append, List.mem_singleton] at hj ⊢
      rcases hj with hj | hj
      · exact ⟨(h1 _ _ hj).1, Or.inl (h1 _ _ hj).2⟩
      · subst hj; exact ⟨rfl, Or.inr rfl⟩
    · have := h1 _ _ hj
      exact ⟨this.1, by simp [this.2]⟩
  · intro t d hdd
    rw [hd] at hdd
    rw [hi]
    split at hdd
    · next ht =>
      subst ht
      rw [mem_foldl_sadd, mem_dedup] at hdd
      simp only [if_true]
      rcases hdd with hdd | hdd
      · obtain ⟨a, j, hj, hc⟩ := h2 _ _ hdd
        exact ⟨a, j, by simp [hj], hc⟩
      · simp only [depInstsOf] at hdd
        split at hdd
        · simp at hdd
        · next hu =>
          simp only [List.mem_map] at hdd
          obtain ⟨c, hc, hcd⟩ := hdd
          exact ⟨by simpa using hu, i, by simp, c, hc, hcd⟩
    · next ht =>
      simp only [ht, if_false]
      exact h2 _ _ hdd
  · intro j hj
    rw [hpr] at hj
    simp only [List.mem_append, List.mem_singleton] at hj
    rw [hi, hp, hd]
    by_cases hji : j = i
    · subst hji
      simp only [if_true]
      refine ⟨by simp, by simp [sadd_mem], ?_⟩
      intro hu c hc
      rw [mem_foldl_sadd, mem_dedup]
      right
      simp only [depInstsOf, hu]
      simp only [List.mem_map]
      exact ⟨c, by simpa using hc, rfl⟩
    · have hj' : j ∈ s.processed := by
        rcases hj with hj | hj
        · exact hj
        · exact absurd hj hji
      obtain ⟨a, b, c⟩ := h3 j hj'
      by_cases ht : p.tidOf j = p.tidOf i
      · simp only [ht, if_true]
        rw [ht] at a b c
        refine ⟨by simp [a], by simp [sadd_mem, b], ?_⟩
        intro hu x hx
        rw [mem_foldl_sadd]
        left
        exact c hu x hx
      · simp only [ht, if_false]
        exact ⟨a, by simp [sadd_mem, b], c⟩
  · intro t ht
    rw [hp, sadd_mem] at ht
    rw [hi]
    split
    · simp
    · next hne =>
      rcases ht with ht | ht
      · exact h4 t ht
      · exact absurd ht hne

theorem processTasks_PJ (p : Problem) (uc : Tid → Bool) (fuel : Nat) (l : List Iid) (s : TS)
    (h : PJ p uc s) : PJ p uc (processTasks p uc fuel l s) :=
  processTasks_ind p uc (PJ p uc) (fun i s s1 _ hs h => PJ_step p uc i s s1 hs h) fuel l s h

theorem plan_PJ (cfg : Config) (p : Problem) (store : Store) (fuel : Nat) :
    PJ p (useCache cfg p store) (plan cfg p store fuel) :=
  processTasks_PJ _ _ _ _ _ (PJ_empty _ _)

/-! ## consequences of `PJ` for the plan -/

/-- every recorded direct dependency comes from a child object of an object of the task -/
theorem plan_ddeps_sound (cfg : Config) (p : Problem) (store : Store) (fuel : Nat) (t d : Tid)
    (h : d ∈ (plan cfg p store fuel).ddeps t) :
    ∃ i, i ∈ (plan cfg p store fuel).instances t ∧ ∃ c ∈ p.children i, p.tidOf c = d :=
  ((plan_PJ cfg p store fuel).depSound t d h).2

theorem plan_instances_tid (cfg : Config) (p : Problem) (store : Store) (fuel : Nat) (t : Tid) (i : Iid)
    (h : i ∈ (plan cfg p store fuel).instances t) : p.tidOf i = t :=
  ((plan_PJ cfg p store fuel).instTid t i h).1

theorem plan_ddeps_lt (cfg : Config) (p : Problem) (store : Store) (fuel : Nat) (hA : Acyclic p)
    (t d : Tid) (h : d ∈ (plan cfg p store fuel).ddeps t) : d < t := by
  obtain ⟨i, hi, c, hc, hcd⟩ := plan_ddeps_sound cfg p store fuel t d h
  have h1 := plan_instances_tid cfg p store fuel t i hi
  have h2 := hA i c hc
  rw [h1, hcd] at h2
  exact h2

/-- the recorded direct dependencies contain every child of every planned object of a task that is not served from cache -/
theorem plan_ddeps_complete (cfg : Config) (p : Problem) (store : Store) (fuel : Nat) (t : Tid) (i : Iid)
    (hi : i ∈ (plan cfg p store fuel).instances t) (hc : useCache cfg p store t = false) :
    ∀ c ∈ p.children i, p.tidOf c ∈ (plan cfg p store fuel).ddeps t := by
  have hJ := plan_PJ cfg p store fuel
  obtain ⟨h1, h2⟩ := hJ.instTid t i hi
  subst h1
  exact (hJ.procInst i h2).2.2 hc

/-- a task served from cache has no recorded dependencies -/
theorem plan_cached_no_deps (cfg : Config) (p : Problem) (store : Store) (fuel : Nat) (t : Tid)
    (hc : useCache cfg p store t = true) : (plan cfg p store fuel).ddeps t = [] := by
  rw [List.eq_nil_iff_forall_not_mem]
  intro d hd
  have := ((plan_PJ cfg p store fuel).depSound t d hd).1
  rw [hc] at this
  exact absurd this (by simp)

/-- a planned task has at least one recorded object (so `repr0` is a real object of it) -/
theorem plan_pending_instances (cfg : Config) (p : Problem) (store : Store) (fuel : Nat) (t : Tid)
    (h : t ∈ (plan cfg p store fuel).pending) : (plan cfg p store fuel).instances t ≠ [] :=
  (plan_PJ cfg p store fuel).pendInst t h

/-! ## requested tasks are planned -/

theorem processLevel_processed (p : Problem) (uc : Tid → Bool) (P : Iid → Prop) :
    ∀ (l : List Iid) (s : TS) (acc : List Iid), (∀ i, P i → i ∈ l ∨ i ∈ s.processed) →
      ∀ i, P i → i ∈ (processLevel p uc l s acc).1.processed := by
  intro l s acc h
  have := processLevel_ind p uc (fun l s _ => ∀ i, P i → i ∈ l ∨ i ∈ s.processed)
    (by
      intro i is s acc hi h j hj
      rcases h j hj with h | h
      · simp only [List.mem_cons] at h
        rcases h with h | h
        · subst h; exact Or.inr hi
        · exact Or.inl h
      · exact Or.inr h)
    (by
      intro i is s s1 acc hi hs h j hj
      rw [hs.proc]
      rcases h j hj with h | h
      · simp only [List.mem_cons] at h
        rcases h with h | h
        · subst h; right; simp
        · exact Or.inl h
      · right; simp [h])
    l s acc h
  intro i hi
  rcases this i hi with h | h
  · simp at h
  · exact h

theorem processTasks_processed (p : Problem) (uc : Tid → Bool) (x : Iid) (fuel : Nat) (l : List Iid)
    (s : TS) (h : x ∈ s.processed) : x ∈ (processTasks p uc fuel l s).processed :=
  processTasks_ind p uc (fun s => x ∈ s.processed)
    (fun i s s1 _ hs h => by rw [hs.proc]; simp [h]) fuel l s h

theorem plan_requested_pending (cfg : Config) (p : Problem) (store : Store) (fuel : Nat)
    (hF : 0 < fuel) : ∀ i ∈ p.requested, p.tidOf i ∈ (plan cfg p store fuel).pending := by
  intro i hi
  have hJ := plan_PJ cfg p store fuel
  suffices h : i ∈ (plan cfg p store fuel).processed from (hJ.procInst i h).2.1
  obtain ⟨n, rfl⟩ : ∃ n, fuel = n + 1 := ⟨fuel - 1, by omega⟩
  have h1 := processLevel_processed p (useCache cfg p store) (fun i => i ∈ p.requested)
    p.requested {} [] (fun i hi => Or.inl hi) i hi
  simp only [plan, processTasks]
  split
  · exact h1
  · exact processTasks_processed _ _ _ _ _ _ h1

/-! ## planning reaches its fixpoint -/

/-- every recorded dependency is planned or still on the worklist `W` -/
def G (p : Problem) (s : TS) (W : List Iid) : Prop :=
  ∀ t d, d ∈ s.ddeps t → d ∈ s.pending ∨ ∃ c ∈ W, p.tidOf c = d

theorem processLevel_G (p : Problem) (uc : Tid → Bool) (hA : Acyclic p) (n : Nat)
    (l : List Iid) (s : TS) (acc : List Iid)
    (hJ : PJ p uc s) (hG : G p s (l ++ acc)) (hl : ∀ i ∈ l, p.tidOf i < n + 1)
    (hacc : ∀ c ∈ acc, p.tidOf c < n) :
    PJ p uc (processLevel p uc l s acc).1 ∧
    G p (processLevel p uc l s acc).1 (processLevel p uc l s acc).2 ∧
    ∀ c ∈ (processLevel p uc l s acc).2, p.tidOf c < n := by
  have := processLevel_ind p uc
    (fun l s acc => PJ p uc s ∧ G p s (l ++ acc) ∧ (∀ i ∈ l, p.tidOf i < n + 1) ∧
      (∀ c ∈ acc, p.tidOf c < n))
    (by
      rintro i is s acc hi ⟨hJ, hG, hl, hacc⟩
      refine ⟨hJ, ?_, fun j hj => hl j (by simp [hj]), hacc⟩
      intro t d hd
      rcases hG t d hd with h | ⟨c, hc, hcd⟩
      · exact Or.inl h
      · simp only [List.cons_append, List.mem_cons] at hc
        rcases hc with hc | hc
        · subst hc; subst hcd; exact Or.inl (hJ.procInst c hi).2.1
        · exact Or.inr ⟨c, hc, hcd⟩)
    (by
      rintro i is s s1 acc hi hs ⟨hJ, hG, hl, hacc⟩
      refine ⟨PJ_step p uc i s s1 hs hJ, ?_, fun j hj => hl j (by simp [hj]), ?_⟩
      · intro t d hd
        rw [hs.dd] at hd
        rw [hs.pend]
        simp only [sadd_mem]
        have hold : ∀ t, d ∈ s.ddeps t → (d ∈ s.pending ∨ d = p.tidOf i) ∨
            ∃ c ∈ is ++ (acc ++ depInstsOf p uc i), p.tidOf c = d := by
          intro t hd
          rcases hG t d hd with h | ⟨c, hc, hcd⟩
          · exact Or.inl (Or.inl h)
          · simp only [List.cons_append, List.mem_cons] at hc
            rcases hc with hc | hc
            · subst hc; exact Or.inl (Or.inr hcd.symm)
            · right
              refine ⟨c, ?_, hcd⟩
              simp only [List.mem_append] at hc ⊢
              rcases hc with hc | hc
              · exact Or.inl hc
              · exact Or.inr (Or.inl hc)
        split at hd
        · rw [mem_foldl_sadd, mem_dedup] at hd
          rcases hd with hd | hd
          · exact hold _ hd
          · simp only [List.mem_map] at hd
            obtain ⟨c, hc, hcd⟩ := hd
            right
            exact ⟨c, by simp [hc], hcd⟩
        · exact hold _ hd
      · intro c hc
        simp only [List.mem_append] at hc
        rcases hc with hc | hc
        · exact hacc c hc
        · have hi' := hl i (by simp)
          have : c ∈ p.children i := by
            simp only [depInstsOf] at hc
            split at hc
            · simp at hc
            · exact hc
          have := hA i c this
          exact Nat.lt_of_lt_of_le this (Nat.le_of_lt_succ hi'))
    l s acc ⟨hJ, hG, hl, hacc⟩
  exact ⟨this.1, by simpa using this.2.1, this.2.2.2⟩

theorem processTasks_G (p : Problem) (uc : Tid → Bool) (hA : Acyclic p) :
    ∀ (fuel : Nat) (l : List Iid) (s : TS), PJ p uc s → G p s l → (∀ i ∈ l, p.tidOf i < fuel) →
      G p (processTasks p uc fuel l s) [] := by
  intro fuel
  induction fuel with
  | zero =>
    intro l s _ hG hl
    have : l = [] := by
      rw [List.eq_nil_iff_forall_not_mem]
      intro i hi
      exact absurd (hl i hi) (Nat.not_lt_zero _)
    subst this
    simpa [processTasks] using hG
  | succ n ih =>
    intro l s hJ hG hl
    obtain ⟨h1, h2, h3⟩ := processLevel_G p uc hA n l s [] hJ (by simpa using hG) hl (by simp)
    simp only [processTasks]
    split
    · next he =>
      rw [List.isEmpty_iff] at he
      rw [he] at h2
      exact h2
    · exact ih _ _ h1 h2 h3

/-- under Acyclic and enough fuel, planning reaches its fixpoint: every dependency of a planned task is planned -/
theorem plan_closed (cfg : Config) (p : Problem) (store : Store) (fuel : Nat)
    (hA : Acyclic p) (hF : FuelOK p fuel) : PlanClosed (plan cfg p store fuel) := by
  intro t _ d hd
  have := processTasks_G p (useCache cfg p store) hA fuel p.requested {} (PJ_empty _ _)
    (by intro t d h; simp at h) hF t d hd
  rcases this with h | ⟨c, hc, _⟩
  · exact h
  · simp at hc

/-! ## the recorded dependencies as an ordered list -/

/-- the dependencies of a not-cached planned task are the de-duplicated child tids of its first object -/
def PE (p : Problem) (uc : Tid → Bool) (s : TS) : Prop :=
  ∀ t ∈ s.pending, uc t = false → s.ddeps t = dedup ((p.children (repr0 s t)).map p.tidOf)

theorem PJ_inst_pending (p : Problem) (uc : Tid → Bool) (s : TS) (h : PJ p uc s) (t : Tid) (i : Iid)
    (hi : i ∈ s.instances t) : t ∈ s.pending := by
  obtain ⟨h1, h2⟩ := h.instTid t i hi
  subst h1
  exact (h.procInst i h2).2.1

theorem PE_step (p : Problem) (uc : Tid → Bool) (hI : InstOK p) (i : Iid) (s s1 : TS)
    (hs : Step p uc i s s1) (hJ : PJ p uc s) (hE : PE p uc s) : PE p uc s1 := by
  intro t ht hu
  rw [hs.pend, sadd_mem] at ht
  by_cases hti : t = p.tidOf i
  · subst hti
    have hdi : depInstsOf p uc i = p.children i := by simp [depInstsOf, hu]
    have hr : s1.instances (p.tidOf i) = s.instances (p.tidOf i) ++ [i] := by
      rw [hs.inst]; simp
    rw [hs.dd]
    simp only [if_true, hdi]
    by_cases hp : p.tidOf i ∈ s.pending
    · have hne := hJ.pendInst _ hp
      have hrepr : repr0 s1 (p.tidOf i) = repr0 s (p.tidOf i) := by
        simp only [repr0, hr]
        cases hc : s.instances (p.tidOf i) with
        | nil => exact absurd hc hne
        | cons a l => simp
      have hmem : repr0 s (p.tidOf i) ∈ s.instances (p.tidOf i) := by
        simp only [repr0]
        cases hc : s.instances (p.tidOf i) with
        | nil => exact absurd hc hne
        | cons a l => simp
      have htid := (hJ.instTid _ _ hmem).1
      have heq := hI _ _ htid
      have hold := hE _ hp hu
      rw [hrepr, heq]
      rw [heq] at hold
      rw [hold]
      exact foldl_sadd_subset _ _ (fun d hd => hd)
    · have hnil : s.instances (p.tidOf i) = [] := by
        rw [List.eq_nil_iff_forall_not_mem]
        intro j hj
        exact hp (PJ_inst_pending p uc s hJ _ j hj)
      have hdn : s.ddeps (p.tidOf i) = [] := by
        rw [List.eq_nil_iff_forall_not_mem]
        intro d hd
        obtain ⟨_, j, hj, _⟩ := hJ.depSound _ d hd
        rw [hnil] at hj
        simp at hj
      have hrepr : repr0 s1 (p.tidOf i) = i := by
        simp [repr0, hr, hnil]
      rw [hrepr, hdn, foldl_sadd_nodup _ _ (by simpa using dedup_nodup _)]
      simp
  · have hp : t ∈ s.pending := by
      rcases ht with ht | ht
      · exact ht
      · exact absurd ht hti
    have hrepr : repr0 s1 t = repr0 s t := by
      simp only [repr0, hs.inst, hti, if_false]
    rw [hs.dd, hrepr]
    simp only [hti, if_false]
    exact hE t hp hu

/-- with InstOK the recorded dependencies of a not-cached planned task are exactly the de-duplicated child tids of its first object -/
theorem plan_ddeps_eq (cfg : Config) (p : Problem) (store : Store) (fuel : Nat) (hI : InstOK p) (t : Tid)
    (h : t ∈ (plan cfg p store fuel).pending) (hc : useCache cfg p store t = false) :
    (plan cfg p store fuel).ddeps t = dedup ((p.children (repr0 (plan cfg p store fuel) t)).map p.tidOf) := by
  have := processTasks_ind p (useCache cfg p store)
    (fun s => PJ p (useCache cfg p store) s ∧ PE p (useCache cfg p store) s)
    (fun i s s1 _ hs h => ⟨PJ_step _ _ i s s1 hs h.1, PE_step _ _ hI i s s1 hs h.1 h.2⟩)
    fuel p.requested {} ⟨PJ_empty _ _, by intro t ht; simp at ht⟩
  exact this.2 t h hc

/-! ## the hypotheses on the concrete diamond of `InvDefs` -/

theorem invExP_acyclic : Acyclic invExP := by
  intro i c h
  simp only [invExP] at h ⊢
  split at h
  · simp at h; rcases h with h | h <;> subst h <;> simp_all
  · split at h
    · simp at h; subst h; simp_all
    · split at h
      · simp at h; subst h; simp_all
      · simp at h

theorem invExP_fuel : FuelOK invExP 4 := by
  intro i hi
  simp [invExP] at hi ⊢
  rcases hi with h | h <;> subst h <;> simp

example : PlanClosed (plan invExCfg invExP [] 4) ∧
    ∀ t d, d ∈ (plan invExCfg invExP [] 4).ddeps t → d < t :=
  ⟨plan_closed invExCfg invExP [] 4 invExP_acyclic invExP_fuel,
   plan_ddeps_lt invExCfg invExP [] 4 invExP_acyclic⟩

end Lt
