import LabtechModel.Proofs.InvTS
import LabtechModel.Proofs.InvList
import LabtechModel.Proofs.Submit
/-!
# The master invariant of the coordinator loop

`Core p P rs`: holds in every reachable state (any status): scheduler dictionaries = plan minus
yielded tasks, futures = active tasks, trace history facts, never `KeyError`.
`Exec cfg P extra rs`: holds in every reachable state with status `running`: executor queues vs
`future_to_task` (up to `extra` = futures whose outcome is being delivered in the current wait),
retained results (h), worker snapshots.
-/
namespace Lt

/-- the results visible to a worker of `t` hold, for every direct dependency, exactly the value
    it was yielded with: a dependency that failed or died has no entry -/
def SnapOK (P : TS) (tr : List Ev) (snap : List (Tid × Val)) (t : Tid) : Prop :=
  ∀ d ∈ P.ddeps t, ∀ v, (lookup d snap = some v ↔ Ev.yield d (.ok v) ∈ tr)

/-- what must hold of an event relative to the trace before it -/
def EvOK (p : Problem) (P : TS) (pre : List Ev) : Ev → Prop
  | .submit t _ => ∀ d ∈ P.ddeps t, d ∈ yieldedOf pre
  | .start t => ∀ d ∈ P.ddeps t, d ∈ yieldedOf pre
  | .exec t seen => (∀ d ∈ P.ddeps t, d ∈ yieldedOf pre) ∧
      ∃ snap, seen = reads p (repr0 P t) snap ∧ SnapOK P pre snap t
  | _ => True

structure Core (p : Problem) (P : TS) (rs : RS) : Prop where
  ts : TSInv P (yielded rs) rs.ts
  futsAct : ∀ t, t ∈ rs.futs ↔ t ∈ rs.ts.active
  ndF : rs.futs.Nodup
  hist : Hist (EvOK p P) rs.trace
  subNd : (submittedOf rs.trace).Nodup
  subAct : ∀ t, t ∈ submittedOf rs.trace ↔ (t ∈ rs.ts.active ∨ t ∈ yielded rs)
  noKey : rs.status ≠ .raised .keyError
  noRet : ∀ r, rs.status ≠ .returned r
  ranNd : (ranOf rs.trace).Nodup

structure Exec (cfg : Config) (P : TS) (extra : List Tid) (rs : RS) : Prop where
  perm : ((rs.queued ++ rs.running).map Job.tid ++ extra).Perm rs.futs
  res : ∀ d v, (d, v) ∈ rs.results ↔ (Ev.yield d (.ok v) ∈ rs.trace ∧ rs.ts.pendDependents d ≠ [])
  resNd : (rs.results.map Prod.fst).Nodup
  snapOK : ∀ j ∈ rs.queued ++ rs.running, ∀ snap, j.snap = some snap → SnapOK P rs.trace snap j.tid
  runSnap : ∀ j ∈ rs.running, j.snap ≠ none
  spawnSnap : cfg.backend = .spawn → ∀ j ∈ rs.queued, j.snap ≠ none
  serialRun : cfg.backend = .serial → rs.running = []
  ranSub : ∀ t ∈ ranOf rs.trace, t ∈ yielded rs ∨ t ∈ extra

theorem SnapOK_quiet (P : TS) (tr l : List Ev) (hq : Quiet l) (snap : List (Tid × Val)) (t : Tid) :
    SnapOK P (tr ++ l) snap t ↔ SnapOK P tr snap t := by
  simp only [SnapOK, mem_yield_append_quiet tr l hq]

/-- a state that differs only by a quiet trace extension (and store/marked/taskResults) -/
theorem Core.quiet {p : Problem} {P : TS} {rs rs' : RS} (h : Core p P rs) (l : List Ev)
    (hts : rs'.ts = rs.ts) (hf : rs'.futs = rs.futs) (hst : rs'.status = rs.status)
    (htr : rs'.trace = rs.trace ++ l) (hq : Quiet l) (hh : Hist (EvOK p P) rs'.trace)
    (hran : (ranOf rs'.trace).Nodup) : Core p P rs' where
  ts := by simp only [yielded, htr, yieldedOf_append_quiet _ _ hq, hts]; exact h.ts
  futsAct := by rw [hf, hts]; exact h.futsAct
  ndF := by rw [hf]; exact h.ndF
  hist := hh
  subNd := by rw [htr, submittedOf_append_quiet _ _ hq]; exact h.subNd
  subAct := by
    simp only [yielded, htr, yieldedOf_append_quiet _ _ hq, submittedOf_append_quiet _ _ hq, hts]
    exact h.subAct
  noKey := by rw [hst]; exact h.noKey
  noRet := by rw [hst]; exact h.noRet
  ranNd := hran

theorem Exec.quiet {cfg : Config} {P : TS} {extra : List Tid} {rs rs' : RS} (h : Exec cfg P extra rs)
    (l : List Ev) (hts : rs'.ts = rs.ts) (hf : rs'.futs = rs.futs) (hres : rs'.results = rs.results)
    (hqu : rs'.queued = rs.queued) (hru : rs'.running = rs.running)
    (htr : rs'.trace = rs.trace ++ l) (hq : Quiet l) (hnr : ∀ e ∈ l, evRan e = none) :
    Exec cfg P extra rs' where
  perm := by rw [hqu, hru, hf]; exact h.perm
  res := by
    intro d v
    rw [hres, htr, mem_yield_append_quiet _ _ hq, hts]
    exact h.res d v
  resNd := by rw [hres]; exact h.resNd
  snapOK := by
    intro j hj snap hs
    rw [hqu, hru] at hj
    rw [htr, SnapOK_quiet _ _ _ hq]
    exact h.snapOK j hj snap hs
  runSnap := by rw [hru]; exact h.runSnap
  spawnSnap := by rw [hqu]; exact h.spawnSnap
  serialRun := by rw [hru]; exact h.serialRun
  ranSub := by
    intro t ht
    rw [htr, ranOf_append_noran _ _ hnr] at ht
    simp only [yielded, htr, yieldedOf_append_quiet _ _ hq]
    exact h.ranSub t ht

theorem Exec.perm_extra {cfg : Config} {P : TS} {extra extra' : List Tid} {rs : RS}
    (h : Exec cfg P extra rs) (hp : extra.Perm extra') : Exec cfg P extra' rs where
  perm := ((hp.append_left _).symm).trans h.perm
  res := h.res
  resNd := h.resNd
  snapOK := h.snapOK
  runSnap := h.runSnap
  spawnSnap := h.spawnSnap
  serialRun := h.serialRun
  ranSub := fun t ht => (h.ranSub t ht).imp id (fun hx => hp.mem_iff.mp hx)

/-- every job known to the executor belongs to a tracked future, hence to an active task -/
theorem Exec.job_active {cfg : Config} {p : Problem} {P : TS} {extra : List Tid} {rs : RS}
    (hc : Core p P rs) (h : Exec cfg P extra rs) (j : Job) (hj : j ∈ rs.queued ++ rs.running) :
    j.tid ∈ rs.ts.active := by
  rw [← hc.futsAct, ← h.perm.mem_iff]
  exact List.mem_append_left _ (List.mem_map.mpr ⟨j, hj, rfl⟩)

/-- the retained results are a good snapshot for every task that has not been yielded -/
theorem results_snapOK {cfg : Config} {p : Problem} {P : TS} {extra : List Tid} {rs : RS} (hP : PI P)
    (hc : Core p P rs) (h : Exec cfg P extra rs) (t : Tid) (ht : t ∉ yielded rs) :
    SnapOK P rs.trace rs.results t := by
  intro d hd v
  constructor
  · intro hl
    exact ((h.res d v).mp (lookup_mem d v _ hl)).1
  intro hv
  apply lookup_of_mem_nodup _ _ _ h.resNd
  rw [h.res]
  refine ⟨hv, ?_⟩
  intro hnil
  have : t ∈ rs.ts.pendDependents d := by
    rw [hc.ts.mem_pdt]
    exact ⟨(hP.dual d t).mpr hd, ht⟩
  rw [hnil] at this
  simp at this

/-! ## `_start_processes` -/
def snapF (cfg : Config) (rs : RS) (j : Job) : Job :=
  if cfg.backend = .fork then { j with snap := some rs.results } else j

theorem snapF_tid (cfg : Config) (rs : RS) (j : Job) : (snapF cfg rs j).tid = j.tid := by
  simp only [snapF]; split <;> rfl

theorem startProcesses_shape (cfg : Config) (rs : RS) : ∃ go stay, go ++ stay = rs.queued ∧
    startProcesses cfg rs =
      { rs with queued := stay, running := rs.running ++ go.map (snapF cfg rs),
                trace := rs.trace ++ (go.map (snapF cfg rs)).map (fun j => Ev.start j.tid) } :=
  ⟨(takeN (cfg.maxWorkers - rs.running.length) rs.queued).1,
   (takeN (cfg.maxWorkers - rs.running.length) rs.queued).2, takeN_append _ _, rfl⟩

theorem quiet_starts (l : List Job) : Quiet (l.map (fun j => Ev.start j.tid)) := by
  intro e he
  obtain ⟨j, _, rfl⟩ := List.mem_map.mp he
  exact ⟨rfl, rfl⟩

theorem noran_starts (l : List Job) : ∀ e ∈ l.map (fun j => Ev.start j.tid), evRan e = none := by
  intro e he
  obtain ⟨j, _, rfl⟩ := List.mem_map.mp he
  rfl

theorem startProcesses_inv {cfg : Config} {p : Problem} {P : TS} {extra : List Tid} {rs : RS}
    (hP : PI P) (hb : cfg.backend ≠ .serial) (hc : Core p P rs) (he : Exec cfg P extra rs) :
    Core p P (startProcesses cfg rs) ∧ Exec cfg P extra (startProcesses cfg rs) := by
  obtain ⟨go, stay, happ, hsp⟩ := startProcesses_shape cfg rs
  rw [hsp]
  have hq := quiet_starts (go.map (snapF cfg rs))
  have hgo : ∀ j ∈ go, j ∈ rs.queued ++ rs.running := by
    intro j hj; rw [← happ]; simp [hj]
  have hstay : ∀ j ∈ stay, j ∈ rs.queued := by
    intro j hj; rw [← happ]; simp [hj]
  have hnr := noran_starts (go.map (snapF cfg rs))
  constructor
  · refine Core.quiet hc _ ?_ ?_ ?_ ?_ hq ?_ ?_ <;> try rfl
    · apply hc.hist.append
      intro pre' e post' heq
      have hemem : e ∈ (go.map (snapF cfg rs)).map (fun j => Ev.start j.tid) := by rw [heq]; simp
      obtain ⟨j', hj', rfl⟩ := List.mem_map.mp hemem
      obtain ⟨j, hj, rfl⟩ := List.mem_map.mp hj'
      simp only [EvOK, snapF_tid]
      intro d hd
      apply yieldedOf_mono
      exact hc.ts.actDeps _ (he.job_active hc j (hgo j hj)) d hd
    · show (ranOf (rs.trace ++ _)).Nodup
      rw [ranOf_append_noran _ _ hnr]; exact hc.ranNd
  · exact {
      perm := by
        have h1 : ((stay ++ (rs.running ++ go.map (snapF cfg rs))).map Job.tid)
            = (stay.map Job.tid ++ rs.running.map Job.tid) ++ go.map Job.tid := by
          simp only [List.map_append, List.map_map, List.append_assoc]
          congr 2
          apply List.map_congr_left
          intro j _; exact snapF_tid cfg rs j
        have h2 : ((rs.queued ++ rs.running).map Job.tid)
            = go.map Job.tid ++ (stay.map Job.tid ++ rs.running.map Job.tid) := by
          rw [← happ]; simp only [List.map_append, List.append_assoc]
        have h3 := he.perm
        rw [h2] at h3
        show (((stay ++ (rs.running ++ go.map (snapF cfg rs))).map Job.tid) ++ extra).Perm rs.futs
        rw [h1]
        exact ((List.perm_append_comm).append_right extra).trans h3
      res := by
        intro d v
        show (d, v) ∈ rs.results ↔ _
        rw [he.res d v]
        show _ ↔ (Ev.yield d (.ok v) ∈ rs.trace ++ _ ∧ _)
        rw [mem_yield_append_quiet _ _ hq]
      resNd := he.resNd
      snapOK := by
        intro j' hj' snap hs
        show SnapOK P (rs.trace ++ _) snap j'.tid
        rw [SnapOK_quiet _ _ _ hq]
        have hj'' : j' ∈ stay ∨ j' ∈ rs.running ∨ j' ∈ go.map (snapF cfg rs) := by
          simpa [List.mem_append] using hj'
        rcases hj'' with h1 | h1 | h1
        · exact he.snapOK j' (List.mem_append_left _ (hstay j' h1)) snap hs
        · exact he.snapOK j' (List.mem_append_right _ h1) snap hs
        · obtain ⟨j, hj, rfl⟩ := List.mem_map.mp h1
          rw [snapF_tid]
          simp only [snapF] at hs
          split at hs
          · simp only [Option.some.injEq] at hs
            subst hs
            exact results_snapOK hP hc he j.tid (hc.ts.disjAY _ (he.job_active hc j (hgo j hj)))
          · exact he.snapOK j (hgo j hj) snap hs
      runSnap := by
        intro j' hj'
        have hj'' : j' ∈ rs.running ∨ j' ∈ go.map (snapF cfg rs) := by
          simpa [List.mem_append] using hj'
        rcases hj'' with h1 | h1
        · exact he.runSnap j' h1
        · obtain ⟨j, hj, rfl⟩ := List.mem_map.mp h1
          simp only [snapF]
          cases hbk : cfg.backend with
          | serial => exact absurd hbk hb
          | fork => simp
          | spawn =>
            simp only [reduceCtorEq, if_false]
            exact he.spawnSnap hbk j (by rw [← happ]; simp [hj])
      spawnSnap := by
        intro hs j hj
        exact he.spawnSnap hs j (hstay j hj)
      serialRun := fun h => absurd h hb
      ranSub := by
        intro t ht
        have ht' : t ∈ ranOf (rs.trace ++ _) := ht
        rw [ranOf_append_noran _ _ hnr] at ht'
        show t ∈ yieldedOf (rs.trace ++ _) ∨ t ∈ extra
        rw [yieldedOf_append_quiet _ _ hq]
        exact he.ranSub t ht' }

/-! ## the submit phase -/
theorem Hist.snoc {Q : List Ev → Ev → Prop} {tr : List Ev} {e : Ev} (h : Hist Q tr) (he : Q tr e) :
    Hist Q (tr ++ [e]) := by
  apply h.append
  intro pre' e' post' heq
  cases pre' with
  | nil =>
    simp only [List.nil_append, List.cons.injEq] at heq
    rw [← heq.1]; simpa using he
  | cons a b =>
    simp only [List.cons_append, List.cons.injEq] at heq
    have := heq.2
    cases b <;> simp at this

theorem mem_yield_append_ny (tr l : List Ev) (h : ∀ e ∈ l, evYield e = none) (d : Tid) (o : Outcome) :
    Ev.yield d o ∈ tr ++ l ↔ Ev.yield d o ∈ tr := by
  rw [List.mem_append]
  constructor
  · rintro (h1 | h1)
    · exact h1
    · have := h _ h1; simp [evYield] at this
  · exact Or.inl

theorem SnapOK_ny (P : TS) (tr l : List Ev) (h : ∀ e ∈ l, evYield e = none) (snap : List (Tid × Val)) (t : Tid) :
    SnapOK P (tr ++ l) snap t ↔ SnapOK P tr snap t := by
  simp only [SnapOK, mem_yield_append_ny tr l h]

/-- the scheduler dictionaries after `start_task t` -/
abbrev startedTS (s : TS) (t : Tid) : TS :=
  { s with pending := s.pending.filter (· ≠ t), active := s.active ++ [t] }

/-- the state after `start_task t` and the bookkeeping part of `submit_task t` -/
abbrev submitState (rs : RS) (t : Tid) (j : Job) (uc : Bool) : RS :=
  { rs with ts := startedTS rs.ts t, queued := rs.queued ++ [j], futs := rs.futs ++ [t],
            trace := rs.trace ++ [Ev.submit t uc] }

theorem submitCore {cfg : Config} {p : Problem} {P : TS} {rs : RS} {t : Tid} (hc : Core p P rs)
    (he : Exec cfg P [] rs) (ht : t ∈ rs.ts.pending) (hd : rs.ts.pendDeps t = [])
    (j : Job) (hjt : j.tid = t) (hjs : ∀ snap, j.snap = some snap → SnapOK P rs.trace snap t)
    (hjsp : cfg.backend = .spawn → j.snap ≠ none) (uc : Bool) :
    Core p P (submitState rs t j uc) ∧ Exec cfg P [] (submitState rs t j uc) := by
  unfold submitState startedTS
  have hY : yieldedOf (rs.trace ++ [Ev.submit t uc]) = yieldedOf rs.trace := by
    simp [yieldedOf, evYield]
  have hS : submittedOf (rs.trace ++ [Ev.submit t uc]) = submittedOf rs.trace ++ [t] := by
    simp [submittedOf, evSubmit]
  have hR : ranOf (rs.trace ++ [Ev.submit t uc]) = ranOf rs.trace := by
    simp [ranOf, evRan]
  have hny : ∀ e ∈ [Ev.submit t uc], evYield e = none := by
    intro e he; simp at he; subst he; rfl
  have htA : t ∉ rs.ts.active := hc.ts.disjPA t ht
  have htY : t ∉ yielded rs := hc.ts.disjPY t ht
  have hdeps := (hc.ts.pd_nil_iff t).mp hd
  constructor
  · exact {
      ts := by
        show TSInv P (yieldedOf (rs.trace ++ [Ev.submit t uc])) _
        rw [hY]
        exact startTask_TSInv P _ rs.ts t hc.ts ht hdeps
      futsAct := by
        intro x
        show x ∈ rs.futs ++ [t] ↔ x ∈ rs.ts.active ++ [t]
        simp only [List.mem_append, hc.futsAct x]
      ndF := by
        show (rs.futs ++ [t]).Nodup
        rw [List.nodup_append]
        refine ⟨hc.ndF, by simp, ?_⟩
        intro a ha b hb
        simp only [List.mem_singleton] at hb
        subst hb
        intro hab; subst hab
        exact htA ((hc.futsAct a).mp ha)
      hist := by
        show Hist (EvOK p P) (rs.trace ++ [Ev.submit t uc])
        apply hc.hist.snoc
        exact hdeps
      subNd := by
        show (submittedOf (rs.trace ++ [Ev.submit t uc])).Nodup
        rw [hS, List.nodup_append]
        refine ⟨hc.subNd, by simp, ?_⟩
        intro a ha b hb
        simp only [List.mem_singleton] at hb
        subst hb
        intro hab; subst hab
        rcases (hc.subAct a).mp ha with h | h
        · exact htA h
        · exact htY h
      subAct := by
        intro x
        show x ∈ submittedOf (rs.trace ++ [Ev.submit t uc]) ↔
          (x ∈ rs.ts.active ++ [t] ∨ x ∈ yieldedOf (rs.trace ++ [Ev.submit t uc]))
        rw [hS, hY]
        have := hc.subAct x
        simp only [yielded] at this
        simp only [List.mem_append, List.mem_singleton, this]
        constructor
        · rintro ((h | h) | h)
          · exact Or.inl (Or.inl h)
          · exact Or.inr h
          · exact Or.inl (Or.inr h)
        · rintro ((h | h) | h)
          · exact Or.inl (Or.inl h)
          · exact Or.inr h
          · exact Or.inl (Or.inr h)
      noKey := hc.noKey
      noRet := hc.noRet
      ranNd := by
        show (ranOf (rs.trace ++ [Ev.submit t uc])).Nodup
        rw [hR]; exact hc.ranNd }
  · exact {
      perm := by
        show (((rs.queued ++ [j]) ++ rs.running).map Job.tid ++ []).Perm (rs.futs ++ [t])
        have h1 := he.perm
        simp only [List.append_nil, List.map_append, List.map_cons, hjt,
          List.append_assoc, List.singleton_append] at h1 ⊢
        exact (List.perm_middle.trans (h1.cons t)).trans (List.perm_append_comm (l₁ := [t]))
      res := by
        intro d v
        show (d, v) ∈ rs.results ↔ (Ev.yield d (.ok v) ∈ rs.trace ++ [Ev.submit t uc] ∧ rs.ts.pendDependents d ≠ [])
        rw [mem_yield_append_ny _ _ hny]
        exact he.res d v
      resNd := he.resNd
      snapOK := by
        intro j' hj' snap hs
        show SnapOK P (rs.trace ++ [Ev.submit t uc]) snap j'.tid
        rw [SnapOK_ny _ _ _ hny]
        have hj'' : j' ∈ rs.queued ∨ j' = j ∨ j' ∈ rs.running := by
          simpa [List.mem_append] using hj'
        rcases hj'' with h | h | h
        · exact he.snapOK j' (List.mem_append_left _ h) snap hs
        · subst h; rw [hjt]; exact hjs snap hs
        · exact he.snapOK j' (List.mem_append_right _ h) snap hs
      runSnap := he.runSnap
      spawnSnap := by
        intro hsp j' hj'
        have hj'' : j' ∈ rs.queued ∨ j' = j := by simpa [List.mem_append] using hj'
        rcases hj'' with h | h
        · exact he.spawnSnap hsp j' h
        · subst h; exact hjsp hsp
      serialRun := he.serialRun
      ranSub := by
        intro x hx
        have hx' : x ∈ ranOf (rs.trace ++ [Ev.submit t uc]) := hx
        rw [hR] at hx'
        show x ∈ yieldedOf (rs.trace ++ [Ev.submit t uc]) ∨ x ∈ []
        rw [hY]
        exact he.ranSub x hx' }

theorem submitStep_inv {cfg : Config} {p : Problem} {P : TS} {rs : RS} {t : Tid} (hP : PI P)
    (hc : Core p P rs) (he : Exec cfg P [] rs) (ht : t ∈ rs.ts.pending) (hd : rs.ts.pendDeps t = []) :
    Core p P (submitTask cfg p { rs with ts := startedTS rs.ts t } t) ∧
    Exec cfg P [] (submitTask cfg p { rs with ts := startedTS rs.ts t } t) := by
  have htY : t ∉ yielded rs := hc.ts.disjPY t ht
  have hsnap := results_snapOK hP hc he t htY
  have key := submitCore hc he ht hd
    { tid := t, useCache := useCache cfg p rs.store t,
      snap := if cfg.backend = .spawn
              then some (rs.results.filter (fun kv => kv.1 ∈ rs.ts.ddeps t)) else none }
    rfl
    (by
      intro snap hs
      split at hs
      · simp only [Option.some.injEq] at hs
        subst hs
        intro d hd v
        have := lookup_filter_key d (fun k => decide (k ∈ rs.ts.ddeps t))
          (by rw [hc.ts.ddeps]; simpa using hd) rs.results
        rw [this]
        exact hsnap d hd v
      · cases hs)
    (by intro hsp; simp [hsp])
    (useCache cfg p rs.store t)
  simp only [submitTask]
  split
  · exact key
  · next hb => exact startProcesses_inv hP hb key.1 key.2

theorem submitAll_inv {cfg : Config} {p : Problem} {P : TS} (hP : PI P) :
    ∀ (l : List Tid) (rs : RS), l.Nodup → (∀ t ∈ l, t ∈ rs.ts.pending ∧ rs.ts.pendDeps t = []) →
      Core p P rs → Exec cfg P [] rs →
      Core p P (submitAll cfg p l rs) ∧ Exec cfg P [] (submitAll cfg p l rs) := by
  intro l
  induction l with
  | nil => intro rs _ _ hc he; exact ⟨hc, he⟩
  | cons t ts ih =>
    intro rs hnd hmem hc he
    obtain ⟨ht, hd⟩ := hmem t List.mem_cons_self
    have hnd' := List.nodup_cons.mp hnd
    have hst : startTask rs.ts t = some (startedTS rs.ts t) := by
      simp [startTask, setRemove, ht, startedTS]
    simp only [submitAll, hst]
    obtain ⟨hc', he'⟩ := submitStep_inv hP hc he ht hd
    apply ih _ hnd'.2 _ hc' he'
    intro x hx
    rw [submitTask_ts]
    obtain ⟨hx1, hx2⟩ := hmem x (List.mem_cons_of_mem _ hx)
    refine ⟨?_, hx2⟩
    simp only [List.mem_filter, ne_eq, decide_eq_true_eq]
    exact ⟨hx1, fun hxt => hnd'.1 (hxt ▸ hx)⟩

end Lt
