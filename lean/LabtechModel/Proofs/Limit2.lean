import LabtechModel.Proofs.Limit
namespace Lt

/-- generic lifting: a state predicate preserved by every loop iteration holds after any schedule -/
theorem runLoop_inv (cfg : Config) (p : Problem) (req : List Tid) (I : RS → Prop)
    (hiter : ∀ c rs, I rs → I (iteration cfg p req c rs)) :
    ∀ (sched : List Choice) (rs : RS), I rs → I (runLoop cfg p req sched rs) := by
  intro sched
  induction sched with
  | nil => intro rs h; simpa [runLoop] using h
  | cons c cs ih =>
    intro rs h
    simp only [runLoop]
    split
    · split
      · exact ih _ (hiter c rs h)
      · exact h
    · exact h

theorem LimitOK_filter (p : Problem) (a : List Tid) (q : Tid → Bool) (h : LimitOK p a) :
    LimitOK p (a.filter q) := by
  intro T L hL
  have := typeCount_filter_le p a q T
  have := h T L hL
  omega

theorem processYield_ts (cfg : Config) (req : List Tid) (rs : RS) (t : Tid) (o : Outcome) :
    (processYield cfg req rs t o).ts = rs.ts ∨
    ∃ s' rem, completeTask rs.ts t = some (s', rem) ∧ (processYield cfg req rs t o).ts = s' := by
  simp only [processYield]
  cases o <;> (simp only; cases hc : completeTask rs.ts t with
    | none => left; rfl
    | some r => right; exact ⟨r.1, r.2, rfl, rfl⟩)

theorem processYield_limit (cfg : Config) (p : Problem) (req : List Tid) (rs : RS) (t : Tid) (o : Outcome)
    (h : LimitOK p rs.ts.active) : LimitOK p (processYield cfg req rs t o).ts.active := by
  rcases processYield_ts cfg req rs t o with h1 | ⟨s', rem, hc, h1⟩
  · rw [h1]; exact h
  · rw [h1, completeTask_active _ _ _ _ hc]; exact LimitOK_filter p _ _ h

theorem processYields_limit (cfg : Config) (p : Problem) (req : List Tid) :
    ∀ (ys : List (Tid × Outcome)) (rs : RS), LimitOK p rs.ts.active →
      LimitOK p (processYields cfg req ys rs).ts.active := by
  intro ys
  induction ys with
  | nil => intro rs h; simpa [processYields] using h
  | cons y ys ih =>
    intro rs h
    obtain ⟨t, o⟩ := y
    simp only [processYields]
    split
    · exact ih _ (processYield_limit cfg p req _ t o (by simpa using h))
    · exact h

theorem waitProcess_limit (cfg : Config) (p : Problem) (req : List Tid) (c : Choice) (rs : RS)
    (h : LimitOK p rs.ts.active) : LimitOK p (waitProcess cfg p req c rs).ts.active := by
  simp only [waitProcess]
  apply processYields_limit
  simpa [startProcesses_ts] using h

theorem waitSerial_limit (cfg : Config) (p : Problem) (req : List Tid) (rs : RS)
    (h : LimitOK p rs.ts.active) : LimitOK p (waitSerial cfg p req rs).ts.active := by
  simp only [waitSerial]
  split
  · simpa using h
  · apply processYield_limit; simpa using h

theorem iteration_limit (cfg : Config) (p : Problem) (req : List Tid) (c : Choice) (rs : RS)
    (h : LimitOK p rs.ts.active) : LimitOK p (iteration cfg p req c rs).ts.active := by
  simp only [iteration]
  have h' := submitAll_limit cfg p rs h
  split
  · split
    · exact waitSerial_limit cfg p req _ h'
    · exact waitProcess_limit cfg p req c _ h'
  · exact h'

theorem runLoop_limit (cfg : Config) (p : Problem) (req : List Tid) (sched : List Choice) (rs : RS)
    (h : LimitOK p rs.ts.active) : LimitOK p (runLoop cfg p req sched rs).ts.active :=
  runLoop_inv cfg p req (fun rs => LimitOK p rs.ts.active) (fun c rs h => iteration_limit cfg p req c rs h) sched rs h

end Lt
