import LabtechModel.Proofs.IntrAlive
/-!
# M10: `Tr` after every primitive of the handlers; who was alive is accounted for
-/
namespace Lt

variable {cfg : Config} {p : Problem}

theorem yieldPrims_noexec (req : List Tid) (ts : TS) (t : Tid) (o : Outcome) :
    ∀ q ∈ yieldPrims cfg req ts t o, q.touchesExec = false := by
  intro q hq
  have hc : ∀ q ∈ completePrims ts t, q.touchesExec = false := by
    intro q hq
    simp only [completePrims, List.mem_append, List.mem_singleton, List.mem_map] at hq
    rcases hq with (rfl | ⟨d, _, rfl⟩) | ⟨d, _, rfl⟩ <;> rfl
  have hr : ∀ rem, ∀ q ∈ removePrims rem, q.touchesExec = false := by
    intro rem q hq
    simp only [removePrims, List.mem_append, List.mem_map, List.mem_singleton] at hq
    rcases hq with ⟨d, _, rfl⟩ | rfl <;> rfl
  have hfail : ∀ q ∈ completePrims ts t ++
      (if cfg.contOnFail then removePrims (remOf ts t) else [Prim.raiseLabError t]), q.touchesExec = false := by
    intro q hq
    simp only [List.mem_append] at hq
    rcases hq with hq | hq
    · exact hc q hq
    · split at hq
      · exact hr _ q hq
      · simp only [List.mem_singleton] at hq; subst hq; rfl
  cases o with
  | ok v =>
    simp only [yieldPrims, List.mem_append, List.mem_singleton] at hq
    rcases hq with (((rfl | hq) | rfl) | hq) | hq
    · rfl
    · split at hq
      · simp only [List.mem_singleton] at hq; subst hq; rfl
      · simp at hq
    · rfl
    · exact hc q hq
    · exact hr _ q hq
  | exc => exact hfail q hq
  | died => exact hfail q hq

theorem always_Tr_doneOne (req : List Tid) (s : IS) (t : Tid) (h : Tr cfg s) :
    Always cfg p (Tr cfg) (doneOnePrims cfg req s t) s := by
  simp only [doneOnePrims]
  split
  · next hc => exact ⟨h, Tr_popFuture t none s h (Or.inl hc)⟩
  · split
    · next t' o hf =>
      have hg : t ∈ s.done.map (·.1) := by
        have h1 := List.mem_of_find?_eq_some hf
        have h2 : t' = t := by simpa using List.find?_some hf
        exact List.mem_map.mpr ⟨(t', o), h1, h2⟩
      exact ⟨h, always_Tr_untouched _ _ (yieldPrims_noexec req _ t o) (Tr_popFuture t (some o) s h (Or.inr hg))⟩
    · exact h

theorem always_Tr_done (req : List Tid) : ∀ (cands : List Tid) (s : IS), Tr cfg s →
    Always cfg p (Tr cfg) (donePrims cfg p req cands s) s := by
  intro cands
  induction cands with
  | nil => intro s h; exact h
  | cons t rest ih =>
    intro s h
    unfold donePrims
    split
    · rw [always_append]
      have a := always_Tr_doneOne (cfg := cfg) (p := p) req s t h
      exact ⟨a, ih _ a.last⟩
    · exact h

theorem always_Tr_markDead : ∀ (Z : List Tid) (s : IS), Tr cfg s →
    Always cfg p (Tr cfg) (Z.map Prim.markDead) s := by
  intro Z
  induction Z with
  | nil => intro s h; exact h
  | cons t Z ih => intro s h; exact ⟨h, ih _ (Tr_markDead t s h)⟩

/-- one `process_completed_tasks()` when nothing is queued any more -/
theorem always_Tr_wait (req : List Tid) (c : Choice) (s : IS) (h : Tr cfg s) (hq : s.rs.queued = []) :
    Always cfg p (Tr cfg) (waitPrims cfg p req c s) s := by
  simp only [waitPrims]
  split
  · simp only [hq]
    exact ⟨h, Tr_popDeque s h⟩
  · have h0 : Tr cfg (runPrims cfg p [Prim.consumeResults c] s) := Tr_consume c s h
    have a1 := always_Tr_markDead (cfg := cfg) (p := p) (runPrims cfg p [Prim.consumeResults c] s).zombies _ h0
    have hq1 : (runPrims cfg p (deadPrims (runPrims cfg p [Prim.consumeResults c] s))
        (runPrims cfg p [Prim.consumeResults c] s)).rs.queued = [] := by
      apply runPrims_queued_nil
      · intro q hq'
        simp only [deadPrims, List.mem_map] at hq'
        obtain ⟨t, _, rfl⟩ := hq'; rfl
      · rw [runPrims_cons, runPrims_nil, applyPrim_queued _ _ rfl]; exact hq
    have hsp : startProcessesPrims cfg (runPrims cfg p (deadPrims (runPrims cfg p [Prim.consumeResults c] s))
        (runPrims cfg p [Prim.consumeResults c] s)) = [] := by
      simp only [startProcessesPrims, hq1, startPrims_nil_of]
    rw [hsp, List.append_nil, ← List.singleton_append, List.append_assoc, always_append, always_append]
    refine ⟨⟨h, h0⟩, a1, ?_⟩
    have := always_Tr_done (cfg := cfg) (p := p) req
      (runPrims cfg p [] (runPrims cfg p (deadPrims (runPrims cfg p [Prim.consumeResults c] s))
        (runPrims cfg p [Prim.consumeResults c] s))).rs.futs _ a1.last
    exact this

theorem wait_queued_nil (req : List Tid) (c : Choice) (s : IS) (hq : s.rs.queued = []) :
    (runPrims cfg p (waitPrims cfg p req c s) s).rs.queued = [] :=
  runPrims_queued_nil _ s
    (fun q hq' => (members_wait (p := p) (HOK_gen (cfg := cfg)) req c s (fun hne => absurd hq hne) q hq').1) hq

theorem always_Tr_drain (req : List Tid) : ∀ (ds : List Choice) (s : IS), Tr cfg s → s.rs.queued = [] →
    Always cfg p (Tr cfg) (drainPrims cfg p req ds s) s := by
  intro ds
  induction ds with
  | nil => intro s h _; exact h
  | cons c cs ih =>
    intro s h hq
    unfold drainPrims
    split
    · split
      · exact h
      · have a := always_Tr_wait (cfg := cfg) (p := p) req c s h hq
        rw [always_append]
        exact ⟨a, ih _ a.last (wait_queued_nil req c s hq)⟩
    · exact h

theorem always_Tr_cancelList : ∀ (l : List Job) (s : IS), Tr cfg s →
    (∀ j ∈ l, j.tid ∉ s.rs.running.map Job.tid) →
    Always cfg p (Tr cfg) (l.map (fun j => Prim.cancelOne j.tid)) s := by
  intro l
  induction l with
  | nil => intro s h _; exact h
  | cons j l ih =>
    intro s h hg
    refine ⟨h, ih _ (Tr_cancelOne j.tid s h (hg j List.mem_cons_self)) ?_⟩
    have : (applyPrim cfg p (Prim.cancelOne j.tid) s).rs.running = s.rs.running := by
      unfold applyPrim; split <;> rfl
    rw [this]
    exact fun j' hj' => hg j' (List.mem_cons_of_mem _ hj')

theorem always_Tr_cancel (s : IS) (h : Tr cfg s) : Always cfg p (Tr cfg) (cancelPrims cfg s) s := by
  simp only [cancelPrims]
  split
  · next hb => exact ⟨h, Tr_clearDeque s h hb⟩
  · exact always_Tr_cancelList _ s h h.queuedNotRun

theorem drainPrims_stopped (req : List Tid) (ds : List Choice) (s : IS) (h : s.rs.status ≠ .running) :
    drainPrims cfg p req ds s = [] := by
  cases ds with
  | nil => rfl
  | cons c cs => unfold drainPrims; cases hs : s.rs.status <;> simp_all

/-- `Tr` holds after every primitive of the first handler -/
theorem always_Tr_handler (req : List Tid) (ds : List Choice) (s : IS) (h : Tr cfg s) :
    Always cfg p (Tr cfg) (handlerPrims cfg p req ds s) s := by
  simp only [handlerPrims, always_append]
  have a := always_Tr_cancel (cfg := cfg) (p := p) s h
  refine ⟨a, ?_⟩
  by_cases hrun : s.rs.status = .running
  · exact always_Tr_drain req ds _ a.last (cancelPrims_empties s hrun)
  · rw [runPrims_stopped _ _ hrun, drainPrims_stopped req ds s hrun]; exact h

/-! ## `runner.stop()` -/
theorem always_Tr_stopList : ∀ (l : List Tid) (s : IS), Tr cfg s →
    Always cfg p (Tr cfg) (l.map Prim.stopOne) s := by
  intro l
  induction l with
  | nil => intro s h; exact h
  | cons t l ih => intro s h; exact ⟨h, ih _ (Tr_stopOne t s h)⟩

theorem always_Tr_stop (s : IS) (h : Tr cfg s) : Always cfg p (Tr cfg) (stopPrims cfg s) s := by
  simp only [stopPrims]
  split
  · exact h
  · have : s.rs.running.map (fun j => Prim.stopOne j.tid) ++ s.zombies.map Prim.stopOne =
        (s.rs.running.map Job.tid ++ s.zombies).map Prim.stopOne := by simp [List.map_map]
    rw [this]
    exact always_Tr_stopList _ s h

theorem stop_running_nil : ∀ (l : List Job) (s : IS), s.rs.status = .running → s.rs.running = l →
    (runPrims cfg p (l.map (fun j => Prim.stopOne j.tid)) s).rs.running = [] := by
  intro l
  induction l with
  | nil => intro s _ h; exact h
  | cons j l ih =>
    intro s hrun h
    rw [List.map_cons, runPrims_cons]
    apply ih
    · rw [applyPrim_status _ _ rfl]; exact hrun
    · simp [applyPrim_running _ _ hrun, stepPrim, h, hasTid]

theorem stopOne_running_nil : ∀ (l : List Tid) (s : IS), s.rs.running = [] →
    (runPrims cfg p (l.map Prim.stopOne) s).rs.running = [] := by
  intro l
  induction l with
  | nil => intro s h; exact h
  | cons t l ih =>
    intro s h
    rw [List.map_cons, runPrims_cons]
    apply ih
    unfold applyPrim
    split
    · simp [stepPrim, h]
    · exact h

/-- after `runner.stop()` the running map is empty (process runners) -/
theorem stopPrims_empties (s : IS) (hrun : s.rs.status = .running) (hb : cfg.backend ≠ .serial) :
    (runPrims cfg p (stopPrims cfg s) s).rs.running = [] := by
  simp only [stopPrims, hb, if_false, runPrims_append]
  exact stopOne_running_nil _ _ (stop_running_nil _ s hrun rfl)

/-! ## no launch, no new live worker -/
theorem applyPrim_alive_nil (q : Prim) (s : IS) (hq : q.launches = false) (h : s.alive = []) :
    (applyPrim cfg p q s).alive = [] := by
  unfold applyPrim
  split
  · cases q <;> simp [Prim.launches] at hq <;> simp only [stepPrim, keyErr] <;> (repeat' split) <;> simp [h]
  · exact h

theorem runPrims_alive_nil : ∀ (ps : List Prim) (s : IS), (∀ q ∈ ps, q.launches = false) →
    s.alive = [] → (runPrims cfg p ps s).alive = [] := by
  intro ps
  induction ps with
  | nil => intro s _ h; exact h
  | cons q ps ih =>
    intro s hq h
    exact ih _ (fun q' hq' => hq q' (List.mem_cons_of_mem _ hq'))
      (applyPrim_alive_nil q s (hq q List.mem_cons_self) h)

/-! ## every worker that was alive at the interrupt is accounted for -/
/-- alive, or terminated by `stop()`, or died by itself, or ran to completion (its record is in the
    trace; the consumed report implies its save was done) -/
def Acc (p : Problem) (A0 : List Tid) (s : IS) : Prop :=
  ∀ t ∈ A0, t ∈ s.alive ∨ t ∈ s.terminated ∨ p.dies t = true ∨ t ∈ ranOf s.rs.trace

def Prim.reaps : Prim → Bool
  | .consumeResults _ | .stopOne _ => true
  | _ => false

theorem alive_term_mono (q : Prim) (s : IS) (h : q.reaps = false) :
    (∀ t ∈ s.alive, t ∈ (applyPrim cfg p q s).alive) ∧ (applyPrim cfg p q s).terminated = s.terminated := by
  unfold applyPrim
  split
  · cases q <;> simp [Prim.reaps] at h <;> simp only [stepPrim, keyErr] <;> (repeat' split) <;>
      simp_all
  · simp

theorem applyPrim_Acc (A0 : List Tid) (q : Prim) (s : IS) (h : Acc p A0 s) : Acc p A0 (applyPrim cfg p q s) := by
  obtain ⟨l, hl, -⟩ := trace_ext (cfg := cfg) (p := p) q s
  have hran : ∀ t, t ∈ ranOf s.rs.trace → t ∈ ranOf (applyPrim cfg p q s).rs.trace := by
    intro t ht; rw [hl, ranOf_append]; exact List.mem_append_left _ ht
  by_cases hr : q.reaps = false
  · obtain ⟨h1, h2⟩ := alive_term_mono (cfg := cfg) (p := p) q s hr
    intro t ht
    rcases h t ht with h' | h' | h' | h'
    · exact Or.inl (h1 t h')
    · exact Or.inr (Or.inl (by rw [h2]; exact h'))
    · exact Or.inr (Or.inr (Or.inl h'))
    · exact Or.inr (Or.inr (Or.inr (hran t h')))
  · by_cases hrun : ¬ s.rs.status = .running
    · rw [applyPrim_stopped _ _ hrun]; exact h
    have hrun : s.rs.status = .running := Decidable.not_not.mp hrun
    intro t ht
    rcases h t ht with h' | h' | h' | h'
    · cases q <;> simp [Prim.reaps] at hr
      case consumeResults c =>
        by_cases hf : t ∈ (finOf c s.rs.running).map Job.tid
        · obtain ⟨j, hj, rfl⟩ := List.mem_map.mp hf
          by_cases hd : p.dies j.tid = true
          · exact Or.inr (Or.inr (Or.inl hd))
          · right; right; right
            simp only [applyPrim_running _ _ hrun, stepPrim, ranOf_append]
            apply List.mem_append_right
            have : j.tid ∈ ranOf (jobEvents p s.rs.ts j) := by rw [ranOf_jobEvents]; simp [hd]
            simp only [ranOf, List.mem_filterMap] at this ⊢
            obtain ⟨e, he, hev⟩ := this
            exact ⟨e, List.mem_flatten.mpr ⟨_, List.mem_map.mpr ⟨j, hj, rfl⟩, he⟩, hev⟩
        · left
          simp only [applyPrim_running _ _ hrun, stepPrim, List.mem_filter, decide_eq_true_eq]
          exact ⟨h', hf⟩
      case stopOne t' =>
        simp only [applyPrim_running _ _ hrun, stepPrim]
        by_cases hany : s.rs.running.any (hasTid t') = true
        · simp only [hany, if_true]
          by_cases he : t = t'
          · exact Or.inr (Or.inl (by simp [he]))
          · exact Or.inl (by simp [h', he])
        · simp only [hany]
          exact Or.inl (by simpa using h')
    · right; left
      cases q <;> simp [Prim.reaps] at hr
      case consumeResults c => simp only [applyPrim_running _ _ hrun, stepPrim]; exact h'
      case stopOne t' =>
        simp only [applyPrim_running _ _ hrun, stepPrim]
        split
        · exact List.mem_append_left _ h'
        · exact h'
    · exact Or.inr (Or.inr (Or.inl h'))
    · exact Or.inr (Or.inr (Or.inr (hran t h')))

theorem runPrims_Acc (A0 : List Tid) : ∀ (ps : List Prim) (s : IS), Acc p A0 s → Acc p A0 (runPrims cfg p ps s) := by
  intro ps
  induction ps with
  | nil => intro s h; exact h
  | cons q ps ih => intro s h; exact ih _ (applyPrim_Acc A0 q s h)

/-! ## the status is never `returned` inside the guarded region -/
def NoRet (s : IS) : Prop := ∀ r, s.rs.status ≠ .returned r

theorem applyPrim_NoRet (q : Prim) (s : IS) (h : NoRet s) : NoRet (applyPrim cfg p q s) := by
  by_cases hrun : s.rs.status = .running
  · intro r hr
    rw [applyPrim_running _ _ hrun] at hr
    revert hr
    cases q <;> simp only [stepPrim, keyErr] <;> (repeat' split) <;> simp [hrun]
  · rw [applyPrim_stopped _ _ hrun]; exact h

theorem runPrims_NoRet : ∀ (ps : List Prim) (s : IS), NoRet s → NoRet (runPrims cfg p ps s) := by
  intro ps
  induction ps with
  | nil => intro s h; exact h
  | cons q ps ih => intro s h; exact ih _ (applyPrim_NoRet q s h)

theorem handlerOutcome_interrupted (s : IS) (d : Bool) (h : handlerOutcome s d = .interrupted) :
    d = true ∧ ∀ e, s.rs.status ≠ .raised e := by
  unfold handlerOutcome at h
  cases hs : s.rs.status with
  | raised e => simp [hs] at h
  | running => cases d <;> simp [hs] at h ⊢
  | returned r => cases d <;> simp [hs] at h ⊢

theorem Tr.no_alive_of_drained {s : IS} (h : Tr cfg s) (hf : s.rs.futs = []) : s.alive = [] := by
  have hr : s.rs.running = [] := by
    cases hq : s.rs.running with
    | nil => rfl
    | cons j l =>
      have := h.runFut j (by rw [hq]; exact List.mem_cons_self)
      rw [hf] at this; simp at this
  cases ha : s.alive with
  | nil => rfl
  | cons t l =>
    have := h.aliveRun t (by rw [ha]; exact List.mem_cons_self)
    rw [hr] at this; simp at this

theorem Tr.no_alive_of_norun {s : IS} (h : Tr cfg s) (hr : s.rs.running = []) : s.alive = [] := by
  cases ha : s.alive with
  | nil => rfl
  | cons t l =>
    have := h.aliveRun t (by rw [ha]; exact List.mem_cons_self)
    rw [hr] at this; simp at this

/-- the second handler from a running state with `Tr`: nobody is left alive -/
theorem second_no_alive (req : List Tid) (s : IS) (h : Tr cfg s) (hrun : s.rs.status = .running) :
    (runPrims cfg p (secondPrims cfg p req s) s).alive = [] := by
  simp only [secondPrims, runPrims_append]
  have a := always_Tr_cancel (cfg := cfg) (p := p) s h
  have hq1 := cancelPrims_empties (cfg := cfg) (p := p) s hrun
  have hr1 : (runPrims cfg p (cancelPrims cfg s) s).rs.status = .running := by
    have : ∀ q ∈ cancelPrims cfg s, q.touchesStatus = false := by
      intro q hq
      simp only [cancelPrims] at hq
      split at hq
      · simp only [List.mem_singleton] at hq; subst hq; rfl
      · obtain ⟨j, _, rfl⟩ := List.mem_map.mp hq; rfl
    have gen : ∀ (ps : List Prim) (s : IS), (∀ q ∈ ps, q.touchesStatus = false) →
        (runPrims cfg p ps s).rs.status = s.rs.status := by
      intro ps
      induction ps with
      | nil => intro s _; rfl
      | cons q ps ih =>
        intro s hq
        rw [runPrims_cons, ih _ (fun q' hq' => hq q' (List.mem_cons_of_mem _ hq')),
          applyPrim_status q s (hq q List.mem_cons_self)]
    rw [gen _ _ this]; exact hrun
  have b := always_Tr_stop (cfg := cfg) (p := p) _ a.last
  have hrun0 : (runPrims cfg p (stopPrims cfg (runPrims cfg p (cancelPrims cfg s) s))
      (runPrims cfg p (cancelPrims cfg s) s)).rs.running = [] := by
    by_cases hb : cfg.backend = .serial
    · exact b.last.serial hb
    · exact stopPrims_empties _ hr1 hb
  have hal := b.last.no_alive_of_norun hrun0
  have hq2 := runPrims_queued_nil (cfg := cfg) (p := p) (stopPrims cfg (runPrims cfg p (cancelPrims cfg s) s)) _
    (fun q' hq' => (stopPrims_nolaunch _ q' hq').1) hq1
  exact runPrims_alive_nil _ _
    (fun q hq => (members_wait (p := p) (HOK_gen (cfg := cfg)) req noWait _ (fun hne => absurd hq2 hne) q hq).1) hal

end Lt
