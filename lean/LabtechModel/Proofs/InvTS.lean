import LabtechModel.Proofs.InvDefs
import LabtechModel.Proofs.Ready
/-!
# Scheduler bookkeeping (`TaskState`) invariant relative to the plan and the set of yielded tasks

Closed forms of `unblock` / `release` under duplicate-freeness, and the invariant `TSInv P Y s`:
the scheduler dictionaries `s` are the plan `P` with the yielded tasks `Y` filtered out.
-/
namespace Lt

/-! ## small list facts -/
theorem filter_notin_nil (l : List Nat) : l.filter (· ∉ ([] : List Nat)) = l := by
  induction l with
  | nil => rfl
  | cons a b ih => simp

theorem filter_notin_snoc (l Y : List Nat) (t : Nat) :
    l.filter (· ∉ Y ++ [t]) = (l.filter (· ∉ Y)).filter (· ≠ t) := by
  rw [List.filter_filter]
  apply List.filter_congr
  intro x _
  simp only [List.mem_append, List.mem_singleton, not_or, ne_eq, Bool.decide_and, Bool.and_comm]

theorem filter_ne_self (l : List Nat) (t : Nat) (h : t ∉ l) : l.filter (· ≠ t) = l := by
  rw [List.filter_eq_self]
  intro a ha
  simp only [ne_eq, decide_eq_true_eq]
  intro hat; subst hat; exact h ha

/-! ## closed forms -/
theorem unblock_closed (t : Tid) : ∀ (ds : List Tid) (pd : Tid → List Tid), ds.Nodup →
    (∀ d ∈ ds, t ∈ pd d) →
    unblock t ds pd = some (fun x => if x ∈ ds then (pd x).filter (· ≠ t) else pd x) := by
  intro ds
  induction ds with
  | nil => intro pd _ _; simp [unblock]
  | cons d ds ih =>
    intro pd hnd hmem
    have hd : t ∈ pd d := hmem d List.mem_cons_self
    have hnd' := List.nodup_cons.mp hnd
    have hmem' : ∀ d' ∈ ds, t ∈ upd pd d ((pd d).filter (· ≠ t)) d' := by
      intro d' hd'
      simp only [upd]
      split
      · next h => subst h; exact absurd hd' hnd'.1
      · exact hmem d' (List.mem_cons_of_mem _ hd')
    simp only [unblock, setRemove, hd, if_true]
    rw [ih _ hnd'.2 hmem']
    congr 1
    funext x
    simp only [upd, List.mem_cons]
    by_cases hx : x = d
    · subst hx; simp [hnd'.1]
    · simp [hx]

theorem release_closed (t : Tid) : ∀ (ds : List Tid) (pdt : Tid → List Tid), ds.Nodup →
    (∀ d ∈ ds, t ∈ pdt d) →
    release t ds pdt = some (fun x => if x ∈ ds then (pdt x).filter (· ≠ t) else pdt x,
                             ds.filter (fun d => ((pdt d).filter (· ≠ t)).isEmpty)) := by
  intro ds
  induction ds with
  | nil => intro pdt _ _; simp [release]
  | cons d ds ih =>
    intro pdt hnd hmem
    have hd : t ∈ pdt d := hmem d List.mem_cons_self
    have hnd' := List.nodup_cons.mp hnd
    have hmem' : ∀ d' ∈ ds, t ∈ upd pdt d ((pdt d).filter (· ≠ t)) d' := by
      intro d' hd'
      simp only [upd]
      split
      · next h => subst h; exact absurd hd' hnd'.1
      · exact hmem d' (List.mem_cons_of_mem _ hd')
    simp only [release, setRemove, hd, if_true]
    rw [ih _ hnd'.2 hmem']
    simp only [Option.some.injEq, Prod.mk.injEq]
    constructor
    · funext x
      simp only [upd, List.mem_cons]
      by_cases hx : x = d
      · subst hx; simp [hnd'.1]
      · simp [hx]
    · have hfc : ds.filter (fun d' => ((upd pdt d ((pdt d).filter (· ≠ t)) d').filter (· ≠ t)).isEmpty)
          = ds.filter (fun d' => ((pdt d').filter (· ≠ t)).isEmpty) := by
        apply List.filter_congr
        intro x hx
        have : x ≠ d := fun h => hnd'.1 (h ▸ hx)
        simp [upd, this]
      rw [hfc, List.filter_cons]

/-! ## the invariant -/
structure TSInv (P : TS) (Y : List Tid) (s : TS) : Prop where
  ddeps : s.ddeps = P.ddeps
  inst : s.instances = P.instances
  ndP : s.pending.Nodup
  ndA : s.active.Nodup
  ndY : Y.Nodup
  disjPA : ∀ t ∈ s.pending, t ∉ s.active
  disjPY : ∀ t ∈ s.pending, t ∉ Y
  disjAY : ∀ t ∈ s.active, t ∉ Y
  cover : ∀ t, t ∈ P.pending ↔ (t ∈ s.pending ∨ t ∈ s.active ∨ t ∈ Y)
  pd : ∀ t, s.pendDeps t = (P.ddeps t).filter (· ∉ Y)
  pdt : ∀ d, s.pendDependents d = (P.pendDependents d).filter (· ∉ Y)
  actDeps : ∀ t ∈ s.active, ∀ d ∈ P.ddeps t, d ∈ Y
  yDeps : ∀ t ∈ Y, ∀ d ∈ P.ddeps t, d ∈ Y

theorem TSInv_init (P : TS) (hP : PI P) (hA : P.active = []) : TSInv P [] P where
  ddeps := rfl
  inst := rfl
  ndP := hP.nodupP
  ndA := by rw [hA]; exact List.nodup_nil
  ndY := List.nodup_nil
  disjPA := by intro t _; rw [hA]; simp
  disjPY := by intro t _; simp
  disjAY := by intro t _; simp
  cover := by intro t; rw [hA]; simp
  pd := by intro t; rw [hP.pdEq, filter_notin_nil]
  pdt := by intro t; rw [filter_notin_nil]
  actDeps := by intro t ht; rw [hA] at ht; simp at ht
  yDeps := by intro t ht; simp at ht

/-- (e) in the form of the task statement: an active task has no pending dependency -/
theorem TSInv.active_pd_nil {P : TS} {Y : List Tid} {s : TS} (h : TSInv P Y s) (t : Tid)
    (ht : t ∈ s.active) : s.pendDeps t = [] := by
  rw [h.pd, List.filter_eq_nil_iff]
  intro d hd
  simp only [decide_eq_true_eq, Decidable.not_not]
  exact h.actDeps t ht d hd

theorem TSInv.pd_nil_iff {P : TS} {Y : List Tid} {s : TS} (h : TSInv P Y s) (t : Tid) :
    s.pendDeps t = [] ↔ ∀ d ∈ P.ddeps t, d ∈ Y := by
  rw [h.pd, List.filter_eq_nil_iff]
  simp only [decide_eq_true_eq, Decidable.not_not]

theorem TSInv.mem_pd {P : TS} {Y : List Tid} {s : TS} (h : TSInv P Y s) (t d : Tid) :
    d ∈ s.pendDeps t ↔ d ∈ P.ddeps t ∧ d ∉ Y := by
  rw [h.pd]; simp

theorem TSInv.mem_pdt {P : TS} {Y : List Tid} {s : TS} (h : TSInv P Y s) (d t : Tid) :
    t ∈ s.pendDependents d ↔ t ∈ P.pendDependents d ∧ t ∉ Y := by
  rw [h.pdt]; simp

/-- `start_task` of a pending task whose dependencies have all been yielded -/
theorem startTask_TSInv (P : TS) (Y : List Tid) (s : TS) (t : Tid) (h : TSInv P Y s)
    (ht : t ∈ s.pending) (hd : ∀ d ∈ P.ddeps t, d ∈ Y) :
    TSInv P Y { s with pending := s.pending.filter (· ≠ t), active := s.active ++ [t] } where
  ddeps := h.ddeps
  inst := h.inst
  ndP := h.ndP.filter _
  ndA := by
    rw [List.nodup_append]
    refine ⟨h.ndA, by simp, ?_⟩
    intro a ha b hb
    simp only [List.mem_singleton] at hb
    subst hb
    intro hab; subst hab
    exact h.disjPA a ht ha
  ndY := h.ndY
  disjPA := by
    intro x hx
    simp only [List.mem_filter, ne_eq, decide_eq_true_eq] at hx
    simp only [List.mem_append, List.mem_singleton, not_or]
    exact ⟨h.disjPA x hx.1, hx.2⟩
  disjPY := by
    intro x hx
    simp only [List.mem_filter] at hx
    exact h.disjPY x hx.1
  disjAY := by
    intro x hx
    simp only [List.mem_append, List.mem_singleton] at hx
    rcases hx with hx | hx
    · exact h.disjAY x hx
    · subst hx; exact h.disjPY x ht
  cover := by
    intro x
    rw [h.cover x]
    simp only [List.mem_filter, ne_eq, decide_eq_true_eq, List.mem_append, List.mem_singleton]
    by_cases hx : x = t
    · subst hx; simp [ht]
    · simp [hx]
  pd := h.pd
  pdt := h.pdt
  actDeps := by
    intro x hx
    simp only [List.mem_append, List.mem_singleton] at hx
    rcases hx with hx | hx
    · exact h.actDeps x hx
    · subst hx; exact hd
  yDeps := h.yDeps

/-- `complete_task` of an active task always succeeds (no `KeyError`) and keeps the invariant with
    the task added to the yielded set; the reported removable results are exactly the direct
    dependencies (and the task itself) that no unfinished task waits for any more -/
theorem completeTask_TSInv (P : TS) (hP : PI P) (Y : List Tid) (s : TS) (t : Tid) (h : TSInv P Y s)
    (ht : t ∈ s.active) :
    ∃ s' rem, completeTask s t = some (s', rem) ∧ TSInv P (Y ++ [t]) s' ∧
      s'.pending = s.pending ∧ s'.active = s.active.filter (· ≠ t) ∧
      (∀ d, d ∈ rem ↔ (d ∈ P.ddeps t ∨ d = t) ∧ s'.pendDependents d = []) := by
  have htY : t ∉ Y := h.disjAY t ht
  have hub := unblock_closed t (s.pendDependents t) s.pendDeps
    (by rw [h.pdt]; exact (hP.nodupDt t).filter _)
    (by
      intro x hx
      rw [h.mem_pdt] at hx
      rw [h.mem_pd]
      exact ⟨(hP.dual t x).mp hx.1, htY⟩)
  have hrel := release_closed t (s.ddeps t) s.pendDependents
    (by rw [h.ddeps]; exact hP.nodupD t)
    (by
      intro d hd
      rw [h.ddeps] at hd
      rw [h.mem_pdt]
      exact ⟨(hP.dual d t).mpr hd, htY⟩)
  -- the dictionaries after the step, in filtered form
  have hpd' : ∀ x, (if x ∈ s.pendDependents t then (s.pendDeps x).filter (· ≠ t) else s.pendDeps x)
      = (P.ddeps x).filter (· ∉ Y ++ [t]) := by
    intro x
    rw [filter_notin_snoc, ← h.pd]
    split
    · rfl
    · next hx =>
      rw [filter_ne_self]
      intro htx
      rw [h.mem_pd] at htx
      apply hx
      rw [h.mem_pdt]
      refine ⟨(hP.dual t x).mpr htx.1, ?_⟩
      intro hxY
      exact htY (h.yDeps x hxY t htx.1)
  have hpdt' : ∀ x, (if x ∈ s.ddeps t then (s.pendDependents x).filter (· ≠ t) else s.pendDependents x)
      = (P.pendDependents x).filter (· ∉ Y ++ [t]) := by
    intro x
    rw [filter_notin_snoc, ← h.pdt]
    split
    · rfl
    · next hx =>
      rw [filter_ne_self]
      intro htx
      rw [h.mem_pdt] at htx
      apply hx
      rw [h.ddeps]
      exact (hP.dual x t).mp htx.1
  refine ⟨{ s with active := s.active.filter (· ≠ t),
                     pendDeps := fun x => if x ∈ s.pendDependents t then (s.pendDeps x).filter (· ≠ t) else s.pendDeps x,
                     pendDependents := fun x => if x ∈ s.ddeps t then (s.pendDependents x).filter (· ≠ t) else s.pendDependents x },
    if (if t ∈ s.ddeps t then (s.pendDependents t).filter (· ≠ t) else s.pendDependents t).isEmpty
      then (s.ddeps t).filter (fun d => ((s.pendDependents d).filter (· ≠ t)).isEmpty) ++ [t]
      else (s.ddeps t).filter (fun d => ((s.pendDependents d).filter (· ≠ t)).isEmpty),
    ?_, ?_, rfl, rfl, ?_⟩
  · simp only [completeTask, setRemove, ht, if_true, hub, hrel]
  · exact {
      ddeps := h.ddeps
      inst := h.inst
      ndP := h.ndP
      ndA := h.ndA.filter _
      ndY := by
        rw [List.nodup_append]
        refine ⟨h.ndY, by simp, ?_⟩
        intro a ha b hb
        simp only [List.mem_singleton] at hb
        subst hb
        intro hab; subst hab
        exact htY ha
      disjPA := by
        intro x hx hxa
        simp only [List.mem_filter] at hxa
        exact h.disjPA x hx hxa.1
      disjPY := by
        intro x hx
        simp only [List.mem_append, List.mem_singleton, not_or]
        refine ⟨h.disjPY x hx, ?_⟩
        intro hxt; subst hxt
        exact h.disjPA x hx ht
      disjAY := by
        intro x hx
        simp only [List.mem_filter, ne_eq, decide_eq_true_eq] at hx
        simp only [List.mem_append, List.mem_singleton, not_or]
        exact ⟨h.disjAY x hx.1, hx.2⟩
      cover := by
        intro x
        rw [h.cover x]
        simp only [List.mem_filter, ne_eq, decide_eq_true_eq, List.mem_append, List.mem_singleton]
        by_cases hx : x = t
        · subst hx; simp [ht]
        · simp [hx]
      pd := hpd'
      pdt := hpdt'
      actDeps := by
        intro x hx d hd
        simp only [List.mem_filter] at hx
        exact List.mem_append_left _ (h.actDeps x hx.1 d hd)
      yDeps := by
        intro x hx d hd
        simp only [List.mem_append, List.mem_singleton] at hx
        rcases hx with hx | hx
        · exact List.mem_append_left _ (h.yDeps x hx d hd)
        · subst hx; exact List.mem_append_left _ (h.actDeps x ht d hd) }
  · intro d
    simp only
    have hself : t ∉ s.ddeps t := by
      rw [h.ddeps]
      intro hself
      exact htY (h.actDeps t ht t hself)
    by_cases hdt : d = t
    · subst hdt
      simp only [hself, if_false, or_true, true_and]
      split
      · next he =>
        simp only [List.mem_append, List.mem_singleton, or_true, true_iff]
        simpa using he
      · next he =>
        constructor
        · intro hmem
          simp only [List.mem_filter] at hmem
          exact absurd hmem.1 hself
        · intro he'
          rw [he'] at he
          simp at he
    · have hcore : d ∈ (s.ddeps t).filter (fun d => ((s.pendDependents d).filter (· ≠ t)).isEmpty) ↔
          (d ∈ P.ddeps t ∨ d = t) ∧
            (if d ∈ s.ddeps t then (s.pendDependents d).filter (· ≠ t) else s.pendDependents d) = [] := by
        rw [List.mem_filter, List.isEmpty_iff, h.ddeps]
        constructor
        · rintro ⟨h1, h2⟩
          rw [if_pos h1]
          exact ⟨Or.inl h1, h2⟩
        · rintro ⟨h1, h2⟩
          have h1' : d ∈ P.ddeps t := by
            rcases h1 with h1 | h1
            · exact h1
            · exact absurd h1 hdt
          rw [if_pos h1'] at h2
          exact ⟨h1', h2⟩
      by_cases he : (if t ∈ s.ddeps t then (s.pendDependents t).filter (· ≠ t) else s.pendDependents t).isEmpty = true
      · rw [if_pos he, List.mem_append, List.mem_singleton]
        rw [show (d ∈ (s.ddeps t).filter (fun d => ((s.pendDependents d).filter (· ≠ t)).isEmpty) ∨ d = t) ↔
            d ∈ (s.ddeps t).filter (fun d => ((s.pendDependents d).filter (· ≠ t)).isEmpty) from
          ⟨fun h => h.resolve_right hdt, Or.inl⟩]
        exact hcore
      · rw [if_neg he]
        exact hcore

end Lt
