import LabtechModel.Proofs.Inv2Main
/-!
# C16: values never influence the shape of a run (which entries are written, under which key)

`zrs` erases every computed value of a coordinator state (results, captured results, store, worker
snapshots, trace) to `0`. Every step of the model commutes with the erasure when `run()` is replaced
by the value-free `eraseP p okL` (succeed with `0` iff the task is in `okL`). Hence two problems that
differ only in `behave` (= in what `run()` computes from its context and its dependencies' values)
and have the same success pattern produce runs of the same shape and stores with the same keys.
-/
namespace Lt

def zl (l : List (Tid × Val)) : List (Tid × Val) := l.map (fun kv => (kv.1, 0))

def zo : Outcome → Outcome
  | .ok _ => .ok 0
  | .exc => .exc
  | .died => .died

@[reducible] def zj (j : Job) : Job := { j with snap := j.snap.map zl }

def zev : Ev → Ev
  | .yield t o => .yield t (zo o)
  | .exec t seen => .exec t (seen.map (Option.map (fun _ => 0)))
  | .submit t uc => .submit t uc
  | .start t => .start t
  | .waitEnter a b => .waitEnter a b
  | .remove a b => .remove a b
  | .load t => .load t

def zst : Status → Status
  | .returned r => .returned (zl r)
  | .running => .running
  | .raised e => .raised e

def zrs (rs : RS) : RS :=
  { rs with queued := rs.queued.map zj, running := rs.running.map zj, results := zl rs.results,
            taskResults := zl rs.taskResults, store := zl rs.store, trace := rs.trace.map zev,
            status := zst rs.status }

/-- `run()` replaced by a value-free stub: succeeds with `0` exactly for the tasks in `okL` -/
@[reducible] def eraseP (p : Problem) (okL : List Tid) : Problem :=
  { p with behave := fun t _ => if t ∈ okL then some 0 else none }

theorem RS_ext (a b : RS) (h1 : a.ts = b.ts) (h2 : a.queued = b.queued) (h3 : a.running = b.running)
    (h4 : a.futs = b.futs) (h5 : a.results = b.results) (h6 : a.taskResults = b.taskResults)
    (h7 : a.store = b.store) (h8 : a.marked = b.marked) (h9 : a.trace = b.trace)
    (h10 : a.status = b.status) : a = b := by
  cases a; cases b; simp_all

/-! ## lists of pairs -/
theorem zl_keys (l : List (Tid × Val)) : (zl l).map Prod.fst = l.map Prod.fst := by
  simp [zl, List.map_map, Function.comp_def]

theorem zl_keys' (l : List (Tid × Val)) : (zl l).map (·.1) = l.map (·.1) := zl_keys l

theorem lookup_zl (t : Tid) : ∀ (l : List (Tid × Val)), lookup t (zl l) = (lookup t l).map (fun _ => 0) := by
  intro l
  induction l with
  | nil => rfl
  | cons kv rest ih =>
    obtain ⟨k, v⟩ := kv
    simp only [zl, List.map_cons, lookup]
    split
    · rfl
    · exact ih

theorem zl_filter_key (q : Tid → Bool) : ∀ (l : List (Tid × Val)),
    zl (l.filter (fun kv => q kv.1)) = (zl l).filter (fun kv => q kv.1) := by
  intro l
  induction l with
  | nil => rfl
  | cons kv rest ih =>
    simp only [List.filter_cons, zl, List.map_cons] at ih ⊢
    split
    · simp only [List.map_cons, ih]
    · exact ih

theorem zl_cons (t : Tid) (v : Val) (l : List (Tid × Val)) : zl ((t, v) :: l) = (t, 0) :: zl l := rfl

theorem useCache_zl (cfg : Config) (p : Problem) (st : Store) (t : Tid) :
    useCache cfg p (zl st) t = useCache cfg p st t := by
  simp only [useCache, lookup_zl]
  cases lookup t st <;> rfl

theorem useCache_eraseP (cfg : Config) (p : Problem) (okL : List Tid) (st : Store) (t : Tid) :
    useCache cfg (eraseP p okL) st t = useCache cfg p st t := rfl

theorem reads_zl (p : Problem) (i : Iid) (snap : List (Tid × Val)) :
    reads p i (zl snap) = (reads p i snap).map (Option.map (fun _ => 0)) := by
  simp only [reads, List.map_map]
  apply List.map_congr_left
  intro c _
  simp only [Function.comp, lookup_zl]

/-! ## the problem enters planning and `get_ready_tasks` only through fields `eraseP` keeps -/
theorem processLevel_eraseP (p : Problem) (okL : List Tid) (uc : Tid → Bool) :
    ∀ (l : List Iid) (s : TS) (acc : List Iid),
      processLevel (eraseP p okL) uc l s acc = processLevel p uc l s acc := by
  intro l
  induction l with
  | nil => intro s acc; rfl
  | cons i is ih =>
    intro s acc
    simp only [processLevel]
    split
    · exact ih s acc
    · exact ih _ _

theorem processTasks_eraseP (p : Problem) (okL : List Tid) (uc : Tid → Bool) :
    ∀ (fuel : Nat) (l : List Iid) (s : TS),
      processTasks (eraseP p okL) uc fuel l s = processTasks p uc fuel l s := by
  intro fuel
  induction fuel with
  | zero => intro l s; rfl
  | succ n ih =>
    intro l s
    simp only [processTasks, processLevel_eraseP]
    split
    · rfl
    · exact ih _ _

theorem plan_eraseP (cfg : Config) (p : Problem) (okL : List Tid) (store : Store) (fuel : Nat) :
    plan cfg (eraseP p okL) (zl store) fuel = plan cfg p store fuel := by
  simp only [plan]
  have : useCache cfg (eraseP p okL) (zl store) = useCache cfg p store := by
    funext t; rw [useCache_eraseP, useCache_zl]
  rw [this, processTasks_eraseP]

theorem readyAux_eraseP (p : Problem) (okL : List Tid) (s : TS) :
    ∀ (l : List Tid) (c : Nat → Nat), readyAux (eraseP p okL) s l c = readyAux p s l c := by
  intro l
  induction l with
  | nil => intro c; rfl
  | cons x rest ih =>
    intro c
    simp only [readyAux, ih]

theorem readyTasks_eraseP (p : Problem) (okL : List Tid) (s : TS) :
    readyTasks (eraseP p okL) s = readyTasks p s := by
  simp only [readyTasks, readyAux_eraseP]
  rfl

/-! ## projections of an erased state -/
@[simp] theorem zrs_ts (rs : RS) : (zrs rs).ts = rs.ts := rfl
@[simp] theorem zrs_queued (rs : RS) : (zrs rs).queued = rs.queued.map zj := rfl
@[simp] theorem zrs_running (rs : RS) : (zrs rs).running = rs.running.map zj := rfl
@[simp] theorem zrs_futs (rs : RS) : (zrs rs).futs = rs.futs := rfl
@[simp] theorem zrs_results (rs : RS) : (zrs rs).results = zl rs.results := rfl
@[simp] theorem zrs_taskResults (rs : RS) : (zrs rs).taskResults = zl rs.taskResults := rfl
@[simp] theorem zrs_store (rs : RS) : (zrs rs).store = zl rs.store := rfl
@[simp] theorem zrs_marked (rs : RS) : (zrs rs).marked = rs.marked := rfl
@[simp] theorem zrs_trace (rs : RS) : (zrs rs).trace = rs.trace.map zev := rfl
@[simp] theorem zrs_status (rs : RS) : (zrs rs).status = zst rs.status := rfl
@[simp] theorem zj_tid (j : Job) : (zj j).tid = j.tid := rfl
@[simp] theorem zj_useCache (j : Job) : (zj j).useCache = j.useCache := rfl

theorem zj_tid_map (l : List Job) : (l.map zj).map Job.tid = l.map Job.tid := by
  simp [List.map_map, Function.comp_def]

theorem zst_running_iff (s : Status) : zst s = .running ↔ s = .running := by
  cases s <;> simp [zst]

/-! ## `_start_processes`, submit phase -/
theorem takeN_map {α β} (f : α → β) : ∀ (n : Nat) (l : List α),
    takeN n (l.map f) = ((takeN n l).1.map f, (takeN n l).2.map f) := by
  intro n
  induction n with
  | zero => intro l; rfl
  | succ n ih =>
    intro l
    cases l with
    | nil => rfl
    | cons x xs =>
      simp only [List.map_cons, takeN, ih]

theorem startProcesses_zrs (cfg : Config) (rs : RS) :
    zrs (startProcesses cfg rs) = startProcesses cfg (zrs rs) := by
  have hn : cfg.maxWorkers - (zrs rs).running.length = cfg.maxWorkers - rs.running.length := by simp
  have htk := takeN_map zj (cfg.maxWorkers - rs.running.length) rs.queued
  have hsnap : ∀ j, zj (snapF cfg rs j) = snapF cfg (zrs rs) (zj j) := by
    intro j; simp only [snapF]; split <;> rfl
  have hq : (startProcesses cfg (zrs rs)).queued
      = (takeN (cfg.maxWorkers - rs.running.length) rs.queued).2.map zj := by
    show (takeN (cfg.maxWorkers - (zrs rs).running.length) (zrs rs).queued).2 = _
    rw [hn, zrs_queued, htk]
  have hgo : (takeN (cfg.maxWorkers - (zrs rs).running.length) (zrs rs).queued).1.map (snapF cfg (zrs rs))
      = ((takeN (cfg.maxWorkers - rs.running.length) rs.queued).1.map (snapF cfg rs)).map zj := by
    rw [hn, zrs_queued, htk]
    simp only [List.map_map]
    apply List.map_congr_left
    intro j _
    exact (hsnap j).symm
  apply RS_ext
  · rfl
  · exact hq.symm
  · show (rs.running ++ (takeN _ rs.queued).1.map (snapF cfg rs)).map zj
      = (zrs rs).running ++ (takeN (cfg.maxWorkers - (zrs rs).running.length) (zrs rs).queued).1.map (snapF cfg (zrs rs))
    rw [hgo, List.map_append]; rfl
  · rfl
  · rfl
  · rfl
  · rfl
  · rfl
  · show (rs.trace ++ ((takeN _ rs.queued).1.map (snapF cfg rs)).map (fun j => Ev.start j.tid)).map zev
      = (zrs rs).trace ++ ((takeN (cfg.maxWorkers - (zrs rs).running.length) (zrs rs).queued).1.map
          (snapF cfg (zrs rs))).map (fun j => Ev.start j.tid)
    rw [hgo, List.map_append]
    simp only [List.map_map]
    rfl
  · rfl

/-- the bookkeeping part of `submit_task` -/
abbrev subBase (rs : RS) (t : Tid) (j : Job) (uc : Bool) : RS :=
  { rs with queued := rs.queued ++ [j], futs := rs.futs ++ [t], trace := rs.trace ++ [Ev.submit t uc] }

theorem submitTask_zrs (cfg : Config) (p : Problem) (okL : List Tid) (rs : RS) (t : Tid) :
    zrs (submitTask cfg p rs t) = submitTask cfg (eraseP p okL) (zrs rs) t := by
  have huc : useCache cfg (eraseP p okL) (zrs rs).store t = useCache cfg p rs.store t := by
    rw [useCache_eraseP, zrs_store, useCache_zl]
  have hbase : zrs (subBase rs t (newJob cfg p rs t) (useCache cfg p rs.store t))
      = subBase (zrs rs) t (newJob cfg (eraseP p okL) (zrs rs) t)
          (useCache cfg (eraseP p okL) (zrs rs).store t) := by
    rw [huc]
    have hj : zj (newJob cfg p rs t) = newJob cfg (eraseP p okL) (zrs rs) t := by
      by_cases hsp : cfg.backend = .spawn
      · simp only [newJob, zj, huc, if_pos hsp, Option.map_some, zrs_results, zrs_ts]
        rw [zl_filter_key (fun k => decide (k ∈ rs.ts.ddeps t))]
        rfl
      · simp only [newJob, zj, huc, if_neg hsp, Option.map_none]
    apply RS_ext
    · rfl
    · show (rs.queued ++ [newJob cfg p rs t]).map zj = _
      rw [List.map_append, List.map_singleton, hj]; rfl
    · rfl
    · rfl
    · rfl
    · rfl
    · rfl
    · rfl
    · show (rs.trace ++ [Ev.submit t (useCache cfg p rs.store t)]).map zev = _
      rw [List.map_append]; rfl
    · rfl
  have h1 : ∀ (q : Problem) (r : RS), submitTask cfg q r t =
      if cfg.backend = .serial then subBase r t (newJob cfg q r t) (useCache cfg q r.store t)
      else startProcesses cfg (subBase r t (newJob cfg q r t) (useCache cfg q r.store t)) := by
    intro q r; rfl
  rw [h1, h1]
  by_cases hb : cfg.backend = .serial
  · rw [if_pos hb, if_pos hb]
    exact hbase
  · rw [if_neg hb, if_neg hb, ← hbase]
    exact startProcesses_zrs cfg _

theorem submitAll_zrs (cfg : Config) (p : Problem) (okL : List Tid) :
    ∀ (l : List Tid) (rs : RS), zrs (submitAll cfg p l rs) = submitAll cfg (eraseP p okL) l (zrs rs) := by
  intro l
  induction l with
  | nil => intro rs; rfl
  | cons t ts ih =>
    intro rs
    simp only [submitAll, zrs_ts]
    cases startTask rs.ts t with
    | none => rfl
    | some s' =>
      simp only
      rw [ih, submitTask_zrs]
      rfl

/-! ## handling outcomes -/
theorem zl_removeResults (res : List (Tid × Val)) (ts : List Tid) :
    zl (removeResults res ts) = removeResults (zl res) ts := by
  simp only [removeResults]
  exact zl_filter_key (fun k => decide (k ∉ ts)) res

theorem zl_filter_ne (res : List (Tid × Val)) (t : Tid) :
    zl (res.filter (fun kv => kv.1 ≠ t)) = (zl res).filter (fun kv => kv.1 ≠ t) :=
  zl_filter_key (fun k => decide (k ≠ t)) res

theorem remove_keys_zl (l : List (Tid × Val)) (rem : List Tid) :
    (removeResults (zl l) rem).map (fun x => x.fst) = (removeResults l rem).map (fun x => x.fst) := by
  rw [← zl_removeResults]; exact zl_keys' _

theorem zst_raised (e : Err) : zst (.raised e) = .raised e := rfl

theorem processYield_zrs (cfg : Config) (req : List Tid) (rs : RS) (t : Tid) (o : Outcome) :
    zrs (processYield cfg req rs t o) = processYield cfg req (zrs rs) t (zo o) := by
  cases o with
  | ok v =>
    simp only [processYield, zo, zrs_ts]
    cases completeTask rs.ts t with
    | none =>
      apply RS_ext <;> simp only [zrs_ts, zrs_queued, zrs_running, zrs_futs, zrs_results, zrs_taskResults,
        zrs_store, zrs_marked, zrs_trace, zrs_status, zl_cons, zl_filter_ne, List.map_append, List.map_cons,
        List.map_nil, zev, zo, zst_raised]
      · split <;> simp only [zl_cons, zl_filter_ne]
    | some r =>
      obtain ⟨s', rem⟩ := r
      apply RS_ext <;> simp only [zrs_ts, zrs_queued, zrs_running, zrs_futs, zrs_results, zrs_taskResults,
        zrs_store, zrs_marked, zrs_trace, zrs_status, zl_cons, zl_filter_ne, List.map_append, List.map_cons,
        List.map_nil, zev, zo, zl_removeResults]
      · split <;> simp only [zl_cons, zl_filter_ne]
      · rw [← zl_filter_ne, ← zl_cons t v, remove_keys_zl]
  | exc =>
    simp only [processYield, zo, zrs_ts]
    cases completeTask rs.ts t with
    | none =>
      apply RS_ext <;> simp only [zrs_ts, zrs_queued, zrs_running, zrs_futs, zrs_results, zrs_taskResults,
        zrs_store, zrs_marked, zrs_trace, zrs_status, List.map_append, List.map_cons,
        List.map_nil, zev, zo, zst_raised]
    | some r =>
      obtain ⟨s', rem⟩ := r
      cases hcf : cfg.contOnFail <;>
      apply RS_ext <;> simp only [zrs_ts, zrs_queued, zrs_running, zrs_futs, zrs_results, zrs_taskResults,
        zrs_store, zrs_marked, zrs_trace, zrs_status, List.map_append, List.map_cons,
        List.map_nil, zev, zo, zl_removeResults, remove_keys_zl, zst_raised, Bool.false_eq_true, if_false, if_true]
  | died =>
    simp only [processYield, zo, zrs_ts]
    cases completeTask rs.ts t with
    | none =>
      apply RS_ext <;> simp only [zrs_ts, zrs_queued, zrs_running, zrs_futs, zrs_results, zrs_taskResults,
        zrs_store, zrs_marked, zrs_trace, zrs_status, List.map_append, List.map_cons,
        List.map_nil, zev, zo, zst_raised]
    | some r =>
      obtain ⟨s', rem⟩ := r
      cases hcf : cfg.contOnFail <;>
      apply RS_ext <;> simp only [zrs_ts, zrs_queued, zrs_running, zrs_futs, zrs_results, zrs_taskResults,
        zrs_store, zrs_marked, zrs_trace, zrs_status, List.map_append, List.map_cons,
        List.map_nil, zev, zo, zl_removeResults, remove_keys_zl, zst_raised, Bool.false_eq_true, if_false, if_true]

def zy (y : Tid × Outcome) : Tid × Outcome := (y.1, zo y.2)

theorem processYields_zrs (cfg : Config) (req : List Tid) :
    ∀ (ys : List (Tid × Outcome)) (rs : RS),
      zrs (processYields cfg req ys rs) = processYields cfg req (ys.map zy) (zrs rs) := by
  intro ys
  induction ys with
  | nil => intro rs; rfl
  | cons y rest ih =>
    intro rs
    obtain ⟨t, o⟩ := y
    simp only [processYields, List.map_cons, zy, zrs_status]
    cases hs : rs.status with
    | running =>
      simp only [zst]
      rw [ih, processYield_zrs]
      rfl
    | returned r => rfl
    | raised e => rfl

/-! ## what a worker does -/
def okOr : Option Val → Outcome
  | some v => .ok v
  | none => .exc

theorem runOutcome_eq (p : Problem) (ts : TS) (st : Store) (j : Job) :
    runOutcome p ts st j =
      if j.useCache then okOr (lookup j.tid st)
      else if p.fails j.tid then .exc
      else okOr (p.behave j.tid (reads p (repr0 ts j.tid) (j.snap.getD []))) := by
  unfold runOutcome okOr
  rfl

theorem zo_okOr (x : Option Val) : zo (okOr x) = okOr (x.map (fun _ => 0)) := by
  cases x <;> rfl

theorem saveIfRan_zl (p : Problem) (okL : List Tid) (st : Store) (j : Job) (o : Outcome) :
    zl (saveIfRan p st j o) = saveIfRan (eraseP p okL) (zl st) (zj j) (zo o) := by
  cases o with
  | ok v =>
    show zl (if (p.cacheable (p.ty j.tid) && !j.useCache) = true
        then (j.tid, v) :: st.filter (fun kv => kv.1 ≠ j.tid) else st)
      = (if (p.cacheable (p.ty j.tid) && !j.useCache) = true
        then (j.tid, 0) :: (zl st).filter (fun kv => kv.1 ≠ j.tid) else zl st)
    by_cases h : (p.cacheable (p.ty j.tid) && !j.useCache) = true
    · rw [if_pos h, if_pos h, zl_cons, zl_filter_ne]
    · rw [if_neg h, if_neg h]
  | exc => rfl
  | died => rfl

theorem zj_snap_getD (j : Job) : (zj j).snap.getD [] = zl (j.snap.getD []) := by
  show (j.snap.map zl).getD [] = _
  cases j.snap <;> rfl

theorem runEvents_zev (p : Problem) (okL : List Tid) (ts : TS) (j : Job) :
    (runEvents p ts j).map zev = runEvents (eraseP p okL) ts (zj j) := by
  show (if j.useCache = true then [Ev.load j.tid]
      else [Ev.exec j.tid (reads p (repr0 ts j.tid) (j.snap.getD []))]).map zev
    = (if j.useCache = true then [Ev.load j.tid]
      else [Ev.exec j.tid (reads p (repr0 ts j.tid) ((zj j).snap.getD []))])
  by_cases h : j.useCache = true
  · rw [if_pos h, if_pos h]; rfl
  · rw [if_neg h, if_neg h, zj_snap_getD, reads_zl]; rfl

theorem jobEvents_zev (p : Problem) (okL : List Tid) (ts : TS) (j : Job) :
    (jobEvents p ts j).map zev = jobEvents (eraseP p okL) ts (zj j) := by
  show (if p.dies j.tid = true then [] else runEvents p ts j).map zev
    = (if p.dies j.tid = true then [] else runEvents (eraseP p okL) ts (zj j))
  by_cases h : p.dies j.tid = true
  · rw [if_pos h, if_pos h]; rfl
  · rw [if_neg h, if_neg h]; exact runEvents_zev p okL ts j

/-- the outcome of the value-free stub is the erased outcome, whenever the real outcome is the
    reference outcome and `okL` lists the tasks that have a reference value -/
theorem runOutcome_zo (cfg : Config) (p : Problem) (store0 : Store) (obj : Tid → Iid) (okL : List Tid)
    (ts : TS) (st : Store) (j : Job)
    (ho : runOutcome p ts st j = refOutcome cfg p store0 obj j.tid) (hd : diesIn cfg p j.tid = false)
    (hok : (refEvalF cfg p store0 obj j.tid).isSome ↔ j.tid ∈ okL) :
    zo (runOutcome p ts st j) = runOutcome (eraseP p okL) ts (zl st) (zj j) := by
  simp only [refOutcome, hd, Bool.false_eq_true, if_false] at ho
  rw [runOutcome_eq] at ho ⊢
  rw [runOutcome_eq]
  show _ = (if j.useCache = true then okOr (lookup j.tid (zl st))
      else if p.fails j.tid = true then Outcome.exc
      else okOr (if j.tid ∈ okL then some 0 else none))
  by_cases huc : j.useCache = true
  · rw [if_pos huc, if_pos huc, zo_okOr, lookup_zl]
  · rw [if_neg huc] at ho
    rw [if_neg huc, if_neg huc]
    by_cases hf : p.fails j.tid = true
    · rw [if_pos hf, if_pos hf]; rfl
    · rw [if_neg hf] at ho
      rw [if_neg hf, if_neg hf]
      cases hb : p.behave j.tid (reads p (repr0 ts j.tid) (j.snap.getD [])) with
      | none =>
        rw [hb] at ho
        cases hv : refEvalF cfg p store0 obj j.tid with
        | none =>
          have : j.tid ∉ okL := fun h => by
            have := hok.mpr h
            rw [hv] at this; simp at this
          rw [if_neg this]; rfl
        | some v => rw [hv] at ho; simp [okOr] at ho
      | some v =>
        rw [hb] at ho
        cases hv : refEvalF cfg p store0 obj j.tid with
        | none => rw [hv] at ho; simp [okOr] at ho
        | some w =>
          have : j.tid ∈ okL := hok.mp (by rw [hv]; rfl)
          rw [if_pos this]; rfl

theorem jobOutcome_zo (cfg : Config) (p : Problem) (store0 : Store) (obj : Tid → Iid) (okL : List Tid)
    (ts : TS) (st : Store) (j : Job) (hb : cfg.backend ≠ .serial)
    (ho : jobOutcome p ts st j = refOutcome cfg p store0 obj j.tid)
    (hok : (refEvalF cfg p store0 obj j.tid).isSome ↔ j.tid ∈ okL) :
    zo (jobOutcome p ts st j) = jobOutcome (eraseP p okL) ts (zl st) (zj j) := by
  show zo (if p.dies j.tid = true then Outcome.died else runOutcome p ts st j)
    = (if p.dies j.tid = true then Outcome.died else runOutcome (eraseP p okL) ts (zl st) (zj j))
  have ho' : (if p.dies j.tid = true then Outcome.died else runOutcome p ts st j)
      = refOutcome cfg p store0 obj j.tid := ho
  by_cases hd : p.dies j.tid = true
  · rw [if_pos hd, if_pos hd]; rfl
  · rw [if_neg hd] at ho'
    rw [if_neg hd, if_neg hd]
    exact runOutcome_zo cfg p store0 obj okL ts st j ho'
      (by rw [diesIn_process cfg p _ hb]; simpa using hd) hok

/-! ## the serial runner's wait -/
theorem waitSerial_zrs (cfg : Config) (p : Problem) (okL : List Tid) (req : List Tid) (rs : RS)
    (ho : ∀ j rest, rs.queued = j :: rest →
      zo (runOutcome p rs.ts rs.store { j with snap := some rs.results })
        = runOutcome (eraseP p okL) rs.ts (zl rs.store) (zj { j with snap := some rs.results })) :
    zrs (waitSerial cfg p req rs) = waitSerial cfg (eraseP p okL) req (zrs rs) := by
  cases hq : rs.queued with
  | nil =>
    have hq' : (zrs rs).queued = [] := by rw [zrs_queued, hq]; rfl
    rw [waitSerial_nil cfg p req rs hq, waitSerial_nil cfg _ req (zrs rs) hq']
    apply RS_ext <;> try rfl
    show (rs.trace ++ [Ev.waitEnter (rs.queued.map Job.tid) []]).map zev
      = (zrs rs).trace ++ [Ev.waitEnter ((zrs rs).queued.map Job.tid) []]
    rw [List.map_append, zrs_queued, zj_tid_map]; rfl
  | cons j rest =>
    have hq' : (zrs rs).queued = zj j :: rest.map zj := by rw [zrs_queued, hq]; rfl
    have hpre : zrs (serialPre p rs j rest) = serialPre (eraseP p okL) (zrs rs) (zj j) (rest.map zj) := by
      apply RS_ext <;> try rfl
      · show zl (saveIfRan p rs.store { j with snap := some rs.results }
            (runOutcome p rs.ts rs.store { j with snap := some rs.results }))
          = saveIfRan (eraseP p okL) (zl rs.store) (zj { j with snap := some rs.results })
            (runOutcome (eraseP p okL) rs.ts (zl rs.store) (zj { j with snap := some rs.results }))
        rw [saveIfRan_zl p okL, ho j rest hq]
      · show (rs.trace ++ [Ev.waitEnter (rs.queued.map Job.tid) []] ++ [Ev.start j.tid] ++
            runEvents p rs.ts { j with snap := some rs.results }).map zev
          = (zrs rs).trace ++ [Ev.waitEnter ((zrs rs).queued.map Job.tid) []] ++ [Ev.start j.tid] ++
            runEvents (eraseP p okL) rs.ts (zj { j with snap := some rs.results })
        rw [List.map_append, List.map_append, List.map_append, runEvents_zev p okL, zrs_queued, zj_tid_map]
        rfl
    rw [waitSerial_cons cfg p req rs j rest hq, waitSerial_cons cfg _ req (zrs rs) (zj j) (rest.map zj) hq',
      processYield_zrs]
    have e1 : zrs { serialPre p rs j rest with futs := (serialPre p rs j rest).futs.filter (· ≠ j.tid) }
        = { zrs (serialPre p rs j rest) with futs := (zrs (serialPre p rs j rest)).futs.filter (· ≠ j.tid) } := rfl
    rw [e1, hpre, ho j rest hq]
    rfl

/-! ## a process runner's wait -/
theorem enum_filter_map {α β} (f : α → β) (q : Nat → Bool) : ∀ (l : List α) (n : Nat),
    ((enumFrom n (l.map f)).filter (fun ij => q ij.1)).map (·.2)
      = (((enumFrom n l).filter (fun ij => q ij.1)).map (·.2)).map f := by
  intro l
  induction l with
  | nil => intro n; rfl
  | cons x xs ih =>
    intro n
    simp only [List.map_cons, enumFrom, List.filter_cons]
    split
    · simp only [List.map_cons, ih]
    · exact ih _

theorem finJobs_zrs (c : Choice) (rs : RS) : finJobs c (zrs rs) = (finJobs c rs).map zj :=
  enum_filter_map zj c.finish rs.running 0

theorem stayJobs_zrs (c : Choice) (rs : RS) : stayJobs c (zrs rs) = (stayJobs c rs).map zj :=
  enum_filter_map zj (fun i => !c.finish i) rs.running 0

theorem saveAll_zl (p : Problem) (okL : List Tid) (store0 : Store) (ts : TS) :
    ∀ (js : List Job) (st : Store), (js.map Job.tid).Nodup →
      (∀ j ∈ js, lookup j.tid st = lookup j.tid store0) →
      (∀ j ∈ js, ∀ st', lookup j.tid st' = lookup j.tid store0 →
        zo (jobOutcome p ts st' j) = jobOutcome (eraseP p okL) ts (zl st') (zj j)) →
      zl (saveAll p ts js st) = saveAll (eraseP p okL) ts (js.map zj) (zl st) := by
  intro js
  induction js with
  | nil => intro st _ _ _; rfl
  | cons a js ih =>
    intro st hnd hst hout
    simp only [List.map_cons, List.nodup_cons] at hnd
    simp only [saveAll, List.map_cons]
    rw [← hout a List.mem_cons_self st (hst a List.mem_cons_self), ← saveIfRan_zl p okL]
    apply ih _ hnd.2 _ (fun j hj => hout j (List.mem_cons_of_mem _ hj))
    intro j hj
    have hne : j.tid ≠ a.tid := by
      intro heq
      exact hnd.1 (List.mem_map.mpr ⟨j, hj, heq⟩)
    rw [saveIfRan_lookup_ne p st a _ j.tid hne]
    exact hst j (List.mem_cons_of_mem _ hj)

theorem procPre_zrs (p : Problem) (okL : List Tid) (c : Choice) (rs : RS)
    (hsave : zl (saveAll p rs.ts (finJobs c rs) rs.store)
      = saveAll (eraseP p okL) rs.ts ((finJobs c rs).map zj) (zl rs.store)) :
    zrs (procPre p c rs) = procPre (eraseP p okL) c (zrs rs) := by
  apply RS_ext <;> try rfl
  · show (stayJobs c rs).map zj = stayJobs c (zrs rs)
    rw [stayJobs_zrs]
  · show zl (saveAll p rs.ts (finJobs c rs) rs.store)
      = saveAll (eraseP p okL) rs.ts (finJobs c (zrs rs)) (zl rs.store)
    rw [finJobs_zrs, hsave]
  · show (rs.trace ++ [Ev.waitEnter (rs.queued.map Job.tid) (rs.running.map Job.tid)] ++
        ((finJobs c rs).map (jobEvents p rs.ts)).flatten).map zev
      = (zrs rs).trace ++ [Ev.waitEnter ((zrs rs).queued.map Job.tid) ((zrs rs).running.map Job.tid)] ++
        ((finJobs c (zrs rs)).map (jobEvents (eraseP p okL) rs.ts)).flatten
    rw [List.map_append, List.map_append, List.map_flatten, List.map_map, finJobs_zrs, List.map_map,
      zrs_queued, zrs_running, zj_tid_map, zj_tid_map]
    congr 2
    apply List.map_congr_left
    intro j _
    exact jobEvents_zev p okL rs.ts j

theorem procYs_zrs (p : Problem) (okL : List Tid) (c : Choice) (rs : RS)
    (hout : ∀ j ∈ finJobs c rs,
      zo (jobOutcome p rs.ts rs.store j) = jobOutcome (eraseP p okL) rs.ts (zl rs.store) (zj j)) :
    (procYs p c rs).map zy = procYs (eraseP p okL) c (zrs rs) := by
  have hO : procOutcomes (eraseP p okL) c (zrs rs) = (procOutcomes p c rs).map zy := by
    simp only [procOutcomes, finJobs_zrs, List.map_map]
    apply List.map_congr_left
    intro j hj
    simp only [Function.comp, zy]
    rw [hout j hj]
    rfl
  simp only [procYs, hO, List.map_filterMap, zrs_futs]
  apply filterMap_congr'
  intro t _
  rw [List.find?_map]
  rfl

theorem waitProcess_eq_procYs (cfg : Config) (p : Problem) (req : List Tid) (c : Choice) (rs : RS) :
    waitProcess cfg p req c rs
      = processYields cfg req (procYs p c rs) (startProcesses cfg (procPre p c rs)) := by
  show processYields cfg req ((startProcesses cfg (procPre p c rs)).futs.filterMap
      (fun t => (procOutcomes p c rs).find? (·.1 = t))) (startProcesses cfg (procPre p c rs)) = _
  rw [startProcesses_futs]
  rfl

theorem waitProcess_zrs (cfg : Config) (p : Problem) (okL : List Tid) (store0 : Store) (req : List Tid)
    (c : Choice) (rs : RS) (hnd : ((finJobs c rs).map Job.tid).Nodup)
    (hst : ∀ j ∈ finJobs c rs, lookup j.tid rs.store = lookup j.tid store0)
    (hout : ∀ j ∈ finJobs c rs, ∀ st', lookup j.tid st' = lookup j.tid store0 →
      zo (jobOutcome p rs.ts st' j) = jobOutcome (eraseP p okL) rs.ts (zl st') (zj j)) :
    zrs (waitProcess cfg p req c rs) = waitProcess cfg (eraseP p okL) req c (zrs rs) := by
  rw [waitProcess_eq_procYs, waitProcess_eq_procYs, processYields_zrs, startProcesses_zrs,
    procPre_zrs p okL c rs (saveAll_zl p okL store0 rs.ts _ _ hnd hst hout),
    procYs_zrs p okL c rs (fun j hj => hout j hj rs.store (hst j hj))]

/-! ## one iteration, whole runs -/
/-- the planned tasks that have a reference value -/
def okList (cfg : Config) (p : Problem) (store : Store) (obj : Tid → Iid) (fuel : Nat) : List Tid :=
  (plan cfg p store fuel).pending.filter (fun t => (refEvalF cfg p store obj t).isSome)

theorem mem_okList (cfg : Config) (p : Problem) (store : Store) (obj : Tid → Iid) (fuel : Nat) (t : Tid)
    (ht : t ∈ (plan cfg p store fuel).pending) :
    (refEvalF cfg p store obj t).isSome ↔ t ∈ okList cfg p store obj fuel := by
  simp only [okList, List.mem_filter]
  exact ⟨fun h => ⟨ht, h⟩, fun h => h.2⟩

theorem iteration_zrs {cfg : Config} {p : Problem} {obj : Tid → Iid} {store0 : Store} {fuel : Nat}
    {rs : RS} (H : RefHypF p obj) (c : Choice)
    (h : Reach cfg p (plan cfg p store0 fuel) rs) (hf : FlagInv cfg p store0 [] rs)
    (hr : ValInv cfg p obj store0 (reqTids p) [] rs) :
    zrs (iteration cfg p (reqTids p) c rs)
      = iteration cfg (eraseP p (okList cfg p store0 obj fuel)) (reqTids p) c (zrs rs) := by
  have hP := plan_PI cfg p store0 fuel
  obtain ⟨hc, he, hst⟩ := submitPhase_reach hP h hr.run
  have hnd : (readyTasks p rs.ts).Nodup := (readyAux_sublist p rs.ts rs.ts.pending _).nodup h.1.ts.ndP
  have hmem : ∀ t ∈ readyTasks p rs.ts, t ∈ rs.ts.pending ∧ rs.ts.pendDeps t = [] :=
    fun t ht => (readyTasks_no_pending_deps p rs.ts t ht).symm
  have hfS := submitAll_flag (store0 := store0) hP _ rs hnd hmem h.1 (h.2 hr.run) hr.run hf
  have hrS := submitAll_val (obj := obj) (req := reqTids p) _ rs hnd (fun t ht => (hmem t ht).1) hr
  have hs := hfS.2 hst
  have hsub : submitAll cfg (eraseP p (okList cfg p store0 obj fuel))
      (readyTasks (eraseP p (okList cfg p store0 obj fuel)) (zrs rs).ts) (zrs rs)
      = zrs (submitAll cfg p (readyTasks p rs.ts) rs) := by
    rw [zrs_ts, readyTasks_eraseP, submitAll_zrs]
  have hit : ∀ (q : Problem) (r : RS), iteration cfg q (reqTids p) c r =
      match (submitAll cfg q (readyTasks q r.ts) r).status with
      | .running => if cfg.backend = .serial then waitSerial cfg q (reqTids p) (submitAll cfg q (readyTasks q r.ts) r)
                    else waitProcess cfg q (reqTids p) c (submitAll cfg q (readyTasks q r.ts) r)
      | _ => submitAll cfg q (readyTasks q r.ts) r := by
    intro q r; rfl
  rw [hit, hit, hsub, zrs_status, hst]
  generalize hS : submitAll cfg p (readyTasks p rs.ts) rs = rsS at *
  show zrs (if cfg.backend = .serial then _ else _) = (if cfg.backend = .serial then _ else _)
  have hokL : ∀ j ∈ rsS.queued ++ rsS.running,
      ((refEvalF cfg p store0 obj j.tid).isSome ↔ j.tid ∈ okList cfg p store0 obj fuel) := by
    intro j hj
    exact mem_okList cfg p store0 obj fuel j.tid ((hc.ts.cover _).mpr (Or.inr (Or.inl (he.job_active hc j hj))))
  by_cases hb : cfg.backend = .serial
  · rw [if_pos hb, if_pos hb]
    apply waitSerial_zrs
    intro j rest hq
    have hjq : j ∈ rsS.queued ++ rsS.running := by rw [hq]; simp
    have hjA : j.tid ∈ rsS.ts.active := he.job_active hc j hjq
    have hjY : j.tid ∉ yielded rsS := hc.ts.disjAY _ hjA
    have ho := runOutcome_refF H hc hrS { j with snap := some rsS.results } hjA (hs.flag j hjq)
      rsS.results rfl (results_snapOK hP hc he j.tid hjY) rsS.store (hs.frame j.tid hjY (by simp))
      (diesIn_serial cfg p _ hb)
    exact runOutcome_zo cfg p store0 obj _ rsS.ts rsS.store { j with snap := some rsS.results } ho
      (diesIn_serial cfg p _ hb) (hokL j hjq)
  · rw [if_neg hb, if_neg hb]
    obtain ⟨_, _, _, _, hfinNd⟩ := waitProcess_explicit (reqTids p) c hb hc he
    have hfinq : ∀ j ∈ finJobs c rsS, j ∈ rsS.queued ++ rsS.running :=
      fun j hj => List.mem_append_right _ (finJobs_mem c rsS j hj)
    apply waitProcess_zrs cfg p _ store0 (reqTids p) c rsS hfinNd
    · intro j hj
      exact hs.frame j.tid (hc.ts.disjAY _ (he.job_active hc j (hfinq j hj))) (by simp)
    · intro j hj st' hst'
      have hjq := hfinq j hj
      have hjA := he.job_active hc j hjq
      have hout : jobOutcome p rsS.ts st' j = refOutcome cfg p store0 obj j.tid := by
        cases hd : p.dies j.tid with
        | true => simp [jobOutcome, hd, refOutcome, diesIn_process cfg p _ hb]
        | false =>
          have hjr := finJobs_mem c rsS j hj
          cases hsn : j.snap with
          | none => exact absurd hsn (he.runSnap j hjr)
          | some snap =>
            have := runOutcome_refF H hc hrS j hjA (hs.flag j hjq) snap hsn (he.snapOK j hjq snap hsn) st' hst'
              (by rw [diesIn_process cfg p _ hb]; exact hd)
            simp only [jobOutcome, hd, Bool.false_eq_true, if_false]
            exact this
      exact jobOutcome_zo cfg p store0 obj _ rsS.ts st' j hb hout (hokL j hjq)

theorem runLoop_zrs {cfg : Config} {p : Problem} {obj : Tid → Iid} {store0 : Store} {fuel : Nat}
    (H : RefHypF p obj) (hcf : cfg.contOnFail = true ∨ NoFailure cfg p store0 obj fuel) :
    ∀ (sched : List Choice) (rs : RS), Reach cfg p (plan cfg p store0 fuel) rs →
      FlagInv cfg p store0 [] rs → ValInv cfg p obj store0 (reqTids p) [] rs →
      zrs (runLoop cfg p (reqTids p) sched rs)
        = runLoop cfg (eraseP p (okList cfg p store0 obj fuel)) (reqTids p) sched (zrs rs) := by
  intro sched
  induction sched with
  | nil => intro rs _ _ _; rfl
  | cons c cs ih =>
    intro rs h hf hr
    have hP := plan_PI cfg p store0 fuel
    have hlc : loopCond (zrs rs) = loopCond rs := rfl
    simp only [runLoop, zrs_status, hr.run, zst, hlc]
    by_cases hl : loopCond rs = true
    · rw [if_pos hl, if_pos hl, ← iteration_zrs H c h hf hr]
      exact ih _ (iteration_reach _ hP c h hr.run) (iteration_flag hP c h hr.run hf)
        (iteration_val H hcf c h hf hr)
    · rw [if_neg hl, if_neg hl]

theorem finish_zrs (req : List Tid) (rs : RS) : zrs (finish req rs) = finish req (zrs rs) := by
  have hlc : loopCond (zrs rs) = loopCond rs := rfl
  simp only [finish, zrs_status, hlc]
  cases hs : rs.status with
  | running =>
    simp only [zst]
    by_cases hl : loopCond rs = true
    · rw [if_pos hl, if_pos hl]
    · rw [if_neg hl, if_neg hl]
      apply RS_ext <;> try rfl
      show zst (.returned _) = .returned _
      simp only [zst, zrs_taskResults, Status.returned.injEq, zl, List.map_filterMap]
      apply filterMap_congr'
      intro t _
      have := lookup_zl t rs.taskResults
      simp only [zl] at this
      rw [this]
      cases lookup t rs.taskResults <;> rfl
  | returned r => rfl
  | raised e => rfl

theorem initRS_zrs (cfg : Config) (p : Problem) (okL : List Tid) (store : Store) (fuel : Nat) :
    zrs (initRS cfg p store fuel) = initRS cfg (eraseP p okL) (zl store) fuel := by
  apply RS_ext <;> try rfl
  show plan cfg p store fuel = plan cfg (eraseP p okL) (zl store) fuel
  rw [plan_eraseP]

/-- erasing the values of a run = running the value-free stub on the erased cache pre-state -/
theorem run_zrs (cfg : Config) (p : Problem) (store : Store) (fuel : Nat) (sched : List Choice)
    (obj : Tid → Iid) (H : RefHypF p obj) (hcf : cfg.contOnFail = true ∨ NoFailure cfg p store obj fuel) :
    zrs (run cfg p store fuel sched)
      = run cfg (eraseP p (okList cfg p store obj fuel)) (zl store) fuel sched := by
  show zrs (finish (reqTids p) (runLoop cfg p (reqTids p) sched (initRS cfg p store fuel))) = _
  rw [finish_zrs, runLoop_zrs H hcf sched _ (initRS_reach cfg p store fuel) (initRS_flag cfg p store fuel)
    (initRS_val cfg p obj store fuel), initRS_zrs]
  rfl

/-! ## two problems that differ only in what `run()` computes -/
theorem processLevel_behave (p : Problem) (b : Tid → List (Option Val) → Option Val) (uc : Tid → Bool) :
    ∀ (l : List Iid) (s : TS) (acc : List Iid),
      processLevel { p with behave := b } uc l s acc = processLevel p uc l s acc := by
  intro l
  induction l with
  | nil => intro s acc; rfl
  | cons i is ih =>
    intro s acc
    simp only [processLevel]
    split
    · exact ih s acc
    · exact ih _ _

theorem processTasks_behave (p : Problem) (b : Tid → List (Option Val) → Option Val) (uc : Tid → Bool) :
    ∀ (fuel : Nat) (l : List Iid) (s : TS),
      processTasks { p with behave := b } uc fuel l s = processTasks p uc fuel l s := by
  intro fuel
  induction fuel with
  | zero => intro l s; rfl
  | succ n ih =>
    intro l s
    simp only [processTasks, processLevel_behave]
    split
    · rfl
    · exact ih _ _

theorem plan_behave (cfg : Config) (p : Problem) (b : Tid → List (Option Val) → Option Val)
    (store : Store) (fuel : Nat) :
    plan cfg { p with behave := b } store fuel = plan cfg p store fuel := by
  simp only [plan]
  have : useCache cfg { p with behave := b } store = useCache cfg p store := rfl
  rw [this, processTasks_behave]

theorem refHypF_behave {p : Problem} {obj : Tid → Iid} (H : RefHypF p obj)
    (b : Tid → List (Option Val) → Option Val) : RefHypF { p with behave := b } obj :=
  ⟨H.acyc, H.inst, H.objOK⟩

/-- same success pattern ⇒ the two runs are equal after erasing every value -/
theorem run_shape_eq (cfg : Config) (p : Problem) (b₂ : Tid → List (Option Val) → Option Val)
    (store : Store) (fuel : Nat) (sched : List Choice) (obj : Tid → Iid) (H : RefHypF p obj)
    (hcf : cfg.contOnFail = true)
    (hpat : ∀ t ∈ (plan cfg p store fuel).pending,
      (refEvalF cfg p store obj t).isSome = (refEvalF cfg { p with behave := b₂ } store obj t).isSome) :
    zrs (run cfg p store fuel sched) = zrs (run cfg { p with behave := b₂ } store fuel sched) := by
  rw [run_zrs cfg p store fuel sched obj H (Or.inl hcf),
    run_zrs cfg { p with behave := b₂ } store fuel sched obj (refHypF_behave H b₂) (Or.inl hcf)]
  have hok : okList cfg { p with behave := b₂ } store obj fuel = okList cfg p store obj fuel := by
    simp only [okList, plan_behave]
    apply List.filter_congr
    intro t ht
    exact (hpat t ht).symm
  rw [hok]

/-- a sufficient, value-free condition for "same success pattern": whether `run()` succeeds depends
    only on WHICH dependency reads succeed, in the same way for both behaviours -/
theorem same_pattern_of_uniform (cfg : Config) (p : Problem) (b₂ : Tid → List (Option Val) → Option Val)
    (store : Store) (obj : Tid → Iid) (H : RefHypF p obj)
    (hu : ∀ t vs ws, vs.map Option.isSome = ws.map Option.isSome →
      (p.behave t vs).isSome = (b₂ t ws).isSome) :
    ∀ n i, p.tidOf i < n →
      (refEvalF cfg p store obj (p.tidOf i)).isSome
        = (refEvalF cfg { p with behave := b₂ } store obj (p.tidOf i)).isSome := by
  intro n
  induction n with
  | zero => intro i h; exact absurd h (Nat.not_lt_zero _)
  | succ n ih =>
    intro i hi
    have h2 := refEvalF_unfold cfg { p with behave := b₂ } store obj H.acyc H.objOK i
    rw [refEvalF_unfold cfg p store obj H.acyc H.objOK i]
    have h2' : refEvalF cfg { p with behave := b₂ } store obj (p.tidOf i) =
        if diesIn cfg p (p.tidOf i) then none
        else if useCache cfg p store (p.tidOf i) then lookup (p.tidOf i) store
        else if p.fails (p.tidOf i) then none
        else b₂ (p.tidOf i)
          (((p.children (obj (p.tidOf i))).map p.tidOf).map (refEvalF cfg { p with behave := b₂ } store obj)) := h2
    rw [h2']
    by_cases h1 : diesIn cfg p (p.tidOf i) = true
    · rw [if_pos h1, if_pos h1]
    · rw [if_neg h1, if_neg h1]
      by_cases h3 : useCache cfg p store (p.tidOf i) = true
      · rw [if_pos h3, if_pos h3]
      · rw [if_neg h3, if_neg h3]
        by_cases h4 : p.fails (p.tidOf i) = true
        · rw [if_pos h4, if_pos h4]
        · rw [if_neg h4, if_neg h4]
          apply hu
          rw [List.map_map, List.map_map, List.map_map, List.map_map]
          apply List.map_congr_left
          intro c hc
          have hlt : p.tidOf c < p.tidOf i := by
            have := H.acyc (obj (p.tidOf i)) c hc
            rw [H.objOK i] at this
            exact this
          exact ih c (Nat.lt_of_lt_of_le hlt (Nat.le_of_lt_succ hi))

end Lt
