import LabtechModel.Proofs.LinkSpec
/-!
# Link scheduler model ↔ history model, part 3: every schedule computes what `labRun` computes

`specRun_agrees_with_scheduler` (specification map) and `labRun_agrees_with_scheduler_disk` (key
directories, under `KeyInj` + `Wf`): for the scheduler problem `toProblem U mp g fl req`, every
backend, every `max_workers ≥ 1`, all positive per-type limits `mp`, every fair schedule that is long
enough, `continue_on_failure` (the history model's Lab), and the scheduler store that holds the values
of the map / disk pre-state:
* the final scheduler store, read as a map tid ↦ value, is the value part of the map the history model's
  run step produces (same keys present, same values; an entry that was loaded, or whose execution
  failed, or that is outside the plan, is the pre-state entry);
* `run_tasks` returns what the history model returns (`returnedA`, request de-duplicated as the
  returned `dict` does);
* `run()` is executed (an `exec` worker record exists) for exactly the history model's `execd`,
  and a `load` record exists for exactly its `loaded`.
What is NOT linked: the start/duration metadata (the scheduler model carries values only; the
history model's entries carry `metaStart g t`, `metaDur g t`, characterised in `Props/C08.lean`),
and the *order* of `execd` (dependency-first in the history model, schedule-dependent in the
scheduler; linked as sets).
-/
namespace Lt.Link
open Lt

theorem neededFrom_nodup (U : Store.Universe) (uc : Tid → Bool) (req : List Tid) (hU : UOK U req) :
    (Store.neededFrom U uc req).Nodup :=
  (neededFrom_spec U uc req hU).1.imp (fun h => Nat.ne_of_lt h)

section main
variable (U : Store.Universe) (mp : Nat → Option Nat) (g : Nat) (fl req : List Tid) (hU : UOK U req)
  (cfg : Config) (m : Store.AMap) (st : Store) (hrel : StoreRel m st) (hmap : MapOK U m) (fuel : Nat)
include hU hrel hmap

omit hU in
theorem useCache_fun : useCache cfg (toProblem U mp g fl req) st = ucOf cfg m :=
  funext (ucOf_eq U mp g fl req cfg m st hrel hmap)

/-- the scheduler's plan is the history model's needed list (as sets; both are duplicate-free) -/
theorem planned_iff (hF : ∀ t ∈ req, t < fuel) (t : Tid) :
    t ∈ (plan cfg (toProblem U mp g fl req) st fuel).pending ↔
      t ∈ Store.neededFrom U (fun t => !cfg.bust && (m t).isSome) req := by
  rw [planned_iff_neededFrom U mp g fl req hU cfg st fuel hF t,
    useCache_fun U mp g fl req cfg m st hrel hmap]
  rfl

theorem planned_length (hF : ∀ t ∈ req, t < fuel) :
    (plan cfg (toProblem U mp g fl req) st fuel).pending.length =
      (Store.neededFrom U (fun t => !cfg.bust && (m t).isSome) req).length :=
  ((List.perm_ext_iff_of_nodup (plan_PI cfg _ st fuel).nodupP (neededFrom_nodup U _ req hU)).mpr
    (planned_iff U mp g fl req hU cfg m st hrel hmap fuel hF)).length_eq

/-- **scheduler ↔ history model, specification map** -/
theorem specRun_agrees_with_scheduler (hcf : cfg.contOnFail = true) (hF : ∀ t ∈ req, t < fuel)
    (hL : 0 < cfg.maxWorkers ∧ ∀ T L, mp T = some L → 0 < L)
    (sched : List Choice) (hfair : Fair sched)
    (hlen : (Store.neededFrom U (fun t => !cfg.bust && (m t).isSome) req).length + 1 ≤ sched.length) :
    (∀ t, lookup t (run cfg (toProblem U mp g fl req) st fuel sched).store =
      ((Store.specRun U cfg.bust g fl req m).map t).map (fun s => s.val)) ∧
    (run cfg (toProblem U mp g fl req) st fuel sched).status =
      .returned (Store.returnedA (dedup req) (Store.specRun U cfg.bust g fl req m)) ∧
    (∀ t, (∃ seen, Ev.exec t seen ∈ (run cfg (toProblem U mp g fl req) st fuel sched).trace) ↔
      t ∈ (Store.specRun U cfg.bust g fl req m).execd) ∧
    (∀ t, Ev.load t ∈ (run cfg (toProblem U mp g fl req) st fuel sched).trace ↔
      t ∈ (Store.specRun U cfg.bust g fl req m).loaded.map Prod.fst) := by
  have H := toProblem_refHypF U mp g fl req hU
  have hcl := specRun_closed U mp g fl req cfg m st hU hrel hmap
  have hpl := planned_iff U mp g fl req hU cfg m st hrel hmap fuel hF
  have hlen' : (plan cfg (toProblem U mp g fl req) st fuel).pending.length + 1 ≤ sched.length := by
    rw [planned_length U mp g fl req hU cfg m st hrel hmap fuel hF]; exact hlen
  have hucf := ucOf_eq U mp g fl req cfg m st hrel hmap
  have hret := Lt.Props.C10.unrelated_tasks_return_reference cfg _ st fuel sched id H hcf hF hL hfair hlen'
  have hreq : reqTids (toProblem U mp g fl req) = req := List.map_id req
  refine ⟨?_, ?_, ?_, ?_⟩
  · -- the store
    intro t
    rw [Lt.Props.C10.store_after_run cfg _ st fuel sched id H hcf hF hL hfair hlen' t, hcl]
    show _ = (cfMap U mp g fl req cfg m st _ t).map _
    rw [cfMap_apply]
    simp only [storeAfter, hucf, toProblem_cacheable, hrel t]
    by_cases htl : t ∈ Store.neededFrom U (ucOf cfg m) req
    · rw [if_pos ((hpl t).mpr htl)]
      by_cases hc : ucOf cfg m t = false ∧ Store.persists U t = true
      · rw [if_pos hc, if_pos ⟨htl, hc⟩]
        show (match ref U mp g fl req cfg st t with | some v => some v | none => _) = _
        cases ref U mp g fl req cfg st t <;> simp [entryOf]
      · rw [if_neg hc, if_neg (fun h => hc h.2)]
    · rw [if_neg (fun h => htl ((hpl t).mp h)), if_neg (fun h => htl h.1)]
  · -- the returned dict
    rw [hret, hreq, hcl]
    congr 1
    apply filterMap_congr'
    intro t ht
    have htl : t ∈ Store.neededFrom U (ucOf cfg m) req :=
      (mem_neededFrom U _ req hU t).mpr (Needed.req ((mem_dedup _ _).mp ht))
    show _ = match Store.lookupV t (cfVals U mp g fl req cfg st _) with | some (some v) => some (t, v) | _ => none
    rw [lookupV_cfVals, if_pos htl]
    show (ref U mp g fl req cfg st t).map _ = _
    cases ref U mp g fl req cfg st t <;> rfl
  · -- executed
    intro t
    rw [hcl]
    show _ ↔ t ∈ cfExecd cfg m _
    simp only [cfExecd, List.mem_reverse, List.mem_filter, Bool.not_eq_true']
    constructor
    · rintro ⟨seen, h⟩
      have := Lt.Props.C03.exec_implies_not_cached cfg _ st fuel sched t seen h
      exact ⟨(hpl t).mp this.2, by rw [← hucf]; exact this.1⟩
    · rintro ⟨h1, h2⟩
      exact ((Lt.Props.C03.loaded_iff_cached_beforehand cfg _ st fuel sched _ hret t ((hpl t).mpr h1)
        (toProblem_diesIn U mp g fl req cfg t)).2).mpr (by rw [hucf]; exact h2)
  · -- loaded
    intro t
    rw [hcl]
    show _ ↔ t ∈ (cfLoaded cfg m _).map Prod.fst
    simp only [cfLoaded, List.mem_map, List.mem_reverse, List.mem_filterMap]
    constructor
    · intro h
      have := Lt.Props.C03.load_implies_cached cfg _ st fuel sched t h
      have huc : ucOf cfg m t = true := by rw [← hucf]; exact this.1
      obtain ⟨s, hs⟩ : ∃ s, m t = some s := by
        simp only [ucOf, Bool.and_eq_true] at huc
        exact Option.isSome_iff_exists.mp huc.2
      exact ⟨(t, s), ⟨t, (hpl t).mp this.2, by simp [huc, hs]⟩, rfl⟩
    · rintro ⟨⟨t', s⟩, ⟨x, hx, hxs⟩, rfl⟩
      by_cases huc : ucOf cfg m x = true
      · rw [if_pos huc] at hxs
        cases hm : m x with
        | none => rw [hm] at hxs; simp at hxs
        | some s' =>
          rw [hm] at hxs
          simp only [Option.map_some, Option.some.injEq, Prod.mk.injEq] at hxs
          obtain ⟨rfl, _⟩ := hxs
          exact ((Lt.Props.C03.loaded_iff_cached_beforehand cfg _ st fuel sched _ hret x ((hpl x).mpr hx)
            (toProblem_diesIn U mp g fl req cfg x)).1).mpr (by rw [hucf]; exact huc)
      · rw [if_neg huc] at hxs; simp at hxs

/-- a task that has no result in this run (its execution failed, or it is not in the plan) keeps the
    entry it had: only a successful execution writes -/
theorem specRun_no_result_keeps_entry (t : Tid)
    (h : ∀ v, Store.lookupV t (Store.specRun U cfg.bust g fl req m).vals ≠ some (some v)) :
    (Store.specRun U cfg.bust g fl req m).map t = m t := by
  have hcl := specRun_closed U (fun _ => none) g fl req cfg m st hU hrel hmap
  rw [hcl] at h ⊢
  show cfMap U (fun _ => none) g fl req cfg m st _ t = m t
  rw [cfMap_apply]
  split
  · next hc =>
    have h' : ∀ v, Store.lookupV t (cfVals U (fun _ => none) g fl req cfg st (Store.neededFrom U (ucOf cfg m) req)) ≠ some (some v) := h
    rw [lookupV_cfVals, if_pos hc.1] at h'
    cases hr : ref U (fun _ => none) g fl req cfg st t with
    | none => rfl
    | some v => exact absurd (by rw [hr]) (h' v)
  · rfl

end main

/-! ## from a disk: the scheduler store of a disk, and the concrete `labRun` -/

/-- the scheduler store that holds, for every task of the universe, the value a load returns -/
def diskStore (U : Store.Universe) (d : Store.Disk) : Store :=
  (List.range U.n).filterMap (fun t => (Store.cLoad U d t).map (fun s => (t, s.val)))

theorem lookup_filterMap (f : Tid → Option Val) (t : Tid) : ∀ (l : List Tid),
    lookup t (l.filterMap (fun x => (f x).map (fun v => (x, v)))) = if t ∈ l then f t else none := by
  intro l
  induction l with
  | nil => simp [lookup]
  | cons a l ih =>
    simp only [List.filterMap_cons, List.mem_cons]
    by_cases h : a = t
    · subst h
      cases hf : f a with
      | none => simp only [Option.map_none]; rw [ih]; simp [hf]
      | some v => simp [lookup]
    · have h' : ¬ t = a := fun e => h e.symm
      cases hf : f a with
      | none => simp only [Option.map_none]; rw [ih]; simp [h']
      | some v => simp only [Option.map_some, lookup, h, if_false]; rw [ih]; simp [h']

/-- on a well-formed disk only tasks of the universe load -/
theorem cLoad_lt (U : Store.Universe) (hinj : Store.KeyInj U) (d : Store.Disk) (wf : Store.Wf U d)
    (t : Tid) (s : Store.Stored) (h : Store.cLoad U d t = some s) : t < U.n := by
  unfold Store.cLoad at h
  cases hk : Store.kindOf U t <;> rw [hk] at h <;> simp at h
  all_goals
    obtain ⟨_, h⟩ := h
    cases he : Store.lookup (Store.keyOf U t) d with
    | none => simp [he] at h
    | some e =>
      have hw := wf _ e (Store.lookup_mem _ e d he)
      have : t = e.task := hinj _ _ hw.1
      rw [this]; exact hw.2.2.2.2

theorem abs_mapOK (U : Store.Universe) (d : Store.Disk) : MapOK U (Store.abs U d) := by
  intro t h
  simp only [Store.abs] at h
  unfold Store.cLoad at h
  simp only [Store.persists, Store.cacheable]
  cases hk : Store.kindOf U t <;> rw [hk] at h <;> cases hs : U.nullStorage <;> simp_all

theorem diskStore_rel (U : Store.Universe) (hinj : Store.KeyInj U) (d : Store.Disk) (wf : Store.Wf U d) :
    StoreRel (Store.abs U d) (diskStore U d) := by
  intro t
  have := lookup_filterMap (fun x => (Store.cLoad U d x).map (fun s => s.val)) t (List.range U.n)
  simp only [Option.map_map] at this
  show lookup t ((List.range U.n).filterMap (fun t => (Store.cLoad U d t).map (fun s => (t, s.val)))) = _
  have hfun : (fun t => (Store.cLoad U d t).map (fun s => (t, s.val))) =
      (fun x => Option.map ((fun v => (x, v)) ∘ fun s => s.val) (Store.cLoad U d x)) := rfl
  rw [hfun, this]
  simp only [Store.abs, List.mem_range]
  split
  · rfl
  · next hlt =>
    cases hc : Store.cLoad U d t with
    | none => rfl
    | some s => exact absurd (cLoad_lt U hinj d wf t s hc) hlt

/-- **scheduler ↔ history model, concrete disk**: the dependency-first `labRun` is a correct summary
    of what the scheduler does, for any schedule -/
theorem labRun_agrees_with_scheduler_disk (U : Store.Universe) (hinj : Store.KeyInj U)
    (mp : Nat → Option Nat) (g : Nat) (fl req : List Tid) (hU : UOK U req)
    (d : Store.Disk) (wf : Store.Wf U d)
    (cfg : Config) (hcf : cfg.contOnFail = true) (fuel : Nat) (hF : ∀ t ∈ req, t < fuel)
    (hL : 0 < cfg.maxWorkers ∧ ∀ T L, mp T = some L → 0 < L)
    (sched : List Choice) (hfair : Fair sched)
    (hlen : (Store.neededFrom U (fun t => !cfg.bust && Store.labIsCached U d t) req).length + 1 ≤ sched.length) :
    (∀ t, lookup t (run cfg (toProblem U mp g fl req) (diskStore U d) fuel sched).store =
      (Store.cLoad U (Store.labRun U cfg.bust g fl req d).disk t).map (fun s => s.val)) ∧
    (run cfg (toProblem U mp g fl req) (diskStore U d) fuel sched).status =
      .returned (Store.returned (dedup req) (Store.labRun U cfg.bust g fl req d)) ∧
    (∀ t, (∃ seen, Ev.exec t seen ∈ (run cfg (toProblem U mp g fl req) (diskStore U d) fuel sched).trace) ↔
      t ∈ (Store.labRun U cfg.bust g fl req d).execd) ∧
    (∀ t, Ev.load t ∈ (run cfg (toProblem U mp g fl req) (diskStore U d) fuel sched).trace ↔
      t ∈ (Store.labRun U cfg.bust g fl req d).loaded.map Prod.fst) := by
  have r := Store.run_refines U hinj cfg.bust g fl req d wf
  have huc : (fun t => !cfg.bust && Store.labIsCached U d t) = (fun t => !cfg.bust && (Store.abs U d t).isSome) := by
    funext t; unfold Store.labIsCached; rw [Store.isCached_iff_load U d t wf hinj]; rfl
  rw [huc] at hlen
  obtain ⟨h1, h2, h3, h4⟩ := specRun_agrees_with_scheduler U mp g fl req hU cfg (Store.abs U d) (diskStore U d)
    (diskStore_rel U hinj d wf) (abs_mapOK U d) fuel hcf hF hL sched hfair hlen
  refine ⟨?_, ?_, ?_, ?_⟩
  · intro t; rw [h1 t, ← r.map]; rfl
  · rw [h2]; simp only [Store.returned, Store.returnedA, r.vals]
  · intro t; rw [h3 t, r.execd]
  · intro t; rw [h4 t, r.loaded]

end Lt.Link
