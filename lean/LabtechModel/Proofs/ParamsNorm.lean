import LabtechModel.Proofs.ParamsEq
/-! Normalisation (`immutable_param_value`) and the dependency search. -/
namespace Lt.Params

mutual
/-- the raw value with every list spelled as a tuple and every dict as a frozendict; nothing else changes -/
def freeze : Raw → Raw
  | .scalar s => .scalar s
  | .enum c n => .enum c n
  | .list items => .tuple (freezeList items)
  | .tuple items => .tuple (freezeList items)
  | .dict items => .fdict (freezeItems items)
  | .fdict items => .fdict (freezeItems items)
  | .task t => .task t
  | .unsupported => .unsupported
def freezeList : List Raw → List Raw
  | [] => []
  | r :: rs => freeze r :: freezeList rs
def freezeItems : List (RawKey × Raw) → List (RawKey × Raw)
  | [] => []
  | (k, r) :: rest => (k, freeze r) :: freezeItems rest
end

mutual
/-- an unsupported value or a non-string dict key occurs at a position `immutable_param_value` visits
(it does not look inside already constructed tasks) -/
def Raw.bad : Raw → Bool
  | .scalar _ => false
  | .enum _ _ => false
  | .list items => badList items
  | .tuple items => badList items
  | .dict items => badItems items
  | .fdict items => badItems items
  | .task _ => false
  | .unsupported => true
def badList : List Raw → Bool
  | [] => false
  | r :: rs => r.bad || badList rs
def badItems : List (RawKey × Raw) → Bool
  | [] => false
  | (.other, _) :: _ => true
  | (.str _, r) :: rest => r.bad || badItems rest
end

mutual
/-- no list, no mutable dict, no unsupported value and only string keys, at every depth -/
def Raw.normal : Raw → Bool
  | .scalar _ => true
  | .enum _ _ => true
  | .list _ => false
  | .tuple items => normalList items
  | .dict _ => false
  | .fdict items => normalItems items
  | .task _ => true
  | .unsupported => false
def normalList : List Raw → Bool
  | [] => true
  | r :: rs => r.normal && normalList rs
def normalItems : List (RawKey × Raw) → Bool
  | [] => true
  | (.other, _) :: _ => false
  | (.str _, r) :: rest => r.normal && normalItems rest
end

/-! ### accept / reject -/
mutual
theorem normalize_bad : ∀ r, r.bad = true → normalize r = .error .taskError
  | .scalar _, h | .enum _ _, h | .task _, h => by simp [Raw.bad] at h
  | .list items, h => by simp only [Raw.bad] at h; simp [normalize, normList_bad items h]
  | .tuple items, h => by simp only [Raw.bad] at h; simp [normalize, normList_bad items h]
  | .dict items, h => by simp only [Raw.bad] at h; simp [normalize, normItems_bad items h]
  | .fdict items, h => by simp only [Raw.bad] at h; simp [normalize, normItems_bad items h]
  | .unsupported, _ => by simp [normalize]
theorem normList_bad : ∀ l, badList l = true → normList l = .error .taskError
  | [], h => by simp [badList] at h
  | r :: rs, h => by
    simp only [badList, Bool.or_eq_true] at h
    simp only [normList]
    cases hr : normalize r with
    | error e =>
      cases hb : r.bad with
      | true => rw [normalize_bad r hb] at hr; cases hr; rfl
      | false => exact absurd hr (by
          intro hr
          have := normalize_err_bad r e hr
          simp [hb] at this)
    | ok v =>
      have hb : r.bad = false := by
        cases hb : r.bad with
        | true => rw [normalize_bad r hb] at hr; cases hr
        | false => rfl
      have : badList rs = true := by simpa [hb] using h
      simp [normList_bad rs this]
theorem normItems_bad : ∀ l, badItems l = true → normItems l = .error .taskError
  | [], h => by simp [badItems] at h
  | (.other, _) :: _, _ => by simp [normItems]
  | (.str k, r) :: rest, h => by
    simp only [badItems, Bool.or_eq_true] at h
    simp only [normItems]
    cases hr : normalize r with
    | error e =>
      have := normalize_err_bad r e hr
      rw [normalize_bad r this] at hr; cases hr; rfl
    | ok v =>
      have hb : r.bad = false := by
        cases hb : r.bad with
        | true => rw [normalize_bad r hb] at hr; cases hr
        | false => rfl
      have : badItems rest = true := by simpa [hb] using h
      simp [normItems_bad rest this]
/-- an error can only come from a bad position -/
theorem normalize_err_bad : ∀ r e, normalize r = .error e → r.bad = true
  | .scalar _, e, h | .enum _ _, e, h | .task _, e, h => by simp [normalize] at h
  | .list items, e, h => by
    simp only [normalize] at h
    cases hl : normList items with
    | ok vs => simp [hl] at h
    | error e' => simp only [Raw.bad]; exact normList_err_bad items e' hl
  | .tuple items, e, h => by
    simp only [normalize] at h
    cases hl : normList items with
    | ok vs => simp [hl] at h
    | error e' => simp only [Raw.bad]; exact normList_err_bad items e' hl
  | .dict items, e, h => by
    simp only [normalize] at h
    cases hl : normItems items with
    | ok vs => simp [hl] at h
    | error e' => simp only [Raw.bad]; exact normItems_err_bad items e' hl
  | .fdict items, e, h => by
    simp only [normalize] at h
    cases hl : normItems items with
    | ok vs => simp [hl] at h
    | error e' => simp only [Raw.bad]; exact normItems_err_bad items e' hl
  | .unsupported, _, _ => by simp [Raw.bad]
theorem normList_err_bad : ∀ l e, normList l = .error e → badList l = true
  | [], e, h => by simp [normList] at h
  | r :: rs, e, h => by
    simp only [normList] at h
    simp only [badList, Bool.or_eq_true]
    cases hr : normalize r with
    | error e' => exact Or.inl (normalize_err_bad r e' hr)
    | ok v =>
      rw [hr] at h
      cases hl : normList rs with
      | ok vs => simp [hl] at h
      | error e' => exact Or.inr (normList_err_bad rs e' hl)
theorem normItems_err_bad : ∀ l e, normItems l = .error e → badItems l = true
  | [], e, h => by simp [normItems] at h
  | (.other, _) :: _, _, _ => by simp [badItems]
  | (.str k, r) :: rest, e, h => by
    simp only [normItems] at h
    simp only [badItems, Bool.or_eq_true]
    cases hr : normalize r with
    | error e' => exact Or.inl (normalize_err_bad r e' hr)
    | ok v =>
      rw [hr] at h
      cases hl : normItems rest with
      | ok vs => simp [hl] at h
      | error e' => exact Or.inr (normItems_err_bad rest e' hl)
end

/-! ### what an accepted value is turned into -/
mutual
theorem normalize_spec : ∀ r v, normalize r = .ok v → embed v = freeze r
  | .scalar _, v, h | .enum _ _, v, h | .task _, v, h => by
    simp only [normalize, Except.ok.injEq] at h; subst h; simp [embed, freeze]
  | .list items, v, h => by
    simp only [normalize] at h
    cases hl : normList items with
    | error e => simp [hl] at h
    | ok vs => simp only [hl, Except.ok.injEq] at h; subst h; simp [embed, freeze, normList_spec items vs hl]
  | .tuple items, v, h => by
    simp only [normalize] at h
    cases hl : normList items with
    | error e => simp [hl] at h
    | ok vs => simp only [hl, Except.ok.injEq] at h; subst h; simp [embed, freeze, normList_spec items vs hl]
  | .dict items, v, h => by
    simp only [normalize] at h
    cases hl : normItems items with
    | error e => simp [hl] at h
    | ok vs => simp only [hl, Except.ok.injEq] at h; subst h; simp [embed, freeze, normItems_spec items vs hl]
  | .fdict items, v, h => by
    simp only [normalize] at h
    cases hl : normItems items with
    | error e => simp [hl] at h
    | ok vs => simp only [hl, Except.ok.injEq] at h; subst h; simp [embed, freeze, normItems_spec items vs hl]
  | .unsupported, v, h => by simp [normalize] at h
theorem normList_spec : ∀ l vs, normList l = .ok vs → embedList vs = freezeList l
  | [], vs, h => by simp only [normList, Except.ok.injEq] at h; subst h; simp [embedList, freezeList]
  | r :: rs, vs, h => by
    simp only [normList] at h
    cases hr : normalize r with
    | error e => simp [hr] at h
    | ok v =>
      rw [hr] at h
      cases hl : normList rs with
      | error e => simp [hl] at h
      | ok ws =>
        simp only [hl, Except.ok.injEq] at h; subst h
        simp [embedList, freezeList, normalize_spec r v hr, normList_spec rs ws hl]
theorem normItems_spec : ∀ l vs, normItems l = .ok vs → embedFields vs = freezeItems l
  | [], vs, h => by simp only [normItems, Except.ok.injEq] at h; subst h; simp [embedFields, freezeItems]
  | (.other, _) :: _, vs, h => by simp [normItems] at h
  | (.str k, r) :: rest, vs, h => by
    simp only [normItems] at h
    cases hr : normalize r with
    | error e => simp [hr] at h
    | ok v =>
      rw [hr] at h
      cases hl : normItems rest with
      | error e => simp [hl] at h
      | ok ws =>
        simp only [hl, Except.ok.injEq] at h; subst h
        simp [embedFields, freezeItems, normalize_spec r v hr, normItems_spec rest ws hl]
end

mutual
theorem embed_normal : ∀ v, (embed v).normal = true
  | .scalar _ | .enum _ _ | .task _ => by simp [embed, Raw.normal]
  | .tuple items => by simp only [embed, Raw.normal]; exact embedList_normal items
  | .dict items => by simp only [embed, Raw.normal]; exact embedFields_normal items
theorem embedList_normal : ∀ l, normalList (embedList l) = true
  | [] => by simp [embedList, normalList]
  | v :: vs => by simp [embedList, normalList, embed_normal v, embedList_normal vs]
theorem embedFields_normal : ∀ l, normalItems (embedFields l) = true
  | [] => by simp [embedFields, normalItems]
  | (k, v) :: rest => by simp [embedFields, normalItems, embed_normal v, embedFields_normal rest]
end

mutual
/-- normalising a normal form changes nothing -/
theorem normalize_embed : ∀ v, normalize (embed v) = .ok v
  | .scalar _ | .enum _ _ | .task _ => by simp [embed, normalize]
  | .tuple items => by simp [embed, normalize, normList_embed items]
  | .dict items => by simp [embed, normalize, normItems_embed items]
theorem normList_embed : ∀ l, normList (embedList l) = .ok l
  | [] => by simp [embedList, normList]
  | v :: vs => by simp [embedList, normList, normalize_embed v, normList_embed vs]
theorem normItems_embed : ∀ l, normItems (embedFields l) = .ok l
  | [] => by simp [embedFields, normItems]
  | (k, v) :: rest => by simp [embedFields, normItems, normalize_embed v, normItems_embed rest]
end

mutual
theorem normalize_freeze : ∀ r, normalize (freeze r) = normalize r
  | .scalar _ | .enum _ _ | .task _ | .unsupported => by simp [freeze]
  | .list items => by simp [freeze, normalize, normList_freeze items]
  | .tuple items => by simp [freeze, normalize, normList_freeze items]
  | .dict items => by simp [freeze, normalize, normItems_freeze items]
  | .fdict items => by simp [freeze, normalize, normItems_freeze items]
theorem normList_freeze : ∀ l, normList (freezeList l) = normList l
  | [] => by simp [freezeList]
  | r :: rs => by simp [freezeList, normList, normalize_freeze r, normList_freeze rs]
theorem normItems_freeze : ∀ l, normItems (freezeItems l) = normItems l
  | [] => by simp [freezeItems]
  | (.other, r) :: rest => by simp [freezeItems, normItems]
  | (.str k, r) :: rest => by simp [freezeItems, normItems, normalize_freeze r, normItems_freeze rest]
end

/-! ### the dependency search agrees with normalisation -/
mutual
theorem findTasksRaw_of_normalize : ∀ r v, normalize r = .ok v → findTasksRaw r = .ok (findTasks v)
  | .scalar _, v, h | .enum _ _, v, h | .task _, v, h => by
    simp only [normalize, Except.ok.injEq] at h; subst h; simp [findTasksRaw, findTasks]
  | .list items, v, h => by
    simp only [normalize] at h
    cases hl : normList items with
    | error e => simp [hl] at h
    | ok vs => simp only [hl, Except.ok.injEq] at h; subst h; simp [findTasksRaw, findTasks, findRawList_of_norm items vs hl]
  | .tuple items, v, h => by
    simp only [normalize] at h
    cases hl : normList items with
    | error e => simp [hl] at h
    | ok vs => simp only [hl, Except.ok.injEq] at h; subst h; simp [findTasksRaw, findTasks, findRawList_of_norm items vs hl]
  | .dict items, v, h => by
    simp only [normalize] at h
    cases hl : normItems items with
    | error e => simp [hl] at h
    | ok vs => simp only [hl, Except.ok.injEq] at h; subst h; simp [findTasksRaw, findTasks, findRawItems_of_norm items vs hl]
  | .fdict items, v, h => by
    simp only [normalize] at h
    cases hl : normItems items with
    | error e => simp [hl] at h
    | ok vs => simp only [hl, Except.ok.injEq] at h; subst h; simp [findTasksRaw, findTasks, findRawItems_of_norm items vs hl]
  | .unsupported, v, h => by simp [normalize] at h
theorem findRawList_of_norm : ∀ l vs, normList l = .ok vs → findRawList l = .ok (findList vs)
  | [], vs, h => by simp only [normList, Except.ok.injEq] at h; subst h; simp [findRawList, findList]
  | r :: rs, vs, h => by
    simp only [normList] at h
    cases hr : normalize r with
    | error e => simp [hr] at h
    | ok v =>
      rw [hr] at h
      cases hl : normList rs with
      | error e => simp [hl] at h
      | ok ws =>
        simp only [hl, Except.ok.injEq] at h; subst h
        simp [findRawList, findList, findTasksRaw_of_normalize r v hr, findRawList_of_norm rs ws hl]
theorem findRawItems_of_norm : ∀ l vs, normItems l = .ok vs → findRawItems l = .ok (findFields vs)
  | [], vs, h => by simp only [normItems, Except.ok.injEq] at h; subst h; simp [findRawItems, findFields]
  | (.other, _) :: _, vs, h => by simp [normItems] at h
  | (.str k, r) :: rest, vs, h => by
    simp only [normItems] at h
    cases hr : normalize r with
    | error e => simp [hr] at h
    | ok v =>
      rw [hr] at h
      cases hl : normItems rest with
      | error e => simp [hl] at h
      | ok ws =>
        simp only [hl, Except.ok.injEq] at h; subst h
        simp [findRawItems, findFields, findTasksRaw_of_normalize r v hr, findRawItems_of_norm rest ws hl]
end

/-- the search accepts every normal form -/
theorem findTasksRaw_embed (v : Value) : findTasksRaw (embed v) = .ok (findTasks v) :=
  findTasksRaw_of_normalize _ _ (normalize_embed v)

/-! ### `OrderedSet` of dependencies -/
theorem addO_mem (acc : List Task) (t u : Task) : u ∈ addO acc t ↔ u ∈ acc ∨ u = t := by
  unfold addO
  split
  · next h =>
    simp only [List.any_eq_true] at h
    obtain ⟨w, hw, hb⟩ := h
    have : w = t := Task.beq_eq w t hb
    subst this
    constructor
    · exact Or.inl
    · rintro (h | h)
      · exact h
      · exact h ▸ hw
  · simp

theorem addO_nodup (acc : List Task) (t : Task) (h : acc.Nodup) : (addO acc t).Nodup := by
  unfold addO
  split
  · exact h
  · next hn =>
    rw [List.nodup_append]
    refine ⟨h, by simp, ?_⟩
    intro a ha b hb
    simp only [List.mem_singleton] at hb
    subst hb
    intro hab
    subst hab
    apply hn
    simp only [List.any_eq_true]
    exact ⟨a, ha, Task.beq_refl a⟩

theorem foldl_addO_mem (l : List Task) : ∀ (acc : List Task) (u : Task), u ∈ l.foldl addO acc ↔ u ∈ acc ∨ u ∈ l := by
  induction l with
  | nil => simp
  | cons t ts ih =>
    intro acc u
    simp only [List.foldl_cons, ih, addO_mem, List.mem_cons]
    constructor
    · rintro ((h | h) | h)
      · exact Or.inl h
      · exact Or.inr (Or.inl h)
      · exact Or.inr (Or.inr h)
    · rintro (h | h | h)
      · exact Or.inl (Or.inl h)
      · exact Or.inl (Or.inr h)
      · exact Or.inr h

theorem foldl_addO_nodup (l : List Task) : ∀ (acc : List Task), acc.Nodup → (l.foldl addO acc).Nodup := by
  induction l with
  | nil => intro acc h; exact h
  | cons t ts ih => intro acc h; exact ih _ (addO_nodup acc t h)

theorem directDeps_mem (t u : Task) : u ∈ directDeps t ↔ u ∈ findFields t.fields := by
  simp [directDeps, foldl_addO_mem]

theorem directDeps_nodup (t : Task) : (directDeps t).Nodup :=
  foldl_addO_nodup _ _ List.nodup_nil

end Lt.Params
