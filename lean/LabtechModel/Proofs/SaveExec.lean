import LabtechModel.Model.Save
/-! Closed form of `Lt.Save.exec` (state after `k` micro-steps), by induction on `k`. -/
namespace Lt.Save

/-- closed form of the state after `k` micro-steps -/
def closed (n m : Nat) (v : Ver) (pre : Entry) (k : Nat) : St :=
  if k ≤ 2 then { disk := pre, opened := .none }
  else if k = 3 then { disk := mkdirE pre, opened := .none }
  else if k ≤ 5 + n then { disk := setMeta (mkdirE pre) .torn, opened := .mdoc (k - 4) }
  else if k ≤ 8 + n then { disk := setMeta (mkdirE pre) (.full v), opened := .none }
  else if k ≤ 10 + n + m then
    { disk := setData (setMeta (mkdirE pre) (.full v)) .torn, opened := .data (k - 9 - n) }
  else { disk := setData (setMeta (mkdirE pre) (.full v)) (.full v), opened := .none }

theorem mkdirE_idem (e : Entry) : mkdirE (mkdirE e) = mkdirE e := by cases e <;> rfl
theorem setMeta_setMeta (e : Entry) (a b : File) : setMeta (setMeta e a) b = setMeta e b := by
  cases e <;> rfl
theorem setData_setData (e : Entry) (a b : File) : setData (setData e a) b = setData e b := by
  cases e <;> rfl
theorem mkdirE_setMeta_mkdirE (e : Entry) (a : File) :
    mkdirE (setMeta (mkdirE e) a) = setMeta (mkdirE e) a := by cases e <;> rfl

theorem exec_eq_closed (n m : Nat) (v : Ver) (pre : Entry) (k : Nat) :
    exec n m v pre k = closed n m v pre k := by
  induction k with
  | zero => simp [exec, closed]
  | succ k ih =>
    simp only [exec, ih]
    by_cases h0 : k = 0
    · subst h0; simp [stepAt, closed, apply]
    by_cases h1 : k = 1
    · subst h1; simp [stepAt, closed, apply]
    by_cases h2 : k = 2
    · subst h2; simp [stepAt, closed, apply]
    by_cases h3 : k = 3
    · subst h3
      have e1 : stepAt n m 3 = some .openMeta := by simp [stepAt]
      have e2 : closed n m v pre 3 = { disk := mkdirE pre, opened := .none } := by simp [closed]
      have e3 : closed n m v pre (3 + 1) = { disk := setMeta (mkdirE pre) .torn, opened := .mdoc 0 } := by
        simp only [closed]; rw [if_neg (by omega), if_neg (by omega), if_pos (by omega)]
      rw [e1, e2, e3]; simp only [apply]
    by_cases h4 : k ≤ 4 + n
    · have e1 : stepAt n m k = some .writeMeta := by simp [stepAt, h0, h1, h2, h3, h4]
      have e2 : closed n m v pre k = { disk := setMeta (mkdirE pre) .torn, opened := .mdoc (k - 4) } := by
        simp only [closed]; rw [if_neg (by omega), if_neg h3, if_pos (by omega)]
      have e3 : closed n m v pre (k + 1) = { disk := setMeta (mkdirE pre) .torn, opened := .mdoc (k + 1 - 4) } := by
        simp only [closed]; rw [if_neg (by omega), if_neg (by omega), if_pos (by omega)]
      rw [e1, e2, e3]; simp only [apply]
      have : k + 1 - 4 = k - 4 + 1 := by omega
      rw [this]
    by_cases h5 : k = 5 + n
    · have e1 : stepAt n m k = some .closeMeta := by
        simp only [stepAt]; rw [if_neg h0, if_neg h1, if_neg h2, if_neg h3, if_neg h4, if_pos h5]
      have e2 : closed n m v pre k = { disk := setMeta (mkdirE pre) .torn, opened := .mdoc (k - 4) } := by
        simp only [closed]; rw [if_neg (by omega), if_neg h3, if_pos (by omega)]
      have e3 : closed n m v pre (k + 1) = { disk := setMeta (mkdirE pre) (.full v), opened := .none } := by
        simp only [closed]; rw [if_neg (by omega), if_neg (by omega), if_neg (by omega), if_pos (by omega)]
      rw [e1, e2, e3]; simp only [apply]
      have : k - 4 = n + 1 := by omega
      simp [this, setMeta_setMeta]
    by_cases h6 : k ≤ 7 + n
    · have e1 : stepAt n m k = some .validate2 ∨ stepAt n m k = some .mkdir2 := by
        by_cases h : k = 6 + n
        · left; simp only [stepAt]; rw [if_neg h0, if_neg h1, if_neg h2, if_neg h3, if_neg h4, if_neg h5, if_pos h]
        · right; simp only [stepAt]
          rw [if_neg h0, if_neg h1, if_neg h2, if_neg h3, if_neg h4, if_neg h5, if_neg h, if_pos (by omega)]
      have e2 : closed n m v pre k = { disk := setMeta (mkdirE pre) (.full v), opened := .none } := by
        simp only [closed]; rw [if_neg (by omega), if_neg h3, if_neg (by omega), if_pos (by omega)]
      have e3 : closed n m v pre (k + 1) = { disk := setMeta (mkdirE pre) (.full v), opened := .none } := by
        simp only [closed]; rw [if_neg (by omega), if_neg (by omega), if_neg (by omega), if_pos (by omega)]
      rcases e1 with e1 | e1 <;> rw [e1, e2, e3] <;> simp [apply, mkdirE_setMeta_mkdirE]
    by_cases h8 : k = 8 + n
    · have e1 : stepAt n m k = some .openData := by
        simp only [stepAt]
        rw [if_neg h0, if_neg h1, if_neg h2, if_neg h3, if_neg h4, if_neg h5, if_neg (by omega),
          if_neg (by omega), if_pos h8]
      have e2 : closed n m v pre k = { disk := setMeta (mkdirE pre) (.full v), opened := .none } := by
        simp only [closed]; rw [if_neg (by omega), if_neg h3, if_neg (by omega), if_pos (by omega)]
      have e3 : closed n m v pre (k + 1) =
          { disk := setData (setMeta (mkdirE pre) (.full v)) .torn, opened := .data (k + 1 - 9 - n) } := by
        simp only [closed]
        rw [if_neg (by omega), if_neg (by omega), if_neg (by omega), if_neg (by omega), if_pos (by omega)]
      rw [e1, e2, e3]; simp only [apply]
      have : k + 1 - 9 - n = 0 := by omega
      rw [this]
    by_cases h9 : k ≤ 9 + n + m
    · have e1 : stepAt n m k = some .writeData := by
        simp only [stepAt]
        rw [if_neg h0, if_neg h1, if_neg h2, if_neg h3, if_neg h4, if_neg h5, if_neg (by omega),
          if_neg (by omega), if_neg h8, if_pos h9]
      have e2 : closed n m v pre k =
          { disk := setData (setMeta (mkdirE pre) (.full v)) .torn, opened := .data (k - 9 - n) } := by
        simp only [closed]
        rw [if_neg (by omega), if_neg h3, if_neg (by omega), if_neg (by omega), if_pos (by omega)]
      have e3 : closed n m v pre (k + 1) =
          { disk := setData (setMeta (mkdirE pre) (.full v)) .torn, opened := .data (k + 1 - 9 - n) } := by
        simp only [closed]
        rw [if_neg (by omega), if_neg (by omega), if_neg (by omega), if_neg (by omega), if_pos (by omega)]
      rw [e1, e2, e3]; simp only [apply]
      have : k + 1 - 9 - n = k - 9 - n + 1 := by omega
      rw [this]
    by_cases h10 : k = 10 + n + m
    · have e1 : stepAt n m k = some .closeData := by
        simp only [stepAt]
        rw [if_neg h0, if_neg h1, if_neg h2, if_neg h3, if_neg h4, if_neg h5, if_neg (by omega),
          if_neg (by omega), if_neg h8, if_neg h9, if_pos h10]
      have e2 : closed n m v pre k =
          { disk := setData (setMeta (mkdirE pre) (.full v)) .torn, opened := .data (k - 9 - n) } := by
        simp only [closed]
        rw [if_neg (by omega), if_neg h3, if_neg (by omega), if_neg (by omega), if_pos (by omega)]
      have e3 : closed n m v pre (k + 1) =
          { disk := setData (setMeta (mkdirE pre) (.full v)) (.full v), opened := .none } := by
        simp only [closed]
        rw [if_neg (by omega), if_neg (by omega), if_neg (by omega), if_neg (by omega), if_neg (by omega)]
      rw [e1, e2, e3]; simp only [apply]
      have : k - 9 - n = m + 1 := by omega
      simp [this, setData_setData]
    · have e1 : stepAt n m k = none := by
        simp only [stepAt]
        rw [if_neg h0, if_neg h1, if_neg h2, if_neg h3, if_neg h4, if_neg h5, if_neg (by omega),
          if_neg (by omega), if_neg h8, if_neg h9, if_neg h10]
      have e2 : closed n m v pre k =
          { disk := setData (setMeta (mkdirE pre) (.full v)) (.full v), opened := .none } := by
        simp only [closed]
        rw [if_neg (by omega), if_neg h3, if_neg (by omega), if_neg (by omega), if_neg (by omega)]
      have e3 : closed n m v pre (k + 1) =
          { disk := setData (setMeta (mkdirE pre) (.full v)) (.full v), opened := .none } := by
        simp only [closed]
        rw [if_neg (by omega), if_neg (by omega), if_neg (by omega), if_neg (by omega), if_neg (by omega)]
      rw [e1, e2, e3]

/-! ### the regions of the closed form -/
theorem exec_untouched (n m : Nat) (v : Ver) (pre : Entry) (k : Nat) (h : k ≤ 2) :
    exec n m v pre k = { disk := pre, opened := .none } := by
  rw [exec_eq_closed]; simp only [closed]; rw [if_pos h]

theorem exec_mkdir (n m : Nat) (v : Ver) (pre : Entry) :
    exec n m v pre 3 = { disk := mkdirE pre, opened := .none } := by
  rw [exec_eq_closed]; simp [closed]

theorem exec_metaOpen (n m : Nat) (v : Ver) (pre : Entry) (k : Nat) (h1 : 4 ≤ k) (h2 : k ≤ 5 + n) :
    exec n m v pre k = { disk := setMeta (mkdirE pre) .torn, opened := .mdoc (k - 4) } := by
  rw [exec_eq_closed]; simp only [closed]
  rw [if_neg (by omega), if_neg (by omega), if_pos h2]

theorem exec_between (n m : Nat) (v : Ver) (pre : Entry) (k : Nat) (h1 : 6 + n ≤ k) (h2 : k ≤ 8 + n) :
    exec n m v pre k = { disk := setMeta (mkdirE pre) (.full v), opened := .none } := by
  rw [exec_eq_closed]; simp only [closed]
  rw [if_neg (by omega), if_neg (by omega), if_neg (by omega), if_pos h2]

theorem exec_dataOpen (n m : Nat) (v : Ver) (pre : Entry) (k : Nat) (h1 : 9 + n ≤ k) (h2 : k ≤ 10 + n + m) :
    exec n m v pre k =
      { disk := setData (setMeta (mkdirE pre) (.full v)) .torn, opened := .data (k - 9 - n) } := by
  rw [exec_eq_closed]; simp only [closed]
  rw [if_neg (by omega), if_neg (by omega), if_neg (by omega), if_neg (by omega), if_pos h2]

theorem exec_done (n m : Nat) (v : Ver) (pre : Entry) (k : Nat) (h : 11 + n + m ≤ k) :
    exec n m v pre k =
      { disk := setData (setMeta (mkdirE pre) (.full v)) (.full v), opened := .none } := by
  rw [exec_eq_closed]; simp only [closed]
  rw [if_neg (by omega), if_neg (by omega), if_neg (by omega), if_neg (by omega), if_neg (by omega)]

/-- closed form of what a crash after `k` micro-steps leaves on disk -/
theorem crash_cases (n m : Nat) (v : Ver) (pre : Entry) (k : Nat) (durable : Bool) :
    crash n m v pre k durable =
      if k ≤ 2 then pre
      else if k = 3 then mkdirE pre
      else if k ≤ 5 + n then
        (if durable = true ∧ k = 5 + n then setMeta (mkdirE pre) (.full v) else setMeta (mkdirE pre) .torn)
      else if k ≤ 8 + n then setMeta (mkdirE pre) (.full v)
      else if k ≤ 10 + n + m then
        (if durable = true ∧ k = 10 + n + m then setData (setMeta (mkdirE pre) (.full v)) (.full v)
         else setData (setMeta (mkdirE pre) (.full v)) .torn)
      else setData (setMeta (mkdirE pre) (.full v)) (.full v) := by
  simp only [crash]
  by_cases h2 : k ≤ 2
  · rw [exec_untouched n m v _ k h2, if_pos h2]; rfl
  rw [if_neg h2]
  by_cases h3 : k = 3
  · subst h3; rw [exec_mkdir]; rfl
  rw [if_neg h3]
  by_cases h5 : k ≤ 5 + n
  · rw [exec_metaOpen n m v _ k (by omega) h5, if_pos h5]
    simp only [crashView, setMeta_setMeta]
    by_cases hw : k = 5 + n
    · have : k - 4 = n + 1 := by omega
      rw [this]
      cases durable <;> simp [hw]
    · have : ¬ (k - 4 = n + 1) := by omega
      cases durable <;> simp [this, hw]
  rw [if_neg h5]
  by_cases h8 : k ≤ 8 + n
  · rw [exec_between n m v _ k (by omega) h8, if_pos h8]; rfl
  rw [if_neg h8]
  by_cases h10 : k ≤ 10 + n + m
  · rw [exec_dataOpen n m v _ k (by omega) h10, if_pos h10]
    simp only [crashView, setData_setData]
    by_cases hw : k = 10 + n + m
    · have : k - 9 - n = m + 1 := by omega
      rw [this]
      cases durable <;> simp [hw]
    · have : ¬ (k - 9 - n = m + 1) := by omega
      cases durable <;> simp [this, hw]
  · rw [exec_done n m v _ k (by omega), if_neg h10]; rfl

end Lt.Save
