import LabtechModel.Proofs.IntrTrace
/-!
# M10: facts about `interruptedRun` (every interrupt instant `k`, every second instant `k2`)
-/
namespace Lt

variable {cfg : Config} {p : Problem}

/-- the main loop's stream of a run -/
abbrev mainOf (cfg : Config) (p : Problem) (store : Store) (fuel : Nat) (sched : List Choice) : List Prim :=
  mainStream cfg p (reqTids p) sched (initIS cfg p store fuel)

/-- the state at interrupt instant `k` -/
abbrev stateAt (cfg : Config) (p : Problem) (store : Store) (fuel : Nat) (sched : List Choice) (k : Nat) : IS :=
  runPrims cfg p ((mainOf cfg p store fuel sched).take k) (initIS cfg p store fuel)

theorem stateAt_Q (store : Store) (fuel : Nat) (sched : List Choice) (k : Nat) :
    Q cfg (stateAt cfg p store fuel sched k) :=
  (always_main (reqTids p) sched _ (Q_init store fuel)).prefix k

theorem stateAt_LabOK (store : Store) (fuel : Nat) (sched : List Choice) (k : Nat) :
    LabOK cfg (stateAt cfg p store fuel sched k) := by
  apply runPrims_LabOK
  · intro q hq
    exact members_main (reqTids p) sched _ q (List.mem_of_mem_take hq)
  · intro t ht; simp [initIS, initRS] at ht

theorem handlerOutcome_cases (s : IS) (d : Bool) (hk : K s) (hl : LabOK cfg s) :
    handlerOutcome s d = .interrupted ∨ handlerOutcome s d = .waiting ∨
      (cfg.contOnFail = false ∧ ∃ t, handlerOutcome s d = .raised (.labError t)) := by
  unfold handlerOutcome
  cases hs : s.rs.status with
  | running => cases d <;> simp
  | returned r => cases d <;> simp
  | raised e =>
    cases e with
    | keyError => exact absurd hs hk.2
    | labError t => exact Or.inr (Or.inr ⟨hl t hs, t, rfl⟩)

theorem handlerOutcome_true_cases (s : IS) (hk : K s) (hl : LabOK cfg s) :
    handlerOutcome s true = .interrupted ∨
      (cfg.contOnFail = false ∧ ∃ t, handlerOutcome s true = .raised (.labError t)) := by
  unfold handlerOutcome
  cases hs : s.rs.status with
  | running => simp
  | returned r => simp
  | raised e =>
    cases e with
    | keyError => exact absurd hs hk.2
    | labError t => exact Or.inr ⟨hl t hs, t, rfl⟩

/-- the first handler, run to its end from any state the main loop can be interrupted in -/
theorem handler_Q (req : List Tid) (ds : List Choice) (s : IS) (h : Q cfg s) (m : Nat) :
    Q cfg (runPrims cfg p ((handlerPrims cfg p req ds s).take m) s) :=
  (always_handler req ds s h).prefix m

theorem handler_LabOK (req : List Tid) (ds : List Choice) (s : IS) (h : LabOK cfg s) (m : Nat) :
    LabOK cfg (runPrims cfg p ((handlerPrims cfg p req ds s).take m) s) := by
  apply runPrims_LabOK _ _ _ h
  intro q hq
  exact (members_handler req ds s q (List.mem_of_mem_take hq)).2

theorem second_Q (req : List Tid) (s : IS) (h : Q cfg s) : Q cfg (runPrims cfg p (secondPrims cfg p req s) s) :=
  (always_second req s h).last

theorem second_LabOK (req : List Tid) (s : IS) (h : LabOK cfg s) :
    LabOK cfg (runPrims cfg p (secondPrims cfg p req s) s) := by
  by_cases hrun : s.rs.status = .running
  · exact runPrims_LabOK _ _ (fun q hq => (members_second req s hrun q hq).2) h
  · rw [runPrims_stopped _ _ hrun]; exact h

/-- trace growth of the handlers -/
theorem handler_trace (req : List Tid) (ds : List Choice) (s : IS) (m : Nat) :
    ∃ l, (runPrims cfg p ((handlerPrims cfg p req ds s).take m) s).rs.trace = s.rs.trace ++ l ∧
      ∀ e ∈ l, evLaunch e = false :=
  trace_ext_list _ s (fun q hq => (members_handler req ds s q (List.mem_of_mem_take hq)).1)

theorem second_trace (req : List Tid) (s : IS) :
    ∃ l, (runPrims cfg p (secondPrims cfg p req s) s).rs.trace = s.rs.trace ++ l ∧
      ∀ e ∈ l, evLaunch e = false := by
  by_cases hrun : s.rs.status = .running
  · exact trace_ext_list _ s (fun q hq => (members_second req s hrun q hq).1)
  · rw [runPrims_stopped _ _ hrun]; exact ⟨[], by simp, fun e he => by simp at he⟩

theorem take_all {α} (l : List α) : l.take l.length = l := List.take_length

theorem evLaunch_false (e : Ev) (h : evLaunch e = false) :
    (∀ t, e ≠ Ev.start t) ∧ (∀ t uc, e ≠ Ev.submit t uc) := by
  cases e <;> simp [evLaunch] at h ⊢

/-! ## unfolding `interruptedRun` -/
theorem interruptedRun_single (store : Store) (fuel : Nat) (sched ds : List Choice) (k : Nat)
    (hk : k < (mainOf cfg p store fuel sched).length) :
    interruptedRun cfg p store fuel sched k ds none =
      let sk := stateAt cfg p store fuel sched k
      let s1 := runPrims cfg p (handlerPrims cfg p (reqTids p) ds sk) sk
      { final := s1, outcome := handlerOutcome s1 s1.rs.futs.isEmpty, atIntr := sk, hit := true } := by
  have hk' : k < (mainStream cfg p (reqTids p) sched (initIS cfg p store fuel)).length := hk
  simp only [interruptedRun, hk', if_true]

theorem interruptedRun_double (store : Store) (fuel : Nat) (sched ds : List Choice) (k m : Nat)
    (hk : k < (mainOf cfg p store fuel sched).length)
    (hm : m < (handlerPrims cfg p (reqTids p) ds (stateAt cfg p store fuel sched k)).length) :
    interruptedRun cfg p store fuel sched k ds (some m) =
      let sk := stateAt cfg p store fuel sched k
      let s1 := runPrims cfg p ((handlerPrims cfg p (reqTids p) ds sk).take m) sk
      let s2 := runPrims cfg p (secondPrims cfg p (reqTids p) s1) s1
      { final := s2, outcome := handlerOutcome s2 true, atIntr := sk, hit := true } := by
  have hk' : k < (mainStream cfg p (reqTids p) sched (initIS cfg p store fuel)).length := hk
  have hm' : m < (handlerPrims cfg p (reqTids p) ds (runPrims cfg p
      ((mainStream cfg p (reqTids p) sched (initIS cfg p store fuel)).take k) (initIS cfg p store fuel))).length := hm
  simp only [interruptedRun, hk', if_true, hm']

theorem interruptedRun_late (store : Store) (fuel : Nat) (sched ds : List Choice) (k m : Nat)
    (hk : k < (mainOf cfg p store fuel sched).length)
    (hm : ¬ m < (handlerPrims cfg p (reqTids p) ds (stateAt cfg p store fuel sched k)).length) :
    interruptedRun cfg p store fuel sched k ds (some m) = interruptedRun cfg p store fuel sched k ds none := by
  have hk' : k < (mainStream cfg p (reqTids p) sched (initIS cfg p store fuel)).length := hk
  have hm' : ¬ m < (handlerPrims cfg p (reqTids p) ds (runPrims cfg p
      ((mainStream cfg p (reqTids p) sched (initIS cfg p store fuel)).take k) (initIS cfg p store fuel))).length := hm
  simp only [interruptedRun, hk', if_true, hm', if_false]
