import LabtechModel.Proofs.IntrRun
/-!
# M10: the store holds only what was there before or what a worker of that task computed
-/
namespace Lt

variable {cfg : Config} {p : Problem}

/-- `(t, v)` was computed by an execution of `t`'s `run()` that is on record, and `t` is cacheable -/
def Wrote (p : Problem) (tr : List Ev) (t : Tid) (v : Val) : Prop :=
  p.cacheable (p.ty t) = true ∧ ∃ seen, Ev.exec t seen ∈ tr ∧ p.behave t seen = some v

def StoreOK (p : Problem) (store0 : Store) (s : IS) : Prop :=
  ∀ t v, (t, v) ∈ s.rs.store → (t, v) ∈ store0 ∨ Wrote p s.rs.trace t v

/-- serial runner: the outcome held between `run()` and the save is on record -/
def SerOK (p : Problem) (s : IS) : Prop :=
  ∀ j v, s.cur = some j → s.curOut = some (.ok v) → j.useCache = false →
    ∃ seen, Ev.exec j.tid seen ∈ s.rs.trace ∧ p.behave j.tid seen = some v

def SI (p : Problem) (store0 : Store) (s : IS) : Prop := StoreOK p store0 s ∧ SerOK p s

theorem Wrote.mono {tr : List Ev} {l : List Ev} {t : Tid} {v : Val} (h : Wrote p tr t v) :
    Wrote p (tr ++ l) t v := by
  obtain ⟨h1, seen, h2, h3⟩ := h
  exact ⟨h1, seen, List.mem_append_left _ h2, h3⟩

theorem runOutcome_ok_nocache (ts : TS) (st : Store) (j : Job) (v : Val) (hu : j.useCache = false)
    (h : runOutcome p ts st j = .ok v) :
    runEvents p ts j = [Ev.exec j.tid (reads p (repr0 ts j.tid) (j.snap.getD []))] ∧
    p.behave j.tid (reads p (repr0 ts j.tid) (j.snap.getD [])) = some v := by
  simp only [runOutcome, hu, Bool.false_eq_true, if_false] at h
  refine ⟨by simp [runEvents, hu], ?_⟩
  split at h
  · simp at h
  · split at h
    · next v' hb => simp only [Outcome.ok.injEq] at h; rw [← h]; exact hb
    · simp at h

theorem saveIfRan_mem (st : Store) (j : Job) (o : Outcome) (t : Tid) (v : Val)
    (h : (t, v) ∈ saveIfRan p st j o) :
    (t, v) ∈ st ∨ (t = j.tid ∧ o = .ok v ∧ p.cacheable (p.ty j.tid) = true ∧ j.useCache = false) := by
  unfold saveIfRan at h
  split at h
  · next v' =>
    split at h
    · next hc =>
      simp only [Bool.and_eq_true, Bool.not_eq_true'] at hc
      simp only [List.mem_cons, Prod.mk.injEq, List.mem_filter] at h
      rcases h with ⟨rfl, rfl⟩ | h
      · exact Or.inr ⟨rfl, rfl, hc.1, hc.2⟩
      · exact Or.inl h.1
    · exact Or.inl h
  · exact Or.inl h

theorem saveBegin_mem (st : Store) (j : Job) (o : Outcome) (t : Tid) (v : Val)
    (h : (t, v) ∈ saveBegin p st j o) : (t, v) ∈ st := by
  unfold saveBegin at h
  split at h
  · split at h
    · exact (List.mem_filter.mp h).1
    · exact h
  · exact h

theorem saveAll_mem (ts : TS) : ∀ (fin : List Job) (st : Store) (t : Tid) (v : Val),
    (t, v) ∈ saveAll p ts fin st →
    (t, v) ∈ st ∨ ∃ j ∈ fin, j.tid = t ∧ p.cacheable (p.ty t) = true ∧ j.useCache = false ∧
      ∃ st', jobOutcome p ts st' j = .ok v := by
  intro fin
  induction fin with
  | nil => intro st t v h; exact Or.inl h
  | cons j fin ih =>
    intro st t v h
    simp only [saveAll] at h
    rcases ih _ t v h with h | ⟨j', hj', h'⟩
    · rcases saveIfRan_mem st j _ t v h with h | ⟨rfl, ho, hc, hu⟩
      · exact Or.inl h
      · exact Or.inr ⟨j, List.mem_cons_self, rfl, hc, hu, st, ho⟩
    · exact Or.inr ⟨j', List.mem_cons_of_mem _ hj', h'⟩

/-! ## which primitive touches the store / the serial runner's locals -/
def Prim.touchesStore : Prim → Bool
  | .consumeResults _ | .serialSaveBegin | .serialSaveEnd | .popDeque | .serialRun => true
  | _ => false

theorem applyPrim_store_cur (q : Prim) (s : IS) (h : q.touchesStore = false) :
    (applyPrim cfg p q s).rs.store = s.rs.store ∧ (applyPrim cfg p q s).cur = s.cur ∧
    (applyPrim cfg p q s).curOut = s.curOut := by
  unfold applyPrim
  split
  · cases q <;> simp [Prim.touchesStore] at h <;> simp only [stepPrim, keyErr] <;> (repeat' split) <;>
      simp
  · exact ⟨rfl, rfl, rfl⟩

theorem applyPrim_SI (store0 : Store) (q : Prim) (s : IS) (h : SI p store0 s) :
    SI p store0 (applyPrim cfg p q s) := by
  obtain ⟨l, hl, _⟩ := trace_ext (cfg := cfg) (p := p) q s
  by_cases ht : q.touchesStore = false
  · obtain ⟨e1, e2, e3⟩ := applyPrim_store_cur (cfg := cfg) (p := p) q s ht
    refine ⟨?_, ?_⟩
    · intro t v hv
      rw [e1] at hv
      rw [hl]
      exact (h.1 t v hv).imp id Wrote.mono
    · intro j v hj ho hu
      rw [e2] at hj; rw [e3] at ho
      obtain ⟨seen, h1, h2⟩ := h.2 j v hj ho hu
      exact ⟨seen, by rw [hl]; exact List.mem_append_left _ h1, h2⟩
  · by_cases hrun : ¬ s.rs.status = .running
    · rw [applyPrim_stopped q s hrun]; exact h
    have hrun : s.rs.status = .running := Decidable.not_not.mp hrun
    rw [applyPrim_running q s hrun] at hl ⊢
    cases q <;> simp [Prim.touchesStore] at ht
    case consumeResults c =>
      refine ⟨?_, ?_⟩
      · intro t v hv
        simp only [stepPrim] at hv ⊢
        rcases saveAll_mem _ _ _ t v hv with hv | ⟨j, hj, rfl, hc, hu, st', ho⟩
        · exact (h.1 t v hv).imp id (fun w => by rw [List.append_assoc]; exact w.mono)
        · right
          have hd : p.dies j.tid = false := by
            cases hd : p.dies j.tid with
            | false => rfl
            | true => simp [jobOutcome, hd] at ho
          simp only [jobOutcome, hd, Bool.false_eq_true, if_false] at ho
          obtain ⟨he, hb⟩ := runOutcome_ok_nocache _ _ j v hu ho
          refine ⟨hc, _, ?_, hb⟩
          apply List.mem_append_right
          simp only [List.mem_flatten, List.mem_map]
          exact ⟨_, ⟨j, hj, rfl⟩, by simp [jobEvents, hd, he]⟩
      · intro j v hj ho hu
        simp only [stepPrim] at hj ho ⊢
        obtain ⟨seen, h1, h2⟩ := h.2 j v hj ho hu
        exact ⟨seen, by rw [List.append_assoc]; exact List.mem_append_left _ h1, h2⟩
    case popDeque =>
      refine ⟨?_, ?_⟩
      · intro t v hv
        rw [hl]
        have : (stepPrim cfg p Prim.popDeque s).rs.store = s.rs.store := by
          simp only [stepPrim]; split <;> rfl
        rw [this] at hv
        exact (h.1 t v hv).imp id Wrote.mono
      · intro j v hj ho hu
        cases hq : s.rs.queued with
        | nil =>
          simp only [stepPrim, hq] at hj ho
          obtain ⟨seen, h1, h2⟩ := h.2 j v hj ho hu
          exact ⟨seen, by rw [hl]; exact List.mem_append_left _ h1, h2⟩
        | cons a rest =>
          simp only [stepPrim, hq] at ho
          simp at ho
    case serialRun =>
      cases hc : s.cur with
      | none =>
        have : stepPrim cfg p Prim.serialRun s = s := by simp [stepPrim, hc]
        rw [this]; exact h
      | some j =>
        refine ⟨?_, ?_⟩
        · intro t v hv
          simp only [stepPrim, hc] at hv ⊢
          exact (h.1 t v hv).imp id (fun w => by rw [List.append_assoc]; exact w.mono)
        · intro j' v hj ho hu
          simp only [stepPrim, hc, Option.some.injEq] at hj ho ⊢
          subst hj
          obtain ⟨he, hb⟩ := runOutcome_ok_nocache _ _ j v hu ho
          exact ⟨_, by rw [he]; simp, hb⟩
    case serialSaveBegin =>
      cases hc : s.cur with
      | none =>
        have : stepPrim cfg p Prim.serialSaveBegin s = s := by simp [stepPrim, hc]
        rw [this]; exact h
      | some j =>
        cases hco : s.curOut with
        | none =>
          have : stepPrim cfg p Prim.serialSaveBegin s = s := by simp [stepPrim, hc, hco]
          rw [this]; exact h
        | some o =>
          refine ⟨?_, ?_⟩
          · intro t v hv
            simp only [stepPrim, hc, hco] at hv ⊢
            exact h.1 t v (saveBegin_mem _ _ _ t v hv)
          · intro j' v hj ho hu
            simp only [stepPrim, hc, hco, Option.some.injEq] at hj ho ⊢
            subst hj; subst ho
            exact h.2 j v hc hco hu
    case serialSaveEnd =>
      cases hc : s.cur with
      | none =>
        have : stepPrim cfg p Prim.serialSaveEnd s = s := by simp [stepPrim, hc]
        rw [this]; exact h
      | some j =>
        cases hco : s.curOut with
        | none =>
          have : stepPrim cfg p Prim.serialSaveEnd s = s := by simp [stepPrim, hc, hco]
          rw [this]; exact h
        | some o =>
          refine ⟨?_, ?_⟩
          · intro t v hv
            simp only [stepPrim, hc, hco] at hv ⊢
            rcases saveIfRan_mem _ _ _ t v hv with hv | ⟨rfl, rfl, hca, hu⟩
            · exact h.1 t v hv
            · right
              obtain ⟨seen, h1, h2⟩ := h.2 j v hc hco hu
              exact ⟨hca, seen, h1, h2⟩
          · intro j' v hj ho hu
            simp only [stepPrim, hc, hco, Option.some.injEq] at hj ho ⊢
            subst hj; subst ho
            exact h.2 j v hc hco hu

theorem runPrims_SI (store0 : Store) : ∀ (ps : List Prim) (s : IS), SI p store0 s →
    SI p store0 (runPrims cfg p ps s) := by
  intro ps
  induction ps with
  | nil => intro s h; exact h
  | cons q ps ih => intro s h; exact ih _ (applyPrim_SI store0 q s h)

theorem SI_init (store : Store) (fuel : Nat) : SI p store (initIS cfg p store fuel) :=
  ⟨fun t v hv => Or.inl hv, fun j v hj _ _ => by simp [initIS] at hj⟩

end Lt
