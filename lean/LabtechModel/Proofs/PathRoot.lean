import LabtechModel.Proofs.PathTouch
/-!
# C18: the storage root

* `jr` on a symlink-free normal path never expands a link: it returns the path itself, `ok = True`.
  So "no prefix of the stored root is a symlink" (a property of the tree alone) implies that the
  resolution of the root meets no loop.
* `kwalk_snoc_nofollow` / `kwalk_snoc_follow`: the kernel's walk of `xs/c` is the walk of `xs` followed
  by one step: whatever symlinks `xs` goes through, the node reached is the child `c` of the directory
  the kernel reaches through `xs`. No hypothesis on the tree.
-/
namespace Lt.Path

theorem jrAux_linkfree (fs : FS) (rec : Seen → P → P → Except Err JR) :
    ∀ (rest : P) (seen : Seen) (path : P) (r : JR), NormalP rest → LinkFree fs (path ++ rest) →
      jrAux fs rec seen path rest = .ok r → r.ok = true ∧ r.path = path ++ rest := by
  intro rest
  induction rest with
  | nil =>
    intro seen path r _ _ h
    simp only [jrAux, Except.ok.injEq] at h
    subst h
    simp
  | cons name rest ih =>
    intro seen path r hn hl h
    have hc := hn name (by simp)
    have hcs : NormalP rest := fun d hd => hn d (by simp [hd])
    have hpre : path ++ [name] <+: path ++ name :: rest := ⟨rest, by simp⟩
    have hnl := hl _ hpre
    have hl' : LinkFree fs ((path ++ [name]) ++ rest) := by simpa using hl
    simp only [jrAux] at h
    rw [if_neg (by intro e; rcases e with e | e; exact hc.1 e; exact hc.2.1 e), if_neg hc.2.2] at h
    split at h
    · cases h
    · split at h
      · rename_i tgt hlk
        simp [hlk, optIsLink] at hnl
      · have := ih seen (path ++ [name]) r hcs hl' h
        simpa using this

/-- a stored root that is a normal path none of whose prefixes is a symlink resolves to itself,
    without meeting a loop -/
theorem noLoop_of_linkFree (fs : FS) (fuel : Nat) (sp r : RPath) (hr : resolve fs fuel sp = .ok r)
    (hl : LinkFree fs sp.comps) (hn : NormalP sp.comps) :
    (∃ r0, jr fs fuel [] [] sp.comps = .ok r0 ∧ r0.ok = true) ∧ r.comps = sp.comps := by
  cases fuel with
  | zero => simp [resolve, jr] at hr
  | succ n =>
    simp only [resolve] at hr
    cases hj : jr fs (n + 1) [] [] sp.comps with
    | error e => simp [hj] at hr
    | ok r0 =>
      have h0 := jrAux_linkfree fs (jr fs n) sp.comps [] [] r0 hn (by simpa using hl) hj
      refine ⟨⟨r0, rfl, h0.1⟩, ?_⟩
      simp only [hj] at hr
      split at hr
      · cases hr
      · split at hr
        · cases hr
        · cases hr
          simp only [h0.2, List.nil_append]
          exact normpath_normal _ hn

/-! ## the kernel's walk of `xs/c` -/

theorem isLast_snoc_false (xs : P) (c : Comp) (hc : c ≠ []) : isLast (xs ++ [c]) = false := by
  simp only [isLast, List.all_append, List.all_cons, List.all_nil, Bool.and_true]
  have : (c == []) = false := by simpa using hc
  simp [this]

/-- no-follow walk of `xs/c` (`lstat`, `mkdir`, `rmtree`, `open(…,'x')`): if it succeeds, it ends at the
    child `c` of the directory `R` that the (following) walk of `xs` reaches -/
theorem kwalk_snoc_nofollow (fs : FS) (c : Comp) (hc : c ≠ [] ∧ c ≠ dot ∧ c ≠ dotdot) :
    ∀ (b : Nat) (xs cur loc : P), kwalk fs false b cur (xs ++ [c]) = .ok loc →
      ∃ R, kwalk fs true b cur xs = .ok R ∧ lstat fs R = some .dir ∧ loc = R ++ [c] := by
  intro b
  induction b with
  | zero => intro xs cur loc h; simp [kwalk] at h
  | succ b ihb =>
    intro xs
    induction xs with
    | nil =>
      intro cur loc h
      simp only [kwalk, List.nil_append, kwalkAux, hc.1, hc.2.1, hc.2.2, if_false] at h ⊢
      cases hcur : lstat fs cur with
      | none => simp [hcur] at h
      | some nd =>
        cases nd with
        | file => simp [hcur] at h
        | link t => simp [hcur] at h
        | dir =>
          simp only [hcur] at h
          refine ⟨cur, rfl, hcur, ?_⟩
          split at h
          · cases h
          · split at h
            · simp [isLast] at h; exact h.symm
            · simp at h; exact h.symm
    | cons x xs ih =>
      intro cur loc h
      simp only [kwalk, List.cons_append, kwalkAux] at h ⊢
      by_cases hx : x = []
      · simp only [hx, if_true] at h ⊢
        exact ih cur loc h
      · simp only [hx, if_false] at h ⊢
        cases hcur : lstat fs cur with
        | none => simp [hcur] at h
        | some nd =>
          cases nd with
          | file => simp [hcur] at h
          | link t => simp [hcur] at h
          | dir =>
            simp only [hcur] at h ⊢
            by_cases hd : x = dot
            · simp only [hd, if_true] at h ⊢
              exact ih cur loc h
            · simp only [hd, if_false] at h ⊢
              by_cases hdd : x = dotdot
              · simp only [hdd, if_true] at h ⊢
                exact ih _ loc h
              · simp only [hdd, if_false] at h ⊢
                by_cases htl : tooLong x = true
                · simp [htl] at h
                · simp only [htl] at h ⊢
                  cases hn : lstat fs (cur ++ [x]) with
                  | none => simp only [hn] at h ⊢; exact ih _ loc h
                  | some nd =>
                    cases nd with
                    | dir => simp only [hn] at h ⊢; exact ih _ loc h
                    | file => simp only [hn] at h ⊢; exact ih _ loc h
                    | link tgt =>
                      simp only [hn, isLast_snoc_false xs c hc.1, Bool.false_and] at h ⊢
                      simp only [Bool.not_true, Bool.and_false]
                      rw [← List.append_assoc] at h
                      exact ihb _ _ loc h

/-- following walk of `xs/c` (`stat`, `open`): if it succeeds, the walk of `xs` reaches a directory
    `R`, the no-follow walk ends at `R/c`, and unless `R/c` is a symlink so does the following one -/
theorem kwalk_snoc_follow (fs : FS) (c : Comp) (hc : c ≠ [] ∧ c ≠ dot ∧ c ≠ dotdot) :
    ∀ (b : Nat) (xs cur loc : P), kwalk fs true b cur (xs ++ [c]) = .ok loc →
      ∃ R, kwalk fs true b cur xs = .ok R ∧ lstat fs R = some .dir ∧
        kwalk fs false b cur (xs ++ [c]) = .ok (R ++ [c]) ∧
        (optIsLink (lstat fs (R ++ [c])) = false → loc = R ++ [c]) := by
  intro b
  induction b with
  | zero => intro xs cur loc h; simp [kwalk] at h
  | succ b ihb =>
    intro xs
    induction xs with
    | nil =>
      intro cur loc h
      simp only [kwalk, List.nil_append, kwalkAux, hc.1, hc.2.1, hc.2.2, if_false] at h ⊢
      cases hcur : lstat fs cur with
      | none => simp [hcur] at h
      | some nd =>
        cases nd with
        | file => simp [hcur] at h
        | link t => simp [hcur] at h
        | dir =>
          simp only [hcur] at h ⊢
          refine ⟨cur, rfl, hcur, ?_⟩
          by_cases htl : tooLong c = true
          · simp [htl] at h
          · have htl' : tooLong c = false := by simpa using htl
            simp only [htl', Bool.false_eq_true, if_false] at h ⊢
            cases hn : lstat fs (cur ++ [c]) with
            | none => simp only [hn] at h ⊢; simp at h; exact ⟨trivial, fun _ => h.symm⟩
            | some nd =>
              cases nd with
              | dir => simp only [hn] at h ⊢; simp at h; exact ⟨trivial, fun _ => h.symm⟩
              | file => simp only [hn] at h ⊢; simp at h; exact ⟨trivial, fun _ => h.symm⟩
              | link tgt => simp [isLast, optIsLink]
    | cons x xs ih =>
      intro cur loc h
      simp only [kwalk, List.cons_append, kwalkAux] at h ⊢
      by_cases hx : x = []
      · simp only [hx, if_true] at h ⊢
        exact ih cur loc h
      · simp only [hx, if_false] at h ⊢
        cases hcur : lstat fs cur with
        | none => simp [hcur] at h
        | some nd =>
          cases nd with
          | file => simp [hcur] at h
          | link t => simp [hcur] at h
          | dir =>
            simp only [hcur] at h ⊢
            by_cases hd : x = dot
            · simp only [hd, if_true] at h ⊢
              exact ih cur loc h
            · simp only [hd, if_false] at h ⊢
              by_cases hdd : x = dotdot
              · simp only [hdd, if_true] at h ⊢
                exact ih _ loc h
              · simp only [hdd, if_false] at h ⊢
                by_cases htl : tooLong x = true
                · simp [htl] at h
                · simp only [htl] at h ⊢
                  cases hn : lstat fs (cur ++ [x]) with
                  | none => simp only [hn] at h ⊢; exact ih _ loc h
                  | some nd =>
                    cases nd with
                    | dir => simp only [hn] at h ⊢; exact ih _ loc h
                    | file => simp only [hn] at h ⊢; exact ih _ loc h
                    | link tgt =>
                      simp only [hn, isLast_snoc_false xs c hc.1, Bool.false_and, Bool.not_true,
                        Bool.and_false] at h ⊢
                      rw [← List.append_assoc] at h ⊢
                      exact ihb _ _ loc h

/-! ## `mkdir` of a missing node does not change where a successful walk ends -/

theorem lstat_cons_some (fs : FS) (L q : P) (nd : Node) (hL : lstat fs L = none)
    (h : lstat fs q = some nd) : lstat ((L, Node.dir) :: fs) q = some nd := by
  cases q with
  | nil => simpa [lstat] using h
  | cons a as =>
    simp only [lstat] at h ⊢
    split
    · rename_i hl; simp [hl] at h
    · rename_i hl
      simp only [hl] at h
      simp only [List.lookup]
      split
      · rename_i heq
        have : (a :: as) = L := by simpa using heq
        rw [← this] at hL
        simp only [lstat, hl] at hL
        rw [hL] at h; cases h
      · exact h

theorem kwalk_after_mkdir (fs : FS) (L : P) (hL : lstat fs L = none) (ff : Bool) :
    ∀ (b : Nat) (xs cur R : P), kwalk fs ff b cur xs = .ok R →
      kwalk ((L, Node.dir) :: fs) ff b cur xs = .ok R := by
  intro b
  induction b with
  | zero => intro xs cur R h; simp [kwalk] at h
  | succ b ihb =>
    intro xs
    induction xs with
    | nil => intro cur R h; simpa [kwalk, kwalkAux] using h
    | cons x xs ih =>
      intro cur R h
      simp only [kwalk, kwalkAux] at h ⊢
      by_cases hx : x = []
      · simp only [hx, if_true] at h ⊢
        exact ih cur R h
      · simp only [hx, if_false] at h ⊢
        cases hcur : lstat fs cur with
        | none => simp [hcur] at h
        | some nd =>
          cases nd with
          | file => simp [hcur] at h
          | link t => simp [hcur] at h
          | dir =>
            simp only [hcur] at h
            simp only [lstat_cons_some fs L cur _ hL hcur]
            by_cases hd : x = dot
            · simp only [hd, if_true] at h ⊢
              exact ih cur R h
            · simp only [hd, if_false] at h ⊢
              by_cases hdd : x = dotdot
              · simp only [hdd, if_true] at h ⊢
                exact ih _ R h
              · simp only [hdd, if_false] at h ⊢
                by_cases htl : tooLong x = true
                · simp [htl] at h
                · simp only [htl] at h ⊢
                  have hnl : ∀ (hnl : optIsLink (lstat fs (cur ++ [x])) = false)
                      (h' : kwalkAux fs ff (kwalk fs ff b) (cur ++ [x]) xs = .ok R),
                      (match lstat ((L, Node.dir) :: fs) (cur ++ [x]) with
                        | some (Node.link tgt) =>
                          if (isLast xs && !ff) = true then Except.ok (cur ++ [x])
                          else kwalk ((L, Node.dir) :: fs) ff b (if isAbs tgt = true then [] else cur) (tgtComps tgt ++ xs)
                        | _ => kwalkAux ((L, Node.dir) :: fs) ff (kwalk ((L, Node.dir) :: fs) ff b) (cur ++ [x]) xs)
                      = .ok R := by
                    intro hnl h'
                    have h2 := lstat_cons_dir fs L (cur ++ [x]) hnl
                    have h3 := ih (cur ++ [x]) R h'
                    simp only [kwalk] at h3
                    cases hq : lstat ((L, Node.dir) :: fs) (cur ++ [x]) with
                    | none => exact h3
                    | some nd2 =>
                      cases nd2 with
                      | dir => exact h3
                      | file => exact h3
                      | link t2 => simp [hq, optIsLink] at h2
                  cases hn : lstat fs (cur ++ [x]) with
                  | none => simp only [hn] at h; exact hnl (by simp [hn, optIsLink]) h
                  | some nd =>
                    cases nd with
                    | dir => simp only [hn] at h; exact hnl (by simp [hn, optIsLink]) h
                    | file => simp only [hn] at h; exact hnl (by simp [hn, optIsLink]) h
                    | link tgt =>
                      simp only [hn] at h
                      simp only [lstat_cons_some fs L _ _ hL hn]
                      by_cases hfin : (isLast xs && !ff) = true
                      · rw [if_pos hfin] at h ⊢; exact h
                      · rw [if_neg hfin] at h ⊢
                        exact ihb _ _ R h

/-- `mkdir(r/c)` when `is_symlink(r/c)` answered `False`: it fails, or — with `R` the directory the
    kernel reaches through `r` — the only node it can create is `R/c`, after it `r` still leads to `R`
    and `R/c` is not a symlink -/
theorem mkdir_real (fs : FS) (kp : RPath) (a : P) (c : Comp) (hkc : kp.comps = a ++ [c])
    (hcn : c ≠ [] ∧ c ≠ dot ∧ c ≠ dotdot) (hsym : pathIsSymlink fs kp = .ok false) :
    (∃ e, doMkdir fs kp = .failed e) ∨
    ∃ R, kwalk fs true linkBudget [] a = .ok R ∧ lstat fs R = some .dir ∧
      kwalk (fsAfterMkdir fs (doMkdir fs kp)) true linkBudget [] a = .ok R ∧
      optIsLink (lstat (fsAfterMkdir fs (doMkdir fs kp)) (R ++ [c])) = false ∧
      ∀ t ∈ touchOfMkdir (doMkdir fs kp), t = Touch.createDir (R ++ [c]) := by
  simp only [pathIsSymlink, hkc] at hsym
  cases hw : kwalk fs false linkBudget [] (a ++ [c]) with
  | error e => left; exact ⟨errOfErrno e, by simp [doMkdir, hkc, hw]⟩
  | ok loc =>
    right
    obtain ⟨R, hR, hRd, hloc⟩ := kwalk_snoc_nofollow fs c hcn linkBudget a [] loc hw
    subst hloc
    simp only [hw] at hsym
    have hnl : optIsLink (lstat fs (R ++ [c])) = false := by simpa using hsym
    refine ⟨R, hR, hRd, ?_⟩
    cases hl : lstat fs (R ++ [c]) with
    | some nd =>
      have hm : doMkdir fs kp = .existed := by simp [doMkdir, hkc, hw, hl]
      rw [hm]
      exact ⟨hR, by simp only [fsAfterMkdir]; exact hnl, by simp [touchOfMkdir]⟩
    | none =>
      have hm : doMkdir fs kp = .created (R ++ [c]) := by simp [doMkdir, hkc, hw, hl]
      rw [hm]
      exact ⟨kwalk_after_mkdir fs _ hl true _ _ _ _ hR, lstat_cons_dir fs _ _ hnl, by simp [touchOfMkdir]⟩

/-- `open(xs/f)` when `is_symlink(xs/f)` answered `False`: the only node it can write is the child
    `f` of the directory `K` the kernel reaches through `xs` -/
theorem doOpen_real (fs : FS) (fp : RPath) (mode : List Char) (xs : P) (f : Comp)
    (hf : fp.comps = xs ++ [f]) (hfn : f ≠ [] ∧ f ≠ dot ∧ f ≠ dotdot)
    (hsym : pathIsSymlink fs fp = .ok false) :
    ∀ t ∈ (doOpen fs fp mode).1, ∃ K, kwalk fs true linkBudget [] xs = .ok K ∧ lstat fs K = some .dir ∧
      t = Touch.write (K ++ [f]) := by
  simp only [pathIsSymlink, hf] at hsym
  simp only [doOpen, hf]
  split
  · cases hw : kwalk fs false linkBudget [] (xs ++ [f]) with
    | error e => simp
    | ok loc =>
      obtain ⟨K, hK, hKd, hloc⟩ := kwalk_snoc_nofollow fs f hfn linkBudget xs [] loc hw
      simp only []
      split
      · simp
      · intro t ht
        simp only [List.mem_singleton] at ht
        exact ⟨K, hK, hKd, by rw [ht, hloc]⟩
  · cases hw : kwalk fs true linkBudget [] (xs ++ [f]) with
    | error e => simp
    | ok loc =>
      obtain ⟨K, hK, hKd, hnf, hloc⟩ := kwalk_snoc_follow fs f hfn linkBudget xs [] loc hw
      simp only [hnf] at hsym
      have hloc' : loc = K ++ [f] := hloc (by simpa using hsym)
      have key : ∀ t, t = Touch.write loc → ∃ K, kwalk fs true linkBudget [] xs = .ok K ∧
          lstat fs K = some .dir ∧ t = Touch.write (K ++ [f]) :=
        fun t ht => ⟨K, hK, hKd, by rw [ht, hloc']⟩
      simp only []
      split
      · simp
      · split
        · intro t ht; simp only [List.mem_singleton] at ht; exact key t ht
        · simp
      · split
        · intro t ht; simp only [List.mem_singleton] at ht; exact key t ht
        · simp

end Lt.Path
