import LabtechModel.Model.Params
/-! Typed structural equality of parameter values is decidable; `beq` decides it. -/
namespace Lt.Params

mutual
theorem Value.beq_eq : ∀ (a b : Value), Value.beq a b = true → a = b
  | .scalar a, .scalar b, h => by simp [Value.beq] at h; simp [h]
  | .enum c n, .enum c' n', h => by simp [Value.beq] at h; simp [h]
  | .tuple a, .tuple b, h => by simp only [Value.beq] at h; rw [beqList_eq a b h]
  | .dict a, .dict b, h => by simp only [Value.beq] at h; rw [beqFields_eq a b h]
  | .task a, .task b, h => by simp only [Value.beq] at h; rw [Task.beq_eq a b h]
  | .scalar _, .enum _ _, h | .scalar _, .tuple _, h | .scalar _, .dict _, h | .scalar _, .task _, h
  | .enum _ _, .scalar _, h | .enum _ _, .tuple _, h | .enum _ _, .dict _, h | .enum _ _, .task _, h
  | .tuple _, .scalar _, h | .tuple _, .enum _ _, h | .tuple _, .dict _, h | .tuple _, .task _, h
  | .dict _, .scalar _, h | .dict _, .enum _ _, h | .dict _, .tuple _, h | .dict _, .task _, h
  | .task _, .scalar _, h | .task _, .enum _ _, h | .task _, .tuple _, h | .task _, .dict _, h => by
    simp [Value.beq] at h
theorem Task.beq_eq : ∀ (a b : Task), Task.beq a b = true → a = b
  | .mk c f, .mk c' f', h => by
    simp only [Task.beq, Bool.and_eq_true, beq_iff_eq] at h
    rw [h.1, beqFields_eq f f' h.2]
theorem beqList_eq : ∀ (a b : List Value), beqList a b = true → a = b
  | [], [], _ => rfl
  | x :: xs, y :: ys, h => by
    simp only [beqList, Bool.and_eq_true] at h
    rw [Value.beq_eq x y h.1, beqList_eq xs ys h.2]
  | [], _ :: _, h | _ :: _, [], h => by simp [beqList] at h
theorem beqFields_eq : ∀ (a b : List (String × Value)), beqFields a b = true → a = b
  | [], [], _ => rfl
  | (k, x) :: xs, (k', y) :: ys, h => by
    simp only [beqFields, Bool.and_eq_true, beq_iff_eq] at h
    rw [h.1.1, Value.beq_eq x y h.1.2, beqFields_eq xs ys h.2]
  | [], _ :: _, h | _ :: _, [], h => by simp [beqFields] at h
end

mutual
theorem Value.beq_refl : ∀ (a : Value), Value.beq a a = true
  | .scalar a => by simp [Value.beq]
  | .enum c n => by simp [Value.beq]
  | .tuple a => by simp only [Value.beq]; exact beqList_refl a
  | .dict a => by simp only [Value.beq]; exact beqFields_refl a
  | .task a => by simp only [Value.beq]; exact Task.beq_refl a
theorem Task.beq_refl : ∀ (a : Task), Task.beq a a = true
  | .mk c f => by simp [Task.beq, beqFields_refl f]
theorem beqList_refl : ∀ (a : List Value), beqList a a = true
  | [] => by simp [beqList]
  | x :: xs => by simp [beqList, Value.beq_refl x, beqList_refl xs]
theorem beqFields_refl : ∀ (a : List (String × Value)), beqFields a a = true
  | [] => by simp [beqFields]
  | (k, x) :: xs => by simp [beqFields, Value.beq_refl x, beqFields_refl xs]
end

theorem Task.beq_iff (a b : Task) : Task.beq a b = true ↔ a = b :=
  ⟨Task.beq_eq a b, fun h => h ▸ Task.beq_refl a⟩

theorem Value.beq_iff (a b : Value) : Value.beq a b = true ↔ a = b :=
  ⟨Value.beq_eq a b, fun h => h ▸ Value.beq_refl a⟩

instance : DecidableEq Task := fun a b => decidable_of_iff _ (Task.beq_iff a b)
instance : DecidableEq Value := fun a b => decidable_of_iff _ (Value.beq_iff a b)

end Lt.Params
