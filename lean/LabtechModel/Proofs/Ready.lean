import LabtechModel.Proofs.Limit2
namespace Lt

/-- `get_ready_tasks` only returns pending tasks with no pending dependency -/
theorem readyAux_no_pending_deps (p : Problem) (s : TS) :
    ∀ (l : List Tid) (c : Nat → Nat) (t : Tid), t ∈ readyAux p s l c → s.pendDeps t = [] ∧ t ∈ l := by
  intro l
  induction l with
  | nil => intro c t h; simp [readyAux] at h
  | cons x rest ih =>
    intro c t h
    simp only [readyAux] at h
    split at h
    · have := ih c t h; exact ⟨this.1, List.mem_cons_of_mem _ this.2⟩
    · next hx =>
      have hx' : s.pendDeps x = [] := by
        cases hpd : s.pendDeps x with
        | nil => rfl
        | cons a b => simp [hpd] at hx
      split at h
      · split at h
        · have := ih c t h; exact ⟨this.1, List.mem_cons_of_mem _ this.2⟩
        · rcases List.mem_cons.mp h with h1 | h1
          · subst h1; exact ⟨hx', List.mem_cons_self⟩
          · have := ih _ t h1; exact ⟨this.1, List.mem_cons_of_mem _ this.2⟩
      · rcases List.mem_cons.mp h with h1 | h1
        · subst h1; exact ⟨hx', List.mem_cons_self⟩
        · have := ih _ t h1; exact ⟨this.1, List.mem_cons_of_mem _ this.2⟩

theorem readyTasks_no_pending_deps (p : Problem) (s : TS) (t : Tid) (h : t ∈ readyTasks p s) :
    s.pendDeps t = [] ∧ t ∈ s.pending :=
  readyAux_no_pending_deps p s s.pending _ t h

/-- the ready list is a sublist of the list it walks: order of `pending_tasks` is kept and no
    task is listed twice when pending has no duplicates -/
theorem readyAux_sublist (p : Problem) (s : TS) :
    ∀ (l : List Tid) (c : Nat → Nat), (readyAux p s l c).Sublist l := by
  intro l
  induction l with
  | nil => intro c; simp [readyAux]
  | cons x rest ih =>
    intro c
    simp only [readyAux]
    split
    · exact (ih c).cons x
    · split
      · split
        · exact (ih c).cons x
        · exact (ih _).cons_cons x
      · exact (ih _).cons_cons x

theorem startTask_some (s s' : TS) (t : Tid) (h : startTask s t = some s') :
    t ∈ s.pending ∧ s' = { s with pending := s.pending.filter (· ≠ t), active := s.active ++ [t] } := by
  simp only [startTask] at h
  cases hr : setRemove s.pending t with
  | none => simp [hr] at h
  | some pend =>
    simp only [hr, Option.some.injEq] at h
    have := setRemove_some _ _ _ hr
    subst h
    exact ⟨this.1, by rw [this.2]⟩

end Lt
