import LabtechModel.Model.Diagram
import LabtechModel.Driver.LdHex
/-!
`DIAG dir=<hex> tbl=<entry>;… tasks=<tok>,<tok>,…` → `ok <hex of the diagram text>` | `bad-type` | `bad-op`

* table entry: `<tyid>:<hex name>:<hex return hint | ->:<hex hint>.<hex field name>/…`
* value tokens, prefix notation: `S` scalar · `T<n>` tuple of the next n values · `D<n>` dict of the
  next n (`=<hex key>`, value) pairs · `K<tyid>.<n>` task with the next n (`=<hex name>`, value) pairs;
  `tasks=` is a sequence of task values.
-/
namespace Lt.DiagCmd
open Lt.Diag Lt.LdHex

def kvs (parts : List String) : List (String × String) :=
  parts.filterMap (fun w => match w.splitOn "=" with
    | k :: v :: rest => some (k, "=".intercalate (v :: rest))
    | _ => none)

def get (m : List (String × String)) (k : String) : Option String :=
  (m.find? (·.1 == k)).map (·.2)

def parseField (s : String) : Option (String × String) :=
  match s.splitOn "." with
  | [h, n] => do pure ((← decode h), (← decode n))
  | _ => none

def parseEntry (s : String) : Option (Nat × TypeInfo) :=
  match s.splitOn ":" with
  | [ty, name, ret, fields] => do
    let ty ← ty.toNat?
    let name ← decode name
    let ret ← if ret == "-" then some none else (decode ret).map some
    let fields ← if fields.isEmpty then some [] else (fields.splitOn "/").mapM parseField
    pure (ty, { name := name, fields := fields, ret := ret })
  | _ => none

def parseTable (s : String) : Option TypeTable :=
  if s.isEmpty then some [] else (s.splitOn ";").mapM parseEntry

def parseName (tok : String) : Option String :=
  match tok.toList with
  | '=' :: rest => decode (String.ofList rest)
  | _ => none

mutual
partial def parseValue : List String → Option (Value × List String)
  | [] => none
  | tok :: rest =>
    match tok.toList with
    | ['S'] => some (.scalar, rest)
    | 'T' :: n => do
      let n ← (String.ofList n).toNat?
      let (items, rest) ← parseValues n rest
      pure (.tuple items, rest)
    | 'D' :: n => do
      let n ← (String.ofList n).toNat?
      let (items, rest) ← parsePairs n rest
      pure (.dict items, rest)
    | 'K' :: hd =>
      match (String.ofList hd).splitOn "." with
      | [ty, n] => do
        let ty ← ty.toNat?
        let n ← n.toNat?
        let (fields, rest) ← parsePairs n rest
        pure (.task (.mk ty fields), rest)
      | _ => none
    | _ => none
partial def parseValues : Nat → List String → Option (List Value × List String)
  | 0, toks => some ([], toks)
  | n + 1, toks => do
    let (v, rest) ← parseValue toks
    let (vs, rest) ← parseValues n rest
    pure (v :: vs, rest)
partial def parsePairs : Nat → List String → Option (List (String × Value) × List String)
  | 0, toks => some ([], toks)
  | _, [] => none
  | n + 1, k :: toks => do
    let k ← parseName k
    let (v, rest) ← parseValue toks
    let (vs, rest) ← parsePairs n rest
    pure ((k, v) :: vs, rest)
end

partial def parseTasks : List String → Option (List Task)
  | [] => some []
  | toks => do
    let (v, rest) ← parseValue toks
    match v with
    | .task t => do
      let ts ← parseTasks rest
      pure (t :: ts)
    | _ => none

def handle (parts : List String) : String :=
  let m := kvs parts
  let parsed : Option (String × TypeTable × List Task) := do
    let dir ← decode (← get m "dir")
    let tbl ← parseTable (← get m "tbl")
    let toks ← get m "tasks"
    let tasks ← if toks.isEmpty then some [] else parseTasks (toks.splitOn ",")
    pure (dir, tbl, tasks)
  match parsed with
  | none => "bad-op"
  | some (dir, tbl, tasks) =>
    match buildTaskDiagram tbl dir tasks with
    | some text => "ok " ++ encode text
    | none => "bad-type"

end Lt.DiagCmd
