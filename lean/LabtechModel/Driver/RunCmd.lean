import LabtechModel.Model.Run
/-!
Line-protocol front end of the run model: parses one `RUN …` line, evaluates `Lt.run`, prints the
canonical observation line that the harness also derives from the real code.
-/
namespace Lt.Cmd

def natList (s : String) : Option (List Nat) :=
  if s.isEmpty then some [] else (s.splitOn ",").mapM String.toNat?

def optNatList (s : String) : Option (List (Option Nat)) :=
  if s.isEmpty then some [] else
    (s.splitOn ",").mapM (fun x => if x == "-" then some none else x.toNat?.map some)

def kvs (parts : List String) : List (String × String) :=
  parts.filterMap (fun w => match w.splitOn "=" with
    | [k, v] => some (k, v)
    | _ => none)

def get (m : List (String × String)) (k : String) : Option String :=
  (m.find? (·.1 == k)).map (·.2)

def showList (l : List Nat) : String := ",".intercalate (l.map toString)
def sortNat (l : List Nat) : List Nat := (l.toArray.qsort (· < ·)).toList
def showOpt : Option Nat → String
  | some v => toString v
  | none => "-"
def showPairs (l : List (Nat × Nat)) : String :=
  ",".intercalate (((l.toArray.qsort (fun a b => a.1 < b.1)).toList).map (fun kv => s!"{kv.1}:{kv.2}"))

def showOutcome : Outcome → String
  | .ok v => s!"ok:{v}"
  | .exc => "exc"
  | .died => "died"

def showEv : Ev → Option String
  | .submit t uc => some s!"S {t} {if uc then 1 else 0}"
  | .start t => some s!"B {t}"
  | .waitEnter q r => some s!"W q={showList q} r={showList r}"
  | .yield t o => some s!"Y {t} {showOutcome o}"
  | .remove ts left => some s!"R rem={showList (sortNat ts)} left={showList (sortNat left)}"
  | .exec _ _ => none
  | .load _ => none

def showExec (inflight : List Tid) : Ev → Option String
  | .exec t seen => if t ∈ inflight then none else some s!"X {t} {",".intercalate (seen.map showOpt)}"
  | .load t => if t ∈ inflight then none else some s!"L {t}"
  | _ => none

def showStatus : Status → String
  | .running => "running"
  | .returned r => s!"returned {",".intercalate (r.map (fun kv => s!"{kv.1}:{kv.2}"))}"
  | .raised .keyError => "raised KeyError"
  | .raised (.labError t) => s!"raised LabError {t}"

/-- value computed by the harness' task bodies -/
def noneCode : Nat := 999999

def stdBehave (ctx : Nat) (strict : Nat → Bool) (noneVal : Nat → Bool) (t : Tid) (vs : List (Option Val)) : Option Val :=
  if strict t && vs.any Option.isNone then none
  else if noneVal t then some noneCode
  else some (1000 * t + ctx + (vs.map (fun o => o.getD 7)).foldl (· + ·) 0)

/-- a second `run_tasks` call on the same objects and storage -/
structure Second where
  req : List Iid
  bust : Bool
  ctx : Nat
  cof : Bool
  uncache : List Tid
  sched : List Choice

structure Case where
  cfg : Config
  p : Problem
  store : Store
  sched : List Choice
  nTids : Nat
  nInst : Nat
  strict : Nat → Bool
  noneVal : Nat → Bool
  failsAt : Nat → Nat → Bool     -- context value → tid → run() raises
  second : Option Second

def parseInst (s : String) : Option (List (Nat × List Nat)) :=
  if s.isEmpty then some [] else
  (s.splitOn ";").mapM (fun item => match item.splitOn ":" with
    | [t, ch] => do pure ((← t.toNat?), (← natList ch))
    | _ => none)

def parsePairs (s : String) : Option (List (Nat × Nat)) :=
  if s.isEmpty then some [] else
  (s.splitOn ",").mapM (fun item => match item.splitOn ":" with
    | [a, b] => do pure ((← a.toNat?), (← b.toNat?))
    | _ => none)

def parseCase (parts : List String) : Option Case := do
  let m := kvs parts
  let be ← match ← get m "be" with
    | "serial" => some Backend.serial | "fork" => some Backend.fork | "spawn" => some Backend.spawn
    | _ => none
  let mw ← (← get m "mw").toNat?
  let cof ← (← get m "cof").toNat?
  let bust ← (← get m "bust").toNat?
  let ty ← natList (← get m "ty")
  let mp ← optNatList (← get m "mp")
  let ca ← natList (← get m "ca")
  let fl ← natList (← get m "fl")
  let inst ← parseInst (← get m "inst")
  let req ← natList (← get m "req")
  let pre ← parsePairs (← get m "pre")
  let sched ← natList (← get m "sched")
  let ctx ← (← get m "ctx").toNat?
  let flag := fun (t : Nat) (b : Nat) => (fl.getD t 0) / b % 2 == 1
  let p : Problem := {
    tidOf := fun i => (inst.getD i (0, [])).1
    children := fun i => (inst.getD i (0, [])).2
    requested := req
    ty := fun t => ty.getD t 0
    maxPar := fun T => (mp.getD T none)
    cacheable := fun T => ca.getD T 0 == 1
    fails := fun t => flag t 1 || (flag t 32 && ctx % 2 == 1)
    dies := fun t => flag t 2
    behave := stdBehave ctx (fun t => flag t 4) (fun t => flag t 8) }
  let mkSched := fun (l : List Nat) => l.map (fun m => ({ finish := fun i => m / (2 ^ i) % 2 == 1 } : Choice))
  let second : Option Second := match get m "req2", get m "bust2", get m "ctx2", get m "sched2" with
    | some r2, some b2, some c2, some s2 =>
      match natList r2, b2.toNat?, c2.toNat?, natList s2 with
      | some r, some b, some c, some s =>
        let cof2 := match (get m "cof2").bind String.toNat? with | some x => x == 1 | none => cof == 1
        let unc := ((get m "unc2").bind natList).getD []
        some { req := r, bust := b == 1, ctx := c, cof := cof2, uncache := unc, sched := mkSched s }
      | _, _, _, _ => none
    | _, _, _, _ => none
  pure { cfg := { backend := be, maxWorkers := mw, contOnFail := cof == 1, bust := bust == 1 },
         p := p, store := pre, sched := mkSched sched,
         nTids := ty.length, nInst := inst.length, strict := fun t => flag t 4, noneVal := fun t => flag t 8,
         failsAt := fun c t => flag t 1 || (flag t 32 && c % 2 == 1), second := second }

def observeRun (c : Case) (marked0 : List Iid) : String × RS :=
  let rs := run c.cfg c.p c.store (c.nTids + c.nInst + 1) c.sched
  let ts0 := plan c.cfg c.p c.store (c.nTids + c.nInst + 1)
  let tids := List.range c.nTids
  let planS := s!"P pending={showList ts0.pending} deps={";".intercalate (tids.map (fun t => showList (sortNat (ts0.ddeps t))))} inst={";".intercalate (tids.map (fun t => showList (ts0.instances t)))}"
  let evs := rs.trace.filterMap showEv
  let inflight := rs.futs
  let execs := (rs.trace.filterMap (showExec inflight)).toArray.qsort (· < ·) |>.toList
  let storeS := showPairs (rs.store.filter (fun kv => kv.1 ∉ inflight))
  ("; ".intercalate ([planS] ++ evs ++
    [s!"status={showStatus rs.status}", s!"execs={"/".intercalate execs}", s!"store={storeS}",
     s!"marked={showList (sortNat (dedup (marked0 ++ rs.marked)))}", s!"results={showList (sortNat (rs.results.map (·.1)))}",
     s!"pending={showList rs.ts.pending}", s!"active={showList (sortNat rs.ts.active)}"]), rs)

def observe (c : Case) : String :=
  let (o1, rs1) := observeRun c []
  let second (s2 : Second) (store2 : Store) : String :=
    let c2 : Case := { c with
      cfg := { c.cfg with bust := s2.bust, contOnFail := s2.cof }
      p := { c.p with requested := s2.req, behave := stdBehave s2.ctx c.strict c.noneVal, fails := c.failsAt s2.ctx }
      store := store2.filter (fun kv => kv.1 ∉ s2.uncache), sched := s2.sched, second := none }
    let (o2, _) := observeRun c2 (dedup rs1.marked)
    o1 ++ " || " ++ o2
  match c.second, rs1.status with
  | some s2, .returned _ => second s2 rs1.store
  | some s2, .raised (.labError _) =>
    -- aborted call: the workers still running finish (and save) in the background
    second s2 (saveAll c.p rs1.ts rs1.running rs1.store)
  | _, _ => o1

def handle (parts : List String) : String :=
  match parseCase parts with
  | some c => observe c
  | none => "bad-op"

end Lt.Cmd
