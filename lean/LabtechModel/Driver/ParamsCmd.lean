import LabtechModel.Model.Params
/-!
Line protocol for the parameter model (words separated by single spaces; every string is the hex of
its UTF-8 bytes, so no word contains a space).

A raw tree in prefix notation:
`N` | `B0` | `B1` | `I<int>` | `F<json float token>` | `S<hex>` | `E<mod>:<qual>:<member>` |
`L<n>` items | `T<n>` items | `D<n>` (key value)* | `Z<n>` (key value)*  with key = `K<hex>` | `X` |
`U` (unsupported) | `O<mod>:<qual>:<n>` (`K<hex>` value)*   -- a task constructor call

* `NORM <tree>` (root must be an `O` node) →
  `ok <normal form> <dep;dep;…|-> <hex of sha1 pre-image>`  or  `err <ErrorClass>`
* `CTASKS <ntaskcls> (<mod>:<qual>:<cachename>:<prefix>:<0|1 null>:<field,field,…>)*
          <nenumcls> (<mod>:<qual>:<member,member,…>)*
          <ntypes> (<mod>:<qual>)*
          <nentries> (<key> <cachename> <rm> <tree>)*` →
  `ok <obj>*` with obj = `<normal form>|<rm>|<key with #hex(pre-image)# in place of the sha1>`  or `err <ErrorClass>`
-/
namespace Lt.Params.Cmd
open Lt.Params

def hexVal (c : Char) : Option Nat :=
  if '0' ≤ c ∧ c ≤ '9' then some (c.toNat - 48)
  else if 'a' ≤ c ∧ c ≤ 'f' then some (c.toNat - 87)
  else none

def unhexBytes : List Char → Option (List UInt8)
  | [] => some []
  | [_] => none
  | a :: b :: rest => do
    let x ← hexVal a
    let y ← hexVal b
    let r ← unhexBytes rest
    pure (UInt8.ofNat (x * 16 + y) :: r)

def unhex (s : String) : Option String := do
  let bs ← unhexBytes s.toList
  String.fromUTF8? (ByteArray.mk bs.toArray)

def toHex (s : String) : String :=
  String.ofList (s.toUTF8.toList.foldr (fun b acc => hexDigit (b.toNat / 16) :: hexDigit (b.toNat % 16) :: acc) [])

def parseClassRef (m q : String) : Option ClassRef := do
  let m ← unhex m
  let q ← unhex q
  pure ⟨m, q⟩

/-! ### printing normal forms -/
mutual
partial def showValue : Value → String
  | .scalar .none => "N"
  | .scalar (.bool b) => if b then "B1" else "B0"
  | .scalar (.int i) => "I" ++ toString i
  | .scalar (.float t) => "F" ++ t
  | .scalar (.str s) => "S" ++ toHex s
  | .enum c n => "E" ++ toHex c.module ++ ":" ++ toHex c.qualname ++ ":" ++ toHex n
  | .tuple items => "T" ++ toString items.length ++ "(" ++ ",".intercalate (items.map showValue) ++ ")"
  | .dict items => "Z" ++ toString items.length ++ "(" ++ ",".intercalate (items.map showField) ++ ")"
  | .task t => showTask t
partial def showField : String × Value → String
  | (k, v) => "K" ++ toHex k ++ "=" ++ showValue v
partial def showTask : Task → String
  | .mk c fs => "O" ++ toHex c.module ++ ":" ++ toHex c.qualname ++ ":" ++ toString fs.length ++ "("
      ++ ",".intercalate (fs.map showField) ++ ")"
end

/-! ### parsing raw trees.  A nested `O` node is a nested constructor call: it is normalised on the
spot, and its `TaskError` aborts the whole expression, as in Python. -/

inductive PErr where
  | syntax
  | raised (e : Err)

instance : Inhabited PErr := ⟨.syntax⟩

abbrev P := Except PErr

def pNat (s : String) : P Nat :=
  match s.toNat? with
  | some n => .ok n
  | none => .error .syntax

def pHex (s : String) : P String :=
  match unhex s with
  | some x => .ok x
  | none => .error .syntax

mutual
partial def pRaw : List String → P (Raw × List String)
  | [] => .error .syntax
  | w :: rest =>
    let body := (w.drop 1).toString
    match w.front with
    | 'N' => .ok (.scalar .none, rest)
    | 'B' => if body == "1" then .ok (.scalar (.bool true), rest) else if body == "0" then .ok (.scalar (.bool false), rest) else .error .syntax
    | 'I' => match body.toInt? with
      | some i => .ok (.scalar (.int i), rest)
      | none => .error .syntax
    | 'F' => .ok (.scalar (.float body), rest)
    | 'S' => do let s ← pHex body; pure (.scalar (.str s), rest)
    | 'E' => match body.splitOn ":" with
      | [m, q, n] => do
        let m ← pHex m; let q ← pHex q; let n ← pHex n
        pure (.enum ⟨m, q⟩ n, rest)
      | _ => .error .syntax
    | 'L' => do let n ← pNat body; let (xs, r) ← pItems n rest; pure (.list xs, r)
    | 'T' => do let n ← pNat body; let (xs, r) ← pItems n rest; pure (.tuple xs, r)
    | 'D' => do let n ← pNat body; let (xs, r) ← pPairs n rest; pure (.dict xs, r)
    | 'Z' => do let n ← pNat body; let (xs, r) ← pPairs n rest; pure (.fdict xs, r)
    | 'U' => .ok (.unsupported, rest)
    | 'O' => do
      let (t, r) ← pTask (w :: rest)
      pure (.task t, r)
    | _ => .error .syntax
partial def pItems : Nat → List String → P (List Raw × List String)
  | 0, ws => .ok ([], ws)
  | n + 1, ws => do
    let (x, r) ← pRaw ws
    let (xs, r') ← pItems n r
    pure (x :: xs, r')
partial def pPairs : Nat → List String → P (List (RawKey × Raw) × List String)
  | 0, ws => .ok ([], ws)
  | _ + 1, [] => .error .syntax
  | n + 1, k :: ws => do
    let key ← (if k == "X" then pure RawKey.other
               else if k.front == 'K' then do let s ← pHex (k.drop 1).toString; pure (RawKey.str s)
               else .error .syntax : P RawKey)
    let (x, r) ← pRaw ws
    let (xs, r') ← pPairs n r
    pure ((key, x) :: xs, r')
partial def pTask : List String → P (Task × List String)
  | [] => .error .syntax
  | w :: rest =>
    if w.front != 'O' then .error .syntax else
    match ((w.drop 1).toString).splitOn ":" with
    | [m, q, n] => do
      let m ← pHex m; let q ← pHex q; let n ← pNat n
      let (pairs, r) ← pPairs n rest
      let fields ← pairs.mapM (fun (k, v) => match k with
        | .str s => (pure (s, v) : P (String × Raw))
        | .other => .error .syntax)
      match normFields fields with
      | .error e => .error (.raised e)
      | .ok fs => pure (.mk ⟨m, q⟩ fs, r)
    | _ => .error .syntax
end

def showErr : PErr → String
  | .syntax => "bad-syntax"
  | .raised e => "err " ++ e.name

def handleNorm (ws : List String) : String :=
  match pTask ws with
  | .error e => showErr e
  | .ok (_, _ :: _) => "bad-syntax"
  | .ok (t, []) =>
    let deps := directDeps t
    let ds := if deps.isEmpty then "-" else ";".intercalate (deps.map showTask)
    "ok " ++ showTask t ++ " " ++ ds ++ " " ++ toHex (cacheKeyPre t)

/-! ### CTASKS -/

structure TaskCls where
  cls : ClassRef
  fmt : CacheFmt
  fields : List String

def pStrList (s : String) : P (List String) :=
  if s.isEmpty then .ok [] else (s.splitOn ",").mapM pHex

def pTaskCls (w : String) : P TaskCls :=
  match w.splitOn ":" with
  | [m, q, cn, pf, nl, fs] => do
    let m ← pHex m; let q ← pHex q; let cn ← pHex cn; let pf ← pHex pf
    let fs ← pStrList fs
    pure { cls := ⟨m, q⟩, fmt := ⟨cn, pf, nl == "1"⟩, fields := fs }
  | _ => .error .syntax

def pEnumCls (w : String) : P (ClassRef × List String) :=
  match w.splitOn ":" with
  | [m, q, ms] => do
    let m ← pHex m; let q ← pHex q; let ms ← pStrList ms
    pure (⟨m, q⟩, ms)
  | _ => .error .syntax

def pType (w : String) : P ClassRef :=
  match w.splitOn ":" with
  | [m, q] => do let m ← pHex m; let q ← pHex q; pure ⟨m, q⟩
  | _ => .error .syntax

partial def pMany {α : Type} (f : String → P α) : Nat → List String → P (List α × List String)
  | 0, ws => .ok ([], ws)
  | _ + 1, [] => .error .syntax
  | n + 1, w :: ws => do
    let x ← f w
    let (xs, r) ← pMany f n ws
    pure (x :: xs, r)

partial def pEntries : Nat → List String → P (List Entry × List String)
  | 0, ws => .ok ([], ws)
  | n + 1, k :: cn :: rm :: ws => do
    let k ← pHex k; let cn ← pHex cn; let rm ← pHex rm
    let (t, r) ← pTask ws
    let (es, r') ← pEntries n r
    pure ({ key := k, doc := { cache := cn, task := serTask t, rm := rm } } :: es, r')
  | _, _ => .error .syntax

def pCount : List String → P (Nat × List String)
  | [] => .error .syntax
  | w :: ws => do let n ← pNat w; pure (n, ws)

def showObj (o : TaskObj Unit) : String :=
  showTask o.value ++ "|" ++ (match o.resultMeta with | some r => toHex r | none => "-") ++ "|" ++ toHex o.cacheKey

def handleCTasks (ws : List String) : String :=
  let r : P String := do
    let (n, ws) ← pCount ws
    let (tcs, ws) ← pMany pTaskCls n ws
    let (n, ws) ← pCount ws
    let (ecs, ws) ← pMany pEnumCls n ws
    let (n, ws) ← pCount ws
    let (types, ws) ← pMany pType n ws
    let (n, ws) ← pCount ws
    let (entries, ws) ← pEntries n ws
    if !ws.isEmpty then .error .syntax else
    let env : Env Unit := {
      reg := { taskFields := fun c => (tcs.find? (fun t => t.cls == c)).map (·.fields),
               enumMembers := fun c => (ecs.find? (fun e => e.1 == c)).map (·.2) },
      cacheOf := fun c => match tcs.find? (fun t => t.cls == c) with
        | some t => t.fmt
        | none => ⟨"", "", true⟩,
      sha1 := fun pre => "#" ++ toHex pre ++ "#",
      postInit := fun _ => () }
    match cachedTasks env types entries with
    | .error e => .error (.raised e)
    | .ok os => pure ("ok" ++ String.join (os.map (fun o => " " ++ showObj o)))
  match r with
  | .ok s => s
  | .error e => showErr e

def handle (op : String) (ws : List String) : String :=
  match op with
  | "NORM" => handleNorm ws
  | "CTASKS" => handleCTasks ws
  | _ => "bad-op"

end Lt.Params.Cmd
