import LabtechModel.Model.Path
/-!
Line-protocol front end of the path model (M8).

`PATH fuel=<n> root=<hex> op=<exists|fh|fhold|delete|resolve> key=<hex> fn=<hex> mode=<hex> fs=<e>;<e>;…`
with `<e>` = `<hex path>:<d|f|l>:<hex link target>`; every string is the hex of its UTF-8 bytes, a
path is the absolute string (`/a/b`, relative to the sandbox).  Output:
`<ok:True|ok:False|ok:handle|ok:None|err:Class> E=<effects> T=<touched nodes>`.
-/
namespace Lt.PathCmd
open Lt.Path

def hexVal (c : Char) : Option Nat :=
  if '0' ≤ c ∧ c ≤ '9' then some (c.toNat - '0'.toNat)
  else if 'a' ≤ c ∧ c ≤ 'f' then some (c.toNat - 'a'.toNat + 10)
  else none

def unhexBytes : List Char → Option (List UInt8)
  | [] => some []
  | [_] => none
  | a :: b :: rest => do
    let x ← hexVal a
    let y ← hexVal b
    let r ← unhexBytes rest
    pure (UInt8.ofNat (16 * x + y) :: r)

def unhex (s : String) : Option (List Char) := do
  let bs ← unhexBytes s.toList
  let str ← String.fromUTF8? (ByteArray.mk bs.toArray)
  pure str.toList

def hexDigit (n : Nat) : Char :=
  if n < 10 then Char.ofNat ('0'.toNat + n) else Char.ofNat ('a'.toNat + n - 10)

def hex (s : List Char) : String :=
  String.ofList ((String.ofList s).toUTF8.toList.flatMap (fun b => [hexDigit (b.toNat / 16), hexDigit (b.toNat % 16)]))

def kvs (parts : List String) : List (String × String) :=
  parts.filterMap (fun w => match w.splitOn "=" with
    | [k, v] => some (k, v)
    | _ => none)

def get (m : List (String × String)) (k : String) : Option String :=
  (m.find? (·.1 == k)).map (·.2)

/-- an absolute path string to components (the harness sends normalised paths) -/
def pathOfStr (s : List Char) : Option P :=
  if isAbs s then some ((splitSlash s).filter (fun c => !(c == []))) else none

def parseEntry (e : String) : Option (P × Node) :=
  match e.splitOn ":" with
  | [p, k, t] => do
    let ps ← unhex p
    let path ← pathOfStr ps
    match k with
    | "d" => some (path, .dir)
    | "f" => some (path, .file)
    | "l" => do
      let tg ← unhex t
      some (path, .link tg)
    | _ => none
  | _ => none

def parseFS (s : String) : Option FS :=
  if s.isEmpty then some [] else (s.splitOn ";").mapM parseEntry

def strOfPath (p : P) : List Char :=
  match p with
  | [] => ['/']
  | _ => p.flatMap (fun c => '/' :: c)

def showRPath (p : RPath) : String := hex ((if p.ds then ['/'] else []) ++ strOfPath p.comps)

def showErr : Err → String
  | .storage => "StorageError"
  | .value => "ValueError"
  | .runtime => "RuntimeError"
  | .recursion => "RecursionError"
  | .fileNotFound => "FileNotFoundError"
  | .notADir => "NotADirectoryError"
  | .isADir => "IsADirectoryError"
  | .fileExists => "FileExistsError"
  | .os => "OSError"

def showRes : Except Err Res → String
  | .ok (.bool true) => "ok:True"
  | .ok (.bool false) => "ok:False"
  | .ok .handle => "ok:handle"
  | .ok .none => "ok:None"
  | .error e => "err:" ++ showErr e

def showEffect : Effect → String
  | .mkdir p => "mkdir:" ++ showRPath p
  | .stat p => "stat:" ++ showRPath p
  | .lstatEnd p => "lstat:" ++ showRPath p
  | .openf p m => "open:" ++ showRPath p ++ ":" ++ hex m
  | .rmtree p => "rmtree:" ++ showRPath p

def showTouch : Touch → String
  | .createDir p => "mkdir:" ++ hex (strOfPath p)
  | .write p => "write:" ++ hex (strOfPath p)
  | .remove p => "remove:" ++ hex (strOfPath p)

def showOutcome (o : Outcome) : String :=
  showRes o.result ++ " E=" ++ ",".intercalate (o.effects.map showEffect)
    ++ " T=" ++ ",".intercalate (o.touched.map showTouch)

def handle (parts : List String) : String :=
  let m := kvs parts
  let r : Option String := do
    let fuel ← (← get m "fuel").toNat?
    let root ← pathOfStr (← unhex (← get m "root"))
    let fs ← parseFS (← get m "fs")
    let key ← unhex ((get m "key").getD "")
    let fn ← unhex ((get m "fn").getD "")
    let mode ← unhex ((get m "mode").getD "")
    let sp : RPath := ⟨false, root⟩
    match ← get m "op" with
    | "exists" => some (showOutcome (opExists fs fuel sp key))
    | "delete" => some (showOutcome (opDelete fs fuel sp key))
    | "fh" => some (showOutcome (opFileHandle fs fuel sp key fn mode))
    | "fhold" => some (showOutcome (opFileHandleOld fs fuel sp key fn mode))
    | "resolve" =>
      match resolve fs fuel (pjoin sp key) with
      | .ok p => some ("ok:" ++ showRPath p)
      | .error e => some ("err:" ++ showErr e)
    | _ => none
  r.getD "bad-input"

end Lt.PathCmd
