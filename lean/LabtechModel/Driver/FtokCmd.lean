import LabtechModel.Proofs.DumpsInjNum
import LabtechModel.Driver.LdHex
/-! `FTOK <hex of token>`: does the text satisfy `wfFloatTok`, the float-token grammar under which
`dumps_injective` is proved? The harness sends every token the real `json.dumps` prints for a float
(all must answer `ok 1`) and a stream of non-float texts (all must answer `ok 0`). -/
namespace Lt.FtokCmd

def handle : List String → String
  | [h] =>
    match Lt.LdHex.decode h with
    | some s => if Lt.Params.wfFloatTok s then "ok 1" else "ok 0"
    | none => "bad-op"
  | _ => "bad-op"

end Lt.FtokCmd
