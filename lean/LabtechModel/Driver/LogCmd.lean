import LabtechModel.Model.Log
import LabtechModel.Driver.LdHex
/-!
`LOG proxy pre=<hex> ops=<op>,…`            op: `w<hex>` write · `f` flush
   → `ok bufs=x<hex>,… out=x<hex>,…`          (final `bufs`; every `logger_func` message in order)
`LOG run n=<workers> w=<ems>;<ems>;… sched=<round>/<round>/… [cof=<0|1> fail=<w>,<w>,…]`
   ems: `,`-separated `l<hex>` logger.info · `o<hex>` stdout.write · `e<hex>` stderr.write · `O` / `E` flush;
        a final `K`: the worker's process dies hard there (no `finally` flush)
   round: `A|B|C`, each a `,`-separated list of `a<w>.<k>` (advance) / `f<w>` (finish)
   (`cof`: continue_on_failure, default 1; `fail`: workers whose outcome is an exception)
   → `ok exited=<0 running | 1 returned | 2:<w> LabError for w> delivered=<w>:<I|E>:x<hex>,… left=<records still queued> todo=<records not yet put>`
-/
namespace Lt.LogCmd
open Lt.Log Lt.LdHex

def kvs (parts : List String) : List (String × String) :=
  parts.filterMap (fun w => match w.splitOn "=" with
    | k :: v :: rest => some (k, "=".intercalate (v :: rest))
    | _ => none)

def get (m : List (String × String)) (k : String) : Option String :=
  (m.find? (·.1 == k)).map (·.2)

def splitList (sep : String) (s : String) : List String :=
  if s.isEmpty then [] else s.splitOn sep

def parsePOp (tok : String) : Option POp :=
  match tok.toList with
  | ['f'] => some .flush
  | 'w' :: h => (decode (String.ofList h)).map .write
  | _ => none

def xs (l : List String) : String := ",".intercalate (l.map (fun s => "x" ++ encode s))

def handleProxy (m : List (String × String)) : String :=
  let parsed : Option (String × List POp) := do
    let pre ← decode (← get m "pre")
    let ops ← (splitList "," (← get m "ops")).mapM parsePOp
    pure (pre, ops)
  match parsed with
  | none => "bad-op"
  | some (pre, ops) =>
    let r := prun [] ops
    s!"ok bufs={xs r.1} out={xs (r.2.map (renderMsg pre))}"

def parseEmit (tok : String) : Option Emit :=
  match tok.toList with
  | ['O'] => some .flushOut
  | ['E'] => some .flushErr
  | 'l' :: h => (decode (String.ofList h)).map .log
  | 'o' :: h => (decode (String.ofList h)).map .out
  | 'e' :: h => (decode (String.ofList h)).map .err
  | _ => none

/-- a worker's emissions; a final `K` token: the process dies hard at that point (`true`) -/
def parseWorker (w : String) : Option (List Emit × Bool) :=
  let toks := splitList "," w
  match toks.getLast? with
  | some "K" => (toks.dropLast.mapM parseEmit).map (fun e => (e, true))
  | _ => (toks.mapM parseEmit).map (fun e => (e, false))

def recordsOf (x : List Emit × Bool) : List Rec :=
  if x.2 then diedRecords x.1 else workerRecords x.1

def parseEnv (tok : String) : Option Env :=
  match tok.toList with
  | 'f' :: w => (String.ofList w).toNat?.map .finish
  | 'a' :: rest =>
    match (String.ofList rest).splitOn "." with
    | [w, k] => do pure (.advance (← w.toNat?) (← k.toNat?))
    | _ => none
  | _ => none

def parseRound (s : String) : Option Round :=
  match s.splitOn "|" with
  | [a, b, c] => do
    pure { a := (← (splitList "," a).mapM parseEnv), b := (← (splitList "," b).mapM parseEnv),
           c := (← (splitList "," c).mapM parseEnv) }
  | _ => none

def showRec (x : Nat × Rec) : String :=
  s!"{x.1}:{if x.2.isError then "E" else "I"}:x{encode x.2.text}"

def handleRun (m : List (String × String)) : String :=
  let parsed : Option (Nat × List (List Emit × Bool) × List Round × Bool × List Nat) := do
    let n ← (← get m "n").toNat?
    let wstr ← get m "w"
    let ws ← (if n == 0 then some [] else (wstr.splitOn ";").mapM parseWorker)
    let sched ← (splitList "/" (← get m "sched")).mapM parseRound
    let cof ← match get m "cof" with
      | none => some true
      | some "1" => some true
      | some "0" => some false
      | _ => none
    let fail ← match get m "fail" with
      | none => some []
      | some f => (splitList "," f).mapM String.toNat?
    if ws.length == n then pure (n, ws, sched, cof, fail) else none
  match parsed with
  | none => "bad-op"
  | some (n, ws, sched, cof, fail) =>
    let r := runLoop cof (fun w => fail.contains w) (init n (fun w => recordsOf (ws.getD w ([], false)))) sched
    let s := r.1
    let ex := match r.2 with
      | .running => "0"
      | .returned => "1"
      | .raised w => s!"2:{w}"
    let todo := (List.range n).foldl (fun acc w => acc + (s.todo w).length) 0
    s!"ok exited={ex} delivered={",".intercalate (s.delivered.map showRec)} left={s.logq.length} todo={todo}"

def handle (parts : List String) : String :=
  match parts with
  | "proxy" :: rest => handleProxy (kvs rest)
  | "run" :: rest => handleRun (kvs rest)
  | _ => "bad-op"

end Lt.LogCmd
