import LabtechModel.Model.OSet
/-! `OSET <op> <op> …` — a sequence of operations over named `OrderedSet`s (names are numbers); one observation token
per operation, joined by spaces.

```
new:<n>                  sets[n] = OrderedSet()                         -> ok
new:<n>:<e>,<e>,…        sets[n] = OrderedSet([e, e, …]) (`new:<n>:` = OrderedSet([]))   -> ok
add:<n>:<e>              sets[n].add(e)                                 -> ok
rem:<n>:<e>              sets[n].remove(e)                              -> ok | KeyError
plus:<n>:<a>:<b>         sets[n] = sets[a] + sets[b]                    -> ok
mem:<n>:<e>              e in sets[n]                                   -> T | F
len:<n>                  len(sets[n])                                   -> <number>
list:<n>                 list(sets[n]): identities, in order            -> i<id>,i<id>,… | -
```
An element `<e>` is `c<class>i<identity>` (decimal). A malformed operation or an unbound set name makes the whole line `bad-op`.
-/
namespace Lt.OsetCmd
open Lt Lt.OSet

def parseElem (s : String) : Option Elem :=
  match s.splitOn "i" with
  | [c, i] =>
    if c.startsWith "c" then
      match (c.drop 1).toNat?, i.toNat? with
      | some cn, some inn => some ⟨cn, inn⟩
      | _, _ => none
    else none
  | _ => none

def parseElems (s : String) : Option (List Elem) :=
  if s.isEmpty then some [] else (s.splitOn ",").mapM parseElem

abbrev Env := List (Nat × OSet)

def get (env : Env) (n : Nat) : Option OSet := (env.find? (fun p => p.1 == n)).map Prod.snd

def put (env : Env) (n : Nat) (s : OSet) : Env := (n, s) :: env.filter (fun p => p.1 != n)

def showList (l : List Elem) : String :=
  if l.isEmpty then "-" else ",".intercalate (l.map (fun e => "i" ++ toString e.ident))

/-- one operation: the new environment and the observation -/
def stepOp (env : Env) (op : String) : Option (Env × String) :=
  match op.splitOn ":" with
  | ["new", n] => do
    let n ← n.toNat?
    some (put env n (ofList []), "ok")
  | ["new", n, es] => do
    let n ← n.toNat?
    let es ← parseElems es
    some (put env n (ofList es), "ok")
  | ["add", n, e] => do
    let n ← n.toNat?
    let e ← parseElem e
    let s ← get env n
    some (put env n (s.add e), "ok")
  | ["rem", n, e] => do
    let n ← n.toNat?
    let e ← parseElem e
    let s ← get env n
    match s.remove e with
    | some s' => some (put env n s', "ok")
    | none => some (env, "KeyError")
  | ["plus", n, a, b] => do
    let n ← n.toNat?
    let sa ← get env (← a.toNat?)
    let sb ← get env (← b.toNat?)
    some (put env n (sa + sb), "ok")
  | ["mem", n, e] => do
    let n ← n.toNat?
    let e ← parseElem e
    let s ← get env n
    some (env, if s.mem e then "T" else "F")
  | ["len", n] => do
    let s ← get env (← n.toNat?)
    some (env, toString s.len)
  | ["list", n] => do
    let s ← get env (← n.toNat?)
    some (env, showList s.toList)
  | _ => none

def runOps : Env → List String → List String → Option (List String)
  | _, [], acc => some acc.reverse
  | env, op :: rest, acc =>
    match stepOp env op with
    | some (env', o) => runOps env' rest (o :: acc)
    | none => none

def handle (args : List String) : String :=
  match runOps [] args [] with
  | some outs => " ".intercalate outs
  | none => "bad-op"

end Lt.OsetCmd
