import LabtechModel.Model.Save
/-!
`SAVE mode=first|over n=<N> m=<M> kind=fault|crash|nocleanup k=<K> eff=0|1 lose=0|1 del=ok|fail<a><b>`
(n, m = number of write calls on metadata / result file, each ≥ 1) → observation class of the key entry
after the event: `cached=… load=… listed=… raised=… safe=…`. The earlier save is version 0 (`old`), the
save under study version 1 (`new`).
-/
namespace Lt.Save.Cmd

def kvs (parts : List String) : List (String × String) :=
  parts.filterMap (fun w => match w.splitOn "=" with
    | [k, v] => some (k, v)
    | _ => none)

def get (m : List (String × String)) (k : String) : Option String :=
  (m.find? (·.1 == k)).map (·.2)

def verName (v : Ver) : String := if v == 0 then "old" else "new"

def showLoad : Load → String
  | .ok v mv => s!"ok:{verName v}:{verName mv}"
  | .fails => "fails"

def showListing : Listing → String
  | .notListed => "no"
  | .listed mv => s!"yes:{verName mv}"
  | .raises => "raises"

def bit (s : String) : Option Bool :=
  if s == "0" then some false else if s == "1" then some true else none

def parseDel (s : String) : Option Del :=
  match s with
  | "ok" => some .ok
  | "fail00" => some (.failed false false)
  | "fail10" => some (.failed true false)
  | "fail01" => some (.failed false true)
  | "fail11" => some (.failed true true)
  | _ => none

def showEntry (good : List Ver) (e : Entry) (raised : Bool) : String :=
  s!"cached={if isCached e then 1 else 0} load={showLoad (load e)} listed={showListing (listing e)} raised={if raised then 1 else 0} safe={if safeB good e then 1 else 0}"

def handle (parts : List String) : String :=
  let r : Option String := do
    let mp := kvs parts
    let ow ← match ← get mp "mode" with
      | "first" => some false | "over" => some true | _ => none
    let n1 ← (← get mp "n").toNat?
    let m1 ← (← get mp "m").toNat?
    if n1 = 0 || m1 = 0 then none
    let n := n1 - 1
    let m := m1 - 1
    let k ← (← get mp "k").toNat?
    let pre := preOf ow 0
    let good := goodOf ow 0 1
    match ← get mp "kind" with
    | "fault" =>
      let eff ← bit (← get mp "eff")
      let del ← parseDel (← get mp "del")
      let o := faultSave n m 1 pre k eff del
      pure (showEntry good o.entry o.raised)
    | "nocleanup" =>
      let eff ← bit (← get mp "eff")
      pure (showEntry good (faultSaveNoCleanup n m 1 pre k eff) true)
    | "crash" =>
      let lose ← bit (← get mp "lose")
      pure (showEntry good (crash n m 1 pre k (!lose)) false)
    | _ => none
  r.getD "bad-op"

end Lt.Save.Cmd
