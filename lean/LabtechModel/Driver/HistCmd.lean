import LabtechModel.Model.Store
/-!
`HIST ns=<0|1> ty=<type per tid> ca=<cache kind per type: n|p|o> deps=<d,d;d;…> fl=<0|1 per tid>
      np=<T:T',…> ops=<op/op/…>`
op: `R<bust>:<g>:<req,…>[:<fail,…>]` run_tasks (tasks in `fail` raise in this run) · `U:<tids>` uncache_tasks · `I:<tid>` is_cached · `C:<types>` cached_tasks.
Output: one segment per operation joined by ` | `; every segment ends with the key directories
present afterwards (`K=` tids, sorted).
-/
namespace Lt.Store.Cmd

def natList (s : String) : Option (List Nat) :=
  if s.isEmpty then some [] else (s.splitOn ",").mapM String.toNat?

def kvs (parts : List String) : List (String × String) :=
  parts.filterMap (fun w => match w.splitOn "=" with
    | [k, v] => some (k, v)
    | _ => none)

def get (m : List (String × String)) (k : String) : Option String :=
  (m.find? (·.1 == k)).map (·.2)

def sortNat (l : List Nat) : List Nat := (l.toArray.qsort (· < ·)).toList
def showList (l : List Nat) : String := ",".intercalate (l.map toString)

def parseKind : String → Option CacheKind
  | "n" => some .null | "p" => some .pickle | "o" => some .other | _ => none

def parseOp (s : String) : Option Op :=
  match s.splitOn ":" with
  | ["R0", g, req] => do pure (.run false (← g.toNat?) (← natList req) [])
  | ["R1", g, req] => do pure (.run true (← g.toNat?) (← natList req) [])
  | ["R0", g, req, fl] => do pure (.run false (← g.toNat?) (← natList req) (← natList fl))
  | ["R1", g, req, fl] => do pure (.run true (← g.toNat?) (← natList req) (← natList fl))
  | ["U", ts] => do pure (.uncache (← natList ts))
  | ["I", t] => do pure (.isCached (← t.toNat?))
  | ["C", ts] => do pure (.cachedTasks (← natList ts))
  | _ => none

def parsePairs (s : String) : Option (List (Nat × Nat)) :=
  if s.isEmpty then some [] else
  (s.splitOn ",").mapM (fun item => match item.splitOn ":" with
    | [a, b] => do pure ((← a.toNat?), (← b.toNat?))
    | _ => none)

def stdValue (t g : Nat) (vs : List Val) : Val := 1000 * t + g + vs.foldl (· + ·) 0

def showOut (U : Universe) (d : Disk) : Out → String
  | .ran ret execd loaded =>
    let r := ",".intercalate (ret.map (fun p => s!"{p.1}:{p.2}"))
    let l := ",".intercalate ((loaded.toArray.qsort (fun a b => a.1 < b.1)).toList.map
      (fun p => s!"{p.1}:{p.2.val}:{p.2.start}"))
    s!"ran ret={r} exec={showList (sortNat execd)} loaded={l}"
  | .unit => "unit"
  | .bool b => s!"bool {if b then 1 else 0}"
  | .tasks ts =>
    -- every listed task with the run stamp of the result_meta that cached_tasks attaches to it
    let items := (sortNat ts).map (fun t => match cachedTaskMeta U d t with
      | some (st, _) => s!"{t}:{st}"
      | none => s!"{t}:-")
    s!"tasks {",".intercalate items}"

def keysOf (U : Universe) (d : Disk) : String :=
  if U.nullStorage then "" else showList (sortNat (d.map (fun p => p.2.task)))

def runHist (U : Universe) : Disk → List Op → List String
  | _, [] => []
  | d, op :: ops =>
    let (d', o) := opC U d op
    s!"{showOut U d' o} K={keysOf U d'}" :: runHist U d' ops

def handle (parts : List String) : String :=
  let r : Option String := do
    let m := kvs parts
    let ns ← (← get m "ns").toNat?
    let ty ← natList (← get m "ty")
    let ca ← ((← get m "ca").splitOn ",").mapM parseKind
    let deps ← ((← get m "deps").splitOn ";").mapM natList
    let fl ← natList (← get m "fl")
    let np ← parsePairs (← get m "np")
    let opsS ← get m "ops"
    let ops ← (if opsS.isEmpty then some [] else (opsS.splitOn "/").mapM parseOp)
    if ns > 1 || deps.length != ty.length || fl.length != ty.length then none
    if ty.any (fun T => T ≥ ca.length) then none
    let U : Universe := {
      n := ty.length
      ty := fun t => ty.getD t 0
      cacheOf := fun T => ca.getD T .null
      deps := fun t => deps.getD t []
      fails := fun t => fl.getD t 0 == 1
      hash := fun t => t
      value := stdValue
      namePrefix := fun a b => a == b || np.contains (a, b)
      nullStorage := ns == 1 }
    pure (" | ".intercalate (runHist U [] ops))
  r.getD "bad-op"

end Lt.Store.Cmd
