/-! Hex transport of arbitrary strings over the line protocol (used by the `DIAG` and `LOG` commands). -/
namespace Lt.LdHex

def hexDigit (c : Char) : Option Nat :=
  if '0' ≤ c ∧ c ≤ '9' then some (c.toNat - '0'.toNat)
  else if 'a' ≤ c ∧ c ≤ 'f' then some (c.toNat - 'a'.toNat + 10)
  else none

def decodeBytes : List Char → Option (List UInt8)
  | [] => some []
  | [_] => none
  | a :: b :: rest => do
    let x ← hexDigit a
    let y ← hexDigit b
    let r ← decodeBytes rest
    pure (UInt8.ofNat (16 * x + y) :: r)

/-- hex of the UTF-8 bytes → string; `none` for bad hex or bad UTF-8 -/
def decode (s : String) : Option String := do
  let bs ← decodeBytes s.toList
  String.fromUTF8? (ByteArray.mk bs.toArray)

def digitChar (n : Nat) : Char :=
  if n < 10 then Char.ofNat ('0'.toNat + n) else Char.ofNat ('a'.toNat + n - 10)

def encode (s : String) : String :=
  String.ofList (s.toUTF8.toList.flatMap (fun b => [digitChar (b.toNat / 16), digitChar (b.toNat % 16)]))

end Lt.LdHex
