import LabtechModel.Model.ClassRes
import LabtechModel.Driver.LdHex
/-!
`CLSRES` - the class / enum-member resolution model (`Model/ClassRes.lean`).

* `CLSRES CLS <hex class string> <k> M1 … Mk` - `deserialize_class` in the world `M1 … Mk`;
  `CLSRES OLD …` - the rule before D26 (split at the last dot only).
  `Mi = <hex dotted module path>:<0|1 broken>:<hex dotted attribute path>,…` (`-` for no attributes).
  Output `ok <hex dotted module> <hex dotted qualname | ->` / `err ModuleNotFoundError` / `err AttributeError` /
  `err ValueError`; `unsupported` for a string whose first component is empty.
* `CLSRES NAME <enum> <value>` - `serialize_enum(enum_cls(value))['name']`: `ok <hex name>`, or `none` when the
  class has no such value.  `CLSRES MEMBER <enum> <hex name | - for the empty name>` - `deserialize_enum`: `ok <value>` / `err KeyError`.
  `<enum> = <E|F|K>:<hex member name>=<value>,…` (`E` plain Enum, `F` Flag with boundary STRICT, `K` Flag with
  boundary KEEP).
-/
namespace Lt.ClsresCmd
open Lt.ClassRes

def hexPath (h : String) : Option (List String) :=
  if h = "-" then some [] else (Lt.LdHex.decode h).map (splitStr '.')

def parseAttrs (s : String) : Option (List (List String)) :=
  if s = "-" then some [] else (s.splitOn ",").mapM hexPath

def parseMod (s : String) : Option (List String × Bool × List (List String)) :=
  match s.splitOn ":" with
  | [p, b, a] => do
    let p ← hexPath p
    let b ← if b = "1" then some true else if b = "0" then some false else none
    let a ← parseAttrs a
    pure (p, b, a)
  | _ => none

def parseWorld (k : String) (ms : List String) : Option World := do
  let n ← k.toNat?
  if n ≠ ms.length then none else
  let ms ← ms.mapM parseMod
  pure { modules := ms.map (fun m => m.1), broken := (ms.filter (fun m => m.2.1)).map (fun m => m.1),
         attrs := ms.map (fun m => (m.1, m.2.2)) }

def showPath (p : List String) : String := if p.isEmpty then "-" else Lt.LdHex.encode (joinStr '.' p)

def showRes : Except ResErr Obj → String
  | .ok (m, q) => "ok " ++ showPath m ++ " " ++ showPath q
  | .error .moduleNotFound => "err ModuleNotFoundError"
  | .error .attributeError => "err AttributeError"
  | .error .valueError => "err ValueError"

def parseMember (s : String) : Option (String × Nat) :=
  match s.splitOn "=" with
  | [n, v] => do
    let n ← Lt.LdHex.decode n
    let v ← v.toNat?
    pure (n, v)
  | _ => none

def parseEnum (s : String) : Option EnumCls :=
  match s.splitOn ":" with
  | [k, ms] => do
    let ms ← if ms = "" then some [] else (ms.splitOn ",").mapM parseMember
    if k = "E" then some ⟨ms, false, false⟩
    else if k = "F" then some ⟨ms, true, false⟩
    else if k = "K" then some ⟨ms, true, true⟩
    else none
  | _ => none

def handle : List String → String
  | op :: hs :: k :: ms =>
    if op = "CLS" ∨ op = "OLD" then
      match Lt.LdHex.decode hs, parseWorld k ms with
      | some s, some w =>
        if (splitStr '.' s).head? = some "" then "unsupported"
        else showRes (if op = "CLS" then resolve w s else resolveOld w s)
      | _, _ => "bad-op"
    else if op = "NAME" ∧ ms = [] then
      match parseEnum hs, k.toNat? with
      | some e, some v =>
        match memberName e v with
        | some n => "ok " ++ Lt.LdHex.encode n
        | none => "none"
      | _, _ => "bad-op"
    else if op = "MEMBER" ∧ ms = [] then
      match parseEnum hs, (if k = "-" then some "" else Lt.LdHex.decode k) with
      | some e, some n =>
        match enumMember e n with
        | .ok v => "ok " ++ toString v
        | .error _ => "err KeyError"
      | _, _ => "bad-op"
    else "bad-op"
  | _ => "bad-op"

end Lt.ClsresCmd
