import LabtechModel.Model.Intr
import LabtechModel.Driver.RunCmd
/-!
`INTR <case as for RUN> k=<n>|all [k2=<m>|all] [dsched=<masks>]`

Prints, on one line, `|`-separated records
`<k>[/<k2>]:<outcome>:<executed>:<store keys>:<started after interrupt>:<alive at exit>:<terminated>`
(all tid lists sorted, `,`-separated) preceded by `n=<length of the main stream>|`.
`outcome` ∈ `interrupted`, `returned`, `waiting`, `raised-KeyError`, `raised-LabError-<t>`.
`k=all`: every k in `0..n` (k = n is the uninterrupted run); `k2=all`: for every k < n the single
interrupt record and one record per second-interrupt index `m` in the handler's stream.
`dsched` (drain schedule, same mask encoding as `sched`) defaults to "everything reports" rounds.
-/
namespace Lt.IntrCmd
open Lt.Cmd

def showIOutcome : IOutcome → String
  | .interrupted => "interrupted"
  | .returned => "returned"
  | .waiting => "waiting"
  | .raised .keyError => "raised-KeyError"
  | .raised (.labError t) => s!"raised-LabError-{t}"

def evExec : Ev → Option Tid
  | .exec t _ => some t
  | _ => none

def evStart : Ev → Option Tid
  | .start t => some t
  | _ => none

def canon (l : List Nat) : String := showList (sortNat (dedup l))

def record (label : String) (r : IResult) : String :=
  let tr := r.final.rs.trace
  let after := if r.hit then tr.drop r.atIntr.rs.trace.length else []
  ":".intercalate [label, showIOutcome r.outcome, canon (tr.filterMap evExec),
    canon (r.final.rs.store.map (·.1)), canon (after.filterMap evStart),
    canon r.final.alive, canon r.final.terminated]

def handle (parts : List String) : String :=
  match parseCase parts with
  | none => "bad-op"
  | some c =>
    let m := kvs parts
    let fuel := c.nTids + c.nInst + 1
    let mk := fun (l : List Nat) => l.map (fun m => ({ finish := fun i => m / (2 ^ i) % 2 == 1 } : Choice))
    let dsched? : Option (List Choice) := match get m "dsched" with
      | some s => (natList s).map mk
      | none => some (List.replicate (c.nTids + 2) ⟨fun _ => true⟩)
    match dsched?, get m "k" with
    | some dsched, some ks =>
      let req := reqTids c.p
      let s0 := initIS c.cfg c.p c.store fuel
      let main := mainStream c.cfg c.p req c.sched s0
      let n := main.length
      let one := fun (k : Nat) (k2 : Option Nat) (label : String) =>
        record label (interruptedRun c.cfg c.p c.store fuel c.sched k dsched k2)
      let hlen := fun (k : Nat) =>
        (handlerPrims c.cfg c.p req dsched (runPrims c.cfg c.p (main.take k) s0)).length
      let ks? : Option (List Nat) := if ks == "all" then some (List.range (n + 1)) else ks.toNat?.map ([·])
      match ks?, get m "k2" with
      | none, _ => "bad-op"
      | some kl, none => "|".intercalate (s!"n={n}" :: kl.map (fun k => one k none (toString k)))
      | some kl, some k2s =>
        if k2s == "all" then
          "|".intercalate (s!"n={n}" :: (kl.map (fun k =>
            one k none (toString k) ::
              (if k < n then (List.range (hlen k)).map (fun j => one k (some j) s!"{k}/{j}") else []))).flatten)
        else match k2s.toNat? with
          | some j => "|".intercalate (s!"n={n}" :: kl.map (fun k => one k (some j) s!"{k}/{j}"))
          | none => "bad-op"
    | _, _ => "bad-op"

end Lt.IntrCmd
