/-!
# `labtech.utils.OrderedSet` — executable model (import-free)

```python
class OrderedSet:
    def __init__(self, items=None):
        self.values = {}                      # dict: key object -> value object
        if items is not None:
            for item in items: self.add(item)
    def add(self, item):      self.values[item] = item
    def remove(self, item):   del self.values[item]           # KeyError when absent
    def __contains__(self, item): return item in self.values
    def __iter__(self):       return iter(self.values)        # the KEYS, in insertion order
    def __add__(self, other):
        combined = OrderedSet()
        combined.values.update(self.values)
        combined.values.update(other.values)
        return combined
    def __len__(self):        return len(self.values)
```

An element is a Python object. Two distinct objects may be `==` and hash-equal (`1`, `True`, `1.0`; two equal
task objects): `cls` is the equality class (what a dict compares), `ident` the identity of the object.
A Python dict is an insertion-ordered list of (key object, value object); `d[k] = v` on a key whose class is
already present keeps the OLD key object and its position and replaces only the stored value; on a new class
it appends `(k, v)`. `del d[k]` of an absent class raises `KeyError` (`none`), otherwise it drops the entry (a
later insertion of that class goes to the end). Iteration yields the key objects.
-/
namespace Lt

namespace OSet
structure Elem where
  cls : Nat
  ident : Nat
deriving DecidableEq, Repr
end OSet

/-- `OrderedSet`: the dict `self.values` as an insertion-ordered list of (key object, stored value object) -/
structure OSet where
  entries : List (OSet.Elem × OSet.Elem) := []
deriving DecidableEq, Repr

namespace OSet

/-- is an object of equality class `c` among the key objects `ks` -/
def hasCls (c : Nat) (ks : List Elem) : Bool := ks.any (fun k => k.cls == c)

/-- `d[k] = v` on the entry list of a dict -/
def dset (k v : Elem) : List (Elem × Elem) → List (Elem × Elem)
  | [] => [(k, v)]
  | (k', v') :: rest => if k'.cls = k.cls then (k', v) :: rest else (k', v') :: dset k v rest

/-- `d.update(other)`: `d[k] = v` for every entry of `other`, in its order -/
def dupdate (d other : List (Elem × Elem)) : List (Elem × Elem) :=
  other.foldl (fun acc kv => dset kv.1 kv.2 acc) d

def empty : OSet := {}

/-- `__iter__`: the key objects in insertion order -/
def toList (s : OSet) : List Elem := s.entries.map Prod.fst

/-- the stored value objects (not observable through the public interface) -/
def stored (s : OSet) : List Elem := s.entries.map Prod.snd

/-- `item in s` -/
def mem (s : OSet) (e : Elem) : Bool := hasCls e.cls s.toList

/-- `len(s)` -/
def len (s : OSet) : Nat := s.entries.length

/-- `s.add(item)` -/
def add (s : OSet) (e : Elem) : OSet := ⟨dset e e s.entries⟩

/-- `s.remove(item)`; `none` = `KeyError` (the set is unchanged then) -/
def remove (s : OSet) (e : Elem) : Option OSet :=
  if s.mem e then some ⟨s.entries.filter (fun kv => kv.1.cls ≠ e.cls)⟩ else none

/-- `OrderedSet(items)` -/
def ofList (items : List Elem) : OSet := items.foldl add empty

/-- `a + b` -/
def plus (a b : OSet) : OSet := ⟨dupdate (dupdate [] a.entries) b.entries⟩

instance : Add OSet := ⟨plus⟩

end OSet
end Lt
