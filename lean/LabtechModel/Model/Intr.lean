import LabtechModel.Model.Run
/-!
# M10: the coordinator loop at statement granularity, and interrupts

`Model/Run.lean` describes one iteration of `TaskCoordinator.run`'s main loop as ONE step. A
`KeyboardInterrupt` can land between any two Python statements of the calling thread, so this file
re-expresses the same iteration as a list of *primitives* (`Prim`), one per statement that changes
modelled state, and `Proofs/IntrRefine.lean` proves that executing the whole list is the iteration
of `Run.lean` (`prims_refine_iteration`). An interrupt at instant `k` is "execute only the first
`k` primitives of the main loop's stream, then the handler's stream"; a second interrupt is a
second index into the handler's stream.

State: `IS` = `RS` plus
* `alive`      worker processes that exist (started, not reported / dead / terminated),
* `cancelled`  futures on which `Future.cancel()` was called,
* `terminated` processes killed by `ProcessExecutor.stop`,
* `done`       futures holding an outcome (`set_result`/`set_exception` done) that have not been
               popped from `future_to_task` yet,
* `zombies`    entries of the running map whose process was found dead (reported nothing) and
               whose future the dead-process loop has not marked yet,
* `cur`,`curOut` serial runner: the submission popped from the deque and the outcome `run()` gave.
  The serial save is two primitives (`serialSaveBegin` / `serialSaveEnd`): an interrupt inside
  `BaseCache.save` runs its cleanup, which deletes the key, including an older entry.

Every primitive is a no-op once `status ≠ running` (an exception is propagating). A `remove` on a
set that does not hold the element sets `status := raised keyError` (Python's `KeyError`).

Not separate interrupt points (equivalent to a neighbouring point for everything observed here):
the two statements of `TaskState.start_task`; statements that change no modelled state (logging,
progress bars, monitor). An interrupt before the guarded region (planning) or inside `finally`
changes no modelled state: `interrupt_before_loop` / `interrupt_in_finally` are trivial here.
-/
namespace Lt

structure IS where
  rs : RS
  alive : List Tid := []
  cancelled : List Tid := []
  terminated : List Tid := []
  done : List (Tid × Outcome) := []
  zombies : List Tid := []
  cur : Option Job := none
  curOut : Option Outcome := none

inductive Prim
  /-- `state.start_task(task)` -/
  | startTask (t : Tid)
  /-- `executor.submit`: `_pending_future_to_thunk[future] = thunk` -/
  | enqueue (t : Tid)
  /-- `_start_processes`: `process.start()` -/
  | procStart (t : Tid)
  /-- `_start_processes`: `_running_id_to_future_and_process[future.id] = (future, process)` -/
  | regRunning (t : Tid)
  /-- `_start_processes`: `del _pending_future_to_thunk[future]` -/
  | unregPending (t : Tid)
  /-- `ProcessRunner.submit_task`: `future_to_task[future] = task` -/
  | regFuture (t : Tid)
  /-- `SerialRunner.submit_task`: `task_submissions.append(...)` -/
  | serialAppend (t : Tid)
  /-- `_consume_result_queue`'s helper thread (atomic): every selected worker that reports is
      dropped from the running map, its outcome stored on its future; it saved before reporting -/
  | consumeResults (c : Choice)
  /-- one round of the dead-process loop: `future.set_exception(TaskDiedError())`, drop the entry -/
  | markDead (t : Tid)
  /-- `future_to_task.pop(future)`; `o = none`: the future was cancelled (nothing is yielded) -/
  | popFuture (t : Tid) (o : Option Outcome)
  /-- `results_map[task] = task_result` -/
  | storeResult (t : Tid) (v : Val)
  /-- `task_results[task] = ...` -/
  | capture (t : Tid) (v : Val)
  /-- `complete_task`: `_set_result_meta` on every instance -/
  | markInstances (t : Tid)
  /-- `complete_task`: `type_to_active_tasks[type(task)].remove(task)` -/
  | removeActive (t : Tid)
  /-- `complete_task`: `task_to_pending_dependencies[d].remove(task)` -/
  | unblockOne (t d : Tid)
  /-- `complete_task`: `task_to_pending_dependents[d].remove(task)` -/
  | releaseOne (t d : Tid)
  /-- `remove_results`: `del results_map[d]` (skipped when absent) -/
  | removeResult (d : Tid)
  /-- end of `remove_results` (only the observation record) -/
  | removeDone (rem : List Tid)
  /-- `handle_failure` without `continue_on_failure` -/
  | raiseLabError (t : Tid)
  /-- serial `wait`: `task_submissions.popleft()` -/
  | popDeque
  /-- serial `wait`: `run()` (or the load) in the caller -/
  | serialRun
  /-- serial `wait`: `BaseCache.save` begins (only for a job that saves: cacheable type, not
      loaded from the cache, `run()` succeeded). From here on the entry of that key is ABSENT: an
      interrupt (or any error) inside `save` runs its cleanup `storage.delete(key)`, which also
      destroys an entry that was there before (re-execution of a cached key, `bust_cache`) -/
  | serialSaveBegin
  /-- serial `wait`: `BaseCache.save` completed, the new entry is written -/
  | serialSaveEnd
  /-- `ProcessExecutor.cancel`, one pending future: `future.cancel(); del pending[future]` -/
  | cancelOne (t : Tid)
  /-- `SerialRunner.cancel`: `task_submissions.clear()` -/
  | clearDeque
  /-- `ProcessExecutor.stop`, one running process: terminate, cancel, drop -/
  | stopOne (t : Tid)

def hasTid (t : Tid) (j : Job) : Bool := j.tid == t

/-- the job `Runner.submit_task` builds (same as in `Lt.submitTask`) -/
def mkJob (cfg : Config) (p : Problem) (rs : RS) (t : Tid) : Job :=
  { tid := t, useCache := useCache cfg p rs.store t,
    snap := if cfg.backend = .spawn
            then some (rs.results.filter (fun kv => kv.1 ∈ rs.ts.ddeps t))
            else none }

def forkSnap (cfg : Config) (res : List (Tid × Val)) (j : Job) : Job :=
  if cfg.backend = .fork then { j with snap := some res } else j

def finOf (c : Choice) (running : List Job) : List Job :=
  ((enumFrom 0 running).filter (fun ij => c.finish ij.1)).map (·.2)

def stayOf (c : Choice) (running : List Job) : List Job :=
  ((enumFrom 0 running).filter (fun ij => !c.finish ij.1)).map (·.2)

/-- the store while a save of `j`'s outcome is in progress: the key's entry is gone -/
def saveBegin (p : Problem) (store : Store) (j : Job) (o : Outcome) : Store :=
  match o with
  | .ok _ => if p.cacheable (p.ty j.tid) && !j.useCache
             then store.filter (fun kv => kv.1 ≠ j.tid) else store
  | _ => store

def keyErr (s : IS) : IS := { s with rs := { s.rs with status := .raised .keyError } }

/-- the effect of one primitive on a state whose status is `running` -/
def stepPrim (cfg : Config) (p : Problem) (q : Prim) (s : IS) : IS :=
  let rs := s.rs
  match q with
  | .startTask t =>
    match startTask rs.ts t with
    | none => keyErr s
    | some ts' => { s with rs := { rs with ts := ts' } }
  | .enqueue t =>
    let j := mkJob cfg p rs t
    { s with rs := { rs with queued := rs.queued ++ [j], trace := rs.trace ++ [Ev.submit t j.useCache] } }
  | .procStart t =>
    { s with alive := s.alive ++ [t], rs := { rs with trace := rs.trace ++ [Ev.start t] } }
  | .regRunning t =>
    match rs.queued.find? (hasTid t) with
    | some j => { s with rs := { rs with running := rs.running ++ [forkSnap cfg rs.results j] } }
    | none => s
  | .unregPending t => { s with rs := { rs with queued := rs.queued.eraseP (hasTid t) } }
  | .regFuture t => { s with rs := { rs with futs := rs.futs ++ [t] } }
  | .serialAppend t =>
    let j := mkJob cfg p rs t
    { s with rs := { rs with queued := rs.queued ++ [j], futs := rs.futs ++ [t],
                             trace := rs.trace ++ [Ev.submit t j.useCache] } }
  | .consumeResults c =>
    let fin := finOf c rs.running
    let rep := fin.filter (fun j => !p.dies j.tid)
    let died := fin.filter (fun j => p.dies j.tid)
    let newDone := (rep.filter (fun j => j.tid ∉ s.cancelled)).map
      (fun j => (j.tid, jobOutcome p rs.ts rs.store j))
    { s with
      alive := s.alive.filter (fun t => t ∉ fin.map Job.tid)
      done := s.done ++ newDone
      zombies := s.zombies ++ died.map Job.tid
      rs := { rs with running := stayOf c rs.running, store := saveAll p rs.ts fin rs.store,
                      trace := rs.trace ++ [Ev.waitEnter (rs.queued.map Job.tid) (rs.running.map Job.tid)]
                                 ++ (fin.map (jobEvents p rs.ts)).flatten } }
  | .markDead t =>
    if t ∈ s.zombies then
      { s with zombies := s.zombies.erase t,
               done := if t ∈ s.cancelled then s.done else s.done ++ [(t, .died)] }
    else s
  | .popFuture t o =>
    if t ∈ rs.futs then
      { s with done := s.done.filter (fun x => x.1 ≠ t),
               rs := { rs with futs := rs.futs.filter (· ≠ t),
                               trace := match o with
                                 | some o => rs.trace ++ [Ev.yield t o]
                                 | none => rs.trace } }
    else keyErr s
  | .storeResult t v =>
    { s with rs := { rs with results := (t, v) :: rs.results.filter (fun kv => kv.1 ≠ t) } }
  | .capture t v =>
    { s with rs := { rs with taskResults := (t, v) :: rs.taskResults.filter (fun kv => kv.1 ≠ t) } }
  | .markInstances t => { s with rs := { rs with marked := rs.marked ++ rs.ts.instances t } }
  | .removeActive t =>
    match setRemove rs.ts.active t with
    | none => keyErr s
    | some a => { s with rs := { rs with ts := { rs.ts with active := a } } }
  | .unblockOne t d =>
    match setRemove (rs.ts.pendDeps d) t with
    | none => keyErr s
    | some l => { s with rs := { rs with ts := { rs.ts with pendDeps := upd rs.ts.pendDeps d l } } }
  | .releaseOne t d =>
    match setRemove (rs.ts.pendDependents d) t with
    | none => keyErr s
    | some l => { s with rs := { rs with ts := { rs.ts with pendDependents := upd rs.ts.pendDependents d l } } }
  | .removeResult d => { s with rs := { rs with results := rs.results.filter (fun kv => kv.1 ≠ d) } }
  | .removeDone rem =>
    { s with rs := { rs with trace := rs.trace ++ [Ev.remove rem (rs.results.map (·.1))] } }
  | .raiseLabError t => { s with rs := { rs with status := .raised (.labError t) } }
  | .popDeque =>
    let tr := rs.trace ++ [Ev.waitEnter (rs.queued.map Job.tid) []]
    match rs.queued with
    | [] => { s with rs := { rs with trace := tr } }
    | j :: rest =>
      { s with cur := some { j with snap := some rs.results }, curOut := none,
               rs := { rs with queued := rest, trace := tr } }
  | .serialRun =>
    match s.cur with
    | some j =>
      { s with curOut := some (runOutcome p rs.ts rs.store j),
               rs := { rs with trace := rs.trace ++ [Ev.start j.tid] ++ runEvents p rs.ts j } }
    | none => s
  | .serialSaveBegin =>
    match s.cur, s.curOut with
    | some j, some o => { s with rs := { rs with store := saveBegin p rs.store j o } }
    | _, _ => s
  | .serialSaveEnd =>
    match s.cur, s.curOut with
    | some j, some o => { s with rs := { rs with store := saveIfRan p rs.store j o } }
    | _, _ => s
  | .cancelOne t =>
    { s with cancelled := s.cancelled ++ [t], rs := { rs with queued := rs.queued.eraseP (hasTid t) } }
  | .clearDeque => { s with rs := { rs with queued := [], futs := [] } }
  | .stopOne t =>
    { s with terminated := if rs.running.any (hasTid t) then s.terminated ++ [t] else s.terminated,
             cancelled := s.cancelled ++ [t],
             alive := if rs.running.any (hasTid t) then s.alive.filter (· ≠ t) else s.alive,
             zombies := s.zombies.filter (· ≠ t),
             rs := { rs with running := rs.running.eraseP (hasTid t) } }

def applyPrim (cfg : Config) (p : Problem) (q : Prim) (s : IS) : IS :=
  match s.rs.status with
  | .running => stepPrim cfg p q s
  | _ => s

def runPrims (cfg : Config) (p : Problem) (ps : List Prim) (s : IS) : IS :=
  ps.foldl (fun s q => applyPrim cfg p q s) s

/-! ## the primitive streams of the program -/

def startPrims (js : List Job) : List Prim :=
  js.flatMap (fun j => [Prim.procStart j.tid, Prim.regRunning j.tid, Prim.unregPending j.tid])

/-- `_start_processes` from state `s` -/
def startProcessesPrims (cfg : Config) (s : IS) : List Prim :=
  startPrims (takeN (cfg.maxWorkers - (s.rs.running.length + s.zombies.length)) s.rs.queued).1

/-- `start_task` + `runner.submit_task` for one ready task -/
def submitOnePrims (cfg : Config) (p : Problem) (s : IS) (t : Tid) : List Prim :=
  if cfg.backend = .serial then [.startTask t, .serialAppend t]
  else
    let a := [Prim.startTask t, Prim.enqueue t]
    a ++ startProcessesPrims cfg (runPrims cfg p a s) ++ [.regFuture t]

def submitPrims (cfg : Config) (p : Problem) : List Tid → IS → List Prim
  | [], _ => []
  | t :: ts, s =>
    let ps := submitOnePrims cfg p s t
    ps ++ submitPrims cfg p ts (runPrims cfg p ps s)

/-- `complete_task` without the `_set_result_meta` loop -/
def completePrims (ts : TS) (t : Tid) : List Prim :=
  [Prim.removeActive t] ++ (ts.pendDependents t).map (Prim.unblockOne t)
    ++ (ts.ddeps t).map (Prim.releaseOne t)

/-- `tasks_with_removable_results` that `complete_task` returns from `s` -/
def remOf (ts : TS) (t : Tid) : List Tid :=
  match completeTask ts t with
  | some (_, rem) => rem
  | none => []

def removePrims (rem : List Tid) : List Prim := rem.map Prim.removeResult ++ [Prim.removeDone rem]

/-- the body of `process_completed_tasks`' loop for a yielded `(task, res)` (after the pop) -/
def yieldPrims (cfg : Config) (req : List Tid) (s : TS) (t : Tid) (o : Outcome) : List Prim :=
  match o with
  | .ok v =>
    [Prim.storeResult t v] ++ (if t ∈ req then [Prim.capture t v] else []) ++ [Prim.markInstances t]
      ++ completePrims s t ++ removePrims (remOf s t)
  | _ =>
    completePrims s t ++ (if cfg.contOnFail then removePrims (remOf s t) else [Prim.raiseLabError t])

/-- one done future -/
def doneOnePrims (cfg : Config) (req : List Tid) (s : IS) (t : Tid) : List Prim :=
  if t ∈ s.cancelled then [Prim.popFuture t none]
  else match s.done.find? (fun x => x.1 = t) with
    | some (_, o) => Prim.popFuture t (some o) :: yieldPrims cfg req s.rs.ts t o
    | none => []

/-- `for future in done:` of `ProcessRunner.wait` with the consumer's loop body; `cands` is the
    snapshot `list(future_to_task.keys())` -/
def donePrims (cfg : Config) (p : Problem) (req : List Tid) : List Tid → IS → List Prim
  | [], _ => []
  | t :: rest, s =>
    match s.rs.status with
    | .running =>
      let ps := doneOnePrims cfg req s t
      ps ++ donePrims cfg p req rest (runPrims cfg p ps s)
    | _ => []

/-- the dead-process loop, from the state after the result queue was consumed -/
def deadPrims (s : IS) : List Prim := s.zombies.map Prim.markDead

/-- one `process_completed_tasks()` call (`runner.wait` + the processing loop) -/
def waitPrims (cfg : Config) (p : Problem) (req : List Tid) (c : Choice) (s : IS) : List Prim :=
  if cfg.backend = .serial then
    match s.rs.queued with
    | [] => [.popDeque]
    | j :: _ =>
      let a := [Prim.popDeque, Prim.serialRun, Prim.serialSaveBegin, Prim.serialSaveEnd]
      let o := runOutcome p s.rs.ts s.rs.store { j with snap := some s.rs.results }
      let b := a ++ [Prim.popFuture j.tid (some o)]
      b ++ yieldPrims cfg req s.rs.ts j.tid o
  else
    let s0 := runPrims cfg p [Prim.consumeResults c] s
    let a := deadPrims s0
    let s1 := runPrims cfg p a s0
    let b := startProcessesPrims cfg s1
    let s2 := runPrims cfg p b s1
    Prim.consumeResults c :: a ++ b ++ donePrims cfg p req s2.rs.futs s2

abbrev drainIterationPrims := @waitPrims

/-- the primitives of one main-loop iteration from `s` under choice `c`, in program order -/
def iterationPrims (cfg : Config) (p : Problem) (req : List Tid) (c : Choice) (s : IS) : List Prim :=
  let a := submitPrims cfg p (readyTasks p s.rs.ts) s
  let s1 := runPrims cfg p a s
  match s1.rs.status with
  | .running => a ++ waitPrims cfg p req c s1
  | _ => a

/-- the main loop's primitive stream -/
def mainStream (cfg : Config) (p : Problem) (req : List Tid) : List Choice → IS → List Prim
  | [], _ => []
  | c :: cs, s =>
    match s.rs.status with
    | .running =>
      if loopCond s.rs then
        let ps := iterationPrims cfg p req c s
        ps ++ mainStream cfg p req cs (runPrims cfg p ps s)
      else []
    | _ => []

/-- `runner.cancel()` -/
def cancelPrims (cfg : Config) (s : IS) : List Prim :=
  if cfg.backend = .serial then [.clearDeque] else s.rs.queued.map (fun j => Prim.cancelOne j.tid)

/-- `while runner.pending_task_count() > 0: process_completed_tasks()` -/
def drainPrims (cfg : Config) (p : Problem) (req : List Tid) : List Choice → IS → List Prim
  | [], _ => []
  | c :: cs, s =>
    match s.rs.status with
    | .running =>
      if s.rs.futs.isEmpty then []
      else
        let ps := waitPrims cfg p req c s
        ps ++ drainPrims cfg p req cs (runPrims cfg p ps s)
    | _ => []

/-- the first handler: cancel, then drain -/
def handlerPrims (cfg : Config) (p : Problem) (req : List Tid) (drainSched : List Choice) (s : IS) : List Prim :=
  let a := cancelPrims cfg s
  a ++ drainPrims cfg p req drainSched (runPrims cfg p a s)

/-- `runner.stop()` -/
def stopPrims (cfg : Config) (s : IS) : List Prim :=
  if cfg.backend = .serial then []
  else s.rs.running.map (fun j => Prim.stopOne j.tid) ++ s.zombies.map Prim.stopOne

def noWait : Choice := ⟨fun _ => false⟩

/-- the second handler: `cancel()` again (the first one may not have been reached or completed),
    `stop()`, then one last `process_completed_tasks()` -/
def secondPrims (cfg : Config) (p : Problem) (req : List Tid) (s : IS) : List Prim :=
  let a0 := cancelPrims cfg s
  let s0 := runPrims cfg p a0 s
  let a := stopPrims cfg s0
  a0 ++ a ++ waitPrims cfg p req noWait (runPrims cfg p a s0)

inductive IOutcome
  | interrupted
  | returned
  | raised (e : Err)
  /-- the given (drain) schedule ended while the loop was still waiting -/
  | waiting
  deriving DecidableEq, Repr

structure IResult where
  final : IS
  outcome : IOutcome
  /-- state at the (first) interrupt -/
  atIntr : IS
  /-- was the run interrupted at all (`k` inside the stream) -/
  hit : Bool

def initIS (cfg : Config) (p : Problem) (store : Store) (fuel : Nat) : IS := { rs := initRS cfg p store fuel }

/-- outcome of a run that the handler left by `raise` -/
def handlerOutcome (s : IS) (drained : Bool) : IOutcome :=
  match s.rs.status with
  | .raised e => .raised e
  | _ => if drained then .interrupted else .waiting

/-- Interrupt the run at instant `k` (= after exactly `k` primitives of the main loop's stream;
    `k ≥` its length: the run completed, nothing was interrupted). `k2 = none`: the first handler
    (`cancel`, drain along `drainSched`) runs to its end. `k2 = some m`, `m <` length of the first
    handler's stream: a second interrupt after `m` of its primitives (`m = 0`: before the first
    `cancel` step — the handler logs inside its inner `try`), then `secondPrims`. `m ≥` that length:
    the handler had already finished; same as `none`. -/
def interruptedRun (cfg : Config) (p : Problem) (store : Store) (fuel : Nat) (sched : List Choice)
    (k : Nat) (drainSched : List Choice) (k2 : Option Nat) : IResult :=
  let req := reqTids p
  let s0 := initIS cfg p store fuel
  let main := mainStream cfg p req sched s0
  if k < main.length then
    let sk := runPrims cfg p (main.take k) s0
    let h := handlerPrims cfg p req drainSched sk
    match k2 with
    | some m =>
      if m < h.length then
        let s1 := runPrims cfg p (h.take m) sk
        let s2 := runPrims cfg p (secondPrims cfg p req s1) s1
        { final := s2, outcome := handlerOutcome s2 true, atIntr := sk, hit := true }
      else
        let s1 := runPrims cfg p h sk
        { final := s1, outcome := handlerOutcome s1 s1.rs.futs.isEmpty, atIntr := sk, hit := true }
    | none =>
      let s1 := runPrims cfg p h sk
      { final := s1, outcome := handlerOutcome s1 s1.rs.futs.isEmpty, atIntr := sk, hit := true }
  else
    let s1 := runPrims cfg p main s0
    { final := s1, atIntr := s1, hit := false,
      outcome := match s1.rs.status with
        | .raised e => .raised e
        | _ => if loopCond s1.rs then .waiting else .returned }

end Lt
