/-!
# M7 Save — one `BaseCache.save` at the granularity of storage micro-steps

Hand-written executable model of `labtech/cache.py: BaseCache.save` (+ `PickleCache.save_result`)
over `labtech/storage.py: LocalStorage.file_handle / delete / exists`.

One save is the program

    pc 0              serialise           (build the metadata dict; *outside* the `try`)
    pc 1              validate            (file_handle(metadata,'w'): `_key_to_path`)
    pc 2              mkdir               (`key_path.mkdir()`, FileExistsError ignored)
    pc 3              openMeta            (`open('w')`: create / truncate `metadata.json`)
    pc 4 … 4+n        writeMeta           (n+1 `write` calls of `json.dump`; there is always ≥ 1)
    pc 5+n            closeMeta           (`with` exit: flush + close)
    pc 6+n            validate2           (file_handle(data,'wb'))
    pc 7+n            mkdir2              (directory exists: no effect)
    pc 8+n            openData            (create / truncate the result file)
    pc 9+n … 9+n+m    writeData           (m+1 `write` calls of `pickle.dump`, frames)
    pc 10+n+m         closeData
    (pc 11+n+m        the save returns)

over the state of one key entry on disk.  A document is identified by the *version* (`Ver`) of the
save that wrote it, so "metadata of the new save next to the result of the old one" is visible.

* **crash** at `k`: the first `k` micro-steps were executed and nothing else ever runs; the file
  that is open at that moment holds all performed writes only if they are `durable` (flushed),
  otherwise some strict prefix (`partial`).
* **fault** at `k`: micro-step `k` raises (with or without having had its effect), the `with`
  block closes the open file, then the handler of `save` runs `storage.delete(key)` and re-raises
  (`Del.failed` models a *second* failure inside that delete).  A fault at `k = 0` (serialising)
  is outside the `try`: no cleanup.

No imports: compiled into the native driver (`SAVE` command).
-/
namespace Lt.Save

/-- identifies the save that produced a document (e.g. 0 = the earlier save, 1 = the one under study) -/
abbrev Ver := Nat

inductive File
  | absent
  | torn               -- exists; content is not a complete document (empty or a strict prefix)
  | full (v : Ver)     -- the complete document written by save `v`
  deriving DecidableEq, Repr

inductive Entry
  | absent                        -- no key directory
  | dir (mdoc : File) (data : File)   -- key directory with `metadata.json` and the result file
  deriving DecidableEq, Repr

inductive Step
  | serialise | validate | mkdir | openMeta | writeMeta | closeMeta
  | validate2 | mkdir2 | openData | writeData | closeData
  deriving DecidableEq, Repr

/-- the micro-step at program counter `pc` of a save with `n+1` metadata writes and `m+1` data writes -/
def stepAt (n m pc : Nat) : Option Step :=
  if pc = 0 then some .serialise
  else if pc = 1 then some .validate
  else if pc = 2 then some .mkdir
  else if pc = 3 then some .openMeta
  else if pc ≤ 4 + n then some .writeMeta
  else if pc = 5 + n then some .closeMeta
  else if pc = 6 + n then some .validate2
  else if pc = 7 + n then some .mkdir2
  else if pc = 8 + n then some .openData
  else if pc ≤ 9 + n + m then some .writeData
  else if pc = 10 + n + m then some .closeData
  else none

/-- number of micro-steps of one save -/
def total (n m : Nat) : Nat := 11 + n + m

/-- the file the saving process has open, with the number of `write` calls performed on it -/
inductive Opened
  | none
  | mdoc (w : Nat)
  | data (w : Nat)
  deriving DecidableEq, Repr

structure St where
  /-- the entry on disk; a file that is open for writing shows as `partial` -/
  disk : Entry
  opened : Opened
  deriving DecidableEq, Repr

def mkdirE : Entry → Entry
  | .absent => .dir .absent .absent
  | e => e

def setMeta : Entry → File → Entry
  | .absent, _ => .absent
  | .dir _ d, f => .dir f d

def setData : Entry → File → Entry
  | .absent, _ => .absent
  | .dir md _, f => .dir md f

/-- effect of one micro-step of save `v` -/
def apply (n m : Nat) (v : Ver) (s : St) : Step → St
  | .serialise => s
  | .validate => s
  | .validate2 => s
  | .mkdir => { s with disk := mkdirE s.disk }
  | .mkdir2 => { s with disk := mkdirE s.disk }
  | .openMeta => { disk := setMeta s.disk .torn, opened := .mdoc 0 }
  | .writeMeta => match s.opened with
      | .mdoc w => { s with opened := .mdoc (w + 1) }
      | _ => s
  | .closeMeta => match s.opened with
      | .mdoc w => { disk := setMeta s.disk (if w = n + 1 then .full v else .torn), opened := .none }
      | _ => s
  | .openData => { disk := setData s.disk .torn, opened := .data 0 }
  | .writeData => match s.opened with
      | .data w => { s with opened := .data (w + 1) }
      | _ => s
  | .closeData => match s.opened with
      | .data w => { disk := setData s.disk (if w = m + 1 then .full v else .torn), opened := .none }
      | _ => s

/-- state after the first `k` micro-steps of save `v` started on entry `pre` -/
def exec (n m : Nat) (v : Ver) (pre : Entry) : Nat → St
  | 0 => { disk := pre, opened := .none }
  | k + 1 => match stepAt n m k with
    | some st => apply n m v (exec n m v pre k) st
    | none => exec n m v pre k

/-- what is on disk when the process dies in state `s`: an open file holds the complete document
    only if every write was performed and reached the disk -/
def crashView (n m : Nat) (v : Ver) (durable : Bool) (s : St) : Entry :=
  match s.opened with
  | .none => s.disk
  | .mdoc w => if durable && w == n + 1 then setMeta s.disk (.full v) else s.disk
  | .data w => if durable && w == m + 1 then setData s.disk (.full v) else s.disk

/-- **crash** after `k` micro-steps -/
def crash (n m : Nat) (v : Ver) (pre : Entry) (k : Nat) (durable : Bool) : Entry :=
  crashView n m v durable (exec n m v pre k)

/-- the `with` block closes the open file when an exception passes through it -/
def closeOnError (n m : Nat) (v : Ver) (s : St) : St :=
  match s.opened with
  | .none => s
  | .mdoc _ => apply n m v s .closeMeta
  | .data _ => apply n m v s .closeData

/-- outcome of `storage.delete(key)` in the handler: it works, or it fails itself after having
    removed some of the files (never the directory) -/
inductive Del
  | ok
  | failed (rmMeta rmData : Bool)
  deriving DecidableEq, Repr

def cleanup : Del → Entry → Entry
  | .ok, _ => .absent
  | .failed _ _, .absent => .absent
  | .failed rmm rmd, .dir md d => .dir (if rmm then .absent else md) (if rmd then .absent else d)

structure FaultOut where
  entry : Entry
  /-- did `save` raise (the exception then leaves `run_or_load_task`: the task is reported failed) -/
  raised : Bool
  deriving DecidableEq, Repr

/-- **fault** at micro-step `k` (`eff`: the failing step had its effect before raising).
    `k = 0`: serialising raises, outside the `try`. `1 ≤ k ≤ total`: inside the `try` (`k = total`:
    an exception delivered after the last close, before `save` returns). `k > total`: no fault
    struck this save. -/
def faultSave (n m : Nat) (v : Ver) (pre : Entry) (k : Nat) (eff : Bool) (del : Del) : FaultOut :=
  if k = 0 then { entry := pre, raised := true }
  else if k ≤ total n m then
    let s := exec n m v pre (if eff then k + 1 else k)
    { entry := cleanup del (closeOnError n m v s).disk, raised := true }
  else { entry := (exec n m v pre (total n m)).disk, raised := false }

/-! ## the same save *without* the handler (the code before the repair of D7; used for the
    counter-example only) -/
def faultSaveNoCleanup (n m : Nat) (v : Ver) (pre : Entry) (k : Nat) (eff : Bool) : Entry :=
  (closeOnError n m v (exec n m v pre (if eff then k + 1 else k))).disk

/-! ## observations -/

/-- `Lab.is_cached` = `storage.exists(key)` = the key directory exists -/
def isCached : Entry → Bool
  | .absent => false
  | .dir _ _ => true

/-- `load_result_with_meta`: needs a complete result file *and* complete metadata; returns the value
    of the save that wrote the result file and the meta of the save that wrote `metadata.json` -/
inductive Load
  | ok (value : Ver) (mdoc : Ver)
  | fails
  deriving DecidableEq, Repr

def load : Entry → Load
  | .dir (.full mv) (.full v) => .ok v mv
  | _ => .fails

/-- `Lab.cached_tasks` for this key: needs the directory and complete metadata; incomplete metadata
    makes the whole call raise -/
inductive Listing
  | notListed
  | listed (mdoc : Ver)
  | raises
  deriving DecidableEq, Repr

def listing : Entry → Listing
  | .absent => .notListed
  | .dir (.full mv) _ => .listed mv
  | .dir _ _ => .raises

/-- the property's post-condition: not reported cached, or loads value and meta of one and the same
    save out of `good` -/
def safeB (good : List Ver) (e : Entry) : Bool :=
  !isCached e || good.any (fun v => load e == .ok v v)

/-- the pre-states: first save, or overwrite of a good entry written by save `old` -/
def preOf (overwrite : Bool) (old : Ver) : Entry :=
  if overwrite then .dir (.full old) (.full old) else .absent

/-- the values a later load may legitimately return -/
def goodOf (overwrite : Bool) (old new : Ver) : List Ver :=
  if overwrite then [old, new] else [new]

/-- first program counter at which a crash leaves the complete new entry -/
def completeAt (n m : Nat) (durable : Bool) : Nat :=
  if durable then 10 + n + m else 11 + n + m

/-- last crash point before anything of the existing state was touched: the key directory is
    created by micro-step 2 (first save), `metadata.json` is truncated by micro-step 3 (overwrite) -/
def untouchedUpTo (overwrite : Bool) : Nat := if overwrite then 3 else 2

/-- `run_or_load_task` after `run()` returned a value: the outcome handed to the coordinator -/
inductive TaskOutcome | ok | failed
  deriving DecidableEq, Repr

def runOrLoadOutcome (o : FaultOut) : TaskOutcome := if o.raised then .failed else .ok

end Lt.Save
