import LabtechModel.Model.Generated
/-!
# M8 Path — executable model of `labtech/storage.py` (`validate_file_path_key`, `LocalStorage`)

Import-free (only the generated constants).  Strings are `List Char`, an absolute path is the list of
its components from `/`.

* `FS` — a file tree as a finite map path ↦ `dir | file | link target` (first entry wins; `mkdir` =
  cons, `rmtree` = filter).  `lstat` is the plain lookup: it is what `os.lstat(q)` answers whenever
  no proper prefix of `q` is a symlink, which is the invariant `_joinrealpath` keeps for the paths it
  stats.  The theorems hold for *every* such list (also the ones no real tree corresponds to).
* `jr`/`jrAux` — CPython 3.12 `posixpath._joinrealpath(strict=False)`: empty / `.` / `..`
  components, `lstat` of each component, symlink expansion with the `seen` dictionary (cached
  results, loop detection), the *unresolved* return `join(newpath, rest), False` on a loop (where an
  absolute `rest` replaces what was resolved so far), lexical continuation past a missing component;
  the recursion depth (Python frames) is `fuel`, exhaustion = `RecursionError`.
* `resolve` — `Path.resolve()` = `abspath` (`normpath`, keeps exactly two leading slashes) of that,
  followed by the `stat()` whose `ELOOP` becomes `RuntimeError` (and whose embedded NUL is a
  `ValueError`).  `kwalk` is the kernel's own path walk (≤ 40 symlinks, `ENOENT/ENOTDIR/ELOOP/
  ENAMETOOLONG`).
* `pjoin` — pathlib's `/` (an absolute right operand replaces the left one; `''` and `.` components
  are dropped at parse time), `RPath.parent`.
* `validateKey` (with the `is_symlink` check of /repo commit becc08b), `keyToPath`, `opExists`, `opFileHandle`, `opDelete` — the code of `storage.py` as it
  is, returning the *effects* (the file-system calls made, with the path string handed to the OS),
  the *touched* nodes (what those calls create / write / remove, computed with `kwalk`) and the
  result or the exception class.
-/
namespace Lt.Path

abbrev Comp := List Char
/-- absolute path: components from `/` -/
abbrev P := List Comp

inductive Node where
  | dir
  | file
  | link (target : List Char)
deriving DecidableEq, Repr

abbrev FS := List (P × Node)

def dot : Comp := ['.']
def dotdot : Comp := ['.', '.']
def hasNul (c : Comp) : Bool := c.contains (Char.ofNat 0)
def utf8Len : Comp → Nat
  | [] => 0
  | c :: cs => c.utf8Size + utf8Len cs
/-- longer than NAME_MAX: every system call on it fails with ENAMETOOLONG -/
def tooLong (c : Comp) : Bool := 255 < utf8Len c

def Node.isLink : Node → Bool
  | .link _ => true
  | _ => false

def optIsLink : Option Node → Bool
  | some (.link _) => true
  | _ => false

/-- `os.lstat` of a path none of whose proper prefixes is a symlink (ENAMETOOLONG = absent) -/
def lstat (fs : FS) (p : P) : Option Node :=
  match p with
  | [] => some .dir
  | _ => if p.any tooLong then none else List.lookup p fs

/-- `s.split('/')` -/
def splitSlash : List Char → List (List Char)
  | [] => [[]]
  | c :: cs =>
    if c = '/' then [] :: splitSlash cs
    else match splitSlash cs with
      | [] => [[c]]
      | h :: t => (c :: h) :: t

def isAbs (s : List Char) : Bool := s.head? = some '/'

/-- components of a symlink target as `_joinrealpath` walks them (`rest = rest[1:]` when absolute) -/
def tgtComps (s : List Char) : P :=
  if isAbs s then (splitSlash s).drop 1 else splitSlash s

/-- a pathlib path: root `//` or `/`, and the parts -/
structure RPath where
  ds : Bool
  comps : P
deriving DecidableEq, Repr

def RPath.parent (p : RPath) : RPath := { p with comps := p.comps.dropLast }

def leadingSlashes : List Char → Nat
  | '/' :: cs => leadingSlashes cs + 1
  | _ => 0

/-- pathlib `base / s` -/
def pjoin (base : RPath) (s : List Char) : RPath :=
  let cs := (splitSlash s).filter (fun c => !(c == []) && !(c == dot))
  if isAbs s then { ds := leadingSlashes s == 2, comps := cs }
  else { base with comps := base.comps ++ cs }

/-! ## posixpath -/

/-- `normpath` of an absolute path, on components -/
def normAux : P → P → P
  | acc, [] => acc
  | acc, c :: cs =>
    if c = [] ∨ c = dot then normAux acc cs
    else if c = dotdot then normAux acc.dropLast cs
    else normAux (acc ++ [c]) cs
def normpath (p : P) : P := normAux [] p

/-- the remaining string `'/'.join(rest)` starts with `/` -/
def absRest : P → Bool
  | [] :: _ :: _ => true
  | _ => false
/-- … with exactly two slashes -/
def dsRest : P → Bool
  | [] :: [] :: [] :: _ :: _ => false
  | [] :: [] :: _ :: _ => true
  | _ => false

/-- `posixpath.join(path, rest)` for an absolute `path` -/
def joinStr (ds : Bool) (path : P) (rest : P) : Bool × P :=
  if absRest rest then (dsRest rest, rest) else (ds, path ++ rest)

inductive Err where
  | storage | value | runtime | recursion | fileNotFound | notADir | isADir | fileExists | os
deriving DecidableEq, Repr

abbrev Seen := List (P × Option P)

deriving instance DecidableEq for Except

structure JR where
  path : P
  ok : Bool
  ds : Bool
  seen : Seen
deriving DecidableEq, Repr

/-- the `while rest:` loop of `_joinrealpath`; `rec` is the recursive call for a symlink target -/
def jrAux (fs : FS) (rec : Seen → P → P → Except Err JR) : Seen → P → P → Except Err JR
  | seen, path, [] => .ok ⟨path, true, false, seen⟩
  | seen, path, name :: rest =>
    if name = [] ∨ name = dot then jrAux fs rec seen path rest
    else if name = dotdot then jrAux fs rec seen path.dropLast rest
    else if hasNul name then .error .value
    else
      match lstat fs (path ++ [name]) with
      | some (.link tgt) =>
        match List.lookup (path ++ [name]) seen with
        | some (some p) => jrAux fs rec seen p rest
        | some none => .ok ⟨(joinStr false (path ++ [name]) rest).2, false, (joinStr false (path ++ [name]) rest).1, seen⟩
        | none =>
          match rec ((path ++ [name], none) :: seen) (if isAbs tgt then [] else path) (tgtComps tgt) with
          | .error e => .error e
          | .ok r =>
            if r.ok then jrAux fs rec ((path ++ [name], some r.path) :: r.seen) r.path rest
            else .ok ⟨(joinStr r.ds r.path rest).2, false, (joinStr r.ds r.path rest).1, r.seen⟩
      | _ => jrAux fs rec seen (path ++ [name]) rest

def jr (fs : FS) : Nat → Seen → P → P → Except Err JR
  | 0 => fun _ _ _ => .error .recursion
  | n + 1 => jrAux fs (jr fs n)

/-! ## the kernel's path walk -/

inductive Errno where
  | enoent | enotdir | eloop | enametoolong
deriving DecidableEq, Repr

def isLast (rest : P) : Bool := rest.all (fun c => c == [])

/-- walk `rest` from the real directory `cur`; result = the real location of the final node (which
    may be absent).  `follow` continues after a symlink was read (one unit of the 40-link budget). -/
def kwalkAux (fs : FS) (followFinal : Bool) (follow : P → P → Except Errno P) : P → P → Except Errno P
  | cur, [] => .ok cur
  | cur, n :: rest =>
    if n = [] then kwalkAux fs followFinal follow cur rest
    else match lstat fs cur with
      | none => .error .enoent
      | some .file => .error .enotdir
      | some (.link _) => .error .enotdir
      | some .dir =>
        if n = dot then kwalkAux fs followFinal follow cur rest
        else if n = dotdot then kwalkAux fs followFinal follow cur.dropLast rest
        else if tooLong n then .error .enametoolong
        else match lstat fs (cur ++ [n]) with
          | some (.link tgt) =>
            if isLast rest && !followFinal then .ok (cur ++ [n])
            else follow (if isAbs tgt then [] else cur) (tgtComps tgt ++ rest)
          | _ => kwalkAux fs followFinal follow (cur ++ [n]) rest

def kwalk (fs : FS) (followFinal : Bool) : Nat → P → P → Except Errno P
  | 0 => fun _ _ => .error .eloop
  | b + 1 => kwalkAux fs followFinal (kwalk fs followFinal b)

/-- Linux MAXSYMLINKS -/
def linkBudget : Nat := 41

/-- `Path.resolve()` (non-strict) -/
def resolve (fs : FS) (fuel : Nat) (p : RPath) : Except Err RPath :=
  match jr fs fuel [] [] p.comps with
  | .error e => .error e
  | .ok r =>
    if (normpath r.path).any hasNul then .error .value
    else match kwalk fs true linkBudget [] (normpath r.path) with
      | .error .eloop => .error .runtime
      | _ => .ok ⟨(if r.ok then false else r.ds), normpath r.path⟩

/-! ## `storage.py` -/

def disallowed : List Char := Lt.Generated.disallowedKeyChars

inductive Effect where
  | mkdir (p : RPath)
  | stat (p : RPath)
  | lstatEnd (p : RPath)
  | openf (p : RPath) (mode : List Char)
  | rmtree (p : RPath)
deriving DecidableEq, Repr

inductive Touch where
  | createDir (p : P)
  | write (p : P)
  | remove (p : P)
deriving DecidableEq, Repr

inductive Res where
  | bool (b : Bool)
  | handle
  | none
deriving DecidableEq, Repr

structure Outcome where
  effects : List Effect
  touched : List Touch
  result : Except Err Res

/-- `Path.exists()` -/
def pathExists (fs : FS) (p : RPath) : Except Err Bool :=
  match kwalk fs true linkBudget [] p.comps with
  | .error .enametoolong => .error .os
  | .error _ => .ok false
  | .ok loc => .ok (lstat fs loc).isSome

/-- `Path.is_symlink()` -/
def pathIsSymlink (fs : FS) (p : RPath) : Except Err Bool :=
  match kwalk fs false linkBudget [] p.comps with
  | .error .enametoolong => .error .os
  | .error _ => .ok false
  | .ok loc => .ok (optIsLink (lstat fs loc))

/-- `validate_file_path_key` -/
def validateKey (fs : FS) (fuel : Nat) (sp : RPath) (key : List Char) : Except Err Unit :=
  if key = [] then .error .storage
  else if disallowed.any (fun c => key.contains c) then .error .storage
  else match resolve fs fuel (pjoin sp key) with
    | .error e => .error e
    | .ok kp =>
      match resolve fs fuel sp with
      | .error e => .error e
      | .ok r =>
        if kp.parent ≠ r then .error .storage
        else match pathIsSymlink fs kp with
          | .error e => .error e
          | .ok true => .error .storage
          | .ok false => .ok ()

/-- `LocalStorage._key_to_path` -/
def keyToPath (fs : FS) (fuel : Nat) (sp : RPath) (key : List Char) : Except Err RPath :=
  match validateKey fs fuel sp key with
  | .error e => .error e
  | .ok () => resolve fs fuel (pjoin sp key)

def errOfErrno : Errno → Err
  | .enoent => .fileNotFound
  | .enotdir => .notADir
  | _ => .os

inductive MkdirRes where
  | created (loc : P)
  | existed
  | failed (e : Err)

/-- `os.mkdir` with `FileExistsError` swallowed -/
def doMkdir (fs : FS) (p : RPath) : MkdirRes :=
  match kwalk fs false linkBudget [] p.comps with
  | .error e => .failed (errOfErrno e)
  | .ok loc =>
    match lstat fs loc with
    | some _ => .existed
    | none => .created loc

def fsAfterMkdir (fs : FS) : MkdirRes → FS
  | .created loc => (loc, .dir) :: fs
  | _ => fs
def touchOfMkdir : MkdirRes → List Touch
  | .created loc => [.createDir loc]
  | _ => []

/-- does the harness write through a handle opened with this mode -/
def modeWrites (mode : List Char) : Bool :=
  mode.contains 'w' || mode.contains 'a' || mode.contains 'x' || mode.contains '+'

/-- `io.open(path, mode)` (valid modes only) -/
def doOpen (fs : FS) (p : RPath) (mode : List Char) : List Touch × Except Err Res :=
  if mode.contains 'x' then
    match kwalk fs false linkBudget [] p.comps with
    | .error e => ([], .error (errOfErrno e))
    | .ok loc =>
      match lstat fs loc with
      | some _ => ([], .error .fileExists)
      | none => ([.write loc], .ok .handle)
  else
    match kwalk fs true linkBudget [] p.comps with
    | .error e => ([], .error (errOfErrno e))
    | .ok loc =>
      match lstat fs loc with
      | some .dir => ([], .error .isADir)
      | some _ => (if modeWrites mode then [.write loc] else [], .ok .handle)
      | none =>
        if mode.contains 'w' || mode.contains 'a' then ([.write loc], .ok .handle)
        else ([], .error .fileNotFound)

/-- `shutil.rmtree` -/
def doRmtree (fs : FS) (p : RPath) : List Touch × Except Err Res :=
  match kwalk fs false linkBudget [] p.comps with
  | .error e => ([], .error (errOfErrno e))
  | .ok loc =>
    match lstat fs loc with
    | some .dir => ([.remove loc], .ok .none)
    | some .file => ([], .error .notADir)
    | some (.link _) => ([], .error .os)
    | none => ([], .error .fileNotFound)

/-- `LocalStorage.exists` -/
def opExists (fs : FS) (fuel : Nat) (sp : RPath) (key : List Char) : Outcome :=
  match keyToPath fs fuel sp key with
  | .error e => ⟨[], [], .error e⟩
  | .ok kp =>
    match pathExists fs kp with
    | .error e => ⟨[.stat kp], [], .error e⟩
    | .ok b => ⟨[.stat kp], [], .ok (.bool b)⟩

/-- `LocalStorage.file_handle` -/
def opFileHandle (fs : FS) (fuel : Nat) (sp : RPath) (key fname mode : List Char) : Outcome :=
  match keyToPath fs fuel sp key with
  | .error e => ⟨[], [], .error e⟩
  | .ok kp =>
    match doMkdir fs kp with
    | .failed e => ⟨[.mkdir kp], [], .error e⟩
    | m =>
      match resolve (fsAfterMkdir fs m) fuel (pjoin kp fname) with
      | .error e => ⟨[.mkdir kp], touchOfMkdir m, .error e⟩
      | .ok fp =>
        if fp.parent ≠ kp then ⟨[.mkdir kp], touchOfMkdir m, .error .storage⟩
        else match pathIsSymlink (fsAfterMkdir fs m) fp with
          | .error e => ⟨[.mkdir kp, .lstatEnd fp], touchOfMkdir m, .error e⟩
          | .ok true => ⟨[.mkdir kp, .lstatEnd fp], touchOfMkdir m, .error .storage⟩
          | .ok false =>
            ⟨[.mkdir kp, .lstatEnd fp, .openf fp mode],
             touchOfMkdir m ++ (doOpen (fsAfterMkdir fs m) fp mode).1,
             (doOpen (fsAfterMkdir fs m) fp mode).2⟩

/-- `LocalStorage.delete` -/
def opDelete (fs : FS) (fuel : Nat) (sp : RPath) (key : List Char) : Outcome :=
  match keyToPath fs fuel sp key with
  | .error e => ⟨[], [], .error e⟩
  | .ok kp =>
    match pathExists fs kp with
    | .error e => ⟨[.stat kp], [], .error e⟩
    | .ok false => ⟨[.stat kp], [], .ok .none⟩
    | .ok true => ⟨[.stat kp, .rmtree kp], (doRmtree fs kp).1, (doRmtree fs kp).2⟩

/-- the pre-repair `file_handle` (before /repo commit a78c04e): no `is_symlink` check.  Kept only for
    the witness that the check is needed. -/
def opFileHandleOld (fs : FS) (fuel : Nat) (sp : RPath) (key fname mode : List Char) : Outcome :=
  match keyToPath fs fuel sp key with
  | .error e => ⟨[], [], .error e⟩
  | .ok kp =>
    match doMkdir fs kp with
    | .failed e => ⟨[.mkdir kp], [], .error e⟩
    | m =>
      match resolve (fsAfterMkdir fs m) fuel (pjoin kp fname) with
      | .error e => ⟨[.mkdir kp], touchOfMkdir m, .error e⟩
      | .ok fp =>
        if fp.parent ≠ kp then ⟨[.mkdir kp], touchOfMkdir m, .error .storage⟩
        else ⟨[.mkdir kp, .openf fp mode],
              touchOfMkdir m ++ (doOpen (fsAfterMkdir fs m) fp mode).1,
              (doOpen (fsAfterMkdir fs m) fp mode).2⟩

end Lt.Path
