/-!
# Class and enum-member resolution of the deserialiser (`Serializer.deserialize_class`, `deserialize_enum`)

`serialize_class` writes a class as `f'{cls.__module__}.{cls.__qualname__}'`.  `deserialize_class` has to find
out where the module path ends and the qualified name begins.  Since the repair D26 it tries
`__import__` on everything before the LAST dot and, while that raises `ModuleNotFoundError` for a prefix of
that very path, moves one more component from the module path to the attribute path; then it walks the
attributes with `getattr`.

A **world** is a finite description of what the import system would find, in a *fresh* import state
(no module of the tree imported yet, and no package `__init__` that binds a submodule over a class name):
which dotted paths are importable modules, which of them fail while they execute with a
`ModuleNotFoundError` for a *foreign* name (a missing dependency: `import zz_missing_dep` in the module
body), and which attribute chains exist on a module (chains of classes nested in classes).

`enumMember` / `memberName` model `deserialize_enum` / `serialize_enum` since the repair D27: a Flag value
without a name of its own is written by the names of its parts (`'R|W'`), unnamed bits by their number
(`'A|8'`), a value with no named part by its number (`'0'`, `'8'`).

Import-free and executable (driver word `CLSRES`).
-/
namespace Lt.ClassRes

/-- results are compared by `decide` in the examples -/
scoped instance {ε α : Type} [DecidableEq ε] [DecidableEq α] : DecidableEq (Except ε α)
  | .ok a, .ok b => if h : a = b then isTrue (h ▸ rfl) else isFalse (fun h' => h (Except.ok.inj h'))
  | .error a, .error b => if h : a = b then isTrue (h ▸ rfl) else isFalse (fun h' => h (Except.error.inj h'))
  | .ok _, .error _ => isFalse (fun h => nomatch h)
  | .error _, .ok _ => isFalse (fun h => nomatch h)

/-! ### strings as component lists -/

/-- `s.split(c)` on characters: always at least one piece -/
def splitOnC (c : Char) : List Char → List (List Char)
  | [] => [[]]
  | x :: xs =>
    match splitOnC c xs with
    | [] => [[]]
    | p :: ps => if x = c then [] :: p :: ps else (x :: p) :: ps

/-- `c.join(pieces)` on characters -/
def joinC (c : Char) : List (List Char) → List Char
  | [] => []
  | [p] => p
  | p :: q :: rest => p ++ c :: joinC c (q :: rest)

def splitStr (c : Char) (s : String) : List String := (splitOnC c s.toList).map String.ofList
def joinStr (c : Char) (ps : List String) : String := String.ofList (joinC c (ps.map String.toList))

/-- a name without the separator -/
def freeOf (c : Char) (s : String) : Bool := s.toList.all (fun x => x != c)

/-! ### worlds -/

/-- what the import system finds.  Paths are component lists (`pkg.mod` is `["pkg", "mod"]`). -/
structure World where
  /-- importable dotted paths (packages and modules) -/
  modules : List (List String)
  /-- modules whose body raises `ModuleNotFoundError` for a name that is not a prefix of their own path -/
  broken : List (List String)
  /-- per module: the attribute chains that exist on it (every class, by its qualified name) -/
  attrs : List (List String × List (List String))

def World.attrsOf (w : World) (m : List String) : List (List String) :=
  match w.attrs.find? (fun p => p.1 == m) with
  | some p => p.2
  | none => []

/-- outcome of one `__import__` -/
inductive Imp where
  | ok
  /-- `ModuleNotFoundError` whose `.name` is the first missing prefix of the requested path -/
  | notFound
  /-- `ModuleNotFoundError` raised inside a module body, for a foreign name -/
  | foreign
  deriving DecidableEq, Repr

/-- the import system imports the parents first: the first prefix that is no module, or that fails
while executing, decides.  `done` is the part already imported. -/
def importFrom (w : World) : List String → List String → Imp
  | _, [] => .ok
  | done, x :: rest =>
    let p := done ++ [x]
    if w.modules.contains p then
      if w.broken.contains p then .foreign else importFrom w p rest
    else .notFound

def importMod (w : World) (p : List String) : Imp := importFrom w [] p

/-- `__import__(M, fromlist=[a])`: imports `M`; if `M` then has no attribute `a`, `_handle_fromlist` tries to
import the submodule `M.a` - a `ModuleNotFoundError` for exactly that name is swallowed, anything else
(a missing dependency of the submodule) propagates. -/
def importWith (w : World) (M : List String) (a : String) : Imp :=
  match importMod w M with
  | .ok =>
    if (w.attrsOf M).contains [a] then .ok
    else match importMod w (M ++ [a]) with
      | .foreign => .foreign
      | _ => .ok
  | e => e

inductive ResErr where
  | moduleNotFound
  | attributeError
  /-- no dot in the string: `rsplit('.', 1)` gives one part, the unpacking fails -/
  | valueError
  deriving DecidableEq, Repr

/-- an object found: the module it lives in and its attribute chain (`[]`: the module object itself) -/
abbrev Obj := List String × List String

/-- the `getattr` loop below an object that is an attribute chain `ap` of module `mp` -/
def walkFrom (w : World) (mp : List String) : List String → List String → Option Obj
  | ap, [] => some (mp, ap)
  | ap, x :: rest => if (w.attrsOf mp).contains (ap ++ [x]) then walkFrom w mp (ap ++ [x]) rest else none

/-- `for attr_name in attr_names: cls = getattr(cls, attr_name)` starting at module `M`.  The first name may
also be a submodule that the `fromlist` import has just bound on the package.  Which error surfaces:
`AttributeError` if nothing was shifted (one name), the last `ModuleNotFoundError` otherwise. -/
def walk (w : World) (M : List String) (names : List String) : Except ResErr Obj :=
  let r : Option Obj :=
    match names with
    | [] => none
    | a :: rest =>
      if (w.attrsOf M).contains [a] then walkFrom w M [a] rest
      else if w.modules.contains (M ++ [a]) then walkFrom w (M ++ [a]) [] rest
      else none
  match r with
  | some o => .ok o
  | none => .error (if names.length = 1 then .attributeError else .moduleNotFound)

/-- the `while True` loop, by the number `k` of components currently taken as module path.
`notFound` with more than one component left: shift one component and try again; with one component
(`'.' not in cls_module`): re-raise.  `foreign`: re-raised unchanged (`not is_module_path`). -/
def resolveAt (w : World) (comps : List String) : Nat → Except ResErr Obj
  | 0 => .error .moduleNotFound
  | k + 1 =>
    let M := comps.take (k + 1)
    let names := comps.drop (k + 1)
    match importWith w M (names.headD "") with
    | .ok => walk w M names
    | .foreign => .error .moduleNotFound
    | .notFound => if k = 0 then .error .moduleNotFound else resolveAt w comps k

def resolveComps (w : World) (comps : List String) : Except ResErr Obj :=
  if comps.length < 2 then .error .valueError else resolveAt w comps (comps.length - 1)

/-- `deserialize_class(s)` in world `w` (strings whose first component is empty are outside the model:
`__import__('')` is a `ValueError`, `__import__('.pkg')` imports `pkg` under the name `.pkg`) -/
def resolve (w : World) (s : String) : Except ResErr Obj := resolveComps w (splitStr '.' s)

/-- the rule before D26: split at the last dot, import, one `getattr` -/
def resolveOldComps (w : World) (comps : List String) : Except ResErr Obj :=
  if comps.length < 2 then .error .valueError else
    let M := comps.take (comps.length - 1)
    let names := comps.drop (comps.length - 1)
    match importWith w M (names.headD "") with
    | .ok => walk w M names
    | _ => .error .moduleNotFound

def resolveOld (w : World) (s : String) : Except ResErr Obj := resolveOldComps w (splitStr '.' s)

/-- `serialize_class` for a class with module path `m` and qualified name `q` -/
def ser (m q : List String) : String := joinStr '.' (m ++ q)

/-! ### enum members (D27) -/

/-- an enum class: its `_member_map_` in definition order (names distinct; values are `Nat`: Flag values
are bit sets).  `isFlag`: a `Flag` subclass.  `keep`: boundary `KEEP` (the default of `IntFlag`) - bits that
no member names are allowed; otherwise (`STRICT`, the default of `Flag`) such a value cannot be built.
Faithful to Python's `enum` for classes with distinct values whose multi-bit members are ORs of single-bit members
(what the correspondence check generates); boundaries `CONFORM` / `EJECT` and negative values are not modelled. -/
structure EnumCls where
  members : List (String × Nat)
  isFlag : Bool
  keep : Bool

/-- `_is_single_bit` -/
def isPow2 (n : Nat) : Bool := n == 2 ^ n.log2

def orAll (l : List Nat) : Nat := l.foldr (fun a b => a ||| b) 0

/-- `_singles_mask_` -/
def EnumCls.singles (e : EnumCls) : Nat := orAll ((e.members.filter (fun p => isPow2 p.2)).map Prod.snd)

/-- `enum_cls[name]` -/
def EnumCls.byName (e : EnumCls) (n : String) : Option Nat :=
  match e.members.find? (fun p => p.1 == n) with
  | some p => some p.2
  | none => none

/-- `_value2member_map_`: the first member defined with that value -/
def EnumCls.nameOf (e : EnumCls) (v : Nat) : Option String :=
  match e.members.find? (fun p => p.2 == v) with
  | some p => some p.1
  | none => none

/-- `enum_cls(v)` succeeds: a member's value; for a Flag any bit set that is within the single-bit members,
or any bit set at all under `KEEP` -/
def EnumCls.valid (e : EnumCls) (v : Nat) : Bool :=
  (e.nameOf v).isSome || (e.isFlag && (e.keep || (v &&& e.singles) == v))

def digitsOf (n : Nat) : String := String.ofList (Nat.toDigits 10 n)

/-- `int(part)` for plain ASCII decimal numerals (anything else is a `ValueError` here; Python also accepts
signs, blanks, underscores and other digits - outside the model) -/
def parseNat (s : String) : Option Nat :=
  let cs := s.toList
  if cs.isEmpty || !cs.all Char.isDigit then none
  else some (Nat.ofDigitChars 10 cs 0)

/-- the parts Python's `Flag._missing_` names a pseudo-member after: the single-bit members contained in `v`
(`_iter_member_`: by value if the class defines them in increasing order, else by definition - which is
definition order either way); if `v` has bits outside the single-bit members, also every multi-bit member
contained in `v` (definition order) -/
def EnumCls.parts (e : EnumCls) (v : Nat) : List (String × Nat) :=
  let singles := e.members.filter (fun p => isPow2 p.2 && (p.2 &&& v) == p.2)
  let extra := if (v &&& e.singles) == v then []
    else e.members.filter (fun p => p.2 != 0 && !isPow2 p.2 && (p.2 &&& v) == p.2)
  singles ++ extra

/-- `serialize_enum(v)['name']`: `v.name`, for a Flag pseudo-member the joined names of its parts plus the
number of the unnamed rest; `str(v.value)` when Python gives no name at all.  `none`: no such value. -/
def memberName (e : EnumCls) (v : Nat) : Option String :=
  if !e.valid v then none else
  match e.nameOf v with
  | some n => some n
  | none =>
    let ps := e.parts v
    let combined := orAll (ps.map Prod.snd)
    let unknown := v ^^^ combined
    if combined == 0 then some (digitsOf v)
    else some (joinStr '|' (ps.map Prod.fst ++ (if unknown == 0 then [] else [digitsOf unknown])))

/-- the naming before D27: Python's `name` as it is, `None` for a value without a named part -/
def memberNameOld (e : EnumCls) (v : Nat) : Option (Option String) :=
  if !e.valid v then none else
  match e.nameOf v with
  | some n => some (some n)
  | none =>
    let ps := e.parts v
    let combined := orAll (ps.map Prod.snd)
    let unknown := v ^^^ combined
    if combined == 0 then some none
    else some (some (joinStr '|' (ps.map Prod.fst ++ (if unknown == 0 then [] else [digitsOf unknown]))))

/-- `enum_cls(n)`: `ValueError` as `none` -/
def EnumCls.construct (e : EnumCls) (n : Nat) : Option Nat := if e.valid n then some n else none

/-- `enum_cls[part] if part in enum_cls.__members__ else enum_cls(int(part))`; `ValueError` as `none` -/
def EnumCls.part (e : EnumCls) (p : String) : Option Nat :=
  match e.byName p with
  | some v => some v
  | none =>
    match parseNat p with
    | some n => e.construct n
    | none => none

/-- `combination |= …` over the parts (`Flag.__or__` builds `enum_cls(a | b)`) -/
def combine (e : EnumCls) : Nat → List String → Option Nat
  | acc, [] => some acc
  | acc, p :: rest =>
    match e.part p with
    | some v =>
      match e.construct (acc ||| v) with
      | some acc' => combine e acc' rest
      | none => none
    | none => none

inductive EnumErr where
  | keyError
  deriving DecidableEq, Repr

/-- `deserialize_enum` once the class is found: the member of that name; for a Flag class otherwise the OR of
the parts; `KeyError` for an unknown name or part -/
def enumMember (e : EnumCls) (name : String) : Except EnumErr Nat :=
  match e.byName name with
  | some v => .ok v
  | none =>
    if !e.isFlag then .error .keyError
    else match combine e 0 (splitStr '|' name) with
      | some v => .ok v
      | none => .error .keyError

/-- the lookup before D27: `enum_cls[name]` -/
def enumMemberOld (e : EnumCls) (name : String) : Except EnumErr Nat :=
  match e.byName name with
  | some v => .ok v
  | none => .error .keyError

end Lt.ClassRes
